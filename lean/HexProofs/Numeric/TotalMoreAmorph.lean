import HexProofs.Numeric.Total
import HexProofs.Analysis.Final
import HexProofs.Analysis.PatternSpec
import HexProofs.Analysis.Dispatch
import HexProofs.Lib.IntInst
/-!
# `Amorph` never raises and has no gaps (property C09, item (c))

`Amorph` wraps one of the twenty movement / pattern functions of `hexital.analysis`
(`Kind.amorph a`, `a : Analysis`).  C16 proves that none of them can raise on ANY readings and ANY
index (`Ana.runAnalysis_total`); through the leaf contract of the framework (`Covered.amorph`: the
columns the function names are candle attributes) and `leaf_total_of` this gives, for EVERY float
carrier `F` (no field arithmetic is involved – so also for the executed IEEE `Float`) and every
manager with an incremental spec (`MgrSpec`: base / timeframe / timeframe + fill, and the
Heikin-Ashi ones of TotalMoreHA.lean):

* `amorph_never_raises` – construction over any prefix, `calculate()`, any appends return;
* `amorph_bool_no_gaps` – the fifteen bool-valued functions (`Analysis.isBool`: positive, negative,
  above, below, rising, falling, mean_rising, mean_falling, cross, crossover, crossunder, doji,
  dojistar, hammer, inverted hammer) store a Python bool on EVERY candle (never `None`);
* `amorph_bar_no_gaps` – `highestbar` / `lowestbar` store a Python int on every candle;
* `amorph_extreme_no_gaps` – `highest` / `lowest` (`length ≥ 1`) over a numeric candle field store
  a number on every candle (type kept);
* `amorph_range_no_gaps` – `value_range` (`length ≥ 2`) over a numeric candle field: `None` on
  candle 0 (one reading is no range), a number on every candle from 1 on.
-/
set_option linter.unusedSectionVars false
set_option linter.unusedVariables false
namespace Hex
open Hex.Ana Hex.Numeric
variable {F : Type} [PyF F]

/-- the wrapped functions that answer with a Python bool -/
def Analysis.isBool : Analysis → Bool
  | .valueRange .. | .highest .. | .lowest .. | .highestbar .. | .lowestbar .. => false
  | _ => true

theorem decides_bool {r : PyM (Val F)} {P : Prop} (h : Decides r P) : ∃ b, r = .ok (.bool b) :=
  h.elim fun b hb => ⟨b, hb.1⟩

/-- at a valid index every bool-valued function returns a Python bool – whatever the readings -/
theorem runAnalysis_bool (a : Analysis) (ha : a.isBool = true) (cs : List (Candle F)) (i : Int)
    (h0 : 0 ≤ i) (hi : i < cs.length) : ∃ b, runAnalysis a cs i = .ok (.bool b) := by
  cases a with
  | positive =>
    simp only [runAnalysis, Mov.positive]
    split
    · exact ⟨_, rfl⟩
    · split <;> exact ⟨_, rfl⟩
  | negative =>
    simp only [runAnalysis, Mov.negative]
    split
    · exact ⟨_, rfl⟩
    · split <;> exact ⟨_, rfl⟩
  | above x y => exact decides_bool (above_decides cs x y i)
  | below x y => exact decides_bool (below_decides cs x y i)
  | valueRange ind n => cases ha
  | rising ind n => exact decides_bool (rising_decides cs ind n i h0 hi)
  | falling ind n => exact decides_bool (falling_decides cs ind n i h0 hi)
  | meanRising ind n => exact decides_bool (meanRising_decides cs ind n i h0 hi)
  | meanFalling ind n => exact decides_bool (meanFalling_decides cs ind n i h0 hi)
  | highest ind n => cases ha
  | lowest ind n => cases ha
  | highestbar ind n => cases ha
  | lowestbar ind n => cases ha
  | cross x y n => exact decides_bool (cross_decides cs x y n i h0 hi)
  | crossover x y n => exact decides_bool (crossover_decides cs x y n i h0 hi)
  | crossunder x y n => exact decides_bool (crossunder_decides cs x y n i h0 hi)
  | doji lb => exact ⟨_, pattern_spec dojiAt_spec cs lb i h0 hi⟩
  | dojistar lb => exact ⟨_, pattern_spec dojistarAt_spec cs lb i h0 hi⟩
  | hammer lb => exact ⟨_, pattern_spec hammerAt_spec cs lb i h0 hi⟩
  | invHammer lb => exact ⟨_, pattern_spec invHammerAt_spec cs lb i h0 hi⟩

theorem pym_bind_ok' {α β : Type} {m : PyM α} {k : α → PyM β} {v : β} (h : (m >>= k) = .ok v) :
    ∃ r, m = .ok r ∧ k r = .ok v := by
  cases m with
  | error e => cases h
  | ok r => exact ⟨r, rfl, h⟩

theorem deco_bare_mem (nm : String) (A : List (Candle F)) : ∀ (vs : List (Val F)), ∀ c ∈ deco nm A vs,
    c.bare ∈ A.map Candle.bare := by
  induction A with
  | nil => intro vs c hc; simp [deco] at hc
  | cons a r ih =>
    intro vs c hc
    cases vs with
    | nil => simp [deco] at hc
    | cons v vs' =>
      simp only [deco, List.zipWith_cons_cons, List.mem_cons] at hc
      rcases hc with rfl | hc
      · simp [setKey, Candle.bare]
      · exact List.mem_cons_of_mem _ (ih vs' c hc)

/-- `highestbar` / `lowestbar` return a Python int at every valid index – whatever the readings -/
theorem extremeBar_int (cs : List (Candle F)) (ind : String) (n : Int) (better : Num F → Num F → Bool)
    (i : Int) (h0 : 0 ≤ i) (hi : i < cs.length) : ∃ d : Int, Mov.extremeBar cs ind n i better = .ok (.int d) := by
  obtain ⟨v, hv⟩ := extremeBar_total ind n better cs i
  simp only [Mov.extremeBar, absIndex_self i cs.length h0 hi] at hv ⊢
  obtain ⟨p, hp, hk⟩ := pym_bind_ok' hv
  rw [hp]
  exact ⟨p.2, rfl⟩

/-! ### the series -/

/-- **Series theorem for `Amorph`**: the row-major run returns on EVERY candle list, and every stored
reading satisfies whatever the wrapped function's answers at the last index of a list satisfy -/
theorem amorph_series (a : Analysis) (nm : String) (n : Nat) (raw : List (Candle F))
    (Q : Nat → Val F → Prop)
    (hQ : ∀ (cs : List (Candle F)) (i : Nat), cs.length = i + 1 → i < raw.length →
      (∀ c ∈ cs, c.bare ∈ raw.map Candle.bare) →
      ∀ v, runAnalysis a cs (i : Int) = .ok v → Q i (v.roundBy n)) :
    ∃ vs : List (Val F), vs.length = raw.length ∧
      rowMajor (mkTop (.amorph a) nm n) raw = .ok (deco nm raw vs) ∧
      ∀ j, j < raw.length → Q j (vs.getD j .none) := by
  refine series_induct (mkTop (.amorph a) nm n) nm rfl rfl raw Q ?_
  intro m hm vs hvs _
  change ∃ v, runAnalysis a (stepCtx nm raw vs m).cs (stepCtx nm raw vs m).i = .ok v ∧ Q m (v.roundBy n)
  obtain ⟨v, hv⟩ := runAnalysis_total a (stepCtx nm raw vs m).cs (stepCtx nm raw vs m).i
  refine ⟨v, hv, hQ _ m (stepCtx_length nm raw vs m hm hvs) hm ?_ v hv⟩
  intro c hc
  simp only [stepCtx, List.mem_append, List.mem_singleton] at hc
  rcases hc with hc | rfl
  · obtain ⟨r, hr, hrc⟩ := List.mem_map.1 (deco_bare_mem nm _ vs c hc)
    exact List.mem_map.2 ⟨r, List.mem_of_mem_take hr, hrc⟩
  · refine List.mem_map.2 ⟨raw.getD m default, ?_, rfl⟩
    rw [List.getD_eq_getElem?_getD, List.getElem?_eq_getElem hm]
    exact List.getElem_mem _

/-- the rows with a predicate on the own reading -/
theorem amorph_rows (a : Analysis) (nm : String) (n : Nat) (hk : IsKey nm) (raw : List (Candle F))
    (Q : Nat → Val F → Prop)
    (hQ : ∀ (cs : List (Candle F)) (i : Nat), cs.length = i + 1 → i < raw.length →
      (∀ c ∈ cs, c.bare ∈ raw.map Candle.bare) →
      ∀ v, runAnalysis a cs (i : Int) = .ok v → Q i (v.roundBy n)) :
    ∃ out, rowMajor (mkTop (.amorph a) nm n) raw = .ok out ∧ out.length = raw.length ∧
      ∀ j, j < out.length → Q j (own nm (out.getD j default)) := by
  obtain ⟨vs, hl, hrun, hall⟩ := amorph_series a nm n raw Q hQ
  have hlen := deco_length nm raw vs hl
  refine ⟨_, hrun, hlen, fun j hj => ?_⟩
  unfold own
  rw [own_deco nm hk raw vs hl j (hlen ▸ hj)]
  exact hall j (hlen ▸ hj)

/-! ### never raises -/

/-- **`Amorph` never raises** – every wrapped function, every argument, every float carrier, every
manager with an incremental spec: constructing the indicator over any initial part of a stream the
manager accepts, `calculate()`, and appending the rest in any chunking return.  (The columns the
wrapped function names must be candle attributes – the leaf contract; the functions themselves are
total on any readings, C16.) -/
theorem amorph_never_raises (M : MgrSpec F) (a : Analysis) (nm : String) (n : Nat)
    (hin : ∀ x ∈ a.names, AttrInput x) : NeverRaises M (mkTop (.amorph a : Kind F) nm n) :=
  (leaf_total_of _ nm n (Covered.amorph a hin) (fun _ _ => True) (fun raw _ => by
    obtain ⟨vs, _, hrun, _⟩ := amorph_series a nm n raw (fun _ _ => True) (fun _ _ _ _ _ _ _ => trivial)
    exact ⟨_, hrun, trivial⟩) M).1

/-! ### no gaps -/

/-- the own reading is a Python bool on every candle (one output candle per manager candle) -/
def BoolEvery (nm : String) (raw out : List (Candle F)) : Prop :=
  out.length = raw.length ∧ ∀ j, j < out.length → ∃ b : Bool, own nm (out.getD j default) = .bool b

/-- **the bool-valued functions have no gaps**: a Python bool on EVERY candle, never `None` -/
theorem amorph_bool_no_gaps (M : MgrSpec F) (a : Analysis) (ha : a.isBool = true) (nm : String) (n : Nat)
    (hk : IsKey nm) (hin : ∀ x ∈ a.names, AttrInput x) :
    Always M (mkTop (.amorph a : Kind F) nm n) (BoolEvery nm) :=
  (leaf_total_of _ nm n (Covered.amorph a hin) (BoolEvery nm) (fun raw _ => by
    obtain ⟨out, hrun, hl, hall⟩ := amorph_rows a nm n hk raw (fun _ v => ∃ b : Bool, v = .bool b)
      (fun cs i hcs _ _ v hv => by
        obtain ⟨b, hb⟩ := runAnalysis_bool a ha cs i (by omega) (by omega)
        rw [hb] at hv; cases hv; exact ⟨b, rfl⟩)
    exact ⟨out, hrun, hl, hall⟩) M).2

/-- **`highestbar` / `lowestbar` have no gaps**: a Python int on every candle -/
theorem amorph_bar_no_gaps (M : MgrSpec F) (ind : String) (len : Int) (nm : String) (n : Nat)
    (hk : IsKey nm) (hin : AttrInput ind) :
    Always M (mkTop (.amorph (.highestbar ind len) : Kind F) nm n) (NoGaps (own nm) 0) ∧
    Always M (mkTop (.amorph (.lowestbar ind len) : Kind F) nm n) (NoGaps (own nm) 0) := by
  have key : ∀ (better : Num F → Num F → Bool) (cs : List (Candle F)) (i : Nat), cs.length = i + 1 →
      ∀ v, Mov.extremeBar cs ind len (i : Int) better = .ok v → NumFrom 0 i (v.roundBy n) := by
    intro better cs i hcs v hv
    obtain ⟨d, hd⟩ := extremeBar_int cs ind len better i (by omega) (by omega)
    rw [hd] at hv; cases hv
    exact ⟨fun h => absurd h (by omega), fun _ => ⟨.int d, rfl⟩⟩
  refine ⟨(leaf_total_of _ nm n (Covered.amorph _ (by simpa [Analysis.names] using hin)) _ (fun raw _ => ?_) M).2,
    (leaf_total_of _ nm n (Covered.amorph _ (by simpa [Analysis.names] using hin)) _ (fun raw _ => ?_) M).2⟩
  · obtain ⟨out, hrun, hl, hall⟩ := amorph_rows (.highestbar ind len) nm n hk raw (fun j v => NumFrom 0 j v)
      (fun cs i hcs _ _ v hv => key _ cs i hcs v hv)
    exact ⟨out, hrun, hl, hall⟩
  · obtain ⟨out, hrun, hl, hall⟩ := amorph_rows (.lowestbar ind len) nm n hk raw (fun j v => NumFrom 0 j v)
      (fun cs i hcs _ _ v hv => key _ cs i hcs v hv)
    exact ⟨out, hrun, hl, hall⟩

/-! ### `highest` / `lowest` / `value_range` over a numeric candle field -/

theorem pySlice_nat_length {α : Type} (cs : List α) (s e : Nat) (hs : s < e) (he : e ≤ cs.length) :
    (pySlice cs (s : Int) (e : Int)).length = e - s := by
  unfold pySlice
  have a1 : ¬ (s : Int) < 0 := by omega
  have a2 : ¬ (s : Int) > (cs.length : Int) := by omega
  have a3 : ¬ (e : Int) < 0 := by omega
  have a4 : ¬ (e : Int) > (cs.length : Int) := by omega
  have a5 : ¬ (s : Int) ≥ (e : Int) := by omega
  simp only [a1, a2, a3, a4, a5, if_false]
  have e1 : ((e : Int) - (s : Int)).toNat = e - s := by omega
  simp only [Int.toNat_natCast, e1, List.length_take, List.length_drop]
  omega

/-- over a numeric candle field nothing is filtered out: the window `max(i−n, 0) … i` has
`min n i + 1` clean readings -/
theorem cleanScalars_attr_length (cs : List (Candle F)) (ind : String) (f : Candle F → Num F)
    (hf : ∀ c, readingByCandle c ind = .num (f c)) (n i : Nat) (hi : i < cs.length) :
    (Mov.cleanScalars cs ind (n : Int) (i : Int) true).length = i - (i - n) + 1 := by
  unfold Mov.cleanScalars
  simp only [if_true]
  have est : (if (i : Int) - (n : Int) < 0 then (0 : Int) else (i : Int) - (n : Int)) = ((i - n : Nat) : Int) := by
    split_ifs <;> omega
  have een : (i : Int) + 1 = ((i + 1 : Nat) : Int) := by push_cast; rfl
  rw [est, een]
  have hfm : ∀ (g : Val F → Option (Scalar F)), (∀ x : Num F, ∃ y, g (.num x) = some y) →
      ∀ l : List (Candle F), ((l.map fun c => readingByCandle c ind).reverse.filterMap g).length = l.length := by
    intro g hg l
    induction l with
    | nil => rfl
    | cons c r ih =>
      obtain ⟨y, hy⟩ := hg (f c)
      simp only [List.map_cons, List.reverse_cons, List.filterMap_append, List.length_append, ih, hf c,
        List.filterMap_cons, List.filterMap_nil, List.length_cons, List.length_nil, hy]
  rw [hfm _ (fun x => ⟨_, rfl⟩), pySlice_nat_length cs _ _ (by omega) (by omega)]
  omega

/-- `value_range` (`length ≥ 2`) over a numeric candle field: `None` at index 0, a number afterwards -/
theorem valueRange_attr (cs : List (Candle F)) (ind : String) (f : Candle F → Num F)
    (hf : ∀ c, readingByCandle c ind = .num (f c)) (n i : Nat) (hn : 2 ≤ n) (hi : i < cs.length) :
    (i = 0 → Mov.valueRange cs ind (n : Int) (i : Int) = .ok .none) ∧
    (1 ≤ i → ∃ x : Num F, Mov.valueRange cs ind (n : Int) (i : Int) = .ok (.num x)) := by
  have hlen : (Mov.cleanReadings cs ind (n : Int) (i : Int) true).length = i - (i - n) + 1 := by
    unfold Mov.cleanReadings
    rw [List.length_map, cleanScalars_attr_length cs ind f hf n i hi]
  unfold Mov.valueRange
  rw [absIndex_nat i cs.length hi]
  have a : ¬ ((n : Int) < 2) := by omega
  simp only [a, if_false]
  constructor
  · intro h0
    have : (Mov.cleanReadings cs ind (n : Int) (i : Int) true).length < 2 := by rw [hlen]; omega
    simp only [this, if_true]
  · intro h1
    have : ¬ (Mov.cleanReadings cs ind (n : Int) (i : Int) true).length < 2 := by rw [hlen]; omega
    simp only [this, if_false]
    cases hrs : Mov.cleanReadings cs ind (n : Int) (i : Int) true with
    | nil => rw [hrs] at hlen; simp at hlen
    | cons x xs => exact ⟨_, rfl⟩

/-- **`highest` / `lowest` (`length ≥ 1`) over a numeric candle field have no gaps**: a number (the
field's own type) on every candle -/
theorem amorph_extreme_no_gaps (M : MgrSpec F) (ind : String) (len : Nat) (hlen : 1 ≤ len)
    (fld : Candle F → Num F) (hattr : ∀ c : Candle F, c.attr ind = some (.num (fld c)))
    (nm : String) (n : Nat) (hk : IsKey nm) (hin : AttrInput ind) :
    Always M (mkTop (.amorph (.highest ind (len : Int)) : Kind F) nm n) (NoGaps (own nm) 0) ∧
    Always M (mkTop (.amorph (.lowest ind (len : Int)) : Kind F) nm n) (NoGaps (own nm) 0) := by
  have hf : ∀ c : Candle F, readingByCandle c ind = .num (fld c) :=
    fun c => readingByCandle_attr ind hin.1 c _ (hattr c)
  have key : ∀ (better : Num F → Num F → Bool) (cs : List (Candle F)) (i : Nat), cs.length = i + 1 →
      ∀ v, Mov.extreme cs ind (len : Int) (i : Int) better = .ok v → NumFrom 0 i (v.roundBy n) := by
    intro better cs i hcs v hv
    obtain ⟨k, _, _, hk⟩ := Numeric.extreme_total cs ind fld hf better len i hlen (by omega)
    rw [hk] at hv; cases hv
    exact ⟨fun h => absurd h (by omega), fun _ => ⟨_, rfl⟩⟩
  refine ⟨(leaf_total_of _ nm n (Covered.amorph _ (by simpa [Analysis.names] using hin)) _ (fun raw _ => ?_) M).2,
    (leaf_total_of _ nm n (Covered.amorph _ (by simpa [Analysis.names] using hin)) _ (fun raw _ => ?_) M).2⟩
  · obtain ⟨out, hrun, hl, hall⟩ := amorph_rows (.highest ind (len : Int)) nm n hk raw (fun j v => NumFrom 0 j v)
      (fun cs i hcs _ _ v hv => key _ cs i hcs v hv)
    exact ⟨out, hrun, hl, hall⟩
  · obtain ⟨out, hrun, hl, hall⟩ := amorph_rows (.lowest ind (len : Int)) nm n hk raw (fun j v => NumFrom 0 j v)
      (fun cs i hcs _ _ v hv => key _ cs i hcs v hv)
    exact ⟨out, hrun, hl, hall⟩

/-- **`value_range` (`length ≥ 2`) over a numeric candle field has no gaps**: `None` on candle 0 (one
reading spans no range), a number on EVERY candle from 1 on -/
theorem amorph_range_no_gaps (M : MgrSpec F) (ind : String) (len : Nat) (hlen : 2 ≤ len)
    (fld : Candle F → Num F) (hattr : ∀ c : Candle F, c.attr ind = some (.num (fld c)))
    (nm : String) (n : Nat) (hk : IsKey nm) (hin : AttrInput ind) :
    Always M (mkTop (.amorph (.valueRange ind (len : Int)) : Kind F) nm n) (NoGaps (own nm) 1) := by
  have hf : ∀ c : Candle F, readingByCandle c ind = .num (fld c) :=
    fun c => readingByCandle_attr ind hin.1 c _ (hattr c)
  refine (leaf_total_of _ nm n (Covered.amorph _ (by simpa [Analysis.names] using hin)) _ (fun raw _ => ?_) M).2
  obtain ⟨out, hrun, hl, hall⟩ := amorph_rows (.valueRange ind (len : Int)) nm n hk raw (fun j v => NumFrom 1 j v)
    (fun cs i hcs _ _ v hv => by
      obtain ⟨h0, h1⟩ := valueRange_attr cs ind fld hf len i hlen (by omega)
      refine ⟨fun hi => ?_, fun hi => ?_⟩
      · have hv' : Mov.valueRange cs ind (len : Int) (i : Int) = .ok v := hv
        rw [h0 (by omega)] at hv'; cases hv'; rfl
      · obtain ⟨x, hx⟩ := h1 hi
        have hv' : Mov.valueRange cs ind (len : Int) (i : Int) = .ok v := hv
        rw [hx] at hv'; cases hv'; exact ⟨_, rfl⟩)
  exact ⟨out, hrun, hl, hall⟩

/-! ### non-vacuity (toy carrier `Int`, `decide +kernel`) -/

section Demo
private def mkA (o h l c v t : Int) : Candle Int :=
  { o := .int o, h := .int h, l := .int l, c := .int c, v := .int v, ts := some t }

/-- six raw candles, stamps 60 … 540 (a gap of five minutes before the last two) -/
def amDemo : List (Candle Int) :=
  [mkA 10 30 10 30 100 60, mkA 20 50 20 60 200 120, mkA 40 40 0 20 50 180, mkA 10 120 10 120 70 240,
   mkA 130 140 20 60 0 480, mkA 60 60 60 60 0 540]

theorem amDemo_plain : ∀ c ∈ amDemo, Plain c := by decide
theorem amDemo_raw : RawTf amDemo := ⟨by decide, by decide, by decide, by decide⟩

/-- the own reading of every candle of a run, as `Option (Bool ⊕ Int)` -/
def ownView (nm : String) (r : PyM (List (Candle Int))) : Option (List (Option (Bool ⊕ Int))) :=
  r.toOption.map fun cs => cs.map fun c =>
    match readingByCandle c nm with
    | .s (.bool b) => some (.inl b)
    | .s (.num (.int k)) => some (.inr k)
    | .s (.num (.flt k)) => some (.inr k)
    | _ => none

/-- `crossover(close, open, 3)`: the theorem applied – candle-by-candle history on the base timeframe … -/
example : ∃ snap, candlesOf (runIndicator (mkTop (.amorph (.crossover "close" "open" 3)) "crossover_3" 4 : Ind Int)
    {} [] (amDemo.map fun c => [c])) = .ok snap :=
  amorph_never_raises (MgrSpec.base Int) (.crossover "close" "open" 3) "crossover_3" 4 (by decide) [] _ amDemo_plain

/-- … and what it holds: a bool on every candle (close crosses over open on candles 3 – within 3 candles
also on 4, 5) -/
example : ownView "crossover_3" (candlesOf (runIndicator
      (mkTop (.amorph (.crossover "close" "open" 3)) "crossover_3" 4 : Ind Int) {} [] (amDemo.map fun c => [c])))
    = some [some (.inl false), some (.inl false), some (.inl false), some (.inl true), some (.inl true),
      some (.inl true)] := by decide +kernel

example (out : List (Candle Int))
    (h : candlesOf (runIndicator (mkTop (.amorph (.crossover "close" "open" 3)) "crossover_3" 4 : Ind Int)
      {} amDemo []) = .ok out) : ∃ b : Bool, own "crossover_3" (out.getD 4 default) = .bool b := by
  have hb := (amorph_bool_no_gaps (MgrSpec.base Int) (.crossover "close" "open" 3) rfl "crossover_3" 4 (by decide)
    (by decide)).batch amDemo amDemo_plain out h
  exact hb.2 4 (by rw [hb.1]; decide)

/-- `value_range(close, 3)` and `highest(high, 2)` on a two-minute timeframe WITH gap filling: five buckets
(120, 240, 360 = fill candle, 480, 600); the range is `None` on bucket 0 only -/
example : (∃ snap, candlesOf (runIndicator (mkTop (.amorph (.valueRange "close" 3)) "value_range_3" 4 : Ind Int)
      (cfgFill 120) (amDemo.take 2) [amDemo.drop 2]) = .ok snap) ∧
    (∃ snap, candlesOf (runIndicator (mkTop (.amorph (.highest "high" 2)) "highest_2" 4 : Ind Int)
      (cfgFill 120) (amDemo.take 2) [amDemo.drop 2]) = .ok snap) :=
  ⟨amorph_never_raises (MgrSpec.fill Int 120 (by decide)) (.valueRange "close" 3) "value_range_3" 4 (by decide)
      _ _ amDemo_raw,
   amorph_never_raises (MgrSpec.fill Int 120 (by decide)) (.highest "high" 2) "highest_2" 4 (by decide)
      _ _ amDemo_raw⟩

example : ownView "value_range_3" (candlesOf (runIndicator
      (mkTop (.amorph (.valueRange "close" 3)) "value_range_3" 4 : Ind Int) (cfgFill 120) (amDemo.take 2)
        [amDemo.drop 2]))
    = some [none, some (.inr 60), some (.inr 60), some (.inr 60), some (.inr 60)] := by decide +kernel

example : ownView "highest_2" (candlesOf (runIndicator
      (mkTop (.amorph (.highest "high" 2)) "highest_2" 4 : Ind Int) (cfgFill 120) (amDemo.take 2) [amDemo.drop 2]))
    = some [some (.inr 50), some (.inr 120), some (.inr 120), some (.inr 140), some (.inr 140)] := by decide +kernel

/-- the pattern `hammer` (look-back 2) and `highestbar(low, 3)`: every history returns -/
example : (∃ snap, candlesOf (runIndicator (mkTop (.amorph (.hammer (some 2))) "hammer" 4 : Ind Int)
      {} (amDemo.take 3) [[], amDemo.drop 3]) = .ok snap) ∧
    (∃ snap, candlesOf (runIndicator (mkTop (.amorph (.highestbar "low" 3)) "highestbar_3" 4 : Ind Int)
      {} (amDemo.take 3) [[], amDemo.drop 3]) = .ok snap) :=
  ⟨amorph_never_raises (MgrSpec.base Int) (.hammer (some 2)) "hammer" 4 (by decide) _ _ amDemo_plain,
   amorph_never_raises (MgrSpec.base Int) (.highestbar "low" 3) "highestbar_3" 4 (by decide) _ _ amDemo_plain⟩

example : ownView "highestbar_3" (candlesOf (runIndicator
      (mkTop (.amorph (.highestbar "low" 3)) "highestbar_3" 4 : Ind Int) {} (amDemo.take 3) [[], amDemo.drop 3]))
    = some [some (.inr 0), some (.inr 0), some (.inr 1), some (.inr 2), some (.inr 0), some (.inr 0)] := by
  decide +kernel

end Demo

end Hex

#print axioms Hex.amorph_never_raises
#print axioms Hex.amorph_bool_no_gaps
#print axioms Hex.amorph_bar_no_gaps
#print axioms Hex.amorph_extreme_no_gaps
#print axioms Hex.amorph_range_no_gaps

import HexProofs.Numeric.AvgWindow
import HexProofs.Numeric.Rounding
/-!
# Moving averages: window invariant of the running SMA, error budgets, ranges
-/
set_option linter.unusedSectionVars false
set_option linter.unusedSimpArgs false
namespace Hex
variable {K : Type} [Field K] [LinearOrder K] [IsStrictOrderedRing K] [LawfulPyF K]
namespace Numeric

theorem rsum_shift (p : Nat) (f : Nat → K) : rsum p (fun j => f (j + 1)) = rsum p f - f 0 + f p := by
  induction p with
  | zero => simp [rsum]
  | succ n ih => rw [rsum_succ, rsum_succ, ih]; ring

/-- **the running SMA is the window mean**: if the previous reading is the mean of the inputs
`r 0 … r (p-1)` (at indices `i-p … i-1`) and `r p` is the current input, the new reading is the
mean of `r 1 … r p`. -/
theorem sma_rec_window (x : Ctx K) (p : Nat) (input : String) (prev : Num K) (r : Nat → Num K)
    (hp : 1 ≤ p)
    (hprev : x.prevReading x.name = .ok (.num prev))
    (ho : x.reading input (some (x.i - p)) = .ok (.num (r 0)))
    (hc : x.reading input = .ok (.num (r p)))
    (hmean : prev.toF = rsum p (fun j => (r j).toF) / p) :
    IsNum (Calc.sma x p input) (rsum p (fun j => (r (j + 1)).toF) / p) := by
  have hpK : (p : K) ≠ 0 := by exact_mod_cast (by omega : p ≠ 0)
  have hpI : ((p : Int) : K) ≠ 0 := by simpa using hpK
  obtain ⟨n, hn, hv⟩ := sma_rec x p input prev (r 0) (r p) hprev ho hc hpI
  refine ⟨n, hn, ?_⟩
  rw [hv, hmean, rsum_shift p (fun j => (r j).toF)]
  simp only [Int.cast_natCast]
  field_simp
  ring

/-- one stored EMA/RMA step keeps the accumulated rounding error below `ε/a`:
if the stored previous value is within `ε/a` of the exact one, so is the stored new value. -/
theorem ema_error_budget (n : Nat) (a c prevS prevE : K) (ha0 : 0 < a) (ha1 : a ≤ 1)
    (h : |prevS - prevE| ≤ eps K n / a) :
    |PyF.round n (a * c + (1 - a) * prevS) - (a * c + (1 - a) * prevE)| ≤ eps K n / a := by
  have h1 := LawfulPyF.round_err (K := K) n (a * c + (1 - a) * prevS)
  have h2 : |(a * c + (1 - a) * prevS) - (a * c + (1 - a) * prevE)| ≤ (1 - a) * (eps K n / a) := by
    have : (a * c + (1 - a) * prevS) - (a * c + (1 - a) * prevE) = (1 - a) * (prevS - prevE) := by ring
    rw [this, abs_mul, abs_of_nonneg (by linarith : (0 : K) ≤ 1 - a)]
    exact mul_le_mul_of_nonneg_left h (by linarith)
  have h3 : (1 - a) * (eps K n / a) + eps K n = eps K n / a := by field_simp; ring
  calc |PyF.round n (a * c + (1 - a) * prevS) - (a * c + (1 - a) * prevE)|
      = |(PyF.round n (a * c + (1 - a) * prevS) - (a * c + (1 - a) * prevS))
          + ((a * c + (1 - a) * prevS) - (a * c + (1 - a) * prevE))| := by ring_nf
    _ ≤ _ := abs_add_le _ _
    _ ≤ eps K n + (1 - a) * (eps K n / a) := add_le_add h1 h2
    _ = eps K n / a := by rw [add_comm]; exact h3

/-- one stored SMA running step adds at most `ε` to the accumulated error -/
theorem sma_error_budget (n : Nat) (p old cur prevS prevE e : K) (h : |prevS - prevE| ≤ e) :
    |PyF.round n (prevS - (old - cur) / p) - (prevE - (old - cur) / p)| ≤ e + eps K n := by
  have h1 := LawfulPyF.round_err (K := K) n (prevS - (old - cur) / p)
  calc |PyF.round n (prevS - (old - cur) / p) - (prevE - (old - cur) / p)|
      = |(PyF.round n (prevS - (old - cur) / p) - (prevS - (old - cur) / p)) + (prevS - prevE)| := by ring_nf
    _ ≤ _ := abs_add_le _ _
    _ ≤ eps K n + e := add_le_add h1 h
    _ = e + eps K n := by ring

/-- ATR (and every Wilder average of non-negative inputs) stays non-negative -/
theorem wilder_nonneg' (p : Int) (a v : K) (hp : 1 ≤ p) (ha : 0 ≤ a) (hv : 0 ≤ v) :
    0 ≤ (a * ((p : K) - 1) + v) / p := by
  have : (1 : K) ≤ p := by exact_mod_cast hp
  apply div_nonneg _ (by linarith)
  have := mul_nonneg ha (by linarith : (0 : K) ≤ (p : K) - 1)
  linarith

/-- the EMA smoothing constant `2/(period+1)` lies in (0, 1] for `period ≥ 1` -/
theorem ema_alpha_range (p : Int) (hp : 1 ≤ p) : (0 : K) < 2 / ((p : K) + 1) ∧ 2 / ((p : K) + 1) ≤ 1 := by
  have : (1 : K) ≤ p := by exact_mod_cast hp
  constructor
  · positivity
  · rw [div_le_one (by linarith)]; linarith

/-- the RMA smoothing constant `1/period` lies in (0, 1] for `period ≥ 1` -/
theorem rma_alpha_range (p : Int) (hp : 1 ≤ p) : (0 : K) < 1 / (p : K) ∧ 1 / (p : K) ≤ 1 := by
  have : (1 : K) ≤ p := by exact_mod_cast hp
  constructor
  · positivity
  · rw [div_le_one (by linarith)]; linarith

end Numeric
end Hex

import HexProofs.Numeric.CtxLemmas
/-!
# Bands, channels and utilities: Counter, BBANDS, KC, STDEV-threshold, Donchian, HighestLowest, Aroon
-/
set_option linter.unusedSectionVars false
set_option linter.unusedSimpArgs false
namespace Hex
namespace Numeric

/-! ## Counter (no arithmetic laws needed: every float carrier) -/
section
variable {F : Type} [PyF F]

/-- the run length carried over from the previous candle -/
def prevCount : Val F → Int
  | .s (.num (.int k)) => k
  | _ => 0

/-- Counter: previous count kept on a missing input, +1 on a match, reset to 0 otherwise -/
theorem counter_def (x : Ctx F) (input : String) (cv : Scalar F) (r prev : Val F)
    (hr : x.reading input = .ok r) (hprev : x.prevReading x.name = .ok prev)
    (hpv : prev = .none ∨ ∃ k : Int, prev = .int k) :
    Calc.counter x input cv = .ok (.int (
      if r.isNone then prevCount prev else if Calc.pyEqScalarVal cv r then prevCount prev + 1 else 0)) := by
  rcases hpv with rfl | ⟨k, rfl⟩
  · by_cases h1 : r.isNone = true
    · simp [Calc.counter, hr, hprev, h1, prevCount, Val.truthy, Scalar.truthy]
    · by_cases h2 : Calc.pyEqScalarVal cv r = true
      · simp [Calc.counter, hr, hprev, h1, h2, prevCount, Val.truthy, Scalar.truthy, Num.add]
      · simp [Calc.counter, hr, hprev, h1, h2, prevCount, Val.truthy, Scalar.truthy]
  · by_cases hk : k = 0
    · subst hk
      by_cases h1 : r.isNone = true
      · simp [Calc.counter, hr, hprev, h1, prevCount, Val.truthy, Scalar.truthy, Num.isZero]
      · by_cases h2 : Calc.pyEqScalarVal cv r = true
        · simp [Calc.counter, hr, hprev, h1, h2, prevCount, Val.truthy, Scalar.truthy, Num.add, Num.isZero]
        · simp [Calc.counter, hr, hprev, h1, h2, prevCount, Val.truthy, Scalar.truthy, Num.isZero]
    · by_cases h1 : r.isNone = true
      · simp [Calc.counter, hr, hprev, h1, prevCount, Val.truthy, Scalar.truthy, Num.isZero, hk, Val.asNum, Scalar.asNum]
      · by_cases h2 : Calc.pyEqScalarVal cv r = true
        · simp [Calc.counter, hr, hprev, h1, h2, prevCount, Val.truthy, Scalar.truthy, Num.add, Num.isZero, hk, Val.asNum, Scalar.asNum]
        · simp [Calc.counter, hr, hprev, h1, h2, prevCount, Val.truthy, Scalar.truthy, Num.isZero, hk, Val.asNum, Scalar.asNum]

end

variable {K : Type} [Field K] [LinearOrder K] [IsStrictOrderedRing K] [LawfulPyF K]

/-! ## Bollinger Bands -/

theorem bbands_def (x : Ctx K) (smaName stdevName : String) (m s : Num K)
    (hm : x.reading smaName = .ok (.num m)) (hs : x.reading stdevName = .ok (.num s)) :
    Calc.bbands x smaName stdevName =
      .ok (.dict [("BBL", .num (m.sub (s.mul (fl 2)))), ("BBM", .num m), ("BBU", .num (m.add (s.mul (fl 2))))]) := by
  simp [Calc.bbands, hm, hs, sdict, sc]

theorem bbands_none (x : Ctx K) (smaName stdevName : String) (m s : Val K)
    (hm : x.reading smaName = .ok m) (hs : x.reading stdevName = .ok s)
    (hn : m.isNone = true ∨ s.isNone = true) :
    Calc.bbands x smaName stdevName = .ok (.dict [("BBL", .none), ("BBM", .none), ("BBU", .none)]) := by
  rcases hn with h | h <;> simp [Calc.bbands, hm, hs, sdict, h]

/-- the values of the three bands: middle ∓ 2σ -/
theorem bbands_vals (m s : Num K) :
    (m.sub (s.mul (fl 2))).toF = m.toF - 2 * s.toF ∧ (m.add (s.mul (fl 2))).toF = m.toF + 2 * s.toF := by
  constructor <;> simp <;> ring

/-- lower ≤ middle ≤ upper when σ ≥ 0 -/
theorem bbands_order (m s : Num K) (hs : 0 ≤ s.toF) :
    (m.sub (s.mul (fl 2))).toF ≤ m.toF ∧ m.toF ≤ (m.add (s.mul (fl 2))).toF := by
  obtain ⟨h1, h2⟩ := bbands_vals m s
  rw [h1, h2]; constructor <;> linarith

/-! ## Keltner Channel -/

theorem kc_def (x : Ctx K) (mult e a : Num K)
    (he : x.reading (x.name ++ "_EMA") = .ok (.num e)) (ha : x.reading (x.name ++ "_ATR") = .ok (.num a)) :
    Calc.kc x mult =
      .ok (.dict [("lower", .num (e.sub (mult.mul a))), ("band", .num e), ("upper", .num (e.add (mult.mul a)))]) := by
  simp [Calc.kc, he, ha, sdict, sc]

theorem kc_none (x : Ctx K) (mult : Num K) (e a : Val K)
    (he : x.reading (x.name ++ "_EMA") = .ok e) (ha : x.reading (x.name ++ "_ATR") = .ok a)
    (hn : e.isNone = true ∨ a.isNone = true) :
    Calc.kc x mult = .ok (.dict [("lower", .none), ("band", .none), ("upper", .none)]) := by
  rcases hn with h | h <;> simp [Calc.kc, he, ha, sdict, h]

theorem kc_vals (mult e a : Num K) :
    (e.sub (mult.mul a)).toF = e.toF - mult.toF * a.toF ∧ (e.add (mult.mul a)).toF = e.toF + mult.toF * a.toF := by
  constructor <;> simp

/-- lower ≤ band ≤ upper when ATR ≥ 0 and multiplier ≥ 0 -/
theorem kc_order (mult e a : Num K) (hm : 0 ≤ mult.toF) (ha : 0 ≤ a.toF) :
    (e.sub (mult.mul a)).toF ≤ e.toF ∧ e.toF ≤ (e.add (mult.mul a)).toF := by
  obtain ⟨h1, h2⟩ := kc_vals mult e a
  have := mul_nonneg hm ha
  rw [h1, h2]; constructor <;> linarith

/-! ## Standard-deviation threshold -/

theorem stdevthres_def (x : Ctx K) (input : String) (mult s cur prev : Num K)
    (hs : x.reading (x.name ++ "_stdev") = .ok (.num s))
    (hc : x.reading input = .ok (.num cur)) (hp : x.prevReading input = .ok (.num prev)) :
    Calc.stdevthres x input mult = .ok (.bool (decide (s.toF * mult.toF < |cur.toF - prev.toF|))) := by
  have : (cur.sub prev).abs.gt (s.mul mult) = decide (s.toF * mult.toF < |cur.toF - prev.toF|) := by
    rw [Bool.eq_iff_iff, Num.gt_iff]; simp
  simp [Calc.stdevthres, hs, Ctx.num_of hc, Ctx.prevNum_of hp, this]

theorem stdevthres_none (x : Ctx K) (input : String) (mult : Num K)
    (hs : x.reading (x.name ++ "_stdev") = .ok .none) :
    Calc.stdevthres x input mult = .ok (.bool false) := by
  simp [Calc.stdevthres, hs]

/-! ## Donchian / HighestLowest: assembled from `movement.highest/lowest` -/

theorem donchian_def (x : Ctx K) (p : Int) (pu : Val K) (u l : Num K)
    (hprev : x.prevReading (x.name ++ ".DCU") = .ok pu)
    (hg : pu.isNone = false ∨ x.readingPeriod p "high" (some x.i) = true)
    (hu : Mov.highest x.cs "high" (p - 1) x.i = .ok (.num u))
    (hl : Mov.lowest x.cs "low" (p - 1) x.i = .ok (.num l)) :
    Calc.donchian x p =
      .ok (.dict [("DCL", .num l), ("DCM", .num (.flt ((u.toF + l.toF) / 2))), ("DCU", .num u)]) := by
  have h2 : (Num.int 2 : Num K).toF ≠ 0 := by simp
  rcases hg with h | h <;>
    simp [Calc.donchian, hprev, h, hu, hl, Num.truediv_ok _ _ h2]

theorem donchian_none (x : Ctx K) (p : Int)
    (hprev : x.prevReading (x.name ++ ".DCU") = .ok .none)
    (hg : x.readingPeriod p "high" (some x.i) = false) :
    Calc.donchian x p = .ok (.dict [("DCL", .none), ("DCM", .none), ("DCU", .none)]) := by
  simp [Calc.donchian, hprev, hg]

/-- Donchian middle is the mean of the bounds, so lower ≤ middle ≤ upper whenever lower ≤ upper -/
theorem donchian_order (u l : K) (h : l ≤ u) : l ≤ (u + l) / 2 ∧ (u + l) / 2 ≤ u := by
  constructor <;> linarith

theorem hl_def (x : Ctx K) (p : Int) (h l : Scalar K)
    (hl : Mov.lowest x.cs "low" p x.i = .ok (.s l))
    (hh : Mov.highest x.cs "high" p x.i = .ok (.s h)) :
    Calc.hl x p = .ok (.dict [("low", l), ("high", h)]) := by
  simp [Calc.hl, hl, hh]

/-! ## Aroon -/

theorem aroon_def (x : Ctx K) (p : Int) (hb lb : Int)
    (hrp : x.readingPeriod (p + 1) "high" = true)
    (hh : Mov.highestbar x.cs "high" (p + 1) x.i = .ok (.int hb))
    (hl : Mov.lowestbar x.cs "low" (p + 1) x.i = .ok (.int lb)) (hp : (p : K) ≠ 0) :
    Calc.aroon x p = .ok (.dict [
      ("AROONU", .num ((Num.flt (((p : K) - hb) / p)).mul (.int 100))),
      ("AROOND", .num ((Num.flt (((p : K) - lb) / p)).mul (.int 100))),
      ("AROONOSC", .num (((Num.flt (((p : K) - hb) / p)).mul (.int 100)).sub
                         ((Num.flt (((p : K) - lb) / p)).mul (.int 100))))]) := by
  have hd : (Num.int p : Num K).toF ≠ 0 := by simpa using hp
  simp [Calc.aroon, hrp, hh, hl, Num.truediv_ok _ _ hd]

theorem aroon_none (x : Ctx K) (p : Int) (hrp : x.readingPeriod (p + 1) "high" = false) :
    Calc.aroon x p = .ok (.dict [("AROONU", .none), ("AROOND", .none), ("AROONOSC", .none)]) := by
  simp [Calc.aroon, hrp]

/-- Aroon up/down = 100·(period − bars)/period ∈ [0,100] when 0 ≤ bars ≤ period -/
theorem aroon_val (p : Int) (b : Int) :
    ((Num.flt (((p : K) - b) / p)).mul (.int 100) : Num K).toF = ((p : K) - b) / p * 100 := by simp

theorem aroon_range (p b : Int) (hp : 0 < p) (hb0 : 0 ≤ b) (hbp : b ≤ p) :
    0 ≤ ((p : K) - b) / p * 100 ∧ ((p : K) - b) / p * 100 ≤ 100 := by
  have hpK : (0 : K) < p := by exact_mod_cast hp
  have h0 : (0 : K) ≤ b := by exact_mod_cast hb0
  have h1 : (b : K) ≤ p := by exact_mod_cast hbp
  constructor
  · apply mul_nonneg (div_nonneg (by linarith) hpK.le) (by norm_num)
  · have : ((p : K) - b) / p ≤ 1 := by rw [div_le_one hpK]; linarith
    linarith

end Numeric
end Hex

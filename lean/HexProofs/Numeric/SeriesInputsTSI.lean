import HexProofs.Numeric.SeriesInputsBB
import HexProofs.Numeric.SeriesTSI
/-!
# TSI over candle lists with foreign readings and a late-starting input (C06, "position independent")

`engineCalc_tsi` (HexProofs/Framework/Gen/TSI.lean) writes `calculate()` of a TSI node – for EVERY candle
list – as the node's own loop `Gen.nodeCalc (specWith (tsiP …) (tsiC …))`, and `stepWith_tsi` writes one
step of that loop as "compute from the finished prefix `H` and the active candle `c`, store six keys on
`c`" (the `Managed` holder `<name>_data`, the four chained EMAs driven from inside `Managed.set_reading`,
the own reading).  Neither needs `Plain` candles.  Here the loop is run through `node_induct`
(HexProofs/Numeric/SeriesInputsStdev.lean) over a candle list that may hold ANY readings under other
names and an input that is `None` on the first `t0` candles and numeric afterwards:

* candles `j ≤ t0`: the guard `reading_period(2, input)` fails – a `None` own reading and NO helper entry
  (exactly as on candle 0 of a raw list);
* candle `j > t0`: the dict `{price: x k − x (k−1), abs_price: |…|}` (`k = j − t0`), the stored EMA chains
  `ds1V`, `ds2V` and the own reading `tsiOwn` of `HexProofs/Numeric/SeriesTSI.lean` AT INDEX `k = j − t0`
  of the input values counted from `t0` (`tsi_inputs_rows`: the rows are EXACTLY those; nothing else on
  the candle changes).

The four EMA calls inside the step are evaluated with `ema_view_step` (HexProofs/Numeric/SeriesMACD.lean)
on columns that start at `t0 + 1` (first level) and `t0 + p` (second level); `tsiI_emaCol_shift` turns the
stored column with a shifted start into the raw column at the shifted index.

Final statement: `c06_tsi_inputs : C06TsiStatement` – the engine returns, keeps the length, every reading
of the tree is `None` before `t0`, and from `t0` on candle `j` satisfies the SAME predicate `TsiCandleOK`
as in the raw theorem `tsi_engine_readings`, at index `j − t0`; every name that does not see the six names
of the tree reads what it read before.
-/
set_option linter.unusedSectionVars false
set_option linter.unusedSimpArgs false
namespace Hex
namespace Numeric
variable {K : Type} [Field K] [LinearOrder K] [IsStrictOrderedRing K] [LawfulPyF K]

/-! ### a stored EMA column whose input column starts `t0` candles late -/

/-- a column shifted by `t0`: `None` on the first `t0` candles, then `f` counted from `t0` -/
def tsiIShift (t0 : Nat) (f : Nat → Val K) (j : Nat) : Val K := if j < t0 then .none else f (j - t0)

theorem tsiIShift_lt (t0 : Nat) (f : Nat → Val K) (j : Nat) (h : j < t0) : tsiIShift t0 f j = .none := by
  unfold tsiIShift; rw [if_pos h]

theorem tsiIShift_ge (t0 : Nat) (f : Nat → Val K) (j : Nat) (h : t0 ≤ j) : tsiIShift t0 f j = f (j - t0) := by
  unfold tsiIShift; rw [if_neg (by omega)]

theorem tsiI_recSt_shift (n : Nat) (a seed : K) (y : Nat → K) (q t0 : Nat) (hq : 1 ≤ q) (k : Nat) :
    recSt n a seed (fun j => y (j - t0)) (t0 + q) (t0 + k) = recSt n a seed y q k := by
  induction k with
  | zero => rw [recSt_seed _ _ _ _ _ _ (by omega), recSt_seed _ _ _ _ _ _ (by omega)]
  | succ k ih =>
    by_cases h : k + 1 < q
    · rw [recSt_seed _ _ _ _ _ _ (by omega), recSt_seed _ _ _ _ _ _ h]
    · rw [recSt_step _ _ _ _ _ _ (by omega) (by omega), recSt_step _ _ _ _ _ _ (by omega) hq]
      have e1 : t0 + (k + 1) - 1 = t0 + k := by omega
      have e2 : t0 + (k + 1) - t0 = k + 1 := by omega
      have e3 : k + 1 - 1 = k := by omega
      rw [e1, ih, e3]
      simp only [e2]

/-- **the stored EMA column over an input column that starts at `t0 + o`** is the stored column over the
input counted from `t0` (start `o`), shifted by `t0` -/
theorem tsiI_emaCol_shift (p o t0 : Nat) (hop : 1 ≤ o + p) (y : Nat → K) (j : Nat) :
    emaCol p (t0 + o) (fun i => y (i - t0)) j = tsiIShift t0 (emaCol p o y) j := by
  by_cases h : j < t0
  · rw [tsiIShift_lt _ _ _ h, emaCol_none _ _ _ _ (by omega)]
  · rw [tsiIShift_ge _ _ _ (by omega)]
    obtain ⟨k, rfl⟩ : ∃ k, j = t0 + k := ⟨j - t0, by omega⟩
    have ek : t0 + k - t0 = k := by omega
    rw [ek]
    have hseed : rsum p (fun i => (fun i => y (i - t0)) (t0 + o + i)) / (p : K) = rsum p (fun i => y (o + i)) / (p : K) := by
      congr 2
      funext i
      show y (t0 + o + i - t0) = y (o + i)
      congr 1
      omega
    unfold emaCol recStV
    rw [hseed, Nat.add_assoc t0 o p, tsiI_recSt_shift _ _ _ _ _ _ hop]
    by_cases hk : k + 1 < o + p
    · rw [if_pos (by omega), if_pos hk]
    · rw [if_neg (by omega), if_neg hk]

/-! ### names -/

/-- the reading name `input` does not see an entry stored under the key `k` -/
def TsiINotSee (k input : String) : Prop := k ≠ input ∧ ∀ fld, splitDot input ≠ [k, fld]

/-- name condition of the input of a TSI node: it sees none of the six names of the tree (any candle
attribute, any other ordinary key, any dotted field of another entry) -/
structure TsiIInput (nm input : String) : Prop where
  n0 : TsiINotSee nm input
  nD : TsiINotSee (nm ++ "_data") input
  nF : TsiINotSee (nm ++ "_first") input
  nS : TsiINotSee (nm ++ "_second") input
  nA : TsiINotSee (nm ++ "_abs_first") input
  nB : TsiINotSee (nm ++ "_abs_second") input

theorem tsiINotSee_noDot (k input : String) (hd : NoDot input) (hne : input ≠ k) : TsiINotSee k input :=
  ⟨Ne.symm hne, noDot_not_self k input hd⟩

/-- an input without a dot (candle attribute or ordinary key) different from the six names -/
theorem tsiIInput_noDot (nm input : String) (hd : NoDot input) (h0 : input ≠ nm) (hD : input ≠ nm ++ "_data")
    (hF : input ≠ nm ++ "_first") (hS : input ≠ nm ++ "_second") (hA : input ≠ nm ++ "_abs_first")
    (hB : input ≠ nm ++ "_abs_second") : TsiIInput nm input :=
  ⟨tsiINotSee_noDot _ _ hd h0, tsiINotSee_noDot _ _ hd hD, tsiINotSee_noDot _ _ hd hF, tsiINotSee_noDot _ _ hd hS,
    tsiINotSee_noDot _ _ hd hA, tsiINotSee_noDot _ _ hd hB⟩

theorem tsiI_see (b : Bool) (k input : String) (h : TsiINotSee k input) (v : Val K) (c : Candle K) :
    readingByCandle (setKey b k v c) input = readingByCandle c input :=
  readingByCandle_setKey_otherB b k input h.1 h.2 v c

/-- the key `k` is absent from the candle -/
def tsiIAbs (k : String) (c : Candle K) : Prop := dlookup k c.inds = none ∧ dlookup k c.subs = none

/-- the six names of a TSI node are absent from a candle -/
structure TsiIAbsent (nm : String) (c : Candle K) : Prop where
  a0 : tsiIAbs nm c
  aD : tsiIAbs (nm ++ "_data") c
  aF : tsiIAbs (nm ++ "_first") c
  aS : tsiIAbs (nm ++ "_second") c
  aA : tsiIAbs (nm ++ "_abs_first") c
  aB : tsiIAbs (nm ++ "_abs_second") c

/-! ### look-ups on a candle built by successive stores, foreign entries allowed -/

theorem tsiI_lk_absent (k : String) (c : Candle K) (h : tsiIAbs k c) : lookupKey c k = .none := by
  simp [lookupKey, h.1, h.2]

theorem tsiI_lk_sub (k : String) (v : Val K) (c : Candle K) (h : dlookup k c.inds = none) :
    lookupKey (setKey true k v c) k = v := by
  simp [lookupKey, setKey, h, dlookup_dset_self]

section cand
variable (nm : String) (hn : TsiNames nm) (d f s a b own : Val K) (c : Candle K) (hc : TsiIAbsent nm c)

theorem tsiI_C6_input (input : String) (hi : TsiIInput nm input) :
    readingByCandle (tsiC6 nm d f s a b own c) input = readingByCandle c input := by
  unfold tsiC6 tsiC5
  rw [tsiI_see _ _ _ hi.n0, tsiI_see _ _ _ hi.nB, tsiI_see _ _ _ hi.nA, tsiI_see _ _ _ hi.nS, tsiI_see _ _ _ hi.nF,
    tsiI_see _ _ _ hi.nD]

include hn hc

theorem tsiI_C6_data : lookupKey (tsiC6 nm d f s a b own c) (nm ++ "_data") = d := by
  unfold tsiC6 tsiC5
  rw [tsi_lk_ne _ _ _ _ _ hn.nD, tsi_lk_ne _ _ _ _ _ hn.DB.symm, tsi_lk_ne _ _ _ _ _ hn.DA.symm,
    tsi_lk_ne _ _ _ _ _ hn.DS.symm, tsi_lk_ne _ _ _ _ _ hn.DF.symm]
  exact tsiI_lk_sub _ _ _ hc.aD.1

theorem tsiI_C6_first : readingByCandle (tsiC6 nm d f s a b own c) (nm ++ "_first") = f := by
  rw [readingByCandle_key _ hn.kF]
  unfold tsiC6 tsiC5
  rw [tsi_lk_ne _ _ _ _ _ hn.nF, tsi_lk_ne _ _ _ _ _ hn.FB.symm, tsi_lk_ne _ _ _ _ _ hn.FA.symm,
    tsi_lk_ne _ _ _ _ _ hn.FS.symm]
  exact tsiI_lk_sub _ _ _ hc.aF.1

theorem tsiI_C6_second : readingByCandle (tsiC6 nm d f s a b own c) (nm ++ "_second") = s := by
  rw [readingByCandle_key _ hn.kS]
  unfold tsiC6 tsiC5
  rw [tsi_lk_ne _ _ _ _ _ hn.nS, tsi_lk_ne _ _ _ _ _ hn.SB.symm, tsi_lk_ne _ _ _ _ _ hn.SA.symm]
  exact tsiI_lk_sub _ _ _ hc.aS.1

theorem tsiI_C6_absFirst : readingByCandle (tsiC6 nm d f s a b own c) (nm ++ "_abs_first") = a := by
  rw [readingByCandle_key _ hn.kA]
  unfold tsiC6 tsiC5
  rw [tsi_lk_ne _ _ _ _ _ hn.nA, tsi_lk_ne _ _ _ _ _ hn.AB.symm]
  exact tsiI_lk_sub _ _ _ hc.aA.1

theorem tsiI_C6_absSecond : readingByCandle (tsiC6 nm d f s a b own c) (nm ++ "_abs_second") = b := by
  rw [readingByCandle_key _ hn.kB]
  unfold tsiC6 tsiC5
  rw [tsi_lk_ne _ _ _ _ _ hn.nB]
  exact tsiI_lk_sub _ _ _ hc.aB.1

theorem tsiI_C6_price :
    readingByCandle (tsiC6 nm d f s a b own c) (nm ++ "_data.price") = d.nested "price" := by
  rw [tsi_rbc_dotted _ _ _ hn.price, tsiI_C6_data nm hn d f s a b own c hc]

theorem tsiI_C6_absPrice :
    readingByCandle (tsiC6 nm d f s a b own c) (nm ++ "_data.abs_price") = d.nested "abs_price" := by
  rw [tsi_rbc_dotted _ _ _ hn.absPrice, tsiI_C6_data nm hn d f s a b own c hc]

theorem tsiI_C5_second : readingByCandle (tsiC5 nm d f s a b c) (nm ++ "_second") = s := by
  rw [readingByCandle_key _ hn.kS]
  unfold tsiC5
  rw [tsi_lk_ne _ _ _ _ _ hn.SB.symm, tsi_lk_ne _ _ _ _ _ hn.SA.symm]
  exact tsiI_lk_sub _ _ _ hc.aS.1

theorem tsiI_C5_absSecond : readingByCandle (tsiC5 nm d f s a b c) (nm ++ "_abs_second") = b := by
  rw [readingByCandle_key _ hn.kB]
  unfold tsiC5
  exact tsiI_lk_sub _ _ _ hc.aB.1

/-- a candle at or before `t0`: only a `None` own reading is stored -/
theorem tsiI_C0_key (k : String) (hk : IsKey k) (hne : nm ≠ k) (hka : tsiIAbs k c) (v : Val K) :
    readingByCandle (setKey false nm v c) k = .none := by
  rw [readingByCandle_key _ hk, tsi_lk_ne _ _ _ _ _ hne]
  exact tsiI_lk_absent k c hka

theorem tsiI_C0_dotted (full fld : String) (hs : splitDot full = [nm ++ "_data", fld]) (v : Val K) :
    readingByCandle (setKey false nm v c) full = .none := by
  rw [tsi_rbc_dotted _ _ _ hs, tsi_lk_ne _ _ _ _ _ hn.nD, tsiI_lk_absent _ c hc.aD]
  rfl

end cand

/-! ### the rows of a shifted TSI run -/

/-- what one step stores: the five helper entries (if the guard held) and the own reading -/
abbrev TsiIRow (K : Type) [PyF K] := Option (Val K × Val K × Val K × Val K × Val K) × Val K

/-- the finished candle of a row: a guarded-off step stores only the own reading -/
def tsiIOut (nm : String) (c : Candle K) (ρ : TsiIRow K) : Candle K :=
  match ρ.1 with
  | none => setKey false nm ρ.2 c
  | some (d, f, s, a, b) => tsiC6 nm d f s a b ρ.2 c

/-- the momentum of the stored input numbers, as the model computes it (`Num`) -/
def tsiIPriceN (r : Nat → Num K) (k : Nat) : Num K := (r k).sub (r (k - 1))

/-- the dict stored (unrounded) under `<name>_data` at input index `k ≥ 1` -/
def tsiIDict (r : Nat → Num K) (k : Nat) : Val K :=
  sdict [("price", sc (tsiIPriceN r k)), ("abs_price", sc (tsiIPriceN r k).abs)]

theorem tsiIPriceN_toF (r : Nat → Num K) : (fun k => (tsiIPriceN r k).toF) = tsiPrice (fun k => (r k).toF) := by
  funext k
  simp [tsiIPriceN, tsiPrice]

theorem tsiIAbsN_toF (r : Nat → Num K) : (fun k => (tsiIPriceN r k).abs.toF) = tsiAbs (fun k => (r k).toF) := by
  funext k
  simp [tsiIPriceN, tsiAbs]

/-- **row `j` of a TSI run whose input starts at `t0`** (`r` = the stored input numbers counted from
`t0`): nothing but a `None` own reading up to `t0`; afterwards the rows of `tsiRow` at index `j − t0` -/
def tsiIRowAt (n p s t0 : Nat) (r : Nat → Num K) (j : Nat) : TsiIRow K :=
  if j ≤ t0 then (none, .none)
  else (some (tsiIDict r (j - t0),
          ds1V p (tsiPrice (fun k => (r k).toF)) (j - t0), ds2V p s (tsiPrice (fun k => (r k).toF)) (j - t0),
          ds1V p (tsiAbs (fun k => (r k).toF)) (j - t0), ds2V p s (tsiAbs (fun k => (r k).toF)) (j - t0)),
        tsiOwn n p s (fun k => (r k).toF) (j - t0))

theorem tsiIOut_input (nm input : String) (hi : TsiIInput nm input) (c : Candle K) (ρ : TsiIRow K) :
    readingByCandle (tsiIOut nm c ρ) input = readingByCandle c input := by
  obtain ⟨o, w⟩ := ρ
  cases o with
  | none => exact tsiI_see _ _ _ hi.n0 _ _
  | some q =>
    obtain ⟨d, f, s, a, b⟩ := q
    exact tsiI_C6_input nm d f s a b w c input hi

theorem tsiIOut_bare (nm : String) (c : Candle K) (ρ : TsiIRow K) : (tsiIOut nm c ρ).bare = c.bare := by
  obtain ⟨o, w⟩ := ρ
  cases o with
  | none => exact bare_setKey _ _ _ _
  | some q =>
    obtain ⟨d, f, s, a, b⟩ := q
    exact tsiC6_bare nm d f s a b w c

theorem tsiIOut_frame (nm k : String) (h0 : nm ≠ k) (hD : nm ++ "_data" ≠ k) (hF : nm ++ "_first" ≠ k)
    (hS : nm ++ "_second" ≠ k) (hA : nm ++ "_abs_first" ≠ k) (hB : nm ++ "_abs_second" ≠ k)
    (c : Candle K) (ρ : TsiIRow K) :
    dlookup k (tsiIOut nm c ρ).inds = dlookup k c.inds ∧ dlookup k (tsiIOut nm c ρ).subs = dlookup k c.subs := by
  obtain ⟨o, w⟩ := ρ
  cases o with
  | none => exact setKey_frame false nm k h0 _ _
  | some q =>
    obtain ⟨d, f, s, a, b⟩ := q
    show dlookup k (tsiC6 nm d f s a b w c).inds = _ ∧ dlookup k (tsiC6 nm d f s a b w c).subs = _
    unfold tsiC6 tsiC5
    rw [(setKey_frame false nm k h0 _ _).1, (setKey_frame false nm k h0 _ _).2,
      (setKey_frame true _ k hB _ _).1, (setKey_frame true _ k hB _ _).2,
      (setKey_frame true _ k hA _ _).1, (setKey_frame true _ k hA _ _).2,
      (setKey_frame true _ k hS _ _).1, (setKey_frame true _ k hS _ _).2,
      (setKey_frame true _ k hF _ _).1, (setKey_frame true _ k hF _ _).2,
      (setKey_frame true _ k hD _ _).1, (setKey_frame true _ k hD _ _).2]
    exact ⟨rfl, rfl⟩

/-- what a finished candle of the shifted run reads under the node's names -/
structure TsiIReads (nm : String) (n p s t0 : Nat) (r : Nat → Num K) (j : Nat) (d : Candle K) : Prop where
  price : readingByCandle d (nm ++ "_data.price") = (if j ≤ t0 then .none else .num (tsiIPriceN r (j - t0)))
  absPrice : readingByCandle d (nm ++ "_data.abs_price")
    = (if j ≤ t0 then .none else .num (tsiIPriceN r (j - t0)).abs)
  first : readingByCandle d (nm ++ "_first") = tsiIShift t0 (ds1V p (tsiPrice (fun k => (r k).toF))) j
  second : readingByCandle d (nm ++ "_second") = tsiIShift t0 (ds2V p s (tsiPrice (fun k => (r k).toF))) j
  absFirst : readingByCandle d (nm ++ "_abs_first") = tsiIShift t0 (ds1V p (tsiAbs (fun k => (r k).toF))) j
  absSecond : readingByCandle d (nm ++ "_abs_second") = tsiIShift t0 (ds2V p s (tsiAbs (fun k => (r k).toF))) j
  own : readingByCandle d nm = tsiIShift t0 (tsiOwn n p s (fun k => (r k).toF)) j

theorem tsiIShift_warm (t0 : Nat) (f : Nat → Val K) (h0 : f 0 = .none) (j : Nat) (h : j ≤ t0) :
    tsiIShift t0 f j = .none := by
  by_cases hlt : j < t0
  · exact tsiIShift_lt _ _ _ hlt
  · rw [tsiIShift_ge _ _ _ (by omega), show j - t0 = 0 by omega, h0]

theorem tsiIOut_reads (nm : String) (hn : TsiNames nm) (n p s t0 : Nat) (hp : 1 ≤ p) (hs : 1 ≤ s) (r : Nat → Num K)
    (c : Candle K) (hc : TsiIAbsent nm c) (j : Nat) :
    TsiIReads nm n p s t0 r j (tsiIOut nm c (tsiIRowAt n p s t0 r j)) := by
  unfold tsiIRowAt
  by_cases h : j ≤ t0
  · rw [if_pos h]
    show TsiIReads nm n p s t0 r j (setKey false nm (.none : Val K) c)
    refine ⟨?_, ?_, ?_, ?_, ?_, ?_, ?_⟩
    · rw [if_pos h]; exact tsiI_C0_dotted nm hn c hc _ _ hn.price _
    · rw [if_pos h]; exact tsiI_C0_dotted nm hn c hc _ _ hn.absPrice _
    · rw [tsiIShift_warm _ _ (ds1V_none _ _ _ (by omega)) j h]; exact tsiI_C0_key nm hn c hc _ hn.kF hn.nF hc.aF _
    · rw [tsiIShift_warm _ _ (ds2V_none _ _ _ _ (by omega)) j h]; exact tsiI_C0_key nm hn c hc _ hn.kS hn.nS hc.aS _
    · rw [tsiIShift_warm _ _ (ds1V_none _ _ _ (by omega)) j h]; exact tsiI_C0_key nm hn c hc _ hn.kA hn.nA hc.aA _
    · rw [tsiIShift_warm _ _ (ds2V_none _ _ _ _ (by omega)) j h]; exact tsiI_C0_key nm hn c hc _ hn.kB hn.nB hc.aB _
    · rw [tsiIShift_warm _ _ (by unfold tsiOwn; rw [if_pos (by omega)]) j h]
      exact rbc_setKey_own nm hn.kN _ _
  · rw [if_neg h]
    refine ⟨?_, ?_, ?_, ?_, ?_, ?_, ?_⟩
    · rw [if_neg h]; exact tsiI_C6_price nm hn _ _ _ _ _ _ c hc
    · rw [if_neg h]; exact tsiI_C6_absPrice nm hn _ _ _ _ _ _ c hc
    · rw [tsiIShift_ge _ _ _ (by omega)]; exact tsiI_C6_first nm hn _ _ _ _ _ _ c hc
    · rw [tsiIShift_ge _ _ _ (by omega)]; exact tsiI_C6_second nm hn _ _ _ _ _ _ c hc
    · rw [tsiIShift_ge _ _ _ (by omega)]; exact tsiI_C6_absFirst nm hn _ _ _ _ _ _ c hc
    · rw [tsiIShift_ge _ _ _ (by omega)]; exact tsiI_C6_absSecond nm hn _ _ _ _ _ _ c hc
    · rw [tsiIShift_ge _ _ _ (by omega)]; exact tsiC6_own nm hn _ _ _ _ _ _ c

/-! ### one step of the node, on any finished prefix -/

theorem tsiI_lastReading (key : String) (H : List (Candle K)) :
    Ctx.lastReading key H = if H.length = 0 then .none else readingByCandle (H.getD (H.length - 1) default) key := by
  unfold Ctx.lastReading
  rw [List.getLast?_eq_getElem?]
  by_cases h0 : H.length = 0
  · rw [if_pos h0]
    have : H = [] := List.length_eq_zero_iff.1 h0
    subst this
    rfl
  · rw [if_neg h0, List.getD_eq_getElem?_getD, List.getElem?_eq_getElem (by omega)]
    rfl

/-- the guarded-off step: nothing but a `None` own reading -/
theorem tsiI_val_zero (nm : String) (n : Nat) (p s : Int) (input : String) (hp : 1 ≤ p) (hs : 1 ≤ s)
    (hn : TsiNames nm) (H : List (Candle K)) (c : Candle K) (hg : tsiG nm input H c = false) :
    ∃ z, (tsiCompP (F := K) nm n p s input hp hs hn).val H c = .ok z ∧
      (tsiCompP (F := K) nm n p s input hp hs hn).app z c = setKey false nm (.none : Val K) c := by
  refine ⟨(none, .none), ?_, rfl⟩
  show (if tsiG nm input H c then _ else (pure (none, Val.none) : PyM (Option _ × Val K))) = _
  rw [hg]
  rfl

/-- the step with the guard on, from its five EMA / own-reading calls (`tsi_rowStep_pos` without the
row-major spec, for any input name) -/
theorem tsiI_val_pos (nm : String) (n : Nat) (p s : Int) (input : String) (hp : 1 ≤ p) (hs : 1 ≤ s)
    (hn : TsiNames nm) (H : List (Candle K)) (c : Candle K) (a b : Num K) (d vf vs va vb w : Val K)
    (hg : tsiG nm input H c = true)
    (ha : readingByCandle c input = .num a) (hb : Ctx.lastReading input H = .num b)
    (hd : d = sdict [("price", sc (a.sub b)), ("abs_price", sc (a.sub b).abs)])
    (h1 : Calc.ema (snocCtx H (setKey true (nm ++ "_data") d c) (nm ++ "_first")) p (nm ++ "_data.price") (fl 2)
      = .ok vf)
    (h2 : Calc.ema (snocCtx H (setKey true (nm ++ "_first") (vf.roundBy defaultRound)
        (setKey true (nm ++ "_data") d c)) (nm ++ "_second")) s (nm ++ "_first") (fl 2) = .ok vs)
    (h3 : Calc.ema (snocCtx H (setKey true (nm ++ "_second") (vs.roundBy defaultRound)
        (setKey true (nm ++ "_first") (vf.roundBy defaultRound) (setKey true (nm ++ "_data") d c)))
        (nm ++ "_abs_first")) p (nm ++ "_data.abs_price") (fl 2) = .ok va)
    (h4 : Calc.ema (snocCtx H (setKey true (nm ++ "_abs_first") (va.roundBy defaultRound)
        (setKey true (nm ++ "_second") (vs.roundBy defaultRound)
        (setKey true (nm ++ "_first") (vf.roundBy defaultRound) (setKey true (nm ++ "_data") d c))))
        (nm ++ "_abs_second")) s (nm ++ "_abs_first") (fl 2) = .ok vb)
    (h5 : tsiFin nm (tsiC5 nm d (vf.roundBy defaultRound) (vs.roundBy defaultRound) (va.roundBy defaultRound)
        (vb.roundBy defaultRound) c) = .ok w) :
    ∃ z, (tsiCompP (F := K) nm n p s input hp hs hn).val H c = .ok z ∧
      (tsiCompP (F := K) nm n p s input hp hs hn).app z c
        = tsiC6 nm d (vf.roundBy defaultRound) (vs.roundBy defaultRound) (va.roundBy defaultRound)
            (vb.roundBy defaultRound) (w.roundBy n) c := by
  have hx : (tsiX (F := K) nm p s input hp hs hn).val H c = .ok ((((d, vf), vs), va), vb) := by
    rw [tsiX_val, tsiDVal_eq, ha, hb]
    simp only [Val.asNum_num, pym_bind_ok, pym_pure]
    rw [← hd]
    have e1 : valOf (tsiF nm p s) H (setKey true (nm ++ "_data") d c) = .ok vf := h1
    rw [e1]
    simp only [pym_bind_ok]
    have e2 : valOf (tsiS nm s) H (decOf (tsiF nm p s) vf (setKey true (nm ++ "_data") d c)) = .ok vs := h2
    rw [e2]
    simp only [pym_bind_ok]
    have e3 : valOf (tsiAF nm p s) H (decOf (tsiS nm s) vs (decOf (tsiF nm p s) vf
        (setKey true (nm ++ "_data") d c))) = .ok va := h3
    rw [e3]
    simp only [pym_bind_ok]
    have e4 : valOf (tsiAS nm s) H (decOf (tsiAF nm p s) va (decOf (tsiS nm s) vs (decOf (tsiF nm p s) vf
        (setKey true (nm ++ "_data") d c)))) = .ok vb := h4
    rw [e4]
    rfl
  refine ⟨(some ((((d, vf), vs), va), vb), w), ?_, rfl⟩
  show (if tsiG nm input H c then (do
      let x ← (tsiX (F := K) nm p s input hp hs hn).val H c
      let w ← tsiFin nm ((tsiX (F := K) nm p s input hp hs hn).app x c)
      pure (some x, w)) else (pure (none, Val.none) : PyM (Option _ × Val K))) = _
  rw [hg, hx]
  simp only [if_true, bind, Except.bind]
  rw [tsiX_app, tsiXApp_eq, h5]
  rfl

/-- `reading_period(2, input)` over a prefix whose input column is `None` below `t0` and numeric from `t0`
on: it holds from index `t0 + 1` on -/
theorem tsiI_guard (nm input : String) (H : List (Candle K)) (c : Candle K) (t0 : Nat) (r : Nat → Num K)
    (hH : ∀ j, j < H.length →
      readingByCandle (H.getD j default) input = if j < t0 then .none else .num (r (j - t0)))
    (hc : readingByCandle c input = if H.length < t0 then .none else .num (r (H.length - t0))) :
    tsiG nm input H c = decide (t0 + 1 ≤ H.length) := by
  have hrd : ∀ j, j ≤ H.length → (snocCtx H c nm).reading input (some (j : Int))
      = .ok (if j < t0 then (.none : Val K) else .num (r (j - t0))) := by
    intro j hj
    rw [snocCtx_reading H c nm input j hj]
    by_cases h : j < H.length
    · rw [if_pos h, hH j h]
    · have : j = H.length := by omega
      subst this
      rw [if_neg h, hc]
  have := snocCtx_period H c nm input t0 (fun j => if j < t0 then (.none : Val K) else .num (r (j - t0))) hrd
    (fun j _ => by by_cases h : j < t0 <;> simp [h]) 2 (by omega)
  have e : tsiG nm input H c = (snocCtx H c nm).readingPeriod ((2 : Nat) : Int) input := rfl
  rw [e, this]
  congr 1
  apply propext
  omega

/-- **one step of the TSI node in the shifted series**: on a finished prefix `H` whose candles read the
shifted rows (`TsiIReads`) and whose input column is `None` below `t0` and `r` from `t0` on, the step at
the candle `c` (the six names absent) returns and stores exactly row `H.length` -/
theorem tsiI_step (nm : String) (n p s : Nat) (input : String) (t0 : Nat) (r : Nat → Num K)
    (hp : 1 ≤ p) (hs : 1 ≤ s) (hpI : 1 ≤ (p : Int)) (hsI : 1 ≤ (s : Int)) (hn : TsiNames nm)
    (H : List (Candle K)) (c : Candle K) (hc : TsiIAbsent nm c)
    (hHin : ∀ j, j < H.length →
      readingByCandle (H.getD j default) input = if j < t0 then .none else .num (r (j - t0)))
    (hcin : readingByCandle c input = if H.length < t0 then .none else .num (r (H.length - t0)))
    (hrd : ∀ j, j < H.length → TsiIReads nm n p s t0 r j (H.getD j default)) :
    ∃ z, (tsiCompP (F := K) nm n (p : Int) (s : Int) input hpI hsI hn).val H c = .ok z ∧
      (tsiCompP (F := K) nm n (p : Int) (s : Int) input hpI hsI hn).app z c
        = tsiIOut nm c (tsiIRowAt n p s t0 r H.length) := by
  have hG := tsiI_guard nm input H c t0 r hHin hcin
  by_cases hm : H.length ≤ t0
  · -- up to `t0`: the guard fails
    obtain ⟨z, hz, happ⟩ := tsiI_val_zero nm n (p : Int) (s : Int) input hpI hsI hn H c
      (by rw [hG]; simp; omega)
    refine ⟨z, hz, ?_⟩
    rw [happ]
    unfold tsiIRowAt
    rw [if_pos hm]
    rfl
  · have hG' : tsiG nm input H c = true := by rw [hG]; simp; omega
    have hHne : H.length ≠ 0 := by omega
    generalize hml : H.length = m at *
    have hlast : ∀ key, Ctx.lastReading key H = readingByCandle (H.getD (m - 1) default) key := by
      intro key; rw [tsiI_lastReading, hml, if_neg hHne]
    have ha : readingByCandle c input = .num (r (m - t0)) := by rw [hcin, if_neg (by omega)]
    have hb : Ctx.lastReading input H = .num (r (m - t0 - 1)) := by
      rw [hlast, hHin (m - 1) (by omega), if_neg (by omega), show m - 1 - t0 = m - t0 - 1 by omega]
    have hd : tsiIDict r (m - t0) = sdict [("price", sc ((r (m - t0)).sub (r (m - t0 - 1)))),
        ("abs_price", sc ((r (m - t0)).sub (r (m - t0 - 1))).abs)] := rfl
    have hpx : (fun j => (tsiIPriceN r (j - t0)).toF) = fun j => tsiPrice (fun k => (r k).toF) (j - t0) := by
      funext j; exact congrFun (tsiIPriceN_toF r) (j - t0)
    have hax : (fun j => (tsiIPriceN r (j - t0)).abs.toF) = fun j => tsiAbs (fun k => (r k).toF) (j - t0) := by
      funext j; exact congrFun (tsiIAbsN_toF r) (j - t0)
    have hR := hrd (m - 1) (by omega)
    -- the first-level EMA of the momentum: its input column starts at `t0 + 1`
    obtain ⟨vf, h1, e1⟩ := ema_view_step H (setKey true (nm ++ "_data") (tsiIDict r (m - t0)) c)
      (nm ++ "_first") (nm ++ "_data.price") p (t0 + 1) hp (by omega)
      (fun j => if j ≤ t0 then .none else .num (tsiIPriceN r (j - t0))) (fun j => tsiIPriceN r (j - t0))
      (fun j hj => by rw [hml] at hj; exact (hrd j hj).price)
      (by
        rw [tsi_rbc_dotted _ _ _ hn.price, tsiI_lk_sub _ _ _ hc.aD.1, hml, if_neg (by omega)]
        rfl)
      (fun j _ => by by_cases h : j ≤ t0 <;> simp [h] <;> omega)
      (fun _ k _ => by rw [if_neg (by omega)])
      (fun _ => by rw [hml, if_neg (by omega)])
      (by
        rw [hlast, hml, if_neg hHne, hR.first, hpx, tsiI_emaCol_shift p 1 t0 (by omega)]
        rfl)
    rw [hml, hpx, tsiI_emaCol_shift p 1 t0 (by omega), tsiIShift_ge _ _ _ (by omega)] at e1
    have e1' : vf.roundBy defaultRound = ds1V p (tsiPrice (fun k => (r k).toF)) (m - t0) := e1
    -- the second-level EMA over the stored first level: its input column starts at `t0 + p`
    obtain ⟨vs, h2, e2⟩ := ema_view_step H (setKey true (nm ++ "_first") (vf.roundBy defaultRound)
        (setKey true (nm ++ "_data") (tsiIDict r (m - t0)) c))
      (nm ++ "_second") (nm ++ "_first") s (t0 + p) hs (by omega)
      (tsiIShift t0 (ds1V p (tsiPrice (fun k => (r k).toF))))
      (fun j => .flt (ds1F p (tsiPrice (fun k => (r k).toF)) (j - t0)))
      (fun j hj => by rw [hml] at hj; exact (hrd j hj).first)
      (by
        rw [readingByCandle_key _ hn.kF,
          tsiI_lk_sub _ _ _ (show dlookup _ (setKey true _ _ c).inds = none from hc.aF.1), hml, e1', tsiIShift_ge _ _ _ (by omega)])
      (fun j _ => by
        by_cases h : j < t0
        · rw [tsiIShift_lt _ _ _ h]; simp; omega
        · rw [tsiIShift_ge _ _ _ (by omega), ds1V_isNone]; simp; omega)
      (fun _ k _ => by
        rw [tsiIShift_ge _ _ _ (by omega)]; exact ds1V_flt _ _ _ (by omega))
      (fun h => by
        rw [hml] at h ⊢
        rw [tsiIShift_ge _ _ _ (by omega)]; exact ds1V_flt _ _ _ (by omega))
      (by
        rw [hlast, hml, if_neg hHne, hR.second]
        exact (tsiI_emaCol_shift s p t0 (by omega) (ds1F p (tsiPrice (fun k => (r k).toF))) (m - 1)).symm)
    rw [hml] at e2
    have e2' : vs.roundBy defaultRound = ds2V p s (tsiPrice (fun k => (r k).toF)) (m - t0) := by
      rw [e2]
      exact (tsiI_emaCol_shift s p t0 (by omega) (ds1F p (tsiPrice (fun k => (r k).toF))) m).trans
        (tsiIShift_ge _ _ _ (by omega))
    -- the first-level EMA of the absolute momentum
    obtain ⟨va, h3, e3⟩ := ema_view_step H (setKey true (nm ++ "_second") (vs.roundBy defaultRound)
        (setKey true (nm ++ "_first") (vf.roundBy defaultRound)
        (setKey true (nm ++ "_data") (tsiIDict r (m - t0)) c)))
      (nm ++ "_abs_first") (nm ++ "_data.abs_price") p (t0 + 1) hp (by omega)
      (fun j => if j ≤ t0 then .none else .num (tsiIPriceN r (j - t0)).abs) (fun j => (tsiIPriceN r (j - t0)).abs)
      (fun j hj => by rw [hml] at hj; exact (hrd j hj).absPrice)
      (by
        rw [tsi_rbc_dotted _ _ _ hn.absPrice, tsi_lk_ne _ _ _ _ _ hn.DS.symm, tsi_lk_ne _ _ _ _ _ hn.DF.symm,
          tsiI_lk_sub _ _ _ hc.aD.1, hml, if_neg (by omega)]
        rfl)
      (fun j _ => by by_cases h : j ≤ t0 <;> simp [h] <;> omega)
      (fun _ k _ => by rw [if_neg (by omega)])
      (fun _ => by rw [hml, if_neg (by omega)])
      (by
        rw [hlast, hml, if_neg hHne, hR.absFirst, hax, tsiI_emaCol_shift p 1 t0 (by omega)]
        rfl)
    rw [hml, hax, tsiI_emaCol_shift p 1 t0 (by omega), tsiIShift_ge _ _ _ (by omega)] at e3
    have e3' : va.roundBy defaultRound = ds1V p (tsiAbs (fun k => (r k).toF)) (m - t0) := e3
    -- the second-level EMA over the stored first level
    obtain ⟨vb, h4, e4⟩ := ema_view_step H (setKey true (nm ++ "_abs_first") (va.roundBy defaultRound)
        (setKey true (nm ++ "_second") (vs.roundBy defaultRound)
        (setKey true (nm ++ "_first") (vf.roundBy defaultRound)
        (setKey true (nm ++ "_data") (tsiIDict r (m - t0)) c))))
      (nm ++ "_abs_second") (nm ++ "_abs_first") s (t0 + p) hs (by omega)
      (tsiIShift t0 (ds1V p (tsiAbs (fun k => (r k).toF))))
      (fun j => .flt (ds1F p (tsiAbs (fun k => (r k).toF)) (j - t0)))
      (fun j hj => by rw [hml] at hj; exact (hrd j hj).absFirst)
      (by
        rw [readingByCandle_key _ hn.kA,
          tsiI_lk_sub _ _ _ (show dlookup _ (setKey true _ _ (setKey true _ _ (setKey true _ _ c))).inds = none
            from hc.aA.1), hml, e3', tsiIShift_ge _ _ _ (by omega)])
      (fun j _ => by
        by_cases h : j < t0
        · rw [tsiIShift_lt _ _ _ h]; simp; omega
        · rw [tsiIShift_ge _ _ _ (by omega), ds1V_isNone]; simp; omega)
      (fun _ k _ => by
        rw [tsiIShift_ge _ _ _ (by omega)]; exact ds1V_flt _ _ _ (by omega))
      (fun h => by
        rw [hml] at h ⊢
        rw [tsiIShift_ge _ _ _ (by omega)]; exact ds1V_flt _ _ _ (by omega))
      (by
        rw [hlast, hml, if_neg hHne, hR.absSecond]
        exact (tsiI_emaCol_shift s p t0 (by omega) (ds1F p (tsiAbs (fun k => (r k).toF))) (m - 1)).symm)
    rw [hml] at e4
    have e4' : vb.roundBy defaultRound = ds2V p s (tsiAbs (fun k => (r k).toF)) (m - t0) := by
      rw [e4]
      exact (tsiI_emaCol_shift s p t0 (by omega) (ds1F p (tsiAbs (fun k => (r k).toF))) m).trans
        (tsiIShift_ge _ _ _ (by omega))
    -- the own reading
    have hrow : ∀ w : Val K,
        tsiFin nm (tsiC5 nm (tsiIDict r (m - t0)) (vf.roundBy defaultRound) (vs.roundBy defaultRound)
          (va.roundBy defaultRound) (vb.roundBy defaultRound) c) = .ok w →
        w.roundBy n = tsiOwn n p s (fun k => (r k).toF) (m - t0) →
        ∃ z, (tsiCompP (F := K) nm n (p : Int) (s : Int) input hpI hsI hn).val H c = .ok z ∧
          (tsiCompP (F := K) nm n (p : Int) (s : Int) input hpI hsI hn).app z c
            = tsiIOut nm c (tsiIRowAt n p s t0 r m) := by
      intro w h5 hw
      obtain ⟨z, hz, happ⟩ := tsiI_val_pos nm n (p : Int) (s : Int) input hpI hsI hn H c _ _
        (tsiIDict r (m - t0)) vf vs va vb w hG' ha hb hd h1 h2 h3 h4 h5
      refine ⟨z, hz, ?_⟩
      rw [happ, e1', e2', e3', e4', hw]
      unfold tsiIRowAt
      rw [if_neg hm]
      rfl
    by_cases hw : m - t0 + 1 < p + s
    · -- `abs_second` is still `None`
      refine hrow .none (tsiFin_none nm _ ?_) ?_
      · rw [tsiI_C5_absSecond nm hn _ _ _ _ _ c hc, e4', ds2V_none _ _ _ _ hw]
      · unfold tsiOwn; rw [if_pos hw]; rfl
    · refine hrow _ (tsiFin_flt nm _ (ds2F p s (tsiPrice (fun k => (r k).toF)) (m - t0))
        (ds2F p s (tsiAbs (fun k => (r k).toF)) (m - t0)) ?_ ?_) ?_
      · rw [tsiI_C5_absSecond nm hn _ _ _ _ _ c hc, e4', ds2V_flt _ _ _ _ (by omega)]
      · rw [tsiI_C5_second nm hn _ _ _ _ _ c hc, e2', ds2V_flt _ _ _ _ (by omega)]
      · unfold tsiOwn tsiU; rw [if_neg hw]; rfl

/-! ### the run through the engine -/

theorem tsiI_take_getD {R : Type} (out : Candle K → R → Candle K) (dflt : R) (cs : List (Candle K)) (rows : List R)
    (m : Nat) (hm : m ≤ cs.length) (hr : rows.length = m) (j : Nat) (hj : j < m) :
    (decoWith out (cs.take m) rows).getD j default = out (cs.getD j default) (rows.getD j dflt) := by
  have htl : (cs.take m).length = m := by simp; omega
  rw [List.getD_eq_getElem?_getD, decoWith_getElem? _ _ _ dflt j (by rw [htl, hr]) (by rw [htl]; exact hj)]
  have : (cs.take m).getD j default = cs.getD j default := by
    rw [List.getD_eq_getElem?_getD, List.getD_eq_getElem?_getD, List.getElem?_take_of_lt hj]
  rw [this]
  rfl

/-- **TSI through the engine, exact rows**: for EVERY candle list (the six names of the tree absent), an
input name that sees none of them, `None` on the first `t0` candles and the numbers `r` afterwards, the
engine returns the input list with row `tsiIRowAt … j` stored on candle `j` – nothing else changes. -/
theorem tsi_inputs_rows (p s : Nat) (hp : 1 ≤ p) (hs : 1 ≤ s) (nm input : String) (n t0 : Nat)
    (cs : List (Candle K)) (r : Nat → Num K) (hn : TsiNames nm) (hi : TsiIInput nm input)
    (habs : ∀ c ∈ cs, TsiIAbsent nm c)
    (hnone : ∀ j, j < cs.length → j < t0 → readingByCandle (cs.getD j default) input = .none)
    (hnum : ∀ j, j < cs.length → t0 ≤ j → readingByCandle (cs.getD j default) input = .num (r (j - t0))) :
    ∃ rows : List (TsiIRow K), rows.length = cs.length ∧
      engineCalc (mkTop (.tsi (p : Int) (s : Int) input : Kind K) nm n) cs = .ok (decoWith (tsiIOut nm) cs rows) ∧
      ∀ j, j < cs.length → rows.getD j (none, .none) = tsiIRowAt n p s t0 r j := by
  have hpI : 1 ≤ (p : Int) := by omega
  have hsI : 1 ≤ (s : Int) := by omega
  show ∃ rows : List (TsiIRow K), rows.length = cs.length ∧
    engineCalc (tsiP (F := K) nm n (p : Int) (s : Int) input) cs = _ ∧ _
  rw [engineCalc_tsi]
  refine node_induct _ (tsiIOut nm) (none, .none) cs (fun c hc => ?_)
    (fun j ρ => ρ = tsiIRowAt n p s t0 r j) ?_
  · show dlookup (tsiP (F := K) nm n (p : Int) (s : Int) input).name c.inds = none ∧ _
    rw [tsiP_name]
    exact (habs c hc).a0
  intro m hm rows hrl hQ
  have hdl := midW_done_length (tsiIOut nm) cs rows m (by omega) hrl
  have hget : ∀ j, j < m → (decoWith (tsiIOut nm) (cs.take m) rows).getD j default
      = tsiIOut nm (cs.getD j default) (tsiIRowAt n p s t0 r j) := by
    intro j hj
    rw [tsiI_take_getD (tsiIOut nm) (none, .none) cs rows m (by omega) hrl j hj, hQ j hj]
  have hin : ∀ j, j < cs.length →
      readingByCandle (cs.getD j default) input = if j < t0 then .none else .num (r (j - t0)) := by
    intro j hj
    by_cases h : j < t0
    · rw [if_pos h]; exact hnone j hj h
    · rw [if_neg h]; exact hnum j hj (by omega)
  obtain ⟨z, hz, happ⟩ := tsiI_step nm n p s input t0 r hp hs hpI hsI hn
    (decoWith (tsiIOut nm) (cs.take m) rows) (cs.getD m default) (habs _ (getD_mem' cs m hm))
    (by
      intro j hj
      rw [hdl] at hj
      rw [hget j hj, tsiIOut_input nm input hi]
      exact hin j (by omega))
    (by rw [hdl]; exact hin m hm)
    (by
      intro j hj
      rw [hdl] at hj
      rw [hget j hj]
      exact tsiIOut_reads nm hn n p s t0 hp hs r _ (habs _ (getD_mem' cs j (by omega))) j)
  rw [hdl] at happ
  refine ⟨tsiIRowAt n p s t0 r m, ?_, rfl⟩
  rw [midW_split (tsiIOut nm) cs rows m hm]
  have hstep := stepWith_tsi (F := K) nm n (p : Int) (s : Int) input hpI hsI hn
    (decoWith (tsiIOut nm) (cs.take m) rows) (cs.getD m default) (cs.drop (m + 1))
  rw [hdl] at hstep
  show stepWith (tsiP (F := K) nm n (p : Int) (s : Int) input) (tsiC nm (p : Int) (s : Int) input) _ (m : Int) = _
  rw [hstep, hz]
  simp only [bind, Except.bind, pure, Except.pure]
  rw [happ]

/-! ### the readings of the finished candles against the textbook series -/

/-- all seven readings of the tree are `None` -/
structure TsiIAllNone (nm : String) (d : Candle K) : Prop where
  price : readingByCandle d (nm ++ "_data.price") = .none
  absPrice : readingByCandle d (nm ++ "_data.abs_price") = .none
  first : readingByCandle d (nm ++ "_first") = .none
  second : readingByCandle d (nm ++ "_second") = .none
  absFirst : readingByCandle d (nm ++ "_abs_first") = .none
  absSecond : readingByCandle d (nm ++ "_abs_second") = .none
  own : readingByCandle d nm = .none

theorem tsiI_allNone (nm : String) (n p s t0 : Nat) (r : Nat → Num K) (j : Nat) (hj : j < t0) (d : Candle K)
    (hR : TsiIReads nm n p s t0 r j d) : TsiIAllNone nm d := by
  refine ⟨?_, ?_, ?_, ?_, ?_, ?_, ?_⟩
  · rw [hR.price, if_pos (by omega)]
  · rw [hR.absPrice, if_pos (by omega)]
  · rw [hR.first, tsiIShift_lt _ _ _ hj]
  · rw [hR.second, tsiIShift_lt _ _ _ hj]
  · rw [hR.absFirst, tsiIShift_lt _ _ _ hj]
  · rw [hR.absSecond, tsiIShift_lt _ _ _ hj]
  · rw [hR.own, tsiIShift_lt _ _ _ hj]

/-- a candle that reads the shifted rows satisfies the predicate of the raw theorem (`TsiCandleOK`,
HexProofs/Numeric/SeriesTSI.lean) at the index counted from `t0` -/
theorem tsiI_candleOK (nm : String) (n p s : Nat) (hp : 1 ≤ p) (hs : 1 ≤ s) (r : Nat → Num K) (t0 j : Nat)
    (hj : t0 ≤ j) (c d : Candle K) (hb : d.bare = c.bare) (hR : TsiIReads nm n p s t0 r j d) :
    TsiCandleOK nm n p s (fun k => (r k).toF) (j - t0) c d := by
  obtain ⟨r1, r2, r3, r4, r5, r6, r7⟩ := hR
  rw [tsiIShift_ge _ _ _ hj] at r3 r4 r5 r6 r7
  refine ⟨hb, ?_, ?_, ?_, ?_, ?_, ?_, ?_, ?_, ?_, ?_⟩
  · intro h; rw [r1, r2, if_pos (by omega), if_pos (by omega)]; exact ⟨rfl, rfl⟩
  · intro h
    rw [r1, r2, if_neg (by omega), if_neg (by omega)]
    exact ⟨_, rfl, rfl, by simp [tsiIPriceN]⟩
  · rw [r3]; exact ds1V_ok p hp _ _
  · rw [r5]; exact ds1V_ok p hp _ _
  · rw [r4]; exact ds2V_ok p s hs _ _
  · rw [r6]; exact ds2V_ok p s hs _ _
  · rw [r4]; exact ds2V_ok_exact p s hp hs _ _
  · rw [r6]; exact ds2V_ok_exact p s hp hs _ _
  · rw [r7]; exact tsiOwn_ok n p s hp hs _ _
  · intro h
    have hy : tsiOwn n p s (fun k => (r k).toF) (j - t0)
        = .flt (PyF.round n (tsiU p s (fun k => (r k).toF) (j - t0))) := by
      unfold tsiOwn; rw [if_neg (by omega)]
    obtain ⟨b1, b2⟩ := tsiOwn_range_budget n p s hp hs (fun k => (r k).toF) (j - t0) _ hy
    refine ⟨ds2F p s (tsiPrice (fun k => (r k).toF)) (j - t0), ds2F p s (tsiAbs (fun k => (r k).toF)) (j - t0), _,
      ?_, ?_, ?_, ds2F_abs_nonneg p s hp hs _ _, rfl, ds2F_abs_le_budget p s hp hs _ _,
      fun hodd => ds2F_abs_le p s hodd hp hs _ _, b1, b2,
      fun hle => tsiOwn_range n p s (fun k => (r k).toF) (j - t0) hle _ hy⟩
    · rw [r4, ds2V_flt _ _ _ _ h]
    · rw [r6, ds2V_flt _ _ _ _ h]
    · rw [r7, hy]; rfl

/-! ### the statement -/

/-- TSI over a late-starting foreign input: the shape of `C06_chained_FULL` (with the `None` hypothesis of
`C06ChainedPartialStatement`) and the candle predicate `TsiCandleOK` of `tsi_engine_readings` -/
def C06TsiStatement : Prop :=
  ∀ (K : Type) [Field K] [LinearOrder K] [IsStrictOrderedRing K] [LawfulPyF K]
    (p s : Nat) (nm input : String) (n t0 : Nat) (cs : List (Candle K)) (x : Nat → K),
    1 ≤ p → 1 ≤ s → TsiNames nm → TsiIInput nm input →
    (∀ c ∈ cs, TsiIAbsent nm c) →
    (∀ j, j < cs.length →
      (match readingByCandle (cs.getD j default) input with
        | .s (.num r) => some r.toF
        | _ => none) = if j < t0 then none else some (x (j - t0))) →
    (∀ j, j < cs.length → j < t0 → readingByCandle (cs.getD j default) input = .none) →
    ∃ out : List (Candle K),
      engineCalc (mkTop (.tsi (p : Int) (s : Int) input : Kind K) nm n) cs = .ok out ∧
      out.length = cs.length ∧
      ∀ j, j < cs.length →
        (∀ key, TsiIInput nm key →
          readingByCandle (out.getD j default) key = readingByCandle (cs.getD j default) key) ∧
        (j < t0 → TsiIAllNone nm (out.getD j default)) ∧
        (t0 ≤ j → TsiCandleOK nm n p s x (j - t0) (cs.getD j default) (out.getD j default))

/-- **C06 for TSI, every candle list, an input that is another indicator's reading, every start `t0`**:
the engine never raises and keeps the length; every name that sees none of the six names of the tree reads
what it read before; on the first `t0` candles all readings of the tree are `None`; candle `j ≥ t0`
satisfies `TsiCandleOK` – the candle predicate of the raw theorem `tsi_engine_readings` – at index `j − t0`
of the input values counted from `t0`: no helper entry at index `0`, the exact momentum dict from index `1`
on, the EMA chains within their budgets (`RecOK`, `MacdFieldOK`) of the textbook double smoothing, the own
reading `TsiOK` (first value at index `p + s − 1`) with its range facts. -/
theorem c06_tsi_inputs : C06TsiStatement := by
  intro K _ _ _ _ p s nm input n t0 cs x hp hs hn hi habs hin hnone
  obtain ⟨r, hr, hnum⟩ := input_col cs input t0 x hin
  have hx : (fun k => (r k).toF) = x := funext hr
  obtain ⟨rows, hl, hrun, hall⟩ := tsi_inputs_rows p s hp hs nm input n t0 cs r hn hi habs hnone hnum
  refine ⟨_, hrun, decoWith_length _ _ _ hl, ?_⟩
  intro j hj
  have hcj : (decoWith (tsiIOut nm) cs rows).getD j default
      = tsiIOut nm (cs.getD j default) (tsiIRowAt n p s t0 r j) := by
    rw [decoWith_getD (tsiIOut nm) (none, .none) cs rows hl j hj, hall j hj]
  have hR := tsiIOut_reads nm hn n p s t0 hp hs r _ (habs _ (getD_mem' cs j hj)) j
  rw [hcj]
  refine ⟨fun key hkey => tsiIOut_input nm key hkey _ _, fun hjt => tsiI_allNone nm n p s t0 r j hjt _ hR,
    fun hjt => ?_⟩
  rw [← hx]
  exact tsiI_candleOK nm n p s hp hs r t0 j hjt _ _ (tsiIOut_bare nm _ _) hR

/-! #### non-vacuity: `TSI(period = 1, smooth_period = 1)` of the foreign reading `"EMA_2"` of `demoForeign`
(`None, None, 12, 14, 15`; `t0 = 2`): own readings on candles 3 and 4 -/

theorem tsiI_names_demo11 : TsiNames "TSI_1_1" :=
  ⟨by decide, by decide, by decide, by decide, by decide, by decide, by decide, by decide, by decide,
    by decide, by decide, by decide, by decide, by decide, by decide, by decide, by decide, by decide,
    by decide, by decide, by decide⟩

theorem tsiIInput_demo11 : TsiIInput "TSI_1_1" "EMA_2" :=
  tsiIInput_noDot _ _ (by decide) (by decide) (by decide) (by decide) (by decide) (by decide) (by decide)

theorem tsiIAbsent_demo11 : ∀ c ∈ demoForeign, TsiIAbsent "TSI_1_1" c := fun c hc =>
  ⟨demoForeign_abs "TSI_1_1" (by decide) (by decide) (by decide) c hc,
    demoForeign_abs "TSI_1_1_data" (by decide) (by decide) (by decide) c hc,
    demoForeign_abs "TSI_1_1_first" (by decide) (by decide) (by decide) c hc,
    demoForeign_abs "TSI_1_1_second" (by decide) (by decide) (by decide) c hc,
    demoForeign_abs "TSI_1_1_abs_first" (by decide) (by decide) (by decide) c hc,
    demoForeign_abs "TSI_1_1_abs_second" (by decide) (by decide) (by decide) c hc⟩

example : ∃ out : List (Candle ℚ),
    engineCalc (mkTop (.tsi ((1 : Nat) : Int) ((1 : Nat) : Int) "EMA_2" : Kind ℚ) "TSI_1_1" 4) demoForeign = .ok out ∧
    out.length = demoForeign.length ∧
    ∀ j, j < demoForeign.length →
      (∀ key, TsiIInput "TSI_1_1" key →
        readingByCandle (out.getD j default) key = readingByCandle (demoForeign.getD j default) key) ∧
      (j < 2 → TsiIAllNone "TSI_1_1" (out.getD j default)) ∧
      (2 ≤ j → TsiCandleOK "TSI_1_1" 4 1 1 demoX (j - 2) (demoForeign.getD j default) (out.getD j default)) :=
  c06_tsi_inputs ℚ 1 1 "TSI_1_1" "EMA_2" 4 2 demoForeign demoX (by norm_num) (by norm_num) tsiI_names_demo11
    tsiIInput_demo11 tsiIAbsent_demo11 demoForeign_in demoForeign_none

/-- the exact rows of that run: nothing but a `None` own reading on candles 0–2 (the guard
`reading_period(2, "EMA_2")` first holds on candle 3), the five helper entries and a float own reading on
candle 3 -/
example : ∃ rows : List (TsiIRow ℚ), rows.length = demoForeign.length ∧
    engineCalc (mkTop (.tsi ((1 : Nat) : Int) ((1 : Nat) : Int) "EMA_2" : Kind ℚ) "TSI_1_1" 4) demoForeign
      = .ok (decoWith (tsiIOut "TSI_1_1") demoForeign rows) ∧
    rows.getD 2 (none, .none) = (none, .none) ∧
    (rows.getD 3 (none, .none)).1.isSome = true ∧ ∃ w, (rows.getD 3 (none, .none)).2 = .flt w := by
  obtain ⟨r, hr, hnum⟩ := input_col demoForeign "EMA_2" 2 demoX demoForeign_in
  obtain ⟨rows, hl, hrun, hall⟩ := tsi_inputs_rows 1 1 (by norm_num) (by norm_num) "TSI_1_1" "EMA_2" 4 2 demoForeign r
    tsiI_names_demo11 tsiIInput_demo11 tsiIAbsent_demo11 demoForeign_none hnum
  refine ⟨rows, hl, hrun, ?_, ?_⟩
  · rw [hall 2 (by decide)]; rfl
  · rw [hall 3 (by decide)]
    unfold tsiIRowAt
    rw [if_neg (by decide)]
    refine ⟨rfl, PyF.round 4 (tsiU 1 1 (fun k => (r k).toF) (3 - 2)), ?_⟩
    show tsiOwn 4 1 1 (fun k => (r k).toF) (3 - 2) = _
    unfold tsiOwn
    rw [if_neg (by decide)]

end Numeric

/-- the toy carrier: TSI of a late-starting foreign reading returns; the own reading is `None` on the first
`t0 + p + s − 1 = 3` candles (`decide`) -/
example : (engineCalc (mkTop (.tsi 1 1 "EMA_2") "TSI_1_1" 4)
    ([{ o := .int 10, h := .int 12, l := .int 9, c := .int 11, v := .int 100 },
      { o := .int 11, h := .int 13, l := .int 10, c := .int 12, v := .int 200, inds := [("EMA_2", .none)] },
      { o := .int 12, h := .int 15, l := .int 11, c := .int 14, v := .int 300, inds := [("EMA_2", .int 12)] },
      { o := .int 14, h := .int 16, l := .int 13, c := .int 15, v := .int 0, inds := [("EMA_2", .int 14)] }]
      : List (Candle Int))).toOption.map
      (fun l => l.map fun c => (readingByCandle c "TSI_1_1").isNone) = some [true, true, true, false] := by
  decide +kernel

/-- … and a longer run with `period = smooth_period = 2` over an input that starts on candle 1: the momentum
dict from candle 2 on, the first level from candle 3 (`t0 + p`), the second level and the own reading from
candle 4 (`t0 + p + s − 1`) -/
example : (engineCalc (mkTop (.tsi 2 2 "X") "TSI_2_2" 4)
    ([{ o := .int 10, h := .int 12, l := .int 9, c := .int 11, v := .int 100, inds := [("Y", .int 1)] },
      { o := .int 11, h := .int 13, l := .int 10, c := .int 12, v := .int 200, inds := [("X", .int 12)] },
      { o := .int 12, h := .int 15, l := .int 11, c := .int 14, v := .int 300, inds := [("X", .int 15)] },
      { o := .int 14, h := .int 16, l := .int 13, c := .int 15, v := .int 0, inds := [("X", .int 14)] },
      { o := .int 14, h := .int 16, l := .int 13, c := .int 15, v := .int 0, inds := [("X", .int 18)] },
      { o := .int 14, h := .int 16, l := .int 13, c := .int 15, v := .int 0, inds := [("X", .int 17)] }]
      : List (Candle Int))).toOption.map
      (fun l => l.map fun c => ((readingByCandle c "TSI_2_2_data.price").isNone,
        (readingByCandle c "TSI_2_2_first").isNone, (readingByCandle c "TSI_2_2_abs_second").isNone,
        (readingByCandle c "TSI_2_2").isNone))
      = some [(true, true, true, true), (true, true, true, true), (false, true, true, true),
              (false, false, true, true), (false, false, false, false), (false, false, false, false)] := by
  decide +kernel

end Hex

#print axioms Hex.Numeric.tsiI_emaCol_shift
#print axioms Hex.Numeric.tsiI_step
#print axioms Hex.Numeric.tsi_inputs_rows
#print axioms Hex.Numeric.c06_tsi_inputs

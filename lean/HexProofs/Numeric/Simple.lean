import HexProofs.Numeric.CtxLemmas
/-!
# Numeric theorems for the read-only indicators (HexModel/Ind/Simple.lean, ATR)
Hypotheses name the readings the Python method reads (`self.reading(..)`, `self.prev_reading(..)`)
and say they returned numbers; conclusions give the returned value as a field expression.
-/
set_option linter.unusedSectionVars false
set_option linter.unusedSimpArgs false
namespace Hex
variable {K : Type} [Field K] [LinearOrder K] [IsStrictOrderedRing K] [LawfulPyF K]
namespace Numeric

/-! ## HLA -/

theorem hla_def (x : Ctx K) (h l : Num K)
    (hh : x.reading "high" = .ok (.num h)) (hl : x.reading "low" = .ok (.num l)) :
    Calc.hla x = .ok (.flt ((h.toF + l.toF) / 2)) := by
  have h2 : (Num.int 2 : Num K).toF ≠ 0 := by simp
  simp [Calc.hla, Ctx.num_of hh, Ctx.num_of hl, Num.truediv_ok _ _ h2]

/-! ## TR -/

theorem tr_def (x : Ctx K) (h l pc : Num K)
    (hh : x.reading "high" = .ok (.num h)) (hl : x.reading "low" = .ok (.num l))
    (hp : x.readingPeriod 2 "close" = true) (hpc : x.prevReading "close" = .ok (.num pc)) :
    IsNum (Calc.tr x) (max (max (h.toF - l.toF) |h.toF - pc.toF|) |l.toF - pc.toF|) := by
  refine ⟨Num.max2 (Num.max2 (h.sub l) (h.sub pc).abs) (l.sub pc).abs, ?_, by simp⟩
  simp [Calc.tr, hh, hl, hp, Ctx.prevNum_of hpc]

/-- before two closes exist TR is `None` -/
theorem tr_none (x : Ctx K) (h l : Val K)
    (hh : x.reading "high" = .ok h) (hl : x.reading "low" = .ok l)
    (hp : x.readingPeriod 2 "close" = false) : Calc.tr x = .ok .none := by
  simp [Calc.tr, hh, hl, hp]

/-- TR ≥ high − low ≥ 0 -/
theorem tr_ge_range (h l pc : K) (hlh : l ≤ h) :
    0 ≤ h - l ∧ h - l ≤ max (max (h - l) |h - pc|) |l - pc| :=
  ⟨by linarith, le_trans (le_max_left _ _) (le_max_left _ _)⟩

/-! ## OBV -/

theorem obv_def (x : Ctx K) (c pc prev v : Num K)
    (hprev : x.prevReading x.name = .ok (.num prev))
    (hc : x.reading "close" = .ok (.num c)) (hpc : x.prevReading "close" = .ok (.num pc))
    (hv : x.reading "volume" = .ok (.num v)) :
    IsNum (Calc.obv x)
      (if c.toF = pc.toF then prev.toF else if pc.toF < c.toF then prev.toF + v.toF else prev.toF - v.toF) := by
  by_cases h1 : c.toF = pc.toF
  · refine ⟨prev, ?_, by simp [h1]⟩
    simp [Calc.obv, Ctx.prevExists_of hprev, Ctx.prevNum_of hprev, Ctx.num_of hc, Ctx.prevNum_of hpc,
      (Num.eq_iff c pc).2 h1]
  · have e1 : c.eq pc = false := (Num.eq_false_iff c pc).2 h1
    by_cases h2 : pc.toF < c.toF
    · refine ⟨prev.add v, ?_, by simp [h1, h2]⟩
      simp [Calc.obv, Ctx.prevExists_of hprev, Ctx.prevNum_of hprev, Ctx.num_of hc, Ctx.prevNum_of hpc,
        Ctx.num_of hv, e1, (Num.gt_iff c pc).2 h2]
    · have e2 : c.gt pc = false := (Num.gt_false_iff c pc).2 (not_lt.1 h2)
      refine ⟨prev.sub v, ?_, by simp [h1, h2]⟩
      simp [Calc.obv, Ctx.prevExists_of hprev, Ctx.prevNum_of hprev, Ctx.num_of hc, Ctx.prevNum_of hpc,
        Ctx.num_of hv, e1, e2]

/-- the first OBV reading is the candle's volume -/
theorem obv_seed (x : Ctx K) (hprev : x.prevReading x.name = .ok .none) :
    Calc.obv x = x.reading "volume" := by
  simp [Calc.obv, Ctx.prevExists_of hprev]

/-! ## ROC -/

theorem roc_def (x : Ctx K) (period : Int) (input : String) (pv : Val K) (back cur : Num K)
    (hprev : x.prevReading x.name = .ok pv)
    (hg : pv.isNone = false ∨ x.readingPeriod (period + 1) input = true)
    (hb : x.reading input (some (x.i - period)) = .ok (.num back))
    (hc : x.reading input = .ok (.num cur)) (hb0 : back.toF ≠ 0) :
    IsNum (Calc.roc x period input) ((cur.toF - back.toF) / back.toF * 100) := by
  refine ⟨(Num.flt ((cur.toF - back.toF) / back.toF)).mul (.int 100), ?_, by simp⟩
  rcases hg with h | h <;>
    simp [Calc.roc, Ctx.prevExists_of hprev, h, Ctx.num_of hb, Ctx.num_of hc, Num.truediv_ok _ _ hb0]

/-- ROC's division is NOT guarded: a zero reference value raises `ZeroDivisionError` -/
theorem roc_zeroDiv (x : Ctx K) (period : Int) (input : String) (pv : Val K) (back cur : Num K)
    (hprev : x.prevReading x.name = .ok pv)
    (hg : pv.isNone = false ∨ x.readingPeriod (period + 1) input = true)
    (hb : x.reading input (some (x.i - period)) = .ok (.num back))
    (hc : x.reading input = .ok (.num cur)) (hb0 : back.toF = 0) :
    Calc.roc x period input = .error .zeroDiv := by
  rcases hg with h | h <;>
    simp [Calc.roc, Ctx.prevExists_of hprev, h, Ctx.num_of hb, Ctx.num_of hc, Num.truediv_zero _ _ hb0]

theorem roc_none (x : Ctx K) (period : Int) (input : String)
    (hprev : x.prevReading x.name = .ok .none)
    (hg : x.readingPeriod (period + 1) input = false) :
    Calc.roc x period input = .ok .none := by
  simp [Calc.roc, Ctx.prevExists_of hprev, hg]

end Numeric
end Hex

import HexProofs.Numeric.Composite
import HexProofs.Numeric.Window
/-!
# Stochastic oscillator
-/
set_option linter.unusedSectionVars false
set_option linter.unusedSimpArgs false
namespace Hex
variable {K : Type} [Field K] [LinearOrder K] [IsStrictOrderedRing K] [LawfulPyF K]
namespace Numeric

/-- `100·(x − L)/(H − L)`, `0` on a flat window -/
def stochOf (cur lo hi : K) : K := if hi - lo = 0 then 0 else (cur - lo) / (hi - lo) * 100

theorem stochOf_range (cur lo hi : K) (h1 : lo ≤ cur) (h2 : cur ≤ hi) :
    0 ≤ stochOf cur lo hi ∧ stochOf cur lo hi ≤ 100 := by
  unfold stochOf
  by_cases h0 : hi - lo = 0
  · simp [h0]
  · have hpos : 0 < hi - lo := lt_of_le_of_ne (by linarith) (Ne.symm h0)
    simp only [h0, if_false]
    have a : 0 ≤ (cur - lo) / (hi - lo) := div_nonneg (by linarith) hpos.le
    have b : (cur - lo) / (hi - lo) ≤ 1 := by rw [div_le_one hpos]; linarith
    constructor <;> nlinarith

/-- the `for i in range(index - (period-1), index + 1)` loop over one field -/
theorem mapM_up1 (x : Ctx K) (p : Nat) (n1 : String) (r1 : Nat → Num K)
    (h1 : ∀ j, j < p → x.reading n1 (some (x.i + 1 - p + j)) = .ok (.num (r1 j))) :
    ((pyRange (x.i - ((p : Int) - 1)) (x.i + 1)).mapM fun i => x.num n1 (some i))
      = .ok ((List.range p).map r1) := by
  have e : x.i + 1 = (x.i - ((p : Int) - 1)) + (p : Int) := by omega
  rw [e, pyRange_eq]
  rw [mapM_ok _ _ (fun (i : Int) => r1 (i - (x.i - ((p : Int) - 1))).toNat)]
  · rw [List.map_map]
    congr 1
    apply List.map_congr_left
    intro j _
    simp
  · intro i hi
    obtain ⟨j, hj, rfl⟩ := List.mem_map.1 hi
    have hj' := List.mem_range.1 hj
    have e1 : x.i - ((p : Int) - 1) + (j : Int) = x.i + 1 - (p : Int) + (j : Int) := by omega
    have e2 : (x.i - ((p : Int) - 1) + (j : Int) - (x.i - ((p : Int) - 1))).toNat = j := by omega
    rw [e2, e1]
    simp [Ctx.num_of (h1 j hj')]

/-- Stochastic: `stoch = 100·(input − lowest low)/(highest high − lowest low)` over the window
(`0` on a flat window: the division is guarded); `k`, `d` are whatever the SMA helpers hold. -/
theorem stoch_def (ops : Ops K) (x : Ctx K) (p : Nat) (input : String)
    (w : Val K → List (Candle K) → List (Candle K)) (cd : List (Candle K) → List (Candle K))
    (lo hi : Nat → Num K) (cur : Num K)
    (hrp : x.readingPeriod p input = true) (hp : 1 ≤ p)
    (hlo : ∀ j, j < p → x.reading "low" (some (x.i + 1 - p + j)) = .ok (.num (lo j)))
    (hhi : ∀ j, j < p → x.reading "high" (some (x.i + 1 - p + j)) = .ok (.num (hi j)))
    (hc : x.reading input = .ok (.num cur))
    (hset : ∀ v cs, ops.setManaged "STOCH_data" v cs = .ok (w v cs))
    (hcalc : ∀ cs, ops.calcManaged "STOCH_d" cs = .ok (cd cs))
    (hk : ∀ v, ∃ ks, (Ctx.on x (w v x.cs)).reading (x.name ++ "_k") = .ok (.s ks))
    (hdr : ∀ v1 v2, ∃ ds, (Ctx.on x (cd (w v2 (w v1 x.cs)))).reading (x.name ++ "_d") = .ok (.s ds)) :
    ∃ (st L H : Num K) (ks ds : Scalar K) (cs' : List (Candle K)),
      Calc.stoch ops x p input = .ok (.dict [("stoch", .num st), ("k", ks), ("d", ds)], cs') ∧
      st.toF = stochOf cur.toF L.toF H.toF ∧
      (∀ j, j < p → L.toF ≤ (lo j).toF) ∧ (∃ j, j < p ∧ L.toF = (lo j).toF) ∧
      (∀ j, j < p → (hi j).toF ≤ H.toF) ∧ (∃ j, j < p ∧ H.toF = (hi j).toF) := by
  have hml := mapM_up1 x p "low" lo hlo
  have hmh := mapM_up1 x p "high" hi hhi
  -- min / max exist because the window is non-empty
  obtain ⟨L, hL⟩ : ∃ L, Num.minList ((List.range p).map lo) = some L := by
    obtain ⟨n, rfl⟩ : ∃ n, p = n + 1 := ⟨p - 1, by omega⟩
    simp [List.range_succ_eq_map, Num.minList]
  obtain ⟨H, hH⟩ : ∃ H, Num.maxList ((List.range p).map hi) = some H := by
    obtain ⟨n, rfl⟩ : ∃ n, p = n + 1 := ⟨p - 1, by omega⟩
    simp [List.range_succ_eq_map, Num.maxList]
  obtain ⟨hL1, y, hy, hL2⟩ := Num.minList_spec _ _ hL
  obtain ⟨hH1, z, hz, hH2⟩ := Num.maxList_spec _ _ hH
  obtain ⟨jl, hjl, rfl⟩ := List.mem_map.1 hy
  obtain ⟨jh, hjh, rfl⟩ := List.mem_map.1 hz
  have hLs := fun j hj => hL1 (lo j) (List.mem_map.2 ⟨j, List.mem_range.2 hj, rfl⟩)
  have hHs := fun j hj => hH1 (hi j) (List.mem_map.2 ⟨j, List.mem_range.2 hj, rfl⟩)
  unfold Calc.stoch
  simp only [hrp, Bool.not_true, Bool.false_eq_true, if_false]
  erw [hml, hmh]
  simp only [pym_bind_ok, hL, hH, pym_pure, Ctx.num_of hc, Val.asNum_num]
  by_cases h0 : H.toF - L.toF = 0
  · have e : (H.sub L).eq (.int 0) = true := by rw [Num.eq_iff]; simpa using h0
    obtain ⟨ks, hks⟩ := hk (sdict [("stoch", sc (fl 0))])
    obtain ⟨ds, hds⟩ := hdr (sdict [("stoch", sc (fl 0))]) (sdict [("stoch", sc (fl 0)), ("k", ks)])
    refine ⟨fl 0, L, H, ks, ds,
      cd (w (sdict [("stoch", sc (fl 0)), ("k", ks)]) (w (sdict [("stoch", sc (fl 0))]) x.cs)),
      ?_, by simp [stochOf, h0], hLs, ⟨jl, List.mem_range.1 hjl, hL2⟩,
      hHs, ⟨jh, List.mem_range.1 hjh, hH2⟩⟩
    simp only [Ctx.on] at hks hds
    simp only [e, if_true, pym_bind_ok, hset, hks, hcalc, hds, Val.toScalar]
    rfl
  · have e : (H.sub L).eq (.int 0) = false := by rw [Num.eq_false_iff]; simpa using h0
    have hd : (H.sub L).toF ≠ 0 := by simpa using h0
    obtain ⟨ks, hks⟩ := hk (sdict [("stoch", sc ((Num.flt ((cur.sub L).toF / (H.sub L).toF)).mul (.int 100)))])
    obtain ⟨ds, hds⟩ := hdr (sdict [("stoch", sc ((Num.flt ((cur.sub L).toF / (H.sub L).toF)).mul (.int 100)))])
      (sdict [("stoch", sc ((Num.flt ((cur.sub L).toF / (H.sub L).toF)).mul (.int 100))), ("k", ks)])
    refine ⟨(Num.flt ((cur.sub L).toF / (H.sub L).toF)).mul (.int 100), L, H, ks, ds,
      cd (w (sdict [("stoch", sc ((Num.flt ((cur.sub L).toF / (H.sub L).toF)).mul (.int 100))), ("k", ks)])
        (w (sdict [("stoch", sc ((Num.flt ((cur.sub L).toF / (H.sub L).toF)).mul (.int 100)))]) x.cs)),
      ?_, by simp [stochOf, h0],
      hLs, ⟨jl, List.mem_range.1 hjl, hL2⟩, hHs, ⟨jh, List.mem_range.1 hjh, hH2⟩⟩
    simp only [Ctx.on] at hks hds
    simp only [e, Bool.false_eq_true, if_false, Num.truediv_ok _ _ hd, pym_bind_ok, hset, hks, hcalc, hds, Val.toScalar]
    rfl

theorem stoch_none (ops : Ops K) (x : Ctx K) (p : Int) (input : String)
    (hrp : x.readingPeriod p input = false) :
    Calc.stoch ops x p input = .ok (.dict [("stoch", .none), ("k", .none), ("d", .none)], x.cs) := by
  simp [Calc.stoch, hrp, sdict]

end Numeric
end Hex

import HexProofs.Framework.Gen.TSI
import HexProofs.Numeric.SeriesMACD
import HexProofs.Numeric.Rounding
/-!
# True Strength Index: the whole series (closes the TSI item of `C06_FULL`)

`tsiTree name round p smooth input` (HexProofs/Framework/Gen/TSI.lean) is the `TreeSpec` of a TSI node: no
prior helpers, ONE `Managed` holder `<name>_data` whose two non-prior sub-indicators are EMAs over the dotted
fields of the holder's dict, each with its own non-prior EMA sub-indicator.  This file proves, for EVERY raw
candle list, what the row-major run – and hence the engine's `calculate()`, the batch run and every append
schedule (`TreeSpec.engine`, `batch_iff`, `live_refines`) – stores on every candle.

What the model (HexModel/Ind/Composite.lean `Calc.tsi`, HexModel/Ind/Simple.lean `Calc.ema`, `children` in
HexModel/Core/Eval.lean) actually does – cross-checked by running the real class of /repo on the demo candles –
and what is therefore stated here (`x` = the input series, `p` = period, `s` = smooth_period):

* **candle 0**: the guard `reading_period(2, input)` fails: a `None` own reading and NO helper entry at all.
* **`<name>_data`** (candle `j ≥ 1`, `.sub_indicators`, written by `Managed.set_reading`: NOT rounded):
  `{price: x j − x (j−1), abs_price: |x j − x (j−1)|}` as Python numbers (`tsiDict`; ints for int prices).
* **`<name>_first`, `<name>_abs_first`** (`leaf`-like EMAs: rounded to `defaultRound = 4`): the column
  `<name>_data.price` is `None` on candle 0, so `reading_period(p)` first holds at index `p` (NOT `p − 1`):
  `ds1V p y = emaCol p 1 y`: `None` below index `p`, the rounded mean of `y 1 … y p` at `p`, then
  `round₄(a·y j + prev·(1 − a))`, `a = 2/(p+1)`, on the STORED predecessor.
* **`<name>_second`, `<name>_abs_second`** (4 decimals): EMA_s over the STORED (already rounded, also on the
  current candle: the first level is stored before the second level runs) first-level column, which is `None`
  below `p`: first reading at index `p + s − 1`: `ds2V p s y = emaCol s p (ds1F p y)`.
* **own reading** (`tsiOwn`, rounded to the node's `round_value = n`): `None` below index `p + s − 1` (the TRUE
  warm-up index: `p` candles for the first level counted from candle 1, `s − 1` more for the second); then
  `round_n(0.0)` if the stored `abs_second` is `0`, else `round_n(100·second/abs_second)` on the stored values.

Main results (`1 ≤ p`, `1 ≤ s`, input a candle field; no `2 ≤ p` is needed here: the EMA seeds sit at index
`≥ 1`): `tsi_series` (the run returns EXACTLY `tsiOut`, an explicit function of the raw candles), `tsi_engine`,
`tsi_batch`, `tsi_batch_out`, `tsi_live`; the numeric layer
* `ds1V_ok`, `ds2V_ok`, `ds2V_ok_exact` (`RecOK` / budget `tsiChainBudget = ε₄/a_s + ε₄/a_p` w.r.t. the textbook
  double smoothing `ds2E`),
* `tsiOwn_ok : TsiOK` – the own reading is within `ε_n + 200·β/(d − β)` (`β = tsiChainBudget`) of the textbook
  `tsiExact = 100·EMA_s(EMA_p(Δx))/EMA_s(EMA_p(|Δx|))` WHEREVER the exact denominator is `≥ d > β` (the condition
  is part of the statement: for a denominator within `β` of `0` the stored denominator may be `0` – the code then
  returns `0.0` – or arbitrarily small, and no bound on the quotient is possible),
* the range: `tsiOwn_range` (`−100 ≤ TSI ≤ 100` EXACTLY, no budget, given `|second| ≤ abs_second` on the stored
  values), `ds2F_abs_le` (`|second| ≤ abs_second` DOES hold on the stored columns for every rounding with
  `RoundNegLe : −round x ≤ round (−x)`; true for Python's odd `round` and for the ℚ instance `roundNegLe_rat`,
  but not derivable from `LawfulPyF` alone – see `RoundNegLe`), and unconditionally `ds2F_abs_le_budget`
  (`|second| ≤ abs_second + 2β`), `ds2F_abs_nonneg`, `tsiOwn_range_budget` (`|TSI| ≤ 100 + 200·β/abs_second + ε_n`),
and the reading-by-reading forms `tsi_series_readings`, `tsi_engine_readings`, `tsi_batch_readings`,
`tsi_live_readings` (`TsiCandleOK`).
-/
set_option linter.unusedSectionVars false
set_option linter.unusedSimpArgs false
namespace Hex
namespace Numeric
variable {K : Type} [Field K] [LinearOrder K] [IsStrictOrderedRing K] [LawfulPyF K]

/-! ### look-ups on a candle built by successive stores -/

theorem tsi_lk_ne (b : Bool) (k k' : String) (v : Val K) (c : Candle K) (h : k ≠ k') :
    lookupKey (setKey b k v c) k' = lookupKey c k' := by
  cases b <;> simp [lookupKey, setKey, dlookup_dset_ne _ _ _ _ h]

theorem tsi_lk_sub (k : String) (v : Val K) (c : Candle K) (h : c.inds = []) :
    lookupKey (setKey true k v c) k = v := by
  simp [lookupKey, setKey, h, dlookup, dlookup_dset_self]

theorem tsi_inds_sub (k : String) (v : Val K) (c : Candle K) : (setKey true k v c).inds = c.inds := rfl

/-- a dotted read is the field of the entry stored under the main key -/
theorem tsi_rbc_dotted (full main fld : String) (hs : splitDot full = [main, fld]) (c : Candle K) :
    readingByCandle c full = (lookupKey c main).nested fld := by
  unfold readingByCandle lookupKey
  rw [hs]
  dsimp only
  cases dlookup main c.inds with
  | some r => rfl
  | none =>
    dsimp only
    cases dlookup main c.subs with
    | some r => rfl
    | none => rfl

/-! ### the candles of a TSI row -/

/-- the candle after the five stores of `Managed.set_reading` -/
def tsiC5 (nm : String) (d f s a b : Val K) (c : Candle K) : Candle K :=
  setKey true (nm ++ "_abs_second") b (setKey true (nm ++ "_abs_first") a (setKey true (nm ++ "_second") s
    (setKey true (nm ++ "_first") f (setKey true (nm ++ "_data") d c))))

/-- the finished candle of a TSI row with index `≥ 1` -/
def tsiC6 (nm : String) (d f s a b own : Val K) (c : Candle K) : Candle K :=
  setKey false nm own (tsiC5 nm d f s a b c)

theorem tsiXApp_eq (nm : String) (p smooth : Int) (d f s a b : Val K) (c : Candle K) :
    tsiXApp nm p smooth d f s a b c
      = tsiC5 nm d (f.roundBy defaultRound) (s.roundBy defaultRound) (a.roundBy defaultRound)
          (b.roundBy defaultRound) c := rfl

section cand
variable (nm : String) (hn : TsiNames nm) (d f s a b own : Val K) (c : Candle K)

theorem tsiC6_bare : (tsiC6 nm d f s a b own c).bare = c.bare := by
  simp only [tsiC6, tsiC5, bare_setKey]

theorem tsi_input_setKey (input : String) (hin : NoDot input ∧ input ∈ Candle.attrNames) (bb : Bool) (k : String)
    (v : Val K) : readingByCandle (setKey bb k v c) input = readingByCandle c input :=
  indep_attr (F := K) k input hin.1 hin.2 bb v c

theorem tsiC6_input (input : String) (hin : NoDot input ∧ input ∈ Candle.attrNames) :
    readingByCandle (tsiC6 nm d f s a b own c) input = readingByCandle c input := by
  simp only [tsiC6, tsiC5, tsi_input_setKey _ input hin]

include hn

theorem tsiC6_own : readingByCandle (tsiC6 nm d f s a b own c) nm = own := by
  rw [readingByCandle_key _ hn.kN]
  simp [tsiC6, lookupKey, setKey, dlookup_dset_self]

theorem tsiC6_data (hc : Plain c) : lookupKey (tsiC6 nm d f s a b own c) (nm ++ "_data") = d := by
  unfold tsiC6 tsiC5
  rw [tsi_lk_ne _ _ _ _ _ hn.nD, tsi_lk_ne _ _ _ _ _ hn.DB.symm, tsi_lk_ne _ _ _ _ _ hn.DA.symm,
    tsi_lk_ne _ _ _ _ _ hn.DS.symm, tsi_lk_ne _ _ _ _ _ hn.DF.symm]
  exact tsi_lk_sub _ _ _ hc.1

theorem tsiC6_first (hc : Plain c) : readingByCandle (tsiC6 nm d f s a b own c) (nm ++ "_first") = f := by
  rw [readingByCandle_key _ hn.kF]
  unfold tsiC6 tsiC5
  rw [tsi_lk_ne _ _ _ _ _ hn.nF, tsi_lk_ne _ _ _ _ _ hn.FB.symm, tsi_lk_ne _ _ _ _ _ hn.FA.symm,
    tsi_lk_ne _ _ _ _ _ hn.FS.symm]
  exact tsi_lk_sub _ _ _ hc.1

theorem tsiC6_second (hc : Plain c) : readingByCandle (tsiC6 nm d f s a b own c) (nm ++ "_second") = s := by
  rw [readingByCandle_key _ hn.kS]
  unfold tsiC6 tsiC5
  rw [tsi_lk_ne _ _ _ _ _ hn.nS, tsi_lk_ne _ _ _ _ _ hn.SB.symm, tsi_lk_ne _ _ _ _ _ hn.SA.symm]
  exact tsi_lk_sub _ _ _ hc.1

theorem tsiC6_absFirst (hc : Plain c) : readingByCandle (tsiC6 nm d f s a b own c) (nm ++ "_abs_first") = a := by
  rw [readingByCandle_key _ hn.kA]
  unfold tsiC6 tsiC5
  rw [tsi_lk_ne _ _ _ _ _ hn.nA, tsi_lk_ne _ _ _ _ _ hn.AB.symm]
  exact tsi_lk_sub _ _ _ hc.1

theorem tsiC6_absSecond (hc : Plain c) : readingByCandle (tsiC6 nm d f s a b own c) (nm ++ "_abs_second") = b := by
  rw [readingByCandle_key _ hn.kB]
  unfold tsiC6 tsiC5
  rw [tsi_lk_ne _ _ _ _ _ hn.nB]
  exact tsi_lk_sub _ _ _ hc.1

theorem tsiC6_price (hc : Plain c) :
    readingByCandle (tsiC6 nm d f s a b own c) (nm ++ "_data.price") = d.nested "price" := by
  rw [tsi_rbc_dotted _ _ _ hn.price, tsiC6_data nm hn d f s a b own c hc]

theorem tsiC6_absPrice (hc : Plain c) :
    readingByCandle (tsiC6 nm d f s a b own c) (nm ++ "_data.abs_price") = d.nested "abs_price" := by
  rw [tsi_rbc_dotted _ _ _ hn.absPrice, tsiC6_data nm hn d f s a b own c hc]

/-- the candle of index 0: only a `None` own reading -/
theorem tsiC0_key (k : String) (hk : IsKey k) (hne : nm ≠ k) (hc : Plain c) :
    readingByCandle (setKey false nm (.none : Val K) c) k = .none := by
  rw [readingByCandle_key _ hk, tsi_lk_ne _ _ _ _ _ hne]
  simp [lookupKey, hc.1, hc.2, dlookup]

theorem tsiC0_dotted (full fld : String) (hs : splitDot full = [nm ++ "_data", fld]) (hc : Plain c) :
    readingByCandle (setKey false nm (.none : Val K) c) full = .none := by
  rw [tsi_rbc_dotted _ _ _ hs, tsi_lk_ne _ _ _ _ _ hn.nD]
  simp [lookupKey, hc.1, hc.2, dlookup, Val.nested]

end cand

section cand5
variable (nm : String) (hn : TsiNames nm) (d f s a b : Val K) (c : Candle K)
include hn

theorem tsiC5_second (hc : Plain c) : readingByCandle (tsiC5 nm d f s a b c) (nm ++ "_second") = s := by
  rw [readingByCandle_key _ hn.kS]
  unfold tsiC5
  rw [tsi_lk_ne _ _ _ _ _ hn.SB.symm, tsi_lk_ne _ _ _ _ _ hn.SA.symm]
  exact tsi_lk_sub _ _ _ hc.1

theorem tsiC5_absSecond (hc : Plain c) : readingByCandle (tsiC5 nm d f s a b c) (nm ++ "_abs_second") = b := by
  rw [readingByCandle_key _ hn.kB]
  unfold tsiC5
  exact tsi_lk_sub _ _ _ hc.1

end cand5

/-! ### the stored TSI series, as functions of the input series `x` -/

/-- the momentum `x j − x (j−1)` (read from index 1 on) and its absolute value -/
def tsiPrice (x : Nat → K) (j : Nat) : K := x j - x (j - 1)
def tsiAbs (x : Nat → K) (j : Nat) : K := |x j - x (j - 1)|

section defs
variable (n p s : Nat)

/-- the stored two-level EMA chain over a column `y` that starts at index 1: the first level
(`EMA_p`, first reading at index `p`) and the second level (`EMA_s` of the STORED first level,
first reading at index `p + s − 1`); both rounded to 4 decimals (helper `round_value`) -/
def ds1F (y : Nat → K) : Nat → K := emaColF p 1 y
def ds1V (y : Nat → K) : Nat → Val K := emaCol p 1 y
def ds2F (y : Nat → K) : Nat → K := emaColF s p (ds1F p y)
def ds2V (y : Nat → K) : Nat → Val K := emaCol s p (ds1F p y)

/-- the UNROUNDED own reading of candle `j ≥ p + s − 1`: `0.0` when the stored `abs_second` is `0`,
otherwise `100 · second / abs_second` on the stored (4-decimal) readings -/
def tsiU (x : Nat → K) (j : Nat) : K :=
  if ds2F p s (tsiAbs x) j = 0 then 0 else 100 * (ds2F p s (tsiPrice x) j / ds2F p s (tsiAbs x) j)

/-- the stored own reading: `None` before index `p + s − 1`, then `tsiU` rounded to the node's
`round_value = n` -/
def tsiOwn (x : Nat → K) (j : Nat) : Val K :=
  if j + 1 < p + s then .none else .flt (PyF.round n (tsiU p s x j))

theorem ds1V_none (y : Nat → K) (j : Nat) (h : j < p) : ds1V p y j = .none :=
  emaCol_none _ _ _ _ (by omega)
theorem ds1V_flt (y : Nat → K) (j : Nat) (h : p ≤ j) : ds1V p y j = .flt (ds1F p y j) :=
  emaCol_flt _ _ _ _ (by omega)
theorem ds2V_none (y : Nat → K) (j : Nat) (h : j + 1 < p + s) : ds2V p s y j = .none :=
  emaCol_none _ _ _ _ (by omega)
theorem ds2V_flt (y : Nat → K) (j : Nat) (h : p + s ≤ j + 1) : ds2V p s y j = .flt (ds2F p s y j) :=
  emaCol_flt _ _ _ _ (by omega)

end defs

/-! ### the finished candles -/

section rows
variable (nm : String) (n p s : Nat) (fld : Candle K → Num K) (raw : List (Candle K))

/-- the momentum as the model computes it (`Num`: an `int` for two `int` prices) -/
def tsiPriceN (j : Nat) : Num K := (fld (raw.getD j default)).sub (fld (raw.getD (j - 1) default))

/-- the dict stored (UNROUNDED) under `<name>_data` on candle `j ≥ 1` -/
def tsiDict (j : Nat) : Val K :=
  sdict [("price", sc (tsiPriceN fld raw j)), ("abs_price", sc (tsiPriceN fld raw j).abs)]

theorem tsiPriceN_toF : (fun j => (tsiPriceN fld raw j).toF) = tsiPrice (fieldAt fld raw) := by
  funext j
  simp [tsiPriceN, tsiPrice, fieldAt]

theorem tsiAbsN_toF : (fun j => (tsiPriceN fld raw j).abs.toF) = tsiAbs (fieldAt fld raw) := by
  funext j
  simp [tsiPriceN, tsiAbs, fieldAt]

/-- candle `j` of a TSI run over `raw` -/
def tsiRow (j : Nat) : Candle K :=
  if j = 0 then setKey false nm (.none : Val K) (raw.getD j default)
  else tsiC6 nm (tsiDict fld raw j)
    (ds1V p (tsiPrice (fieldAt fld raw)) j) (ds2V p s (tsiPrice (fieldAt fld raw)) j)
    (ds1V p (tsiAbs (fieldAt fld raw)) j) (ds2V p s (tsiAbs (fieldAt fld raw)) j)
    (tsiOwn n p s (fieldAt fld raw) j) (raw.getD j default)

/-- the first `m` finished candles -/
def tsiRows (m : Nat) : List (Candle K) := (List.range m).map (tsiRow nm n p s fld raw)

/-- the finished candles of a TSI run over `raw` -/
def tsiOut : List (Candle K) := tsiRows nm n p s fld raw raw.length

theorem tsiRows_length (m : Nat) : (tsiRows nm n p s fld raw m).length = m := by
  simp [tsiRows]

theorem tsiRows_succ (m : Nat) :
    tsiRows nm n p s fld raw (m + 1) = tsiRows nm n p s fld raw m ++ [tsiRow nm n p s fld raw m] := by
  simp [tsiRows, List.range_succ]

theorem tsiRows_getD (m j : Nat) (hj : j < m) :
    (tsiRows nm n p s fld raw m).getD j default = tsiRow nm n p s fld raw j := by
  simp [tsiRows, hj]

theorem tsiRows_last (m : Nat) (key : String) :
    Ctx.lastReading key (tsiRows nm n p s fld raw m)
      = if m = 0 then .none else readingByCandle (tsiRow nm n p s fld raw (m - 1)) key := by
  cases m with
  | zero => rfl
  | succ k =>
    rw [tsiRows_succ]
    unfold Ctx.lastReading
    simp

end rows

/-! ### one row -/

/-- the tree of `TSI(period, smooth_period, input)` named `nm` with `round_value = n` -/
abbrev tsiTreeN (nm : String) (n p s : Nat) (input : String) (hp : 1 ≤ p) (hs : 1 ≤ s)
    (hn : TsiNames nm) (hin : NoDot input ∧ input ∈ Candle.attrNames) :
    TreeSpec (mkTop (.tsi (p : Int) (s : Int) input : Kind K) nm n) :=
  tsiTree (F := K) nm n (p : Int) (s : Int) input (by omega) (by omega) hn hin

theorem tsi_rowStep_zero (nm : String) (n : Nat) (p s : Int) (input : String)
    (hp : 1 ≤ p) (hs : 1 ≤ s) (hn : TsiNames nm) (hin : NoDot input ∧ input ∈ Candle.attrNames)
    (H : List (Candle K)) (c : Candle K) (hg : tsiG nm input H c = false) :
    Gen.rowStep (tsiTree (F := K) nm n p s input hp hs hn hin).S H c
      = .ok (H ++ [setKey false nm (.none : Val K) c]) := by
  have e : Gen.rowStep (tsiTree (F := K) nm n p s input hp hs hn hin).S H c = (do
      let z ← (tsiCompP (F := K) nm n p s input hp hs hn).val H c
      pure (H ++ [(tsiCompP (F := K) nm n p s input hp hs hn).app z c])) :=
    TComp.rowStep_spec _ _ H c
  rw [e]
  have hv : (tsiCompP (F := K) nm n p s input hp hs hn).val H c = .ok (none, .none) := by
    show (if tsiG nm input H c then _ else (pure (none, Val.none) : PyM (Option _ × Val K))) = _
    rw [hg]
    rfl
  rw [hv]
  rfl

theorem tsi_rowStep_pos (nm : String) (n : Nat) (p s : Int) (input : String)
    (hp : 1 ≤ p) (hs : 1 ≤ s) (hn : TsiNames nm) (hin : NoDot input ∧ input ∈ Candle.attrNames)
    (H : List (Candle K)) (c : Candle K) (a b : Num K) (d vf vs va vb w : Val K)
    (hg : tsiG nm input H c = true)
    (ha : readingByCandle c input = .num a) (hb : Ctx.lastReading input H = .num b)
    (hd : d = sdict [("price", sc (a.sub b)), ("abs_price", sc (a.sub b).abs)])
    (h1 : Calc.ema (snocCtx H (setKey true (nm ++ "_data") d c) (nm ++ "_first")) p (nm ++ "_data.price") (fl 2)
      = .ok vf)
    (h2 : Calc.ema (snocCtx H (setKey true (nm ++ "_first") (vf.roundBy defaultRound)
        (setKey true (nm ++ "_data") d c)) (nm ++ "_second")) s (nm ++ "_first") (fl 2) = .ok vs)
    (h3 : Calc.ema (snocCtx H (setKey true (nm ++ "_second") (vs.roundBy defaultRound)
        (setKey true (nm ++ "_first") (vf.roundBy defaultRound) (setKey true (nm ++ "_data") d c)))
        (nm ++ "_abs_first")) p (nm ++ "_data.abs_price") (fl 2) = .ok va)
    (h4 : Calc.ema (snocCtx H (setKey true (nm ++ "_abs_first") (va.roundBy defaultRound)
        (setKey true (nm ++ "_second") (vs.roundBy defaultRound)
        (setKey true (nm ++ "_first") (vf.roundBy defaultRound) (setKey true (nm ++ "_data") d c))))
        (nm ++ "_abs_second")) s (nm ++ "_abs_first") (fl 2) = .ok vb)
    (h5 : tsiFin nm (tsiC5 nm d (vf.roundBy defaultRound) (vs.roundBy defaultRound) (va.roundBy defaultRound)
        (vb.roundBy defaultRound) c) = .ok w) :
    Gen.rowStep (tsiTree (F := K) nm n p s input hp hs hn hin).S H c
      = .ok (H ++ [tsiC6 nm d (vf.roundBy defaultRound) (vs.roundBy defaultRound) (va.roundBy defaultRound)
          (vb.roundBy defaultRound) (w.roundBy n) c]) := by
  have e : Gen.rowStep (tsiTree (F := K) nm n p s input hp hs hn hin).S H c = (do
      let z ← (tsiCompP (F := K) nm n p s input hp hs hn).val H c
      pure (H ++ [(tsiCompP (F := K) nm n p s input hp hs hn).app z c])) :=
    TComp.rowStep_spec _ _ H c
  rw [e]
  have hx : (tsiX (F := K) nm p s input hp hs hn).val H c = .ok ((((d, vf), vs), va), vb) := by
    rw [tsiX_val, tsiDVal_eq, ha, hb]
    simp only [Val.asNum_num, pym_bind_ok, pym_pure]
    rw [← hd]
    have e1 : valOf (tsiF nm p s) H (setKey true (nm ++ "_data") d c) = .ok vf := h1
    rw [e1]
    simp only [pym_bind_ok]
    have e2 : valOf (tsiS nm s) H (decOf (tsiF nm p s) vf (setKey true (nm ++ "_data") d c)) = .ok vs := h2
    rw [e2]
    simp only [pym_bind_ok]
    have e3 : valOf (tsiAF nm p s) H (decOf (tsiS nm s) vs (decOf (tsiF nm p s) vf
        (setKey true (nm ++ "_data") d c))) = .ok va := h3
    rw [e3]
    simp only [pym_bind_ok]
    have e4 : valOf (tsiAS nm s) H (decOf (tsiAF nm p s) va (decOf (tsiS nm s) vs (decOf (tsiF nm p s) vf
        (setKey true (nm ++ "_data") d c)))) = .ok vb := h4
    rw [e4]
    rfl
  have hv : (tsiCompP (F := K) nm n p s input hp hs hn).val H c
      = .ok (some ((((d, vf), vs), va), vb), w) := by
    show (if tsiG nm input H c then (do
        let x ← (tsiX (F := K) nm p s input hp hs hn).val H c
        let w ← tsiFin nm ((tsiX (F := K) nm p s input hp hs hn).app x c)
        pure (some x, w)) else (pure (none, Val.none) : PyM (Option _ × Val K))) = _
    rw [hg, hx]
    simp only [if_true, bind, Except.bind]
    rw [tsiX_app, tsiXApp_eq, h5]
    rfl
  rw [hv]
  rfl

/-! ### the guard and the node's reading -/

/-- `reading_period(2, input)` over a history whose input column is numeric: true from index 1 on -/
theorem tsiG_eq (nm input : String) (H : List (Candle K)) (c : Candle K) (g : Nat → Num K)
    (hH : ∀ j, j < H.length → readingByCandle (H.getD j default) input = .num (g j))
    (hc : readingByCandle c input = .num (g H.length)) :
    tsiG nm input H c = decide (1 ≤ H.length) := by
  have hrd : ∀ j, j ≤ H.length → (snocCtx H c nm).reading input (some (j : Int)) = .ok (.num (g j)) := by
    intro j hj
    rw [snocCtx_reading H c nm input j hj]
    by_cases h : j < H.length
    · rw [if_pos h, hH j h]
    · have : j = H.length := by omega
      subst this
      rw [if_neg h, hc]
  have := snocCtx_period H c nm input 0 (fun j => .num (g j)) hrd (fun j _ => by simp) 2 (by omega)
  have e : tsiG nm input H c = (snocCtx H c nm).readingPeriod ((2 : Nat) : Int) input := rfl
  rw [e, this]
  congr 1
  apply propext
  omega

theorem tsiFin_none (nm : String) (c : Candle K) (h : readingByCandle c (nm ++ "_abs_second") = .none) :
    tsiFin nm c = .ok .none := by
  unfold tsiFin
  rw [h]
  rfl

theorem tsiFin_flt (nm : String) (c : Candle K) (S A : K)
    (hB : readingByCandle c (nm ++ "_abs_second") = .flt A)
    (hS : readingByCandle c (nm ++ "_second") = .flt S) :
    tsiFin nm c = .ok (.flt (if A = 0 then 0 else 100 * (S / A))) := by
  unfold tsiFin
  rw [hB, hS]
  simp only [Val.flt, Val.isNone_num, Bool.not_false, if_true, Val.asNum_num, pym_bind_ok]
  by_cases hA : A = 0
  · have : (Num.flt A).eq (Num.int 0) = true := by
      rw [Num.eq_iff]; simp [hA]
    rw [this, if_pos hA]
    simp [Num.fl_eq]
  · have : (Num.flt A).eq (Num.int 0) = false := by
      rw [Num.eq_false_iff]; simpa using hA
    rw [this, if_neg hA]
    simp only [Bool.false_eq_true, if_false]
    rw [Num.truediv_ok _ _ (by simpa using hA)]
    simp [Num.mul, LawfulPyF.mul_eq, LawfulPyF.ofInt_eq]

/-! ### the readings of a finished row -/

section rowreads
variable (nm : String) (n p s : Nat) (fld : Candle K → Num K) (raw : List (Candle K))
  (hp : 1 ≤ p) (hs : 1 ≤ s) (hn : TsiNames nm)

include hp hs hn in
/-- what candle `j` of a TSI run reads under the node's names -/
theorem tsiRow_readings (j : Nat) (hc : Plain (raw.getD j default)) :
    readingByCandle (tsiRow nm n p s fld raw j) (nm ++ "_data.price")
      = (if j < 1 then .none else .num (tsiPriceN fld raw j)) ∧
    readingByCandle (tsiRow nm n p s fld raw j) (nm ++ "_data.abs_price")
      = (if j < 1 then .none else .num (tsiPriceN fld raw j).abs) ∧
    readingByCandle (tsiRow nm n p s fld raw j) (nm ++ "_first") = ds1V p (tsiPrice (fieldAt fld raw)) j ∧
    readingByCandle (tsiRow nm n p s fld raw j) (nm ++ "_second") = ds2V p s (tsiPrice (fieldAt fld raw)) j ∧
    readingByCandle (tsiRow nm n p s fld raw j) (nm ++ "_abs_first") = ds1V p (tsiAbs (fieldAt fld raw)) j ∧
    readingByCandle (tsiRow nm n p s fld raw j) (nm ++ "_abs_second") = ds2V p s (tsiAbs (fieldAt fld raw)) j ∧
    readingByCandle (tsiRow nm n p s fld raw j) nm = tsiOwn n p s (fieldAt fld raw) j := by
  unfold tsiRow
  by_cases h0 : j = 0
  · subst h0
    rw [if_pos rfl, if_pos (by omega), if_pos (by omega)]
    refine ⟨tsiC0_dotted nm hn _ _ _ hn.price hc, tsiC0_dotted nm hn _ _ _ hn.absPrice hc, ?_, ?_, ?_, ?_, ?_⟩
    · rw [tsiC0_key nm hn _ _ hn.kF hn.nF hc, ds1V_none _ _ _ (by omega)]
    · rw [tsiC0_key nm hn _ _ hn.kS hn.nS hc, ds2V_none _ _ _ _ (by omega)]
    · rw [tsiC0_key nm hn _ _ hn.kA hn.nA hc, ds1V_none _ _ _ (by omega)]
    · rw [tsiC0_key nm hn _ _ hn.kB hn.nB hc, ds2V_none _ _ _ _ (by omega)]
    · rw [readingByCandle_key _ hn.kN]
      unfold tsiOwn
      rw [if_pos (by omega)]
      simp [lookupKey, setKey, dlookup_dset_self]
  · rw [if_neg h0, if_neg (by omega), if_neg (by omega)]
    exact ⟨tsiC6_price nm hn _ _ _ _ _ _ _ hc, tsiC6_absPrice nm hn _ _ _ _ _ _ _ hc,
      tsiC6_first nm hn _ _ _ _ _ _ _ hc, tsiC6_second nm hn _ _ _ _ _ _ _ hc,
      tsiC6_absFirst nm hn _ _ _ _ _ _ _ hc, tsiC6_absSecond nm hn _ _ _ _ _ _ _ hc,
      tsiC6_own nm hn _ _ _ _ _ _ _⟩

theorem tsiRow_input (input : String) (hin : NoDot input ∧ input ∈ Candle.attrNames) (j : Nat) :
    readingByCandle (tsiRow nm n p s fld raw j) input = readingByCandle (raw.getD j default) input := by
  unfold tsiRow
  by_cases h0 : j = 0
  · rw [if_pos h0]; exact tsi_input_setKey _ input hin _ _ _
  · rw [if_neg h0]; exact tsiC6_input nm _ _ _ _ _ _ _ input hin

theorem tsiRow_bare (j : Nat) : (tsiRow nm n p s fld raw j).bare = (raw.getD j default).bare := by
  unfold tsiRow
  by_cases h0 : j = 0
  · rw [if_pos h0]; exact bare_setKey _ _ _ _
  · rw [if_neg h0]; exact tsiC6_bare nm _ _ _ _ _ _ _

end rowreads

theorem ds1V_isNone (p : Nat) (y : Nat → K) (j : Nat) : (ds1V p y j).isNone = decide (j < p) := by
  by_cases h : j < p
  · rw [ds1V_none _ _ _ h]; simp [h]
  · rw [ds1V_flt _ _ _ (by omega)]; simp [Val.flt, h]

section step
variable (nm : String) (n p s : Nat) (input : String) (fld : Candle K → Num K)
  (hp : 1 ≤ p) (hs : 1 ≤ s) (hn : TsiNames nm)
  (hin : NoDot input ∧ input ∈ Candle.attrNames)
  (hattr : ∀ c : Candle K, c.attr input = some (.num (fld c)))
  (raw : List (Candle K)) (hraw : ∀ c ∈ raw, Plain c)

include hattr hraw in
/-- **one row of the TSI run**: on the finished candles `0 … m−1` the row step at candle `m`
returns, and appends exactly `tsiRow m` -/
theorem tsi_row_step (m : Nat) (hm : m < raw.length) :
    Gen.rowStep (tsiTreeN (K := K) nm n p s input hp hs hn hin).S
        (tsiRows nm n p s fld raw m) (raw.getD m default)
      = .ok (tsiRows nm n p s fld raw m ++ [tsiRow nm n p s fld raw m]) := by
  have hpl : ∀ j, j < raw.length → Plain (raw.getD j default) := fun j hj => getD_plain raw hraw j hj
  have hHl := tsiRows_length nm n p s fld raw m
  generalize hH : tsiRows nm n p s fld raw m = H at hHl
  have hHj : ∀ j, j < H.length → H.getD j default = tsiRow nm n p s fld raw j := by
    intro j hj; rw [← hH]; exact tsiRows_getD nm n p s fld raw m j (by omega)
  have hlast : ∀ key, Ctx.lastReading key H
      = if H.length = 0 then .none else readingByCandle (tsiRow nm n p s fld raw (H.length - 1)) key := by
    intro key; rw [← hH, tsiRows_length]; exact tsiRows_last nm n p s fld raw m key
  have hrawin : ∀ j, readingByCandle (raw.getD j default) input = .num (fld (raw.getD j default)) :=
    fun j => readingByCandle_attr input hin.1 _ _ (hattr _)
  have hinp : ∀ j, j < H.length → readingByCandle (H.getD j default) input = .num (fld (raw.getD j default)) := by
    intro j hj
    rw [hHj j hj, tsiRow_input nm n p s fld raw input hin j]
    exact hrawin j
  have hrd := fun j (hj : j < H.length) => tsiRow_readings nm n p s fld raw hp hs hn j (hpl j (by omega))
  have hG := tsiG_eq nm input H (raw.getD m default) (fun j => fld (raw.getD j default)) hinp
    (by rw [hHl]; exact hrawin m)
  have hc := hpl m hm
  by_cases h0 : m = 0
  · -- index 0: the guard fails, only a `None` own reading is stored
    have := tsi_rowStep_zero nm n (p : Int) (s : Int) input (by omega) (by omega) hn hin H (raw.getD m default)
      (by rw [hG, hHl, h0]; rfl)
    rw [this]
    unfold tsiRow
    rw [if_pos h0]
  · have hG' : tsiG nm input H (raw.getD m default) = true := by rw [hG, hHl]; simp; omega
    have hHne : H.length ≠ 0 := by omega
    have hb : Ctx.lastReading input H = .num (fld (raw.getD (m - 1) default)) := by
      rw [hlast, if_neg hHne, hHl, tsiRow_input nm n p s fld raw input hin]
      exact hrawin _
    have hd : tsiDict fld raw m = sdict [("price", sc ((fld (raw.getD m default)).sub (fld (raw.getD (m - 1) default)))),
        ("abs_price", sc ((fld (raw.getD m default)).sub (fld (raw.getD (m - 1) default))).abs)] := rfl
    have hpx := tsiPriceN_toF fld raw
    have hax := tsiAbsN_toF fld raw
    -- the first-level EMA of the momentum
    obtain ⟨vf, h1, e1⟩ := ema_view_step H (setKey true (nm ++ "_data") (tsiDict fld raw m) (raw.getD m default))
      (nm ++ "_first") (nm ++ "_data.price") p 1 hp (by omega)
      (fun j => if j < 1 then .none else .num (tsiPriceN fld raw j)) (tsiPriceN fld raw)
      (fun j hj => by rw [hHj j hj]; exact (hrd j hj).1)
      (by
        rw [tsi_rbc_dotted _ _ _ hn.price, tsi_lk_sub _ _ _ hc.1, hHl, if_neg (by omega)]
        rfl)
      (fun j _ => by by_cases h : j < 1 <;> simp [h])
      (fun _ k _ => by rw [if_neg (by omega)])
      (fun _ => by rw [if_neg (by omega)])
      (by
        rw [hlast, if_neg hHne, if_neg hHne, (hrd _ (by omega)).2.2.1, hpx]
        rfl)
    rw [hHl, hpx] at e1
    have e1' : vf.roundBy defaultRound = ds1V p (tsiPrice (fieldAt fld raw)) m := e1
    -- the second-level EMA over the stored first level
    obtain ⟨vs, h2, e2⟩ := ema_view_step H (setKey true (nm ++ "_first") (vf.roundBy defaultRound)
        (setKey true (nm ++ "_data") (tsiDict fld raw m) (raw.getD m default)))
      (nm ++ "_second") (nm ++ "_first") s p hs (by omega)
      (ds1V p (tsiPrice (fieldAt fld raw))) (fun j => .flt (ds1F p (tsiPrice (fieldAt fld raw)) j))
      (fun j hj => by rw [hHj j hj]; exact (hrd j hj).2.2.1)
      (by
        rw [readingByCandle_key _ hn.kF,
          tsi_lk_sub _ _ _ (show (setKey true _ _ (raw.getD m default)).inds = [] from hc.1), hHl, e1'])
      (fun j _ => ds1V_isNone p _ j)
      (fun _ k _ => ds1V_flt _ _ _ (by omega))
      (fun h => ds1V_flt _ _ _ (by omega))
      (by
        rw [hlast, if_neg hHne, if_neg hHne, (hrd _ (by omega)).2.2.2.1]
        rfl)
    rw [hHl] at e2
    have e2' : vs.roundBy defaultRound = ds2V p s (tsiPrice (fieldAt fld raw)) m := e2
    -- the first-level EMA of the absolute momentum
    obtain ⟨va, h3, e3⟩ := ema_view_step H (setKey true (nm ++ "_second") (vs.roundBy defaultRound)
        (setKey true (nm ++ "_first") (vf.roundBy defaultRound)
        (setKey true (nm ++ "_data") (tsiDict fld raw m) (raw.getD m default))))
      (nm ++ "_abs_first") (nm ++ "_data.abs_price") p 1 hp (by omega)
      (fun j => if j < 1 then .none else .num (tsiPriceN fld raw j).abs) (fun j => (tsiPriceN fld raw j).abs)
      (fun j hj => by rw [hHj j hj]; exact (hrd j hj).2.1)
      (by
        rw [tsi_rbc_dotted _ _ _ hn.absPrice, tsi_lk_ne _ _ _ _ _ hn.DS.symm, tsi_lk_ne _ _ _ _ _ hn.DF.symm,
          tsi_lk_sub _ _ _ hc.1, hHl, if_neg (by omega)]
        rfl)
      (fun j _ => by by_cases h : j < 1 <;> simp [h])
      (fun _ k _ => by rw [if_neg (by omega)])
      (fun _ => by rw [if_neg (by omega)])
      (by
        rw [hlast, if_neg hHne, if_neg hHne, (hrd _ (by omega)).2.2.2.2.1, hax]
        rfl)
    rw [hHl, hax] at e3
    have e3' : va.roundBy defaultRound = ds1V p (tsiAbs (fieldAt fld raw)) m := e3
    -- the second-level EMA over the stored first level
    obtain ⟨vb, h4, e4⟩ := ema_view_step H (setKey true (nm ++ "_abs_first") (va.roundBy defaultRound)
        (setKey true (nm ++ "_second") (vs.roundBy defaultRound)
        (setKey true (nm ++ "_first") (vf.roundBy defaultRound)
        (setKey true (nm ++ "_data") (tsiDict fld raw m) (raw.getD m default)))))
      (nm ++ "_abs_second") (nm ++ "_abs_first") s p hs (by omega)
      (ds1V p (tsiAbs (fieldAt fld raw))) (fun j => .flt (ds1F p (tsiAbs (fieldAt fld raw)) j))
      (fun j hj => by rw [hHj j hj]; exact (hrd j hj).2.2.2.2.1)
      (by
        rw [readingByCandle_key _ hn.kA,
          tsi_lk_sub _ _ _ (show (setKey true _ _ (setKey true _ _ (setKey true _ _ (raw.getD m default)))).inds = []
            from hc.1), hHl, e3'])
      (fun j _ => ds1V_isNone p _ j)
      (fun _ k _ => ds1V_flt _ _ _ (by omega))
      (fun h => ds1V_flt _ _ _ (by omega))
      (by
        rw [hlast, if_neg hHne, if_neg hHne, (hrd _ (by omega)).2.2.2.2.2.1]
        rfl)
    rw [hHl] at e4
    have e4' : vb.roundBy defaultRound = ds2V p s (tsiAbs (fieldAt fld raw)) m := e4
    -- the own reading
    have hrow : ∀ w : Val K,
        tsiFin nm (tsiC5 nm (tsiDict fld raw m) (vf.roundBy defaultRound) (vs.roundBy defaultRound)
          (va.roundBy defaultRound) (vb.roundBy defaultRound) (raw.getD m default)) = .ok w →
        w.roundBy n = tsiOwn n p s (fieldAt fld raw) m →
        Gen.rowStep (tsiTreeN (K := K) nm n p s input hp hs hn hin).S H (raw.getD m default)
          = .ok (H ++ [tsiRow nm n p s fld raw m]) := by
      intro w h5 hw
      have := tsi_rowStep_pos nm n (p : Int) (s : Int) input (by omega) (by omega) hn hin H (raw.getD m default)
        _ _ (tsiDict fld raw m) vf vs va vb w hG' (hrawin m) hb hd h1 h2 h3 h4 h5
      rw [this, e1', e2', e3', e4', hw]
      unfold tsiRow
      rw [if_neg h0]
    by_cases hw : m + 1 < p + s
    · -- `abs_second` is still `None`
      refine hrow .none (tsiFin_none nm _ ?_) ?_
      · rw [tsiC5_absSecond nm hn _ _ _ _ _ _ hc, e4', ds2V_none _ _ _ _ hw]
      · unfold tsiOwn; rw [if_pos hw]; rfl
    · refine hrow _ (tsiFin_flt nm _ (ds2F p s (tsiPrice (fieldAt fld raw)) m)
        (ds2F p s (tsiAbs (fieldAt fld raw)) m) ?_ ?_) ?_
      · rw [tsiC5_absSecond nm hn _ _ _ _ _ _ hc, e4', ds2V_flt _ _ _ _ (by omega)]
      · rw [tsiC5_second nm hn _ _ _ _ _ _ hc, e2', ds2V_flt _ _ _ _ (by omega)]
      · unfold tsiOwn tsiU; rw [if_neg hw]; rfl

include hattr hraw in
/-- **TSI, whole series.**  For EVERY raw candle list (`1 ≤ period`, `1 ≤ smooth`, input a candle field)
the row-major run of `tsiTree` never raises and returns exactly `tsiOut`: candle 0 is the raw candle 0
with a `None` own reading and NO helper entry; candle `j ≥ 1` is the raw candle `j` carrying
* `<name>_data` (`.sub_indicators`, unrounded): `{price: x j − x (j−1), abs_price: |x j − x (j−1)|}`;
* `<name>_first`, `<name>_abs_first`: `ds1V` – the stored EMA_p of the (absolute) momentum, `None` below
  index `p`;
* `<name>_second`, `<name>_abs_second`: `ds2V` – the stored EMA_s of the stored first level, `None` below
  index `p + s − 1`;
* `<name>` (`.indicators`): `tsiOwn j`. -/
theorem tsi_series :
    Gen.rowMajor (tsiTreeN (K := K) nm n p s input hp hs hn hin).S raw = .ok (tsiOut nm n p s fld raw) := by
  suffices h : ∀ m, m ≤ raw.length →
      Gen.rowMajor (tsiTreeN (K := K) nm n p s input hp hs hn hin).S (raw.take m)
        = .ok (tsiRows nm n p s fld raw m) by
    have := h raw.length (le_refl _)
    rwa [List.take_length] at this
  intro m
  induction m with
  | zero => intro _; rfl
  | succ m ih =>
    intro hm
    have htake : raw.take (m + 1) = raw.take m ++ [raw.getD m default] := by
      rw [List.take_add_one]
      congr 1
      rw [List.getD_eq_getElem?_getD, List.getElem?_eq_getElem (by omega)]
      rfl
    rw [htake, Gen.rowMajor_append, ih (by omega)]
    simp only [pym_bind_ok, Gen.rowMajorFrom, List.foldlM_cons, List.foldlM_nil]
    rw [tsi_row_step nm n p s input fld hp hs hn hin hattr raw hraw m (by omega)]
    simp only [pym_bind_ok, pym_pure]
    rw [tsiRows_succ]

include hp hs hn hin hattr hraw in
/-- **the engine's `calculate()`** on the raw list returns exactly `tsiOut` -/
theorem tsi_engine :
    engineCalc (mkTop (.tsi (p : Int) (s : Int) input : Kind K) nm n) raw = .ok (tsiOut nm n p s fld raw) := by
  have h := tsi_series nm n p s input fld hp hs hn hin hattr raw hraw
  have := ((tsiTreeN (K := K) nm n p s input hp hs hn hin).engine [] raw [] _ rfl (by simp) hraw).2
    (by simpa using h)
  simpa using this

include hp hs hn hin hattr hraw in
/-- **the batch run** (build the indicator over the whole stream, `calculate()` once) returns
exactly `tsiOut` -/
theorem tsi_batch :
    candlesOf (runIndicator (mkTop (.tsi (p : Int) (s : Int) input : Kind K) nm n) {} raw [])
      = .ok (tsiOut nm n p s fld raw) :=
  ((tsiTreeN (K := K) nm n p s input hp hs hn hin).batch_iff (MgrSpec.base K) raw hraw _).2
    (tsi_series nm n p s input fld hp hs hn hin hattr raw hraw)

include hp hs hn hin hattr hraw in
/-- **whenever the batch run returns, its candles are exactly `tsiOut`** (and it does return:
`tsi_batch`) -/
theorem tsi_batch_out (out : List (Candle K))
    (hout : candlesOf (runIndicator (mkTop (.tsi (p : Int) (s : Int) input : Kind K) nm n) {} raw []) = .ok out) :
    out = tsiOut nm n p s fld raw := by
  rw [tsi_batch nm n p s input fld hp hs hn hin hattr raw hraw] at hout
  exact (Except.ok.inj hout).symm

end step

/-- **… for every append schedule**: whenever a live history (construction over `init`,
`calculate()`, then any appends) returns, its candles are `tsiOut` of the whole stream -/
theorem tsi_live (nm : String) (n p s : Nat) (input : String) (fld : Candle K → Num K)
    (hp : 1 ≤ p) (hs : 1 ≤ s) (hn : TsiNames nm)
    (hin : NoDot input ∧ input ∈ Candle.attrNames)
    (hattr : ∀ c : Candle K, c.attr input = some (.num (fld c)))
    (init : List (Candle K)) (chunks : List (List (Candle K)))
    (hraw : ∀ c ∈ init ++ chunks.flatten, Plain c) (snap : List (Candle K))
    (hsnap : candlesOf (runIndicator (mkTop (.tsi (p : Int) (s : Int) input : Kind K) nm n) {} init chunks)
      = .ok snap) :
    snap = tsiOut nm n p s fld (init ++ chunks.flatten) := by
  have h := (tsiTreeN (K := K) nm n p s input hp hs hn hin).live_refines (MgrSpec.base K)
    init chunks hraw snap hsnap
  have h' : Gen.rowMajor (tsiTreeN (K := K) nm n p s input hp hs hn hin).S (init ++ chunks.flatten) = .ok snap := h
  rw [tsi_series nm n p s input fld hp hs hn hin hattr _ hraw] at h'
  exact (Except.ok.inj h').symm

/-! ### the textbook series and the rounding budgets -/

section numeric
variable (n p s : Nat)

/-- the textbook two-level EMA chain over a column `y` that starts at index 1: `EMA_p` seeded at index
`p` with the mean of `y 1 … y p`, then `r j = a·y j + (1 − a)·r (j−1)`, `a = 2/(p+1)`; and `EMA_s` of
that, seeded at index `p + s − 1` -/
def ds1E (y : Nat → K) : Nat → K := emaColExact p 1 y
def ds2E (y : Nat → K) : Nat → K := emaColExact s p (ds1E p y)

/-- the textbook True Strength Index: `100 · EMA_s(EMA_p(Δx)) / EMA_s(EMA_p(|Δx|))` -/
def tsiExact (x : Nat → K) (j : Nat) : K := 100 * (ds2E p s (tsiPrice x) j / ds2E p s (tsiAbs x) j)

/-- … with its warm-up: the first value at index `p + s − 1` -/
def tsiLine (x : Nat → K) (j : Nat) : Option K := if j + 1 < p + s then none else some (tsiExact p s x j)
def ds2Line (y : Nat → K) (j : Nat) : Option K := if j + 1 < p + s then none else some (ds2E p s y j)

/-- the rounding budget of a stored second-level reading against the textbook double smoothing:
`ε₄/a_s` (own recurrence) `+ ε₄/a_p` (its inputs are the rounded first-level readings) -/
def tsiChainBudget : K := eps K defaultRound / emaAlpha s + eps K defaultRound / emaAlpha p

theorem tsiChainBudget_pos : 0 < tsiChainBudget (K := K) p s := by
  unfold tsiChainBudget
  have := eps_pos K defaultRound
  have := emaAlpha_pos (K := K) p
  have := emaAlpha_pos (K := K) s
  positivity

theorem ds1F_err (hp : 1 ≤ p) (y : Nat → K) (j : Nat) :
    |ds1F p y j - ds1E p y j| ≤ eps K defaultRound / emaAlpha p := emaColF_err p 1 hp y j

theorem ds2F_err (hp : 1 ≤ p) (hs : 1 ≤ s) (y : Nat → K) (j : Nat) :
    |ds2F p s y j - ds2E p s y j| ≤ tsiChainBudget (K := K) p s :=
  macd_abs_tri _ _ _ _ _ (emaColF_err s p hs _ j) (emaColExact_perturb s p hs _ _ _ (ds1F_err p hp y) j)

/-- the first-level columns are the EMA series of the (absolute) momentum: `None` before index `p`,
then within `ε₄/a_p` of the textbook EMA -/
theorem ds1V_ok (hp : 1 ≤ p) (y : Nat → K) (j : Nat) :
    RecOK (1 + p) defaultRound (emaAlpha p) (ds1E p y) j (ds1V p y j) := emaCol_ok p 1 hp y j

/-- the second-level columns against the EMA of the inputs they actually read (the STORED first level):
`None` before index `p + s − 1`, then within `ε₄/a_s` -/
theorem ds2V_ok (hs : 1 ≤ s) (y : Nat → K) (j : Nat) :
    RecOK (p + s) defaultRound (emaAlpha s) (emaColExact s p (ds1F p y)) j (ds2V p s y j) :=
  emaCol_ok s p hs (ds1F p y) j

/-- … and against the textbook double smoothing of the raw column, within `tsiChainBudget` -/
theorem ds2V_ok_exact (hp : 1 ≤ p) (hs : 1 ≤ s) (y : Nat → K) (j : Nat) :
    MacdFieldOK (tsiChainBudget (K := K) p s) (ds2Line p s y j) (ds2V p s y j) := by
  unfold ds2Line
  by_cases h : j + 1 < p + s
  · rw [if_pos h, ds2V_none _ _ _ _ h]; rfl
  · rw [if_neg h, ds2V_flt _ _ _ _ (by omega)]
    exact ⟨_, rfl, ds2F_err p s hp hs y j⟩

/-! #### `|second| ≤ abs_second` -/

theorem tsi_rsum_abs_le (q : Nat) (f g : Nat → K) (h : ∀ k, k < q → |f k| ≤ g k) : |rsum q f| ≤ rsum q g := by
  induction q with
  | zero => simp [rsum]
  | succ m ih =>
    rw [rsum_succ, rsum_succ]
    exact le_trans (abs_add_le _ _) (add_le_add (ih (fun k hk => h k (by omega))) (h m (by omega)))

theorem tsi_mean_abs_le (q : Nat) (hq : 1 ≤ q) (f g : Nat → K) (h : ∀ k, k < q → |f k| ≤ g k) :
    |rsum q f / q| ≤ rsum q g / q := by
  have hqK : (0 : K) < q := by exact_mod_cast hq
  rw [abs_div, abs_of_pos hqK]
  exact div_le_div_of_nonneg_right (tsi_rsum_abs_le q f g h) hqK.le

/-- the exact exponential average of a column dominated in absolute value is dominated -/
theorem tsi_recExact_abs_le (a : K) (ha0 : 0 ≤ a) (ha1 : a ≤ 1) (sd sd' : K) (x y : Nat → K) (q : Nat)
    (hsd : |sd| ≤ sd') (hx : ∀ j, |x j| ≤ y j) : ∀ j, |recExact a sd x q j| ≤ recExact a sd' y q j := by
  intro j
  induction j with
  | zero => exact hsd
  | succ j ih =>
    simp only [recExact]
    by_cases hq : j + 1 < q
    · simp only [hq, if_true]; exact hsd
    · simp only [hq, if_false]
      have h1a : (0 : K) ≤ 1 - a := by linarith
      calc |a * x (j + 1) + (1 - a) * recExact a sd x q j|
          ≤ |a * x (j + 1)| + |(1 - a) * recExact a sd x q j| := abs_add_le _ _
        _ = a * |x (j + 1)| + (1 - a) * |recExact a sd x q j| := by
            rw [abs_mul, abs_mul, abs_of_nonneg ha0, abs_of_nonneg h1a]
        _ ≤ a * y (j + 1) + (1 - a) * recExact a sd' y q j :=
            add_le_add (mul_le_mul_of_nonneg_left (hx _) ha0) (mul_le_mul_of_nonneg_left ih h1a)

theorem tsi_emaColExact_abs_le (q o : Nat) (hq : 1 ≤ q) (x y : Nat → K) (h : ∀ j, |x j| ≤ y j) (j : Nat) :
    |emaColExact q o x j| ≤ emaColExact q o y j := by
  unfold emaColExact
  apply tsi_recExact_abs_le _ (emaAlpha_pos q).le (emaAlpha_le_one q hq)
  · unfold winMean
    exact tsi_mean_abs_le q hq _ _ (fun k _ => h _)
  · exact h

theorem tsiPrice_abs (x : Nat → K) (j : Nat) : |tsiPrice x j| ≤ tsiAbs x j := le_refl _

/-- on the EXACT series the numerator never exceeds the denominator in absolute value -/
theorem ds2E_abs_le (hp : 1 ≤ p) (hs : 1 ≤ s) (x : Nat → K) (j : Nat) :
    |ds2E p s (tsiPrice x) j| ≤ ds2E p s (tsiAbs x) j :=
  tsi_emaColExact_abs_le s p hs _ _ (fun i => tsi_emaColExact_abs_le p 1 hp _ _ (tsiPrice_abs x) i) j

/-- **the extra rounding law behind `|second| ≤ abs_second` on the STORED values**: rounding does not
favour the negative direction.  It holds with equality for every odd rounding (Python's `round`:
`round(-x, n) == -round(x, n)`) and for round-half-up (`decRound`, the ℚ instance: `roundNegLe_rat`).
It is NOT a consequence of `LawfulPyF`: round-half-down is monotone, idempotent, within `ε`, fixes the
grid, and has `round₄(0.00005) = 0`, `round₄(−0.00005) = −0.0001`, so a one-candle momentum of `−0.00005`
with `p = s = 1` would store `second = −0.0001`, `abs_second = 0`. -/
def RoundNegLe (K : Type) [Field K] [LinearOrder K] [IsStrictOrderedRing K] [LawfulPyF K] (m : Nat) : Prop :=
  ∀ x : K, -PyF.round m x ≤ PyF.round m (-x)

theorem tsi_round_abs_le (m : Nat) (h : RoundNegLe K m) (u v : K) (huv : |u| ≤ v) :
    |PyF.round m u| ≤ PyF.round m v := by
  obtain ⟨h1, h2⟩ := abs_le.1 huv
  rw [abs_le]
  exact ⟨le_trans (h v) (LawfulPyF.round_mono m h1), LawfulPyF.round_mono m h2⟩

theorem tsi_round_zero (m : Nat) : PyF.round m (0 : K) = 0 := by
  simpa using round_int (K := K) m 0

/-- the stored exponential average of a column dominated in absolute value is dominated -/
theorem tsi_recSt_abs_le (m : Nat) (hodd : RoundNegLe K m) (a : K) (ha0 : 0 ≤ a) (ha1 : a ≤ 1) (sd sd' : K)
    (x y : Nat → K) (q : Nat) (hsd : |sd| ≤ sd') (hx : ∀ j, |x j| ≤ y j) :
    ∀ j, |recSt m a sd x q j| ≤ recSt m a sd' y q j := by
  intro j
  induction j with
  | zero => exact tsi_round_abs_le m hodd _ _ hsd
  | succ j ih =>
    simp only [recSt]
    by_cases hq : j + 1 < q
    · simp only [hq, if_true]; exact tsi_round_abs_le m hodd _ _ hsd
    · simp only [hq, if_false]
      apply tsi_round_abs_le m hodd
      have h1a : (0 : K) ≤ 1 - a := by linarith
      calc |a * x (j + 1) + recSt m a sd x q j * (1 - a)|
          ≤ |a * x (j + 1)| + |recSt m a sd x q j * (1 - a)| := abs_add_le _ _
        _ = a * |x (j + 1)| + |recSt m a sd x q j| * (1 - a) := by
            rw [abs_mul, abs_mul, abs_of_nonneg ha0, abs_of_nonneg h1a]
        _ ≤ a * y (j + 1) + recSt m a sd' y q j * (1 - a) :=
            add_le_add (mul_le_mul_of_nonneg_left (hx _) ha0) (mul_le_mul_of_nonneg_right ih h1a)

theorem tsi_emaColF_abs_le (hodd : RoundNegLe K defaultRound) (q o : Nat) (hq : 1 ≤ q) (x y : Nat → K)
    (h : ∀ j, |x j| ≤ y j) (j : Nat) : |emaColF q o x j| ≤ emaColF q o y j := by
  unfold emaColF
  apply tsi_recSt_abs_le _ hodd _ (emaAlpha_pos q).le (emaAlpha_le_one q hq)
  · exact tsi_mean_abs_le q hq _ _ (fun k _ => h _)
  · exact h

/-- **`|second| ≤ abs_second` on the stored columns**, for a rounding with `RoundNegLe` -/
theorem ds2F_abs_le (hodd : RoundNegLe K defaultRound) (hp : 1 ≤ p) (hs : 1 ≤ s) (x : Nat → K) (j : Nat) :
    |ds2F p s (tsiPrice x) j| ≤ ds2F p s (tsiAbs x) j :=
  tsi_emaColF_abs_le hodd s p hs _ _ (fun i => tsi_emaColF_abs_le hodd p 1 hp _ _ (tsiPrice_abs x) i) j

theorem tsi_recSt_nonneg (m : Nat) (a : K) (ha0 : 0 ≤ a) (ha1 : a ≤ 1) (sd : K) (x : Nat → K) (q : Nat)
    (hsd : 0 ≤ sd) (hx : ∀ j, 0 ≤ x j) : ∀ j, 0 ≤ recSt m a sd x q j := by
  intro j
  induction j with
  | zero => exact round_nonneg m _ hsd
  | succ j ih =>
    simp only [recSt]
    by_cases hq : j + 1 < q
    · simp only [hq, if_true]; exact round_nonneg m _ hsd
    · simp only [hq, if_false]
      apply round_nonneg
      have h1a : (0 : K) ≤ 1 - a := by linarith
      exact add_nonneg (mul_nonneg ha0 (hx _)) (mul_nonneg ih h1a)

theorem tsi_emaColF_nonneg (q o : Nat) (hq : 1 ≤ q) (x : Nat → K) (h : ∀ j, 0 ≤ x j) (j : Nat) :
    0 ≤ emaColF q o x j := by
  unfold emaColF
  apply tsi_recSt_nonneg _ _ (emaAlpha_pos q).le (emaAlpha_le_one q hq)
  · exact div_nonneg (rsum_nonneg q _ (fun k _ => h _)) (by positivity)
  · exact h

/-- the stored denominator is never negative (unconditionally) -/
theorem ds2F_abs_nonneg (hp : 1 ≤ p) (hs : 1 ≤ s) (x : Nat → K) (j : Nat) : 0 ≤ ds2F p s (tsiAbs x) j :=
  tsi_emaColF_nonneg s p hs _ (fun i => tsi_emaColF_nonneg p 1 hp _ (fun _ => abs_nonneg _) i) j

/-- without any extra rounding law: `|second| ≤ abs_second + 2·tsiChainBudget` on the stored columns -/
theorem ds2F_abs_le_budget (hp : 1 ≤ p) (hs : 1 ≤ s) (x : Nat → K) (j : Nat) :
    |ds2F p s (tsiPrice x) j| ≤ ds2F p s (tsiAbs x) j + 2 * tsiChainBudget (K := K) p s := by
  have h1 := abs_le.1 (ds2F_err p s hp hs (tsiPrice x) j)
  have h2 := abs_le.1 (ds2F_err p s hp hs (tsiAbs x) j)
  have h3 := abs_le.1 (ds2E_abs_le p s hp hs x j)
  rw [abs_le]
  constructor <;> linarith [h1.1, h1.2, h2.1, h2.2, h3.1, h3.2]

/-! #### the ratio -/

/-- a quotient of two `β`-perturbed quantities, the exact numerator dominated by the exact denominator,
the exact denominator at least `d > β` -/
theorem tsi_ratio_err (S A E A2 β d : K) (hS : |S - E| ≤ β) (hA : |A - A2| ≤ β) (hE : |E| ≤ A2) (hβ : β < d)
    (hd : d ≤ A2) : 0 < A ∧ |S / A - E / A2| ≤ 2 * β / (d - β) := by
  have hβ0 : 0 ≤ β := le_trans (abs_nonneg _) hS
  have hA' := abs_le.1 hA
  have hAd : d - β ≤ A := by linarith [hA'.1]
  have hdβ : 0 < d - β := by linarith
  have hA0 : 0 < A := lt_of_lt_of_le hdβ hAd
  have hA20 : 0 < A2 := by linarith
  refine ⟨hA0, ?_⟩
  have e : S / A - E / A2 = ((S - E) * A2 - E * (A - A2)) / (A * A2) := by
    field_simp
    ring
  have hnum : |(S - E) * A2 - E * (A - A2)| ≤ 2 * β * A2 := by
    calc |(S - E) * A2 - E * (A - A2)| ≤ |(S - E) * A2| + |E * (A - A2)| := abs_sub _ _
      _ = |S - E| * A2 + |E| * |A - A2| := by rw [abs_mul, abs_mul, abs_of_pos hA20]
      _ ≤ β * A2 + A2 * β :=
          add_le_add (mul_le_mul_of_nonneg_right hS hA20.le) (mul_le_mul hE hA (abs_nonneg _) hA20.le)
      _ = 2 * β * A2 := by ring
  rw [e, abs_div, abs_of_pos (mul_pos hA0 hA20), div_le_div_iff₀ (mul_pos hA0 hA20) hdβ]
  calc |(S - E) * A2 - E * (A - A2)| * (d - β) ≤ 2 * β * A2 * (d - β) :=
        mul_le_mul_of_nonneg_right hnum hdβ.le
    _ ≤ 2 * β * A2 * A := mul_le_mul_of_nonneg_left hAd (by positivity)
    _ = 2 * β * (A * A2) := by ring

/-- **the unrounded own reading against the textbook TSI**, where the exact denominator is at least
`d > tsiChainBudget`: within `200·β/(d − β)`, `β = tsiChainBudget` -/
theorem tsiU_err (hp : 1 ≤ p) (hs : 1 ≤ s) (x : Nat → K) (j : Nat) (d : K)
    (hβ : tsiChainBudget (K := K) p s < d) (hd : d ≤ ds2E p s (tsiAbs x) j) :
    |tsiU p s x j - tsiExact p s x j|
      ≤ 200 * tsiChainBudget (K := K) p s / (d - tsiChainBudget (K := K) p s) := by
  obtain ⟨hA0, hr⟩ := tsi_ratio_err _ _ _ _ _ d (ds2F_err p s hp hs (tsiPrice x) j) (ds2F_err p s hp hs (tsiAbs x) j)
    (ds2E_abs_le p s hp hs x j) hβ hd
  unfold tsiU tsiExact
  rw [if_neg hA0.ne', ← mul_sub, abs_mul, abs_of_pos (by norm_num : (0 : K) < 100)]
  calc 100 * |ds2F p s (tsiPrice x) j / ds2F p s (tsiAbs x) j - ds2E p s (tsiPrice x) j / ds2E p s (tsiAbs x) j|
      ≤ 100 * (2 * tsiChainBudget (K := K) p s / (d - tsiChainBudget (K := K) p s)) :=
        mul_le_mul_of_nonneg_left hr (by norm_num)
    _ = 200 * tsiChainBudget (K := K) p s / (d - tsiChainBudget (K := K) p s) := by ring

/-- what is claimed of the own reading of candle `j`: `None` before index `p + s − 1`; afterwards a
float which, WHEREVER the exact denominator `EMA_s(EMA_p(|Δx|))` is at least some `d > β`
(`β = tsiChainBudget = ε₄/a_s + ε₄/a_p`), lies within `ε_n + 200·β/(d − β)` of the textbook TSI -/
def TsiOK (x : Nat → K) (j : Nat) (v : Val K) : Prop :=
  (j + 1 < p + s → v = .none) ∧
  (p + s ≤ j + 1 → ∃ y, v = .flt y ∧
    ∀ d : K, tsiChainBudget (K := K) p s < d → d ≤ ds2E p s (tsiAbs x) j →
      |y - tsiExact p s x j| ≤ eps K n + 200 * tsiChainBudget (K := K) p s / (d - tsiChainBudget (K := K) p s))

theorem tsiOwn_ok (hp : 1 ≤ p) (hs : 1 ≤ s) (x : Nat → K) (j : Nat) : TsiOK n p s x j (tsiOwn n p s x j) := by
  unfold tsiOwn
  refine ⟨fun h => by rw [if_pos h], fun h => ?_⟩
  rw [if_neg (by omega)]
  exact ⟨_, rfl, fun d hβ hd =>
    macd_abs_tri _ _ _ _ _ (LawfulPyF.round_err n _) (tsiU_err p s hp hs x j d hβ hd)⟩

/-! #### the range -/

/-- `−100 ≤ TSI ≤ 100` exactly, on the unrounded reading, given `|second| ≤ abs_second` on the stored values -/
theorem tsiU_range (x : Nat → K) (j : Nat) (h : |ds2F p s (tsiPrice x) j| ≤ ds2F p s (tsiAbs x) j) :
    -100 ≤ tsiU p s x j ∧ tsiU p s x j ≤ 100 := by
  unfold tsiU
  by_cases hA : ds2F p s (tsiAbs x) j = 0
  · rw [if_pos hA]; constructor <;> norm_num
  · rw [if_neg hA]
    have hA0 : 0 < ds2F p s (tsiAbs x) j :=
      lt_of_le_of_ne (le_trans (abs_nonneg _) h) (Ne.symm hA)
    have hq : |ds2F p s (tsiPrice x) j / ds2F p s (tsiAbs x) j| ≤ 1 := by
      rw [abs_div, abs_of_pos hA0, div_le_one hA0]; exact h
    obtain ⟨h1, h2⟩ := abs_le.1 hq
    constructor <;> linarith

/-- … and on the stored reading: rounding keeps the integer bounds -/
theorem tsiOwn_range (x : Nat → K) (j : Nat) (h : |ds2F p s (tsiPrice x) j| ≤ ds2F p s (tsiAbs x) j) (y : K)
    (hy : tsiOwn n p s x j = .flt y) : -100 ≤ y ∧ y ≤ 100 := by
  unfold tsiOwn at hy
  by_cases hw : j + 1 < p + s
  · rw [if_pos hw] at hy; cases hy
  · rw [if_neg hw] at hy
    have e : PyF.round n (tsiU p s x j) = y := by
      simpa [Val.flt] using hy
    obtain ⟨h1, h2⟩ := tsiU_range p s x j h
    have := round_between (K := K) n (-100) 100 (tsiU p s x j) (by push_cast; exact h1) (by push_cast; exact h2)
    rw [e] at this
    push_cast at this
    exact this

/-- the range WITHOUT the extra rounding law, with its budget: the stored reading is `0` when the stored
`abs_second` is `0`, otherwise `|TSI| ≤ 100 + 200·β/abs_second + ε_n` -/
theorem tsiOwn_range_budget (hp : 1 ≤ p) (hs : 1 ≤ s) (x : Nat → K) (j : Nat) (y : K)
    (hy : tsiOwn n p s x j = .flt y) :
    (ds2F p s (tsiAbs x) j = 0 → y = 0) ∧
    (ds2F p s (tsiAbs x) j ≠ 0 →
      |y| ≤ 100 + 200 * tsiChainBudget (K := K) p s / ds2F p s (tsiAbs x) j + eps K n) := by
  unfold tsiOwn at hy
  by_cases hw : j + 1 < p + s
  · rw [if_pos hw] at hy; cases hy
  · rw [if_neg hw] at hy
    have e : PyF.round n (tsiU p s x j) = y := by
      simpa [Val.flt] using hy
    constructor
    · intro hA
      rw [← e]
      unfold tsiU
      rw [if_pos hA, tsi_round_zero]
    · intro hA
      have hA0 : 0 < ds2F p s (tsiAbs x) j := lt_of_le_of_ne (ds2F_abs_nonneg p s hp hs x j) (Ne.symm hA)
      have hq : |ds2F p s (tsiPrice x) j / ds2F p s (tsiAbs x) j|
          ≤ 1 + 2 * tsiChainBudget (K := K) p s / ds2F p s (tsiAbs x) j := by
        rw [abs_div, abs_of_pos hA0, div_le_iff₀ hA0]
        have : (1 + 2 * tsiChainBudget (K := K) p s / ds2F p s (tsiAbs x) j) * ds2F p s (tsiAbs x) j
            = ds2F p s (tsiAbs x) j + 2 * tsiChainBudget (K := K) p s := by
          field_simp
        rw [this]
        exact ds2F_abs_le_budget p s hp hs x j
      have hU : |tsiU p s x j| ≤ 100 + 200 * tsiChainBudget (K := K) p s / ds2F p s (tsiAbs x) j := by
        unfold tsiU
        rw [if_neg hA, abs_mul, abs_of_pos (by norm_num : (0 : K) < 100)]
        calc 100 * |ds2F p s (tsiPrice x) j / ds2F p s (tsiAbs x) j|
            ≤ 100 * (1 + 2 * tsiChainBudget (K := K) p s / ds2F p s (tsiAbs x) j) :=
              mul_le_mul_of_nonneg_left hq (by norm_num)
          _ = 100 + 200 * tsiChainBudget (K := K) p s / ds2F p s (tsiAbs x) j := by ring
      have hr := LawfulPyF.round_err (K := K) n (tsiU p s x j)
      rw [e] at hr
      have h1 := abs_le.1 hr
      have h2 := abs_le.1 hU
      rw [abs_le]
      constructor <;> linarith [h1.1, h1.2, h2.1, h2.2]

end numeric

/-- `−100 ≤ TSI ≤ 100` exactly on every stored reading, for a rounding with `RoundNegLe` -/
theorem tsiOwn_range_odd (n p s : Nat) (hodd : RoundNegLe K defaultRound) (hp : 1 ≤ p) (hs : 1 ≤ s) (x : Nat → K)
    (j : Nat) (y : K) (hy : tsiOwn n p s x j = .flt y) : -100 ≤ y ∧ y ≤ 100 :=
  tsiOwn_range n p s x j (ds2F_abs_le p s hodd hp hs x j) y hy

/-- the ℚ instance (round-half-up) satisfies the extra rounding law -/
theorem roundNegLe_rat (m : Nat) : RoundNegLe ℚ m := by
  intro x
  show -decRound m x ≤ decRound m (-x)
  unfold decRound
  have hp : (0 : ℚ) < 10 ^ m := by positivity
  rw [← neg_div, div_le_div_iff_of_pos_right hp]
  have h1 : x * 10 ^ m + 1 / 2 < (⌊x * 10 ^ m + 1 / 2⌋ : ℚ) + 1 := Int.lt_floor_add_one _
  have h2 : -x * 10 ^ m + 1 / 2 < (⌊-x * 10 ^ m + 1 / 2⌋ : ℚ) + 1 := Int.lt_floor_add_one _
  have h3 : (-(⌊x * 10 ^ m + 1 / 2⌋ : ℤ) : ℚ) - 1 < (⌊-x * 10 ^ m + 1 / 2⌋ : ℤ) := by
    linarith
  have h4 : -(⌊x * 10 ^ m + 1 / 2⌋ : ℤ) - 1 < ⌊-x * 10 ^ m + 1 / 2⌋ := by exact_mod_cast h3
  have h5 : -(⌊x * 10 ^ m + 1 / 2⌋ : ℤ) ≤ ⌊-x * 10 ^ m + 1 / 2⌋ := by omega
  exact_mod_cast h5

/-! ### the finished candles, reading by reading -/

section readings
variable (nm : String) (n p s : Nat) (fld : Candle K → Num K) (raw : List (Candle K))

theorem tsiOut_length : (tsiOut nm n p s fld raw).length = raw.length :=
  tsiRows_length nm n p s fld raw raw.length

theorem tsiOut_getD (j : Nat) (hj : j < raw.length) :
    (tsiOut nm n p s fld raw).getD j default = tsiRow nm n p s fld raw j :=
  tsiRows_getD nm n p s fld raw raw.length j hj

/-- candle `j` of `tsiOut` is the raw candle `j` and reads the stored series under the node's names -/
theorem tsiOut_readings (hp : 1 ≤ p) (hs : 1 ≤ s) (hn : TsiNames nm) (hraw : ∀ c ∈ raw, Plain c) (j : Nat)
    (hj : j < raw.length) :
    ((tsiOut nm n p s fld raw).getD j default).bare = (raw.getD j default).bare ∧
    readingByCandle ((tsiOut nm n p s fld raw).getD j default) (nm ++ "_data.price")
      = (if j < 1 then .none else .num (tsiPriceN fld raw j)) ∧
    readingByCandle ((tsiOut nm n p s fld raw).getD j default) (nm ++ "_data.abs_price")
      = (if j < 1 then .none else .num (tsiPriceN fld raw j).abs) ∧
    readingByCandle ((tsiOut nm n p s fld raw).getD j default) (nm ++ "_first")
      = ds1V p (tsiPrice (fieldAt fld raw)) j ∧
    readingByCandle ((tsiOut nm n p s fld raw).getD j default) (nm ++ "_second")
      = ds2V p s (tsiPrice (fieldAt fld raw)) j ∧
    readingByCandle ((tsiOut nm n p s fld raw).getD j default) (nm ++ "_abs_first")
      = ds1V p (tsiAbs (fieldAt fld raw)) j ∧
    readingByCandle ((tsiOut nm n p s fld raw).getD j default) (nm ++ "_abs_second")
      = ds2V p s (tsiAbs (fieldAt fld raw)) j ∧
    readingByCandle ((tsiOut nm n p s fld raw).getD j default) nm = tsiOwn n p s (fieldAt fld raw) j := by
  rw [tsiOut_getD nm n p s fld raw j hj]
  exact ⟨tsiRow_bare nm n p s fld raw j, tsiRow_readings nm n p s fld raw hp hs hn j (getD_plain raw hraw j hj)⟩

end readings

/-- what is claimed of candle `j` of a TSI run (`x` = the input series of the raw candles): the raw
candle, with
* the `<name>_data` dict: no entry on candle 0; on candle `j ≥ 1` the numbers `q`, `|q|` with
  `q = x j − x (j−1)` (exactly: the managed series is not rounded);
* `<name>_first`, `<name>_abs_first`: `RecOK` (first reading at index `p`, budget `ε₄/a_p`) w.r.t. the textbook
  EMA_p of the (absolute) momentum from index 1;
* `<name>_second`, `<name>_abs_second`: `RecOK` (first reading at index `p + s − 1`, budget `ε₄/a_s`) w.r.t. the
  EMA_s of the values they read (the STORED first level), and `MacdFieldOK` with budget
  `tsiChainBudget = ε₄/a_s + ε₄/a_p` w.r.t. the textbook double smoothing;
* the own reading `TsiOK`: `None` before index `p + s − 1`, afterwards within
  `ε_n + 200·β/(d − β)` of the textbook TSI wherever the exact denominator is at least `d > β`;
* and, from index `p + s − 1` on, on the STORED values `S = second`, `A = abs_second`, `y` = own reading:
  `0 ≤ A`, `y = round_n (0 if A = 0 else 100·S/A)`, `|S| ≤ A + 2β` (and `|S| ≤ A` for a rounding with
  `RoundNegLe`), `y = 0` when `A = 0`, `|y| ≤ 100 + 200·β/A + ε_n` otherwise, and `−100 ≤ y ≤ 100` EXACTLY
  whenever `|S| ≤ A`. -/
def TsiCandleOK (nm : String) (n p s : Nat) (x : Nat → K) (j : Nat) (r c : Candle K) : Prop :=
  c.bare = r.bare ∧
  (j = 0 → readingByCandle c (nm ++ "_data.price") = .none ∧
    readingByCandle c (nm ++ "_data.abs_price") = .none) ∧
  (1 ≤ j → ∃ q : Num K, readingByCandle c (nm ++ "_data.price") = .num q ∧
    readingByCandle c (nm ++ "_data.abs_price") = .num q.abs ∧ q.toF = x j - x (j - 1)) ∧
  RecOK (1 + p) defaultRound (emaAlpha p) (ds1E p (tsiPrice x)) j (readingByCandle c (nm ++ "_first")) ∧
  RecOK (1 + p) defaultRound (emaAlpha p) (ds1E p (tsiAbs x)) j (readingByCandle c (nm ++ "_abs_first")) ∧
  RecOK (p + s) defaultRound (emaAlpha s) (emaColExact s p (ds1F p (tsiPrice x))) j
    (readingByCandle c (nm ++ "_second")) ∧
  RecOK (p + s) defaultRound (emaAlpha s) (emaColExact s p (ds1F p (tsiAbs x))) j
    (readingByCandle c (nm ++ "_abs_second")) ∧
  MacdFieldOK (tsiChainBudget (K := K) p s) (ds2Line p s (tsiPrice x) j) (readingByCandle c (nm ++ "_second")) ∧
  MacdFieldOK (tsiChainBudget (K := K) p s) (ds2Line p s (tsiAbs x) j) (readingByCandle c (nm ++ "_abs_second")) ∧
  TsiOK n p s x j (readingByCandle c nm) ∧
  (p + s ≤ j + 1 → ∃ S A y : K,
    readingByCandle c (nm ++ "_second") = .flt S ∧ readingByCandle c (nm ++ "_abs_second") = .flt A ∧
    readingByCandle c nm = .flt y ∧ 0 ≤ A ∧
    y = PyF.round n (if A = 0 then 0 else 100 * (S / A)) ∧
    |S| ≤ A + 2 * tsiChainBudget (K := K) p s ∧
    (RoundNegLe K defaultRound → |S| ≤ A) ∧
    (A = 0 → y = 0) ∧
    (A ≠ 0 → |y| ≤ 100 + 200 * tsiChainBudget (K := K) p s / A + eps K n) ∧
    (|S| ≤ A → -100 ≤ y ∧ y ≤ 100))

theorem tsiOut_ok (nm : String) (n p s : Nat) (fld : Candle K → Num K) (raw : List (Candle K))
    (hp : 1 ≤ p) (hs : 1 ≤ s) (hn : TsiNames nm) (hraw : ∀ c ∈ raw, Plain c) (j : Nat) (hj : j < raw.length) :
    TsiCandleOK nm n p s (fieldAt fld raw) j (raw.getD j default) ((tsiOut nm n p s fld raw).getD j default) := by
  obtain ⟨r0, r1, r2, r3, r4, r5, r6, r7⟩ := tsiOut_readings nm n p s fld raw hp hs hn hraw j hj
  refine ⟨r0, ?_, ?_, ?_, ?_, ?_, ?_, ?_, ?_, ?_, ?_⟩
  · intro h; rw [r1, r2, if_pos (by omega), if_pos (by omega)]; exact ⟨rfl, rfl⟩
  · intro h
    rw [r1, r2, if_neg (by omega), if_neg (by omega)]
    exact ⟨_, rfl, rfl, by simp [tsiPriceN, fieldAt]⟩
  · rw [r3]; exact ds1V_ok p hp _ j
  · rw [r5]; exact ds1V_ok p hp _ j
  · rw [r4]; exact ds2V_ok p s hs _ j
  · rw [r6]; exact ds2V_ok p s hs _ j
  · rw [r4]; exact ds2V_ok_exact p s hp hs _ j
  · rw [r6]; exact ds2V_ok_exact p s hp hs _ j
  · rw [r7]; exact tsiOwn_ok n p s hp hs _ j
  · intro h
    have hy : tsiOwn n p s (fieldAt fld raw) j = .flt (PyF.round n (tsiU p s (fieldAt fld raw) j)) := by
      unfold tsiOwn; rw [if_neg (by omega)]
    obtain ⟨b1, b2⟩ := tsiOwn_range_budget n p s hp hs (fieldAt fld raw) j _ hy
    refine ⟨ds2F p s (tsiPrice (fieldAt fld raw)) j, ds2F p s (tsiAbs (fieldAt fld raw)) j, _, ?_, ?_, ?_,
      ds2F_abs_nonneg p s hp hs _ j, rfl, ds2F_abs_le_budget p s hp hs _ j,
      fun hodd => ds2F_abs_le p s hodd hp hs _ j, b1, b2,
      fun hle => tsiOwn_range n p s (fieldAt fld raw) j hle _ hy⟩
    · rw [r4, ds2V_flt _ _ _ _ h]
    · rw [r6, ds2V_flt _ _ _ _ h]
    · rw [r7, hy]; rfl

/-- **TSI, whole series, reading by reading** (the TSI item of `C06.C06_FULL`): for EVERY raw candle list
the row-major run of `tsiTree` returns a list of the raw candles' length whose candle `j` satisfies
`TsiCandleOK`. -/
theorem tsi_series_readings (nm : String) (n p s : Nat) (input : String) (fld : Candle K → Num K)
    (hp : 1 ≤ p) (hs : 1 ≤ s) (hn : TsiNames nm) (hin : NoDot input ∧ input ∈ Candle.attrNames)
    (hattr : ∀ c : Candle K, c.attr input = some (.num (fld c)))
    (raw : List (Candle K)) (hraw : ∀ c ∈ raw, Plain c) :
    ∃ out : List (Candle K),
      Gen.rowMajor (tsiTreeN (K := K) nm n p s input hp hs hn hin).S raw = .ok out ∧
      out.length = raw.length ∧
      ∀ j, j < raw.length → TsiCandleOK nm n p s (fieldAt fld raw) j (raw.getD j default) (out.getD j default) :=
  ⟨_, tsi_series nm n p s input fld hp hs hn hin hattr raw hraw, tsiOut_length nm n p s fld raw,
    tsiOut_ok nm n p s fld raw hp hs hn hraw⟩

/-- the engine's `calculate()`, reading by reading -/
theorem tsi_engine_readings (nm : String) (n p s : Nat) (input : String) (fld : Candle K → Num K)
    (hp : 1 ≤ p) (hs : 1 ≤ s) (hn : TsiNames nm) (hin : NoDot input ∧ input ∈ Candle.attrNames)
    (hattr : ∀ c : Candle K, c.attr input = some (.num (fld c)))
    (raw : List (Candle K)) (hraw : ∀ c ∈ raw, Plain c) :
    ∃ out : List (Candle K),
      engineCalc (mkTop (.tsi (p : Int) (s : Int) input : Kind K) nm n) raw = .ok out ∧
      out.length = raw.length ∧
      ∀ j, j < raw.length → TsiCandleOK nm n p s (fieldAt fld raw) j (raw.getD j default) (out.getD j default) :=
  ⟨_, tsi_engine nm n p s input fld hp hs hn hin hattr raw hraw, tsiOut_length nm n p s fld raw,
    tsiOut_ok nm n p s fld raw hp hs hn hraw⟩

/-- **whenever the batch run returns, its candles carry exactly those readings** (and it does
return: `tsi_batch`) -/
theorem tsi_batch_readings (nm : String) (n p s : Nat) (input : String) (fld : Candle K → Num K)
    (hp : 1 ≤ p) (hs : 1 ≤ s) (hn : TsiNames nm) (hin : NoDot input ∧ input ∈ Candle.attrNames)
    (hattr : ∀ c : Candle K, c.attr input = some (.num (fld c)))
    (raw : List (Candle K)) (hraw : ∀ c ∈ raw, Plain c) (out : List (Candle K))
    (hout : candlesOf (runIndicator (mkTop (.tsi (p : Int) (s : Int) input : Kind K) nm n) {} raw []) = .ok out) :
    out.length = raw.length ∧
    ∀ j, j < raw.length → TsiCandleOK nm n p s (fieldAt fld raw) j (raw.getD j default) (out.getD j default) := by
  rw [tsi_batch_out nm n p s input fld hp hs hn hin hattr raw hraw out hout]
  exact ⟨tsiOut_length nm n p s fld raw, tsiOut_ok nm n p s fld raw hp hs hn hraw⟩

/-- … and for every append schedule -/
theorem tsi_live_readings (nm : String) (n p s : Nat) (input : String) (fld : Candle K → Num K)
    (hp : 1 ≤ p) (hs : 1 ≤ s) (hn : TsiNames nm) (hin : NoDot input ∧ input ∈ Candle.attrNames)
    (hattr : ∀ c : Candle K, c.attr input = some (.num (fld c)))
    (init : List (Candle K)) (chunks : List (List (Candle K)))
    (hraw : ∀ c ∈ init ++ chunks.flatten, Plain c) (snap : List (Candle K))
    (hsnap : candlesOf (runIndicator (mkTop (.tsi (p : Int) (s : Int) input : Kind K) nm n) {} init chunks)
      = .ok snap) :
    snap.length = (init ++ chunks.flatten).length ∧
    ∀ j, j < (init ++ chunks.flatten).length →
      TsiCandleOK nm n p s (fieldAt fld (init ++ chunks.flatten)) j ((init ++ chunks.flatten).getD j default)
        (snap.getD j default) := by
  rw [tsi_live nm n p s input fld hp hs hn hin hattr init chunks hraw snap hsnap]
  exact ⟨tsiOut_length nm n p s fld _, tsiOut_ok nm n p s fld _ hp hs hn hraw⟩

/-- over ℚ every stored TSI reading lies in `[−100, 100]` -/
theorem tsiOwn_range_rat (n p s : Nat) (hp : 1 ≤ p) (hs : 1 ≤ s) (x : Nat → ℚ) (j : Nat) (y : ℚ)
    (hy : tsiOwn n p s x j = .flt y) : -100 ≤ y ∧ y ≤ 100 :=
  tsiOwn_range_odd n p s (roundNegLe_rat _) hp hs x j y hy

/-! ### non-vacuity: the five demo candles of HexProps/C04.lean over ℚ, `TSI(period = 2, smooth_period = 2)`
on `high` (the library names it `TSI_2_1`: `f"TSI_{period}_{int(period/2)}"`) -/

theorem tsiNames_demo : TsiNames "TSI_2_1" :=
  ⟨by decide, by decide, by decide, by decide, by decide, by decide, by decide, by decide, by decide,
    by decide, by decide, by decide, by decide, by decide, by decide, by decide, by decide, by decide,
    by decide, by decide, by decide⟩

/-- highs 12, 13, 15, 16, 15 -/
abbrev tsiDemoX : Nat → ℚ := fieldAt (·.h) macdDemoRaw

theorem tsiDemoX_vals : tsiDemoX 0 = 12 ∧ tsiDemoX 1 = 13 ∧ tsiDemoX 2 = 15 ∧ tsiDemoX 3 = 16 ∧ tsiDemoX 4 = 15 := by
  refine ⟨?_, ?_, ?_, ?_, ?_⟩ <;> simp [tsiDemoX, fieldAt, macdDemoRaw, Demo.mk]

/-- the momentum 1, 2, 1, −1 on candles 1 … 4 -/
theorem tsiDemo_price : tsiPrice tsiDemoX 1 = 1 ∧ tsiPrice tsiDemoX 2 = 2 ∧ tsiPrice tsiDemoX 3 = 1 ∧
    tsiPrice tsiDemoX 4 = -1 := by
  obtain ⟨x0, x1, x2, x3, x4⟩ := tsiDemoX_vals
  refine ⟨?_, ?_, ?_, ?_⟩ <;> simp only [tsiPrice] <;> norm_num [x0, x1, x2, x3, x4]

theorem tsiDemo_abs : tsiAbs tsiDemoX 1 = 1 ∧ tsiAbs tsiDemoX 2 = 2 ∧ tsiAbs tsiDemoX 3 = 1 ∧
    tsiAbs tsiDemoX 4 = 1 := by
  obtain ⟨x0, x1, x2, x3, x4⟩ := tsiDemoX_vals
  refine ⟨?_, ?_, ?_, ?_⟩ <;> simp only [tsiAbs] <;> norm_num [x0, x1, x2, x3, x4]

/-- a first-level column (`p = 2`, `a = 2/3`) over inputs `y 1 … y 4`: seeded on candle 2 -/
theorem tsiDemo_first (y : Nat → ℚ) :
    ds1F 2 y 2 = PyF.round defaultRound ((y 1 + y 2) / 2) ∧
    ds1F 2 y 3 = PyF.round defaultRound (2 / 3 * y 3 + ds1F 2 y 2 * (1 / 3)) ∧
    ds1F 2 y 4 = PyF.round defaultRound (2 / 3 * y 4 + ds1F 2 y 3 * (1 / 3)) := by
  refine ⟨?_, ?_, ?_⟩
  · have : ds1F 2 y 2 = PyF.round defaultRound (rsum 2 (fun k => y (1 + k)) / (2 : Nat)) :=
      recSt_seed _ _ _ _ _ _ (by norm_num)
    rw [this]
    simp only [rsum, List.range_succ, List.range_zero]
    norm_num
  · have : ds1F 2 y 3 = PyF.round defaultRound (emaAlpha 2 * y 3 + ds1F 2 y 2 * (1 - emaAlpha 2)) :=
      recSt_step _ _ _ _ _ _ (by norm_num) (by norm_num)
    rw [this]
    norm_num [emaAlpha]
  · have : ds1F 2 y 4 = PyF.round defaultRound (emaAlpha 2 * y 4 + ds1F 2 y 3 * (1 - emaAlpha 2)) :=
      recSt_step _ _ _ _ _ _ (by norm_num) (by norm_num)
    rw [this]
    norm_num [emaAlpha]

/-- a second-level column (`s = 2`) over the stored first level: seeded on candle 3 -/
theorem tsiDemo_second (y : Nat → ℚ) :
    ds2F 2 2 y 3 = PyF.round defaultRound ((ds1F 2 y 2 + ds1F 2 y 3) / 2) ∧
    ds2F 2 2 y 4 = PyF.round defaultRound (2 / 3 * ds1F 2 y 4 + ds2F 2 2 y 3 * (1 / 3)) := by
  refine ⟨?_, ?_⟩
  · have : ds2F 2 2 y 3 = PyF.round defaultRound (rsum 2 (fun k => ds1F 2 y (2 + k)) / (2 : Nat)) :=
      recSt_seed _ _ _ _ _ _ (by norm_num)
    rw [this]
    simp only [rsum, List.range_succ, List.range_zero]
    norm_num
  · have : ds2F 2 2 y 4 = PyF.round defaultRound (emaAlpha 2 * ds1F 2 y 4 + ds2F 2 2 y 3 * (1 - emaAlpha 2)) :=
      recSt_step _ _ _ _ _ _ (by norm_num) (by norm_num)
    rw [this]
    norm_num [emaAlpha]

/-- the stored columns of the momentum: `first = –, –, 1.5, 1.1667, −0.2778`, `second = –, –, –, 1.3334, 0.2593` -/
theorem tsiDemo_cols : ds1F 2 (tsiPrice tsiDemoX) 2 = 3 / 2 ∧ ds1F 2 (tsiPrice tsiDemoX) 3 = 11667 / 10000 ∧
    ds1F 2 (tsiPrice tsiDemoX) 4 = -2778 / 10000 ∧
    ds2F 2 2 (tsiPrice tsiDemoX) 3 = 13334 / 10000 ∧ ds2F 2 2 (tsiPrice tsiDemoX) 4 = 2593 / 10000 := by
  obtain ⟨p1, p2, p3, p4⟩ := tsiDemo_price
  obtain ⟨f2, f3, f4⟩ := tsiDemo_first (tsiPrice tsiDemoX)
  obtain ⟨s3, s4⟩ := tsiDemo_second (tsiPrice tsiDemoX)
  have h2 : ds1F 2 (tsiPrice tsiDemoX) 2 = 3 / 2 := by
    rw [f2, p1, p2]; norm_num [decRound, PyF.round, defaultRound]
  have h3 : ds1F 2 (tsiPrice tsiDemoX) 3 = 11667 / 10000 := by
    rw [f3, h2, p3]; norm_num [decRound, PyF.round, defaultRound]
  have h4 : ds1F 2 (tsiPrice tsiDemoX) 4 = -2778 / 10000 := by
    rw [f4, h3, p4]; norm_num [decRound, PyF.round, defaultRound]
  have g3 : ds2F 2 2 (tsiPrice tsiDemoX) 3 = 13334 / 10000 := by
    rw [s3, h2, h3]; norm_num [decRound, PyF.round, defaultRound]
  have g4 : ds2F 2 2 (tsiPrice tsiDemoX) 4 = 2593 / 10000 := by
    rw [s4, h4, g3]; norm_num [decRound, PyF.round, defaultRound]
  exact ⟨h2, h3, h4, g3, g4⟩

/-- the stored columns of the absolute momentum: `abs_first = –, –, 1.5, 1.1667, 1.0556`,
`abs_second = –, –, –, 1.3334, 1.1482` -/
theorem tsiDemo_absCols : ds1F 2 (tsiAbs tsiDemoX) 2 = 3 / 2 ∧ ds1F 2 (tsiAbs tsiDemoX) 3 = 11667 / 10000 ∧
    ds1F 2 (tsiAbs tsiDemoX) 4 = 10556 / 10000 ∧
    ds2F 2 2 (tsiAbs tsiDemoX) 3 = 13334 / 10000 ∧ ds2F 2 2 (tsiAbs tsiDemoX) 4 = 11482 / 10000 := by
  obtain ⟨p1, p2, p3, p4⟩ := tsiDemo_abs
  obtain ⟨f2, f3, f4⟩ := tsiDemo_first (tsiAbs tsiDemoX)
  obtain ⟨s3, s4⟩ := tsiDemo_second (tsiAbs tsiDemoX)
  have h2 : ds1F 2 (tsiAbs tsiDemoX) 2 = 3 / 2 := by
    rw [f2, p1, p2]; norm_num [decRound, PyF.round, defaultRound]
  have h3 : ds1F 2 (tsiAbs tsiDemoX) 3 = 11667 / 10000 := by
    rw [f3, h2, p3]; norm_num [decRound, PyF.round, defaultRound]
  have h4 : ds1F 2 (tsiAbs tsiDemoX) 4 = 10556 / 10000 := by
    rw [f4, h3, p4]; norm_num [decRound, PyF.round, defaultRound]
  have g3 : ds2F 2 2 (tsiAbs tsiDemoX) 3 = 13334 / 10000 := by
    rw [s3, h2, h3]; norm_num [decRound, PyF.round, defaultRound]
  have g4 : ds2F 2 2 (tsiAbs tsiDemoX) 4 = 11482 / 10000 := by
    rw [s4, h4, g3]; norm_num [decRound, PyF.round, defaultRound]
  exact ⟨h2, h3, h4, g3, g4⟩

/-- the stored own readings: `None` up to candle 2 (warm-up `p + s − 1 = 3`), `100.0` on candle 3,
`22.5832` on candle 4 -/
theorem tsiDemo_own : tsiOwn 4 2 2 tsiDemoX 2 = .none ∧ tsiOwn 4 2 2 tsiDemoX 3 = .flt 100 ∧
    tsiOwn 4 2 2 tsiDemoX 4 = .flt (225832 / 10000) := by
  obtain ⟨_, _, _, g3, g4⟩ := tsiDemo_cols
  obtain ⟨_, _, _, a3, a4⟩ := tsiDemo_absCols
  refine ⟨?_, ?_, ?_⟩
  · unfold tsiOwn; rw [if_pos (by norm_num)]
  · unfold tsiOwn tsiU; rw [if_neg (by norm_num), g3, a3]
    norm_num [decRound, PyF.round]
  · unfold tsiOwn tsiU; rw [if_neg (by norm_num), g4, a4]
    norm_num [decRound, PyF.round]

/-- **the batch run on the demo candles** returns (cross-checked against the real class:
`TSI(period=2, smooth_period=2, input_value="high")` stores exactly these values), and its candles carry:
nothing but a `None` own reading on candle 0; the dict `{price: 1, abs_price: 1}` (ints, unrounded) and
`None` helpers on candle 1; `first = 1.5` on candle 2 (warm-up `p = 2`) with `second` and the own reading still
`None`; `second = abs_second = 1.3334`, `TSI = 100.0` on candle 3 (warm-up `p + s − 1 = 3`); `first = −0.2778`,
`second = 0.2593`, `abs_second = 1.1482`, `TSI = 22.5832` on candle 4 -/
example : ∃ out : List (Candle ℚ),
    candlesOf (runIndicator (mkTop (.tsi ((2 : Nat) : Int) ((2 : Nat) : Int) "high" : Kind ℚ) "TSI_2_1" 4) {}
      macdDemoRaw []) = .ok out ∧
    out.length = 5 ∧
    readingByCandle (out.getD 0 default) "TSI_2_1" = .none ∧
    readingByCandle (out.getD 0 default) ("TSI_2_1" ++ "_data.price") = .none ∧
    readingByCandle (out.getD 1 default) ("TSI_2_1" ++ "_data.price") = .num (.int 1) ∧
    readingByCandle (out.getD 4 default) ("TSI_2_1" ++ "_data.price") = .num (.int (-1)) ∧
    readingByCandle (out.getD 4 default) ("TSI_2_1" ++ "_data.abs_price") = .num (.int 1) ∧
    readingByCandle (out.getD 1 default) ("TSI_2_1" ++ "_first") = .none ∧
    readingByCandle (out.getD 2 default) ("TSI_2_1" ++ "_first") = .flt (3 / 2) ∧
    readingByCandle (out.getD 2 default) ("TSI_2_1" ++ "_second") = .none ∧
    readingByCandle (out.getD 2 default) "TSI_2_1" = .none ∧
    readingByCandle (out.getD 3 default) ("TSI_2_1" ++ "_second") = .flt (13334 / 10000) ∧
    readingByCandle (out.getD 3 default) ("TSI_2_1" ++ "_abs_second") = .flt (13334 / 10000) ∧
    readingByCandle (out.getD 3 default) "TSI_2_1" = .flt 100 ∧
    readingByCandle (out.getD 4 default) ("TSI_2_1" ++ "_first") = .flt (-2778 / 10000) ∧
    readingByCandle (out.getD 4 default) ("TSI_2_1" ++ "_second") = .flt (2593 / 10000) ∧
    readingByCandle (out.getD 4 default) ("TSI_2_1" ++ "_abs_second") = .flt (11482 / 10000) ∧
    readingByCandle (out.getD 4 default) "TSI_2_1" = .flt (225832 / 10000) := by
  have hb := tsi_batch "TSI_2_1" 4 2 2 "high" (·.h) (by norm_num) (by norm_num) tsiNames_demo
    ⟨noDot_high, by decide⟩ (fun _ => rfl) macdDemoRaw macdDemoRaw_plain
  obtain ⟨h2, h3, h4, g3, g4⟩ := tsiDemo_cols
  obtain ⟨_, _, _, a3, a4⟩ := tsiDemo_absCols
  obtain ⟨o2, o3, o4⟩ := tsiDemo_own
  have rd := fun j hj => tsiOut_readings "TSI_2_1" 4 2 2 (·.h) macdDemoRaw (by norm_num) (by norm_num)
    tsiNames_demo macdDemoRaw_plain j hj
  refine ⟨_, hb, tsiOut_length _ _ _ _ _ _, ?_, ?_, ?_, ?_, ?_, ?_, ?_, ?_, ?_, ?_, ?_, ?_, ?_, ?_, ?_, ?_⟩
  · rw [(rd 0 (by decide)).2.2.2.2.2.2.2]; unfold tsiOwn; rw [if_pos (by norm_num)]
  · rw [(rd 0 (by decide)).2.1, if_pos (by norm_num)]
  · rw [(rd 1 (by decide)).2.1, if_neg (by norm_num)]; rfl
  · rw [(rd 4 (by decide)).2.1, if_neg (by norm_num)]; rfl
  · rw [(rd 4 (by decide)).2.2.1, if_neg (by norm_num)]; rfl
  · rw [(rd 1 (by decide)).2.2.2.1, ds1V_none _ _ _ (by norm_num)]
  · rw [(rd 2 (by decide)).2.2.2.1, ds1V_flt _ _ _ (by norm_num)]; exact congrArg _ h2
  · rw [(rd 2 (by decide)).2.2.2.2.1, ds2V_none _ _ _ _ (by norm_num)]
  · rw [(rd 2 (by decide)).2.2.2.2.2.2.2]; exact o2
  · rw [(rd 3 (by decide)).2.2.2.2.1, ds2V_flt _ _ _ _ (by norm_num)]; exact congrArg _ g3
  · rw [(rd 3 (by decide)).2.2.2.2.2.2.1, ds2V_flt _ _ _ _ (by norm_num)]; exact congrArg _ a3
  · rw [(rd 3 (by decide)).2.2.2.2.2.2.2]; exact o3
  · rw [(rd 4 (by decide)).2.2.2.1, ds1V_flt _ _ _ (by norm_num)]; exact congrArg _ h4
  · rw [(rd 4 (by decide)).2.2.2.2.1, ds2V_flt _ _ _ _ (by norm_num)]; exact congrArg _ g4
  · rw [(rd 4 (by decide)).2.2.2.2.2.2.1, ds2V_flt _ _ _ _ (by norm_num)]; exact congrArg _ a4
  · rw [(rd 4 (by decide)).2.2.2.2.2.2.2]; exact o4

/-- the general theorem instantiated on the demo candles -/
example : ∃ out : List (Candle ℚ),
    Gen.rowMajor (tsiTreeN (K := ℚ) "TSI_2_1" 4 2 2 "high" (by norm_num) (by norm_num) tsiNames_demo
      ⟨noDot_high, by decide⟩).S macdDemoRaw = .ok out ∧
    out.length = macdDemoRaw.length ∧
    ∀ j, j < macdDemoRaw.length →
      TsiCandleOK "TSI_2_1" 4 2 2 (fieldAt (·.h) macdDemoRaw) j (macdDemoRaw.getD j default) (out.getD j default) :=
  tsi_series_readings "TSI_2_1" 4 2 2 "high" (·.h) (by norm_num) (by norm_num) tsiNames_demo
    ⟨noDot_high, by decide⟩ (fun _ => rfl) macdDemoRaw macdDemoRaw_plain

/-- the textbook series on the demo candles: `EMA₂(Δx) = –, –, 3/2, 7/6, −5/18`, `EMA₂(EMA₂(Δx)) = –, –, –, 4/3, 7/27`,
`EMA₂(EMA₂(|Δx|)) = –, –, –, 4/3, 31/27`; textbook TSI: none on candle 2, `100` on candle 3, `700/31 ≈ 22.5806` on
candle 4 (stored: `22.5832`) -/
example : tsiLine 2 2 tsiDemoX 2 = none ∧ tsiLine 2 2 tsiDemoX 3 = some 100 ∧
    tsiLine 2 2 tsiDemoX 4 = some (700 / 31) := by
  obtain ⟨p1, p2, p3, p4⟩ := tsiDemo_price
  obtain ⟨a1, a2, a3, a4⟩ := tsiDemo_abs
  have first : ∀ y : Nat → ℚ, ds1E 2 y 2 = (y 1 + y 2) / 2 ∧ ds1E 2 y 3 = 2 / 3 * y 3 + 1 / 3 * ds1E 2 y 2 ∧
      ds1E 2 y 4 = 2 / 3 * y 4 + 1 / 3 * ds1E 2 y 3 := by
    intro y
    refine ⟨?_, ?_, ?_⟩
    · unfold ds1E emaColExact
      rw [recExact_seed _ _ _ _ _ (by norm_num)]
      simp only [winMean, rsum, List.range_succ, List.range_zero]
      norm_num
    · unfold ds1E emaColExact
      rw [recExact_step _ _ _ _ 3 (by norm_num) (by norm_num)]
      norm_num [emaAlpha]
    · unfold ds1E emaColExact
      rw [recExact_step _ _ _ _ 4 (by norm_num) (by norm_num)]
      norm_num [emaAlpha]
  have second : ∀ y : Nat → ℚ, ds2E 2 2 y 3 = (ds1E 2 y 2 + ds1E 2 y 3) / 2 ∧
      ds2E 2 2 y 4 = 2 / 3 * ds1E 2 y 4 + 1 / 3 * ds2E 2 2 y 3 := by
    intro y
    refine ⟨?_, ?_⟩
    · unfold ds2E emaColExact
      rw [recExact_seed _ _ _ _ _ (by norm_num)]
      simp only [winMean, rsum, List.range_succ, List.range_zero]
      norm_num
    · unfold ds2E emaColExact
      rw [recExact_step _ _ _ _ 4 (by norm_num) (by norm_num)]
      norm_num [emaAlpha]
  obtain ⟨f2, f3, f4⟩ := first (tsiPrice tsiDemoX)
  obtain ⟨s3, s4⟩ := second (tsiPrice tsiDemoX)
  obtain ⟨af2, af3, af4⟩ := first (tsiAbs tsiDemoX)
  obtain ⟨as3, as4⟩ := second (tsiAbs tsiDemoX)
  rw [p1, p2] at f2
  rw [p3, f2] at f3
  rw [p4, f3] at f4
  rw [f2, f3] at s3
  rw [f4, s3] at s4
  rw [a1, a2] at af2
  rw [a3, af2] at af3
  rw [a4, af3] at af4
  rw [af2, af3] at as3
  rw [af4, as3] at as4
  refine ⟨by simp [tsiLine], ?_, ?_⟩
  · unfold tsiLine tsiExact
    rw [if_neg (by norm_num), s3, as3]
    norm_num
  · unfold tsiLine tsiExact
    rw [if_neg (by norm_num), s4, as4]
    norm_num

end Numeric
end Hex

#print axioms Hex.Numeric.tsi_series
#print axioms Hex.Numeric.tsi_engine
#print axioms Hex.Numeric.tsi_batch
#print axioms Hex.Numeric.tsi_batch_out
#print axioms Hex.Numeric.tsi_live
#print axioms Hex.Numeric.tsiOut_ok
#print axioms Hex.Numeric.tsi_series_readings
#print axioms Hex.Numeric.tsi_engine_readings
#print axioms Hex.Numeric.tsi_batch_readings
#print axioms Hex.Numeric.tsi_live_readings
#print axioms Hex.Numeric.ds2F_abs_le
#print axioms Hex.Numeric.roundNegLe_rat
#print axioms Hex.Numeric.tsiOwn_range_odd
#print axioms Hex.Numeric.tsiOwn_ok

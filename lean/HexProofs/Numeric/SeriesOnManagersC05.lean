import HexProofs.Numeric.SeriesOnManagers
/-!
# C05 – the volatility / channel / utility indicators ARE their textbook series on EVERY manager

For each of TR, HLA, ATR, STDEV, BBANDS, KC, Donchian, HighestLowest, Supertrend, STDEVTHRES, Counter:

* `x_series_on_manager (M : MgrSpec K) … : HoldsOn M (mkTop …) (XCandle …)` – on every manager with an incremental
  spec, every history over a stream the manager accepts RETURNS one candle per candle of `M.spec stream`; candle `j`
  is candle `j` of `M.spec stream` (same bare candle) and EVERY stored reading – the indicator's and its helper
  series' – satisfies the whole-series predicate of `HexProps/C05.lean` w.r.t. the series READ OFF `M.spec stream`
  (the collapsed / filled / converted candles);
* `x_series_tf` – spelled out on `{ tf := some tf }`: the textbook series over `resample tf stream`;
* `x_series_fillHA` – spelled out on `{ tf := some tf, fill := true, ha := true }`: over
  `haSpec (fillSpec tf stream)`.

`EveryCandle P spec snap` (RangesMore.lean) = `snap.length = spec.length ∧ ∀ j < spec.length, P spec j (snap.getD j default)`;
`OwnIs nm Q spec j c` = `c.bare = (spec.getD j default).bare ∧ Q spec j (readingByCandle c nm)`;
`SameCandle P spec j c` = `c.bare = (spec.getD j default).bare ∧ P spec j c` (SeriesOnManagers.lean).
-/
set_option linter.unusedSectionVars false
set_option linter.unusedVariables false
namespace Hex
namespace Numeric
variable {K : Type} [Field K] [LinearOrder K] [IsStrictOrderedRing K] [LawfulPyF K]

/-! ### the per-candle statements -/

/-- **HLA**: `round_n((high + low)/2)` of the manager's candle -/
def HlaCandle (n : Nat) (nm : String) : List (Candle K) → Nat → Candle K → Prop :=
  OwnIs nm fun spec j v => v = .flt (PyF.round n ((fieldAt (·.h) spec j + fieldAt (·.l) spec j) / 2))

/-- **TR**: `None` on candle 0, then the true range of the manager's candles (ints stay ints, floats rounded) -/
def TrCandle (n : Nat) (nm : String) : List (Candle K) → Nat → Candle K → Prop :=
  OwnIs nm fun spec j v =>
    (j = 0 → v = .none) ∧
    (1 ≤ j → ∃ t : Num K, v = .num (t.roundBy n) ∧
      t.toF = trAt (fieldAt (·.h) spec) (fieldAt (·.l) spec) (fieldAt (·.c) spec) j)

/-- **ATR**: the `_TR` helper is the stored true range; the own reading is `None` before index `p`, then `≥ 0` and
within `p·ε_n` of Wilder's average of the stored true ranges (`AtrOK`), within `p·ε_n + ε₄` of that of the exact
true ranges (`AtrOKTrue`) of the manager's candles -/
def AtrCandle (p n : Nat) (nm : String) (spec : List (Candle K)) (j : Nat) (c : Candle K) : Prop :=
  c.bare = (spec.getD j default).bare ∧
  readingByCandle c (nm ++ "_TR") = trStored spec j ∧
  AtrOK p n (trS spec) j (readingByCandle c nm) ∧
  AtrOKTrue p n spec j (readingByCandle c nm)

/-- **STDEV**: `SdCandleOK` (own reading `None` before `p`, then within `ε_n` of the population σ of the last `p`
inputs; `_data.mean` / `_data.variance` exactly the running statistics) over the manager's candles -/
def SdCandle (p n : Nat) (nm : String) (fld : Candle K → Num K) : List (Candle K) → Nat → Candle K → Prop :=
  SameCandle fun spec j c => SdCandleOK p n nm (fieldAt fld spec) j c

/-- **BBANDS**: `BbCandleOK` (own dict against the textbook bands `mean ∓ 2σ`, the STDEV / SMA helpers at 4
decimals) over the manager's candles -/
def BbCandle (p n : Nat) (nm : String) (fld : Candle K → Num K) : List (Candle K) → Nat → Candle K → Prop :=
  SameCandle fun spec j c => BbCandleOK p n nm (fieldAt fld spec) j c

/-- **KC**: the per-candle clauses of `KcSeriesOK` (TR / ATR / EMA helpers at 4 decimals, own dict `kcBands` of the
stored helper readings, `KcOwnOK` against the textbook channel `EMA ∓ m·ATR`) over the manager's candles -/
def KcCandle (p n : Nat) (mult : Num K) (nm : String) (fld : Candle K → Num K) (spec : List (Candle K)) (j : Nat)
    (c : Candle K) : Prop :=
  c.bare = (spec.getD j default).bare ∧
  readingByCandle c (nm ++ "_ATR" ++ "_TR") = trStored spec j ∧
  AtrOK p defaultRound (trS spec) j (readingByCandle c (nm ++ "_ATR")) ∧
  AtrOKTrue p defaultRound spec j (readingByCandle c (nm ++ "_ATR")) ∧
  RecOK p defaultRound (kcAlpha K p) (emaExact p (fieldAt fld spec)) j (readingByCandle c (nm ++ "_EMA")) ∧
  readingByCandle c nm
    = kcBands mult n (readingByCandle c (nm ++ "_EMA")) (readingByCandle c (nm ++ "_ATR")) ∧
  KcOwnOK n (eps K defaultRound / kcAlpha K p) (eps K defaultRound / (1 / (p : K))) mult.toF
    (kcSeries p mult.toF (fieldAt fld spec) (trS spec) j) (readingByCandle c nm) ∧
  KcOwnOK n (eps K defaultRound / kcAlpha K p) (eps K defaultRound / (1 / (p : K)) + eps K defaultRound)
    mult.toF (kcSeries p mult.toF (fieldAt fld spec) (trExact spec) j) (readingByCandle c nm)

/-- `KcSeriesOK` is `EveryCandle KcCandle` -/
theorem kcSeriesOK_iff (p n : Nat) (mult : Num K) (nm : String) (fld : Candle K → Num K)
    (spec out : List (Candle K)) :
    KcSeriesOK p n mult nm fld spec out ↔ EveryCandle (KcCandle p n mult nm fld) spec out := Iff.rfl

/-- **Donchian**: `DcOK` (three `None`s before `p − 1`; `DCL` / `DCU` the low / high of two candles of the window
whose values are the window extremes; `DCM` their rounded mean) over the manager's candles -/
def DcCandle (p n : Nat) (nm : String) : List (Candle K) → Nat → Candle K → Prop :=
  OwnIs nm fun spec j v => DcOK p n (numAt (·.h) spec) (numAt (·.l) spec) j v

/-- **HighestLowest**: `HlOK` (no warm-up; window = the last `p + 1` candles of the manager's list) -/
def HlCandle (p n : Nat) (nm : String) : List (Candle K) → Nat → Candle K → Prop :=
  OwnIs nm fun spec j v => HlOK p n (numAt (·.h) spec) (numAt (·.l) spec) j v

/-- **Supertrend**: `StCandleOK` (stored TR / ATR / HL2 helpers, `_data` bands EXACTLY those of the textbook state
machine `stSeries`, own dict within `ε_n` with exact direction) over the manager's candles -/
def StCandle (p n : Nat) (mult : K) (nm : String) : List (Candle K) → Nat → Candle K → Prop :=
  fun spec j c => StCandleOK p n mult nm spec j c

/-- **STDEVTHRES**: `ThCandleOK` (STDEV helper at 4 decimals; own reading the bool `False` before `p`, then exactly
`σ_stored·m < |x_j − x_{j−1}|`) over the manager's candles -/
def ThCandle (p : Nat) (nm : String) (mult : K) (fld : Candle K → Num K) :
    List (Candle K) → Nat → Candle K → Prop :=
  SameCandle fun spec j c => ThCandleOK p nm mult (fieldAt fld spec) j c

/-- **Counter** (every carrier): the Python int `runLen` of the field's values of the manager's candles -/
def CountCandle {F : Type} [PyF F] (cv : Scalar F) (fld : Candle F → Num F) (nm : String) :
    List (Candle F) → Nat → Candle F → Prop :=
  OwnIs nm fun spec j v => CountOK cv (fun i => (.num (fld (spec.getD i default)) : Val F)) j v

/-! ### HLA, TR -/

theorem hla_series_on_manager (M : MgrSpec K) (nm : String) (n : Nat) (hk : IsKey nm) :
    HoldsOn M (mkTop .hla nm n) (HlaCandle (K := K) n nm) :=
  leaf_series_on_manager _ nm n Covered.hla hk _ (fun raw hraw => hla_series nm n hk raw hraw) M

theorem hla_series_tf (tf : Int) (htf : 0 < tf) (nm : String) (n : Nat) (hk : IsKey nm)
    (init : List (Candle K)) (chunks : List (List (Candle K))) (hraw : RawTf (init ++ chunks.flatten)) :
    ∃ snap, candlesOf (runIndicator (mkTop .hla nm n) { tf := some tf } init chunks) = .ok snap ∧
      snap.length = (resample tf (init ++ chunks.flatten)).length ∧
      ∀ j, j < (resample tf (init ++ chunks.flatten)).length →
        (snap.getD j default).bare = ((resample tf (init ++ chunks.flatten)).getD j default).bare ∧
        readingByCandle (snap.getD j default) nm
          = .flt (PyF.round n ((fieldAt (·.h) (resample tf (init ++ chunks.flatten)) j
              + fieldAt (·.l) (resample tf (init ++ chunks.flatten)) j) / 2)) :=
  (hla_series_on_manager (MgrSpec.tf K tf htf) nm n hk).on_tf tf htf init chunks hraw

theorem hla_series_fillHA (tf : Int) (htf : 0 < tf) (nm : String) (n : Nat) (hk : IsKey nm)
    (init : List (Candle K)) (chunks : List (List (Candle K)))
    (hraw : RawTf (init ++ chunks.flatten) ∧ ∀ c ∈ init ++ chunks.flatten, c.tag = false) :
    ∃ snap, candlesOf (runIndicator (mkTop .hla nm n) { tf := some tf, fill := true, ha := true } init chunks)
        = .ok snap ∧
      EveryCandle (HlaCandle n nm) (haSpec (fillSpec tf (init ++ chunks.flatten))) snap :=
  (hla_series_on_manager (MgrSpec.fillHA K tf htf) nm n hk).on_fillHA tf htf init chunks hraw

theorem tr_series_on_manager (M : MgrSpec K) (nm : String) (n : Nat) (hk : IsKey nm) :
    HoldsOn M (mkTop .tr nm n) (TrCandle (K := K) n nm) :=
  leaf_series_on_manager _ nm n Covered.tr hk _ (fun raw hraw => tr_series nm n hk raw hraw) M

/-- **TR on a collapsing timeframe**: the true range of the COLLAPSED candles (bucket high / low against the previous
bucket's close) -/
theorem tr_series_tf (tf : Int) (htf : 0 < tf) (nm : String) (n : Nat) (hk : IsKey nm)
    (init : List (Candle K)) (chunks : List (List (Candle K))) (hraw : RawTf (init ++ chunks.flatten)) :
    ∃ snap, candlesOf (runIndicator (mkTop .tr nm n) { tf := some tf } init chunks) = .ok snap ∧
      snap.length = (resample tf (init ++ chunks.flatten)).length ∧
      ∀ j, j < (resample tf (init ++ chunks.flatten)).length →
        (snap.getD j default).bare = ((resample tf (init ++ chunks.flatten)).getD j default).bare ∧
        (j = 0 → readingByCandle (snap.getD j default) nm = .none) ∧
        (1 ≤ j → ∃ t : Num K, readingByCandle (snap.getD j default) nm = .num (t.roundBy n) ∧
          t.toF = trAt (fieldAt (·.h) (resample tf (init ++ chunks.flatten)))
            (fieldAt (·.l) (resample tf (init ++ chunks.flatten)))
            (fieldAt (·.c) (resample tf (init ++ chunks.flatten))) j) :=
  (tr_series_on_manager (MgrSpec.tf K tf htf) nm n hk).on_tf tf htf init chunks hraw

theorem tr_series_fillHA (tf : Int) (htf : 0 < tf) (nm : String) (n : Nat) (hk : IsKey nm)
    (init : List (Candle K)) (chunks : List (List (Candle K)))
    (hraw : RawTf (init ++ chunks.flatten) ∧ ∀ c ∈ init ++ chunks.flatten, c.tag = false) :
    ∃ snap, candlesOf (runIndicator (mkTop .tr nm n) { tf := some tf, fill := true, ha := true } init chunks)
        = .ok snap ∧
      EveryCandle (TrCandle n nm) (haSpec (fillSpec tf (init ++ chunks.flatten))) snap :=
  (tr_series_on_manager (MgrSpec.fillHA K tf htf) nm n hk).on_fillHA tf htf init chunks hraw

/-! ### ATR -/

theorem atr_series_on_manager (M : MgrSpec K) (p : Nat) (hp : 1 ≤ p) (nm : String) (n : Nat) (hk : IsKey nm)
    (hn : AtrNames nm) : HoldsOn M (mkTop (.atr (p : Int) : Kind K) nm n) (AtrCandle p n nm) :=
  (atrTree (F := K) nm n (p : Int) (by omega) hn).holdsOn _ (fun raw hraw => by
    obtain ⟨out, h1, h2, h3⟩ := atr_series_readings p hp nm n hk hn raw hraw
    exact ⟨out, h1, h2, h3⟩) M

/-- the same from the ENGINE-level theorem `atr_engine_readings` by the generic lemma `series_on_manager` (no
reference to the tree's `TreeSpec`) -/
theorem atr_series_on_manager_of_engine (M : MgrSpec K) (p : Nat) (hp : 1 ≤ p) (nm : String) (n : Nat)
    (hk : IsKey nm) (hn : AtrNames nm) : HoldsOn M (mkTop (.atr (p : Int) : Kind K) nm n) (AtrCandle p n nm) :=
  series_on_manager (.base _ (.atr (p : Int) (by omega) hn)) n _
    (fun raw hraw => atr_engine_readings p hp nm n hk hn raw hraw) M

/-- **ATR on a collapsing timeframe**: first reading at COLLAPSED index `p`, Wilder's average of the collapsed
candles' true ranges -/
theorem atr_series_tf (tf : Int) (htf : 0 < tf) (p : Nat) (hp : 1 ≤ p) (nm : String) (n : Nat) (hk : IsKey nm)
    (hn : AtrNames nm) (init : List (Candle K)) (chunks : List (List (Candle K)))
    (hraw : RawTf (init ++ chunks.flatten)) :
    ∃ snap, candlesOf (runIndicator (mkTop (.atr (p : Int) : Kind K) nm n) { tf := some tf } init chunks) = .ok snap ∧
      snap.length = (resample tf (init ++ chunks.flatten)).length ∧
      ∀ j, j < (resample tf (init ++ chunks.flatten)).length →
        (snap.getD j default).bare = ((resample tf (init ++ chunks.flatten)).getD j default).bare ∧
        readingByCandle (snap.getD j default) (nm ++ "_TR") = trStored (resample tf (init ++ chunks.flatten)) j ∧
        AtrOK p n (trS (resample tf (init ++ chunks.flatten))) j (readingByCandle (snap.getD j default) nm) ∧
        AtrOKTrue p n (resample tf (init ++ chunks.flatten)) j (readingByCandle (snap.getD j default) nm) :=
  (atr_series_on_manager (MgrSpec.tf K tf htf) p hp nm n hk hn).on_tf tf htf init chunks hraw

theorem atr_series_fillHA (tf : Int) (htf : 0 < tf) (p : Nat) (hp : 1 ≤ p) (nm : String) (n : Nat) (hk : IsKey nm)
    (hn : AtrNames nm) (init : List (Candle K)) (chunks : List (List (Candle K)))
    (hraw : RawTf (init ++ chunks.flatten) ∧ ∀ c ∈ init ++ chunks.flatten, c.tag = false) :
    ∃ snap, candlesOf (runIndicator (mkTop (.atr (p : Int) : Kind K) nm n)
        { tf := some tf, fill := true, ha := true } init chunks) = .ok snap ∧
      EveryCandle (AtrCandle p n nm) (haSpec (fillSpec tf (init ++ chunks.flatten))) snap :=
  (atr_series_on_manager (MgrSpec.fillHA K tf htf) p hp nm n hk hn).on_fillHA tf htf init chunks hraw

/-! ### STDEV -/

theorem stdev_series_on_manager [NonnegSqrt K] (M : MgrSpec K) (p : Nat) (hp : 1 ≤ p) (nm input : String)
    (fld : Candle K → Num K) (n : Nat) (hn : SdNames nm) (hin : AttrInput input)
    (hattr : ∀ c : Candle K, c.attr input = some (.num (fld c))) :
    HoldsOn M (mkTop (.stdev (p : Int) input : Kind K) nm n) (SdCandle p n nm fld) :=
  (stdevTree (F := K) nm n (p : Int) input (by omega) hin).holdsOn_same _ (fun raw hraw => by
    obtain ⟨out, hl, hrun, hall⟩ := stdev_series_candles p hp nm input fld n hn hin hattr raw hraw
    exact ⟨out, hrun, hl, hall⟩) M

theorem stdev_series_tf [NonnegSqrt K] (tf : Int) (htf : 0 < tf) (p : Nat) (hp : 1 ≤ p) (nm input : String)
    (fld : Candle K → Num K) (n : Nat) (hn : SdNames nm) (hin : AttrInput input)
    (hattr : ∀ c : Candle K, c.attr input = some (.num (fld c)))
    (init : List (Candle K)) (chunks : List (List (Candle K))) (hraw : RawTf (init ++ chunks.flatten)) :
    ∃ snap, candlesOf (runIndicator (mkTop (.stdev (p : Int) input : Kind K) nm n) { tf := some tf } init chunks)
        = .ok snap ∧
      snap.length = (resample tf (init ++ chunks.flatten)).length ∧
      ∀ j, j < (resample tf (init ++ chunks.flatten)).length →
        (snap.getD j default).bare = ((resample tf (init ++ chunks.flatten)).getD j default).bare ∧
        SdCandleOK p n nm (fieldAt fld (resample tf (init ++ chunks.flatten))) j (snap.getD j default) :=
  (stdev_series_on_manager (MgrSpec.tf K tf htf) p hp nm input fld n hn hin hattr).on_tf tf htf init chunks hraw

theorem stdev_series_fillHA [NonnegSqrt K] (tf : Int) (htf : 0 < tf) (p : Nat) (hp : 1 ≤ p) (nm input : String)
    (fld : Candle K → Num K) (n : Nat) (hn : SdNames nm) (hin : AttrInput input)
    (hattr : ∀ c : Candle K, c.attr input = some (.num (fld c)))
    (init : List (Candle K)) (chunks : List (List (Candle K)))
    (hraw : RawTf (init ++ chunks.flatten) ∧ ∀ c ∈ init ++ chunks.flatten, c.tag = false) :
    ∃ snap, candlesOf (runIndicator (mkTop (.stdev (p : Int) input : Kind K) nm n)
        { tf := some tf, fill := true, ha := true } init chunks) = .ok snap ∧
      EveryCandle (SdCandle p n nm fld) (haSpec (fillSpec tf (init ++ chunks.flatten))) snap :=
  (stdev_series_on_manager (MgrSpec.fillHA K tf htf) p hp nm input fld n hn hin hattr).on_fillHA tf htf
    init chunks hraw

/-! ### BBANDS -/

theorem bbands_series_on_manager [NonnegSqrt K] (M : MgrSpec K) (p : Nat) (hp : 2 ≤ p) (nm input : String)
    (fld : Candle K → Num K) (n : Nat) (hk : IsKey nm) (hn : BbNames nm) (hin : AttrInput input)
    (hattr : ∀ c : Candle K, c.attr input = some (.num (fld c))) :
    HoldsOn M (mkTop (.bbands (p : Int) input : Kind K) nm n) (BbCandle p n nm fld) :=
  (bbTree (F := K) nm n (p : Int) input (by omega) hn hin).holdsOn_same _ (fun raw hraw => by
    obtain ⟨out, hl, hrun, hall⟩ := bb_series_candles p hp nm input fld n hk hn hin hattr raw hraw
    exact ⟨out, hrun, hl, hall⟩) M

theorem bbands_series_tf [NonnegSqrt K] (tf : Int) (htf : 0 < tf) (p : Nat) (hp : 2 ≤ p) (nm input : String)
    (fld : Candle K → Num K) (n : Nat) (hk : IsKey nm) (hn : BbNames nm) (hin : AttrInput input)
    (hattr : ∀ c : Candle K, c.attr input = some (.num (fld c)))
    (init : List (Candle K)) (chunks : List (List (Candle K))) (hraw : RawTf (init ++ chunks.flatten)) :
    ∃ snap, candlesOf (runIndicator (mkTop (.bbands (p : Int) input : Kind K) nm n) { tf := some tf } init chunks)
        = .ok snap ∧
      snap.length = (resample tf (init ++ chunks.flatten)).length ∧
      ∀ j, j < (resample tf (init ++ chunks.flatten)).length →
        (snap.getD j default).bare = ((resample tf (init ++ chunks.flatten)).getD j default).bare ∧
        BbCandleOK p n nm (fieldAt fld (resample tf (init ++ chunks.flatten))) j (snap.getD j default) :=
  (bbands_series_on_manager (MgrSpec.tf K tf htf) p hp nm input fld n hk hn hin hattr).on_tf tf htf init chunks hraw

theorem bbands_series_fillHA [NonnegSqrt K] (tf : Int) (htf : 0 < tf) (p : Nat) (hp : 2 ≤ p) (nm input : String)
    (fld : Candle K → Num K) (n : Nat) (hk : IsKey nm) (hn : BbNames nm) (hin : AttrInput input)
    (hattr : ∀ c : Candle K, c.attr input = some (.num (fld c)))
    (init : List (Candle K)) (chunks : List (List (Candle K)))
    (hraw : RawTf (init ++ chunks.flatten) ∧ ∀ c ∈ init ++ chunks.flatten, c.tag = false) :
    ∃ snap, candlesOf (runIndicator (mkTop (.bbands (p : Int) input : Kind K) nm n)
        { tf := some tf, fill := true, ha := true } init chunks) = .ok snap ∧
      EveryCandle (BbCandle p n nm fld) (haSpec (fillSpec tf (init ++ chunks.flatten))) snap :=
  (bbands_series_on_manager (MgrSpec.fillHA K tf htf) p hp nm input fld n hk hn hin hattr).on_fillHA tf htf
    init chunks hraw

/-! ### Keltner Channel -/

theorem kc_series_on_manager (M : MgrSpec K) (p : Nat) (hp : 2 ≤ p) (nm input : String) (fld : Candle K → Num K)
    (n : Nat) (mult : Num K) (hk : IsKey nm) (hn : KcNames nm) (hin : AttrInput input)
    (hattr : ∀ c : Candle K, c.attr input = some (.num (fld c))) :
    HoldsOn M (mkTop (.kc (p : Int) input mult : Kind K) nm n) (KcCandle p n mult nm fld) :=
  (kcTree (F := K) nm n (p : Int) input mult (by omega) hn hin).holdsOn _ (fun raw hraw => by
    obtain ⟨out, hrun, hok'⟩ := kc_series_readings p hp nm input fld n mult hk hn hin hattr raw hraw
    exact ⟨out, hrun, hok'.1, hok'.2⟩) M

/-- **KC on a collapsing timeframe**: the history returns, and its candles are `KcSeriesOK` w.r.t. the COLLAPSED
candles -/
theorem kc_series_tf (tf : Int) (htf : 0 < tf) (p : Nat) (hp : 2 ≤ p) (nm input : String) (fld : Candle K → Num K)
    (n : Nat) (mult : Num K) (hk : IsKey nm) (hn : KcNames nm) (hin : AttrInput input)
    (hattr : ∀ c : Candle K, c.attr input = some (.num (fld c)))
    (init : List (Candle K)) (chunks : List (List (Candle K))) (hraw : RawTf (init ++ chunks.flatten)) :
    ∃ snap, candlesOf (runIndicator (mkTop (.kc (p : Int) input mult : Kind K) nm n) { tf := some tf } init chunks)
        = .ok snap ∧
      KcSeriesOK p n mult nm fld (resample tf (init ++ chunks.flatten)) snap :=
  (kc_series_on_manager (MgrSpec.tf K tf htf) p hp nm input fld n mult hk hn hin hattr).on_tf tf htf init chunks hraw

theorem kc_series_fillHA (tf : Int) (htf : 0 < tf) (p : Nat) (hp : 2 ≤ p) (nm input : String)
    (fld : Candle K → Num K) (n : Nat) (mult : Num K) (hk : IsKey nm) (hn : KcNames nm) (hin : AttrInput input)
    (hattr : ∀ c : Candle K, c.attr input = some (.num (fld c)))
    (init : List (Candle K)) (chunks : List (List (Candle K)))
    (hraw : RawTf (init ++ chunks.flatten) ∧ ∀ c ∈ init ++ chunks.flatten, c.tag = false) :
    ∃ snap, candlesOf (runIndicator (mkTop (.kc (p : Int) input mult : Kind K) nm n)
        { tf := some tf, fill := true, ha := true } init chunks) = .ok snap ∧
      KcSeriesOK p n mult nm fld (haSpec (fillSpec tf (init ++ chunks.flatten))) snap :=
  (kc_series_on_manager (MgrSpec.fillHA K tf htf) p hp nm input fld n mult hk hn hin hattr).on_fillHA tf htf
    init chunks hraw

/-! ### Donchian, HighestLowest -/

theorem donchian_series_on_manager (M : MgrSpec K) (p : Nat) (hp : 2 ≤ p) (nm : String) (n : Nat)
    (hn : DcNames nm) : HoldsOn M (mkTop (.donchian p : Kind K) nm n) (DcCandle p n nm) :=
  leaf_series_on_manager _ nm n (Covered.donchian (p : Int) (by omega)) hn.key _
    (fun raw hraw => donchian_series p hp nm n hn raw hraw) M

/-- **Donchian on a collapsing timeframe**: the channel over the last `p` COLLAPSED candles -/
theorem donchian_series_tf (tf : Int) (htf : 0 < tf) (p : Nat) (hp : 2 ≤ p) (nm : String) (n : Nat)
    (hn : DcNames nm) (init : List (Candle K)) (chunks : List (List (Candle K)))
    (hraw : RawTf (init ++ chunks.flatten)) :
    ∃ snap, candlesOf (runIndicator (mkTop (.donchian p : Kind K) nm n) { tf := some tf } init chunks) = .ok snap ∧
      snap.length = (resample tf (init ++ chunks.flatten)).length ∧
      ∀ j, j < (resample tf (init ++ chunks.flatten)).length →
        (snap.getD j default).bare = ((resample tf (init ++ chunks.flatten)).getD j default).bare ∧
        DcOK p n (numAt (·.h) (resample tf (init ++ chunks.flatten)))
          (numAt (·.l) (resample tf (init ++ chunks.flatten))) j (readingByCandle (snap.getD j default) nm) :=
  (donchian_series_on_manager (MgrSpec.tf K tf htf) p hp nm n hn).on_tf tf htf init chunks hraw

theorem donchian_series_fillHA (tf : Int) (htf : 0 < tf) (p : Nat) (hp : 2 ≤ p) (nm : String) (n : Nat)
    (hn : DcNames nm) (init : List (Candle K)) (chunks : List (List (Candle K)))
    (hraw : RawTf (init ++ chunks.flatten) ∧ ∀ c ∈ init ++ chunks.flatten, c.tag = false) :
    ∃ snap, candlesOf (runIndicator (mkTop (.donchian p : Kind K) nm n)
        { tf := some tf, fill := true, ha := true } init chunks) = .ok snap ∧
      EveryCandle (DcCandle p n nm) (haSpec (fillSpec tf (init ++ chunks.flatten))) snap :=
  (donchian_series_on_manager (MgrSpec.fillHA K tf htf) p hp nm n hn).on_fillHA tf htf init chunks hraw

theorem hl_series_on_manager (M : MgrSpec K) (p : Nat) (hp : 1 ≤ p) (nm : String) (n : Nat) (hk : IsKey nm) :
    HoldsOn M (mkTop (.hl p : Kind K) nm n) (HlCandle p n nm) :=
  leaf_series_on_manager _ nm n (Covered.hl (p : Int)) hk _ (fun raw hraw => hl_series p hp nm n raw hraw) M

theorem hl_series_tf (tf : Int) (htf : 0 < tf) (p : Nat) (hp : 1 ≤ p) (nm : String) (n : Nat) (hk : IsKey nm)
    (init : List (Candle K)) (chunks : List (List (Candle K))) (hraw : RawTf (init ++ chunks.flatten)) :
    ∃ snap, candlesOf (runIndicator (mkTop (.hl p : Kind K) nm n) { tf := some tf } init chunks) = .ok snap ∧
      snap.length = (resample tf (init ++ chunks.flatten)).length ∧
      ∀ j, j < (resample tf (init ++ chunks.flatten)).length →
        (snap.getD j default).bare = ((resample tf (init ++ chunks.flatten)).getD j default).bare ∧
        HlOK p n (numAt (·.h) (resample tf (init ++ chunks.flatten)))
          (numAt (·.l) (resample tf (init ++ chunks.flatten))) j (readingByCandle (snap.getD j default) nm) :=
  (hl_series_on_manager (MgrSpec.tf K tf htf) p hp nm n hk).on_tf tf htf init chunks hraw

theorem hl_series_fillHA (tf : Int) (htf : 0 < tf) (p : Nat) (hp : 1 ≤ p) (nm : String) (n : Nat) (hk : IsKey nm)
    (init : List (Candle K)) (chunks : List (List (Candle K)))
    (hraw : RawTf (init ++ chunks.flatten) ∧ ∀ c ∈ init ++ chunks.flatten, c.tag = false) :
    ∃ snap, candlesOf (runIndicator (mkTop (.hl p : Kind K) nm n)
        { tf := some tf, fill := true, ha := true } init chunks) = .ok snap ∧
      EveryCandle (HlCandle p n nm) (haSpec (fillSpec tf (init ++ chunks.flatten))) snap :=
  (hl_series_on_manager (MgrSpec.fillHA K tf htf) p hp nm n hk).on_fillHA tf htf init chunks hraw

/-! ### Supertrend -/

theorem supertrend_series_on_manager (M : MgrSpec K) (p : Nat) (hp : 1 ≤ p) (nm input : String) (mult : Num K)
    (n : Nat) (hn : StNames nm) (hk : IsKey nm) :
    HoldsOn M (mkTop (.supertrend (p : Int) input mult : Kind K) nm n) (StCandle p n mult.toF nm) :=
  (stTree (F := K) nm n (p : Int) input mult (by omega) hn).holdsOn _ (fun raw hraw => by
    obtain ⟨out, hl, hrun, hall⟩ := st_series_candles p hp nm input mult n hn hk raw hraw
    exact ⟨out, hrun, hl, hall⟩) M

/-- **Supertrend on a collapsing timeframe**: the textbook state machine `stSeries` run over the COLLAPSED candles -/
theorem supertrend_series_tf (tf : Int) (htf : 0 < tf) (p : Nat) (hp : 1 ≤ p) (nm input : String) (mult : Num K)
    (n : Nat) (hn : StNames nm) (hk : IsKey nm)
    (init : List (Candle K)) (chunks : List (List (Candle K))) (hraw : RawTf (init ++ chunks.flatten)) :
    ∃ snap, candlesOf (runIndicator (mkTop (.supertrend (p : Int) input mult : Kind K) nm n) { tf := some tf }
        init chunks) = .ok snap ∧
      snap.length = (resample tf (init ++ chunks.flatten)).length ∧
      ∀ j, j < (resample tf (init ++ chunks.flatten)).length →
        StCandleOK p n mult.toF nm (resample tf (init ++ chunks.flatten)) j (snap.getD j default) :=
  (supertrend_series_on_manager (MgrSpec.tf K tf htf) p hp nm input mult n hn hk).on_tf tf htf init chunks hraw

theorem supertrend_series_fillHA (tf : Int) (htf : 0 < tf) (p : Nat) (hp : 1 ≤ p) (nm input : String)
    (mult : Num K) (n : Nat) (hn : StNames nm) (hk : IsKey nm)
    (init : List (Candle K)) (chunks : List (List (Candle K)))
    (hraw : RawTf (init ++ chunks.flatten) ∧ ∀ c ∈ init ++ chunks.flatten, c.tag = false) :
    ∃ snap, candlesOf (runIndicator (mkTop (.supertrend (p : Int) input mult : Kind K) nm n)
        { tf := some tf, fill := true, ha := true } init chunks) = .ok snap ∧
      snap.length = (haSpec (fillSpec tf (init ++ chunks.flatten))).length ∧
      ∀ j, j < (haSpec (fillSpec tf (init ++ chunks.flatten))).length →
        StCandleOK p n mult.toF nm (haSpec (fillSpec tf (init ++ chunks.flatten))) j (snap.getD j default) :=
  (supertrend_series_on_manager (MgrSpec.fillHA K tf htf) p hp nm input mult n hn hk).on_fillHA tf htf
    init chunks hraw

/-! ### STDEV threshold -/

theorem thres_series_on_manager [NonnegSqrt K] (M : MgrSpec K) (p : Nat) (hp : 1 ≤ p) (nm input : String)
    (fld : Candle K → Num K) (mult : Num K) (n : Nat) (hk : IsKey nm) (hn : ThresNames nm) (hin : AttrInput input)
    (hattr : ∀ c : Candle K, c.attr input = some (.num (fld c))) :
    HoldsOn M (mkTop (.stdevthres (p : Int) input mult : Kind K) nm n) (ThCandle p nm mult.toF fld) :=
  (thresTree (F := K) nm n (p : Int) input mult (by omega) hn hin).holdsOn_same _ (fun raw hraw => by
    obtain ⟨out, hl, hrun, hall⟩ := thres_series_candles p hp nm input fld mult n hk hn hin hattr raw hraw
    exact ⟨out, hrun, hl, hall⟩) M

theorem thres_series_tf [NonnegSqrt K] (tf : Int) (htf : 0 < tf) (p : Nat) (hp : 1 ≤ p) (nm input : String)
    (fld : Candle K → Num K) (mult : Num K) (n : Nat) (hk : IsKey nm) (hn : ThresNames nm) (hin : AttrInput input)
    (hattr : ∀ c : Candle K, c.attr input = some (.num (fld c)))
    (init : List (Candle K)) (chunks : List (List (Candle K))) (hraw : RawTf (init ++ chunks.flatten)) :
    ∃ snap, candlesOf (runIndicator (mkTop (.stdevthres (p : Int) input mult : Kind K) nm n) { tf := some tf }
        init chunks) = .ok snap ∧
      snap.length = (resample tf (init ++ chunks.flatten)).length ∧
      ∀ j, j < (resample tf (init ++ chunks.flatten)).length →
        (snap.getD j default).bare = ((resample tf (init ++ chunks.flatten)).getD j default).bare ∧
        ThCandleOK p nm mult.toF (fieldAt fld (resample tf (init ++ chunks.flatten))) j (snap.getD j default) :=
  (thres_series_on_manager (MgrSpec.tf K tf htf) p hp nm input fld mult n hk hn hin hattr).on_tf tf htf
    init chunks hraw

theorem thres_series_fillHA [NonnegSqrt K] (tf : Int) (htf : 0 < tf) (p : Nat) (hp : 1 ≤ p) (nm input : String)
    (fld : Candle K → Num K) (mult : Num K) (n : Nat) (hk : IsKey nm) (hn : ThresNames nm) (hin : AttrInput input)
    (hattr : ∀ c : Candle K, c.attr input = some (.num (fld c)))
    (init : List (Candle K)) (chunks : List (List (Candle K)))
    (hraw : RawTf (init ++ chunks.flatten) ∧ ∀ c ∈ init ++ chunks.flatten, c.tag = false) :
    ∃ snap, candlesOf (runIndicator (mkTop (.stdevthres (p : Int) input mult : Kind K) nm n)
        { tf := some tf, fill := true, ha := true } init chunks) = .ok snap ∧
      EveryCandle (ThCandle p nm mult.toF fld) (haSpec (fillSpec tf (init ++ chunks.flatten))) snap :=
  (thres_series_on_manager (MgrSpec.fillHA K tf htf) p hp nm input fld mult n hk hn hin hattr).on_fillHA tf htf
    init chunks hraw

/-! ### Counter (every float carrier) -/

theorem counter_series_on_manager {F : Type} [PyF F] (M : MgrSpec F) (nm input : String) (fld : Candle F → Num F)
    (cv : Scalar F) (n : Nat) (hk : IsKey nm) (hin : AttrInput input)
    (hattr : ∀ c : Candle F, c.attr input = some (.num (fld c))) :
    HoldsOn M (mkTop (.counter input cv : Kind F) nm n) (CountCandle cv fld nm) :=
  leaf_series_on_manager _ nm n (Covered.counter input cv hin) hk _
    (fun raw _ => counter_series nm input fld cv n hk hin.1 hattr raw) M

/-- **Counter on a collapsing timeframe, every carrier** (hence also the executed `Float`): the run length of the
COLLAPSED candles' field values -/
theorem counter_series_tf {F : Type} [PyF F] (tf : Int) (htf : 0 < tf) (nm input : String) (fld : Candle F → Num F)
    (cv : Scalar F) (n : Nat) (hk : IsKey nm) (hin : AttrInput input)
    (hattr : ∀ c : Candle F, c.attr input = some (.num (fld c)))
    (init : List (Candle F)) (chunks : List (List (Candle F))) (hraw : RawTf (init ++ chunks.flatten)) :
    ∃ snap, candlesOf (runIndicator (mkTop (.counter input cv : Kind F) nm n) { tf := some tf } init chunks)
        = .ok snap ∧
      snap.length = (resample tf (init ++ chunks.flatten)).length ∧
      ∀ j, j < (resample tf (init ++ chunks.flatten)).length →
        (snap.getD j default).bare = ((resample tf (init ++ chunks.flatten)).getD j default).bare ∧
        readingByCandle (snap.getD j default) nm = .int ((runLen cv
          (fun i => (.num (fld ((resample tf (init ++ chunks.flatten)).getD i default)) : Val F)) j : Nat) : Int) :=
  (counter_series_on_manager (MgrSpec.tf F tf htf) nm input fld cv n hk hin hattr).on_tf tf htf init chunks hraw

theorem counter_series_fillHA {F : Type} [PyF F] (tf : Int) (htf : 0 < tf) (nm input : String)
    (fld : Candle F → Num F) (cv : Scalar F) (n : Nat) (hk : IsKey nm) (hin : AttrInput input)
    (hattr : ∀ c : Candle F, c.attr input = some (.num (fld c)))
    (init : List (Candle F)) (chunks : List (List (Candle F)))
    (hraw : RawTf (init ++ chunks.flatten) ∧ ∀ c ∈ init ++ chunks.flatten, c.tag = false) :
    ∃ snap, candlesOf (runIndicator (mkTop (.counter input cv : Kind F) nm n)
        { tf := some tf, fill := true, ha := true } init chunks) = .ok snap ∧
      EveryCandle (CountCandle cv fld nm) (haSpec (fillSpec tf (init ++ chunks.flatten))) snap :=
  (counter_series_on_manager (MgrSpec.fillHA F tf htf) nm input fld cv n hk hin hattr).on_fillHA tf htf
    init chunks hraw

/-! ### non-vacuity over ℚ: the stamped demo stream `haStamped` on a two-minute timeframe
(four buckets 120, 240, 480, 600; with gap filling five) -/

/-- ATR(2), two-minute timeframe, fed one candle at a time: four candles, TR helper `None` on bucket 0, ATR `None`
before COLLAPSED index 2 -/
example : ∃ snap : List (Candle ℚ),
    candlesOf (runIndicator (mkTop (.atr ((2 : Nat) : Int) : Kind ℚ) "ATR_2" 4) { tf := some 120 }
      [] (haStamped.map fun c => [c])) = .ok snap ∧ snap.length = 4 ∧
    readingByCandle (snap.getD 0 default) ("ATR_2" ++ "_TR") = .none ∧
    readingByCandle (snap.getD 1 default) "ATR_2" = .none ∧
    ∃ y, readingByCandle (snap.getD 3 default) "ATR_2" = .flt y ∧ 0 ≤ y := by
  obtain ⟨snap, h1, h2, h3⟩ := atr_series_tf (K := ℚ) 120 (by decide) 2 (by norm_num) "ATR_2" 4 (by decide)
    ⟨by decide, by decide⟩ [] (haStamped.map fun c => [c]) haStamped_ok.1
  have e : ([] : List (Candle ℚ)) ++ (haStamped.map fun c => [c]).flatten = haStamped := rfl
  rw [e] at h2 h3
  have hlen : (resample 120 haStamped).length = 4 := by decide +kernel
  rw [hlen] at h2 h3
  have t0 := (h3 0 (by decide)).2.1
  have a1 := (h3 1 (by decide)).2.2.2
  have a3 := (h3 3 (by decide)).2.2.2
  refine ⟨snap, h1, h2, ?_, a1.1 (by decide), ?_⟩
  · rw [t0]; unfold trStored; rw [if_pos rfl]
  · obtain ⟨y, hy, _, h0⟩ := a3.2 (by decide)
    exact ⟨y, hy, h0⟩

/-- BBANDS(2), KC(2, ×2), Supertrend(2, ×3), STDEVTHRES(2, ×1) on timeframe + gap filling + Heikin-Ashi -/
example :
    (∃ snap : List (Candle ℚ),
      candlesOf (runIndicator (mkTop (.bbands ((2 : Nat) : Int) "close" : Kind ℚ) "BB_3" 4)
        { tf := some 120, fill := true, ha := true } [] (haStamped.map fun c => [c])) = .ok snap ∧
      EveryCandle (BbCandle 2 4 "BB_3" (·.c))
        (haSpec (fillSpec 120 ([] ++ (haStamped.map fun c => [c]).flatten))) snap) ∧
    (∃ snap : List (Candle ℚ),
      candlesOf (runIndicator (mkTop (.kc ((2 : Nat) : Int) "close" (fl 2) : Kind ℚ) "KC_2" 4)
        { tf := some 120, fill := true, ha := true } (haStamped.take 2) [haStamped.drop 2]) = .ok snap ∧
      KcSeriesOK 2 4 (fl 2) "KC_2" (·.c) (haSpec (fillSpec 120 (haStamped.take 2 ++ [haStamped.drop 2].flatten))) snap) ∧
    (∃ snap : List (Candle ℚ),
      candlesOf (runIndicator (mkTop (.supertrend ((2 : Nat) : Int) "close" (.int 3) : Kind ℚ) "ST_2" 4)
        { tf := some 120 } (haStamped.take 2) [haStamped.drop 2]) = .ok snap ∧
      snap.length = (resample 120 (haStamped.take 2 ++ [haStamped.drop 2].flatten)).length ∧
      ∀ j, j < (resample 120 (haStamped.take 2 ++ [haStamped.drop 2].flatten)).length →
        StCandleOK 2 4 (Num.int 3 : Num ℚ).toF "ST_2" (resample 120 (haStamped.take 2 ++ [haStamped.drop 2].flatten))
          j (snap.getD j default)) ∧
    (∃ snap : List (Candle ℚ),
      candlesOf (runIndicator (mkTop (.stdevthres ((2 : Nat) : Int) "close" (fl 1) : Kind ℚ) "STDEVTHRES_3" 4)
        { tf := some 120, fill := true, ha := true } [] (haStamped.map fun c => [c])) = .ok snap ∧
      EveryCandle (ThCandle 2 "STDEVTHRES_3" (fl 1 : Num ℚ).toF (·.c))
        (haSpec (fillSpec 120 ([] ++ (haStamped.map fun c => [c]).flatten))) snap) :=
  ⟨bbands_series_fillHA (K := ℚ) 120 (by decide) 2 (by norm_num) "BB_3" "close" (·.c) 4 (by decide) bbNames_demo
      ⟨noDot_close, by decide⟩ (fun _ => rfl) [] _ haStamped_ok,
   kc_series_fillHA (K := ℚ) 120 (by decide) 2 (by norm_num) "KC_2" "close" (·.c) 4 (fl 2) (by decide) kcNames_demo
      ⟨noDot_close, by decide⟩ (fun _ => rfl) _ _ (by simpa [RawTfHA] using haStamped_ok),
   supertrend_series_tf (K := ℚ) 120 (by decide) 2 (by norm_num) "ST_2" "close" (.int 3) 4 stNames_demo (by decide)
      _ _ (by simpa using haStamped_ok.1),
   thres_series_fillHA (K := ℚ) 120 (by decide) 2 (by norm_num) "STDEVTHRES_3" "close" (·.c) (fl 1) 4 (by decide)
      thresNames_demo ⟨noDot_close, by decide⟩ (fun _ => rfl) [] _ haStamped_ok⟩

/-- Donchian(3) on the two-minute timeframe: on the last bucket `DCL` / `DCU` are within `ε₄` of the lowest low /
highest high of the last three COLLAPSED candles -/
example : ∃ snap : List (Candle ℚ),
    candlesOf (runIndicator (mkTop (.donchian ((3 : Nat) : Int) : Kind ℚ) "DONCHIAN_3" 4) { tf := some 120 }
      haStamped []) = .ok snap ∧
    NumNear 4 (winMin (fun k => (numAt (·.l) (resample 120 haStamped) k).toF) 3 (3 - 1))
      ((readingByCandle (snap.getD 3 default) "DONCHIAN_3").nested "DCL") ∧
    NumNear 4 (winMax (fun k => (numAt (·.h) (resample 120 haStamped) k).toF) 3 (3 - 1))
      ((readingByCandle (snap.getD 3 default) "DONCHIAN_3").nested "DCU") := by
  obtain ⟨snap, h1, h2, h3⟩ := donchian_series_tf (K := ℚ) 120 (by decide) 3 (by norm_num) "DONCHIAN_3" 4
    dcNames_demo haStamped [] (by simpa using haStamped_ok.1)
  have e : haStamped ++ ([] : List (List (Candle ℚ))).flatten = haStamped := by simp
  rw [e] at h2 h3
  have hlen : (resample 120 haStamped).length = 4 := by decide +kernel
  rw [hlen] at h3
  obtain ⟨n1, n2, _⟩ := dcOK_near 3 4 _ _ 3 _ (h3 3 (by decide)).2 (by decide)
  exact ⟨snap, h1, n1, n2⟩

end Numeric

/-! ### non-vacuity over the toy carrier `Int` (`decide +kernel`): the runs themselves -/
section IntDemo
open Numeric

/-- the theorem applied over `Int` (Counter is generic in the carrier) … -/
example : ∃ snap, candlesOf (runIndicator (mkTop (.counter "close" (.num (.int 30))) "COUNT_close" 4 : Ind Int)
      { tf := some 120 } (haIntStream.take 1) [haIntStream.drop 1 |>.take 2, [], haIntStream.drop 3]) = .ok snap ∧
    snap.length = (resample 120 (haIntStream.take 1 ++
      [haIntStream.drop 1 |>.take 2, [], haIntStream.drop 3].flatten)).length ∧
    ∀ j, j < (resample 120 (haIntStream.take 1 ++
        [haIntStream.drop 1 |>.take 2, [], haIntStream.drop 3].flatten)).length →
      (snap.getD j default).bare = ((resample 120 (haIntStream.take 1 ++
        [haIntStream.drop 1 |>.take 2, [], haIntStream.drop 3].flatten)).getD j default).bare ∧
      readingByCandle (snap.getD j default) "COUNT_close" = .int ((runLen (.num (.int 30))
        (fun i => (.num ((resample 120 (haIntStream.take 1 ++
          [haIntStream.drop 1 |>.take 2, [], haIntStream.drop 3].flatten)).getD i default).c : Val Int)) j : Nat) : Int) :=
  counter_series_tf (F := Int) 120 (by decide) "COUNT_close" "close" (·.c) (.num (.int 30)) 4 (by decide)
    ⟨by decide, by decide⟩ (fun _ => rfl) _ _ ⟨by decide, by decide, by decide, by decide⟩

/-- … and the run itself: collapsed closes 30 30 120 60, run lengths of `close = 30`: 1 2 0 0 -/
example : ((candlesOf (runIndicator (mkTop (.counter "close" (.num (.int 30))) "COUNT_close" 4 : Ind Int)
      { tf := some 120 } (haIntStream.take 1) [haIntStream.drop 1 |>.take 2, [], haIntStream.drop 3])).toOption.map
      (·.map fun c => (c.ts, match readingByCandle c "COUNT_close" with | .s (.num (.int k)) => some k | _ => none)))
    = some [(some 120, some 1), (some 240, some 2), (some 480, some 0), (some 600, some 0)] := by decide +kernel

/-- ATR(2), Donchian(2) and Supertrend(2, ×2) over `Int` on the two-minute timeframe: the runs return one candle per
bucket, warm-up counted in COLLAPSED candles -/
example : ((candlesOf (runIndicator (mkTop (.atr 2) "ATR_2" 4 : Ind Int) { tf := some 120 }
      (haIntStream.take 1) [haIntStream.drop 1 |>.take 2, [], haIntStream.drop 3])).toOption.map
      (·.map fun c => ((readingByCandle c "ATR_2_TR").isNone, (readingByCandle c "ATR_2").isNone)))
    = some [(true, true), (false, true), (false, false), (false, false)] := by decide +kernel

example : ((candlesOf (runIndicator (mkTop (.donchian 2) "DONCHIAN_2" 4 : Ind Int) { tf := some 120, fill := true }
      [] (haIntStream.map fun c => [c]))).toOption.map
      (·.map fun c => (c.ts, ((readingByCandle c "DONCHIAN_2").nested "DCU").isNone)))
    = some [(some 120, true), (some 240, false), (some 360, false), (some 480, false), (some 600, false)] := by
  decide +kernel

example : ((candlesOf (runIndicator (mkTop (.supertrend 2 "close" (.int 2)) "ST_2" 4 : Ind Int)
      { tf := some 120, fill := true, ha := true } [] (haIntStream.map fun c => [c]))).toOption.map
      (·.map fun c => ((readingByCandle c "ST_2").nested "trend").isNone))
    = some [true, true, false, false, false] := by decide +kernel

end IntDemo
end Hex

#print axioms Hex.Numeric.hla_series_on_manager
#print axioms Hex.Numeric.hla_series_tf
#print axioms Hex.Numeric.hla_series_fillHA
#print axioms Hex.Numeric.tr_series_on_manager
#print axioms Hex.Numeric.tr_series_tf
#print axioms Hex.Numeric.tr_series_fillHA
#print axioms Hex.Numeric.atr_series_on_manager
#print axioms Hex.Numeric.atr_series_on_manager_of_engine
#print axioms Hex.Numeric.atr_series_tf
#print axioms Hex.Numeric.atr_series_fillHA
#print axioms Hex.Numeric.stdev_series_on_manager
#print axioms Hex.Numeric.stdev_series_tf
#print axioms Hex.Numeric.stdev_series_fillHA
#print axioms Hex.Numeric.bbands_series_on_manager
#print axioms Hex.Numeric.bbands_series_tf
#print axioms Hex.Numeric.bbands_series_fillHA
#print axioms Hex.Numeric.kc_series_on_manager
#print axioms Hex.Numeric.kc_series_tf
#print axioms Hex.Numeric.kc_series_fillHA
#print axioms Hex.Numeric.donchian_series_on_manager
#print axioms Hex.Numeric.donchian_series_tf
#print axioms Hex.Numeric.donchian_series_fillHA
#print axioms Hex.Numeric.hl_series_on_manager
#print axioms Hex.Numeric.hl_series_tf
#print axioms Hex.Numeric.hl_series_fillHA
#print axioms Hex.Numeric.supertrend_series_on_manager
#print axioms Hex.Numeric.supertrend_series_tf
#print axioms Hex.Numeric.supertrend_series_fillHA
#print axioms Hex.Numeric.thres_series_on_manager
#print axioms Hex.Numeric.thres_series_tf
#print axioms Hex.Numeric.thres_series_fillHA
#print axioms Hex.Numeric.counter_series_on_manager
#print axioms Hex.Numeric.counter_series_tf
#print axioms Hex.Numeric.counter_series_fillHA

import HexProofs.Numeric.CtxLemmas
/-!
# Moving averages: EMA, RMA, SMA, WMA, VWMA, ATR – recurrences, seeds, window formulas, convexity
-/
set_option linter.unusedSectionVars false
set_option linter.unusedSimpArgs false
namespace Hex
variable {K : Type} [Field K] [LinearOrder K] [IsStrictOrderedRing K] [LawfulPyF K]
namespace Numeric

/-- a convex combination lies between its arguments -/
theorem convex_between (a p c : K) (h0 : 0 ≤ a) (h1 : a ≤ 1) :
    min p c ≤ a * c + (1 - a) * p ∧ a * c + (1 - a) * p ≤ max p c := by
  have hm1 : min p c ≤ p := min_le_left _ _
  have hm2 : min p c ≤ c := min_le_right _ _
  have hM1 : p ≤ max p c := le_max_left _ _
  have hM2 : c ≤ max p c := le_max_right _ _
  have h1a : 0 ≤ 1 - a := by linarith
  constructor
  · have := mul_le_mul_of_nonneg_left hm2 h0
    have := mul_le_mul_of_nonneg_left hm1 h1a
    nlinarith
  · have := mul_le_mul_of_nonneg_left hM2 h0
    have := mul_le_mul_of_nonneg_left hM1 h1a
    nlinarith

/-! ## EMA -/

/-- EMA recurrence `r[t] = a*x[t] + (1-a)*r[t-1]`, `a = smoothing/(period+1)` -/
theorem ema_rec (x : Ctx K) (period : Int) (input : String) (s prev cur : Num K)
    (hprev : x.prevReading x.name = .ok (.num prev))
    (hc : x.reading input = .ok (.num cur)) (hp : (period : K) + 1 ≠ 0) :
    Calc.ema x period input s =
      .ok (.flt (s.toF / (period + 1) * cur.toF + prev.toF * (1 - s.toF / (period + 1)))) := by
  have hd : ((Num.int period).add (fl 1) : Num K).toF ≠ 0 := by simpa using hp
  simp [Calc.ema, Ctx.prevExists_of hprev, Ctx.prevNum_of hprev, Ctx.num_of hc, Num.truediv_ok _ _ hd,
    Num.float]

/-- EMA seed: the mean of the `candles_sum` window -/
theorem ema_seed (x : Ctx K) (period : Int) (input : String) (s sum : Num K)
    (hprev : x.prevReading x.name = .ok .none)
    (hrp : x.readingPeriod period input = true)
    (hs : x.candlesSum period input = .ok (.num sum)) (hp : (period : K) ≠ 0) :
    Calc.ema x period input s = .ok (.flt (sum.toF / period)) := by
  have hd : (Num.int period : Num K).toF ≠ 0 := by simpa using hp
  simp [Calc.ema, Ctx.prevExists_of hprev, hrp, hs, Num.truediv_ok _ _ hd, Num.float]

theorem ema_none (x : Ctx K) (period : Int) (input : String) (s : Num K)
    (hprev : x.prevReading x.name = .ok .none)
    (hrp : x.readingPeriod period input = false) :
    Calc.ema x period input s = .ok .none := by
  simp [Calc.ema, Ctx.prevExists_of hprev, hrp]

/-! ## RMA -/

/-- RMA recurrence `r[t] = a*x[t] + (1-a)*r[t-1]`, `a = 1/period` -/
theorem rma_rec (x : Ctx K) (period : Int) (input : String) (prev cur : Num K)
    (hprev : x.prevReading x.name = .ok (.num prev))
    (hc : x.reading input = .ok (.num cur)) (hp : (period : K) ≠ 0) :
    Calc.rma x period input =
      .ok (.flt (1 / (period : K) * cur.toF + (1 - 1 / (period : K)) * prev.toF)) := by
  have hd : (Num.int period : Num K).toF ≠ 0 := by simpa using hp
  simp [Calc.rma, Ctx.prevExists_of hprev, Ctx.prevNum_of hprev, Ctx.num_of hc, Num.truediv_ok _ _ hd,
    Num.float]

/-! ## SMA -/

/-- SMA running update: `prev - (old - cur)/period` -/
theorem sma_rec (x : Ctx K) (period : Int) (input : String) (prev old cur : Num K)
    (hprev : x.prevReading x.name = .ok (.num prev))
    (ho : x.reading input (some (x.i - period)) = .ok (.num old))
    (hc : x.reading input = .ok (.num cur)) (hp : (period : K) ≠ 0) :
    IsNum (Calc.sma x period input) (prev.toF - (old.toF - cur.toF) / period) := by
  have hd : (Num.int period : Num K).toF ≠ 0 := by simpa using hp
  refine ⟨prev.sub (.flt ((old.toF - cur.toF) / period)), ?_, by simp⟩
  simp [Calc.sma, Ctx.prevExists_of hprev, Ctx.prevNum_of hprev, Ctx.num_of ho, Ctx.num_of hc,
    Num.truediv_ok _ _ hd]

theorem sma_seed (x : Ctx K) (period : Int) (input : String) (sum : Num K)
    (hprev : x.prevReading x.name = .ok .none)
    (hrp : x.readingPeriod period input = true)
    (hs : x.candlesSum period input = .ok (.num sum)) (hp : (period : K) ≠ 0) :
    Calc.sma x period input = .ok (.flt (sum.toF / period)) := by
  have hd : (Num.int period : Num K).toF ≠ 0 := by simpa using hp
  simp [Calc.sma, Ctx.prevExists_of hprev, hrp, hs, Num.truediv_ok _ _ hd]

theorem sma_none (x : Ctx K) (period : Int) (input : String)
    (hprev : x.prevReading x.name = .ok .none)
    (hrp : x.readingPeriod period input = false) :
    Calc.sma x period input = .ok .none := by
  simp [Calc.sma, Ctx.prevExists_of hprev, hrp]

/-- the running update keeps the window mean: if `prev` is the mean of `old :: w` then the new
value is the mean of `w ++ [cur]` -/
theorem sma_step_window (p prev old cur w : K) (hp : p ≠ 0) (h : prev = (old + w) / p) :
    prev - (old - cur) / p = (w + cur) / p := by
  rw [h]; field_simp; ring

/-! ## ATR -/

theorem atr_rec (x : Ctx K) (period : Int) (trName : String) (prev t : Num K)
    (hprev : x.prevReading x.name = .ok (.num prev))
    (ht : x.reading trName = .ok (.num t)) (hp : (period : K) ≠ 0) :
    Calc.atr x period trName = .ok (.flt ((prev.toF * (period - 1) + t.toF) / period)) := by
  have hd : (Num.int period : Num K).toF ≠ 0 := by simpa using hp
  simp [Calc.atr, Ctx.prevExists_of hprev, Ctx.prevNum_of hprev, Ctx.num_of ht, Num.truediv_ok _ _ hd]

theorem atr_seed (x : Ctx K) (period : Int) (trName : String) (sum : Num K)
    (hprev : x.prevReading x.name = .ok .none)
    (hrp : x.readingPeriod period trName = true)
    (hs : x.candlesSum period trName = .ok (.num sum)) (hp : (period : K) ≠ 0) :
    Calc.atr x period trName = .ok (.flt (sum.toF / period)) := by
  have hd : (Num.int period : Num K).toF ≠ 0 := by simpa using hp
  simp [Calc.atr, Ctx.prevExists_of hprev, hrp, hs, Num.truediv_ok _ _ hd]

/-- ATR's recurrence is Wilder smoothing: `(prev*(p-1) + t)/p = (1/p)*t + (1-1/p)*prev` -/
theorem atr_is_wilder (p prev t : K) (hp : p ≠ 0) :
    (prev * (p - 1) + t) / p = 1 / p * t + (1 - 1 / p) * prev := by
  field_simp; ring

end Numeric
end Hex

import HexProofs.Numeric.TotalMoreLifeTrees
import HexProofs.Manager2.TwinTreesHA
/-!
# Totality on managers with a lifespan TOGETHER with a re-collapsing / converting manager (property C09, item (d))

`tree_never_raises_lifespan` (TotalMoreLifeTrees.lean) is about `{candles_lifespan}` next to the base manager.  Here
the same for every manager that fits the interface `TwinMgr` (HexProofs/Manager2/TwinTreesTfCore.lean): collapsing
timeframe, timeframe + gap filling, Heikin-Ashi conversion, timeframe + Heikin-Ashi – each WITH a lifespan, next to the
same manager without it.

* `twin_appends_mgr_total` – the schedule induction of `twin_appends_mgr`, but from the UNTRIMMED run returning it
  concludes that the TRIMMED run returns (with the untrimmed candles minus the popped ones): popping old candles
  commutes with `calculate()` as an EQUATION in `PyM` (`engineCalc_drop`), the trimmed manager's tasks succeed by the
  drop law of `TwinMgr.append`, the trim by the retention hypothesis `RetainsClosed`.
* `never_raises_lifespan_mgr` – the whole schedule (construction, `calculate()`, appends) for every `TwinMgr` and every
  tree with `TwinOK ind L`, `Shallow ind` that never raises on the lifespan-free manager.
* `covered_never_raises_lifespan_mgr` (any `TwinMgr`), `…_tf`, `…_fill`, `…_ha`, `…_tf_ha` – every shipped class
  (`CoveredTreeX`), with the user-facing configurations and the retention hypotheses of C15
  (`RetainsBuckets` / `RetainsFilled` / `RetainsFrom`).
* `LifeTotalMgr`, `lifeTotalMgr_of`, and (TotalLifeMgrKinds.lean) the per-kind instances in the exact field.

Without the retention hypothesis the statement is FALSE on these managers as well (`sma_raises_after_trim_tf`,
`covered_never_raises_lifespan_tf_needs_retention`, at the end; replayed on the library).
-/
set_option linter.unusedSectionVars false
set_option linter.unusedVariables false
set_option linter.unusedSimpArgs false
namespace Hex
open Hex.Numeric
variable {F : Type} [PyF F]

/-- **The trimmed tree follows its untrimmed twin through every append – and RETURNS when the twin does**, on a
re-collapsing / converting manager.  `b`: the candles of the untrimmed twin (the spec of the raw stream `s`, dressed with
readings); the trimmed indicator holds `b.drop d`. -/
theorem twin_appends_mgr_total (M : TwinMgr F) (ind : Ind F) {L : Nat} (T : TwinOK ind L) (hs : Shallow ind)
    (life : Int) (chunks : List (List (Candle F))) :
    ∀ (s b : List (Candle F)) (d : Nat) (actA actB : Int), Dressed (M.spec s) b →
      CalcFull ind b → (d = 0 ∨ d + L ≤ b.length) → M.Ok (s ++ chunks.flatten) →
      RetainsClosed M.spec M.closed L life s d chunks →
      ∀ bb, candlesOf (chunks.foldlM (fun (st : IndState F) ch => st.append ch)
              { tree := ind, mgr := { cfg := M.cfg, candles := b }, active := actA }) = .ok bb →
        ∃ d', candlesOf (chunks.foldlM (fun (st : IndState F) ch => st.append ch)
              { tree := ind, mgr := { cfg := M.cfg.withLife life, candles := b.drop d }, active := actB })
            = .ok (bb.drop d') := by
  induction chunks with
  | nil =>
    intro s b d actA actB _ _ _ _ _ bb hb
    simp only [List.foldlM_nil, candlesOf, pure, Except.pure, Except.map] at hb ⊢
    cases hb
    exact ⟨d, rfl⟩
  | cons ch rest ih =>
    intro s b d actA actB hdr hfull hkeep hok hret bb hb
    have hok' : M.Ok ((s ++ ch) ++ rest.flatten) := by simpa [List.append_assoc] using hok
    have hsch : M.Ok (s ++ ch) := M.ok_left _ _ hok'
    have hlen : (M.spec s).length = b.length := hdr.length_eq
    obtain ⟨stA, hstA, hcA⟩ := candlesOf_ok hb
    rw [List.foldlM_cons] at hstA
    obtain ⟨sA1, hA1, hstA⟩ := Writes.bind_ok hstA
    -- what both managers do with the chunk
    have key : ∃ (b0 Q : List (Candle F)) (d' : Nat), CalcFull ind b0 ∧ (∀ c ∈ Q, Plain c) ∧
        Dressed (M.spec (s ++ ch)) (b0 ++ Q) ∧ (d' = 0 ∨ d' + L ≤ b0.length) ∧
        RetainsClosed M.spec M.closed L life (s ++ ch) d' rest ∧
        IndState.append ({ tree := ind, mgr := { cfg := M.cfg, candles := b }, active := actA } : IndState F) ch
          = IndState.calculate { tree := ind, mgr := { cfg := M.cfg, candles := b0 ++ Q }, active := actA } ∧
        IndState.append ({ tree := ind, mgr := { cfg := M.cfg.withLife life, candles := b.drop d }, active := actB } : IndState F) ch
          = IndState.calculate { tree := ind, mgr := { cfg := M.cfg.withLife life, candles := (b0 ++ Q).drop d' },
                                 active := actB } := by
      rcases hret with ⟨hce, hret⟩ | ⟨hne, m', htrim, hcount, hret⟩
      · subst hce
        refine ⟨b, [], d, hfull, by simp, by simpa using hdr, hkeep, by simpa using hret, ?_, ?_⟩
        · simp [IndState.append, Manager.append, bind, Except.bind]
        · simp [IndState.append, Manager.append, bind, Except.bind]
      · obtain ⟨Q, hQ, hkc, hgrow, htasks, hspec, hdrop⟩ := M.append s ch b hsch hne hdr
        have hempty : ch.isEmpty = false := by cases ch <;> simp at hne ⊢
        -- lengths
        have hYlen : (M.spec (s ++ ch)).length = M.closed s ch + Q.length := by
          rw [hspec, List.length_append, List.length_take, hlen]; omega
        have hXlen : (b.take (M.closed s ch) ++ Q).length = M.closed s ch + Q.length := by
          rw [List.length_append, List.length_take]; omega
        have hdX : Dressed (M.spec (s ++ ch)) (b.take (M.closed s ch) ++ Q) := by
          rw [hspec]; exact (hdr.take _).append (Dressed.rfl' Q)
        have hts : ((b.take (M.closed s ch) ++ Q).drop d).map (·.ts)
            = ((M.spec (s ++ ch)).drop d).map (·.ts) := by
          rw [List.map_drop, List.map_drop, hdX.ts_eq]
        obtain ⟨hm', hm'len, htrimB⟩ := trim_congr_ts life _ _ m' hts htrim
        rw [List.length_drop] at hm'len htrimB
        -- the old pop count is within the closed prefix
        have hdle : d ≤ M.closed s ch ∧ (d = 0 ∨ d + 1 ≤ M.closed s ch) := by
          rcases hkeep with h0 | hk
          · subst h0; exact ⟨Nat.zero_le _, Or.inl rfl⟩
          · have hL := T.hL
            rcases hcount with hc | hc
            · have : d ≤ (M.spec (s ++ ch)).length - m'.length := by omega
              have hd0 : d = 0 := by omega
              subst hd0; exact ⟨Nat.zero_le _, Or.inl rfl⟩
            · have : d ≤ (M.spec (s ++ ch)).length - m'.length := by omega
              exact ⟨by omega, Or.inr (by omega)⟩
        have hd'eq : d + ((M.spec (s ++ ch)).length - d - m'.length) = (M.spec (s ++ ch)).length - m'.length := by
          omega
        -- the trimmed manager's tasks
        have htasksB : tasks M.cfg (b.drop d ++ ch) = .ok ((b.take (M.closed s ch) ++ Q).drop d) := by
          rcases hdle.2 with h0 | h1
          · subst h0; simpa using htasks
          · exact hdrop d h1
        refine ⟨b.take (M.closed s ch), Q, (M.spec (s ++ ch)).length - m'.length,
          fun n hn => (hfull n hn).take _, hQ, hdX, ?_, hret, ?_, ?_⟩
        · rw [List.length_take, Nat.min_eq_left hkc]; exact hcount
        · simp only [IndState.append, Manager.append, hempty, Bool.false_eq_true, if_false, htasks, bind,
            Except.bind]
          rfl
        · simp only [IndState.append, Manager.append, hempty, Bool.false_eq_true, if_false,
            tasks_withLife M.cfg M.nolife, htasksB, htrimB, bind, Except.bind, List.drop_drop, hd'eq]
          rfl
    obtain ⟨b0, Q, d', hfull0, hQ, hdX, hkeep', hret', hA, hB⟩ := key
    rw [hA] at hA1
    obtain ⟨b1, actA1, rfl, heA⟩ := IndState.calculate_shape ind _ (b0 ++ Q) actA sA1 hA1
    have hfull1 : CalcFull ind b1 := engine_full ind T b0 Q b1 hfull0 hQ heA
    obtain ⟨hl1, _⟩ := engine_frame ind (b0 ++ Q) b1 heA
    -- the engine on the popped list returns the untrimmed result minus the popped candles
    have heB : engineCalc ind ((b0 ++ Q).drop d') = .ok (b1.drop d') := by
      rcases hkeep' with h0 | hk
      · subst h0; simpa using heA
      · rw [engineCalc_drop ind T hs b0 Q d' hfull0 hQ hk, heA]; rfl
    obtain ⟨actB1, hcB⟩ := IndState.calculate_of_engine' ind (M.cfg.withLife life) _ _ actB heB
    obtain ⟨d'', hd''⟩ := ih (s ++ ch) b1 d' actA1 actB1 (engine_dressed ind _ _ b1 hdX heA) hfull1
      (by rcases hkeep' with h | h
          · exact Or.inl h
          · right; rw [hl1, List.length_append]; omega)
      hok' hret' bb
      (by unfold candlesOf; rw [hstA]; simp [Except.map, hcA])
    refine ⟨d'', ?_⟩
    rw [List.foldlM_cons, hB, hcB]
    exact hd''

/-- **Whenever the untrimmed twin returns, the lifespan run returns** (pointwise form: one stream, one schedule), on
a re-collapsing / converting manager that retains the tree's look-back `L` (`TwinOK ind L`) in CLOSED candles of the
manager's own list at every append that pops and pops nothing at construction – with the twin's candles minus the popped
ones. -/
theorem lifespan_follows_twin_mgr (M : TwinMgr F) (ind : Ind F) {L : Nat} (T : TwinOK ind L) (hs : Shallow ind)
    (life : Int) (init : List (Candle F)) (chunks : List (List (Candle F)))
    (hok : M.Ok (init ++ chunks.flatten))
    (hinit : trimCandles (some life) (M.spec init) = .ok (M.spec init))
    (hret : RetainsClosed M.spec M.closed L life init 0 chunks) (snap : List (Candle F))
    (hsnap : candlesOf (runIndicator ind M.cfg init chunks) = .ok snap) :
    ∃ d, candlesOf (runIndicator ind (M.cfg.withLife life) init chunks) = .ok (snap.drop d) := by
  have hoki : M.Ok init := M.ok_left _ _ hok
  have hb := hsnap
  unfold runIndicator IndState.init Manager.init at hb ⊢
  rw [tasks_withLife M.cfg M.nolife, M.init init hoki]
  rw [M.init init hoki] at hb
  simp only [bind, Except.bind, pure, Except.pure, hinit] at hb ⊢
  cases hcA : IndState.calculate ({ tree := ind, mgr := { cfg := M.cfg, candles := M.spec init } } : IndState F) with
  | error e => rw [hcA] at hb; cases hb
  | ok sA =>
    rw [hcA] at hb
    simp only at hb
    obtain ⟨b0, actA, rfl, heA⟩ := IndState.calculate_shape ind _ (M.spec init) 0 sA hcA
    obtain ⟨actB, hcB⟩ := IndState.calculate_of_engine' ind (M.cfg.withLife life) (M.spec init) b0 0 heA
    rw [hcB]
    simp only
    have hpl := M.spec_plain init hoki
    have hfull0 : CalcFull ind b0 :=
      engine_full ind T [] (M.spec init) b0 (fun n _ c hc => by cases hc) hpl (by simpa using heA)
    obtain ⟨d, hd⟩ := twin_appends_mgr_total M ind T hs life chunks init b0 0 actA actB
      (engine_dressed ind _ _ b0 (Dressed.rfl' _) heA) hfull0 (Or.inl rfl) hok hret snap hb
    exact ⟨d, by simpa using hd⟩

/-- **A tree that never raises on a re-collapsing / converting manager never raises on the same manager with a
lifespan that retains its look-back** (`L`: `TwinOK ind L`; nothing popped at construction, `L` CLOSED candles of the
manager's own list retained at every append that pops, `RetainsClosed`): every history returns, with the candles of the
untrimmed history minus the popped ones. -/
theorem never_raises_lifespan_mgr (M : TwinMgr F) (ind : Ind F) {L : Nat} (T : TwinOK ind L) (hs : Shallow ind)
    (hbase : ∀ (init : List (Candle F)) (chunks : List (List (Candle F))), M.Ok (init ++ chunks.flatten) →
      ∃ snap, candlesOf (runIndicator ind M.cfg init chunks) = .ok snap)
    (life : Int) (init : List (Candle F)) (chunks : List (List (Candle F)))
    (hok : M.Ok (init ++ chunks.flatten))
    (hinit : trimCandles (some life) (M.spec init) = .ok (M.spec init))
    (hret : RetainsClosed M.spec M.closed L life init 0 chunks) :
    ∃ snap d, candlesOf (runIndicator ind (M.cfg.withLife life) init chunks) = .ok (snap.drop d) ∧
      candlesOf (runIndicator ind M.cfg init chunks) = .ok snap := by
  obtain ⟨snap, hsnap⟩ := hbase init chunks hok
  obtain ⟨d, hd⟩ := lifespan_follows_twin_mgr M ind T hs life init chunks hok hinit hret snap hsnap
  exact ⟨snap, d, hd, hsnap⟩

/-! ### every shipped class -/

/-- the pointwise form for every shipped class (`CoveredTreeX`) on any `TwinMgr`: if the untrimmed twin returns on THIS
stream and schedule, so does the lifespan run -/
theorem covered_lifespan_follows_twin_mgr (M : TwinMgr F) (k : Kind F) (nm : String) (n : Nat)
    (hc : CoveredTreeX nm k) (life : Int) (init : List (Candle F)) (chunks : List (List (Candle F)))
    (hok : M.Ok (init ++ chunks.flatten))
    (hinit : trimCandles (some life) (M.spec init) = .ok (M.spec init))
    (hret : RetainsClosed M.spec M.closed (treeLook k nm n) life init 0 chunks) (snap : List (Candle F))
    (hsnap : candlesOf (runIndicator (mkTop k nm n) M.cfg init chunks) = .ok snap) :
    ∃ d, candlesOf (runIndicator (mkTop k nm n) (M.cfg.withLife life) init chunks) = .ok (snap.drop d) :=
  lifespan_follows_twin_mgr M (mkTop k nm n) (hc.twinOK n) (shallow_mkTop k nm n) life init chunks hok hinit hret snap
    hsnap

/-- **… for every shipped class** (`CoveredTreeX`) **on any `TwinMgr`**, with the look-back `treeLook k nm n` of C15 -/
theorem covered_never_raises_lifespan_mgr (M : TwinMgr F) (k : Kind F) (nm : String) (n : Nat)
    (hc : CoveredTreeX nm k)
    (hbase : ∀ (init : List (Candle F)) (chunks : List (List (Candle F))), M.Ok (init ++ chunks.flatten) →
      ∃ snap, candlesOf (runIndicator (mkTop k nm n) M.cfg init chunks) = .ok snap)
    (life : Int) (init : List (Candle F)) (chunks : List (List (Candle F)))
    (hok : M.Ok (init ++ chunks.flatten))
    (hinit : trimCandles (some life) (M.spec init) = .ok (M.spec init))
    (hret : RetainsClosed M.spec M.closed (treeLook k nm n) life init 0 chunks) :
    ∃ snap d, candlesOf (runIndicator (mkTop k nm n) (M.cfg.withLife life) init chunks) = .ok (snap.drop d) ∧
      candlesOf (runIndicator (mkTop k nm n) M.cfg init chunks) = .ok snap :=
  never_raises_lifespan_mgr M (mkTop k nm n) (hc.twinOK n) (shallow_mkTop k nm n) hbase life init chunks hok hinit hret

/-- **collapsing timeframe + lifespan**: `{timeframe, candles_lifespan}` next to `{timeframe}`; raw streams (`RawTf`),
nothing popped at construction, `treeLook` CLOSED buckets retained at every popping append (`RetainsBuckets`) -/
theorem covered_never_raises_lifespan_tf (k : Kind F) (nm : String) (n : Nat) (hc : CoveredTreeX nm k)
    (tf : Int) (htf : 0 < tf) (hbase : NeverRaises (MgrSpec.tf F tf htf) (mkTop k nm n))
    (life : Int) (init : List (Candle F)) (chunks : List (List (Candle F)))
    (hraw : RawTf (init ++ chunks.flatten))
    (hinit : trimCandles (some life) (resample tf init) = .ok (resample tf init))
    (hret : RetainsBuckets (treeLook k nm n) tf life init 0 chunks) :
    ∃ snap d, candlesOf (runIndicator (mkTop k nm n) (cfgTfLife tf life) init chunks) = .ok (snap.drop d) ∧
      candlesOf (runIndicator (mkTop k nm n) (cfgTf tf) init chunks) = .ok snap :=
  covered_never_raises_lifespan_mgr (TwinMgr.tf F tf htf) k nm n hc hbase life init chunks hraw hinit hret

/-- **timeframe + gap filling + lifespan**: `{timeframe, timeframe_fill, candles_lifespan}` next to
`{timeframe, timeframe_fill}`; the retention hypothesis counts the filled bucket list (`RetainsFilled`) -/
theorem covered_never_raises_lifespan_fill (k : Kind F) (nm : String) (n : Nat) (hc : CoveredTreeX nm k)
    (tf : Int) (htf : 0 < tf) (hbase : NeverRaises (MgrSpec.fill F tf htf) (mkTop k nm n))
    (life : Int) (init : List (Candle F)) (chunks : List (List (Candle F)))
    (hraw : RawTf (init ++ chunks.flatten))
    (hinit : trimCandles (some life) (fillSpec tf init) = .ok (fillSpec tf init))
    (hret : RetainsFilled (treeLook k nm n) tf life init 0 chunks) :
    ∃ snap d, candlesOf (runIndicator (mkTop k nm n) (cfgFillLife tf life) init chunks) = .ok (snap.drop d) ∧
      candlesOf (runIndicator (mkTop k nm n) (cfgFill tf) init chunks) = .ok snap :=
  covered_never_raises_lifespan_mgr (TwinMgr.fill F tf htf) k nm n hc hbase life init chunks hraw hinit hret

/-- **Heikin-Ashi + lifespan**: `{candlestick = HA, candles_lifespan}` next to `{candlestick = HA}`; the retention
hypothesis is the one of the plain lifespan manager, on the RAW stamps (`RetainsFrom`) -/
theorem covered_never_raises_lifespan_ha (k : Kind F) (nm : String) (n : Nat) (hc : CoveredTreeX nm k)
    (hbase : NeverRaises (MgrSpec.ha F) (mkTop k nm n))
    (life : Int) (init : List (Candle F)) (chunks : List (List (Candle F)))
    (hraw : RawHAPlain (init ++ chunks.flatten)) (hinit : trimCandles (some life) init = .ok init)
    (hret : RetainsFrom (treeLook k nm n) life init init.length chunks) :
    ∃ snap d, candlesOf (runIndicator (mkTop k nm n) (cfgHALife life) init chunks) = .ok (snap.drop d) ∧
      candlesOf (runIndicator (mkTop k nm n) cfgHAOnly init chunks) = .ok snap :=
  covered_never_raises_lifespan_mgr (TwinMgr.ha F) k nm n hc hbase life init chunks hraw
    (trim_init_congr life init (haSpec init) (haSpec_rel _).ts_eq hinit)
    (retainsClosed_ha _ life chunks init 0 (Nat.zero_le _) (by simpa using hret))

/-- **timeframe + Heikin-Ashi + lifespan**: `{timeframe, HA, candles_lifespan}` next to `{timeframe, HA}`; the retention
hypothesis is the one of the unconverted timeframe manager (`RetainsBuckets`, on the unconverted buckets) -/
theorem covered_never_raises_lifespan_tf_ha (k : Kind F) (nm : String) (n : Nat) (hc : CoveredTreeX nm k)
    (tf : Int) (htf : 0 < tf) (hbase : NeverRaises (MgrSpec.tfHA F tf htf) (mkTop k nm n))
    (life : Int) (init : List (Candle F)) (chunks : List (List (Candle F)))
    (hraw : RawTfHA (init ++ chunks.flatten))
    (hinit : trimCandles (some life) (resample tf init) = .ok (resample tf init))
    (hret : RetainsBuckets (treeLook k nm n) tf life init 0 chunks) :
    ∃ snap d, candlesOf (runIndicator (mkTop k nm n) (cfgTfHALife tf life) init chunks) = .ok (snap.drop d) ∧
      candlesOf (runIndicator (mkTop k nm n) (cfgTfHA tf) init chunks) = .ok snap :=
  covered_never_raises_lifespan_mgr (TwinMgr.tfHA F tf htf) k nm n hc hbase life init chunks hraw
    (trim_init_congr life _ (haSpec (resample tf init)) (haSpec_rel _).ts_eq hinit)
    (retainsClosed_tfHA _ tf life init 0 chunks hret)

/-! ### the pointwise forms (this stream, this schedule: the twin returns ⇒ the lifespan run returns) -/

theorem covered_lifespan_follows_twin_tf (k : Kind F) (nm : String) (n : Nat) (hc : CoveredTreeX nm k)
    (tf : Int) (htf : 0 < tf) (life : Int) (init : List (Candle F)) (chunks : List (List (Candle F)))
    (hraw : RawTf (init ++ chunks.flatten))
    (hinit : trimCandles (some life) (resample tf init) = .ok (resample tf init))
    (hret : RetainsBuckets (treeLook k nm n) tf life init 0 chunks) (snap : List (Candle F))
    (hsnap : candlesOf (runIndicator (mkTop k nm n) (cfgTf tf) init chunks) = .ok snap) :
    ∃ d, candlesOf (runIndicator (mkTop k nm n) (cfgTfLife tf life) init chunks) = .ok (snap.drop d) :=
  covered_lifespan_follows_twin_mgr (TwinMgr.tf F tf htf) k nm n hc life init chunks hraw hinit hret snap hsnap

theorem covered_lifespan_follows_twin_fill (k : Kind F) (nm : String) (n : Nat) (hc : CoveredTreeX nm k)
    (tf : Int) (htf : 0 < tf) (life : Int) (init : List (Candle F)) (chunks : List (List (Candle F)))
    (hraw : RawTf (init ++ chunks.flatten))
    (hinit : trimCandles (some life) (fillSpec tf init) = .ok (fillSpec tf init))
    (hret : RetainsFilled (treeLook k nm n) tf life init 0 chunks) (snap : List (Candle F))
    (hsnap : candlesOf (runIndicator (mkTop k nm n) (cfgFill tf) init chunks) = .ok snap) :
    ∃ d, candlesOf (runIndicator (mkTop k nm n) (cfgFillLife tf life) init chunks) = .ok (snap.drop d) :=
  covered_lifespan_follows_twin_mgr (TwinMgr.fill F tf htf) k nm n hc life init chunks hraw hinit hret snap hsnap

theorem covered_lifespan_follows_twin_ha (k : Kind F) (nm : String) (n : Nat) (hc : CoveredTreeX nm k)
    (life : Int) (init : List (Candle F)) (chunks : List (List (Candle F)))
    (hraw : RawHAPlain (init ++ chunks.flatten)) (hinit : trimCandles (some life) init = .ok init)
    (hret : RetainsFrom (treeLook k nm n) life init init.length chunks) (snap : List (Candle F))
    (hsnap : candlesOf (runIndicator (mkTop k nm n) cfgHAOnly init chunks) = .ok snap) :
    ∃ d, candlesOf (runIndicator (mkTop k nm n) (cfgHALife life) init chunks) = .ok (snap.drop d) :=
  covered_lifespan_follows_twin_mgr (TwinMgr.ha F) k nm n hc life init chunks hraw
    (trim_init_congr life init (haSpec init) (haSpec_rel _).ts_eq hinit)
    (retainsClosed_ha _ life chunks init 0 (Nat.zero_le _) (by simpa using hret)) snap hsnap

theorem covered_lifespan_follows_twin_tf_ha (k : Kind F) (nm : String) (n : Nat) (hc : CoveredTreeX nm k)
    (tf : Int) (htf : 0 < tf) (life : Int) (init : List (Candle F)) (chunks : List (List (Candle F)))
    (hraw : RawTfHA (init ++ chunks.flatten))
    (hinit : trimCandles (some life) (resample tf init) = .ok (resample tf init))
    (hret : RetainsBuckets (treeLook k nm n) tf life init 0 chunks) (snap : List (Candle F))
    (hsnap : candlesOf (runIndicator (mkTop k nm n) (cfgTfHA tf) init chunks) = .ok snap) :
    ∃ d, candlesOf (runIndicator (mkTop k nm n) (cfgTfHALife tf life) init chunks) = .ok (snap.drop d) :=
  covered_lifespan_follows_twin_mgr (TwinMgr.tfHA F tf htf) k nm n hc life init chunks hraw
    (trim_init_congr life _ (haSpec (resample tf init)) (haSpec_rel _).ts_eq hinit)
    (retainsClosed_tfHA _ tf life init 0 chunks hret) snap hsnap

/-! ### the statement as a predicate, and from `NeverRaises` on the matching `MgrSpec` -/

/-- every history of `ind` on the manager `M` WITH a lifespan that pops nothing at construction and retains `L` closed
candles at every popping append returns – with the candles of the history on `M` itself minus the popped ones -/
def LifeTotalMgr (M : TwinMgr F) (ind : Ind F) (L : Nat) : Prop :=
  ∀ (life : Int) (init : List (Candle F)) (chunks : List (List (Candle F))),
    M.Ok (init ++ chunks.flatten) → trimCandles (some life) (M.spec init) = .ok (M.spec init) →
    RetainsClosed M.spec M.closed L life init 0 chunks →
    ∃ snap d, candlesOf (runIndicator ind (M.cfg.withLife life) init chunks) = .ok (snap.drop d) ∧
      candlesOf (runIndicator ind M.cfg init chunks) = .ok snap

/-- the `TwinMgr` (interface of the lifespan twin) and the `MgrSpec` (interface of the totality theorems) describe the
same manager: same configuration, and every stream the former accepts the latter accepts -/
structure TwinMgr.Matches (M : TwinMgr F) (MS : MgrSpec F) : Prop where
  cfg : MS.cfg = M.cfg
  ok : ∀ s, M.Ok s → MS.Ok s

theorem TwinMgr.matches_tf (tf : Int) (htf : 0 < tf) : (TwinMgr.tf F tf htf).Matches (MgrSpec.tf F tf htf) :=
  ⟨rfl, fun _ h => h⟩
theorem TwinMgr.matches_fill (tf : Int) (htf : 0 < tf) : (TwinMgr.fill F tf htf).Matches (MgrSpec.fill F tf htf) :=
  ⟨rfl, fun _ h => h⟩
theorem TwinMgr.matches_ha : (TwinMgr.ha F).Matches (MgrSpec.ha F) := ⟨rfl, fun _ h => h⟩
theorem TwinMgr.matches_tfHA (tf : Int) (htf : 0 < tf) : (TwinMgr.tfHA F tf htf).Matches (MgrSpec.tfHA F tf htf) :=
  ⟨rfl, fun _ h => h⟩

theorem TwinMgr.Matches.never {M : TwinMgr F} {MS : MgrSpec F} (h : M.Matches MS) {ind : Ind F}
    (hb : NeverRaises MS ind) (init : List (Candle F)) (chunks : List (List (Candle F)))
    (hok : M.Ok (init ++ chunks.flatten)) : ∃ snap, candlesOf (runIndicator ind M.cfg init chunks) = .ok snap := by
  rw [← h.cfg]; exact hb init chunks (h.ok _ hok)

theorem lifeTotalMgr_of {M : TwinMgr F} {MS : MgrSpec F} (hM : M.Matches MS) (k : Kind F) (nm : String) (n : Nat)
    (hc : CoveredTreeX nm k) (hbase : NeverRaises MS (mkTop k nm n)) :
    LifeTotalMgr M (mkTop k nm n) (treeLook k nm n) :=
  fun life init chunks hok hinit hret =>
    covered_never_raises_lifespan_mgr M k nm n hc (hM.never hbase) life init chunks hok hinit hret

/-! ### `LifeTotalMgr` in the user-facing vocabulary -/

theorem LifeTotalMgr.tf {tf : Int} {htf : 0 < tf} {ind : Ind F} {L : Nat} (h : LifeTotalMgr (TwinMgr.tf F tf htf) ind L)
    (life : Int) (init : List (Candle F)) (chunks : List (List (Candle F))) (hraw : RawTf (init ++ chunks.flatten))
    (hinit : trimCandles (some life) (resample tf init) = .ok (resample tf init))
    (hret : RetainsBuckets L tf life init 0 chunks) :
    ∃ snap d, candlesOf (runIndicator ind (cfgTfLife tf life) init chunks) = .ok (snap.drop d) ∧
      candlesOf (runIndicator ind (cfgTf tf) init chunks) = .ok snap := h life init chunks hraw hinit hret

theorem LifeTotalMgr.fill {tf : Int} {htf : 0 < tf} {ind : Ind F} {L : Nat}
    (h : LifeTotalMgr (TwinMgr.fill F tf htf) ind L)
    (life : Int) (init : List (Candle F)) (chunks : List (List (Candle F))) (hraw : RawTf (init ++ chunks.flatten))
    (hinit : trimCandles (some life) (fillSpec tf init) = .ok (fillSpec tf init))
    (hret : RetainsFilled L tf life init 0 chunks) :
    ∃ snap d, candlesOf (runIndicator ind (cfgFillLife tf life) init chunks) = .ok (snap.drop d) ∧
      candlesOf (runIndicator ind (cfgFill tf) init chunks) = .ok snap := h life init chunks hraw hinit hret

theorem LifeTotalMgr.ha {ind : Ind F} {L : Nat} (h : LifeTotalMgr (TwinMgr.ha F) ind L)
    (life : Int) (init : List (Candle F)) (chunks : List (List (Candle F)))
    (hraw : RawHAPlain (init ++ chunks.flatten)) (hinit : trimCandles (some life) init = .ok init)
    (hret : RetainsFrom L life init init.length chunks) :
    ∃ snap d, candlesOf (runIndicator ind (cfgHALife life) init chunks) = .ok (snap.drop d) ∧
      candlesOf (runIndicator ind cfgHAOnly init chunks) = .ok snap :=
  h life init chunks hraw (trim_init_congr life init (haSpec init) (haSpec_rel _).ts_eq hinit)
    (retainsClosed_ha L life chunks init 0 (Nat.zero_le _) (by simpa using hret))

theorem LifeTotalMgr.tfHA {tf : Int} {htf : 0 < tf} {ind : Ind F} {L : Nat}
    (h : LifeTotalMgr (TwinMgr.tfHA F tf htf) ind L)
    (life : Int) (init : List (Candle F)) (chunks : List (List (Candle F))) (hraw : RawTfHA (init ++ chunks.flatten))
    (hinit : trimCandles (some life) (resample tf init) = .ok (resample tf init))
    (hret : RetainsBuckets L tf life init 0 chunks) :
    ∃ snap d, candlesOf (runIndicator ind (cfgTfHALife tf life) init chunks) = .ok (snap.drop d) ∧
      candlesOf (runIndicator ind (cfgTfHA tf) init chunks) = .ok snap :=
  h life init chunks hraw (trim_init_congr life _ (haSpec (resample tf init)) (haSpec_rel _).ts_eq hinit)
    (retainsClosed_tfHA L tf life init 0 chunks hret)

/-! ### non-vacuity (toy carrier `Int`): the C15 demo schedules -/

theorem ok_of_isSome {α : Type} {r : PyM α} (h : r.toOption.isSome = true) : ∃ a, r = .ok a := by
  cases r with
  | ok a => exact ⟨a, rfl⟩
  | error e => cases h

section Demo
set_option synthInstance.maxSize 4000

/-! `{timeframe 120 s, lifespan 360 s}` next to `{timeframe 120 s}` – one-minute candles, three buckets popped over five
non-empty appends (one merge-only, two merge-and-open), two closed buckets retained (`tfDemo_retains`).
(1) the theorem applied with `hbase` as a hypothesis; (2) end-to-end with the pointwise form – the twin returns (kernel
evaluation), hence the lifespan run returns; (3) what the two runs hold (kernel evaluation, independent of the theorem):
the lifespan run returns, with the twin's candles `.drop 3`. -/

example (hbase : NeverRaises (MgrSpec.tf Int 120 (by decide)) (mkTop (.atr 3) "ATR_3" 4)) :
    ∃ snap d, runTtf (.atr 3) "ATR_3" = .ok (snap.drop d) ∧ runUtf (.atr 3) "ATR_3" = .ok snap :=
  covered_never_raises_lifespan_tf (.atr 3) "ATR_3" 4 atrDemoOK 120 (by decide) hbase 360 tfInit tfChunks tfDemo_raw
    tfDemo_init (by rw [atrDemo_look]; exact tfDemo_retains)
example : ∃ snap d, runTtf (.atr 3) "ATR_3" = .ok (snap.drop d) ∧ runUtf (.atr 3) "ATR_3" = .ok snap := by
  obtain ⟨snap, hs⟩ := ok_of_isSome (r := runUtf (.atr 3) "ATR_3") (by decide +kernel)
  obtain ⟨d, hd⟩ := covered_lifespan_follows_twin_tf (.atr 3) "ATR_3" 4 atrDemoOK 120 (by decide) 360 tfInit tfChunks
    tfDemo_raw tfDemo_init (by rw [atrDemo_look]; exact tfDemo_retains) snap hs
  exact ⟨snap, d, hd, hs⟩
example : (runTtf (.atr 3) "ATR_3").toOption.isSome = true ∧
    (runTtf (.atr 3) "ATR_3").toOption.map (·.map view)
      = (runUtf (.atr 3) "ATR_3").toOption.map (fun b => (b.drop 3).map view) := by decide +kernel
/-- RSI 2 (own `_data` series) on the same schedule -/
example : ∃ snap d, runTtf (.rsi 2 "close") "RSI_2" = .ok (snap.drop d) ∧ runUtf (.rsi 2 "close") "RSI_2" = .ok snap := by
  obtain ⟨snap, hs⟩ := ok_of_isSome (r := runUtf (.rsi 2 "close") "RSI_2") (by decide +kernel)
  obtain ⟨d, hd⟩ := covered_lifespan_follows_twin_tf (.rsi 2 "close") "RSI_2" 4 rsiDemoOK 120 (by decide) 360 tfInit
    tfChunks tfDemo_raw tfDemo_init (by rw [rsiDemo_look]; exact tfDemo_retains) snap hs
  exact ⟨snap, d, hd, hs⟩
example : (runTtf (.rsi 2 "close") "RSI_2").toOption.isSome = true ∧
    (runTtf (.rsi 2 "close") "RSI_2").toOption.map (·.map view)
      = (runUtf (.rsi 2 "close") "RSI_2").toOption.map (fun b => (b.drop 3).map view) := by decide +kernel

/-! `{timeframe 120 s, fill, lifespan 600 s}` – the schedule with a two-bucket gap (fill candles 720, 840) -/

example (hbase : NeverRaises (MgrSpec.fill Int 120 (by decide)) (mkTop (.atr 3) "ATR_3" 4)) :
    ∃ snap d, runTfill (.atr 3) "ATR_3" = .ok (snap.drop d) ∧ runUfill (.atr 3) "ATR_3" = .ok snap :=
  covered_never_raises_lifespan_fill (.atr 3) "ATR_3" 4 atrDemoOK 120 (by decide) hbase 600 tfInit tfChunksGap tfGap_raw
    tfGap_init (by rw [atrDemo_look]; exact tfGap_retains)
example : ∃ snap d, runTfill (.atr 3) "ATR_3" = .ok (snap.drop d) ∧ runUfill (.atr 3) "ATR_3" = .ok snap := by
  obtain ⟨snap, hs⟩ := ok_of_isSome (r := runUfill (.atr 3) "ATR_3") (by decide +kernel)
  obtain ⟨d, hd⟩ := covered_lifespan_follows_twin_fill (.atr 3) "ATR_3" 4 atrDemoOK 120 (by decide) 600 tfInit tfChunksGap
    tfGap_raw tfGap_init (by rw [atrDemo_look]; exact tfGap_retains) snap hs
  exact ⟨snap, d, hd, hs⟩
example : (runTfill (.atr 3) "ATR_3").toOption.isSome = true ∧
    (runTfill (.atr 3) "ATR_3").toOption.map (·.map view)
      = (runUfill (.atr 3) "ATR_3").toOption.map (fun b => (b.drop 3).map view) := by decide +kernel

/-! `{HA, lifespan 240 s}` next to `{HA}` – the schedule of TwinTrees.lean (the append of 420 pops two candles, the
append of 480 one) -/

example (hbase : NeverRaises (MgrSpec.ha Int) (mkTop (.atr 3) "ATR_3" 4)) :
    ∃ snap d, runTha (.atr 3) "ATR_3" = .ok (snap.drop d) ∧ runUha (.atr 3) "ATR_3" = .ok snap :=
  covered_never_raises_lifespan_ha (.atr 3) "ATR_3" 4 atrDemoOK hbase 240 ttInit [tt420, [], tt480] haDemo_raw rfl
    (by rw [atrDemo_look]; exact ttDemo_retains2)
example : ∃ snap d, runTha (.rsi 2 "close") "RSI_2" = .ok (snap.drop d) ∧ runUha (.rsi 2 "close") "RSI_2" = .ok snap := by
  obtain ⟨snap, hs⟩ := ok_of_isSome (r := runUha (.rsi 2 "close") "RSI_2") (by decide +kernel)
  obtain ⟨d, hd⟩ := covered_lifespan_follows_twin_ha (.rsi 2 "close") "RSI_2" 4 rsiDemoOK 240 ttInit [tt420, [], tt480]
    haDemo_raw rfl (by rw [rsiDemo_look]; exact ttDemo_retains2) snap hs
  exact ⟨snap, d, hd, hs⟩
example : (runTha (.rsi 2 "close") "RSI_2").toOption.isSome = true ∧
    (runTha (.rsi 2 "close") "RSI_2").toOption.map (·.map (fun c => (viewHA c, view c)))
      = (runUha (.rsi 2 "close") "RSI_2").toOption.map (fun b => (b.drop 3).map (fun c => (viewHA c, view c))) := by
  decide +kernel

/-! `{timeframe 120 s, HA, lifespan 360 s}` next to `{timeframe 120 s, HA}` -/

example (hbase : NeverRaises (MgrSpec.tfHA Int 120 (by decide)) (mkTop (.atr 3) "ATR_3" 4)) :
    ∃ snap d, runTtfha (.atr 3) "ATR_3" = .ok (snap.drop d) ∧ runUtfha (.atr 3) "ATR_3" = .ok snap :=
  covered_never_raises_lifespan_tf_ha (.atr 3) "ATR_3" 4 atrDemoOK 120 (by decide) hbase 360 tfInit tfChunks tfHADemo_raw
    tfDemo_init (by rw [atrDemo_look]; exact tfDemo_retains)
example : ∃ snap d, runTtfha (.atr 3) "ATR_3" = .ok (snap.drop d) ∧ runUtfha (.atr 3) "ATR_3" = .ok snap := by
  obtain ⟨snap, hs⟩ := ok_of_isSome (r := runUtfha (.atr 3) "ATR_3") (by decide +kernel)
  obtain ⟨d, hd⟩ := covered_lifespan_follows_twin_tf_ha (.atr 3) "ATR_3" 4 atrDemoOK 120 (by decide) 360 tfInit tfChunks
    tfHADemo_raw tfDemo_init (by rw [atrDemo_look]; exact tfDemo_retains) snap hs
  exact ⟨snap, d, hd, hs⟩
example : (runTtfha (.atr 3) "ATR_3").toOption.isSome = true ∧
    (runTtfha (.atr 3) "ATR_3").toOption.map (·.map (fun c => (viewHA c, view c)))
      = (runUtfha (.atr 3) "ATR_3").toOption.map (fun b => (b.drop 3).map (fun c => (viewHA c, view c))) := by
  decide +kernel

/-! ### WITHOUT the retention hypothesis the statement is FALSE on a timeframe manager as well

SMA(4) on 120 s buckets: eight one-minute candles (buckets 120 … 480, the SMA has its first reading on bucket 480),
lifespan 360 s – nothing is popped at construction.  Appending one candle stamped 840 opens bucket 840 and pops the
buckets 120, 240, 360: ONE closed bucket (480) is retained (`RetainsBuckets 1` holds, `RetainsBuckets 4` fails).  The
retained bucket carries a reading, so `prev_exists()` holds and `reading(close, index − 4)` asks for index `−3` of a
two-candle list: `IndexError` – while the twin `{timeframe}` returns (SMA 96 on bucket 840).  Replayed on the real library
(`SMA(period=4, timeframe="S120", candles_lifespan=timedelta(seconds=360))`): `IndexError: list index out of range` on the
append; the twin returns `[None, None, None, 73.75, 96.25]`. -/

private def mkw (o h l c v : Int) (t : Int) : Candle Int :=
  { o := .int o, h := .int h, l := .int l, c := .int c, v := .int v, ts := some t }
def lifeTfInit : List (Candle Int) := tfInit ++ [mkw 90 95 60 65 40 480]
def lifeTfChunks : List (List (Candle Int)) := [[mkw 65 140 60 130 80 840]]

theorem lifeTf_raw : RawTf (lifeTfInit ++ lifeTfChunks.flatten) := ⟨by decide, by decide, by decide, by decide⟩
theorem lifeTf_init : trimCandles (some 360) (resample 120 lifeTfInit) = .ok (resample 120 lifeTfInit) := rfl
example : (trimCandles (some 360) (resample 120 (lifeTfInit ++ lifeTfChunks.flatten))).toOption.map (·.map (·.ts))
    = some [some 480, some 840] := by decide +kernel
theorem lifeTf_retains1 : RetainsBuckets 1 120 360 lifeTfInit 0 lifeTfChunks :=
  retainsBuckets_of_B 1 120 360 lifeTfInit 0 lifeTfChunks (by decide +kernel)
example : retainsBucketsB 4 120 360 lifeTfInit 0 lifeTfChunks = false := by decide +kernel

/-- **SMA(4) raises `IndexError` after a trim on a collapsing timeframe** (one closed bucket retained), while its
untrimmed twin returns -/
theorem sma_raises_after_trim_tf :
    candlesOf (runIndicator (mkTop (.sma 4 "close") "SMA_4" 4) (cfgTfLife 120 360) lifeTfInit lifeTfChunks)
      = .error .indexError ∧
    (candlesOf (runIndicator (mkTop (.sma 4 "close") "SMA_4" 4) (cfgTf 120) lifeTfInit lifeTfChunks)).toOption.isSome :=
  ⟨of_raisesIndexError (by decide +kernel), by decide +kernel⟩
/-- what the twin returns -/
example : (candlesOf (runIndicator (mkTop (.sma 4 "close") "SMA_4" 4) (cfgTf 120) lifeTfInit lifeTfChunks)).toOption.map
        (·.map view)
      = some [(some 120, [("SMA_4", [("", none)])], []), (some 240, [("SMA_4", [("", none)])], []),
              (some 360, [("SMA_4", [("", none)])], []), (some 480, [("SMA_4", [("", some 73)])], []),
              (some 840, [("SMA_4", [("", some 96)])], [])] := by decide +kernel

/-- **hence the statement without the retention hypothesis is false** on `{timeframe, candles_lifespan}` (any
look-back `L < 4` in place of `treeLook` included: here `L = 1`) -/
theorem covered_never_raises_lifespan_tf_needs_retention :
    ¬ (∀ (k : Kind Int) (nm : String) (n : Nat), CoveredTreeX nm k → ∀ (tf : Int), 0 < tf →
        ∀ (life : Int) (init : List (Candle Int)) (chunks : List (List (Candle Int))),
        RawTf (init ++ chunks.flatten) → trimCandles (some life) (resample tf init) = .ok (resample tf init) →
        RetainsBuckets 1 tf life init 0 chunks → ∀ snap,
        candlesOf (runIndicator (mkTop k nm n) (cfgTf tf) init chunks) = .ok snap →
        ∃ d, candlesOf (runIndicator (mkTop k nm n) (cfgTfLife tf life) init chunks) = .ok (snap.drop d)) := by
  intro H
  obtain ⟨snap, hs⟩ := ok_of_isSome sma_raises_after_trim_tf.2
  obtain ⟨d, hd⟩ := H (.sma 4 "close") "SMA_4" 4
    (.base _ (.leaf _ (Covered.sma 4 "close" (by decide) (by decide) ⟨by decide, by decide⟩))) 120 (by decide) 360
    lifeTfInit lifeTfChunks lifeTf_raw lifeTf_init lifeTf_retains1 snap hs
  rw [sma_raises_after_trim_tf.1] at hd
  cases hd

end Demo

end Hex

#print axioms Hex.twin_appends_mgr_total
#print axioms Hex.lifespan_follows_twin_mgr
#print axioms Hex.never_raises_lifespan_mgr
#print axioms Hex.covered_never_raises_lifespan_mgr
#print axioms Hex.covered_never_raises_lifespan_tf
#print axioms Hex.covered_never_raises_lifespan_fill
#print axioms Hex.covered_never_raises_lifespan_ha
#print axioms Hex.covered_never_raises_lifespan_tf_ha
#print axioms Hex.lifeTotalMgr_of
#print axioms Hex.covered_lifespan_follows_twin_mgr
#print axioms Hex.covered_lifespan_follows_twin_tf_ha
#print axioms Hex.sma_raises_after_trim_tf
#print axioms Hex.covered_never_raises_lifespan_tf_needs_retention

import HexProofs.Numeric.SeriesRSI
import HexProofs.Numeric.SeriesMore
import HexProofs.Numeric.Composite
import HexProofs.Numeric.Extremes
import HexProofs.Numeric.Bars
import HexProofs.Numeric.Demo
/-!
# VWAP, Donchian, HighestLowest, Aroon: the whole series

Closes the VWAP and Aroon items of `C06_FULL` and the Donchian / HighestLowest items of `C05_FULL`
on raw candles: for EVERY raw list the row-major run (= `calculate()`, the batch run and every
append schedule, by the `TreeSpec`s) returns, and every stored reading is the textbook value of
the raw candles within an explicit rounding budget, from the TRUE warm-up index on.

What the model says (read off `HexModel/Ind/Composite.lean`, `HexModel/Analysis/Movement.lean`):

* **VWAP p** – the period is NOT used by the formula: cumulative `Σ v·typical / Σ v` from candle 0
  (no session anchor), `typical = (h+l+c)/3`; readings from index `0`; the `<name>_data` entry
  `{pv, vol}` holds the running sums UNROUNDED (`Managed.set_reading` does not round), so the
  recurrence carries no error; the own reading is `round n (pv/vol)` (`pv` itself, type kept,
  while `vol = 0`), within `ε` of the textbook value at every index.
* **Donchian p** – window = the last `p` candles (`highest(…, p−1, i)` includes the latest);
  `None` up to index `p−2`, first reading at index `p−1`; `DCU`/`DCL` are the window's highest high
  / lowest low WITH THEIR TYPE (ints stay ints and are not rounded, floats are rounded: within `ε`),
  `DCM = round n ((DCU+DCL)/2)` computed from the UNROUNDED bounds (within `ε`).
* **HighestLowest p** – window = the last `p+1` candles (`highest(…, p, i)` includes the latest),
  clamped at candle 0; NO warm-up: readings from index `0`.
* **Aroon p** – window = the last `p+1` candles, `None` up to index `p−1`, first reading at `p`;
  `up = (p − bars since the most recent highest high)/p·100`, `down` likewise, `osc = up − down`,
  each rounded (within `ε`), `up, down ∈ [0, 100]`, `osc ∈ [−100, 100]`.
-/
set_option linter.unusedSectionVars false
set_option linter.unusedSimpArgs false
set_option linter.unusedVariables false
namespace Hex
namespace Numeric
variable {K : Type} [Field K] [LinearOrder K] [IsStrictOrderedRing K] [LawfulPyF K]

/-! ## VWAP -/

/-- typical price of candle `j` -/
def typAt (h l c : Nat → K) (j : Nat) : K := (h j + l j + c j) / 3

/-- running sum `u 0 + … + u j` -/
def cumSum (u : Nat → K) : Nat → K
  | 0 => u 0
  | j + 1 => cumSum u j + u (j + 1)

/-- cumulative `Σ volume·typical` -/
def cumPV (h l c v : Nat → K) : Nat → K := cumSum (fun k => v k * typAt h l c k)

/-- the textbook VWAP of candles `0 … j`: `Σ v·typical / Σ v` (`Σ v·typical` while `Σ v = 0`) -/
def vwapExact (h l c v : Nat → K) (j : Nat) : K :=
  if cumSum v j = 0 then cumPV h l c v j else cumPV h l c v j / cumSum v j

/-- name hypotheses of a VWAP node -/
structure VwapNames (nm : String) : Prop where
  key : IsKey nm
  dkey : IsKey (nm ++ "_data")
  ne : nm ≠ nm ++ "_data"
  pv : splitDot (nm ++ "_data.pv") = [nm ++ "_data", "pv"]
  vol : splitDot (nm ++ "_data.vol") = [nm ++ "_data", "vol"]

/-- the stored data entry -/
def vwapData (pv vol : Num K) : Val K := sdict [("pv", sc pv), ("vol", sc vol)]

/-- a finished VWAP candle: data entry `r.2` in `.sub_indicators`, own reading `r.1` in `.indicators` -/
def vwapOut (nm : String) (c : Candle K) (r : Val K × Val K) : Candle K :=
  outD nm (nm ++ "_data") r.1 (some r.2) c

/-- the candles of a VWAP run -/
def decoVwap (nm : String) (raw : List (Candle K)) (rows : List (Val K × Val K)) : List (Candle K) :=
  decoWith (vwapOut nm) raw rows

section vcand
variable (nm : String)

theorem vwapOut_own (hn : VwapNames nm) (c : Candle K) (hc : Plain c) (r : Val K × Val K) :
    readingByCandle (vwapOut nm c r) nm = r.1 := by
  rw [readingByCandle_key nm hn.key]
  obtain ⟨hi, hs⟩ := hc
  simp [vwapOut, lookupKey, outD, setD, setKey, hi, hs, dset, dlookup]

theorem vwapOut_data (hn : VwapNames nm) (c : Candle K) (hc : Plain c) (r : Val K × Val K) :
    readingByCandle (vwapOut nm c r) (nm ++ "_data") = r.2 := by
  rw [readingByCandle_key _ hn.dkey]
  obtain ⟨hi, hs⟩ := hc
  simp [vwapOut, lookupKey, outD, setD, setKey, hi, hs, dset, dlookup, hn.ne]

theorem vwapOut_pv (hn : VwapNames nm) (c : Candle K) (hc : Plain c) (r : Val K × Val K) :
    readingByCandle (vwapOut nm c r) (nm ++ "_data.pv") = r.2.nested "pv" := by
  unfold readingByCandle
  rw [hn.pv]
  obtain ⟨hi, hs⟩ := hc
  simp [vwapOut, outD, setD, setKey, hi, hs, dset, dlookup, hn.ne]

theorem vwapOut_vol (hn : VwapNames nm) (c : Candle K) (hc : Plain c) (r : Val K × Val K) :
    readingByCandle (vwapOut nm c r) (nm ++ "_data.vol") = r.2.nested "vol" := by
  unfold readingByCandle
  rw [hn.vol]
  obtain ⟨hi, hs⟩ := hc
  simp [vwapOut, outD, setD, setKey, hi, hs, dset, dlookup, hn.ne]

end vcand

theorem vwapData_pv (a b : Num K) : (vwapData a b).nested "pv" = .num a := by
  simp [vwapData, Val.nested, sdict, sc, dlookup]

theorem vwapData_vol (a b : Num K) : (vwapData a b).nested "vol" = .num b := by
  simp [vwapData, Val.nested, sdict, sc, dlookup]

/-- what the whole-series theorem says of candle `j` (from the FIRST candle on): the data entry
holds numbers whose values are EXACTLY the running sums `Σ v·typical`, `Σ v` (stored unrounded),
and the own reading is a number within `ε` of the textbook VWAP – namely the rounding of `pv/vol`,
or of `pv` itself (an int stays an int) while the cumulative volume is `0` -/
def VwapOK (n : Nat) (h l c v : Nat → K) (j : Nat) (r : Val K × Val K) : Prop :=
  ∃ PV TV : Num K, r.2 = vwapData PV TV ∧ PV.toF = cumPV h l c v j ∧ TV.toF = cumSum v j ∧
    r.1 = .num ((if TV.toF = 0 then PV else .flt (PV.toF / TV.toF)).roundBy n) ∧
    ∃ t : Num K, r.1 = .num t ∧ |t.toF - vwapExact h l c v j| ≤ eps K n

theorem vwapOK_mk (n : Nat) (h l c v : Nat → K) (j : Nat) (PV TV : Num K)
    (h1 : PV.toF = cumPV h l c v j) (h2 : TV.toF = cumSum v j) :
    VwapOK n h l c v j ((Val.num (if TV.toF = 0 then PV else .flt (PV.toF / TV.toF))).roundBy n, vwapData PV TV) := by
  refine ⟨PV, TV, rfl, h1, h2, rfl, _, rfl, ?_⟩
  have e : vwapExact h l c v j = (if TV.toF = 0 then PV else Num.flt (PV.toF / TV.toF)).toF := by
    unfold vwapExact
    rw [← h1, ← h2]
    split_ifs <;> rfl
  rw [e]
  exact Num.roundBy_err n _

theorem vwap_finish (nm : String) (n : Nat) (done : List (Candle K)) (c : Candle K) (v dv : Val K)
    (h : Calc.vwap (dOps (nm ++ "_data") done.length) { cs := done ++ [c], i := done.length, name := nm }
      = .ok (v, done ++ [setKey true (nm ++ "_data") dv c])) :
    (do let r ← Calc.vwap (dOps (nm ++ "_data") done.length) { cs := done ++ [c], i := done.length, name := nm }
        setReading false nm r.2 done.length (r.1.roundBy n))
      = .ok (done ++ [vwapOut nm c (v.roundBy n, dv)]) := by
  rw [h]
  simp only [pym_bind_ok]
  rw [setReading_eq, updateAt_append_cons]
  rfl

/-- the row step of `vwapTree` is the model's `_calculate_reading` followed by the store of the
rounded own reading -/
theorem vwap_rowStep (nm : String) (n : Nat) (p : Int) (done : List (Candle K)) (c : Candle K) :
    Gen.rowStep (vwapTree (F := K) nm n p).S done c = (do
      let r ← Calc.vwap (dOps (nm ++ "_data") done.length) { cs := done ++ [c], i := done.length, name := nm }
      setReading false nm r.2 done.length (r.1.roundBy n)) := rfl

/-- **C06 for the whole VWAP series** (row-major run of `vwapTree`), any period `p` (unused by the
formula).  For EVERY raw list the run returns; candle `j` carries the pair `rows[j]` = (own
reading, `<name>_data` entry) and every pair satisfies `VwapOK`: from the first candle on the data
entry is exactly `{pv: Σ_{k≤j} v_k·(h_k+l_k+c_k)/3, vol: Σ_{k≤j} v_k}` and the own reading is within
`ε` of `pv/vol` (`pv` while `vol = 0`; the zero-volume division is never attempted). -/
theorem vwap_series (p : Int) (nm : String) (n : Nat) (hn : VwapNames nm)
    (raw : List (Candle K)) (hraw : ∀ c ∈ raw, Plain c) :
    ∃ rows : List (Val K × Val K), rows.length = raw.length ∧
      Gen.rowMajor (vwapTree (F := K) nm n p).S raw = .ok (decoVwap nm raw rows) ∧
      ∀ j, j < raw.length → VwapOK n (fieldAt (·.h) raw) (fieldAt (·.l) raw) (fieldAt (·.c) raw)
        (fieldAt (·.v) raw) j (rows.getD j (.none, .none)) := by
  refine gen_series_induct _ (vwapOut nm) (.none, .none) raw _ ?_
  intro m hm rows hrows hQ
  have htl : (raw.take m).length = m := by simp; omega
  have hdl : (decoWith (vwapOut nm) (raw.take m) rows).length = m := by
    rw [decoWith_length _ _ _ (by rw [htl, hrows]), htl]
  have hmem : ∀ j, j < raw.length → Plain (raw.getD j default) := by
    intro j hj
    apply hraw
    rw [List.getD_eq_getElem?_getD, List.getElem?_eq_getElem hj]
    exact List.getElem_mem _
  rw [vwap_rowStep]
  have hlast : 1 ≤ m → ∀ key, Ctx.lastReading key (decoWith (vwapOut nm) (raw.take m) rows)
      = readingByCandle (vwapOut nm (raw.getD (m - 1) default) (rows.getD (m - 1) (.none, .none))) key := by
    intro h1 key
    unfold Ctx.lastReading
    rw [List.getLast?_eq_getElem?, hdl,
      decoWith_getElem? _ _ _ (.none, .none) (m - 1) (by rw [htl, hrows]) (by rw [htl]; omega)]
    have : (raw.take m).getD (m - 1) default = raw.getD (m - 1) default := by
      rw [List.getD_eq_getElem?_getD, List.getD_eq_getElem?_getD, List.getElem?_take_of_lt (by omega)]
    rw [this]
  generalize hdone : decoWith (vwapOut nm) (raw.take m) rows = done at hdl hlast ⊢
  generalize hcd : raw.getD m default = c
  have hprev : ∀ key, ({ cs := done ++ [c], i := done.length, name := nm } : Ctx K).prevReading key
      = .ok (Ctx.lastReading key done) := fun key => Ctx.prevReading_append_cons done c [] nm key
  have hset : ∀ v, (dOps (nm ++ "_data") (done.length : Int) : Ops K).setManaged "VWAP_data" v (done ++ [c])
      = .ok (done ++ [setKey true (nm ++ "_data") v c]) := by
    intro v
    show setReading true (nm ++ "_data") (done ++ [c]) done.length v = _
    rw [setReading_eq, updateAt_append_cons]
  have hh : ({ cs := done ++ [c], i := done.length, name := nm } : Ctx K).reading "high" = .ok (.num c.h) :=
    Ctx.reading_cur done c [] nm "high"
  have hl : ({ cs := done ++ [c], i := done.length, name := nm } : Ctx K).reading "low" = .ok (.num c.l) :=
    Ctx.reading_cur done c [] nm "low"
  have hc : ({ cs := done ++ [c], i := done.length, name := nm } : Ctx K).reading "close" = .ok (.num c.c) :=
    Ctx.reading_cur done c [] nm "close"
  have hv : ({ cs := done ++ [c], i := done.length, name := nm } : Ctx K).reading "volume" = .ok (.num c.v) :=
    Ctx.reading_cur done c [] nm "volume"
  by_cases h0 : m = 0
  · -- the first candle: both running sums start from 0
    have hd0 : done = [] := List.eq_nil_of_length_eq_zero (by omega)
    obtain ⟨PV, TV, e1, e2, hs⟩ := vwap_first (dOps (nm ++ "_data") (done.length : Int))
      { cs := done ++ [c], i := done.length, name := nm }
      (fun v => done ++ [setKey true (nm ++ "_data") v c]) c.h c.l c.c c.v hh hl hc hv
      (by rw [hprev, hd0]; rfl) hset
    refine ⟨_, vwap_finish nm n done c _ _ hs, ?_⟩
    subst h0
    refine vwapOK_mk n _ _ _ _ 0 PV TV ?_ ?_
    · rw [e1, ← hcd]; simp [cumPV, cumSum, typAt, fieldAt]
    · rw [e2, ← hcd]; simp [cumSum, fieldAt]
  · -- running sums
    have hm1 : 1 ≤ m := by omega
    obtain ⟨PV0, TV0, hd2, e01, e02, _, _⟩ := hQ (m - 1) (by omega)
    have hplain := hmem (m - 1) (by omega)
    obtain ⟨PV, TV, e1, e2, hs⟩ := vwap_step (dOps (nm ++ "_data") (done.length : Int))
      { cs := done ++ [c], i := done.length, name := nm }
      (fun v => done ++ [setKey true (nm ++ "_data") v c]) c.h c.l c.c c.v PV0 TV0 hh hl hc hv
      (by show _ = Except.ok _
          rw [hprev, hlast hm1, vwapOut_pv nm hn _ hplain, hd2, vwapData_pv])
      (by show _ = Except.ok _
          rw [hprev, hlast hm1, vwapOut_vol nm hn _ hplain, hd2, vwapData_vol])
      hset
    refine ⟨_, vwap_finish nm n done c _ _ hs, ?_⟩
    obtain ⟨i, rfl⟩ : ∃ i, m = i + 1 := ⟨m - 1, by omega⟩
    simp only [Nat.add_sub_cancel] at e01 e02
    refine vwapOK_mk n _ _ _ _ (i + 1) PV TV ?_ ?_
    · rw [e1, e01, ← hcd]; simp [cumPV, cumSum, typAt, fieldAt]
    · rw [e2, e02, ← hcd]; simp [cumSum, fieldAt]

/-- a stored numeric reading against a textbook value: a number (int or float) within `ε` -/
def NumNear (n : Nat) (e : K) (v : Val K) : Prop := ∃ t : Num K, v = .num t ∧ |t.toF - e| ≤ eps K n

/-- a stored numeric reading whose value is exactly `e` -/
def NumIs (e : K) (v : Val K) : Prop := ∃ t : Num K, v = .num t ∧ t.toF = e

/-- **VWAP, whole series, candle by candle**: the run returns; on EVERY candle `j` (no warm-up) the
own reading is a number within `ε` of the textbook VWAP and the `<name>_data` fields are numbers
whose values are exactly the running sums. -/
theorem vwap_series_candles (p : Int) (nm : String) (n : Nat) (hn : VwapNames nm)
    (raw : List (Candle K)) (hraw : ∀ c ∈ raw, Plain c) :
    ∃ out : List (Candle K), out.length = raw.length ∧
      Gen.rowMajor (vwapTree (F := K) nm n p).S raw = .ok out ∧
      ∀ j, j < raw.length →
        NumNear n (vwapExact (fieldAt (·.h) raw) (fieldAt (·.l) raw) (fieldAt (·.c) raw) (fieldAt (·.v) raw) j)
          (readingByCandle (out.getD j default) nm) ∧
        NumIs (cumPV (fieldAt (·.h) raw) (fieldAt (·.l) raw) (fieldAt (·.c) raw) (fieldAt (·.v) raw) j)
          (readingByCandle (out.getD j default) (nm ++ "_data.pv")) ∧
        NumIs (cumSum (fieldAt (·.v) raw) j) (readingByCandle (out.getD j default) (nm ++ "_data.vol")) := by
  obtain ⟨rows, hl, hrun, hall⟩ := vwap_series p nm n hn raw hraw
  refine ⟨decoVwap nm raw rows, decoWith_length _ _ _ hl, hrun, ?_⟩
  intro j hj
  have hcj : (decoVwap nm raw rows).getD j default
      = vwapOut nm (raw.getD j default) (rows.getD j (.none, .none)) := by
    rw [List.getD_eq_getElem?_getD, decoVwap, decoWith_getElem? _ _ _ (.none, .none) j hl hj]; rfl
  have hpl : Plain (raw.getD j default) := by
    apply hraw
    rw [List.getD_eq_getElem?_getD, List.getElem?_eq_getElem hj]
    exact List.getElem_mem _
  obtain ⟨PV, TV, hd, e1, e2, _, t, ht, hb⟩ := hall j hj
  rw [hcj, vwapOut_own nm hn _ hpl, vwapOut_pv nm hn _ hpl, vwapOut_vol nm hn _ hpl, hd, vwapData_pv, vwapData_vol]
  exact ⟨⟨t, ht, hb⟩, ⟨PV, rfl, e1⟩, ⟨TV, rfl, e2⟩⟩

/-- **VWAP, whole series, through the engine**: `calculate()` on the raw candles returns exactly
the candles of `vwap_series`. -/
theorem vwap_series_engine (p : Int) (nm : String) (n : Nat) (hn : VwapNames nm)
    (raw : List (Candle K)) (hraw : ∀ c ∈ raw, Plain c) :
    ∃ rows : List (Val K × Val K), rows.length = raw.length ∧
      engineCalc (mkTop (.vwap p : Kind K) nm n) raw = .ok (decoVwap nm raw rows) ∧
      ∀ j, j < raw.length → VwapOK n (fieldAt (·.h) raw) (fieldAt (·.l) raw) (fieldAt (·.c) raw)
        (fieldAt (·.v) raw) j (rows.getD j (.none, .none)) := by
  obtain ⟨rows, hl, hrun, hall⟩ := vwap_series p nm n hn raw hraw
  refine ⟨rows, hl, ?_, hall⟩
  have := ((vwapTree (F := K) nm n p).engine [] raw [] (decoVwap nm raw rows) rfl (by simp) hraw).2
    (by simpa using hrun)
  simpa using this

/-- **… and through the object**: building the indicator over the raw candles and calling
`calculate()` once (the batch run) returns exactly the candles of `vwap_series`. -/
theorem vwap_series_batch (p : Int) (nm : String) (n : Nat) (hn : VwapNames nm)
    (raw : List (Candle K)) (hraw : ∀ c ∈ raw, Plain c) :
    ∃ rows : List (Val K × Val K), rows.length = raw.length ∧
      candlesOf (runIndicator (mkTop (.vwap p : Kind K) nm n) {} raw []) = .ok (decoVwap nm raw rows) ∧
      ∀ j, j < raw.length → VwapOK n (fieldAt (·.h) raw) (fieldAt (·.l) raw) (fieldAt (·.c) raw)
        (fieldAt (·.v) raw) j (rows.getD j (.none, .none)) := by
  obtain ⟨rows, hl, hrun, hall⟩ := vwap_series p nm n hn raw hraw
  exact ⟨rows, hl, ((vwapTree (F := K) nm n p).batch_iff (MgrSpec.base K) raw hraw _).2 hrun, hall⟩

/-- **… for every append schedule**: whenever a live history (construction over `init`,
`calculate()`, then any appends) returns, its candles are those of `vwap_series` over the whole
stream. -/
theorem vwap_series_live (p : Int) (nm : String) (n : Nat) (hn : VwapNames nm)
    (init : List (Candle K)) (chunks : List (List (Candle K)))
    (hraw : ∀ c ∈ init ++ chunks.flatten, Plain c) (snap : List (Candle K))
    (hsnap : candlesOf (runIndicator (mkTop (.vwap p : Kind K) nm n) {} init chunks) = .ok snap) :
    ∃ rows : List (Val K × Val K), rows.length = (init ++ chunks.flatten).length ∧
      snap = decoVwap nm (init ++ chunks.flatten) rows ∧
      ∀ j, j < (init ++ chunks.flatten).length →
        VwapOK n (fieldAt (·.h) (init ++ chunks.flatten)) (fieldAt (·.l) (init ++ chunks.flatten))
          (fieldAt (·.c) (init ++ chunks.flatten)) (fieldAt (·.v) (init ++ chunks.flatten)) j
          (rows.getD j (.none, .none)) := by
  obtain ⟨rows, hl, hrun, hall⟩ := vwap_series p nm n hn _ hraw
  have h := (vwapTree (F := K) nm n p).live_refines (MgrSpec.base K) init chunks hraw snap hsnap
  have h' : Gen.rowMajor (vwapTree (F := K) nm n p).S (init ++ chunks.flatten) = .ok snap := h
  rw [hrun] at h'
  exact ⟨rows, hl, (Except.ok.inj h').symm, hall⟩

/-! ### non-vacuity: five candles over ℚ -/

/-- the five raw candles of `HexProps/C04.lean` (`demoRaw`) -/
def winDemoRaw : List (Candle ℚ) :=
  [Demo.mk 10 12 9 11 100, Demo.mk 11 13 10 12 200, Demo.mk 12 15 11 14 300, Demo.mk 14 16 13 15 0,
   Demo.mk 15 15 15 15 0]

theorem winDemoRaw_plain : ∀ c ∈ winDemoRaw, Plain c := by
  intro c hc
  simp only [winDemoRaw, List.mem_cons, List.not_mem_nil, or_false] at hc
  rcases hc with rfl | rfl | rfl | rfl | rfl <;> exact ⟨rfl, rfl⟩

theorem vwapNames_demo : VwapNames "VWAP_10" := ⟨by decide, by decide, by decide, by decide, by decide⟩

example : ∃ rows : List (Val ℚ × Val ℚ), rows.length = winDemoRaw.length ∧
    candlesOf (runIndicator (mkTop (.vwap 10 : Kind ℚ) "VWAP_10" 4) {} winDemoRaw [])
      = .ok (decoVwap "VWAP_10" winDemoRaw rows) ∧
    ∀ j, j < winDemoRaw.length → VwapOK 4 (fieldAt (·.h) winDemoRaw) (fieldAt (·.l) winDemoRaw)
      (fieldAt (·.c) winDemoRaw) (fieldAt (·.v) winDemoRaw) j (rows.getD j (.none, .none)) :=
  vwap_series_batch 10 "VWAP_10" 4 vwapNames_demo winDemoRaw winDemoRaw_plain

/-- the textbook series on the demo candles: volumes 100, 200, 300, 0, 0 -/
example : cumSum (fieldAt (·.v) winDemoRaw) 4 = 600 := by
  norm_num [cumSum, fieldAt, winDemoRaw, Demo.mk]
example : cumPV (fieldAt (·.h) winDemoRaw) (fieldAt (·.l) winDemoRaw) (fieldAt (·.c) winDemoRaw)
    (fieldAt (·.v) winDemoRaw) 4 = 7400 := by
  norm_num [cumPV, cumSum, typAt, fieldAt, winDemoRaw, Demo.mk]
example : vwapExact (fieldAt (·.h) winDemoRaw) (fieldAt (·.l) winDemoRaw) (fieldAt (·.c) winDemoRaw)
    (fieldAt (·.v) winDemoRaw) 4 = 37 / 3 := by
  norm_num [vwapExact, cumPV, cumSum, typAt, fieldAt, winDemoRaw, Demo.mk]

#print axioms vwap_series
#print axioms vwap_series_candles
#print axioms vwap_series_engine
#print axioms vwap_series_batch
#print axioms vwap_series_live

end Numeric
end Hex

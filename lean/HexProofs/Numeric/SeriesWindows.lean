import HexProofs.Numeric.SeriesRSI
import HexProofs.Numeric.SeriesMore
import HexProofs.Numeric.Composite
import HexProofs.Numeric.Extremes
import HexProofs.Numeric.Bars
import HexProofs.Numeric.Demo
/-!
# VWAP, Donchian, HighestLowest, Aroon: the whole series

Closes the VWAP and Aroon items of `C06_FULL` and the Donchian / HighestLowest items of `C05_FULL`
on raw candles: for EVERY raw list the row-major run (= `calculate()`, the batch run and every
append schedule, by the `TreeSpec`s) returns, and every stored reading is the textbook value of
the raw candles within an explicit rounding budget, from the TRUE warm-up index on.

What the model says (read off `HexModel/Ind/Composite.lean`, `HexModel/Analysis/Movement.lean`):

* **VWAP p** – the period is NOT used by the formula: cumulative `Σ v·typical / Σ v` from candle 0
  (no session anchor), `typical = (h+l+c)/3`; readings from index `0`; the `<name>_data` entry
  `{pv, vol}` holds the running sums UNROUNDED (`Managed.set_reading` does not round), so the
  recurrence carries no error; the own reading is `round n (pv/vol)` (`pv` itself, type kept,
  while `vol = 0`), within `ε` of the textbook value at every index.
* **Donchian p** – window = the last `p` candles (`highest(…, p−1, i)` includes the latest);
  `None` up to index `p−2`, first reading at index `p−1`; `DCU`/`DCL` are the window's highest high
  / lowest low WITH THEIR TYPE (ints stay ints and are not rounded, floats are rounded: within `ε`),
  `DCM = round n ((DCU+DCL)/2)` computed from the UNROUNDED bounds (within `ε`).
* **HighestLowest p** – window = the last `p+1` candles (`highest(…, p, i)` includes the latest),
  clamped at candle 0; NO warm-up: readings from index `0`.
* **Aroon p** – window = the last `p+1` candles, `None` up to index `p−1`, first reading at `p`;
  `up = (p − bars since the most recent highest high)/p·100`, `down` likewise, `osc = up − down`,
  each rounded (within `ε`), `up, down ∈ [0, 100]`, `osc ∈ [−100, 100]`.
-/
set_option linter.unusedSectionVars false
set_option linter.unusedSimpArgs false
set_option linter.unusedVariables false
namespace Hex
namespace Numeric
variable {K : Type} [Field K] [LinearOrder K] [IsStrictOrderedRing K] [LawfulPyF K]

/-! ## VWAP -/

/-- typical price of candle `j` -/
def typAt (h l c : Nat → K) (j : Nat) : K := (h j + l j + c j) / 3

/-- running sum `u 0 + … + u j` -/
def cumSum (u : Nat → K) : Nat → K
  | 0 => u 0
  | j + 1 => cumSum u j + u (j + 1)

/-- cumulative `Σ volume·typical` -/
def cumPV (h l c v : Nat → K) : Nat → K := cumSum (fun k => v k * typAt h l c k)

/-- the textbook VWAP of candles `0 … j`: `Σ v·typical / Σ v` (`Σ v·typical` while `Σ v = 0`) -/
def vwapExact (h l c v : Nat → K) (j : Nat) : K :=
  if cumSum v j = 0 then cumPV h l c v j else cumPV h l c v j / cumSum v j

/-- name hypotheses of a VWAP node -/
structure VwapNames (nm : String) : Prop where
  key : IsKey nm
  dkey : IsKey (nm ++ "_data")
  ne : nm ≠ nm ++ "_data"
  pv : splitDot (nm ++ "_data.pv") = [nm ++ "_data", "pv"]
  vol : splitDot (nm ++ "_data.vol") = [nm ++ "_data", "vol"]

/-- the stored data entry -/
def vwapData (pv vol : Num K) : Val K := sdict [("pv", sc pv), ("vol", sc vol)]

/-- a finished VWAP candle: data entry `r.2` in `.sub_indicators`, own reading `r.1` in `.indicators` -/
def vwapOut (nm : String) (c : Candle K) (r : Val K × Val K) : Candle K :=
  outD nm (nm ++ "_data") r.1 (some r.2) c

/-- the candles of a VWAP run -/
def decoVwap (nm : String) (raw : List (Candle K)) (rows : List (Val K × Val K)) : List (Candle K) :=
  decoWith (vwapOut nm) raw rows

section vcand
variable (nm : String)

theorem vwapOut_own (hn : VwapNames nm) (c : Candle K) (hc : Plain c) (r : Val K × Val K) :
    readingByCandle (vwapOut nm c r) nm = r.1 := by
  rw [readingByCandle_key nm hn.key]
  obtain ⟨hi, hs⟩ := hc
  simp [vwapOut, lookupKey, outD, setD, setKey, hi, hs, dset, dlookup]

theorem vwapOut_data (hn : VwapNames nm) (c : Candle K) (hc : Plain c) (r : Val K × Val K) :
    readingByCandle (vwapOut nm c r) (nm ++ "_data") = r.2 := by
  rw [readingByCandle_key _ hn.dkey]
  obtain ⟨hi, hs⟩ := hc
  simp [vwapOut, lookupKey, outD, setD, setKey, hi, hs, dset, dlookup, hn.ne]

theorem vwapOut_pv (hn : VwapNames nm) (c : Candle K) (hc : Plain c) (r : Val K × Val K) :
    readingByCandle (vwapOut nm c r) (nm ++ "_data.pv") = r.2.nested "pv" := by
  unfold readingByCandle
  rw [hn.pv]
  obtain ⟨hi, hs⟩ := hc
  simp [vwapOut, outD, setD, setKey, hi, hs, dset, dlookup, hn.ne]

theorem vwapOut_vol (hn : VwapNames nm) (c : Candle K) (hc : Plain c) (r : Val K × Val K) :
    readingByCandle (vwapOut nm c r) (nm ++ "_data.vol") = r.2.nested "vol" := by
  unfold readingByCandle
  rw [hn.vol]
  obtain ⟨hi, hs⟩ := hc
  simp [vwapOut, outD, setD, setKey, hi, hs, dset, dlookup, hn.ne]

end vcand

theorem vwapData_pv (a b : Num K) : (vwapData a b).nested "pv" = .num a := by
  simp [vwapData, Val.nested, sdict, sc, dlookup]

theorem vwapData_vol (a b : Num K) : (vwapData a b).nested "vol" = .num b := by
  simp [vwapData, Val.nested, sdict, sc, dlookup]

/-- what the whole-series theorem says of candle `j` (from the FIRST candle on): the data entry
holds numbers whose values are EXACTLY the running sums `Σ v·typical`, `Σ v` (stored unrounded),
and the own reading is a number within `ε` of the textbook VWAP – namely the rounding of `pv/vol`,
or of `pv` itself (an int stays an int) while the cumulative volume is `0` -/
def VwapOK (n : Nat) (h l c v : Nat → K) (j : Nat) (r : Val K × Val K) : Prop :=
  ∃ PV TV : Num K, r.2 = vwapData PV TV ∧ PV.toF = cumPV h l c v j ∧ TV.toF = cumSum v j ∧
    r.1 = .num ((if TV.toF = 0 then PV else .flt (PV.toF / TV.toF)).roundBy n) ∧
    ∃ t : Num K, r.1 = .num t ∧ |t.toF - vwapExact h l c v j| ≤ eps K n

theorem vwapOK_mk (n : Nat) (h l c v : Nat → K) (j : Nat) (PV TV : Num K)
    (h1 : PV.toF = cumPV h l c v j) (h2 : TV.toF = cumSum v j) :
    VwapOK n h l c v j ((Val.num (if TV.toF = 0 then PV else .flt (PV.toF / TV.toF))).roundBy n, vwapData PV TV) := by
  refine ⟨PV, TV, rfl, h1, h2, rfl, _, rfl, ?_⟩
  have e : vwapExact h l c v j = (if TV.toF = 0 then PV else Num.flt (PV.toF / TV.toF)).toF := by
    unfold vwapExact
    rw [← h1, ← h2]
    split_ifs <;> rfl
  rw [e]
  exact Num.roundBy_err n _

theorem vwap_finish (nm : String) (n : Nat) (done : List (Candle K)) (c : Candle K) (v dv : Val K)
    (h : Calc.vwap (dOps (nm ++ "_data") done.length) { cs := done ++ [c], i := done.length, name := nm }
      = .ok (v, done ++ [setKey true (nm ++ "_data") dv c])) :
    (do let r ← Calc.vwap (dOps (nm ++ "_data") done.length) { cs := done ++ [c], i := done.length, name := nm }
        setReading false nm r.2 done.length (r.1.roundBy n))
      = .ok (done ++ [vwapOut nm c (v.roundBy n, dv)]) := by
  rw [h]
  simp only [pym_bind_ok]
  rw [setReading_eq, updateAt_append_cons]
  rfl

/-- the row step of `vwapTree` is the model's `_calculate_reading` followed by the store of the
rounded own reading -/
theorem vwap_rowStep (nm : String) (n : Nat) (p : Int) (done : List (Candle K)) (c : Candle K) :
    Gen.rowStep (vwapTree (F := K) nm n p).S done c = (do
      let r ← Calc.vwap (dOps (nm ++ "_data") done.length) { cs := done ++ [c], i := done.length, name := nm }
      setReading false nm r.2 done.length (r.1.roundBy n)) := rfl

/-- **C06 for the whole VWAP series** (row-major run of `vwapTree`), any period `p` (unused by the
formula).  For EVERY raw list the run returns; candle `j` carries the pair `rows[j]` = (own
reading, `<name>_data` entry) and every pair satisfies `VwapOK`: from the first candle on the data
entry is exactly `{pv: Σ_{k≤j} v_k·(h_k+l_k+c_k)/3, vol: Σ_{k≤j} v_k}` and the own reading is within
`ε` of `pv/vol` (`pv` while `vol = 0`; the zero-volume division is never attempted). -/
theorem vwap_series (p : Int) (nm : String) (n : Nat) (hn : VwapNames nm)
    (raw : List (Candle K)) (hraw : ∀ c ∈ raw, Plain c) :
    ∃ rows : List (Val K × Val K), rows.length = raw.length ∧
      Gen.rowMajor (vwapTree (F := K) nm n p).S raw = .ok (decoVwap nm raw rows) ∧
      ∀ j, j < raw.length → VwapOK n (fieldAt (·.h) raw) (fieldAt (·.l) raw) (fieldAt (·.c) raw)
        (fieldAt (·.v) raw) j (rows.getD j (.none, .none)) := by
  refine gen_series_induct _ (vwapOut nm) (.none, .none) raw _ ?_
  intro m hm rows hrows hQ
  have htl : (raw.take m).length = m := by simp; omega
  have hdl : (decoWith (vwapOut nm) (raw.take m) rows).length = m := by
    rw [decoWith_length _ _ _ (by rw [htl, hrows]), htl]
  have hmem : ∀ j, j < raw.length → Plain (raw.getD j default) := by
    intro j hj
    apply hraw
    rw [List.getD_eq_getElem?_getD, List.getElem?_eq_getElem hj]
    exact List.getElem_mem _
  rw [vwap_rowStep]
  have hlast : 1 ≤ m → ∀ key, Ctx.lastReading key (decoWith (vwapOut nm) (raw.take m) rows)
      = readingByCandle (vwapOut nm (raw.getD (m - 1) default) (rows.getD (m - 1) (.none, .none))) key := by
    intro h1 key
    unfold Ctx.lastReading
    rw [List.getLast?_eq_getElem?, hdl,
      decoWith_getElem? _ _ _ (.none, .none) (m - 1) (by rw [htl, hrows]) (by rw [htl]; omega)]
    have : (raw.take m).getD (m - 1) default = raw.getD (m - 1) default := by
      rw [List.getD_eq_getElem?_getD, List.getD_eq_getElem?_getD, List.getElem?_take_of_lt (by omega)]
    rw [this]
  generalize hdone : decoWith (vwapOut nm) (raw.take m) rows = done at hdl hlast ⊢
  generalize hcd : raw.getD m default = c
  have hprev : ∀ key, ({ cs := done ++ [c], i := done.length, name := nm } : Ctx K).prevReading key
      = .ok (Ctx.lastReading key done) := fun key => Ctx.prevReading_append_cons done c [] nm key
  have hset : ∀ v, (dOps (nm ++ "_data") (done.length : Int) : Ops K).setManaged "VWAP_data" v (done ++ [c])
      = .ok (done ++ [setKey true (nm ++ "_data") v c]) := by
    intro v
    show setReading true (nm ++ "_data") (done ++ [c]) done.length v = _
    rw [setReading_eq, updateAt_append_cons]
  have hh : ({ cs := done ++ [c], i := done.length, name := nm } : Ctx K).reading "high" = .ok (.num c.h) :=
    Ctx.reading_cur done c [] nm "high"
  have hl : ({ cs := done ++ [c], i := done.length, name := nm } : Ctx K).reading "low" = .ok (.num c.l) :=
    Ctx.reading_cur done c [] nm "low"
  have hc : ({ cs := done ++ [c], i := done.length, name := nm } : Ctx K).reading "close" = .ok (.num c.c) :=
    Ctx.reading_cur done c [] nm "close"
  have hv : ({ cs := done ++ [c], i := done.length, name := nm } : Ctx K).reading "volume" = .ok (.num c.v) :=
    Ctx.reading_cur done c [] nm "volume"
  by_cases h0 : m = 0
  · -- the first candle: both running sums start from 0
    have hd0 : done = [] := List.eq_nil_of_length_eq_zero (by omega)
    obtain ⟨PV, TV, e1, e2, hs⟩ := vwap_first (dOps (nm ++ "_data") (done.length : Int))
      { cs := done ++ [c], i := done.length, name := nm }
      (fun v => done ++ [setKey true (nm ++ "_data") v c]) c.h c.l c.c c.v hh hl hc hv
      (by rw [hprev, hd0]; rfl) hset
    refine ⟨_, vwap_finish nm n done c _ _ hs, ?_⟩
    subst h0
    refine vwapOK_mk n _ _ _ _ 0 PV TV ?_ ?_
    · rw [e1, ← hcd]; simp [cumPV, cumSum, typAt, fieldAt]
    · rw [e2, ← hcd]; simp [cumSum, fieldAt]
  · -- running sums
    have hm1 : 1 ≤ m := by omega
    obtain ⟨PV0, TV0, hd2, e01, e02, _, _⟩ := hQ (m - 1) (by omega)
    have hplain := hmem (m - 1) (by omega)
    obtain ⟨PV, TV, e1, e2, hs⟩ := vwap_step (dOps (nm ++ "_data") (done.length : Int))
      { cs := done ++ [c], i := done.length, name := nm }
      (fun v => done ++ [setKey true (nm ++ "_data") v c]) c.h c.l c.c c.v PV0 TV0 hh hl hc hv
      (by show _ = Except.ok _
          rw [hprev, hlast hm1, vwapOut_pv nm hn _ hplain, hd2, vwapData_pv])
      (by show _ = Except.ok _
          rw [hprev, hlast hm1, vwapOut_vol nm hn _ hplain, hd2, vwapData_vol])
      hset
    refine ⟨_, vwap_finish nm n done c _ _ hs, ?_⟩
    obtain ⟨i, rfl⟩ : ∃ i, m = i + 1 := ⟨m - 1, by omega⟩
    simp only [Nat.add_sub_cancel] at e01 e02
    refine vwapOK_mk n _ _ _ _ (i + 1) PV TV ?_ ?_
    · rw [e1, e01, ← hcd]; simp [cumPV, cumSum, typAt, fieldAt]
    · rw [e2, e02, ← hcd]; simp [cumSum, fieldAt]

/-- a stored numeric reading against a textbook value: a number (int or float) within `ε` -/
def NumNear (n : Nat) (e : K) (v : Val K) : Prop := ∃ t : Num K, v = .num t ∧ |t.toF - e| ≤ eps K n

/-- a stored numeric reading whose value is exactly `e` -/
def NumIs (e : K) (v : Val K) : Prop := ∃ t : Num K, v = .num t ∧ t.toF = e

/-- **VWAP, whole series, candle by candle**: the run returns; on EVERY candle `j` (no warm-up) the
own reading is a number within `ε` of the textbook VWAP and the `<name>_data` fields are numbers
whose values are exactly the running sums. -/
theorem vwap_series_candles (p : Int) (nm : String) (n : Nat) (hn : VwapNames nm)
    (raw : List (Candle K)) (hraw : ∀ c ∈ raw, Plain c) :
    ∃ out : List (Candle K), out.length = raw.length ∧
      Gen.rowMajor (vwapTree (F := K) nm n p).S raw = .ok out ∧
      ∀ j, j < raw.length →
        NumNear n (vwapExact (fieldAt (·.h) raw) (fieldAt (·.l) raw) (fieldAt (·.c) raw) (fieldAt (·.v) raw) j)
          (readingByCandle (out.getD j default) nm) ∧
        NumIs (cumPV (fieldAt (·.h) raw) (fieldAt (·.l) raw) (fieldAt (·.c) raw) (fieldAt (·.v) raw) j)
          (readingByCandle (out.getD j default) (nm ++ "_data.pv")) ∧
        NumIs (cumSum (fieldAt (·.v) raw) j) (readingByCandle (out.getD j default) (nm ++ "_data.vol")) := by
  obtain ⟨rows, hl, hrun, hall⟩ := vwap_series p nm n hn raw hraw
  refine ⟨decoVwap nm raw rows, decoWith_length _ _ _ hl, hrun, ?_⟩
  intro j hj
  have hcj : (decoVwap nm raw rows).getD j default
      = vwapOut nm (raw.getD j default) (rows.getD j (.none, .none)) := by
    rw [List.getD_eq_getElem?_getD, decoVwap, decoWith_getElem? _ _ _ (.none, .none) j hl hj]; rfl
  have hpl : Plain (raw.getD j default) := by
    apply hraw
    rw [List.getD_eq_getElem?_getD, List.getElem?_eq_getElem hj]
    exact List.getElem_mem _
  obtain ⟨PV, TV, hd, e1, e2, _, t, ht, hb⟩ := hall j hj
  rw [hcj, vwapOut_own nm hn _ hpl, vwapOut_pv nm hn _ hpl, vwapOut_vol nm hn _ hpl, hd, vwapData_pv, vwapData_vol]
  exact ⟨⟨t, ht, hb⟩, ⟨PV, rfl, e1⟩, ⟨TV, rfl, e2⟩⟩

/-- **VWAP, whole series, through the engine**: `calculate()` on the raw candles returns exactly
the candles of `vwap_series`. -/
theorem vwap_series_engine (p : Int) (nm : String) (n : Nat) (hn : VwapNames nm)
    (raw : List (Candle K)) (hraw : ∀ c ∈ raw, Plain c) :
    ∃ rows : List (Val K × Val K), rows.length = raw.length ∧
      engineCalc (mkTop (.vwap p : Kind K) nm n) raw = .ok (decoVwap nm raw rows) ∧
      ∀ j, j < raw.length → VwapOK n (fieldAt (·.h) raw) (fieldAt (·.l) raw) (fieldAt (·.c) raw)
        (fieldAt (·.v) raw) j (rows.getD j (.none, .none)) := by
  obtain ⟨rows, hl, hrun, hall⟩ := vwap_series p nm n hn raw hraw
  refine ⟨rows, hl, ?_, hall⟩
  have := ((vwapTree (F := K) nm n p).engine [] raw [] (decoVwap nm raw rows) rfl (by simp) hraw).2
    (by simpa using hrun)
  simpa using this

/-- **… and through the object**: building the indicator over the raw candles and calling
`calculate()` once (the batch run) returns exactly the candles of `vwap_series`. -/
theorem vwap_series_batch (p : Int) (nm : String) (n : Nat) (hn : VwapNames nm)
    (raw : List (Candle K)) (hraw : ∀ c ∈ raw, Plain c) :
    ∃ rows : List (Val K × Val K), rows.length = raw.length ∧
      candlesOf (runIndicator (mkTop (.vwap p : Kind K) nm n) {} raw []) = .ok (decoVwap nm raw rows) ∧
      ∀ j, j < raw.length → VwapOK n (fieldAt (·.h) raw) (fieldAt (·.l) raw) (fieldAt (·.c) raw)
        (fieldAt (·.v) raw) j (rows.getD j (.none, .none)) := by
  obtain ⟨rows, hl, hrun, hall⟩ := vwap_series p nm n hn raw hraw
  exact ⟨rows, hl, ((vwapTree (F := K) nm n p).batch_iff (MgrSpec.base K) raw hraw _).2 hrun, hall⟩

/-- **… for every append schedule**: whenever a live history (construction over `init`,
`calculate()`, then any appends) returns, its candles are those of `vwap_series` over the whole
stream. -/
theorem vwap_series_live (p : Int) (nm : String) (n : Nat) (hn : VwapNames nm)
    (init : List (Candle K)) (chunks : List (List (Candle K)))
    (hraw : ∀ c ∈ init ++ chunks.flatten, Plain c) (snap : List (Candle K))
    (hsnap : candlesOf (runIndicator (mkTop (.vwap p : Kind K) nm n) {} init chunks) = .ok snap) :
    ∃ rows : List (Val K × Val K), rows.length = (init ++ chunks.flatten).length ∧
      snap = decoVwap nm (init ++ chunks.flatten) rows ∧
      ∀ j, j < (init ++ chunks.flatten).length →
        VwapOK n (fieldAt (·.h) (init ++ chunks.flatten)) (fieldAt (·.l) (init ++ chunks.flatten))
          (fieldAt (·.c) (init ++ chunks.flatten)) (fieldAt (·.v) (init ++ chunks.flatten)) j
          (rows.getD j (.none, .none)) := by
  obtain ⟨rows, hl, hrun, hall⟩ := vwap_series p nm n hn _ hraw
  have h := (vwapTree (F := K) nm n p).live_refines (MgrSpec.base K) init chunks hraw snap hsnap
  have h' : Gen.rowMajor (vwapTree (F := K) nm n p).S (init ++ chunks.flatten) = .ok snap := h
  rw [hrun] at h'
  exact ⟨rows, hl, (Except.ok.inj h').symm, hall⟩

/-! ### non-vacuity: five candles over ℚ -/

/-- the five raw candles of `HexProps/C04.lean` (`demoRaw`) -/
def winDemoRaw : List (Candle ℚ) :=
  [Demo.mk 10 12 9 11 100, Demo.mk 11 13 10 12 200, Demo.mk 12 15 11 14 300, Demo.mk 14 16 13 15 0,
   Demo.mk 15 15 15 15 0]

theorem winDemoRaw_plain : ∀ c ∈ winDemoRaw, Plain c := by
  intro c hc
  simp only [winDemoRaw, List.mem_cons, List.not_mem_nil, or_false] at hc
  rcases hc with rfl | rfl | rfl | rfl | rfl <;> exact ⟨rfl, rfl⟩

theorem vwapNames_demo : VwapNames "VWAP_10" := ⟨by decide, by decide, by decide, by decide, by decide⟩

example : ∃ rows : List (Val ℚ × Val ℚ), rows.length = winDemoRaw.length ∧
    candlesOf (runIndicator (mkTop (.vwap 10 : Kind ℚ) "VWAP_10" 4) {} winDemoRaw [])
      = .ok (decoVwap "VWAP_10" winDemoRaw rows) ∧
    ∀ j, j < winDemoRaw.length → VwapOK 4 (fieldAt (·.h) winDemoRaw) (fieldAt (·.l) winDemoRaw)
      (fieldAt (·.c) winDemoRaw) (fieldAt (·.v) winDemoRaw) j (rows.getD j (.none, .none)) :=
  vwap_series_batch 10 "VWAP_10" 4 vwapNames_demo winDemoRaw winDemoRaw_plain

/-- the textbook series on the demo candles: volumes 100, 200, 300, 0, 0 -/
example : cumSum (fieldAt (·.v) winDemoRaw) 4 = 600 := by
  norm_num [cumSum, fieldAt, winDemoRaw, Demo.mk]
example : cumPV (fieldAt (·.h) winDemoRaw) (fieldAt (·.l) winDemoRaw) (fieldAt (·.c) winDemoRaw)
    (fieldAt (·.v) winDemoRaw) 4 = 7400 := by
  norm_num [cumPV, cumSum, typAt, fieldAt, winDemoRaw, Demo.mk]
example : vwapExact (fieldAt (·.h) winDemoRaw) (fieldAt (·.l) winDemoRaw) (fieldAt (·.c) winDemoRaw)
    (fieldAt (·.v) winDemoRaw) 4 = 37 / 3 := by
  norm_num [vwapExact, cumPV, cumSum, typAt, fieldAt, winDemoRaw, Demo.mk]

/-! ## windows -/

section windows
variable {F : Type} [PyF F]

theorem absIndex_nat (i len : Nat) (h : i < len) : absIndex (i : Int) len = some (i : Int) := by
  unfold absIndex validIndex
  have a : decide ((i : Int) < (len : Int)) = true := decide_eq_true (by omega)
  have b : decide (-(len : Int) ≤ (i : Int)) = true := decide_eq_true (by omega)
  have c : ¬ (i : Int) < 0 := by omega
  simp [a, b, c, h]

theorem readingByIndex_nat (cs : List (Candle F)) (ind : String) (j : Nat) (h : j < cs.length) :
    readingByIndex cs ind (j : Int) = readingByCandle (cs.getD j default) ind := by
  unfold readingByIndex validIndex
  have a : decide ((j : Int) < (cs.length : Int)) = true := decide_eq_true (by omega)
  have b : decide (-(cs.length : Int) ≤ (j : Int)) = true := decide_eq_true (by omega)
  rw [a, b, pyIndex_nonneg _ _ (by omega)]
  simp only [Int.toNat_natCast, Bool.and_self, if_true]
  rw [List.getD_eq_getElem?_getD, List.getElem?_eq_getElem h]
  rfl

/-- the candles of a Python slice `cs[s:e]` with `s < e ≤ len` -/
theorem mem_pySlice (cs : List (Candle F)) (s e : Nat) (hs : s < e) (he : e ≤ cs.length) (c : Candle F) :
    c ∈ pySlice cs (s : Int) (e : Int) ↔ ∃ k, s ≤ k ∧ k < e ∧ cs[k]? = some c := by
  unfold pySlice
  have a1 : ¬ (s : Int) < 0 := by omega
  have a2 : ¬ (s : Int) > (cs.length : Int) := by omega
  have a3 : ¬ (e : Int) < 0 := by omega
  have a4 : ¬ (e : Int) > (cs.length : Int) := by omega
  have a5 : ¬ (s : Int) ≥ (e : Int) := by omega
  simp only [a1, a2, a3, a4, a5, if_false]
  rw [List.mem_iff_getElem?]
  have e1 : ((e : Int) - (s : Int)).toNat = e - s := by omega
  simp only [Int.toNat_natCast, e1]
  constructor
  · rintro ⟨k, hk⟩
    by_cases hke : k < e - s
    · rw [List.getElem?_take_of_lt hke, List.getElem?_drop] at hk
      exact ⟨s + k, by omega, by omega, hk⟩
    · rw [List.getElem?_take] at hk; simp [hke] at hk
  · rintro ⟨k, h1, h2, h3⟩
    refine ⟨k - s, ?_⟩
    rw [List.getElem?_take_of_lt (by omega), List.getElem?_drop]
    have : s + (k - s) = k := by omega
    rw [this]; exact h3

/-- the clean readings of a candle-field window are exactly the field values of the candles
`max(i−n, 0) … i` -/
theorem mem_cleanScalars_attr (cs : List (Candle F)) (ind : String) (f : Candle F → Num F)
    (hf : ∀ c, readingByCandle c ind = .num (f c)) (n i : Nat) (hi : i < cs.length) (s : Scalar F) :
    s ∈ Mov.cleanScalars cs ind (n : Int) (i : Int) true
      ↔ ∃ k, i - n ≤ k ∧ k ≤ i ∧ s = .num (f (cs.getD k default)) := by
  unfold Mov.cleanScalars
  simp only [if_true]
  have est : (if (i : Int) - (n : Int) < 0 then (0 : Int) else (i : Int) - (n : Int)) = ((i - n : Nat) : Int) := by
    split_ifs <;> omega
  have een : (i : Int) + 1 = ((i + 1 : Nat) : Int) := by push_cast; rfl
  rw [est, een, List.mem_filterMap]
  constructor
  · rintro ⟨v, hv, hs⟩
    rw [List.mem_reverse, List.mem_map] at hv
    obtain ⟨c, hc, rfl⟩ := hv
    rw [mem_pySlice cs _ _ (by omega) (by omega)] at hc
    obtain ⟨k, h1, h2, h3⟩ := hc
    refine ⟨k, h1, by omega, ?_⟩
    rw [hf] at hs
    simp only [Option.some.injEq] at hs
    rw [← hs, List.getD_eq_getElem?_getD, h3]; rfl
  · rintro ⟨k, h1, h2, rfl⟩
    refine ⟨.num (f (cs.getD k default)), ?_, rfl⟩
    rw [List.mem_reverse, List.mem_map]
    refine ⟨cs.getD k default, ?_, hf _⟩
    rw [mem_pySlice cs _ _ (by omega) (by omega)]
    refine ⟨k, h1, by omega, ?_⟩
    rw [List.getD_eq_getElem?_getD, List.getElem?_eq_getElem (by omega)]; rfl

/-- `movement.highest/lowest` over a candle field with `length ≥ 1` returns the field value of one
of the candles `max(i−n, 0) … i` (type kept) -/
theorem extreme_total (cs : List (Candle F)) (ind : String) (f : Candle F → Num F)
    (hf : ∀ c, readingByCandle c ind = .num (f c)) (better : Num F → Num F → Bool)
    (n i : Nat) (hn : 1 ≤ n) (hi : i < cs.length) :
    ∃ k, i - n ≤ k ∧ k ≤ i ∧ Mov.extreme cs ind (n : Int) (i : Int) better = .ok (.num (f (cs.getD k default))) := by
  unfold Mov.extreme
  rw [absIndex_nat i cs.length hi]
  have a : ¬ ((n : Int) < 1) := by omega
  have b : cs.isEmpty = false := by
    cases cs with
    | nil => simp at hi
    | cons _ _ => rfl
  simp only [a, b, decide_false, Bool.or_self, Bool.false_eq_true, if_false]
  have hown : Scalar.num (f (cs.getD i default)) ∈ Mov.cleanScalars cs ind (n : Int) (i : Int) true :=
    (mem_cleanScalars_attr cs ind f hf n i hi _).2 ⟨i, by omega, le_refl _, rfl⟩
  cases hl : Mov.cleanScalars cs ind (n : Int) (i : Int) true with
  | nil => rw [hl] at hown; cases hown
  | cons x xs =>
    have hp : Mov.pickScalar better (x :: xs) = some
        (xs.foldl (fun best y => if better (Mov.scalarNum y) (Mov.scalarNum best) then y else best) x) := rfl
    have hm := pickScalar_mem better _ _ hp
    rw [← hl] at hm
    obtain ⟨k, h1, h2, h3⟩ := (mem_cleanScalars_attr cs ind f hf n i hi _).1 hm
    refine ⟨k, h1, h2, ?_⟩
    rw [hp, h3]

end windows

/-- `movement.highest` over a candle field: returns the field value (type kept) of a candle of the
window `max(i−n, 0) … i` that bounds the whole window from above -/
theorem highest_window (cs : List (Candle K)) (ind : String) (f : Candle K → Num K)
    (hf : ∀ c, readingByCandle c ind = .num (f c)) (n i : Nat) (hn : 1 ≤ n) (hi : i < cs.length) :
    ∃ k, i - n ≤ k ∧ k ≤ i ∧ Mov.highest cs ind (n : Int) (i : Int) = .ok (.num (f (cs.getD k default))) ∧
      ∀ k', i - n ≤ k' → k' ≤ i → (f (cs.getD k' default)).toF ≤ (f (cs.getD k default)).toF := by
  obtain ⟨k, h1, h2, h3⟩ := extreme_total cs ind f hf (fun y best => y.gt best) n i hn hi
  refine ⟨k, h1, h2, h3, ?_⟩
  obtain ⟨i', hi', _, hmax⟩ := highest_spec cs ind n i _ h3
  rw [absIndex_nat i cs.length hi] at hi'
  cases hi'
  intro k' h1' h2'
  exact hmax _ ((mem_cleanScalars_attr cs ind f hf n i hi _).2 ⟨k', h1', h2', rfl⟩)

theorem lowest_window (cs : List (Candle K)) (ind : String) (f : Candle K → Num K)
    (hf : ∀ c, readingByCandle c ind = .num (f c)) (n i : Nat) (hn : 1 ≤ n) (hi : i < cs.length) :
    ∃ k, i - n ≤ k ∧ k ≤ i ∧ Mov.lowest cs ind (n : Int) (i : Int) = .ok (.num (f (cs.getD k default))) ∧
      ∀ k', i - n ≤ k' → k' ≤ i → (f (cs.getD k default)).toF ≤ (f (cs.getD k' default)).toF := by
  obtain ⟨k, h1, h2, h3⟩ := extreme_total cs ind f hf (fun y best => y.lt best) n i hn hi
  refine ⟨k, h1, h2, h3, ?_⟩
  obtain ⟨i', hi', _, hmin⟩ := lowest_spec cs ind n i _ h3
  rw [absIndex_nat i cs.length hi] at hi'
  cases hi'
  intro k' h1' h2'
  exact hmin _ ((mem_cleanScalars_attr cs ind f hf n i hi _).2 ⟨k', h1', h2', rfl⟩)

/-! ### the textbook window extremes -/

/-- highest of `x j, x (j−1), …, x (j−w)`; indices are cut at candle 0 (`j − d` is the natural
subtraction: a window reaching before the first candle just repeats `x 0`) -/
def winMax (x : Nat → K) (j : Nat) : Nat → K
  | 0 => x j
  | w + 1 => max (winMax x j w) (x (j - (w + 1)))

/-- lowest of `x j, x (j−1), …, x (j−w)` (cut at candle 0) -/
def winMin (x : Nat → K) (j : Nat) : Nat → K
  | 0 => x j
  | w + 1 => min (winMin x j w) (x (j - (w + 1)))

theorem winMax_ge (x : Nat → K) (j w : Nat) : ∀ d, d ≤ w → x (j - d) ≤ winMax x j w := by
  induction w with
  | zero => intro d hd; have : d = 0 := by omega
            subst this; exact le_refl _
  | succ w ih =>
    intro d hd
    by_cases h : d ≤ w
    · exact le_trans (ih d h) (le_max_left _ _)
    · have : d = w + 1 := by omega
      subst this; exact le_max_right _ _

theorem winMax_mem (x : Nat → K) (j w : Nat) : ∃ d, d ≤ w ∧ winMax x j w = x (j - d) := by
  induction w with
  | zero => exact ⟨0, le_refl _, rfl⟩
  | succ w ih =>
    obtain ⟨d, hd, he⟩ := ih
    rcases max_choice (winMax x j w) (x (j - (w + 1))) with h | h
    · exact ⟨d, by omega, by rw [winMax, h, he]⟩
    · exact ⟨w + 1, le_refl _, by rw [winMax, h]⟩

theorem winMin_le (x : Nat → K) (j w : Nat) : ∀ d, d ≤ w → winMin x j w ≤ x (j - d) := by
  induction w with
  | zero => intro d hd; have : d = 0 := by omega
            subst this; exact le_refl _
  | succ w ih =>
    intro d hd
    by_cases h : d ≤ w
    · exact le_trans (min_le_left _ _) (ih d h)
    · have : d = w + 1 := by omega
      subst this; exact min_le_right _ _

theorem winMin_mem (x : Nat → K) (j w : Nat) : ∃ d, d ≤ w ∧ winMin x j w = x (j - d) := by
  induction w with
  | zero => exact ⟨0, le_refl _, rfl⟩
  | succ w ih =>
    obtain ⟨d, hd, he⟩ := ih
    rcases min_choice (winMin x j w) (x (j - (w + 1))) with h | h
    · exact ⟨d, by omega, by rw [winMin, h, he]⟩
    · exact ⟨w + 1, le_refl _, by rw [winMin, h]⟩

/-- the window encloses the candle's own value -/
theorem winMax_self (x : Nat → K) (j w : Nat) : x j ≤ winMax x j w := winMax_ge x j w 0 (Nat.zero_le _)
theorem winMin_self (x : Nat → K) (j w : Nat) : winMin x j w ≤ x j := winMin_le x j w 0 (Nat.zero_le _)
theorem winMin_le_winMax (l h : Nat → K) (hlh : ∀ k, l k ≤ h k) (j w : Nat) : winMin l j w ≤ winMax h j w :=
  le_trans (winMin_self l j w) (le_trans (hlh j) (winMax_self h j w))

/-- a value attained in the window `max(j−w,0) … j` that bounds the window from above IS `winMax` -/
theorem winMax_unique (x : Nat → K) (j w k : Nat) (h1 : j - w ≤ k) (h2 : k ≤ j)
    (hub : ∀ k', j - w ≤ k' → k' ≤ j → x k' ≤ x k) : x k = winMax x j w := by
  apply le_antisymm
  · have := winMax_ge x j w (j - k) (by omega)
    rwa [show j - (j - k) = k by omega] at this
  · obtain ⟨d, hd, he⟩ := winMax_mem x j w
    rw [he]; exact hub _ (by omega) (by omega)

theorem winMin_unique (x : Nat → K) (j w k : Nat) (h1 : j - w ≤ k) (h2 : k ≤ j)
    (hlb : ∀ k', j - w ≤ k' → k' ≤ j → x k ≤ x k') : x k = winMin x j w := by
  apply le_antisymm
  · obtain ⟨d, hd, he⟩ := winMin_mem x j w
    rw [he]; exact hlb _ (by omega) (by omega)
  · have := winMin_le x j w (j - k) (by omega)
    rwa [show j - (j - k) = k by omega] at this

/-- field `fld` of raw candle `j` as the stored number (type kept) -/
def numAt (fld : Candle K → Num K) (raw : List (Candle K)) (j : Nat) : Num K := fld (raw.getD j default)

theorem fieldAt_numAt (fld : Candle K → Num K) (raw : List (Candle K)) (j : Nat) :
    fieldAt fld raw j = (numAt fld raw j).toF := rfl

/-! ### the step context of a leaf: highs and lows are the raw ones -/

section stepwin
variable (nm : String) (raw : List (Candle K)) (vs : List (Val K)) (m : Nat)

theorem stepCtx_getD (hm : m < raw.length) (hvs : vs.length = m) (fld : Candle K → Num K)
    (hfld : ∀ (v : Val K) (c : Candle K), fld (setKey false nm v c) = fld c) (k : Nat) (hk : k ≤ m) :
    fld ((stepCtx nm raw vs m).cs.getD k default) = fld (raw.getD k default) := by
  rw [List.getD_eq_getElem?_getD]
  by_cases hkm : k < m
  · rw [stepCtx_lt nm raw vs m hm hvs k hkm]; exact hfld _ _
  · have : k = m := by omega
    subst this
    rw [stepCtx_eq nm raw vs k hm hvs]; rfl

theorem stepCtx_highest (hm : m < raw.length) (hvs : vs.length = m) (w : Nat) (hw : 1 ≤ w) :
    ∃ k, m - w ≤ k ∧ k ≤ m ∧
      Mov.highest (stepCtx nm raw vs m).cs "high" (w : Int) (m : Int) = .ok (.num (numAt (·.h) raw k)) ∧
      (numAt (·.h) raw k).toF = winMax (fieldAt (·.h) raw) m w := by
  have hlen := stepCtx_length nm raw vs m hm hvs
  obtain ⟨k, h1, h2, h3, h4⟩ := highest_window (stepCtx nm raw vs m).cs "high" (·.h)
    (fun c => readingByCandle_high c) w m hw (by rw [hlen]; omega)
  have hg : ∀ k', k' ≤ m → ((stepCtx nm raw vs m).cs.getD k' default).h = (raw.getD k' default).h :=
    fun k' hk' => stepCtx_getD nm raw vs m hm hvs (·.h) (fun _ _ => rfl) k' hk'
  refine ⟨k, h1, h2, ?_, ?_⟩
  · rw [h3]; simp only [hg k h2]; rfl
  · refine winMax_unique (fieldAt (·.h) raw) m w k h1 h2 ?_
    intro k' h1' h2'
    have := h4 k' h1' h2'
    simp only [hg k h2, hg k' h2'] at this
    exact this

theorem stepCtx_lowest (hm : m < raw.length) (hvs : vs.length = m) (w : Nat) (hw : 1 ≤ w) :
    ∃ k, m - w ≤ k ∧ k ≤ m ∧
      Mov.lowest (stepCtx nm raw vs m).cs "low" (w : Int) (m : Int) = .ok (.num (numAt (·.l) raw k)) ∧
      (numAt (·.l) raw k).toF = winMin (fieldAt (·.l) raw) m w := by
  have hlen := stepCtx_length nm raw vs m hm hvs
  obtain ⟨k, h1, h2, h3, h4⟩ := lowest_window (stepCtx nm raw vs m).cs "low" (·.l)
    (fun c => readingByCandle_low c) w m hw (by rw [hlen]; omega)
  have hg : ∀ k', k' ≤ m → ((stepCtx nm raw vs m).cs.getD k' default).l = (raw.getD k' default).l :=
    fun k' hk' => stepCtx_getD nm raw vs m hm hvs (·.l) (fun _ _ => rfl) k' hk'
  refine ⟨k, h1, h2, ?_, ?_⟩
  · rw [h3]; simp only [hg k h2]; rfl
  · refine winMin_unique (fieldAt (·.l) raw) m w k h1 h2 ?_
    intro k' h1' h2'
    have := h4 k' h1' h2'
    simp only [hg k h2, hg k' h2'] at this
    exact this

end stepwin

/-! ## HighestLowest -/

/-- what the whole-series theorem says of the HighestLowest reading at index `j` (EVERY index: the
indicator has no warm-up): a dict `{low, high}` holding the low / high of two candles `kl`, `kh` of
the window `max(j−p, 0) … j` (`p + 1` candles once `j ≥ p`), with their type (an int stays an int,
a float is rounded), whose values are the lowest low / highest high of that window -/
def HlOK (p n : Nat) (hN lN : Nat → Num K) (j : Nat) (v : Val K) : Prop :=
  ∃ kl kh, (j - p ≤ kl ∧ kl ≤ j) ∧ (j - p ≤ kh ∧ kh ≤ j) ∧
    v = .dict [("low", .num ((lN kl).roundBy n)), ("high", .num ((hN kh).roundBy n))] ∧
    (lN kl).toF = winMin (fun k => (lN k).toF) j p ∧ (hN kh).toF = winMax (fun k => (hN k).toF) j p

/-- **C05 for the whole HighestLowest series**, period `p ≥ 1` (`p = 0` makes `movement.highest`
return `False`).  Readings from candle 0 on; window of `p + 1` candles, cut at candle 0. -/
theorem hl_series (p : Nat) (hp : 1 ≤ p) (nm : String) (n : Nat)
    (raw : List (Candle K)) (hraw : ∀ c ∈ raw, Plain c) :
    ∃ vs : List (Val K), vs.length = raw.length ∧
      rowMajor (mkTop (.hl p) nm n) raw = .ok (deco nm raw vs) ∧
      ∀ j, j < raw.length → HlOK p n (numAt (·.h) raw) (numAt (·.l) raw) j (vs.getD j .none) := by
  refine series_induct (mkTop (.hl p) nm n) nm rfl rfl raw _ ?_
  intro m hm vs hvs _
  change ∃ v, Calc.hl (stepCtx nm raw vs m) p = .ok v ∧ HlOK p n _ _ m (v.roundBy n)
  obtain ⟨kh, a1, a2, a3, a4⟩ := stepCtx_highest nm raw vs m hm hvs p hp
  obtain ⟨kl, b1, b2, b3, b4⟩ := stepCtx_lowest nm raw vs m hm hvs p hp
  exact ⟨_, hl_def (stepCtx nm raw vs m) p _ _ b3 a3, kl, kh, ⟨b1, b2⟩, ⟨a1, a2⟩, rfl, b4, a4⟩

/-! ## Donchian -/

/-- name hypotheses of a Donchian node: an ordinary key whose `DCU` field is addressed by a dotted name -/
structure DcNames (nm : String) : Prop where
  key : IsKey nm
  dcu : splitDot (nm ++ ".DCU") = [nm, "DCU"]

/-- the reading stored during warm-up -/
def dcNone : Val K := .dict [("DCL", .none), ("DCM", .none), ("DCU", .none)]

/-- what the whole-series theorem says of the Donchian reading at index `j`: all fields `None` up
to index `p − 2`; from index `p − 1` on `DCL` / `DCU` hold the low / high of two candles `kl`, `kh`
of the window `j−(p−1) … j` (the last `p` candles) with their type (an int stays an int, a float is
rounded), whose values are the lowest low / highest high of that window, and `DCM` is the rounding
of the mean of the two UNROUNDED bounds -/
def DcOK (p n : Nat) (hN lN : Nat → Num K) (j : Nat) (v : Val K) : Prop :=
  (j + 1 < p → v = dcNone) ∧
  (p ≤ j + 1 → ∃ kl kh, (j - (p - 1) ≤ kl ∧ kl ≤ j) ∧ (j - (p - 1) ≤ kh ∧ kh ≤ j) ∧
    v = .dict [("DCL", .num ((lN kl).roundBy n)),
               ("DCM", .num (.flt (PyF.round n (((hN kh).toF + (lN kl).toF) / 2)))),
               ("DCU", .num ((hN kh).roundBy n))] ∧
    (lN kl).toF = winMin (fun k => (lN k).toF) j (p - 1) ∧ (hN kh).toF = winMax (fun k => (hN k).toF) j (p - 1))

theorem stepCtx_prev_dcu (nm : String) (hn : DcNames nm) (raw : List (Candle K)) (vs : List (Val K)) (m : Nat)
    (hm : m < raw.length) (hvs : vs.length = m) (hraw : ∀ c ∈ raw, Plain c) :
    (stepCtx nm raw vs m).prevReading (nm ++ ".DCU")
      = .ok (if m = 0 then .none else (vs.getD (m - 1) .none).nested "DCU") := by
  unfold Ctx.prevReading
  have hl := stepCtx_length nm raw vs m hm hvs
  by_cases h0 : m = 0
  · subst h0; simp [stepCtx]
  · have h1 : ((stepCtx nm raw vs m).cs.length == 0) = false := by rw [hl]; simp
    have h2 : ((stepCtx nm raw vs m).i == 0) = false := by simp [stepCtx]; omega
    simp only [h1, h2, Bool.or_self, Bool.false_eq_true, if_false, h0]
    have e : (stepCtx nm raw vs m).i - 1 = ((m - 1 : Nat) : Int) := by simp [stepCtx]; omega
    rw [e]
    unfold Ctx.reading
    simp only [Option.getD_some]
    rw [pyIndex_nonneg _ _ (by omega)]
    simp only [Int.toNat_natCast]
    rw [stepCtx_lt nm raw vs m hm hvs (m - 1) (by omega)]
    simp only [getOrIndexError, pym_bind_ok, pym_pure]
    unfold readingByCandle
    rw [hn.dcu]
    simp [setKey, dlookup_dset_self]

/-- **C05 for the whole Donchian series**, period `p ≥ 2` (`p = 1` makes `movement.highest` return
`False`).  `None` fields up to index `p − 2`, first reading at index `p − 1`, window = the last `p`
candles. -/
theorem donchian_series (p : Nat) (hp : 2 ≤ p) (nm : String) (n : Nat) (hn : DcNames nm)
    (raw : List (Candle K)) (hraw : ∀ c ∈ raw, Plain c) :
    ∃ vs : List (Val K), vs.length = raw.length ∧
      rowMajor (mkTop (.donchian p) nm n) raw = .ok (deco nm raw vs) ∧
      ∀ j, j < raw.length → DcOK p n (numAt (·.h) raw) (numAt (·.l) raw) j (vs.getD j .none) := by
  refine series_induct (mkTop (.donchian p) nm n) nm rfl rfl raw _ ?_
  intro m hm vs hvs hQ
  change ∃ v, Calc.donchian (stepCtx nm raw vs m) p = .ok v ∧ DcOK p n _ _ m (v.roundBy n)
  have hprev := stepCtx_prev_dcu nm hn raw vs m hm hvs hraw
  have hper : (stepCtx nm raw vs m).readingPeriod (p : Int) "high" (some (stepCtx nm raw vs m).i) = decide (p ≤ m + 1) :=
    stepCtx_period nm "high" (·.h) raw vs m hm hvs noDot_high (fun _ => rfl) p (by omega)
  by_cases h1 : m + 1 < p
  · have hpn : (stepCtx nm raw vs m).prevReading ((stepCtx nm raw vs m).name ++ ".DCU") = .ok .none := by
      show (stepCtx nm raw vs m).prevReading (nm ++ ".DCU") = _
      rw [hprev]
      by_cases h0 : m = 0
      · simp [h0]
      · simp only [h0, if_false]
        rw [(hQ (m - 1) (by omega)).1 (by omega)]
        rfl
    refine ⟨_, donchian_none _ p hpn (by rw [hper]; simp; omega), fun _ => rfl, fun h => by omega⟩
  · have e : ((p : Int) - 1) = ((p - 1 : Nat) : Int) := by omega
    obtain ⟨kh, a1, a2, a3, a4⟩ := stepCtx_highest nm raw vs m hm hvs (p - 1) (by omega)
    obtain ⟨kl, b1, b2, b3, b4⟩ := stepCtx_lowest nm raw vs m hm hvs (p - 1) (by omega)
    have hd := donchian_def (stepCtx nm raw vs m) p _ (numAt (·.h) raw kh) (numAt (·.l) raw kl)
      (show (stepCtx nm raw vs m).prevReading (nm ++ ".DCU") = _ from hprev)
      (Or.inr (by rw [hper]; simp; omega)) (by rw [e]; exact a3) (by rw [e]; exact b3)
    exact ⟨_, hd, fun h => by omega, fun _ => ⟨kl, kh, ⟨b1, b2⟩, ⟨a1, a2⟩, rfl, b4, a4⟩⟩

/-! ## Aroon -/

/-- bars since the extreme of `x j, x (j−1), …, x (j−w)` in the order `lt` ("strictly better"),
scanning from the newest candle back: a later candle replaces the current extreme only if it is
STRICTLY better, so ties go to the most recent candle -/
def extBar (lt : K → K → Bool) (x : Nat → K) (j : Nat) : Nat → Nat
  | 0 => 0
  | w + 1 => if lt (x (j - extBar lt x j w)) (x (j - (w + 1))) then w + 1 else extBar lt x j w

/-- bars since the most recent highest value of the window `j−w … j` -/
def hiBar (x : Nat → K) (j w : Nat) : Nat := extBar (fun a b => decide (a < b)) x j w
/-- bars since the most recent lowest value of the window `j−w … j` -/
def loBar (x : Nat → K) (j w : Nat) : Nat := extBar (fun a b => decide (b < a)) x j w

theorem extBar_le (lt : K → K → Bool) (x : Nat → K) (j w : Nat) : extBar lt x j w ≤ w := by
  induction w with
  | zero => exact le_refl _
  | succ w ih => unfold extBar; split_ifs <;> omega

/-- `hiBar` is the offset of the MOST RECENT candle attaining the window's highest value -/
theorem hiBar_spec (x : Nat → K) (j w : Nat) :
    x (j - hiBar x j w) = winMax x j w ∧ ∀ d, d < hiBar x j w → x (j - d) < winMax x j w := by
  induction w with
  | zero => exact ⟨rfl, fun d hd => absurd hd (Nat.not_lt_zero d)⟩
  | succ w ih =>
    obtain ⟨h1, h2⟩ := ih
    have hle : hiBar x j w ≤ w := extBar_le _ x j w
    by_cases hc : x (j - hiBar x j w) < x (j - (w + 1))
    · have e : hiBar x j (w + 1) = w + 1 := by
        show extBar _ x j (w + 1) = _
        unfold extBar
        rw [if_pos (by simpa [hiBar] using hc)]
      rw [h1] at hc
      rw [e, winMax, max_eq_right hc.le]
      refine ⟨rfl, fun d hd => lt_of_le_of_lt (winMax_ge x j w d (by omega)) hc⟩
    · have e : hiBar x j (w + 1) = hiBar x j w := by
        show extBar _ x j (w + 1) = extBar _ x j w
        conv_lhs => unfold extBar
        rw [if_neg (by simpa [hiBar] using hc)]
      rw [h1] at hc
      rw [e, winMax, max_eq_left (not_lt.1 hc)]
      exact ⟨h1, h2⟩

theorem loBar_spec (x : Nat → K) (j w : Nat) :
    x (j - loBar x j w) = winMin x j w ∧ ∀ d, d < loBar x j w → winMin x j w < x (j - d) := by
  induction w with
  | zero => exact ⟨rfl, fun d hd => absurd hd (Nat.not_lt_zero d)⟩
  | succ w ih =>
    obtain ⟨h1, h2⟩ := ih
    have hle : loBar x j w ≤ w := extBar_le _ x j w
    by_cases hc : x (j - (w + 1)) < x (j - loBar x j w)
    · have e : loBar x j (w + 1) = w + 1 := by
        show extBar _ x j (w + 1) = _
        unfold extBar
        rw [if_pos (by simpa [loBar] using hc)]
      rw [h1] at hc
      rw [e, winMin, min_eq_right hc.le]
      refine ⟨rfl, fun d hd => lt_of_lt_of_le hc (winMin_le x j w d (by omega))⟩
    · have e : loBar x j (w + 1) = loBar x j w := by
        show extBar _ x j (w + 1) = extBar _ x j w
        conv_lhs => unfold extBar
        rw [if_neg (by simpa [loBar] using hc)]
      rw [h1] at hc
      rw [e, winMin, min_eq_left (not_lt.1 hc)]
      exact ⟨h1, h2⟩

/-- the scan of `highestbar` / `lowestbar` over the offsets `0 … w` of a candle-field window -/
theorem bar_fold (cs : List (Candle K)) (ind : String) (f : Candle K → Num K)
    (hf : ∀ c, readingByCandle c ind = .num (f c)) (better : Num K → Num K → Bool) (lt : K → K → Bool)
    (hb : ∀ a b : Num K, better a b = lt a.toF b.toF) (i : Nat) (hi : i < cs.length) :
    ∀ w, w ≤ i →
      ((List.range (w + 1)).map fun k : Nat => (i : Int) - (k : Int)).zipIdx.foldlM (barStep cs ind better) (none, 0)
        = .ok (some (f (cs.getD (i - extBar lt (fun k => (f (cs.getD k default)).toF) i w) default)),
               ((extBar lt (fun k => (f (cs.getD k default)).toF) i w : Nat) : Int)) := by
  intro w
  induction w with
  | zero =>
    intro _
    have hr : readingByIndex cs ind ((i : Int) - ((0 : Nat) : Int)) = .num (f (cs.getD i default)) := by
      have : (i : Int) - ((0 : Nat) : Int) = (i : Int) := by simp
      rw [this, readingByIndex_nat cs ind i hi, hf]
    simp only [List.range_succ, List.range_zero, List.nil_append, List.map_cons, List.map_nil,
      List.zipIdx_singleton, List.foldlM_cons, List.foldlM_nil]
    unfold barStep
    simp only [hr, Val.isNumber, Bool.not_true, Bool.false_eq_true, if_false, Val.asNum_num, pym_bind_ok]
    rfl
  | succ w ih =>
    intro hw
    rw [List.range_succ, List.map_append, List.zipIdx_append, List.foldlM_append, ih (by omega)]
    simp only [pym_bind_ok, List.map_cons, List.map_nil, List.zipIdx_singleton, List.length_map, List.length_range,
      Nat.zero_add, List.foldlM_cons, List.foldlM_nil]
    have hr : readingByIndex cs ind ((i : Int) - ((w + 1 : Nat) : Int)) = .num (f (cs.getD (i - (w + 1)) default)) := by
      have : (i : Int) - ((w + 1 : Nat) : Int) = ((i - (w + 1) : Nat) : Int) := by omega
      rw [this, readingByIndex_nat cs ind _ (by omega), hf]
    unfold barStep
    simp only [hr, Val.isNumber, Bool.not_true, Bool.false_eq_true, if_false, Val.asNum_num, pym_bind_ok, hb]
    conv_rhs => unfold extBar
    by_cases hc : lt (f (cs.getD (i - extBar lt (fun k => (f (cs.getD k default)).toF) i w) default)).toF
        (f (cs.getD (i - (w + 1)) default)).toF = true
    · simp only [hc, if_true]; rfl
    · simp only [hc, if_false]; rfl

/-- `movement.highestbar/lowestbar` over a full candle-field window of `w + 1` candles -/
theorem extremeBar_window (cs : List (Candle K)) (ind : String) (f : Candle K → Num K)
    (hf : ∀ c, readingByCandle c ind = .num (f c)) (better : Num K → Num K → Bool) (lt : K → K → Bool)
    (hb : ∀ a b : Num K, better a b = lt a.toF b.toF) (i w : Nat) (hi : i < cs.length) (hw : w ≤ i) :
    Mov.extremeBar cs ind ((w : Int) + 1) (i : Int) better
      = .ok (.int ((extBar lt (fun k => (f (cs.getD k default)).toF) i w : Nat) : Int)) := by
  unfold Mov.extremeBar
  rw [absIndex_nat i cs.length hi]
  have e1 : (if (i : Int) - ((w : Int) + 1) < -1 then (-1 : Int) else (i : Int) - ((w : Int) + 1))
      = (i : Int) - ((w : Int) + 1) := by
    rw [if_neg (by omega)]
  have e2 : pyRangeDown (i : Int) ((i : Int) - ((w : Int) + 1))
      = (List.range (w + 1)).map fun k : Nat => (i : Int) - (k : Int) := by
    unfold pyRangeDown
    have : ((i : Int) - ((i : Int) - ((w : Int) + 1))).toNat = w + 1 := by omega
    rw [this]
  show (do
      let r ← (pyRangeDown (i : Int) (if (i : Int) - ((w : Int) + 1) < -1 then -1 else (i : Int) - ((w : Int) + 1))).zipIdx.foldlM
        (barStep cs ind better) (none, 0)
      pure (Val.int r.2)) = _
  rw [e1, e2, bar_fold cs ind f hf better lt hb i hi w hw]
  rfl

theorem extBar_congr (lt : K → K → Bool) (x y : Nat → K) (j : Nat) (h : ∀ k, k ≤ j → x k = y k) :
    ∀ w, extBar lt x j w = extBar lt y j w := by
  intro w
  induction w with
  | zero => rfl
  | succ w ih =>
    unfold extBar
    rw [ih, h _ (Nat.sub_le _ _), h _ (Nat.sub_le _ _)]

/-- Aroon value for an extreme `b` bars back: `100·(p − b)/p` -/
def aroonOf (p b : Nat) : K := ((p : K) - (b : K)) / (p : K) * 100

theorem aroonOf_range (p b : Nat) (hp : 1 ≤ p) (hb : b ≤ p) : (0 : K) ≤ aroonOf p b ∧ aroonOf p b ≤ (100 : K) := by
  have hpK : (0 : K) < p := by exact_mod_cast (by omega : 0 < p)
  have h0 : (0 : K) ≤ b := by exact_mod_cast Nat.zero_le b
  have h1 : (b : K) ≤ p := by exact_mod_cast hb
  unfold aroonOf
  constructor
  · exact mul_nonneg (div_nonneg (by linarith) hpK.le) (by norm_num)
  · have : ((p : K) - b) / p ≤ 1 := by rw [div_le_one hpK]; linarith
    linarith

theorem round_neg_hundred (n : Nat) : PyF.round n (-100 : K) = -100 := by
  have h := LawfulPyF.round_grid (K := K) n (-100 * 10 ^ n)
  have hp : (10 : K) ^ n ≠ 0 := by positivity
  have e : (((-100 * 10 ^ n : Int)) : K) / 10 ^ n = -100 := by
    push_cast; field_simp
  rw [e] at h; exact h

/-- the reading stored during warm-up -/
def aroonNone : Val K := .dict [("AROONU", .none), ("AROOND", .none), ("AROONOSC", .none)]

/-- the reading stored from the warm-up index on, from the two bar offsets -/
def aroonVal (p n hb lb : Nat) : Val K :=
  .dict [("AROONU", .num (.flt (PyF.round n (aroonOf p hb)))),
         ("AROOND", .num (.flt (PyF.round n (aroonOf p lb)))),
         ("AROONOSC", .num (.flt (PyF.round n (aroonOf p hb - aroonOf p lb))))]

/-- what the whole-series theorem says of the Aroon reading at index `j`: all fields `None` up to
index `p − 1`; from index `p` on `AROONU = round n (100·(p − hiBar)/p)` with `hiBar` = bars since
the most recent highest high of the last `p + 1` candles, `AROOND` likewise for the lowest low, and
`AROONOSC` = the rounding of the UNROUNDED difference -/
def AroonOK (p n : Nat) (h l : Nat → K) (j : Nat) (v : Val K) : Prop :=
  (j < p → v = aroonNone) ∧ (p ≤ j → v = aroonVal p n (hiBar h j p) (loBar l j p))

theorem lt_dec (a b : Num K) : a.lt b = decide (a.toF < b.toF) := by
  rw [Bool.eq_iff_iff, Num.lt_iff]; simp

/-- **C06 for the whole Aroon series**, period `p ≥ 1`.  `None` fields up to index `p − 1`, first
reading at index `p`, window = the last `p + 1` candles, most recent extreme on ties. -/
theorem aroon_series (p : Nat) (hp : 1 ≤ p) (nm : String) (n : Nat)
    (raw : List (Candle K)) (hraw : ∀ c ∈ raw, Plain c) :
    ∃ vs : List (Val K), vs.length = raw.length ∧
      rowMajor (mkTop (.aroon p) nm n) raw = .ok (deco nm raw vs) ∧
      ∀ j, j < raw.length → AroonOK p n (fieldAt (·.h) raw) (fieldAt (·.l) raw) j (vs.getD j .none) := by
  refine series_induct (mkTop (.aroon p) nm n) nm rfl rfl raw _ ?_
  intro m hm vs hvs _
  change ∃ v, Calc.aroon (stepCtx nm raw vs m) p = .ok v ∧ AroonOK p n _ _ m (v.roundBy n)
  have hper : (stepCtx nm raw vs m).readingPeriod ((p : Int) + 1) "high" = decide (p + 1 ≤ m + 1) := by
    have := stepCtx_period nm "high" (·.h) raw vs m hm hvs noDot_high (fun _ => rfl) (p + 1) (by omega)
    rw [show ((p + 1 : Nat) : Int) = (p : Int) + 1 by push_cast; rfl] at this
    exact this
  by_cases h1 : m < p
  · exact ⟨_, aroon_none _ p (by rw [hper]; simp; omega), fun _ => rfl, fun h => by omega⟩
  · have hlen := stepCtx_length nm raw vs m hm hvs
    have hH := extremeBar_window (stepCtx nm raw vs m).cs "high" (·.h) (fun c => readingByCandle_high c)
      (fun best c => best.lt c) (fun a b => decide (a < b)) (fun a b => lt_dec a b) m p (by rw [hlen]; omega) (by omega)
    have hL := extremeBar_window (stepCtx nm raw vs m).cs "low" (·.l) (fun c => readingByCandle_low c)
      (fun best c => best.gt c) (fun a b => decide (b < a)) (fun a b => lt_dec b a) m p (by rw [hlen]; omega) (by omega)
    rw [extBar_congr _ _ (fieldAt (·.h) raw) m
      (fun k hk => congrArg Num.toF (stepCtx_getD nm raw vs m hm hvs (·.h) (fun _ _ => rfl) k hk))] at hH
    rw [extBar_congr _ _ (fieldAt (·.l) raw) m
      (fun k hk => congrArg Num.toF (stepCtx_getD nm raw vs m hm hvs (·.l) (fun _ _ => rfl) k hk))] at hL
    have hpK : (((p : Nat) : Int) : K) ≠ 0 := by
      have : (p : K) ≠ 0 := by exact_mod_cast (by omega : p ≠ 0)
      simpa using this
    have hd := aroon_def (stepCtx nm raw vs m) p _ _ (by rw [hper]; simp; omega) hH hL hpK
    refine ⟨_, hd, fun h => by omega, fun _ => ?_⟩
    simp [Val.roundBy, Scalar.roundBy, Num.roundBy, Num.mul, Num.sub, Num.toF, LawfulPyF.mul_eq, LawfulPyF.sub_eq,
      LawfulPyF.ofInt_eq, aroonVal, aroonOf, hiBar, loBar]

/-! ## the statements read off the stored fields -/

theorem numNear_roundBy (n : Nat) (t : Num K) : NumNear n t.toF (.num (t.roundBy n)) :=
  ⟨_, rfl, Num.roundBy_err n t⟩

/-- **HighestLowest, field by field**: `low` / `high` are numbers within `ε` of the lowest low /
highest high of the window (exactly equal for int prices), and the window encloses the candle's
own low and high. -/
theorem hlOK_near (p n : Nat) (hN lN : Nat → Num K) (j : Nat) (v : Val K) (h : HlOK p n hN lN j v) :
    NumNear n (winMin (fun k => (lN k).toF) j p) (v.nested "low") ∧
    NumNear n (winMax (fun k => (hN k).toF) j p) (v.nested "high") ∧
    winMin (fun k => (lN k).toF) j p ≤ (lN j).toF ∧ (hN j).toF ≤ winMax (fun k => (hN k).toF) j p := by
  obtain ⟨kl, kh, _, _, rfl, e1, e2⟩ := h
  refine ⟨?_, ?_, winMin_self (fun k => (lN k).toF) j p, winMax_self (fun k => (hN k).toF) j p⟩
  · rw [← e1]; exact numNear_roundBy n _
  · rw [← e2]; exact numNear_roundBy n _

/-- **Donchian, field by field** (from index `p − 1` on): `DCL` / `DCU` within `ε` of the lowest
low / highest high of the last `p` candles, `DCM` within `ε` of their mean; the exact channel
encloses the candle's own low and high and its own middle. -/
theorem dcOK_near (p n : Nat) (hN lN : Nat → Num K) (j : Nat) (v : Val K) (h : DcOK p n hN lN j v)
    (hj : p ≤ j + 1) :
    NumNear n (winMin (fun k => (lN k).toF) j (p - 1)) (v.nested "DCL") ∧
    NumNear n (winMax (fun k => (hN k).toF) j (p - 1)) (v.nested "DCU") ∧
    NumNear n ((winMax (fun k => (hN k).toF) j (p - 1) + winMin (fun k => (lN k).toF) j (p - 1)) / 2)
      (v.nested "DCM") ∧
    winMin (fun k => (lN k).toF) j (p - 1) ≤ (lN j).toF ∧ (hN j).toF ≤ winMax (fun k => (hN k).toF) j (p - 1) := by
  obtain ⟨kl, kh, _, _, rfl, e1, e2⟩ := h.2 hj
  refine ⟨?_, ?_, ?_, winMin_self (fun k => (lN k).toF) j _, winMax_self (fun k => (hN k).toF) j _⟩
  · rw [← e1]; exact numNear_roundBy n _
  · rw [← e2]; exact numNear_roundBy n _
  · rw [← e1, ← e2]
    exact ⟨_, rfl, LawfulPyF.round_err n _⟩

/-- **Aroon, field by field** (from index `p` on): `AROONU`, `AROOND` are floats within `ε` of
`100·(p − bars)/p` and inside `[0, 100]`; `AROONOSC` is within `ε` of their exact difference and
inside `[−100, 100]`. -/
theorem aroonOK_near (p n : Nat) (hp : 1 ≤ p) (h l : Nat → K) (j : Nat) (v : Val K)
    (hv : AroonOK p n h l j v) (hj : p ≤ j) :
    ∃ u d o : K, v.nested "AROONU" = .flt u ∧ v.nested "AROOND" = .flt d ∧ v.nested "AROONOSC" = .flt o ∧
      |u - aroonOf p (hiBar h j p)| ≤ eps K n ∧ 0 ≤ u ∧ u ≤ 100 ∧
      |d - aroonOf p (loBar l j p)| ≤ eps K n ∧ 0 ≤ d ∧ d ≤ 100 ∧
      |o - (aroonOf p (hiBar h j p) - aroonOf p (loBar l j p))| ≤ eps K n ∧ -100 ≤ o ∧ o ≤ 100 := by
  rw [hv.2 hj]
  obtain ⟨a0, a1⟩ := aroonOf_range (K := K) p (hiBar h j p) hp (extBar_le _ h j p)
  obtain ⟨b0, b1⟩ := aroonOf_range (K := K) p (loBar l j p) hp (extBar_le _ l j p)
  refine ⟨_, _, _, rfl, rfl, rfl, LawfulPyF.round_err n _, ?_, ?_, LawfulPyF.round_err n _, ?_, ?_,
    LawfulPyF.round_err n _, ?_, ?_⟩
  · rw [← round_zero (K := K) n]; exact LawfulPyF.round_mono n a0
  · rw [← round_hundred (K := K) n]; exact LawfulPyF.round_mono n a1
  · rw [← round_zero (K := K) n]; exact LawfulPyF.round_mono n b0
  · rw [← round_hundred (K := K) n]; exact LawfulPyF.round_mono n b1
  · rw [← round_neg_hundred (K := K) n]; exact LawfulPyF.round_mono n (by linarith)
  · rw [← round_hundred (K := K) n]; exact LawfulPyF.round_mono n (by linarith)

/-! ## the leaf kinds through the engine -/

/-- for a covered leaf kind the row-major run is what `calculate()` and the batch run return -/
theorem leaf_series_engine (k : Kind K) (nm : String) (n : Nat) (hc : Covered nm k)
    (raw : List (Candle K)) (hraw : ∀ c ∈ raw, Plain c) (out : List (Candle K))
    (h : rowMajor (mkTop k nm n) raw = .ok out) :
    engineCalc (mkTop k nm n) raw = .ok out ∧
    candlesOf (runIndicator (mkTop k nm n) {} raw []) = .ok out := by
  obtain ⟨C⟩ := hc.contract n
  have hrun : Gen.rowMajor (TreeSpec.ofLeaf _ (hc.isLeaf n) C).S raw = .ok out := h
  constructor
  · have := ((TreeSpec.ofLeaf _ (hc.isLeaf n) C).engine [] raw [] out rfl (by simp) hraw).2 (by simpa using hrun)
    simpa using this
  · exact ((TreeSpec.ofLeaf _ (hc.isLeaf n) C).batch_iff (MgrSpec.base K) raw hraw _).2 hrun

/-- … and what every append schedule returns -/
theorem leaf_series_live (k : Kind K) (nm : String) (n : Nat) (hc : Covered nm k)
    (init : List (Candle K)) (chunks : List (List (Candle K)))
    (hraw : ∀ c ∈ init ++ chunks.flatten, Plain c) (snap out : List (Candle K))
    (hsnap : candlesOf (runIndicator (mkTop k nm n) {} init chunks) = .ok snap)
    (h : rowMajor (mkTop k nm n) (init ++ chunks.flatten) = .ok out) : snap = out := by
  obtain ⟨C⟩ := hc.contract n
  have h1 := (TreeSpec.ofLeaf _ (hc.isLeaf n) C).live_refines (MgrSpec.base K) init chunks hraw snap hsnap
  have h2 : rowMajor (mkTop k nm n) (init ++ chunks.flatten) = .ok snap := h1
  rw [h] at h2
  exact (Except.ok.inj h2).symm

/-- **HighestLowest, whole series, through the engine and the object** -/
theorem hl_series_batch (p : Nat) (hp : 1 ≤ p) (nm : String) (n : Nat)
    (raw : List (Candle K)) (hraw : ∀ c ∈ raw, Plain c) :
    ∃ vs : List (Val K), vs.length = raw.length ∧
      engineCalc (mkTop (.hl p : Kind K) nm n) raw = .ok (deco nm raw vs) ∧
      candlesOf (runIndicator (mkTop (.hl p : Kind K) nm n) {} raw []) = .ok (deco nm raw vs) ∧
      ∀ j, j < raw.length → HlOK p n (numAt (·.h) raw) (numAt (·.l) raw) j (vs.getD j .none) := by
  obtain ⟨vs, hl, hrun, hall⟩ := hl_series p hp nm n raw hraw
  obtain ⟨h1, h2⟩ := leaf_series_engine _ nm n (Covered.hl p) raw hraw _ hrun
  exact ⟨vs, hl, h1, h2, hall⟩

theorem hl_series_live (p : Nat) (hp : 1 ≤ p) (nm : String) (n : Nat)
    (init : List (Candle K)) (chunks : List (List (Candle K)))
    (hraw : ∀ c ∈ init ++ chunks.flatten, Plain c) (snap : List (Candle K))
    (hsnap : candlesOf (runIndicator (mkTop (.hl p : Kind K) nm n) {} init chunks) = .ok snap) :
    ∃ vs : List (Val K), vs.length = (init ++ chunks.flatten).length ∧
      snap = deco nm (init ++ chunks.flatten) vs ∧
      ∀ j, j < (init ++ chunks.flatten).length →
        HlOK p n (numAt (·.h) (init ++ chunks.flatten)) (numAt (·.l) (init ++ chunks.flatten)) j (vs.getD j .none) := by
  obtain ⟨vs, hl, hrun, hall⟩ := hl_series p hp nm n _ hraw
  exact ⟨vs, hl, leaf_series_live _ nm n (Covered.hl p) init chunks hraw snap _ hsnap hrun, hall⟩

/-- **Donchian, whole series, through the engine and the object** -/
theorem donchian_series_batch (p : Nat) (hp : 2 ≤ p) (nm : String) (n : Nat) (hn : DcNames nm)
    (raw : List (Candle K)) (hraw : ∀ c ∈ raw, Plain c) :
    ∃ vs : List (Val K), vs.length = raw.length ∧
      engineCalc (mkTop (.donchian p : Kind K) nm n) raw = .ok (deco nm raw vs) ∧
      candlesOf (runIndicator (mkTop (.donchian p : Kind K) nm n) {} raw []) = .ok (deco nm raw vs) ∧
      ∀ j, j < raw.length → DcOK p n (numAt (·.h) raw) (numAt (·.l) raw) j (vs.getD j .none) := by
  obtain ⟨vs, hl, hrun, hall⟩ := donchian_series p hp nm n hn raw hraw
  obtain ⟨h1, h2⟩ := leaf_series_engine _ nm n (Covered.donchian (p : Int) (by omega)) raw hraw _ hrun
  exact ⟨vs, hl, h1, h2, hall⟩

theorem donchian_series_live (p : Nat) (hp : 2 ≤ p) (nm : String) (n : Nat) (hn : DcNames nm)
    (init : List (Candle K)) (chunks : List (List (Candle K)))
    (hraw : ∀ c ∈ init ++ chunks.flatten, Plain c) (snap : List (Candle K))
    (hsnap : candlesOf (runIndicator (mkTop (.donchian p : Kind K) nm n) {} init chunks) = .ok snap) :
    ∃ vs : List (Val K), vs.length = (init ++ chunks.flatten).length ∧
      snap = deco nm (init ++ chunks.flatten) vs ∧
      ∀ j, j < (init ++ chunks.flatten).length →
        DcOK p n (numAt (·.h) (init ++ chunks.flatten)) (numAt (·.l) (init ++ chunks.flatten)) j (vs.getD j .none) := by
  obtain ⟨vs, hl, hrun, hall⟩ := donchian_series p hp nm n hn _ hraw
  exact ⟨vs, hl, leaf_series_live _ nm n (Covered.donchian (p : Int) (by omega)) init chunks hraw snap _ hsnap hrun, hall⟩

/-- **Aroon, whole series, through the engine and the object** -/
theorem aroon_series_batch (p : Nat) (hp : 1 ≤ p) (nm : String) (n : Nat)
    (raw : List (Candle K)) (hraw : ∀ c ∈ raw, Plain c) :
    ∃ vs : List (Val K), vs.length = raw.length ∧
      engineCalc (mkTop (.aroon p : Kind K) nm n) raw = .ok (deco nm raw vs) ∧
      candlesOf (runIndicator (mkTop (.aroon p : Kind K) nm n) {} raw []) = .ok (deco nm raw vs) ∧
      ∀ j, j < raw.length → AroonOK p n (fieldAt (·.h) raw) (fieldAt (·.l) raw) j (vs.getD j .none) := by
  obtain ⟨vs, hl, hrun, hall⟩ := aroon_series p hp nm n raw hraw
  obtain ⟨h1, h2⟩ := leaf_series_engine _ nm n (Covered.aroon (p : Int) (by omega)) raw hraw _ hrun
  exact ⟨vs, hl, h1, h2, hall⟩

theorem aroon_series_live (p : Nat) (hp : 1 ≤ p) (nm : String) (n : Nat)
    (init : List (Candle K)) (chunks : List (List (Candle K)))
    (hraw : ∀ c ∈ init ++ chunks.flatten, Plain c) (snap : List (Candle K))
    (hsnap : candlesOf (runIndicator (mkTop (.aroon p : Kind K) nm n) {} init chunks) = .ok snap) :
    ∃ vs : List (Val K), vs.length = (init ++ chunks.flatten).length ∧
      snap = deco nm (init ++ chunks.flatten) vs ∧
      ∀ j, j < (init ++ chunks.flatten).length →
        AroonOK p n (fieldAt (·.h) (init ++ chunks.flatten)) (fieldAt (·.l) (init ++ chunks.flatten)) j (vs.getD j .none) := by
  obtain ⟨vs, hl, hrun, hall⟩ := aroon_series p hp nm n _ hraw
  exact ⟨vs, hl, leaf_series_live _ nm n (Covered.aroon (p : Int) (by omega)) init chunks hraw snap _ hsnap hrun, hall⟩

/-! ### non-vacuity on the five demo candles (highs 12 13 15 16 15, lows 9 10 11 13 15) -/

example : ∃ vs : List (Val ℚ), vs.length = winDemoRaw.length ∧
    engineCalc (mkTop (.hl ((2 : Nat) : Int) : Kind ℚ) "HL_2" 4) winDemoRaw = .ok (deco "HL_2" winDemoRaw vs) ∧
    candlesOf (runIndicator (mkTop (.hl ((2 : Nat) : Int) : Kind ℚ) "HL_2" 4) {} winDemoRaw []) = .ok (deco "HL_2" winDemoRaw vs) ∧
    ∀ j, j < winDemoRaw.length → HlOK 2 4 (numAt (·.h) winDemoRaw) (numAt (·.l) winDemoRaw) j (vs.getD j .none) :=
  hl_series_batch 2 (by norm_num) "HL_2" 4 winDemoRaw winDemoRaw_plain

theorem dcNames_demo : DcNames "DONCHIAN_3" := ⟨by decide, by decide⟩

example : ∃ vs : List (Val ℚ), vs.length = winDemoRaw.length ∧
    engineCalc (mkTop (.donchian ((3 : Nat) : Int) : Kind ℚ) "DONCHIAN_3" 4) winDemoRaw = .ok (deco "DONCHIAN_3" winDemoRaw vs) ∧
    candlesOf (runIndicator (mkTop (.donchian ((3 : Nat) : Int) : Kind ℚ) "DONCHIAN_3" 4) {} winDemoRaw [])
      = .ok (deco "DONCHIAN_3" winDemoRaw vs) ∧
    ∀ j, j < winDemoRaw.length → DcOK 3 4 (numAt (·.h) winDemoRaw) (numAt (·.l) winDemoRaw) j (vs.getD j .none) :=
  donchian_series_batch 3 (by norm_num) "DONCHIAN_3" 4 dcNames_demo winDemoRaw winDemoRaw_plain

example : ∃ vs : List (Val ℚ), vs.length = winDemoRaw.length ∧
    engineCalc (mkTop (.aroon ((2 : Nat) : Int) : Kind ℚ) "AROON_2" 4) winDemoRaw = .ok (deco "AROON_2" winDemoRaw vs) ∧
    candlesOf (runIndicator (mkTop (.aroon ((2 : Nat) : Int) : Kind ℚ) "AROON_2" 4) {} winDemoRaw [])
      = .ok (deco "AROON_2" winDemoRaw vs) ∧
    ∀ j, j < winDemoRaw.length → AroonOK 2 4 (fieldAt (·.h) winDemoRaw) (fieldAt (·.l) winDemoRaw) j (vs.getD j .none) :=
  aroon_series_batch 2 (by norm_num) "AROON_2" 4 winDemoRaw winDemoRaw_plain

/-- the textbook values on the demo candles at the last index (window = candles 2, 3, 4) -/
example : winMax (fieldAt (·.h) winDemoRaw) 4 2 = 16 := by
  norm_num [winMax, fieldAt, winDemoRaw, Demo.mk]
example : winMin (fieldAt (·.l) winDemoRaw) 4 2 = 11 := by
  norm_num [winMin, fieldAt, winDemoRaw, Demo.mk]
example : hiBar (fieldAt (·.h) winDemoRaw) 4 2 = 1 := by
  norm_num [hiBar, extBar, fieldAt, winDemoRaw, Demo.mk]
example : loBar (fieldAt (·.l) winDemoRaw) 4 2 = 2 := by
  norm_num [loBar, extBar, fieldAt, winDemoRaw, Demo.mk]
example : aroonOf (K := ℚ) 2 1 = 50 := by norm_num [aroonOf]
example : aroonOf (K := ℚ) 2 2 = 0 := by norm_num [aroonOf]

theorem round_int_q (n : Nat) (k : Int) : PyF.round n ((k : ℚ)) = (k : ℚ) := by
  have h := LawfulPyF.round_grid (K := ℚ) n (k * 10 ^ n)
  have hp : (10 : ℚ) ^ n ≠ 0 := by positivity
  have e : (((k * 10 ^ n : Int)) : ℚ) / 10 ^ n = k := by
    push_cast; field_simp
  rw [e] at h; exact h

/-- the batch run on the demo candles: Aroon(2) at index 1 is all `None`, at index 4 it is
`{AROONU: 50.0, AROOND: 0.0, AROONOSC: 50.0}` -/
example : ∃ vs : List (Val ℚ),
    candlesOf (runIndicator (mkTop (.aroon ((2 : Nat) : Int) : Kind ℚ) "AROON_2" 4) {} winDemoRaw [])
      = .ok (deco "AROON_2" winDemoRaw vs) ∧
    vs.getD 1 .none = aroonNone ∧
    vs.getD 4 .none = .dict [("AROONU", .num (.flt 50)), ("AROOND", .num (.flt 0)), ("AROONOSC", .num (.flt 50))] := by
  obtain ⟨vs, _, _, hrun, hall⟩ := aroon_series_batch 2 (by norm_num) "AROON_2" 4 winDemoRaw winDemoRaw_plain
  refine ⟨vs, hrun, (hall 1 (by decide)).1 (by decide), ?_⟩
  rw [(hall 4 (by decide)).2 (by decide)]
  have e1 : hiBar (fieldAt (·.h) winDemoRaw) 4 2 = 1 := by
    norm_num [hiBar, extBar, fieldAt, winDemoRaw, Demo.mk]
  have e2 : loBar (fieldAt (·.l) winDemoRaw) 4 2 = 2 := by
    norm_num [loBar, extBar, fieldAt, winDemoRaw, Demo.mk]
  have a1 : aroonOf (K := ℚ) 2 1 = ((50 : Int) : ℚ) := by norm_num [aroonOf]
  have a2 : aroonOf (K := ℚ) 2 2 = ((0 : Int) : ℚ) := by norm_num [aroonOf]
  have a3 : aroonOf (K := ℚ) 2 1 - aroonOf (K := ℚ) 2 2 = ((50 : Int) : ℚ) := by norm_num [aroonOf]
  rw [e1, e2]
  unfold aroonVal
  rw [a3, a1, a2, round_int_q, round_int_q]
  norm_num

/-- … HighestLowest(2) at index 4 is `{low: 11, high: 16}` (ints stay ints) and at index 0
`{low: 9, high: 12}` (no warm-up) -/
example : ∃ vs : List (Val ℚ),
    candlesOf (runIndicator (mkTop (.hl ((2 : Nat) : Int) : Kind ℚ) "HL_2" 4) {} winDemoRaw [])
      = .ok (deco "HL_2" winDemoRaw vs) ∧
    vs.getD 0 .none = .dict [("low", .num (.int 9)), ("high", .num (.int 12))] ∧
    vs.getD 4 .none = .dict [("low", .num (.int 11)), ("high", .num (.int 16))] := by
  obtain ⟨vs, _, _, hrun, hall⟩ := hl_series_batch 2 (by norm_num) "HL_2" 4 winDemoRaw winDemoRaw_plain
  refine ⟨vs, hrun, ?_, ?_⟩
  · obtain ⟨kl, kh, ⟨_, b2⟩, ⟨_, c2⟩, hv, _, _⟩ := hall 0 (by decide)
    have : kl = 0 := by omega
    have : kh = 0 := by omega
    subst_vars
    rw [hv]; rfl
  · obtain ⟨kl, kh, ⟨b1, b2⟩, ⟨c1, c2⟩, hv, e1, e2⟩ := hall 4 (by decide)
    rw [hv]
    have w1 : winMin (fun k => (numAt (·.l) winDemoRaw k).toF) 4 2 = 11 := by
      norm_num [winMin, numAt, winDemoRaw, Demo.mk, Num.toF, LawfulPyF.ofInt_eq]
    have w2 : winMax (fun k => (numAt (·.h) winDemoRaw k).toF) 4 2 = 16 := by
      norm_num [winMax, numAt, winDemoRaw, Demo.mk, Num.toF, LawfulPyF.ofInt_eq]
    rw [w1] at e1; rw [w2] at e2
    have hkl : kl = 2 := by
      interval_cases kl <;> first | rfl | (exfalso; revert e1; norm_num [numAt, winDemoRaw, Demo.mk, Num.toF, LawfulPyF.ofInt_eq])
    have hkh : kh = 3 := by
      interval_cases kh <;> first | rfl | (exfalso; revert e2; norm_num [numAt, winDemoRaw, Demo.mk, Num.toF, LawfulPyF.ofInt_eq])
    subst hkl hkh
    rfl

/-- … Donchian(3) at index 1 is all `None`, at index 4 it is `{DCL: 11, DCM: 13.5, DCU: 16}` -/
example : ∃ vs : List (Val ℚ),
    candlesOf (runIndicator (mkTop (.donchian ((3 : Nat) : Int) : Kind ℚ) "DONCHIAN_3" 4) {} winDemoRaw [])
      = .ok (deco "DONCHIAN_3" winDemoRaw vs) ∧
    vs.getD 1 .none = dcNone ∧
    vs.getD 4 .none = .dict [("DCL", .num (.int 11)), ("DCM", .num (.flt (27 / 2))), ("DCU", .num (.int 16))] := by
  obtain ⟨vs, _, _, hrun, hall⟩ := donchian_series_batch 3 (by norm_num) "DONCHIAN_3" 4 dcNames_demo winDemoRaw winDemoRaw_plain
  refine ⟨vs, hrun, (hall 1 (by decide)).1 (by decide), ?_⟩
  obtain ⟨kl, kh, ⟨b1, b2⟩, ⟨c1, c2⟩, hv, e1, e2⟩ := (hall 4 (by decide)).2 (by decide)
  rw [hv]
  have w1 : winMin (fun k => (numAt (·.l) winDemoRaw k).toF) 4 (3 - 1) = 11 := by
    norm_num [winMin, numAt, winDemoRaw, Demo.mk, Num.toF, LawfulPyF.ofInt_eq]
  have w2 : winMax (fun k => (numAt (·.h) winDemoRaw k).toF) 4 (3 - 1) = 16 := by
    norm_num [winMax, numAt, winDemoRaw, Demo.mk, Num.toF, LawfulPyF.ofInt_eq]
  rw [w1] at e1; rw [w2] at e2
  have hkl : kl = 2 := by
    interval_cases kl <;> first | rfl | (exfalso; revert e1; norm_num [numAt, winDemoRaw, Demo.mk, Num.toF, LawfulPyF.ofInt_eq])
  have hkh : kh = 3 := by
    interval_cases kh <;> first | rfl | (exfalso; revert e2; norm_num [numAt, winDemoRaw, Demo.mk, Num.toF, LawfulPyF.ofInt_eq])
  subst hkl hkh
  have hm : PyF.round 4 (((numAt (·.h) winDemoRaw 3).toF + (numAt (·.l) winDemoRaw 2).toF) / 2) = (27 / 2 : ℚ) := by
    have h := LawfulPyF.round_grid (K := ℚ) 4 135000
    have e : (((135000 : Int)) : ℚ) / 10 ^ 4 = 27 / 2 := by norm_num
    rw [e] at h
    rw [e1, e2]
    norm_num
    exact h
  rw [hm]
  rfl

/-- … and VWAP at index 4 is a number within `ε` of `7400/600 = 37/3` -/
example : ∃ out : List (Candle ℚ),
    Gen.rowMajor (vwapTree (F := ℚ) "VWAP_10" 4 10).S winDemoRaw = .ok out ∧
    NumNear 4 (37 / 3) (readingByCandle (out.getD 4 default) "VWAP_10") := by
  obtain ⟨out, _, hrun, hall⟩ := vwap_series_candles 10 "VWAP_10" 4 vwapNames_demo winDemoRaw winDemoRaw_plain
  refine ⟨out, hrun, ?_⟩
  have e : vwapExact (fieldAt (·.h) winDemoRaw) (fieldAt (·.l) winDemoRaw) (fieldAt (·.c) winDemoRaw)
      (fieldAt (·.v) winDemoRaw) 4 = 37 / 3 := by
    norm_num [vwapExact, cumPV, cumSum, typAt, fieldAt, winDemoRaw, Demo.mk]
  have := (hall 4 (by decide)).1
  rwa [e] at this

#print axioms vwap_series
#print axioms vwap_series_candles
#print axioms vwap_series_engine
#print axioms vwap_series_batch
#print axioms vwap_series_live
#print axioms hl_series
#print axioms hl_series_batch
#print axioms hl_series_live
#print axioms hlOK_near
#print axioms donchian_series
#print axioms donchian_series_batch
#print axioms donchian_series_live
#print axioms dcOK_near
#print axioms aroon_series
#print axioms aroon_series_batch
#print axioms aroon_series_live
#print axioms aroonOK_near
#print axioms hiBar_spec
#print axioms loBar_spec

end Numeric
end Hex

import HexProofs.Numeric.SeriesATR
import HexProofs.Numeric.SeriesRSI
import HexProofs.Numeric.SeriesKC
import HexProofs.Numeric.SeriesStdevBB
import HexProofs.Numeric.SeriesSupertrend
import HexProofs.Numeric.SeriesMACD
import HexProofs.Numeric.SeriesSTOCH
import HexProofs.Numeric.SeriesTSI
import HexProofs.Numeric.SeriesADX
import HexProofs.Numeric.SeriesHMA
import HexProofs.Numeric.SeriesWindows
import HexProofs.Numeric.SeriesUtility
/-!
# Totality of the composite indicators (property C09)

The whole-series files `Series*.lean` prove, kind by kind, that the ROW-MAJOR spec of the kind's
`TreeSpec` returns on every raw-shaped candle list, with explicit readings.  The framework
(`TreeSpec.live_refines`, `batch_iff`) says: WHENEVER a live history returns, its candles are that
row-major run.  This file adds the missing direction, generically:

* `TreeSpec.live_total` – if the row-major spec of a tree returns on every raw-shaped list, then
  construction over `init`, `calculate()` and ANY sequence of `append`s RETURNS, on every manager
  with an incremental spec (`MgrSpec.base`, `MgrSpec.tf`, `MgrSpec.fill`: the candles the manager
  hands to the engine after collapsing / gap filling are again raw-shaped, `MgrSpec.spec_plain`);
* `TreeSpec.total_of` – … and the returned candles satisfy every predicate the row-major run
  satisfies, relative to the manager spec of the whole stream;

and then, per kind, `<kind>_rows` (row-major run returns + the own reading is `None` exactly below
the warm-up index and a number from it on) and `<kind>_live_total` (the same through the object:
every history on every manager).
-/
set_option linter.unusedSectionVars false
set_option linter.unusedVariables false
namespace Hex

section generic
variable {F : Type} [PyF F] {ind : Ind F}

/-- the row-major spec of a tree returns on every list of raw-shaped candles -/
def TreeSpec.Total (T : TreeSpec ind) : Prop :=
  ∀ raw : List (Candle F), (∀ c ∈ raw, Plain c) → ∃ out, Gen.rowMajor T.S raw = .ok out

/-- **never raises** on manager `M`: for every stream the manager accepts, constructing the
indicator over any initial part, `calculate()`, and appending the rest in ANY chunking returns
(`chunks = []` is the batch run) -/
def NeverRaises (M : MgrSpec F) (ind : Ind F) : Prop :=
  ∀ (init : List (Candle F)) (chunks : List (List (Candle F))), M.Ok (init ++ chunks.flatten) →
    ∃ snap, candlesOf (runIndicator ind M.cfg init chunks) = .ok snap

/-- every history on manager `M` ends with candles `snap` that satisfy `P spec snap`, where `spec`
is what the manager makes of the whole stream (the stream itself on the base timeframe, the
collapsed / gap-filled candles otherwise) -/
def Always (M : MgrSpec F) (ind : Ind F) (P : List (Candle F) → List (Candle F) → Prop) : Prop :=
  ∀ (init : List (Candle F)) (chunks : List (List (Candle F))), M.Ok (init ++ chunks.flatten) →
    ∀ snap, candlesOf (runIndicator ind M.cfg init chunks) = .ok snap →
      P (M.spec (init ++ chunks.flatten)) snap

theorem TreeSpec.appends_total (T : TreeSpec ind) (M : MgrSpec F) (htot : T.Total)
    (chunks : List (List (Candle F))) :
    ∀ (s done : List (Candle F)) (a : Int), Gen.rowMajor T.S (M.spec s) = .ok done →
      M.Ok (s ++ chunks.flatten) →
      ∃ snap, candlesOf (chunks.foldlM (fun (st : IndState F) ch => st.append ch)
          { tree := ind, mgr := { cfg := M.cfg, candles := done }, active := a }) = .ok snap := by
  induction chunks with
  | nil =>
    intro s done a h _
    exact ⟨done, by simp [candlesOf, List.foldlM_nil, pure, Except.pure, Except.map]⟩
  | cons ch rest ih =>
    intro s done a h hok
    have hok' : M.Ok ((s ++ ch) ++ rest.flatten) := by simpa [List.append_assoc] using hok
    have hsch : M.Ok (s ++ ch) := M.ok_left _ _ hok'
    have hplainS : ∀ c ∈ M.spec s, Plain c := M.spec_plain s (M.ok_left _ _ hsch)
    simp only [List.foldlM_cons]
    have key : ∃ (raw₁ raw₂ d₁ : List (Candle F)), Gen.rowMajor T.S raw₁ = .ok d₁ ∧
        (∀ c ∈ raw₁, Plain c) ∧ (∀ c ∈ raw₂, Plain c) ∧ raw₁ ++ raw₂ = M.spec (s ++ ch) ∧
        IndState.append ({ tree := ind, mgr := { cfg := M.cfg, candles := done }, active := a } : IndState F) ch
          = IndState.calculate { tree := ind, mgr := { cfg := M.cfg, candles := d₁ ++ raw₂ }, active := a } := by
      by_cases hch : ch = []
      · subst hch
        refine ⟨M.spec s, [], done, h, hplainS, by simp, by simp, ?_⟩
        simp [IndState.append, Manager.append, bind, Except.bind]
      · obtain ⟨k, Q, hQ, _, ht, hres⟩ := M.append s ch done hsch hch
          (Gen.rowMajor_shape T.law _ done hplainS h).1.dressed
        refine ⟨(M.spec s).take k, Q, done.take k, Gen.rowMajor_take T.law _ done hplainS h k,
          fun c hc => hplainS c (List.mem_of_mem_take hc), hQ, hres.symm, ?_⟩
        have hne : ch.isEmpty = false := by cases ch <;> simp at hch ⊢
        simp only [IndState.append, Manager.append, hne, Bool.false_eq_true, if_false, ht, bind, Except.bind]
        rfl
    obtain ⟨raw₁, raw₂, d₁, hr₁, hp₁, hp₂, hsplit, happ⟩ := key
    rw [happ]
    obtain ⟨out, hout⟩ := htot (raw₁ ++ raw₂) (by rw [hsplit]; exact M.spec_plain _ hsch)
    have he := (T.engine raw₁ raw₂ d₁ out hr₁ hp₁ hp₂).2 hout
    obtain ⟨s', hs', _⟩ := IndState.calculate_of_engine
      ({ tree := ind, mgr := { cfg := M.cfg, candles := d₁ ++ raw₂ }, active := a } : IndState F) out he
    obtain ⟨out', a', rfl, hr⟩ := T.calculate_ok M.cfg raw₁ raw₂ d₁ a hr₁ hp₁ hp₂ s' hs'
    rw [hsplit] at hr
    rw [hs']
    simp only [bind, Except.bind]
    exact ih (s ++ ch) out' a' hr hok'

/-- **Totality of every live history, generic.**  If the row-major spec of the tree returns on
every raw-shaped list, then construction over `init`, `calculate()` and ANY sequence of appends
returns – on every manager with an incremental spec (base timeframe, collapsing timeframe,
timeframe with gap filling). -/
theorem TreeSpec.live_total (T : TreeSpec ind) (M : MgrSpec F) (htot : T.Total) : NeverRaises M ind := by
  intro init chunks hok
  have hinit : M.Ok init := M.ok_left _ _ hok
  unfold runIndicator IndState.init Manager.init
  rw [M.init init hinit]
  simp only [bind, Except.bind, pure, Except.pure]
  have h0 : Gen.rowMajor T.S ([] : List (Candle F)) = .ok [] := rfl
  obtain ⟨out, hout⟩ := htot (M.spec init) (M.spec_plain init hinit)
  have he := (T.engine [] (M.spec init) [] out h0 (by simp) (M.spec_plain init hinit)).2 (by simpa using hout)
  obtain ⟨s', hs', _⟩ := IndState.calculate_of_engine
    ({ tree := ind, mgr := { cfg := M.cfg, candles := M.spec init } } : IndState F) out (by simpa using he)
  have hc' : IndState.calculate ({ tree := ind, mgr := { cfg := M.cfg, candles := [] ++ M.spec init }, active := 0 } : IndState F)
      = .ok s' := by simpa using hs'
  obtain ⟨out', a', rfl, hr⟩ := T.calculate_ok M.cfg [] (M.spec init) [] 0 h0 (by simp)
    (M.spec_plain init hinit) s' hc'
  simp only [List.nil_append] at hr
  rw [hs']
  exact T.appends_total M htot chunks init out' a' hr hok

/-- **… and what it returns**: every predicate `P raw out` that the row-major run satisfies on
every raw-shaped list holds of every live history, relative to the manager spec of the stream. -/
theorem TreeSpec.total_of (T : TreeSpec ind) (P : List (Candle F) → List (Candle F) → Prop)
    (h : ∀ raw : List (Candle F), (∀ c ∈ raw, Plain c) → ∃ out, Gen.rowMajor T.S raw = .ok out ∧ P raw out)
    (M : MgrSpec F) : NeverRaises M ind ∧ Always M ind P := by
  refine ⟨T.live_total M (fun raw hraw => (h raw hraw).imp fun _ hh => hh.1), ?_⟩
  intro init chunks hok snap hsnap
  obtain ⟨out, hrun, hP⟩ := h _ (M.spec_plain _ hok)
  have h' := T.live_refines M init chunks hok snap hsnap
  rw [hrun] at h'
  cases h'
  exact hP

/-- the batch run is the history without appends -/
theorem NeverRaises.batch {M : MgrSpec F} (h : NeverRaises M ind) (stream : List (Candle F)) (hok : M.Ok stream) :
    ∃ out, candlesOf (runIndicator ind M.cfg stream []) = .ok out :=
  h stream [] (by simpa using hok)

theorem Always.batch {M : MgrSpec F} {P : List (Candle F) → List (Candle F) → Prop} (h : Always M ind P)
    (stream : List (Candle F)) (hok : M.Ok stream) (out : List (Candle F))
    (hout : candlesOf (runIndicator ind M.cfg stream []) = .ok out) : P (M.spec stream) out := by
  have := h stream [] (by simpa using hok) out hout
  simpa using this

end generic

namespace Numeric

/-! ### "no gaps" -/
section nogaps
variable {K : Type} [PyF K]

/-- a reading `v` of candle `j` of an output field with warm-up index `w`: `None` exactly below `w`,
a number from `w` on -/
def NumFrom (w j : Nat) (v : Val K) : Prop :=
  (j < w → v = .none) ∧ (w ≤ j → ∃ x : Num K, v = .num x)

/-- … a float from `w` on (every kind but the integer-preserving ones) -/
def FltFrom (w j : Nat) (v : Val K) : Prop :=
  (j < w → v = .none) ∧ (w ≤ j → ∃ y : K, v = .flt y)

theorem FltFrom.num {w j : Nat} {v : Val K} (h : FltFrom w j v) : NumFrom w j v :=
  ⟨h.1, fun hj => (h.2 hj).elim fun y hy => ⟨.flt y, hy⟩⟩

/-- the own reading of the indicator `nm` on a candle -/
def own (nm : String) (c : Candle K) : Val K := readingByCandle c nm
/-- field `f` of the dict reading of the indicator `nm` on a candle (`reading("nm.f")`) -/
def fieldOf (nm f : String) (c : Candle K) : Val K := (readingByCandle c nm).nested f

/-- **no gaps**: `out` has one candle per candle of `raw`, and the reading `rd` is `None` on the
candles `0 … w−1` and a number on EVERY candle from `w` on -/
def NoGaps (rd : Candle K → Val K) (w : Nat) (raw out : List (Candle K)) : Prop :=
  out.length = raw.length ∧ ∀ j, j < out.length → NumFrom w j (rd (out.getD j default))

/-- … with floats -/
def NoGapsFlt (rd : Candle K → Val K) (w : Nat) (raw out : List (Candle K)) : Prop :=
  out.length = raw.length ∧ ∀ j, j < out.length → FltFrom w j (rd (out.getD j default))

theorem NoGapsFlt.num {rd : Candle K → Val K} {w : Nat} {raw out : List (Candle K)}
    (h : NoGapsFlt rd w raw out) : NoGaps rd w raw out :=
  ⟨h.1, fun j hj => (h.2 j hj).num⟩

/-- once produced, produced on every later candle -/
theorem NoGaps.later {rd : Candle K → Val K} {w : Nat} {raw out : List (Candle K)} (h : NoGaps rd w raw out)
    (i j : Nat) (hij : i ≤ j) (hj : j < out.length) (hi : rd (out.getD i default) ≠ .none) :
    ∃ x : Num K, rd (out.getD j default) = .num x := by
  have hw : w ≤ i := by
    by_contra hlt
    exact hi ((h.2 i (by omega)).1 (by omega))
  exact (h.2 j hj).2 (by omega)

theorem noGapsFlt_of (rd : Candle K → Val K) (w : Nat) (raw out : List (Candle K)) (hl : out.length = raw.length)
    (h : ∀ j, j < raw.length → FltFrom w j (rd (out.getD j default))) : NoGapsFlt rd w raw out :=
  ⟨hl, fun j hj => h j (hl ▸ hj)⟩

theorem noGaps_of (rd : Candle K → Val K) (w : Nat) (raw out : List (Candle K)) (hl : out.length = raw.length)
    (h : ∀ j, j < raw.length → NumFrom w j (rd (out.getD j default))) : NoGaps rd w raw out :=
  ⟨hl, fun j hj => h j (hl ▸ hj)⟩


end nogaps

variable {K : Type} [Field K] [LinearOrder K] [IsStrictOrderedRing K] [LawfulPyF K]

/-! ## ATR (warm-up index `p`) -/

theorem atr_rows (p : Nat) (hp : 1 ≤ p) (nm : String) (n : Nat) (hk : IsKey nm) (hn : AtrNames nm)
    (raw : List (Candle K)) (hraw : ∀ c ∈ raw, Plain c) :
    ∃ out, Gen.rowMajor (atrTree nm n (p : Int) (by omega) hn).S raw = .ok out ∧
      NoGapsFlt (own nm) p raw out := by
  obtain ⟨out, h1, h2, h3⟩ := atr_series_readings p hp nm n hk hn raw hraw
  refine ⟨out, h1, noGapsFlt_of _ _ _ _ h2 fun j hj => ?_⟩
  obtain ⟨_, _, _, ht⟩ := h3 j hj
  exact ⟨ht.1, fun h => (ht.2 h).elim fun y hy => ⟨y, hy.1⟩⟩

theorem atr_live_total (M : MgrSpec K) (p : Nat) (hp : 1 ≤ p) (nm : String) (n : Nat) (hk : IsKey nm)
    (hn : AtrNames nm) :
    NeverRaises M (mkTop (.atr (p : Int) : Kind K) nm n) ∧
    Always M (mkTop (.atr (p : Int) : Kind K) nm n) (NoGapsFlt (own nm) p) :=
  (atrTree nm n (p : Int) (by omega) hn).total_of _ (atr_rows p hp nm n hk hn) M

/-! ## RSI (warm-up index `p`) -/

theorem rsi_rows (p : Nat) (hp : 1 ≤ p) (nm input : String) (fld : Candle K → Num K) (n : Nat)
    (hn : RsiNames nm) (hk : IsKey nm) (hin : NoDot input ∧ input ∈ Candle.attrNames)
    (hattr : ∀ c : Candle K, c.attr input = some (.num (fld c)))
    (raw : List (Candle K)) (hraw : ∀ c ∈ raw, Plain c) :
    ∃ out, Gen.rowMajor (rsiTree (F := K) nm n (p : Int) input (by omega) hn hin).S raw = .ok out ∧
      NoGapsFlt (own nm) p raw out := by
  obtain ⟨out, h1, h2, h3⟩ := rsi_series_candles p hp nm input fld n hn hk hin hattr raw hraw
  refine ⟨out, h2, noGapsFlt_of _ _ _ _ h1 fun j hj => ?_⟩
  have ht := (h3 j hj).1
  unfold rsiSeries at ht
  by_cases h : j < p
  · rw [if_pos h] at ht
    exact ⟨fun _ => ht, fun h' => absurd h (by omega)⟩
  · rw [if_neg h] at ht
    obtain ⟨y, hy, _⟩ := ht
    exact ⟨fun h' => absurd h' h, fun _ => ⟨y, hy⟩⟩

theorem rsi_live_total (M : MgrSpec K) (p : Nat) (hp : 1 ≤ p) (nm input : String) (fld : Candle K → Num K) (n : Nat)
    (hn : RsiNames nm) (hk : IsKey nm) (hin : NoDot input ∧ input ∈ Candle.attrNames)
    (hattr : ∀ c : Candle K, c.attr input = some (.num (fld c))) :
    NeverRaises M (mkTop (.rsi (p : Int) input : Kind K) nm n) ∧
    Always M (mkTop (.rsi (p : Int) input : Kind K) nm n) (NoGapsFlt (own nm) p) :=
  (rsiTree (F := K) nm n (p : Int) input (by omega) hn hin).total_of _
    (rsi_rows p hp nm input fld n hn hk hin hattr) M

/-! ## STDEV (warm-up index `p`: the library waits for `p + 1` inputs) -/

theorem stdev_rows (p : Nat) (hp : 1 ≤ p) (nm input : String) (fld : Candle K → Num K) (n : Nat)
    (hn : SdNames nm) (hin : NoDot input ∧ input ∈ Candle.attrNames)
    (hattr : ∀ c : Candle K, c.attr input = some (.num (fld c)))
    (raw : List (Candle K)) (hraw : ∀ c ∈ raw, Plain c) :
    ∃ out, Gen.rowMajor (stdevTree (F := K) nm n (p : Int) input (by omega) hin).S raw = .ok out ∧
      NoGapsFlt (own nm) p raw out := by
  obtain ⟨rows, hl, hrun, hall⟩ := stdev_series p hp nm input fld n hn hin hattr raw hraw
  refine ⟨_, hrun, noGapsFlt_of _ _ _ _ (decoWith_length _ _ _ hl) fun j hj => ?_⟩
  unfold own
  rw [decoSd_getD nm raw rows hl j hj, sdOut_own nm hn _ (getD_plain raw hraw j hj)]
  obtain ⟨_, h1, h2⟩ := hall j hj
  exact ⟨h1, fun h => (h2 h).elim fun y hy => ⟨y, hy.1⟩⟩

theorem stdev_live_total (M : MgrSpec K) (p : Nat) (hp : 1 ≤ p) (nm input : String) (fld : Candle K → Num K) (n : Nat)
    (hn : SdNames nm) (hin : NoDot input ∧ input ∈ Candle.attrNames)
    (hattr : ∀ c : Candle K, c.attr input = some (.num (fld c))) :
    NeverRaises M (mkTop (.stdev (p : Int) input : Kind K) nm n) ∧
    Always M (mkTop (.stdev (p : Int) input : Kind K) nm n) (NoGapsFlt (own nm) p) :=
  (stdevTree (F := K) nm n (p : Int) input (by omega) hin).total_of _
    (stdev_rows p hp nm input fld n hn hin hattr) M

/-! ## BBANDS (all three bands: warm-up index `p`) -/

/-- the three fields of a dict reading share the warm-up index `w` -/
def NoGaps3 (nm f₁ f₂ f₃ : String) (w : Nat) (raw out : List (Candle K)) : Prop :=
  NoGapsFlt (fieldOf nm f₁) w raw out ∧ NoGapsFlt (fieldOf nm f₂) w raw out ∧
  NoGapsFlt (fieldOf nm f₃) w raw out

theorem bb_rows (p : Nat) (hp : 2 ≤ p) (nm input : String) (fld : Candle K → Num K) (n : Nat)
    (hk : IsKey nm) (hn : BbNames nm) (hin : NoDot input ∧ input ∈ Candle.attrNames)
    (hattr : ∀ c : Candle K, c.attr input = some (.num (fld c)))
    (raw : List (Candle K)) (hraw : ∀ c ∈ raw, Plain c) :
    ∃ out, Gen.rowMajor (bbTree (F := K) nm n (p : Int) input (by omega) hn hin).S raw = .ok out ∧
      NoGaps3 nm "BBL" "BBM" "BBU" p raw out := by
  obtain ⟨rows, hl, hrun, hall⟩ := bb_series p hp nm input fld n hn hin hattr raw hraw
  have hlen := decoWith_length (bbOut nm) raw rows hl
  have key : ∀ j, j < raw.length →
      FltFrom p j (fieldOf nm "BBL" ((decoBb nm raw rows).getD j default)) ∧
      FltFrom p j (fieldOf nm "BBM" ((decoBb nm raw rows).getD j default)) ∧
      FltFrom p j (fieldOf nm "BBU" ((decoBb nm raw rows).getD j default)) := by
    intro j hj
    unfold fieldOf
    rw [decoBb_getD nm raw rows hl j hj, bbOut_own nm hk]
    obtain ⟨_, _, h1, h2⟩ := hall j hj
    by_cases h : j < p
    · rw [h1 h]
      refine ⟨⟨fun _ => rfl, fun h' => absurd h (by omega)⟩, ⟨fun _ => rfl, fun h' => absurd h (by omega)⟩,
        ⟨fun _ => rfl, fun h' => absurd h (by omega)⟩⟩
    · obtain ⟨ym, ys, _, _, hb⟩ := h2 (by omega)
      rw [hb]
      obtain ⟨e1, e2, e3⟩ := bbDict_nested (PyF.round n (ym - 2 * ys)) (PyF.round n ym) (PyF.round n (ym + 2 * ys))
      rw [e1, e2, e3]
      exact ⟨⟨fun h' => absurd h' h, fun _ => ⟨_, rfl⟩⟩, ⟨fun h' => absurd h' h, fun _ => ⟨_, rfl⟩⟩,
        ⟨fun h' => absurd h' h, fun _ => ⟨_, rfl⟩⟩⟩
  exact ⟨_, hrun, noGapsFlt_of _ _ _ _ hlen fun j hj => (key j hj).1,
    noGapsFlt_of _ _ _ _ hlen fun j hj => (key j hj).2.1,
    noGapsFlt_of _ _ _ _ hlen fun j hj => (key j hj).2.2⟩

theorem bb_live_total (M : MgrSpec K) (p : Nat) (hp : 2 ≤ p) (nm input : String) (fld : Candle K → Num K) (n : Nat)
    (hk : IsKey nm) (hn : BbNames nm) (hin : NoDot input ∧ input ∈ Candle.attrNames)
    (hattr : ∀ c : Candle K, c.attr input = some (.num (fld c))) :
    NeverRaises M (mkTop (.bbands (p : Int) input : Kind K) nm n) ∧
    Always M (mkTop (.bbands (p : Int) input : Kind K) nm n) (NoGaps3 nm "BBL" "BBM" "BBU" p) :=
  (bbTree (F := K) nm n (p : Int) input (by omega) hn hin).total_of _
    (bb_rows p hp nm input fld n hk hn hin hattr) M

/-! ## KC (all three bands: warm-up index `p`, the ATR helper's) -/

theorem kc_rows (p : Nat) (hp : 2 ≤ p) (nm input : String) (fld : Candle K → Num K) (n : Nat) (mult : Num K)
    (hk : IsKey nm) (hn : KcNames nm) (hin : NoDot input ∧ input ∈ Candle.attrNames)
    (hattr : ∀ c : Candle K, c.attr input = some (.num (fld c)))
    (raw : List (Candle K)) (hraw : ∀ c ∈ raw, Plain c) :
    ∃ out, Gen.rowMajor (kcTree (F := K) nm n (p : Int) input mult (by omega) hn hin).S raw = .ok out ∧
      NoGaps3 nm "lower" "band" "upper" p raw out := by
  obtain ⟨out, hrun, hlen, hall⟩ := kc_series_readings p hp nm input fld n mult hk hn hin hattr raw hraw
  have key : ∀ j, j < raw.length →
      FltFrom p j (fieldOf nm "lower" (out.getD j default)) ∧
      FltFrom p j (fieldOf nm "band" (out.getD j default)) ∧
      FltFrom p j (fieldOf nm "upper" (out.getD j default)) := by
    intro j hj
    unfold fieldOf
    obtain ⟨_, _, _, _, _, _, ho, _⟩ := hall j hj
    unfold kcSeries at ho
    by_cases h : j < p
    · rw [if_pos h] at ho
      have ho' : readingByCandle (out.getD j default) nm = kcNoneDict := ho
      rw [ho']
      refine ⟨⟨fun _ => rfl, fun h' => absurd h (by omega)⟩, ⟨fun _ => rfl, fun h' => absurd h (by omega)⟩,
        ⟨fun _ => rfl, fun h' => absurd h (by omega)⟩⟩
    · rw [if_neg h] at ho
      obtain ⟨l, b, u, hd, _⟩ := ho
      rw [hd]
      exact ⟨⟨fun h' => absurd h' h, fun _ => ⟨l, by simp [Val.nested, dlookup]⟩⟩,
        ⟨fun h' => absurd h' h, fun _ => ⟨b, by simp [Val.nested, dlookup]⟩⟩,
        ⟨fun h' => absurd h' h, fun _ => ⟨u, by simp [Val.nested, dlookup]⟩⟩⟩
  exact ⟨_, hrun, noGapsFlt_of _ _ _ _ hlen fun j hj => (key j hj).1,
    noGapsFlt_of _ _ _ _ hlen fun j hj => (key j hj).2.1,
    noGapsFlt_of _ _ _ _ hlen fun j hj => (key j hj).2.2⟩

theorem kc_live_total (M : MgrSpec K) (p : Nat) (hp : 2 ≤ p) (nm input : String) (fld : Candle K → Num K) (n : Nat)
    (mult : Num K) (hk : IsKey nm) (hn : KcNames nm) (hin : NoDot input ∧ input ∈ Candle.attrNames)
    (hattr : ∀ c : Candle K, c.attr input = some (.num (fld c))) :
    NeverRaises M (mkTop (.kc (p : Int) input mult : Kind K) nm n) ∧
    Always M (mkTop (.kc (p : Int) input mult : Kind K) nm n) (NoGaps3 nm "lower" "band" "upper" p) :=
  (kcTree (F := K) nm n (p : Int) input mult (by omega) hn hin).total_of _
    (kc_rows p hp nm input fld n mult hk hn hin hattr) M

/-! ## generic extraction from the "stored value against a textbook series" predicates -/

theorem fltFrom_of_within (w j : Nat) (b : K) (o : Option K) (v : Val K) (h : Within o b v)
    (hw : o = none ↔ j < w) : FltFrom w j v := by
  cases o with
  | none =>
    have hv : v = .none := h
    exact ⟨fun _ => hv, fun h' => absurd (hw.1 rfl) (by omega)⟩
  | some e =>
    obtain ⟨y, hy, _⟩ := h
    exact ⟨fun h' => absurd (hw.2 h') (by simp), fun _ => ⟨y, hy⟩⟩

theorem fltFrom_of_macdField (w j : Nat) (b : K) (o : Option K) (v : Val K) (h : MacdFieldOK b o v)
    (hw : o = none ↔ j < w) : FltFrom w j v := by
  cases o with
  | none =>
    have hv : v = .none := h
    exact ⟨fun _ => hv, fun h' => absurd (hw.1 rfl) (by omega)⟩
  | some e =>
    obtain ⟨y, hy, _⟩ := h
    exact ⟨fun h' => absurd (hw.2 h') (by simp), fun _ => ⟨y, hy⟩⟩

theorem fltFrom_of_ite (w j : Nat) (c : Prop) [Decidable c] (y : K) (v : Val K)
    (h : v = if c then .none else .flt y) (hw : c ↔ j < w) : FltFrom w j v := by
  by_cases hc : c
  · rw [if_pos hc] at h
    exact ⟨fun _ => h, fun h' => absurd (hw.1 hc) (by omega)⟩
  · rw [if_neg hc] at h
    exact ⟨fun h' => absurd (hw.2 h') hc, fun _ => ⟨y, h⟩⟩

/-! ## Supertrend (`trend` from index `p`; `direction` on every candle; `long` / `short` one-sided) -/

/-- what "no gaps" means for Supertrend: `trend` is `None` exactly below `p` and a number from `p`
on; `direction` is a number (`±1`) on EVERY candle; `long` / `short` are one-sided BY DESIGN – both
`None` below `p`, from `p` on exactly one of them is a number (the active band) and the other `None` -/
def StNoGaps (nm : String) (p : Nat) (raw out : List (Candle K)) : Prop :=
  NoGaps (fieldOf nm "trend") p raw out ∧ NoGaps (fieldOf nm "direction") 0 raw out ∧
  ∀ j, j < out.length →
    (j < p → fieldOf nm "long" (out.getD j default) = .none ∧ fieldOf nm "short" (out.getD j default) = .none) ∧
    (p ≤ j →
      ((∃ x : Num K, fieldOf nm "long" (out.getD j default) = .num x) ∧ fieldOf nm "short" (out.getD j default) = .none) ∨
      ((∃ x : Num K, fieldOf nm "short" (out.getD j default) = .num x) ∧ fieldOf nm "long" (out.getD j default) = .none))

theorem st_rows (p : Nat) (hp : 1 ≤ p) (nm input : String) (mult : Num K) (n : Nat)
    (hn : StNames nm) (hk : IsKey nm) (raw : List (Candle K)) (hraw : ∀ c ∈ raw, Plain c) :
    ∃ out, Gen.rowMajor (stTree (F := K) nm n (p : Int) input mult (by omega) hn).S raw = .ok out ∧
      StNoGaps nm p raw out := by
  obtain ⟨out, hl, hrun, hall⟩ := st_series_candles p hp nm input mult n hn hk raw hraw
  have key : ∀ j, j < raw.length →
      (j < p → readingByCandle (out.getD j default) nm = stNoneDict) ∧
      (p ≤ j → ∃ U L : Num K,
        readingByCandle (out.getD j default) nm
          = .dict [("trend", .num L), ("direction", .num (.int 1)), ("long", .num L), ("short", .none)] ∨
        readingByCandle (out.getD j default) nm
          = .dict [("trend", .num U), ("direction", .num (.int (-1))), ("long", .none), ("short", .num U)]) := by
    intro j hj
    obtain ⟨_, _, _, _, ho, _⟩ := hall j hj
    refine ⟨fun h => ?_, fun h => ?_⟩
    · rw [stSeries_none p mult.toF raw j h] at ho
      exact ho
    · obtain ⟨s, hs⟩ := stSeries_isSome p mult.toF raw j h
      rw [hs] at ho
      obtain ⟨U, L, _, _, hc⟩ := StOwnOK.fields (stSeries_dir p mult.toF raw j s hs) ho
      exact ⟨U, L, hc.imp (fun h => h.2) (fun h => h.2)⟩
  refine ⟨out, hrun, noGaps_of _ _ _ _ hl fun j hj => ?_, noGaps_of _ _ _ _ hl fun j hj => ?_, fun j hj => ?_⟩
  · unfold fieldOf
    refine ⟨fun h => ?_, fun h => ?_⟩
    · rw [(key j hj).1 h]; rfl
    · obtain ⟨U, L, hc | hc⟩ := (key j hj).2 h
      · rw [hc]; exact ⟨L, by simp [Val.nested, dlookup]⟩
      · rw [hc]; exact ⟨U, by simp [Val.nested, dlookup]⟩
  · unfold fieldOf
    refine ⟨fun h => absurd h (by omega), fun _ => ?_⟩
    by_cases h : j < p
    · rw [(key j hj).1 h]; exact ⟨.int 1, by simp [stNoneDict, Val.nested, dlookup]⟩
    · obtain ⟨U, L, hc | hc⟩ := (key j hj).2 (by omega)
      · rw [hc]; exact ⟨.int 1, by simp [Val.nested, dlookup]⟩
      · rw [hc]; exact ⟨.int (-1), by simp [Val.nested, dlookup]⟩
  · have hj' : j < raw.length := hl ▸ hj
    unfold fieldOf
    refine ⟨fun h => ?_, fun h => ?_⟩
    · rw [(key j hj').1 h]; exact ⟨by simp [stNoneDict, Val.nested, dlookup], by simp [stNoneDict, Val.nested, dlookup]⟩
    · obtain ⟨U, L, hc | hc⟩ := (key j hj').2 h
      · rw [hc]; exact Or.inl ⟨⟨L, by simp [Val.nested, dlookup]⟩, by simp [Val.nested, dlookup]⟩
      · rw [hc]; exact Or.inr ⟨⟨U, by simp [Val.nested, dlookup]⟩, by simp [Val.nested, dlookup]⟩

theorem st_live_total (M : MgrSpec K) (p : Nat) (hp : 1 ≤ p) (nm input : String) (mult : Num K) (n : Nat)
    (hn : StNames nm) (hk : IsKey nm) :
    NeverRaises M (mkTop (.supertrend (p : Int) input mult : Kind K) nm n) ∧
    Always M (mkTop (.supertrend (p : Int) input mult : Kind K) nm n) (StNoGaps nm p) :=
  (stTree (F := K) nm n (p : Int) input mult (by omega) hn).total_of _ (st_rows p hp nm input mult n hn hk) M

/-! ## MACD (`MACD` from `slow − 1`; `signal`, `histogram` from `slow + signal − 2`) -/

/-- three fields with their own warm-up indices -/
def NoGapsW3 (nm f₁ f₂ f₃ : String) (w₁ w₂ w₃ : Nat) (raw out : List (Candle K)) : Prop :=
  NoGapsFlt (fieldOf nm f₁) w₁ raw out ∧ NoGapsFlt (fieldOf nm f₂) w₂ raw out ∧
  NoGapsFlt (fieldOf nm f₃) w₃ raw out

theorem macd_rows (nm : String) (n pf ps pg : Nat) (input : String) (fld : Candle K → Num K)
    (hf : 2 ≤ pf) (hfs : pf ≤ ps) (hg : 1 ≤ pg) (hn : MacdNames nm)
    (hin : NoDot input ∧ input ∈ Candle.attrNames)
    (hattr : ∀ c : Candle K, c.attr input = some (.num (fld c)))
    (raw : List (Candle K)) (hraw : ∀ c ∈ raw, Plain c) :
    ∃ out, Gen.rowMajor (macdTreeN (K := K) nm n pf ps pg input (by omega) (by omega) hg hn hin).S raw = .ok out ∧
      NoGapsW3 nm "MACD" "signal" "histogram" (ps - 1) (ps + pg - 2) (ps + pg - 2) raw out := by
  have hrun := macd_series nm n pf ps pg input fld hf hfs hg hn hin hattr raw hraw
  have hlen := macdOut_length nm n pf ps pg fld raw
  have key : ∀ j, j < raw.length →
      FltFrom (ps - 1) j (fieldOf nm "MACD" ((macdOut nm n pf ps pg fld raw).getD j default)) ∧
      FltFrom (ps + pg - 2) j (fieldOf nm "signal" ((macdOut nm n pf ps pg fld raw).getD j default)) ∧
      FltFrom (ps + pg - 2) j (fieldOf nm "histogram" ((macdOut nm n pf ps pg fld raw).getD j default)) := by
    intro j hj
    unfold fieldOf
    obtain ⟨_, _, _, _, r5, _⟩ := macdOut_readings nm n pf ps pg fld raw hn hg hraw j hj
    rw [r5]
    obtain ⟨o1, o2, o3⟩ := macdOwn_ok n pf ps pg (fieldAt fld raw) (by omega) hfs hg j
    refine ⟨fltFrom_of_macdField _ _ _ _ _ o1 ?_, fltFrom_of_macdField _ _ _ _ _ o2 ?_,
      fltFrom_of_macdField _ _ _ _ _ o3 ?_⟩
    · unfold macdLine; split_ifs <;> simp <;> omega
    · unfold signalLine; split_ifs <;> simp <;> omega
    · unfold histLine; split_ifs <;> simp <;> omega
  exact ⟨_, hrun, noGapsFlt_of _ _ _ _ hlen fun j hj => (key j hj).1,
    noGapsFlt_of _ _ _ _ hlen fun j hj => (key j hj).2.1,
    noGapsFlt_of _ _ _ _ hlen fun j hj => (key j hj).2.2⟩

theorem macd_live_total (M : MgrSpec K) (nm : String) (n pf ps pg : Nat) (input : String) (fld : Candle K → Num K)
    (hf : 2 ≤ pf) (hfs : pf ≤ ps) (hg : 1 ≤ pg) (hn : MacdNames nm)
    (hin : NoDot input ∧ input ∈ Candle.attrNames)
    (hattr : ∀ c : Candle K, c.attr input = some (.num (fld c))) :
    NeverRaises M (mkTop (.macd (pf : Int) (ps : Int) (pg : Int) input : Kind K) nm n) ∧
    Always M (mkTop (.macd (pf : Int) (ps : Int) (pg : Int) input : Kind K) nm n)
      (NoGapsW3 nm "MACD" "signal" "histogram" (ps - 1) (ps + pg - 2) (ps + pg - 2)) :=
  (macdTreeN (K := K) nm n pf ps pg input (by omega) (by omega) hg hn hin).total_of _
    (macd_rows nm n pf ps pg input fld hf hfs hg hn hin hattr) M

/-! ## STOCH (`stoch` from `p − 1`, `k` from `p + smoothK − 2`, `d` from `p + smoothK + slow − 3`) -/

theorem stoch_rows (p sk sl : Nat) (hp : 2 ≤ p) (hsk : 1 ≤ sk) (hsl : 1 ≤ sl) (nm input : String)
    (fld : Candle K → Num K) (n : Nat) (hn : StochNames nm) (hin : NoDot input ∧ input ∈ Candle.attrNames)
    (hattr : ∀ c : Candle K, c.attr input = some (.num (fld c)))
    (raw : List (Candle K)) (hraw : ∀ c ∈ raw, Plain c) :
    ∃ out, Gen.rowMajor (stochTree (F := K) nm n (p : Int) (sl : Int) (sk : Int) input (by omega) (by omega)
        (by omega) hn hin).S raw = .ok out ∧
      NoGapsW3 nm "stoch" "k" "d" (p - 1) (p + sk - 2) (p + sk + sl - 3) raw out := by
  have hrun := stoch_series p sk sl hp hsk hsl nm input fld n hn hin hattr raw hraw
  have hlen := stochDeco_length nm n p sk sl fld raw
  have key : ∀ j, j < raw.length →
      FltFrom (p - 1) j (fieldOf nm "stoch" ((stochDeco nm n p sk sl fld raw).getD j default)) ∧
      FltFrom (p + sk - 2) j (fieldOf nm "k" ((stochDeco nm n p sk sl fld raw).getD j default)) ∧
      FltFrom (p + sk + sl - 3) j (fieldOf nm "d" ((stochDeco nm n p sk sl fld raw).getD j default)) := by
    intro j hj
    unfold fieldOf
    have h := stochDeco_ok p sk sl hp hsk hsl nm fld n hn raw hraw j hj
    refine ⟨fltFrom_of_within _ _ _ _ _ h.own_stoch ?_, fltFrom_of_within _ _ _ _ _ h.own_k_ok ?_,
      fltFrom_of_within _ _ _ _ _ h.own_d_ok ?_⟩
    · unfold stochSeries; split_ifs <;> simp <;> omega
    · unfold stochKSeries stochTK; split_ifs <;> simp <;> omega
    · unfold stochDSeries stochTD; split_ifs <;> simp <;> omega
  exact ⟨_, hrun, noGapsFlt_of _ _ _ _ hlen fun j hj => (key j hj).1,
    noGapsFlt_of _ _ _ _ hlen fun j hj => (key j hj).2.1,
    noGapsFlt_of _ _ _ _ hlen fun j hj => (key j hj).2.2⟩

theorem stoch_live_total (M : MgrSpec K) (p sk sl : Nat) (hp : 2 ≤ p) (hsk : 1 ≤ sk) (hsl : 1 ≤ sl) (nm input : String)
    (fld : Candle K → Num K) (n : Nat) (hn : StochNames nm) (hin : NoDot input ∧ input ∈ Candle.attrNames)
    (hattr : ∀ c : Candle K, c.attr input = some (.num (fld c))) :
    NeverRaises M (mkTop (.stoch (p : Int) (sl : Int) (sk : Int) input : Kind K) nm n) ∧
    Always M (mkTop (.stoch (p : Int) (sl : Int) (sk : Int) input : Kind K) nm n)
      (NoGapsW3 nm "stoch" "k" "d" (p - 1) (p + sk - 2) (p + sk + sl - 3)) :=
  (stochTree (F := K) nm n (p : Int) (sl : Int) (sk : Int) input (by omega) (by omega) (by omega) hn hin).total_of _
    (stoch_rows p sk sl hp hsk hsl nm input fld n hn hin hattr) M

/-! ## TSI (warm-up index `p + smooth − 1`) -/

theorem tsi_rows (nm : String) (n p s : Nat) (input : String) (fld : Candle K → Num K)
    (hp : 1 ≤ p) (hs : 1 ≤ s) (hn : TsiNames nm) (hin : NoDot input ∧ input ∈ Candle.attrNames)
    (hattr : ∀ c : Candle K, c.attr input = some (.num (fld c)))
    (raw : List (Candle K)) (hraw : ∀ c ∈ raw, Plain c) :
    ∃ out, Gen.rowMajor (tsiTreeN (K := K) nm n p s input hp hs hn hin).S raw = .ok out ∧
      NoGapsFlt (own nm) (p + s - 1) raw out := by
  refine ⟨_, tsi_series nm n p s input fld hp hs hn hin hattr raw hraw,
    noGapsFlt_of _ _ _ _ (tsiOut_length nm n p s fld raw) fun j hj => ?_⟩
  obtain ⟨_, _, _, _, _, _, _, r7⟩ := tsiOut_readings nm n p s fld raw hp hs hn hraw j hj
  unfold own
  rw [r7]
  exact fltFrom_of_ite _ _ _ _ _ rfl (by omega)

theorem tsi_live_total (M : MgrSpec K) (nm : String) (n p s : Nat) (input : String) (fld : Candle K → Num K)
    (hp : 1 ≤ p) (hs : 1 ≤ s) (hn : TsiNames nm) (hin : NoDot input ∧ input ∈ Candle.attrNames)
    (hattr : ∀ c : Candle K, c.attr input = some (.num (fld c))) :
    NeverRaises M (mkTop (.tsi (p : Int) (s : Int) input : Kind K) nm n) ∧
    Always M (mkTop (.tsi (p : Int) (s : Int) input : Kind K) nm n) (NoGapsFlt (own nm) (p + s - 1)) :=
  (tsiTreeN (K := K) nm n p s input hp hs hn hin).total_of _ (tsi_rows nm n p s input fld hp hs hn hin hattr) M

/-! ## ADX (`ADX` from `p + signal − 1`; `DM_Plus`, `DM_Neg` from `p`) -/

theorem adx_rows (nm : String) (n p sg : Nat) (hp : 1 ≤ p) (hg : 1 ≤ sg) (hn : AdxNames nm)
    (raw : List (Candle K)) (hraw : ∀ c ∈ raw, Plain c) :
    ∃ out, Gen.rowMajor (adxTreeN (K := K) nm n p sg hp hg hn).S raw = .ok out ∧
      NoGapsW3 nm "ADX" "DM_Plus" "DM_Neg" (p + sg - 1) p p raw out := by
  obtain ⟨out, hrun, hlen, hall⟩ := adx_series_readings nm n p sg hp hg hn raw hraw
  have key : ∀ j, j < raw.length →
      FltFrom (p + sg - 1) j (fieldOf nm "ADX" (out.getD j default)) ∧
      FltFrom p j (fieldOf nm "DM_Plus" (out.getD j default)) ∧
      FltFrom p j (fieldOf nm "DM_Neg" (out.getD j default)) := by
    intro j hj
    unfold fieldOf
    obtain ⟨_, _, _, _, _, _, _, _, _, _, _, hown, _⟩ := hall j hj
    rw [hown]
    exact ⟨fltFrom_of_ite _ _ _ _ _ (adxOwn_ADX n p sg raw hg j) (by omega),
      fltFrom_of_ite _ _ _ _ _ (adxOwn_plus n p sg raw j) Iff.rfl,
      fltFrom_of_ite _ _ _ _ _ (adxOwn_minus n p sg raw j) Iff.rfl⟩
  exact ⟨_, hrun, noGapsFlt_of _ _ _ _ hlen fun j hj => (key j hj).1,
    noGapsFlt_of _ _ _ _ hlen fun j hj => (key j hj).2.1,
    noGapsFlt_of _ _ _ _ hlen fun j hj => (key j hj).2.2⟩

theorem adx_live_total (M : MgrSpec K) (nm : String) (n p sg : Nat) (hp : 1 ≤ p) (hg : 1 ≤ sg) (hn : AdxNames nm) :
    NeverRaises M (mkTop (.adx (p : Int) (sg : Int) : Kind K) nm n) ∧
    Always M (mkTop (.adx (p : Int) (sg : Int) : Kind K) nm n)
      (NoGapsW3 nm "ADX" "DM_Plus" "DM_Neg" (p + sg - 1) p p) :=
  (adxTreeN (K := K) nm n p sg hp hg hn).total_of _ (adx_rows nm n p sg hp hg hn) M

/-! ## HMA (warm-up index `p + ⌊√p⌋ − 2`) -/

theorem hma_rows (p : Nat) (hp : 2 ≤ p) (nm input : String) (fld : Candle K → Num K) (n : Nat)
    (hn : HmaNames nm) (hin : NoDot input ∧ input ∈ Candle.attrNames)
    (hattr : ∀ c : Candle K, c.attr input = some (.num (fld c)))
    (raw : List (Candle K)) (hraw : ∀ c ∈ raw, Plain c) :
    ∃ out, Gen.rowMajor (hmaTree (F := K) nm n (p : Int) input (by omega) hn hin).S raw = .ok out ∧
      NoGapsFlt (own nm) (p + Nat.sqrt p - 2) raw out := by
  refine ⟨_, hma_series p hp nm input fld n hn hin hattr raw hraw,
    noGapsFlt_of _ _ _ _ (hmaDeco_length nm n p fld raw) fun j hj => ?_⟩
  obtain ⟨_, h⟩ := hmaDeco_ok p hp nm fld n hn raw hraw j hj
  unfold own
  refine fltFrom_of_within _ _ _ _ _ h.own_ok ?_
  unfold hmaSeries hmaT0; split_ifs <;> simp <;> omega

theorem hma_live_total (M : MgrSpec K) (p : Nat) (hp : 2 ≤ p) (nm input : String) (fld : Candle K → Num K) (n : Nat)
    (hn : HmaNames nm) (hin : NoDot input ∧ input ∈ Candle.attrNames)
    (hattr : ∀ c : Candle K, c.attr input = some (.num (fld c))) :
    NeverRaises M (mkTop (.hma (p : Int) input : Kind K) nm n) ∧
    Always M (mkTop (.hma (p : Int) input : Kind K) nm n) (NoGapsFlt (own nm) (p + Nat.sqrt p - 2)) :=
  (hmaTree (F := K) nm n (p : Int) input (by omega) hn hin).total_of _
    (hma_rows p hp nm input fld n hn hin hattr) M

/-! ## leaf kinds: the generic step -/

/-- for a covered leaf kind, totality and every predicate of the (leaf) row-major run carry over
to every live history on every manager -/
theorem leaf_total_of {F : Type} [PyF F] (k : Kind F) (nm : String) (n : Nat) (hc : Covered nm k)
    (P : List (Candle F) → List (Candle F) → Prop)
    (h : ∀ raw : List (Candle F), (∀ c ∈ raw, Plain c) → ∃ out, rowMajor (mkTop k nm n) raw = .ok out ∧ P raw out)
    (M : MgrSpec F) : NeverRaises M (mkTop k nm n) ∧ Always M (mkTop k nm n) P := by
  obtain ⟨C⟩ := hc.contract n
  exact (TreeSpec.ofLeaf _ (hc.isLeaf n) C).total_of P h M

/-- the own reading of candle `j` of a decorated list -/
theorem own_deco {F : Type} [PyF F] (nm : String) (hk : IsKey nm) (raw : List (Candle F)) (vs : List (Val F))
    (hl : vs.length = raw.length) (j : Nat) (hj : j < raw.length) :
    readingByCandle ((deco nm raw vs).getD j default) nm = vs.getD j .none := by
  have hg : (deco nm raw vs).getD j default = setKey false nm (vs.getD j .none) (raw.getD j default) := by
    rw [List.getD_eq_getElem?_getD, deco_getElem? nm raw vs j hl hj]; rfl
  rw [hg, readingByCandle_setKey_top nm hk]

/-! ## VWAP (a number on EVERY candle – no warm-up; `pv` itself while the cumulative volume is 0) -/

theorem vwap_rows (p : Int) (nm : String) (n : Nat) (hn : VwapNames nm)
    (raw : List (Candle K)) (hraw : ∀ c ∈ raw, Plain c) :
    ∃ out, Gen.rowMajor (vwapTree (F := K) nm n p).S raw = .ok out ∧ NoGaps (own nm) 0 raw out := by
  obtain ⟨out, hl, hrun, hall⟩ := vwap_series_candles p nm n hn raw hraw
  refine ⟨out, hrun, noGaps_of _ _ _ _ hl fun j hj => ⟨fun h => absurd h (by omega), fun _ => ?_⟩⟩
  obtain ⟨⟨t, ht, _⟩, _⟩ := hall j hj
  exact ⟨t, ht⟩

theorem vwap_live_total (M : MgrSpec K) (p : Int) (nm : String) (n : Nat) (hn : VwapNames nm) :
    NeverRaises M (mkTop (.vwap p : Kind K) nm n) ∧
    Always M (mkTop (.vwap p : Kind K) nm n) (NoGaps (own nm) 0) :=
  (vwapTree (F := K) nm n p).total_of _ (vwap_rows p nm n hn) M

/-! ## Donchian (`DCL`, `DCM`, `DCU` from `p − 1`; the bounds keep their type: ints stay ints) -/

/-- three fields, numbers (not necessarily floats), one warm-up index -/
def NoGapsN3 (nm f₁ f₂ f₃ : String) (w : Nat) (raw out : List (Candle K)) : Prop :=
  NoGaps (fieldOf nm f₁) w raw out ∧ NoGaps (fieldOf nm f₂) w raw out ∧ NoGaps (fieldOf nm f₃) w raw out

theorem donchian_rows (p : Nat) (hp : 2 ≤ p) (nm : String) (n : Nat) (hn : DcNames nm)
    (raw : List (Candle K)) (hraw : ∀ c ∈ raw, Plain c) :
    ∃ out, rowMajor (mkTop (.donchian p : Kind K) nm n) raw = .ok out ∧
      NoGapsN3 nm "DCL" "DCM" "DCU" (p - 1) raw out := by
  obtain ⟨vs, hl, hrun, hall⟩ := donchian_series p hp nm n hn raw hraw
  have hlen := deco_length nm raw vs hl
  have key : ∀ j, j < raw.length →
      NumFrom (p - 1) j (fieldOf nm "DCL" ((deco nm raw vs).getD j default)) ∧
      NumFrom (p - 1) j (fieldOf nm "DCM" ((deco nm raw vs).getD j default)) ∧
      NumFrom (p - 1) j (fieldOf nm "DCU" ((deco nm raw vs).getD j default)) := by
    intro j hj
    unfold fieldOf
    rw [own_deco nm hn.key raw vs hl j hj]
    obtain ⟨h1, h2⟩ := hall j hj
    by_cases h : j + 1 < p
    · rw [h1 h]
      exact ⟨⟨fun _ => rfl, fun h' => absurd h' (by omega)⟩, ⟨fun _ => rfl, fun h' => absurd h' (by omega)⟩,
        ⟨fun _ => rfl, fun h' => absurd h' (by omega)⟩⟩
    · obtain ⟨kl, kh, _, _, hv, _⟩ := h2 (by omega)
      rw [hv]
      exact ⟨⟨fun h' => absurd h' (by omega), fun _ => ⟨_, rfl⟩⟩,
        ⟨fun h' => absurd h' (by omega), fun _ => ⟨_, rfl⟩⟩,
        ⟨fun h' => absurd h' (by omega), fun _ => ⟨_, rfl⟩⟩⟩
  exact ⟨_, hrun, noGaps_of _ _ _ _ hlen fun j hj => (key j hj).1,
    noGaps_of _ _ _ _ hlen fun j hj => (key j hj).2.1, noGaps_of _ _ _ _ hlen fun j hj => (key j hj).2.2⟩

theorem donchian_live_total (M : MgrSpec K) (p : Nat) (hp : 2 ≤ p) (nm : String) (n : Nat) (hn : DcNames nm) :
    NeverRaises M (mkTop (.donchian p : Kind K) nm n) ∧
    Always M (mkTop (.donchian p : Kind K) nm n) (NoGapsN3 nm "DCL" "DCM" "DCU" (p - 1)) :=
  leaf_total_of _ nm n (Covered.donchian (p : Int) (by omega)) _ (donchian_rows p hp nm n hn) M

/-! ## HighestLowest (`low`, `high` on EVERY candle – no warm-up) -/

/-- two fields, numbers, one warm-up index -/
def NoGapsN2 (nm f₁ f₂ : String) (w : Nat) (raw out : List (Candle K)) : Prop :=
  NoGaps (fieldOf nm f₁) w raw out ∧ NoGaps (fieldOf nm f₂) w raw out

theorem hl_rows (p : Nat) (hp : 1 ≤ p) (nm : String) (n : Nat) (hk : IsKey nm)
    (raw : List (Candle K)) (hraw : ∀ c ∈ raw, Plain c) :
    ∃ out, rowMajor (mkTop (.hl p : Kind K) nm n) raw = .ok out ∧ NoGapsN2 nm "low" "high" 0 raw out := by
  obtain ⟨vs, hl, hrun, hall⟩ := hl_series p hp nm n raw hraw
  have hlen := deco_length nm raw vs hl
  have key : ∀ j, j < raw.length →
      NumFrom 0 j (fieldOf nm "low" ((deco nm raw vs).getD j default)) ∧
      NumFrom 0 j (fieldOf nm "high" ((deco nm raw vs).getD j default)) := by
    intro j hj
    unfold fieldOf
    rw [own_deco nm hk raw vs hl j hj]
    obtain ⟨kl, kh, _, _, hv, _⟩ := hall j hj
    rw [hv]
    exact ⟨⟨fun h' => absurd h' (by omega), fun _ => ⟨_, rfl⟩⟩,
      ⟨fun h' => absurd h' (by omega), fun _ => ⟨_, rfl⟩⟩⟩
  exact ⟨_, hrun, noGaps_of _ _ _ _ hlen fun j hj => (key j hj).1,
    noGaps_of _ _ _ _ hlen fun j hj => (key j hj).2⟩

theorem hl_live_total (M : MgrSpec K) (p : Nat) (hp : 1 ≤ p) (nm : String) (n : Nat) (hk : IsKey nm) :
    NeverRaises M (mkTop (.hl p : Kind K) nm n) ∧
    Always M (mkTop (.hl p : Kind K) nm n) (NoGapsN2 nm "low" "high" 0) :=
  leaf_total_of _ nm n (Covered.hl (p : Int)) _ (hl_rows p hp nm n hk) M

/-! ## Aroon (`AROONU`, `AROOND`, `AROONOSC` from `p`) -/

theorem aroon_rows (p : Nat) (hp : 1 ≤ p) (nm : String) (n : Nat) (hk : IsKey nm)
    (raw : List (Candle K)) (hraw : ∀ c ∈ raw, Plain c) :
    ∃ out, rowMajor (mkTop (.aroon p : Kind K) nm n) raw = .ok out ∧
      NoGaps3 nm "AROONU" "AROOND" "AROONOSC" p raw out := by
  obtain ⟨vs, hl, hrun, hall⟩ := aroon_series p hp nm n raw hraw
  have hlen := deco_length nm raw vs hl
  have key : ∀ j, j < raw.length →
      FltFrom p j (fieldOf nm "AROONU" ((deco nm raw vs).getD j default)) ∧
      FltFrom p j (fieldOf nm "AROOND" ((deco nm raw vs).getD j default)) ∧
      FltFrom p j (fieldOf nm "AROONOSC" ((deco nm raw vs).getD j default)) := by
    intro j hj
    unfold fieldOf
    rw [own_deco nm hk raw vs hl j hj]
    obtain ⟨h1, h2⟩ := hall j hj
    by_cases h : j < p
    · rw [h1 h]
      exact ⟨⟨fun _ => rfl, fun h' => absurd h' (by omega)⟩, ⟨fun _ => rfl, fun h' => absurd h' (by omega)⟩,
        ⟨fun _ => rfl, fun h' => absurd h' (by omega)⟩⟩
    · rw [h2 (by omega)]
      exact ⟨⟨fun h' => absurd h' h, fun _ => ⟨_, rfl⟩⟩,
        ⟨fun h' => absurd h' h, fun _ => ⟨_, rfl⟩⟩,
        ⟨fun h' => absurd h' h, fun _ => ⟨_, rfl⟩⟩⟩
  exact ⟨_, hrun, noGapsFlt_of _ _ _ _ hlen fun j hj => (key j hj).1,
    noGapsFlt_of _ _ _ _ hlen fun j hj => (key j hj).2.1, noGapsFlt_of _ _ _ _ hlen fun j hj => (key j hj).2.2⟩

theorem aroon_live_total (M : MgrSpec K) (p : Nat) (hp : 1 ≤ p) (nm : String) (n : Nat) (hk : IsKey nm) :
    NeverRaises M (mkTop (.aroon p : Kind K) nm n) ∧
    Always M (mkTop (.aroon p : Kind K) nm n) (NoGaps3 nm "AROONU" "AROOND" "AROONOSC" p) :=
  leaf_total_of _ nm n (Covered.aroon (p : Int) (by omega)) _ (aroon_rows p hp nm n hk) M

/-! ## Counter (a Python int on EVERY candle; any float carrier, also the executed `Float`) -/

theorem counter_rows {F : Type} [PyF F] (nm input : String) (fld : Candle F → Num F) (cv : Scalar F) (n : Nat)
    (hk : IsKey nm) (hin : AttrInput input) (hattr : ∀ c : Candle F, c.attr input = some (.num (fld c)))
    (raw : List (Candle F)) (hraw : ∀ c ∈ raw, Plain c) :
    ∃ out, rowMajor (mkTop (.counter input cv) nm n) raw = .ok out ∧ NoGaps (own nm) 0 raw out := by
  obtain ⟨vs, hl, hrun, hall⟩ := counter_series nm input fld cv n hk hin.1 hattr raw
  refine ⟨_, hrun, noGaps_of _ _ _ _ (deco_length nm raw vs hl) fun j hj =>
    ⟨fun h => absurd h (by omega), fun _ => ?_⟩⟩
  unfold own
  rw [own_deco nm hk raw vs hl j hj]
  exact ⟨_, hall j hj⟩

theorem counter_live_total {F : Type} [PyF F] (M : MgrSpec F) (nm input : String) (fld : Candle F → Num F)
    (cv : Scalar F) (n : Nat) (hk : IsKey nm) (hin : AttrInput input)
    (hattr : ∀ c : Candle F, c.attr input = some (.num (fld c))) :
    NeverRaises M (mkTop (.counter input cv) nm n) ∧
    Always M (mkTop (.counter input cv) nm n) (NoGaps (own nm) 0) :=
  leaf_total_of _ nm n (Covered.counter input cv hin) _ (counter_rows nm input fld cv n hk hin hattr) M

/-! ## STDEVTHRES (a bool on EVERY candle – never `None`; `False` below the STDEV helper's warm-up `p`) -/

/-- the own reading is a Python bool on every candle, `False` on the candles `0 … p−1` -/
def BoolAlways (nm : String) (p : Nat) (raw out : List (Candle K)) : Prop :=
  out.length = raw.length ∧ ∀ j, j < out.length →
    ∃ b : Bool, own nm (out.getD j default) = .bool b ∧ (j < p → b = false)

theorem thres_rows (p : Nat) (hp : 1 ≤ p) (nm input : String) (fld : Candle K → Num K) (mult : Num K) (n : Nat)
    (hk : IsKey nm) (hn : ThresNames nm) (hin : NoDot input ∧ input ∈ Candle.attrNames)
    (hattr : ∀ c : Candle K, c.attr input = some (.num (fld c)))
    (raw : List (Candle K)) (hraw : ∀ c ∈ raw, Plain c) :
    ∃ out, Gen.rowMajor (thresTree (F := K) nm n (p : Int) input mult (by omega) hn hin).S raw = .ok out ∧
      BoolAlways nm p raw out := by
  obtain ⟨rows, hl, hrun, hall⟩ := thres_series p hp nm input fld mult n hn hin hattr raw hraw
  have hlen := decoWith_length (thOut nm) raw rows hl
  refine ⟨_, hrun, hlen, fun j hj => ?_⟩
  have hj' : j < raw.length := hlen ▸ hj
  unfold own
  have e : (decoWith (thOut nm) raw rows).getD j default = thOut nm (raw.getD j default) (rows.getD j ThRow.dflt) :=
    decoTh_getD nm raw rows hl j hj'
  rw [show decoTh nm raw rows = decoWith (thOut nm) raw rows from rfl, e, thOut_own nm hk]
  obtain ⟨_, h1, h2⟩ := hall j hj'
  by_cases h : j < p
  · exact ⟨false, h1 h, fun _ => rfl⟩
  · obtain ⟨ys, _, hth⟩ := h2 (by omega)
    exact ⟨_, hth, fun h' => absurd h' h⟩

theorem thres_live_total (M : MgrSpec K) (p : Nat) (hp : 1 ≤ p) (nm input : String) (fld : Candle K → Num K)
    (mult : Num K) (n : Nat) (hk : IsKey nm) (hn : ThresNames nm) (hin : NoDot input ∧ input ∈ Candle.attrNames)
    (hattr : ∀ c : Candle K, c.attr input = some (.num (fld c))) :
    NeverRaises M (mkTop (.stdevthres (p : Int) input mult : Kind K) nm n) ∧
    Always M (mkTop (.stdevthres (p : Int) input mult : Kind K) nm n) (BoolAlways nm p) :=
  (thresTree (F := K) nm n (p : Int) input mult (by omega) hn hin).total_of _
    (thres_rows p hp nm input fld mult n hk hn hin hattr) M

/-! ## the leaf indicators over candle fields (SMA, EMA, RMA, WMA, VWMA, HLA, TR, OBV) -/

theorem leaf_rows_flt (k : Kind K) (nm : String) (n : Nat) (hk : IsKey nm) (w : Nat) (raw : List (Candle K))
    (h : ∃ vs : List (Val K), vs.length = raw.length ∧ rowMajor (mkTop k nm n) raw = .ok (deco nm raw vs) ∧
      ∀ j, j < raw.length → FltFrom w j (vs.getD j .none)) :
    ∃ out, rowMajor (mkTop k nm n) raw = .ok out ∧ NoGapsFlt (own nm) w raw out := by
  obtain ⟨vs, hl, hrun, hall⟩ := h
  refine ⟨_, hrun, noGapsFlt_of _ _ _ _ (deco_length nm raw vs hl) fun j hj => ?_⟩
  unfold own
  rw [own_deco nm hk raw vs hl j hj]
  exact hall j hj

theorem leaf_rows_num (k : Kind K) (nm : String) (n : Nat) (hk : IsKey nm) (w : Nat) (raw : List (Candle K))
    (h : ∃ vs : List (Val K), vs.length = raw.length ∧ rowMajor (mkTop k nm n) raw = .ok (deco nm raw vs) ∧
      ∀ j, j < raw.length → NumFrom w j (vs.getD j .none)) :
    ∃ out, rowMajor (mkTop k nm n) raw = .ok out ∧ NoGaps (own nm) w raw out := by
  obtain ⟨vs, hl, hrun, hall⟩ := h
  refine ⟨_, hrun, noGaps_of _ _ _ _ (deco_length nm raw vs hl) fun j hj => ?_⟩
  unfold own
  rw [own_deco nm hk raw vs hl j hj]
  exact hall j hj

/-- `None` while `j + 1 < p`, a float afterwards: the shape of `SmaOK`, `RecOK`, `DirectOK` -/
theorem fltFrom_pred (p j : Nat) (v : Val K) (h1 : j + 1 < p → v = .none) (h2 : p ≤ j + 1 → ∃ y : K, v = .flt y) :
    FltFrom (p - 1) j v :=
  ⟨fun h => h1 (by omega), fun h => h2 (by omega)⟩

theorem sma_live_total (M : MgrSpec K) (p : Nat) (hp : 2 ≤ p) (nm input : String) (fld : Candle K → Num K) (n : Nat)
    (hk : IsKey nm) (hin : AttrInput input) (hattr : ∀ c : Candle K, c.attr input = some (.num (fld c))) :
    NeverRaises M (mkTop (.sma p input : Kind K) nm n) ∧
    Always M (mkTop (.sma p input : Kind K) nm n) (NoGapsFlt (own nm) (p - 1)) :=
  leaf_total_of _ nm n (Covered.sma (p : Int) input (by omega) hk hin) _ (fun raw hraw =>
    leaf_rows_flt _ nm n hk _ raw (by
      obtain ⟨vs, h1, h2, h3⟩ := sma_series p hp nm input fld n hk hin.1 hattr raw hraw
      exact ⟨vs, h1, h2, fun j hj => fltFrom_pred p j _ (h3 j hj).1
        (fun h => ((h3 j hj).2 h).elim fun y hy => ⟨y, hy.1⟩)⟩)) M

theorem ema_live_total (M : MgrSpec K) (p : Nat) (hp : 2 ≤ p) (nm input : String) (fld : Candle K → Num K) (n : Nat)
    (hk : IsKey nm) (hin : AttrInput input) (hattr : ∀ c : Candle K, c.attr input = some (.num (fld c))) :
    NeverRaises M (mkTop (.ema p input (fl 2) : Kind K) nm n) ∧
    Always M (mkTop (.ema p input (fl 2) : Kind K) nm n) (NoGapsFlt (own nm) (p - 1)) := by
  have ha := ema_alpha_range (K := K) (p : Int) (by omega)
  have ha0 : 0 < (fl 2 : Num K).toF / ((p : K) + 1) := by simpa using ha.1
  have ha1 : (fl 2 : Num K).toF / ((p : K) + 1) ≤ 1 := by simpa using ha.2
  exact leaf_total_of _ nm n (Covered.ema (p : Int) input (fl 2) (by omega) hin) _ (fun raw hraw =>
    leaf_rows_flt _ nm n hk _ raw (by
      obtain ⟨vs, h1, h2, h3⟩ := ema_series p hp (fl 2) nm input fld n ha0 ha1 hk hin.1 hattr raw hraw
      exact ⟨vs, h1, h2, fun j hj => fltFrom_pred p j _ (h3 j hj).1
        (fun h => ((h3 j hj).2 h).elim fun y hy => ⟨y, hy.1⟩)⟩)) M

theorem rma_live_total (M : MgrSpec K) (p : Nat) (hp : 2 ≤ p) (nm input : String) (fld : Candle K → Num K) (n : Nat)
    (hk : IsKey nm) (hin : AttrInput input) (hattr : ∀ c : Candle K, c.attr input = some (.num (fld c))) :
    NeverRaises M (mkTop (.rma p input : Kind K) nm n) ∧
    Always M (mkTop (.rma p input : Kind K) nm n) (NoGapsFlt (own nm) (p - 1)) :=
  leaf_total_of _ nm n (Covered.rma (p : Int) input (by omega) hin) _ (fun raw hraw =>
    leaf_rows_flt _ nm n hk _ raw (by
      obtain ⟨vs, h1, h2, h3⟩ := rma_series p hp nm input fld n hk hin.1 hattr raw hraw
      exact ⟨vs, h1, h2, fun j hj => fltFrom_pred p j _ (h3 j hj).1
        (fun h => ((h3 j hj).2 h).elim fun y hy => ⟨y, hy.1⟩)⟩)) M

theorem wma_live_total (M : MgrSpec K) (p : Nat) (hp : 2 ≤ p) (nm input : String) (fld : Candle K → Num K) (n : Nat)
    (hk : IsKey nm) (hin : AttrInput input) (hattr : ∀ c : Candle K, c.attr input = some (.num (fld c))) :
    NeverRaises M (mkTop (.wma p input : Kind K) nm n) ∧
    Always M (mkTop (.wma p input : Kind K) nm n) (NoGapsFlt (own nm) (p - 1)) :=
  leaf_total_of _ nm n (Covered.wma (p : Int) input (by omega) hk hin) _ (fun raw hraw =>
    leaf_rows_flt _ nm n hk _ raw (by
      obtain ⟨vs, h1, h2, h3⟩ := wma_series p hp nm input fld n hk hin.1 hattr raw hraw
      exact ⟨vs, h1, h2, fun j hj => fltFrom_pred p j _ (h3 j hj).1
        (fun h => ((h3 j hj).2 h).elim fun y hy => ⟨y, hy.1⟩)⟩)) M

theorem vwma_live_total (M : MgrSpec K) (p : Nat) (hp : 2 ≤ p) (nm : String) (n : Nat) (hk : IsKey nm) :
    NeverRaises M (mkTop (.vwma p : Kind K) nm n) ∧
    Always M (mkTop (.vwma p : Kind K) nm n) (NoGapsFlt (own nm) (p - 1)) :=
  leaf_total_of _ nm n (Covered.vwma (p : Int) (by omega) hk) _ (fun raw hraw =>
    leaf_rows_flt _ nm n hk _ raw (by
      obtain ⟨vs, h1, h2, h3⟩ := vwma_series p hp nm n hk raw hraw
      exact ⟨vs, h1, h2, fun j hj => fltFrom_pred p j _ (h3 j hj).1
        (fun h => ((h3 j hj).2 h).elim fun y hy => ⟨y, hy.1⟩)⟩)) M

theorem hla_live_total (M : MgrSpec K) (nm : String) (n : Nat) (hk : IsKey nm) :
    NeverRaises M (mkTop (.hla : Kind K) nm n) ∧
    Always M (mkTop (.hla : Kind K) nm n) (NoGapsFlt (own nm) 0) :=
  leaf_total_of _ nm n Covered.hla _ (fun raw hraw =>
    leaf_rows_flt _ nm n hk _ raw (by
      obtain ⟨vs, h1, h2, h3⟩ := hla_series nm n hk raw hraw
      exact ⟨vs, h1, h2, fun j hj => ⟨fun h => absurd h (by omega), fun _ => ⟨_, h3 j hj⟩⟩⟩)) M

/-- TR needs a previous close: first reading on candle 1 (ints stay ints) -/
theorem tr_live_total (M : MgrSpec K) (nm : String) (n : Nat) (hk : IsKey nm) :
    NeverRaises M (mkTop (.tr : Kind K) nm n) ∧
    Always M (mkTop (.tr : Kind K) nm n) (NoGaps (own nm) 1) :=
  leaf_total_of _ nm n Covered.tr _ (fun raw hraw =>
    leaf_rows_num _ nm n hk _ raw (by
      obtain ⟨vs, h1, h2, h3⟩ := tr_series nm n hk raw hraw
      exact ⟨vs, h1, h2, fun j hj => ⟨fun h => (h3 j hj).1 (by omega),
        fun h => ((h3 j hj).2 h).elim fun t ht => ⟨_, ht.1⟩⟩⟩)) M

theorem obv_live_total (M : MgrSpec K) (nm : String) (n : Nat) (hk : IsKey nm) :
    NeverRaises M (mkTop (.obv : Kind K) nm n) ∧
    Always M (mkTop (.obv : Kind K) nm n) (NoGaps (own nm) 0) :=
  leaf_total_of _ nm n Covered.obv _ (fun raw hraw =>
    leaf_rows_num _ nm n hk _ raw (by
      obtain ⟨vs, h1, h2, h3⟩ := obv_series nm n hk raw hraw
      exact ⟨vs, h1, h2, fun j hj => ⟨fun h => absurd h (by omega),
        fun _ => (h3 j hj).elim fun t ht => ⟨t, ht.1⟩⟩⟩)) M

end Numeric
end Hex

#print axioms Hex.TreeSpec.live_total
#print axioms Hex.TreeSpec.total_of
#print axioms Hex.Numeric.macd_live_total
#print axioms Hex.Numeric.adx_live_total
#print axioms Hex.Numeric.st_live_total
#print axioms Hex.Numeric.counter_live_total

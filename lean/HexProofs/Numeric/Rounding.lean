import HexProofs.Numeric.NumAlg
/-!
# `round_values`: what is stored is rounded, rounding is idempotent, stays within `eps`, and
keeps integer bounds
-/
set_option linter.unusedSectionVars false
namespace Hex
variable {K : Type} [Field K] [LinearOrder K] [IsStrictOrderedRing K] [LawfulPyF K]
namespace Numeric

/-- integers are on every decimal grid -/
theorem round_int (n : Nat) (k : Int) : PyF.round n (k : K) = (k : K) := by
  have hp : (10 : K) ^ n ≠ 0 := by positivity
  have h := LawfulPyF.round_grid (K := K) n (k * 10 ^ n)
  have e : (((k * 10 ^ n : Int)) : K) / 10 ^ n = (k : K) := by
    push_cast; field_simp
  rwa [e] at h

/-- rounding keeps integer bounds: `a ≤ x ≤ b ⇒ a ≤ rnd x ≤ b` for integers `a`, `b` -/
theorem round_between (n : Nat) (a b : Int) (x : K) (h1 : (a : K) ≤ x) (h2 : x ≤ (b : K)) :
    (a : K) ≤ PyF.round n x ∧ PyF.round n x ≤ (b : K) := by
  constructor
  · have := LawfulPyF.round_mono (K := K) n h1; rwa [round_int] at this
  · have := LawfulPyF.round_mono (K := K) n h2; rwa [round_int] at this

/-- rounding keeps weak order between two stored floats -/
theorem round_le_round (n : Nat) (x y : K) (h : x ≤ y) : PyF.round n x ≤ PyF.round n y :=
  LawfulPyF.round_mono n h

theorem Scalar.roundBy_idem (n : Nat) (s : Scalar K) : (s.roundBy n).roundBy n = s.roundBy n := by
  cases s <;> simp [Scalar.roundBy, Num.roundBy_idem]

/-- **`round_values` is idempotent**: a stored reading is a fixed point of the rounding -/
theorem Val.roundBy_idem (n : Nat) (v : Val K) : (v.roundBy n).roundBy n = v.roundBy n := by
  cases v with
  | s x => simp [Val.roundBy, Scalar.roundBy_idem]
  | dict kvs =>
    simp only [Val.roundBy, List.map_map, Val.dict.injEq]
    apply List.map_congr_left
    intro p _
    simp [Function.comp_def, Scalar.roundBy_idem]

/-- a stored float is a fixed point of `rnd n` -/
theorem stored_float_fixed (n : Nat) (v : Num K) (y : K) (h : v.roundBy n = .flt y) : PyF.round n y = y := by
  cases v with
  | int i => simp [Num.roundBy] at h
  | flt x =>
    simp only [Num.roundBy, Num.flt.injEq] at h
    rw [← h, LawfulPyF.round_idem]

/-- ints and bools pass through `round_values` unchanged -/
theorem roundBy_int (n : Nat) (i : Int) : (Val.int i : Val K).roundBy n = .int i := rfl
theorem roundBy_bool (n : Nat) (b : Bool) : (Val.bool b : Val K).roundBy n = .bool b := rfl
theorem roundBy_none (n : Nat) : (Val.none : Val K).roundBy n = .none := rfl

/-- the stored number is within `eps n` of the computed one -/
theorem stored_close (n : Nat) (v : Num K) : |(v.roundBy n).toF - v.toF| ≤ eps K n := Num.roundBy_err n v

/-- a bound between integers survives storing -/
theorem stored_between (n : Nat) (a b : Int) (v : Num K) (h1 : (a : K) ≤ v.toF) (h2 : v.toF ≤ (b : K)) :
    (a : K) ≤ (v.roundBy n).toF ∧ (v.roundBy n).toF ≤ (b : K) := by
  cases v with
  | int i => exact ⟨h1, h2⟩
  | flt x => exact round_between n a b x h1 h2

end Numeric
end Hex

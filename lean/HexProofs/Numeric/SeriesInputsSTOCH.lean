import HexProofs.Numeric.SeriesInputsBB
import HexProofs.Numeric.SeriesSTOCH
/-!
# STOCH over candle lists with foreign readings and a late-starting input (C06, "position independent")

`HexProofs/Numeric/SeriesSTOCH.lean` proves the whole STOCH series over RAW candles (`Plain`), input a
candle field, through the row-major spec.  Here the candle list is ARBITRARY (it may hold any readings
under other names; only the four names of the tree `nm`, `nm_data`, `nm_k`, `nm_d` are absent) and the
input – the replacement of `close` – is any name that does not see those four names, whose reading is
`None` on the first `t0` candles and numeric afterwards.

What the model (`Calc.stoch`) does, and hence what is proved – a TWO-START series:

* the lowest low / highest high are read off the candle fields `low` / `high`, which foreign readings do
  not touch: they are NOT shifted, the window of candle `j` is candles `j − p + 1 … j` of `cs`;
* the guard `reading_period(period, input)` is asked of the INPUT: it holds exactly when the `p` inputs
  `j − p + 1 … j` are numeric, i.e. from index `t0 + p − 1` on (NOT `max t0 (p − 1)`): before that
  NOTHING is written but the own dict of three `None`s;
* from `t0 + p − 1` on the raw value is `100·(x_{j − t0} − LL_j)/(HH_j − LL_j)` (`0.0` on a flat window – the
  model's guard, no non-degeneracy hypothesis is needed), stored unrounded in `nm_data`;
* `nm_k` (SMA `sk` over `nm_data.stoch`, driven from inside the node's step) starts at
  `stochTK (t0 + p) sk = t0 + p + sk − 2`, `nm_d` (SMA `sl` over `nm_data.k`) at
  `stochTD (t0 + p) sk sl = t0 + p + sk + sl − 3`; same running forms and budgets as over raw candles,
  counted from these later starts.

For `t0 = 0` all definitions are literally the raw ones (`stochI_Row_zero`, `stochI_ok_zero`).

The engine level: `engineCalc_stoch` (valid for every candle list) + `node_induct`
(HexProofs/Numeric/SeriesInputsStdev.lean); the node's step is evaluated by `stepWith_stochC` (value
from the finished prefix and the active candle only) and `stochI_step`, the two-start form of
`stoch_step`.
-/
set_option linter.unusedSectionVars false
set_option linter.unusedSimpArgs false
set_option linter.unusedVariables false
namespace Hex
namespace Numeric
variable {K : Type} [Field K] [LinearOrder K] [IsStrictOrderedRing K] [LawfulPyF K]

/-! ### names -/

/-- name condition of the input of a STOCH node: it does not see any of the four names of the tree
(neither equal to one of them nor a dotted field of one of them).  Every candle attribute (`close`, …)
and every ordinary key different from the four names qualifies. -/
structure StochIInput (nm input : String) : Prop where
  n0 : nm ≠ input
  nD : nm ++ "_data" ≠ input
  nK : nm ++ "_k" ≠ input
  nd : nm ++ "_d" ≠ input
  s0 : ∀ fld, splitDot input ≠ [nm, fld]
  sD : ∀ fld, splitDot input ≠ [nm ++ "_data", fld]
  sK : ∀ fld, splitDot input ≠ [nm ++ "_k", fld]
  sd : ∀ fld, splitDot input ≠ [nm ++ "_d", fld]

/-- an undotted name different from the four names -/
theorem stochI_input_of_noDot (nm input : String) (hd : NoDot input) (h0 : nm ≠ input)
    (hD : nm ++ "_data" ≠ input) (hK : nm ++ "_k" ≠ input) (hd' : nm ++ "_d" ≠ input) :
    StochIInput nm input :=
  ⟨h0, hD, hK, hd', noDot_not_self _ _ hd, noDot_not_self _ _ hd, noDot_not_self _ _ hd, noDot_not_self _ _ hd⟩

/-- a candle attribute (the raw theorem's inputs) -/
theorem stochI_input_of_attr (nm input : String) (hn : StochNames nm) (hd : NoDot input)
    (ha : input ∈ Candle.attrNames) : StochIInput nm input :=
  stochI_input_of_noDot nm input hd (isKey_ne_attr _ _ hn.kN ha) (isKey_ne_attr _ _ hn.kD ha)
    (isKey_ne_attr _ _ hn.kK ha) (isKey_ne_attr _ _ hn.kd ha)

theorem stochI_indep (k input : String) (hne : k ≠ input) (hs : ∀ fld, splitDot input ≠ [k, fld]) :
    Indep K k input :=
  fun isSub v c => readingByCandle_setKey_otherB isSub k input hne hs v c

/-- the four names of a STOCH node are absent from a candle -/
def StochIAbsent (nm : String) (c : Candle K) : Prop :=
  (dlookup nm c.inds = none ∧ dlookup nm c.subs = none) ∧
  (dlookup (nm ++ "_data") c.inds = none ∧ dlookup (nm ++ "_data") c.subs = none) ∧
  (dlookup (nm ++ "_k") c.inds = none ∧ dlookup (nm ++ "_k") c.subs = none) ∧
  (dlookup (nm ++ "_d") c.inds = none ∧ dlookup (nm ++ "_d") c.subs = none)

/-! ### the two-start series -/

section series
variable (p sk sl t0 : Nat) (lo hi x : Nat → K)

/-- the raw stochastic value of candle `j ≥ t0 + p − 1`: the input counted from `t0`, the lows / highs of
candles `j − p + 1 … j` counted from candle 0 -/
def stochI_st : Nat → K := stExact p lo hi (fun i => x (i - t0))

/-- textbook `%K` / `%D` of the two-start raw values -/
def stochI_KExact (j : Nat) : K := winMean (stochI_st p t0 lo hi x) sk j
def stochI_DExact (j : Nat) : K := winMean (stochI_KExact p sk t0 lo hi x) sl j

/-- the three textbook series with their warm-up: the raw value from `t0 + p − 1`, `%K` from
`stochTK (t0 + p) sk`, `%D` from `stochTD (t0 + p) sk sl` -/
def stochI_Series (j : Nat) : Option K := if j + 1 < t0 + p then none else some (stochI_st p t0 lo hi x j)
def stochI_KSeries (j : Nat) : Option K :=
  if j < stochTK (t0 + p) sk then none else some (stochI_KExact p sk t0 lo hi x j)
def stochI_DSeries (j : Nat) : Option K :=
  if j < stochTD (t0 + p) sk sl then none else some (stochI_DExact p sk sl t0 lo hi x j)

/-- what the helpers store (4 decimals, running form) -/
def stochI_KStored : Nat → K := smaStored defaultRound sk (stochTK (t0 + p) sk) (stochI_st p t0 lo hi x)
def stochI_DStored : Nat → K :=
  smaStored defaultRound sl (stochTD (t0 + p) sk sl) (stochI_KStored p sk t0 lo hi x)

def stochI_KSc (j : Nat) : Scalar K :=
  if j < stochTK (t0 + p) sk then .none else .num (.flt (stochI_KStored p sk t0 lo hi x j))
def stochI_DSc (j : Nat) : Scalar K :=
  if j < stochTD (t0 + p) sk sl then .none else .num (.flt (stochI_DStored p sk sl t0 lo hi x j))

/-- everything the node's step stores on candle `j` (the two-start form of `stRow`) -/
def stochI_Row (j : Nat) : Option (Val K × Val K × Val K) × Val K :=
  if j + 1 < t0 + p then (none, stochNone)
  else
    (some (sdict [("stoch", sc (.flt (stochI_st p t0 lo hi x j))), ("k", stochI_KSc p sk t0 lo hi x j)],
            .s (stochI_KSc p sk t0 lo hi x j), .s (stochI_DSc p sk sl t0 lo hi x j)),
     sdict [("stoch", sc (.flt (stochI_st p t0 lo hi x j))), ("k", stochI_KSc p sk t0 lo hi x j),
            ("d", stochI_DSc p sk sl t0 lo hi x j)])

end series

/-! #### `t0 = 0`: the raw series -/

section zero
variable (p sk sl : Nat) (lo hi x : Nat → K)

theorem stochI_st_zero : stochI_st p 0 lo hi x = stExact p lo hi x := rfl

theorem stochI_KStored_zero : stochI_KStored p sk 0 lo hi x = stKStored p sk lo hi x := by
  unfold stochI_KStored stKStored
  rw [stochI_st_zero, Nat.zero_add]

theorem stochI_DStored_zero : stochI_DStored p sk sl 0 lo hi x = stDStored p sk sl lo hi x := by
  unfold stochI_DStored stDStored
  rw [stochI_KStored_zero, Nat.zero_add]

theorem stochI_KSc_zero (j : Nat) : stochI_KSc p sk 0 lo hi x j = stKSc p sk lo hi x j := by
  unfold stochI_KSc stKSc
  rw [stochI_KStored_zero, Nat.zero_add]

theorem stochI_DSc_zero (j : Nat) : stochI_DSc p sk sl 0 lo hi x j = stDSc p sk sl lo hi x j := by
  unfold stochI_DSc stDSc
  rw [stochI_DStored_zero, Nat.zero_add]

/-- for `t0 = 0` the rows are the raw ones -/
theorem stochI_Row_zero (j : Nat) : stochI_Row p sk sl 0 lo hi x j = stRow p sk sl lo hi x j := by
  unfold stochI_Row stRow
  rw [stochI_KSc_zero, stochI_DSc_zero, stochI_st_zero, Nat.zero_add]

theorem stochI_Series_zero (j : Nat) : stochI_Series p 0 lo hi x j = stochSeries p lo hi x j := by
  unfold stochI_Series stochSeries
  rw [stochI_st_zero, Nat.zero_add]

theorem stochI_KSeries_zero (j : Nat) : stochI_KSeries p sk 0 lo hi x j = stochKSeries p sk lo hi x j := by
  unfold stochI_KSeries stochKSeries stochI_KExact stKExact
  rw [stochI_st_zero, Nat.zero_add]

theorem stochI_DSeries_zero (j : Nat) : stochI_DSeries p sk sl 0 lo hi x j = stochDSeries p sk sl lo hi x j := by
  unfold stochI_DSeries stochDSeries stochI_DExact stDExact
  have e : stochI_KExact p sk 0 lo hi x = stKExact p sk lo hi x := by
    funext i; unfold stochI_KExact stKExact; rw [stochI_st_zero]
  rw [e, Nat.zero_add]

end zero

/-! ### the rounding budgets (those of `SeriesSTOCH.lean`, counted from the later starts) -/

section budgets
variable (p sk sl t0 : Nat) (lo hi x : Nat → K)

theorem stochI_KStored_err (hp : 1 ≤ p) (hsk : 1 ≤ sk) (j : Nat) (hj : stochTK (t0 + p) sk ≤ j) :
    |stochI_KStored p sk t0 lo hi x j - stochI_KExact p sk t0 lo hi x j| ≤ stochBK K (t0 + p) sk j :=
  smaStored_err defaultRound sk (stochTK (t0 + p) sk) _ hsk (by unfold stochTK; omega) j hj

theorem stochI_DStored_err (hp : 2 ≤ p) (hsk : 1 ≤ sk) (hsl : 1 ≤ sl) (j : Nat)
    (hj : stochTD (t0 + p) sk sl ≤ j) :
    |stochI_DStored p sk sl t0 lo hi x j - stochI_DExact p sk sl t0 lo hi x j| ≤ stochBD K (t0 + p) sk sl j := by
  have h1 := smaStored_err defaultRound sl (stochTD (t0 + p) sk sl) (stochI_KStored p sk t0 lo hi x) hsl
    (by unfold stochTD; omega) j hj
  have h2 : |winMean (stochI_KStored p sk t0 lo hi x) sl j - stochI_DExact p sk sl t0 lo hi x j|
      ≤ stochBK K (t0 + p) sk j := by
    unfold stochI_DExact winMean
    apply mean_perturb sl hsl
    intro k hk
    have hidx : stochTK (t0 + p) sk ≤ j + 1 - sl + k := by unfold stochTK stochTD at *; omega
    refine le_trans (stochI_KStored_err p sk t0 lo hi x (by omega) hsk _ hidx) ?_
    exact cast_le_cast_mul _ _ (by unfold stochTK stochTD at *; omega) _ (eps_pos K _).le
  calc |stochI_DStored p sk sl t0 lo hi x j - stochI_DExact p sk sl t0 lo hi x j|
      = |(stochI_DStored p sk sl t0 lo hi x j - winMean (stochI_KStored p sk t0 lo hi x) sl j)
          + (winMean (stochI_KStored p sk t0 lo hi x) sl j - stochI_DExact p sk sl t0 lo hi x j)| := by ring_nf
    _ ≤ _ := abs_add_le _ _
    _ ≤ _ := add_le_add h1 h2

theorem stochI_KSc_within (hp : 1 ≤ p) (hsk : 1 ≤ sk) (j : Nat) :
    Within (stochI_KSeries p sk t0 lo hi x j) (stochBK K (t0 + p) sk j) (.s (stochI_KSc p sk t0 lo hi x j)) := by
  unfold stochI_KSeries stochI_KSc
  by_cases h : j < stochTK (t0 + p) sk
  · rw [if_pos h, if_pos h]; exact (rfl : (Val.none : Val K) = .none)
  · rw [if_neg h, if_neg h]
    exact ⟨_, rfl, stochI_KStored_err p sk t0 lo hi x hp hsk j (by omega)⟩

theorem stochI_DSc_within (hp : 2 ≤ p) (hsk : 1 ≤ sk) (hsl : 1 ≤ sl) (j : Nat) :
    Within (stochI_DSeries p sk sl t0 lo hi x j) (stochBD K (t0 + p) sk sl j)
      (.s (stochI_DSc p sk sl t0 lo hi x j)) := by
  unfold stochI_DSeries stochI_DSc
  by_cases h : j < stochTD (t0 + p) sk sl
  · rw [if_pos h, if_pos h]; exact (rfl : (Val.none : Val K) = .none)
  · rw [if_neg h, if_neg h]
    exact ⟨_, rfl, stochI_DStored_err p sk sl t0 lo hi x hp hsk hsl j (by omega)⟩

end budgets

/-! ### the statement, reading by reading -/

/-- **what the theorem says of candle `j`** – `StochOK` of `SeriesSTOCH.lean` in two-start form
(`lo`, `hi` = the candle fields counted from candle 0, `x` = the input values counted from `t0`):
* before `t0 + p − 1` nothing is stored but the own dict of three `None`s (`own_none`, `data_none`; `k`, `d`
  are `None` by `k_ok`, `d_ok`);
* from there on `data = {stoch, k}` with `stoch` EXACTLY `100·(x_{j−t0} − LL_j)/(HH_j − LL_j)`;
* `k` is `None` before `t_K = stochTK (t0 + p) sk`, then within `(j − t_K + 1)·ε₄` of the mean of the last `sk`
  raw values; `d` is `None` before `t_D = stochTD (t0 + p) sk sl`, then within
  `(j − t_D + 1)·ε₄ + (j − t_K + 1)·ε₄` of the mean of the last `sl` textbook `%K`;
* the own dict holds the roundings to `n` decimals. -/
structure StochIOK (n p sk sl t0 : Nat) (lo hi x : Nat → K) (j : Nat) (own data k d : Val K) : Prop where
  data_none : j + 1 < t0 + p → data = .none
  data_some : t0 + p ≤ j + 1 →
    ∃ ks, data = sdict [("stoch", sc (.flt (stochI_st p t0 lo hi x j))), ("k", ks)] ∧ k = .s ks
  k_ok : Within (stochI_KSeries p sk t0 lo hi x j) (stochBK K (t0 + p) sk j) k
  d_ok : Within (stochI_DSeries p sk sl t0 lo hi x j) (stochBD K (t0 + p) sk sl j) d
  own_none : j + 1 < t0 + p → own = stochNone
  own_dict : ∃ a b e, own = .dict [("stoch", a), ("k", b), ("d", e)]
  own_stoch : Within (stochI_Series p t0 lo hi x j) (eps K n) (own.nested "stoch")
  own_stoch_round : t0 + p ≤ j + 1 → own.nested "stoch" = .flt (PyF.round n (stochI_st p t0 lo hi x j))
  own_k : own.nested "k" = k.roundBy n
  own_d : own.nested "d" = d.roundBy n
  own_k_ok : Within (stochI_KSeries p sk t0 lo hi x j) (eps K n + stochBK K (t0 + p) sk j) (own.nested "k")
  own_d_ok : Within (stochI_DSeries p sk sl t0 lo hi x j) (eps K n + stochBD K (t0 + p) sk sl j) (own.nested "d")

/-- for `t0 = 0` the statement is the raw one -/
theorem stochI_ok_zero (n p sk sl : Nat) (lo hi x : Nat → K) (j : Nat) (own data k d : Val K)
    (h : StochIOK n p sk sl 0 lo hi x j own data k d) : StochOK n p sk sl lo hi x j own data k d := by
  have h1 := h.data_none
  have h2 := h.data_some
  have h3 := h.k_ok
  have h4 := h.d_ok
  have h5 := h.own_stoch
  have h6 := h.own_stoch_round
  have h7 := h.own_k_ok
  have h8 := h.own_d_ok
  rw [Nat.zero_add] at h1 h2 h3 h4 h6 h7 h8
  rw [stochI_st_zero] at h2 h6
  rw [stochI_KSeries_zero] at h3 h7
  rw [stochI_DSeries_zero] at h4 h8
  rw [stochI_Series_zero] at h5
  exact ⟨h1, h2, h3, h4, h.own_dict, h5, h6, h.own_k, h.own_d, h7, h8⟩

/-- every row satisfies the statement -/
theorem stochI_Row_ok (n p sk sl t0 : Nat) (lo hi x : Nat → K) (hp : 2 ≤ p) (hsk : 1 ≤ sk) (hsl : 1 ≤ sl)
    (j : Nat) :
    StochIOK n p sk sl t0 lo hi x j ((stochI_Row p sk sl t0 lo hi x j).2.roundBy n)
      (rowData (stochI_Row p sk sl t0 lo hi x j)) (rowK (stochI_Row p sk sl t0 lo hi x j))
      (rowD (stochI_Row p sk sl t0 lo hi x j)) := by
  have hK := stochI_KSc_within p sk t0 lo hi x (by omega) hsk j
  have hD := stochI_DSc_within p sk sl t0 lo hi x hp hsk hsl j
  by_cases h : j + 1 < t0 + p
  · have e : stochI_Row p sk sl t0 lo hi x j = (none, stochNone) := by unfold stochI_Row; rw [if_pos h]
    have hk0 : stochI_KSeries p sk t0 lo hi x j = none := by
      unfold stochI_KSeries; rw [if_pos (by unfold stochTK; omega)]
    have hd0 : stochI_DSeries p sk sl t0 lo hi x j = none := by
      unfold stochI_DSeries; rw [if_pos (by unfold stochTD; omega)]
    have hs0 : stochI_Series p t0 lo hi x j = none := by unfold stochI_Series; rw [if_pos h]
    rw [e]
    exact
      { data_none := fun _ => rfl
        data_some := fun h' => by omega
        k_ok := by rw [hk0]; show (_ : Val K) = _; rfl
        d_ok := by rw [hd0]; show (_ : Val K) = _; rfl
        own_none := fun _ => rfl
        own_dict := ⟨_, _, _, rfl⟩
        own_stoch := by rw [hs0]; show (_ : Val K) = _; rfl
        own_stoch_round := fun h' => by omega
        own_k := rfl
        own_d := rfl
        own_k_ok := by rw [hk0]; show (_ : Val K) = _; rfl
        own_d_ok := by rw [hd0]; show (_ : Val K) = _; rfl }
  · have e : stochI_Row p sk sl t0 lo hi x j =
        (some (sdict [("stoch", sc (.flt (stochI_st p t0 lo hi x j))), ("k", stochI_KSc p sk t0 lo hi x j)],
            .s (stochI_KSc p sk t0 lo hi x j), .s (stochI_DSc p sk sl t0 lo hi x j)),
         sdict [("stoch", sc (.flt (stochI_st p t0 lo hi x j))), ("k", stochI_KSc p sk t0 lo hi x j),
            ("d", stochI_DSc p sk sl t0 lo hi x j)]) := by unfold stochI_Row; rw [if_neg h]
    have hs1 : stochI_Series p t0 lo hi x j = some (stochI_st p t0 lo hi x j) := by
      unfold stochI_Series; rw [if_neg h]
    have eS : ((sdict [("stoch", sc (.flt (stochI_st p t0 lo hi x j))), ("k", stochI_KSc p sk t0 lo hi x j),
            ("d", stochI_DSc p sk sl t0 lo hi x j)] : Val K).roundBy n).nested "stoch"
        = .flt (PyF.round n (stochI_st p t0 lo hi x j)) := by
      simp [sdict, sc, Val.roundBy, Val.nested, dlookup, Scalar.roundBy, Num.roundBy]
    have eK : ((sdict [("stoch", sc (.flt (stochI_st p t0 lo hi x j))), ("k", stochI_KSc p sk t0 lo hi x j),
            ("d", stochI_DSc p sk sl t0 lo hi x j)] : Val K).roundBy n).nested "k"
        = (Val.s (stochI_KSc p sk t0 lo hi x j)).roundBy n := by
      simp [sdict, sc, Val.roundBy, Val.nested, dlookup]
    have eD : ((sdict [("stoch", sc (.flt (stochI_st p t0 lo hi x j))), ("k", stochI_KSc p sk t0 lo hi x j),
            ("d", stochI_DSc p sk sl t0 lo hi x j)] : Val K).roundBy n).nested "d"
        = (Val.s (stochI_DSc p sk sl t0 lo hi x j)).roundBy n := by
      simp [sdict, sc, Val.roundBy, Val.nested, dlookup]
    rw [e]
    refine ⟨fun h' => by omega, fun _ => ⟨_, rfl, rfl⟩, hK, hD, fun h' => by omega, ⟨_, _, _, rfl⟩, ?_,
      fun _ => eS, eK, eD, ?_, ?_⟩
    · show Within _ _ (Val.nested _ "stoch")
      rw [eS, hs1]
      exact ⟨_, rfl, LawfulPyF.round_err n _⟩
    · show Within _ _ (Val.nested _ "k")
      rw [eK]; exact Within.round n _ _ _ hK
    · show Within _ _ (Val.nested _ "d")
      rw [eD]; exact Within.round n _ _ _ hD

/-! #### ranges -/

section ranges
variable (p sk sl t0 : Nat) (lo hi x : Nat → K)

theorem stochI_st_range (hp : 1 ≤ p) (j : Nat) (hj : t0 + p ≤ j + 1)
    (hw : lo j ≤ x (j - t0) ∧ x (j - t0) ≤ hi j) :
    0 ≤ stochI_st p t0 lo hi x j ∧ stochI_st p t0 lo hi x j ≤ 100 :=
  stExact_range p lo hi (fun i => x (i - t0)) hp j (by omega) hw

theorem stochI_KExact_range (hp : 1 ≤ p) (hsk : 1 ≤ sk) (j : Nat) (hj : stochTK (t0 + p) sk ≤ j)
    (hw : ∀ i, t0 + p ≤ i + 1 → i ≤ j → lo i ≤ x (i - t0) ∧ x (i - t0) ≤ hi i) :
    0 ≤ stochI_KExact p sk t0 lo hi x j ∧ stochI_KExact p sk t0 lo hi x j ≤ 100 := by
  unfold stochI_KExact winMean
  apply mean_between sk _ 0 100 hsk
  intro k hk
  unfold stochTK at hj
  exact stochI_st_range p t0 lo hi x hp _ (by omega) (hw _ (by omega) (by omega))

theorem stochI_DExact_range (hp : 1 ≤ p) (hsk : 1 ≤ sk) (hsl : 1 ≤ sl) (j : Nat)
    (hj : stochTD (t0 + p) sk sl ≤ j)
    (hw : ∀ i, t0 + p ≤ i + 1 → i ≤ j → lo i ≤ x (i - t0) ∧ x (i - t0) ≤ hi i) :
    0 ≤ stochI_DExact p sk sl t0 lo hi x j ∧ stochI_DExact p sk sl t0 lo hi x j ≤ 100 := by
  unfold stochI_DExact winMean
  apply mean_between sl _ 0 100 hsl
  intro k hk
  unfold stochTD at hj
  exact stochI_KExact_range p sk t0 lo hi x hp hsk _ (by unfold stochTK; omega)
    (fun i hi1 hi2 => hw i hi1 (by omega))

end ranges

/-- **ranges** (two-start form of `stoch_ranges`): where `low ≤ input ≤ high` on the candles that carry a
raw value, the own `stoch` field lies in `[0, 100]` exactly; the helper readings and the own `k`, `d`
fields lie in `[−b, 100 + b]` for their rounding budget `b` -/
theorem stochI_ranges (n p sk sl t0 : Nat) (lo hi x : Nat → K) (hp : 2 ≤ p) (hsk : 1 ≤ sk) (hsl : 1 ≤ sl) (j : Nat)
    (hw : ∀ i, t0 + p ≤ i + 1 → i ≤ j → lo i ≤ x (i - t0) ∧ x (i - t0) ≤ hi i) (own data k d : Val K)
    (h : StochIOK n p sk sl t0 lo hi x j own data k d) :
    (t0 + p ≤ j + 1 → ∃ y, own.nested "stoch" = .flt y ∧ 0 ≤ y ∧ y ≤ 100) ∧
    (stochTK (t0 + p) sk ≤ j →
      (∃ y, k = .flt y ∧ -stochBK K (t0 + p) sk j ≤ y ∧ y ≤ 100 + stochBK K (t0 + p) sk j) ∧
      (∃ y, own.nested "k" = .flt y ∧ -(eps K n + stochBK K (t0 + p) sk j) ≤ y ∧
        y ≤ 100 + (eps K n + stochBK K (t0 + p) sk j))) ∧
    (stochTD (t0 + p) sk sl ≤ j →
      (∃ y, d = .flt y ∧ -stochBD K (t0 + p) sk sl j ≤ y ∧ y ≤ 100 + stochBD K (t0 + p) sk sl j) ∧
      (∃ y, own.nested "d" = .flt y ∧ -(eps K n + stochBD K (t0 + p) sk sl j) ≤ y ∧
        y ≤ 100 + (eps K n + stochBD K (t0 + p) sk sl j))) := by
  refine ⟨fun hj => ?_, fun hj => ?_, fun hj => ?_⟩
  · have hr := stochI_st_range p t0 lo hi x (by omega) j hj (hw j hj (le_refl j))
    refine ⟨_, h.own_stoch_round hj, ?_, ?_⟩
    · rw [← round_zero (K := K) n]; exact LawfulPyF.round_mono n hr.1
    · rw [← round_hundred (K := K) n]; exact LawfulPyF.round_mono n hr.2
  · have hr := stochI_KExact_range p sk t0 lo hi x (by omega) hsk j hj hw
    have e : stochI_KSeries p sk t0 lo hi x j = some (stochI_KExact p sk t0 lo hi x j) := by
      unfold stochI_KSeries; rw [if_neg (by omega)]
    have h1 := h.k_ok
    have h2 := h.own_k_ok
    rw [e] at h1 h2
    exact ⟨Within.range _ _ _ h1 hr, Within.range _ _ _ h2 hr⟩
  · have hr := stochI_DExact_range p sk sl t0 lo hi x (by omega) hsk hsl j hj hw
    have e : stochI_DSeries p sk sl t0 lo hi x j = some (stochI_DExact p sk sl t0 lo hi x j) := by
      unfold stochI_DSeries; rw [if_neg (by omega)]
    have h1 := h.d_ok
    have h2 := h.own_d_ok
    rw [e] at h1 h2
    exact ⟨Within.range _ _ _ h1 hr, Within.range _ _ _ h2 hr⟩

/-! ### reading a finished STOCH candle whose base candle holds foreign readings -/

section cand
variable (nm : String) (n : Nat)

theorem stochI_app_k (hn : StochNames nm) (z : Option (Val K × Val K × Val K) × Val K) (c : Candle K)
    (hc : dlookup (nm ++ "_k") c.inds = none ∧ dlookup (nm ++ "_k") c.subs = none) :
    readingByCandle (stochApp nm n z c) (nm ++ "_k") = (match z.1 with | none => .none | some (_, b, _) => b) := by
  unfold stochApp
  rw [indep_key _ _ hn.kK hn.nK]
  obtain ⟨d, w⟩ := z
  cases d with
  | none => exact st_rbc_noKey _ hn.kK c (hasKey_absent _ c hc)
  | some abe =>
    obtain ⟨a, b, e⟩ := abe
    show readingByCandle (setKey true _ e (setKey true _ b (setKey true _ a c))) _ = b
    rw [indep_key _ _ hn.kK hn.Kd.symm]
    exact rbc_data_self _ hn.kK _ (by exact hc.1) _

theorem stochI_app_d (hn : StochNames nm) (z : Option (Val K × Val K × Val K) × Val K) (c : Candle K)
    (hc : dlookup (nm ++ "_d") c.inds = none ∧ dlookup (nm ++ "_d") c.subs = none) :
    readingByCandle (stochApp nm n z c) (nm ++ "_d") = (match z.1 with | none => .none | some (_, _, e) => e) := by
  unfold stochApp
  rw [indep_key _ _ hn.kd hn.nd]
  obtain ⟨d, w⟩ := z
  cases d with
  | none => exact st_rbc_noKey _ hn.kd c (hasKey_absent _ c hc)
  | some abe =>
    obtain ⟨a, b, e⟩ := abe
    show readingByCandle (setKey true _ e (setKey true _ b (setKey true _ a c))) _ = e
    exact rbc_data_self _ hn.kd _ (by exact hc.1) _

theorem stochI_app_data (hn : StochNames nm) (z : Option (Val K × Val K × Val K) × Val K) (c : Candle K)
    (hc : dlookup (nm ++ "_data") c.inds = none ∧ dlookup (nm ++ "_data") c.subs = none) :
    readingByCandle (stochApp nm n z c) (nm ++ "_data") = (match z.1 with | none => .none | some (a, _, _) => a) := by
  unfold stochApp
  rw [indep_key _ _ hn.kD hn.nD]
  obtain ⟨d, w⟩ := z
  cases d with
  | none => exact st_rbc_noKey _ hn.kD c (hasKey_absent _ c hc)
  | some abe =>
    obtain ⟨a, b, e⟩ := abe
    show readingByCandle (setKey true _ e (setKey true _ b (setKey true _ a c))) _ = a
    rw [indep_key _ _ hn.kD hn.Dd.symm, indep_key _ _ hn.kD hn.DK.symm]
    exact rbc_data_self _ hn.kD _ hc.1 _

/-- a field of the data entry -/
theorem stochI_app_field (hn : StochNames nm) (full fld : String) (hs : splitDot full = [nm ++ "_data", fld])
    (z : Option (Val K × Val K × Val K) × Val K) (c : Candle K)
    (hc : dlookup (nm ++ "_data") c.inds = none ∧ dlookup (nm ++ "_data") c.subs = none) :
    readingByCandle (stochApp nm n z c) full
      = (match z.1 with | none => .none | some (a, _, _) => a.nested fld) := by
  unfold stochApp
  rw [st_indep_dotted nm full _ fld hs hn.nD]
  obtain ⟨d, w⟩ := z
  cases d with
  | none => exact readingByCandle_absent_self _ full fld hs c hc
  | some abe =>
    obtain ⟨a, b, e⟩ := abe
    show readingByCandle (setKey true _ e (setKey true _ b (setKey true _ a c))) _ = a.nested fld
    rw [st_indep_dotted (nm ++ "_d") full _ fld hs hn.Dd.symm, st_indep_dotted (nm ++ "_k") full _ fld hs hn.DK.symm]
    exact rbc_data_field _ fld full hs c hc.1 _

/-- any reading name that sees none of the four names is untouched by the node's store -/
theorem stochI_app_other (key : String) (hi : StochIInput nm key) (z : Option (Val K × Val K × Val K) × Val K)
    (c : Candle K) : readingByCandle (stochApp nm n z c) key = readingByCandle c key :=
  rbc_stochApp nm n key (stochI_indep _ _ hi.n0 hi.s0) (stochI_indep _ _ hi.nD hi.sD)
    (stochI_indep _ _ hi.nK hi.sK) (stochI_indep _ _ hi.nd hi.sd) z c

end cand

/-! ### one step of the node inside the two-start series -/

/-- the last reading of a finished prefix -/
theorem stochI_last (nm : String) (n : Nat) (cs : List (Candle K))
    (row : Nat → Option (Val K × Val K × Val K) × Val K) (m : Nat) (done : List (Candle K))
    (hdl : done.length = m)
    (hdone : ∀ j, j < m → done[j]? = some (stochApp nm n (row j) (cs.getD j default))) (key : String) :
    Ctx.lastReading key done = if m = 0 then Val.none else
      readingByCandle (stochApp nm n (row (m - 1)) (cs.getD (m - 1) default)) key := by
  unfold Ctx.lastReading
  by_cases h0 : m = 0
  · have : done = [] := List.eq_nil_of_length_eq_zero (by omega)
    rw [this, if_pos h0]; rfl
  · rw [if_neg h0, List.getLast?_eq_getElem?, hdl, hdone (m - 1) (by omega)]

/-- **the node's step at index `m`** over a candle list with foreign readings and an input starting at
`t0`: if the finished prefix carries the rows `stochI_Row 0 … (m−1)`, the value computed for candle `m` is
`stochI_Row m`.  Two-start form of `stoch_step`. -/
theorem stochI_step (p sk sl : Nat) (hp : 2 ≤ p) (hsk : 1 ≤ sk) (hsl : 1 ≤ sl) (nm input : String)
    (n t0 : Nat) (hn : StochNames nm) (hi : StochIInput nm input) (cs : List (Candle K)) (r : Nat → Num K)
    (habs : ∀ c ∈ cs, StochIAbsent nm c)
    (hnone : ∀ j, j < cs.length → j < t0 → readingByCandle (cs.getD j default) input = .none)
    (hnum : ∀ j, j < cs.length → t0 ≤ j → readingByCandle (cs.getD j default) input = .num (r (j - t0)))
    (m : Nat) (hm : m < cs.length) (done : List (Candle K)) (hdl : done.length = m)
    (hdone : ∀ j, j < m → done[j]? = some (stochApp nm n
      (stochI_Row p sk sl t0 (fieldAt (·.l) cs) (fieldAt (·.h) cs) (fun k => (r k).toF) j) (cs.getD j default))) :
    stochVal nm (p : Int) (sl : Int) (sk : Int) input done (cs.getD m default)
      = .ok (stochI_Row p sk sl t0 (fieldAt (·.l) cs) (fieldAt (·.h) cs) (fun k => (r k).toF) m) := by
  have hab : ∀ j, j < cs.length → StochIAbsent nm (cs.getD j default) := fun j hj => habs _ (getD_mem' cs j hj)
  have hlast := stochI_last nm n cs _ m done hdl hdone
  have hc := hab m hm
  have hcur : readingByCandle (cs.getD m default) input
      = if m < t0 then Val.none else .num (r (m - t0)) := by
    by_cases h : m < t0
    · rw [if_pos h]; exact hnone m hm h
    · rw [if_neg h]; exact hnum m hm (by omega)
  generalize hcd : cs.getD m default = c at hc hcur
  -- the candles of any context of the step
  have hgl : ∀ (c' : Candle K) (j : Nat), j < m → (done ++ [c'])[j]? = some (stochApp nm n
      (stochI_Row p sk sl t0 (fieldAt (·.l) cs) (fieldAt (·.h) cs) (fun k => (r k).toF) j) (cs.getD j default)) := by
    intro c' j hj
    rw [List.getElem?_append_left (by omega)]
    exact hdone j hj
  have hgm : ∀ (c' : Candle K), (done ++ [c'])[m]? = some c' := by
    intro c'
    rw [List.getElem?_append_right (by omega), hdl]; simp
  have hrd : ∀ (c' : Candle K) (name' key : String) (j : Nat), j < m →
      ({ cs := done ++ [c'], i := done.length, name := name' } : Ctx K).reading key (some (j : Int))
        = .ok (readingByCandle (stochApp nm n
          (stochI_Row p sk sl t0 (fieldAt (·.l) cs) (fieldAt (·.h) cs) (fun k => (r k).toF) j)
          (cs.getD j default)) key) :=
    fun c' name' key j hj => Ctx.reading_at _ key j _ (hgl c' j hj)
  have hrm : ∀ (c' : Candle K) (name' key : String),
      ({ cs := done ++ [c'], i := done.length, name := name' } : Ctx K).reading key (some (m : Int))
        = .ok (readingByCandle c' key) :=
    fun c' name' key => Ctx.reading_at _ key m _ (hgm c')
  have hlen : ∀ c' : Candle K, (done ++ [c']).length = m + 1 := by intro c'; simp [hdl]
  have hiI : ((done.length : Nat) : Int) = (m : Int) := by rw [hdl]
  -- the bare columns
  have hfield : ∀ (key : String) (f : Candle K → Num K), NoDot key → key ∈ Candle.attrNames →
      (∀ c : Candle K, c.attr key = some (.num (f c))) → ∀ j : Nat, j ≤ m →
      ({ cs := done ++ [c], i := done.length, name := nm } : Ctx K).reading key (some (j : Int))
        = .ok (.num (f (cs.getD j default))) := by
    intro key f hd hmem hat j hj
    by_cases hjm : j < m
    · rw [hrd c nm key j hjm, stochApp_attr nm n key hd hmem, readingByCandle_attr key hd _ _ (hat _)]
    · have : j = m := by omega
      subst this
      rw [hrm c nm key, readingByCandle_attr key hd _ _ (hat _), hcd]
  -- the input column
  have hinp : ∀ j : Nat, j ≤ m →
      ({ cs := done ++ [c], i := done.length, name := nm } : Ctx K).reading input (some (j : Int))
        = .ok (if j < t0 then Val.none else .num (r (j - t0))) := by
    intro j hj
    by_cases hjm : j < m
    · rw [hrd c nm input j hjm, stochI_app_other nm n input hi]
      by_cases h : j < t0
      · rw [if_pos h, hnone j (by omega) h]
      · rw [if_neg h, hnum j (by omega) (by omega)]
    · have : j = m := by omega
      subst this
      rw [hrm c nm input, hcur]
  have hper : ({ cs := done ++ [c], i := done.length, name := nm } : Ctx K).readingPeriod (p : Int) input
      = decide (t0 + p ≤ m + 1) := by
    rw [Ctx.readingPeriod_col _ input m (fun j => if j < t0 then Val.none else .num (r (j - t0))) hiI (hlen c)
      hinp p (by omega)]
    by_cases h : t0 + p ≤ m + 1
    · have a : ¬ m + 1 - p < t0 := by omega
      have b : ¬ m - (p - 1) / 2 < t0 := by omega
      have c' : ¬ m < t0 := by omega
      have d : p ≤ m + 1 := by omega
      simp [a, b, c', d, h]
    · by_cases hqm : p ≤ m + 1
      · have a : m + 1 - p < t0 := by omega
        simp [a, h]
      · simp [hqm, h]
  unfold stochVal stochR
  by_cases h1 : m + 1 < t0 + p
  · -- the window of numeric inputs is not full
    have : ¬ t0 + p ≤ m + 1 := by omega
    rw [hper]
    simp only [this, decide_false, Bool.false_eq_true, if_false, pym_pure, pym_bind_ok]
    unfold stochI_Row
    rw [if_pos h1]
  · have hpm : t0 + p ≤ m + 1 := by omega
    rw [hper]
    simp only [hpm, decide_true, if_true]
    -- the raw value
    have hst := stochSt_eq ({ cs := done ++ [c], i := done.length, name := nm } : Ctx K) p input (by omega)
      (fun k => (cs.getD (m + 1 - p + k) default).l) (fun k => (cs.getD (m + 1 - p + k) default).h) (r (m - t0))
      (by
        intro j hj
        have e : ((done.length : Nat) : Int) + 1 - (p : Int) + (j : Int) = ((m + 1 - p + j : Nat) : Int) := by omega
        show ({ cs := done ++ [c], i := done.length, name := nm } : Ctx K).reading "low"
          (some (((done.length : Nat) : Int) + 1 - (p : Int) + (j : Int))) = _
        rw [e]
        exact hfield "low" (·.l) noDot_low (by decide) (fun _ => rfl) _ (by omega))
      (by
        intro j hj
        have e : ((done.length : Nat) : Int) + 1 - (p : Int) + (j : Int) = ((m + 1 - p + j : Nat) : Int) := by omega
        show ({ cs := done ++ [c], i := done.length, name := nm } : Ctx K).reading "high"
          (some (((done.length : Nat) : Int) + 1 - (p : Int) + (j : Int))) = _
        rw [e]
        exact hfield "high" (·.h) noDot_high (by decide) (fun _ => rfl) _ (by omega))
      (by rw [Ctx.reading_cur done c [] nm, hcur, if_neg (by omega)])
    have hste : stochOf (r (m - t0)).toF (rmin (p - 1) (fun k => (cs.getD (m + 1 - p + k) default).l.toF))
        (rmax (p - 1) (fun k => (cs.getD (m + 1 - p + k) default).h.toF))
        = stochI_st p t0 (fieldAt (·.l) cs) (fieldAt (·.h) cs) (fun k => (r k).toF) m := rfl
    rw [hste] at hst
    rw [hst]
    simp only [pym_bind_ok, pym_pure]
    generalize hS : stochI_st p t0 (fieldAt (·.l) cs) (fieldAt (·.h) cs) (fun k => (r k).toF) = S at *
    have hno : dlookup (nm ++ "_data") c.inds = none := hc.2.1.1
    -- `%K`
    have hk := sma_on_col
      ({ cs := done ++ [setKey true (nm ++ "_data") (sdict [("stoch", sc (Num.flt (S m)))]) c], i := done.length,
         name := nm ++ "_k" } : Ctx K) (nm ++ "_data.stoch") m sk (t0 + p - 1) (stochTK (t0 + p) sk) defaultRound S
      hiI (hlen _) hsk (by unfold stochTK; omega) (by unfold stochTK; omega)
      (by
        intro j hj
        by_cases hjm : j < m
        · rw [hrd _ _ _ j hjm, stochI_app_field nm n hn _ "stoch" hn.dotS _ _ (hab j (by omega)).2.1]
          unfold stochI_Row
          by_cases hjp : j + 1 < t0 + p
          · rw [if_pos hjp, if_pos (by omega)]
          · rw [if_neg hjp, if_neg (by omega), hS]
            exact congrArg Except.ok (nested_stoch2 (F := K) _ _)
        · have : j = m := by omega
          subst this
          rw [hrm, rbc_data_field _ "stoch" _ hn.dotS c hno, if_neg (by omega)]
          exact congrArg Except.ok (nested_stoch1 (F := K) _))
      (by
        show ({ cs := done ++ [_], i := done.length, name := nm ++ "_k" } : Ctx K).prevReading (nm ++ "_k") = _
        rw [Ctx.prevReading_append_cons done _ [] _ _, hlast]
        by_cases h0 : m = 0
        · rw [if_pos h0, if_pos (by omega)]
        · rw [if_neg h0, stochI_app_k nm n hn _ _ (hab _ (by omega)).2.2.1]
          unfold stochI_Row
          by_cases hjp : m - 1 + 1 < t0 + p
          · rw [if_pos hjp, if_pos (by unfold stochTK; omega)]
          · rw [if_neg hjp]
            show Except.ok (Val.s (stochI_KSc p sk t0 (fieldAt (·.l) cs) (fieldAt (·.h) cs) (fun k => (r k).toF)
              (m - 1))) = _
            unfold stochI_KSc stochI_KStored
            rw [hS]
            by_cases hmt : m ≤ stochTK (t0 + p) sk
            · rw [if_pos hmt, if_pos (by omega)]
            · rw [if_neg hmt, if_neg (by omega)])
    obtain ⟨k, hk1, hk2⟩ := hk
    have hk3 : k.roundBy defaultRound
        = .s (stochI_KSc p sk t0 (fieldAt (·.l) cs) (fieldAt (·.h) cs) (fun k => (r k).toF) m) := by
      rw [hk2]
      unfold stochI_KSc stochI_KStored
      rw [hS]
      by_cases hmt : m < stochTK (t0 + p) sk
      · rw [if_pos hmt, if_pos hmt]
      · rw [if_neg hmt, if_neg hmt]
    -- `%D`
    generalize hKS : stochI_KSc p sk t0 (fieldAt (·.l) cs) (fieldAt (·.h) cs) (fun k => (r k).toF) m = ks at hk3
    have hd := sma_on_col
      ({ cs := done ++ [setKey true (nm ++ "_data") (sdict [("stoch", sc (Num.flt (S m))), ("k", ks)]) c],
         i := done.length, name := nm ++ "_d" } : Ctx K) (nm ++ "_data.k") m sl (stochTK (t0 + p) sk)
      (stochTD (t0 + p) sk sl) defaultRound
      (stochI_KStored p sk t0 (fieldAt (·.l) cs) (fieldAt (·.h) cs) (fun k => (r k).toF))
      hiI (hlen _) hsl (by unfold stochTK stochTD; omega) (by unfold stochTD; omega)
      (by
        intro j hj
        by_cases hjm : j < m
        · rw [hrd _ _ _ j hjm, stochI_app_field nm n hn _ "k" hn.dotK _ _ (hab j (by omega)).2.1]
          unfold stochI_Row
          by_cases hjp : j + 1 < t0 + p
          · rw [if_pos hjp, if_pos (by unfold stochTK; omega)]
          · rw [if_neg hjp]
            show Except.ok ((sdict [_, _] : Val K).nested "k") = _
            rw [nested_k2]
            unfold stochI_KSc
            by_cases hjt : j < stochTK (t0 + p) sk
            · rw [if_pos hjt, if_pos hjt]
            · rw [if_neg hjt, if_neg hjt]
        · have : j = m := by omega
          subst this
          rw [hrm, rbc_data_field _ "k" _ hn.dotK c hno, nested_k2, ← hKS]
          unfold stochI_KSc
          by_cases hjt : j < stochTK (t0 + p) sk
          · rw [if_pos hjt, if_pos hjt]
          · rw [if_neg hjt, if_neg hjt])
      (by
        show ({ cs := done ++ [_], i := done.length, name := nm ++ "_d" } : Ctx K).prevReading (nm ++ "_d") = _
        rw [Ctx.prevReading_append_cons done _ [] _ _, hlast]
        by_cases h0 : m = 0
        · rw [if_pos h0, if_pos (by omega)]
        · rw [if_neg h0, stochI_app_d nm n hn _ _ (hab _ (by omega)).2.2.2]
          unfold stochI_Row
          by_cases hjp : m - 1 + 1 < t0 + p
          · rw [if_pos hjp, if_pos (by unfold stochTD; omega)]
          · rw [if_neg hjp]
            show Except.ok (Val.s (stochI_DSc p sk sl t0 (fieldAt (·.l) cs) (fieldAt (·.h) cs)
              (fun k => (r k).toF) (m - 1))) = _
            unfold stochI_DSc stochI_DStored
            by_cases hmt : m ≤ stochTD (t0 + p) sk sl
            · rw [if_pos hmt, if_pos (by omega)]
            · rw [if_neg hmt, if_neg (by omega)])
    obtain ⟨d, hd1, hd2⟩ := hd
    have hd3 : d.roundBy defaultRound
        = .s (stochI_DSc p sk sl t0 (fieldAt (·.l) cs) (fieldAt (·.h) cs) (fun k => (r k).toF) m) := by
      rw [hd2]
      unfold stochI_DSc stochI_DStored
      by_cases hmt : m < stochTD (t0 + p) sk sl
      · rw [if_pos hmt, if_pos hmt]
      · rw [if_neg hmt, if_neg hmt]
    unfold stochVal2
    rw [hk1]
    simp only [pym_bind_ok, hk3, toScalar_s]
    rw [hd1]
    simp only [pym_bind_ok, pym_pure, hd3, toScalar_s]
    unfold stochI_Row
    rw [if_neg h1, ← hS, hKS]

/-- the window invariants of the two SMA helpers on a finished prefix -/
theorem stochI_windowInv (p sk sl : Nat) (hp : 2 ≤ p) (hsk : 1 ≤ sk) (hsl : 1 ≤ sl) (nm : String) (n t0 : Nat)
    (hn : StochNames nm) (cs : List (Candle K)) (lo hi x : Nat → K)
    (habs : ∀ c ∈ cs, StochIAbsent nm c) (m : Nat) (hm : m < cs.length) (done : List (Candle K))
    (hdl : done.length = m)
    (hdone : ∀ j, j < m → done[j]? = some (stochApp nm n (stochI_Row p sk sl t0 lo hi x j) (cs.getD j default))) :
    WindowInv (nm ++ "_k") (sk : Int) done ∧ WindowInv (nm ++ "_d") (sl : Int) done := by
  have hlast := stochI_last nm n cs _ m done hdl hdone
  have hab : ∀ j, j < cs.length → StochIAbsent nm (cs.getD j default) := fun j hj => habs _ (getD_mem' cs j hj)
  constructor
  · intro hne
    rw [hlast] at hne
    by_cases h0 : m = 0
    · rw [if_pos h0] at hne; cases hne
    · rw [if_neg h0, stochI_app_k nm n hn _ _ (hab _ (by omega)).2.2.1] at hne
      unfold stochI_Row at hne
      by_cases hjp : m - 1 + 1 < t0 + p
      · rw [if_pos hjp] at hne; cases hne
      · rw [if_neg hjp] at hne
        have hne' : (Val.s (stochI_KSc p sk t0 lo hi x (m - 1))).isNone = false := hne
        unfold stochI_KSc at hne'
        by_cases hmt : m - 1 < stochTK (t0 + p) sk
        · rw [if_pos hmt] at hne'; cases hne'
        · rw [hdl]
          unfold stochTK at hmt
          omega
  · intro hne
    rw [hlast] at hne
    by_cases h0 : m = 0
    · rw [if_pos h0] at hne; cases hne
    · rw [if_neg h0, stochI_app_d nm n hn _ _ (hab _ (by omega)).2.2.2] at hne
      unfold stochI_Row at hne
      by_cases hjp : m - 1 + 1 < t0 + p
      · rw [if_pos hjp] at hne; cases hne
      · rw [if_neg hjp] at hne
        have hne' : (Val.s (stochI_DSc p sk sl t0 lo hi x (m - 1))).isNone = false := hne
        unfold stochI_DSc at hne'
        by_cases hmt : m - 1 < stochTD (t0 + p) sk sl
        · rw [if_pos hmt] at hne'; cases hne'
        · rw [hdl]
          unfold stochTD at hmt
          omega

/-! ### through the engine -/

/-- **STOCH through the engine, exact rows**: for every candle list (the four names of the tree absent) and
an input that is `None` on the first `t0` candles and the numbers `r` afterwards, `calculate()` returns the
input list with the row `stochI_Row … j` stored on candle `j` – nothing else changes. -/
theorem stochI_inputs_rows (p sk sl : Nat) (hp : 2 ≤ p) (hsk : 1 ≤ sk) (hsl : 1 ≤ sl) (nm input : String)
    (n t0 : Nat) (cs : List (Candle K)) (r : Nat → Num K) (hn : StochNames nm) (hi : StochIInput nm input)
    (habs : ∀ c ∈ cs, StochIAbsent nm c)
    (hnone : ∀ j, j < cs.length → j < t0 → readingByCandle (cs.getD j default) input = .none)
    (hnum : ∀ j, j < cs.length → t0 ≤ j → readingByCandle (cs.getD j default) input = .num (r (j - t0))) :
    ∃ rows : List (Option (Val K × Val K × Val K) × Val K), rows.length = cs.length ∧
      engineCalc (mkTop (.stoch (p : Int) (sl : Int) (sk : Int) input : Kind K) nm n) cs
        = .ok (decoWith (stochOut nm n) cs rows) ∧
      ∀ j, j < cs.length → rows.getD j (none, stochNone)
        = stochI_Row p sk sl t0 (fieldAt (·.l) cs) (fieldAt (·.h) cs) (fun k => (r k).toF) j := by
  have e := engineCalc_stoch (F := K) nm n (p : Int) (sl : Int) (sk : Int) input (by omega) cs
  show ∃ rows : List (Option (Val K × Val K × Val K) × Val K), rows.length = cs.length ∧
    engineCalc (stochP (F := K) nm n (p : Int) (sl : Int) (sk : Int) input) cs = _ ∧ _
  rw [e]
  have hnameS : (specWith (stochP (F := K) nm n (p : Int) (sl : Int) (sk : Int) input)
      (stochC nm (p : Int) (sl : Int) (sk : Int) input)).name = nm :=
    stochP_name (F := K) nm n (p : Int) (sl : Int) (sk : Int) input
  refine node_induct _ (stochOut nm n) (none, stochNone) cs
    (fun c hc => by rw [hnameS]; exact (habs c hc).1)
    (fun j ρ => ρ = stochI_Row p sk sl t0 (fieldAt (·.l) cs) (fieldAt (·.h) cs) (fun k => (r k).toF) j) ?_
  intro m hm rows hrl hQ
  have htl : (cs.take m).length = m := by simp; omega
  have hdl := midW_done_length (stochOut nm n) cs rows m (by omega) hrl
  have hdone : ∀ j, j < m → (decoWith (stochOut nm n) (cs.take m) rows)[j]? = some (stochApp nm n
      (stochI_Row p sk sl t0 (fieldAt (·.l) cs) (fieldAt (·.h) cs) (fun k => (r k).toF) j)
      (cs.getD j default)) := by
    intro j hj
    rw [decoWith_getElem? _ _ _ (none, stochNone) j (by rw [htl, hrl]) (by rw [htl]; exact hj), hQ j hj]
    have : (cs.take m).getD j default = cs.getD j default := by
      rw [List.getD_eq_getElem?_getD, List.getD_eq_getElem?_getD, List.getElem?_take_of_lt hj]
    rw [this]; rfl
  have hcabs := habs _ (getD_mem' cs m hm)
  have hinv := stochI_windowInv p sk sl hp hsk hsl nm n t0 hn cs _ _ _ habs m hm _ hdl hdone
  have hstep := stepWith_stochC nm n (p : Int) (sl : Int) (sk : Int) input hn (by omega) (by omega) (by omega)
    (decoWith (stochOut nm n) (cs.take m) rows) (cs.getD m default) (cs.drop (m + 1)) hinv.1 hinv.2
    hcabs.2.1.1 hcabs.2.2.1.1 hcabs.2.2.2.1
  rw [hdl] at hstep
  have hval := stochI_step p sk sl hp hsk hsl nm input n t0 hn hi cs r habs hnone hnum m hm _ hdl hdone
  refine ⟨_, ?_, rfl⟩
  rw [midW_split (stochOut nm n) cs rows m hm]
  show stepWith _ _ _ _ = _
  rw [hstep, hval]
  rfl

/-! ### the statement -/

/-- STOCH over a late-starting foreign input: the shifted-series statement in two-start form -/
def C06StochStatement : Prop :=
  ∀ (K : Type) [Field K] [LinearOrder K] [IsStrictOrderedRing K] [LawfulPyF K]
    (p sk sl : Nat) (nm input : String) (n t0 : Nat) (cs : List (Candle K)) (x : Nat → K),
    2 ≤ p → 1 ≤ sk → 1 ≤ sl → StochNames nm → StochIInput nm input →
    (∀ c ∈ cs, StochIAbsent nm c) →
    (∀ j, j < cs.length →
      (match readingByCandle (cs.getD j default) input with
        | .s (.num r) => some r.toF
        | _ => none) = if j < t0 then none else some (x (j - t0))) →
    (∀ j, j < cs.length → j < t0 → readingByCandle (cs.getD j default) input = .none) →
    ∃ out : List (Candle K),
      engineCalc (mkTop (.stoch (p : Int) (sl : Int) (sk : Int) input : Kind K) nm n) cs = .ok out ∧
      out.length = cs.length ∧
      ∀ j, j < cs.length →
        StochIOK n p sk sl t0 (fieldAt (·.l) cs) (fieldAt (·.h) cs) x j
          (readingByCandle (out.getD j default) nm) (readingByCandle (out.getD j default) (nm ++ "_data"))
          (readingByCandle (out.getD j default) (nm ++ "_k")) (readingByCandle (out.getD j default) (nm ++ "_d")) ∧
        (∀ key, StochIInput nm key →
          readingByCandle (out.getD j default) key = readingByCandle (cs.getD j default) key)

/-- **C06 for STOCH, every candle list, an input that is another indicator's reading, every start `t0`**
(note the constructor order `.stoch period slow smoothK input`): the engine never raises; on candle `j`
the four readings of the tree satisfy `StochIOK` – the series of `stoch_series` with the input counted
from `t0`, the low/high windows counted from candle 0 and every warm-up index `t0` later –, and every
reading name that does not see the four names of the tree reads what it read before. -/
theorem c06_stoch_inputs : C06StochStatement := by
  intro K _ _ _ _ p sk sl nm input n t0 cs x hp hsk hsl hn hi habs hin hnone
  obtain ⟨r, hr, hnum⟩ := input_col cs input t0 x hin
  have hx : (fun k => (r k).toF) = x := funext hr
  obtain ⟨rows, hl, hrun, hall⟩ := stochI_inputs_rows p sk sl hp hsk hsl nm input n t0 cs r hn hi habs hnone hnum
  refine ⟨_, hrun, decoWith_length _ _ _ hl, ?_⟩
  intro j hj
  have hc : (decoWith (stochOut nm n) cs rows).getD j default
      = stochApp nm n (stochI_Row p sk sl t0 (fieldAt (·.l) cs) (fieldAt (·.h) cs) x j) (cs.getD j default) := by
    rw [decoWith_getD (stochOut nm n) (none, stochNone) cs rows hl j hj, hall j hj, hx]; rfl
  have hab := habs _ (getD_mem' cs j hj)
  rw [hc]
  refine ⟨?_, fun key hk => stochI_app_other nm n key hk _ _⟩
  rw [stochApp_own nm n hn, stochI_app_data nm n hn _ _ hab.2.1, stochI_app_k nm n hn _ _ hab.2.2.1,
    stochI_app_d nm n hn _ _ hab.2.2.2]
  exact stochI_Row_ok n p sk sl t0 _ _ _ hp hsk hsl j

/-- **`t0 = 0`: the raw statement `StochOK`, now over EVERY candle list and every numeric input column**
(generalises `stoch_series_engine` + `stochDeco_ok` from `Plain` lists and candle-field inputs) -/
theorem c06_stoch_inputs_zero (p sk sl : Nat) (nm input : String) (n : Nat) (cs : List (Candle K)) (x : Nat → K)
    (hp : 2 ≤ p) (hsk : 1 ≤ sk) (hsl : 1 ≤ sl) (hn : StochNames nm) (hi : StochIInput nm input)
    (habs : ∀ c ∈ cs, StochIAbsent nm c)
    (hin : ∀ j, j < cs.length →
      (match readingByCandle (cs.getD j default) input with
        | .s (.num r) => some r.toF
        | _ => none) = some (x j)) :
    ∃ out : List (Candle K),
      engineCalc (mkTop (.stoch (p : Int) (sl : Int) (sk : Int) input : Kind K) nm n) cs = .ok out ∧
      out.length = cs.length ∧
      ∀ j, j < cs.length →
        StochOK n p sk sl (fieldAt (·.l) cs) (fieldAt (·.h) cs) x j
          (readingByCandle (out.getD j default) nm) (readingByCandle (out.getD j default) (nm ++ "_data"))
          (readingByCandle (out.getD j default) (nm ++ "_k")) (readingByCandle (out.getD j default) (nm ++ "_d")) := by
  obtain ⟨out, hrun, hlen, hall⟩ := c06_stoch_inputs K p sk sl nm input n 0 cs x hp hsk hsl hn hi habs
    (fun j hj => by rw [if_neg (Nat.not_lt_zero j)]; exact hin j hj) (fun j _ h => absurd h (Nat.not_lt_zero j))
  exact ⟨out, hrun, hlen, fun j hj => stochI_ok_zero n p sk sl _ _ x j _ _ _ _ (hall j hj).1⟩

/-- what the statement says of the warm-up: before index `t0 + p − 1` the own reading is the dict of three
`None`s and the three helper entries are `None` -/
theorem stochI_warmup (n p sk sl t0 : Nat) (lo hi x : Nat → K) (hp : 2 ≤ p) (hsk : 1 ≤ sk) (hsl : 1 ≤ sl) (j : Nat)
    (hj : j + 1 < t0 + p) (own data k d : Val K) (h : StochIOK n p sk sl t0 lo hi x j own data k d) :
    own = .dict [("stoch", .none), ("k", .none), ("d", .none)] ∧ data = .none ∧ k = .none ∧ d = .none := by
  refine ⟨h.own_none hj, h.data_none hj, ?_, ?_⟩
  · have := h.k_ok
    unfold stochI_KSeries at this
    rw [if_pos (by unfold stochTK; omega)] at this
    exact this
  · have := h.d_ok
    unfold stochI_DSeries at this
    rw [if_pos (by unfold stochTD; omega)] at this
    exact this

/-! #### non-vacuity: `STOCH_2` of the foreign reading `"EMA_2"` of `demoForeign` (`None, None, 12, 14, 15`) -/

theorem stochI_names_demo : StochNames "STOCH_2" :=
  ⟨by decide, by decide, by decide, by decide, by decide, by decide, by decide, by decide, by decide, by decide⟩

theorem stochI_input_demo : StochIInput "STOCH_2" "EMA_2" :=
  stochI_input_of_noDot _ _ (by decide) (by decide) (by decide) (by decide) (by decide)

theorem stochI_abs_demo : ∀ c ∈ demoForeign, StochIAbsent "STOCH_2" c := by
  intro c hc
  exact ⟨demoForeign_abs "STOCH_2" (by decide) (by decide) (by decide) c hc,
    demoForeign_abs "STOCH_2_data" (by decide) (by decide) (by decide) c hc,
    demoForeign_abs "STOCH_2_k" (by decide) (by decide) (by decide) c hc,
    demoForeign_abs "STOCH_2_d" (by decide) (by decide) (by decide) c hc⟩

/-- `STOCH(period = 2, slow = 1, smoothing_k = 1)` of the foreign reading `"EMA_2"` over `demoForeign`
(`t0 = 2`: raw value, `%K` and `%D` all start at index `t0 + p − 1 = 3`) -/
example : ∃ out : List (Candle ℚ),
    engineCalc (mkTop (.stoch ((2 : Nat) : Int) ((1 : Nat) : Int) ((1 : Nat) : Int) "EMA_2" : Kind ℚ) "STOCH_2" 4)
      demoForeign = .ok out ∧
    out.length = demoForeign.length ∧
    ∀ j, j < demoForeign.length →
      StochIOK 4 2 1 1 2 (fieldAt (·.l) demoForeign) (fieldAt (·.h) demoForeign) demoX j
        (readingByCandle (out.getD j default) "STOCH_2") (readingByCandle (out.getD j default) ("STOCH_2" ++ "_data"))
        (readingByCandle (out.getD j default) ("STOCH_2" ++ "_k"))
        (readingByCandle (out.getD j default) ("STOCH_2" ++ "_d")) ∧
      (∀ key, StochIInput "STOCH_2" key →
        readingByCandle (out.getD j default) key = readingByCandle (demoForeign.getD j default) key) :=
  c06_stoch_inputs ℚ 2 1 1 "STOCH_2" "EMA_2" 4 2 demoForeign demoX (by norm_num) (by norm_num) (by norm_num)
    stochI_names_demo stochI_input_demo stochI_abs_demo demoForeign_in demoForeign_none

/-- the two-start raw values on `demoForeign`: candle 3 has input 14 in the range `[11, 16]` of candles 2–3,
candle 4 has input 15 in the range `[13, 16]` of candles 3–4 -/
example : (List.range 5).map (stochI_Series 2 2 (fieldAt (·.l) demoForeign) (fieldAt (·.h) demoForeign) demoX)
    = [none, none, none, some 60, some (200 / 3)] := by
  simp [List.range, List.range.loop, stochI_Series, stochI_st, stExact, stochOf, rmin, rmax, fieldAt,
    demoForeign, demoX]
  norm_num

end Numeric

/-- the toy carrier: STOCH of a late-starting foreign reading returns; the `stoch` field of the own dict is
missing on the first `t0 + p − 1 = 3` candles, `%D` (`slow = 2`) one candle longer (`decide`) -/
example : (engineCalc (mkTop (.stoch 2 2 1 "EMA_2") "STOCH_2" 4)
    ([{ o := .int 10, h := .int 12, l := .int 9, c := .int 11, v := .int 100 },
      { o := .int 11, h := .int 13, l := .int 10, c := .int 12, v := .int 200, inds := [("EMA_2", .none)] },
      { o := .int 12, h := .int 15, l := .int 11, c := .int 14, v := .int 300, inds := [("EMA_2", .int 12)] },
      { o := .int 14, h := .int 16, l := .int 13, c := .int 15, v := .int 0, inds := [("EMA_2", .int 14)] },
      { o := .int 15, h := .int 17, l := .int 14, c := .int 16, v := .int 0, inds := [("EMA_2", .int 15)] }]
      : List (Candle Int))).toOption.map
      (fun l => l.map fun c => ((readingByCandle c "STOCH_2.stoch").isNone, (readingByCandle c "STOCH_2_d").isNone))
    = some [(true, true), (true, true), (true, true), (false, true), (false, false)] := by
  decide +kernel

end Hex

#print axioms Hex.Numeric.stochI_step
#print axioms Hex.Numeric.stochI_inputs_rows
#print axioms Hex.Numeric.c06_stoch_inputs
#print axioms Hex.Numeric.c06_stoch_inputs_zero
#print axioms Hex.Numeric.stochI_ranges
#print axioms Hex.Numeric.stochI_ok_zero
#print axioms Hex.Numeric.stochI_Row_zero

import HexProofs.Numeric.Composite
import HexProofs.Numeric.Window
/-!
# RSI
-/
set_option linter.unusedSectionVars false
set_option linter.unusedSimpArgs false
namespace Hex
variable {K : Type} [Field K] [LinearOrder K] [IsStrictOrderedRing K] [LawfulPyF K]
namespace Numeric

/-- `100 - 100/(1 + g/l)` (and `100` with no losses) -/
def rsiOf (g l : K) : K := if l = 0 then 100 else 100 - 100 / (1 + g / l)

/-- RSI ∈ [0, 100] for non-negative average gain and loss -/
theorem rsiOf_range (g l : K) (hg : 0 ≤ g) (hl : 0 ≤ l) : 0 ≤ rsiOf g l ∧ rsiOf g l ≤ 100 := by
  unfold rsiOf
  by_cases h0 : l = 0
  · simp [h0]
  · have hl' : 0 < l := lt_of_le_of_ne hl (Ne.symm h0)
    have h1 : 1 ≤ 1 + g / l := by have := div_nonneg hg hl; linarith
    have hpos : 0 < 1 + g / l := by linarith
    simp only [h0, if_false]
    have hq : 100 / (1 + g / l) ≤ 100 := by rw [div_le_iff₀ hpos]; nlinarith
    have hq0 : 0 ≤ 100 / (1 + g / l) := div_nonneg (by norm_num) hpos.le
    constructor <;> linarith

/-- the textbook form `100·g/(g+l)` -/
theorem rsiOf_eq (g l : K) (hg : 0 ≤ g) (hl : 0 < l) : rsiOf g l = 100 * g / (g + l) := by
  unfold rsiOf
  have h0 : l ≠ 0 := hl.ne'
  have : g + l ≠ 0 := by have : 0 < g + l := by linarith
                         exact this.ne'
  have h2 : 1 + g / l ≠ 0 := by
    have := div_nonneg hg hl.le
    have : 0 < 1 + g / l := by linarith
    exact this.ne'
  simp only [h0, if_false]
  field_simp
  ring

/-- the tail of `_calculate_reading`: turn the stored average gain / loss into the reading -/
theorem rsi_tail (x' : Ctx K) (name : String) (dv : Val K) (g l : Num K)
    (hd : x'.reading (name ++ "_data") = .ok dv) (hdt : dv.truthy = true)
    (hl : x'.reading (name ++ "_data.loss") = .ok (.num l))
    (hg : x'.reading (name ++ "_data.gain") = .ok (.num g))
    (hgn : 0 ≤ g.toF) (hln : 0 ≤ l.toF) :
    (do
      if (← x'.reading (name ++ "_data")).truthy then
        let l ← x'.num (name ++ "_data.loss")
        if l.eq (.int 0) then return (Val.num (fl 100 : Num K))
        let g ← x'.num (name ++ "_data.gain")
        let rs ← g.truediv l
        let r := (fl 100 : Num K).sub (← (fl 100 : Num K).truediv ((fl 1).add rs))
        return (.num r)
      else return Val.none : PyM (Val K))
    = .ok (.num (.flt (rsiOf g.toF l.toF))) := by
  unfold rsiOf
  by_cases h0 : l.toF = 0
  · have e : l.eq (.int 0) = true := by rw [Num.eq_iff]; simpa using h0
    simp [hd, hdt, Ctx.num_of hl, e, h0, Num.fl_eq]
  · have e : l.eq (.int 0) = false := by rw [Num.eq_false_iff]; simpa using h0
    have hl' : 0 < l.toF := lt_of_le_of_ne hln (Ne.symm h0)
    have hpos : 0 < 1 + g.toF / l.toF := by have := div_nonneg hgn hln; linarith
    have hd2 : ((Num.flt (1 : K)).add (.flt (g.toF / l.toF))).toF ≠ 0 := by simpa using hpos.ne'
    simp [hd, hdt, Ctx.num_of hl, e, h0, Ctx.num_of hg, Num.truediv_ok _ _ h0, Num.truediv_ok _ _ hd2, Num.fl_eq,
      Num.sub, LawfulPyF.sub_eq]

/-- gain / loss of one price change (`change = previous − current`, as the code computes it) -/
def gainOf (change : K) : K := if change < 0 then -change else 0
def lossOf (change : K) : K := if 0 < change then change else 0

theorem gainOf_nonneg (c : K) : 0 ≤ gainOf c := by unfold gainOf; split_ifs <;> linarith
theorem lossOf_nonneg (c : K) : 0 ≤ lossOf c := by unfold lossOf; split_ifs <;> linarith

/-- Wilder step keeps a non-negative average non-negative -/
theorem wilder_nonneg (p : Nat) (a v : K) (hp : 1 ≤ p) (ha : 0 ≤ a) (hv : 0 ≤ v) :
    0 ≤ (a * ((p : K) - 1) + v) / p := by
  have : (1 : K) ≤ p := by exact_mod_cast hp
  apply div_nonneg _ (by linarith)
  have := mul_nonneg ha (by linarith : (0 : K) ≤ (p : K) - 1)
  linarith

/-- RSI, running branch: Wilder-smoothed gain and loss are written to the helper series and the
reading is `rsiOf gain loss` -/
theorem rsi_step (ops : Ops K) (x : Ctx K) (p : Nat) (input : String) (w : Val K → List (Candle K))
    (pr pi ci g0 l0 : Num K)
    (hprev : x.prevReading x.name = .ok (.num pr))
    (hpi : x.prevReading input = .ok (.num pi)) (hci : x.reading input = .ok (.num ci))
    (hg0 : x.prevReading (x.name ++ "_data.gain") = .ok (.num g0))
    (hl0 : x.prevReading (x.name ++ "_data.loss") = .ok (.num l0))
    (hset : ∀ v, ops.setManaged "RSI_data" v x.cs = .ok (w v))
    (hdata : ∀ v, (Ctx.on x (w v)).reading (x.name ++ "_data") = .ok v)
    (hrg : ∀ g l : Num K, (Ctx.on x (w (sdict [("gain", sc g), ("loss", sc l)]))).reading (x.name ++ "_data.gain") = .ok (.num g))
    (hrl : ∀ g l : Num K, (Ctx.on x (w (sdict [("gain", sc g), ("loss", sc l)]))).reading (x.name ++ "_data.loss") = .ok (.num l))
    (hp : 1 ≤ p) (hg0n : 0 ≤ g0.toF) (hl0n : 0 ≤ l0.toF) :
    Calc.rsi ops x p input =
      .ok (.num (.flt (rsiOf ((g0.toF * ((p : K) - 1) + gainOf (pi.toF - ci.toF)) / p)
                             ((l0.toF * ((p : K) - 1) + lossOf (pi.toF - ci.toF)) / p))),
           w (sdict [("gain", sc (.flt ((g0.toF * ((p : K) - 1) + gainOf (pi.toF - ci.toF)) / p))),
                     ("loss", sc (.flt ((l0.toF * ((p : K) - 1) + lossOf (pi.toF - ci.toF)) / p)))])) := by
  have hpK : (p : K) ≠ 0 := by exact_mod_cast (by omega : p ≠ 0)
  have hd : (Num.int (p : Int) : Num K).toF ≠ 0 := by simpa using hpK
  -- the gain / loss numbers the code builds
  set change : Num K := pi.sub ci with hchange
  have hgain : (if change.lt (.int 0) then (Num.int (-1)).mul change else fl 0 : Num K).toF = gainOf (pi.toF - ci.toF) := by
    unfold gainOf
    by_cases h : change.toF < 0
    · have : change.lt (.int 0) = true := by rw [Num.lt_iff]; simpa using h
      rw [if_pos this]; simp [hchange] at h ⊢; simp [h]
    · have : change.lt (.int 0) = false := by rw [Num.lt_false_iff]; simpa using not_lt.1 h
      rw [this]; simp [hchange] at h ⊢; simp [not_lt.2 h]
  have hloss : (if change.gt (.int 0) then change else fl 0 : Num K).toF = lossOf (pi.toF - ci.toF) := by
    unfold lossOf
    by_cases h : 0 < change.toF
    · have : change.gt (.int 0) = true := by rw [Num.gt_iff]; simpa using h
      rw [if_pos this]; simp [hchange] at h ⊢; simp [h]
    · have : change.gt (.int 0) = false := by rw [Num.gt_false_iff]; simpa using not_lt.1 h
      rw [this]; simp [hchange] at h ⊢; simp [not_lt.2 h]
  unfold Calc.rsi
  simp only [Ctx.prevExists_of hprev, pym_bind_ok, Val.isNone_num, Bool.not_false, if_true,
    Ctx.prevNum_of hpi, Ctx.num_of hci, Ctx.prevNum_of hg0, Ctx.prevNum_of hl0, Val.asNum_num,
    Num.truediv_ok _ _ hd, hset, ← hchange]
  have eG : ((g0.mul (Num.int ((p : Int) - 1))).add
      (if change.lt (Num.int 0) = true then (Num.int (-1)).mul change else fl 0)).toF / (Num.int (p : Int) : Num K).toF
      = (g0.toF * ((p : K) - 1) + gainOf (pi.toF - ci.toF)) / p := by
    rw [Num.toF_add, Num.toF_mul, hgain]; simp
  have eL : ((l0.mul (Num.int ((p : Int) - 1))).add
      (if change.gt (Num.int 0) = true then change else fl 0)).toF / (Num.int (p : Int) : Num K).toF
      = (l0.toF * ((p : K) - 1) + lossOf (pi.toF - ci.toF)) / p := by
    rw [Num.toF_add, Num.toF_mul, hloss]; simp
  simp only [eG, eL]
  have hgn := wilder_nonneg p g0.toF (gainOf (pi.toF - ci.toF)) hp hg0n (gainOf_nonneg _)
  have hln := wilder_nonneg p l0.toF (lossOf (pi.toF - ci.toF)) hp hl0n (lossOf_nonneg _)
  generalize (g0.toF * ((p : K) - 1) + gainOf (pi.toF - ci.toF)) / p = gK at hgn ⊢
  generalize (l0.toF * ((p : K) - 1) + lossOf (pi.toF - ci.toF)) / p = lK at hln ⊢
  have hdt : (sdict [("gain", sc (Num.flt gK)), ("loss", sc (Num.flt lK))] : Val K).truthy = true := rfl
  have hrg' := hrg (.flt gK) (.flt lK)
  have hrl' := hrl (.flt gK) (.flt lK)
  have hd' := hdata (sdict [("gain", sc (Num.flt gK)), ("loss", sc (Num.flt lK))])
  simp only [Ctx.on] at hrg' hrl' hd'
  simp only [hd', pym_bind_ok, hdt, if_true, Ctx.num_of hrl', Ctx.num_of hrg', Val.asNum_num]
  unfold rsiOf
  by_cases h0 : lK = 0
  · subst h0
    have e : (Num.flt (0 : K)).eq (.int 0) = true := by rw [Num.eq_iff]; simp
    simp [e, Num.fl_eq]
  · have e : (Num.flt lK).eq (.int 0) = false := by rw [Num.eq_false_iff]; simpa using h0
    have hl' : 0 < lK := lt_of_le_of_ne hln (Ne.symm h0)
    have hpos : 0 < 1 + gK / lK := by have := div_nonneg hgn hln; linarith
    have hd2 : ((Num.flt (1 : K)).add (.flt (gK / lK))).toF ≠ 0 := by simpa using hpos.ne'
    have h0' : (Num.flt lK).toF ≠ 0 := h0
    simp [e, h0, Num.truediv_ok _ _ h0', Num.truediv_ok _ _ hd2, Num.fl_eq, Num.sub, LawfulPyF.sub_eq]

/-! ### the seed branch: simple averages of the first `period` gains and losses -/

theorem sum_filter_gt (l : List (Num K)) :
    ((l.filter fun c => c.gt (.int 0)).map Num.toF).sum = (l.map fun c => max c.toF 0).sum := by
  induction l with
  | nil => simp
  | cons c l ih =>
    by_cases h : 0 < c.toF
    · have : c.gt (.int 0) = true := by rw [Num.gt_iff]; simpa using h
      simp [List.filter_cons, this, ih, max_eq_left h.le]
    · have : c.gt (.int 0) = false := by rw [Num.gt_false_iff]; simpa using not_lt.1 h
      simp [List.filter_cons, this, ih, max_eq_right (not_lt.1 h)]

theorem sum_filter_lt_abs (l : List (Num K)) :
    (((l.filter fun c => c.lt (.int 0)).map Num.abs).map Num.toF).sum = (l.map fun c => max (-c.toF) 0).sum := by
  induction l with
  | nil => simp
  | cons c l ih =>
    by_cases h : c.toF < 0
    · have : c.lt (.int 0) = true := by rw [Num.lt_iff]; simpa using h
      have e : max (-c.toF) 0 = |c.toF| := by rw [abs_of_neg h, max_eq_left (by linarith)]
      simp only [List.filter_cons, this, if_true, List.map_cons, List.sum_cons, ih, Num.toF_abs, e]
    · have : c.lt (.int 0) = false := by rw [Num.lt_false_iff]; simpa using not_lt.1 h
      have e : max (-c.toF) 0 = 0 := max_eq_right (by linarith [not_lt.1 h])
      simp only [List.filter_cons, this, Bool.false_eq_true, if_false, List.map_cons, List.sum_cons, ih, e, zero_add]

theorem sum_max_nonneg (l : List K) (f : K → K) (hf : ∀ c, 0 ≤ f c) : 0 ≤ (l.map f).sum := by
  induction l with
  | nil => simp
  | cons c l ih => simp only [List.map_cons, List.sum_cons]; have := hf c; linarith

/-- RSI, seed branch (first candle with `period` changes): simple means of the gains and of the
losses over the window -/
theorem rsi_seed (ops : Ops K) (x : Ctx K) (p : Nat) (input : String) (w : Val K → List (Candle K))
    (r : Nat → Num K)
    (hprev : x.prevReading x.name = .ok .none)
    (hrp : x.readingPeriod ((p : Int) + 1) input = true)
    (hr : ∀ j, j ≤ p → x.reading input (some (x.i - p + j)) = .ok (.num (r j)))
    (hset : ∀ v, ops.setManaged "RSI_data" v x.cs = .ok (w v))
    (hdata : ∀ v, (Ctx.on x (w v)).reading (x.name ++ "_data") = .ok v)
    (hrg : ∀ g l : Num K, (Ctx.on x (w (sdict [("gain", sc g), ("loss", sc l)]))).reading (x.name ++ "_data.gain") = .ok (.num g))
    (hrl : ∀ g l : Num K, (Ctx.on x (w (sdict [("gain", sc g), ("loss", sc l)]))).reading (x.name ++ "_data.loss") = .ok (.num l))
    (hp : 1 ≤ p) :
    Calc.rsi ops x p input =
      .ok (.num (.flt (rsiOf
              (((List.range p).map fun j => max ((r (j + 1)).toF - (r j).toF) 0).sum / p)
              (((List.range p).map fun j => max (-((r (j + 1)).toF - (r j).toF)) 0).sum / p))),
           w (sdict [("gain", sc (.flt (((List.range p).map fun j => max ((r (j + 1)).toF - (r j).toF) 0).sum / p))),
                     ("loss", sc (.flt (((List.range p).map fun j => max (-((r (j + 1)).toF - (r j).toF)) 0).sum / p)))])) := by
  have hpK : (p : K) ≠ 0 := by exact_mod_cast (by omega : p ≠ 0)
  have hpK0 : (0 : K) < p := by exact_mod_cast (by omega : 0 < p)
  have hd : (Num.int (p : Int) : Num K).toF ≠ 0 := by simpa using hpK
  -- the list of changes
  have hm : ((pyRange (x.i - ((p : Int) - 1)) (x.i + 1)).mapM fun i => do
        return (← x.num input (some i)).sub (← x.num input (some (i - 1))))
      = .ok ((List.range p).map fun j => (r (j + 1)).sub (r j)) := by
    have e : x.i + 1 = (x.i - ((p : Int) - 1)) + (p : Int) := by omega
    rw [e, pyRange_eq]
    rw [mapM_ok _ _ (fun (i : Int) => (r ((i - (x.i - (p : Int))).toNat)).sub (r ((i - 1 - (x.i - (p : Int))).toNat)))]
    · rw [List.map_map]
      congr 1
      apply List.map_congr_left
      intro j _
      have e1 : (x.i - ((p : Int) - 1) + (j : Int) - (x.i - (p : Int))).toNat = j + 1 := by omega
      have e2 : (x.i - ((p : Int) - 1) + (j : Int) - 1 - (x.i - (p : Int))).toNat = j := by omega
      simp only [Function.comp_def, e1, e2]
    · intro i hi
      obtain ⟨j, hj, rfl⟩ := List.mem_map.1 hi
      have hj' := List.mem_range.1 hj
      have e1 : (x.i - ((p : Int) - 1) + (j : Int) - (x.i - (p : Int))).toNat = j + 1 := by omega
      have e2 : (x.i - ((p : Int) - 1) + (j : Int) - 1 - (x.i - (p : Int))).toNat = j := by omega
      have a1 : x.i - ((p : Int) - 1) + (j : Int) = x.i - (p : Int) + ((j + 1 : Nat) : Int) := by omega
      have a2 : x.i - ((p : Int) - 1) + (j : Int) - 1 = x.i - (p : Int) + ((j : Nat) : Int) := by omega
      have h1 := hr (j + 1) (by omega)
      have h2 := hr j (by omega)
      rw [← a1] at h1; rw [← a2] at h2
      simp [Ctx.num_of h1, Ctx.num_of h2, e1, e2]
  unfold Calc.rsi
  simp only [Ctx.prevExists_of hprev, pym_bind_ok, Val.isNone_none, Bool.not_true, Bool.false_eq_true, if_false,
    hrp, if_true]
  erw [hm]
  simp only [pym_bind_ok, Num.truediv_ok _ _ hd, hset]
  have eG : (pySum (((List.range p).map fun j => (r (j + 1)).sub (r j)).filter fun c => c.gt (.int 0))).toF
      / (Num.int (p : Int) : Num K).toF
      = ((List.range p).map fun j => max ((r (j + 1)).toF - (r j).toF) 0).sum / p := by
    rw [toF_pySum, sum_filter_gt]; simp [List.map_map, Function.comp_def]
  have eL : (pySum ((((List.range p).map fun j => (r (j + 1)).sub (r j)).filter fun c => c.lt (.int 0)).map Num.abs)).toF
      / (Num.int (p : Int) : Num K).toF
      = ((List.range p).map fun j => max (-((r (j + 1)).toF - (r j).toF)) 0).sum / p := by
    rw [toF_pySum, sum_filter_lt_abs]; simp [List.map_map, Function.comp_def]
  simp only [eG, eL]
  have hgn : 0 ≤ ((List.range p).map fun j => max ((r (j + 1)).toF - (r j).toF) 0).sum / (p : K) := by
    apply div_nonneg _ hpK0.le
    have := sum_max_nonneg ((List.range p).map fun j => (r (j + 1)).toF - (r j).toF) (fun c => max c 0)
      (fun c => le_max_right _ _)
    simpa [List.map_map, Function.comp_def] using this
  have hln : 0 ≤ ((List.range p).map fun j => max (-((r (j + 1)).toF - (r j).toF)) 0).sum / (p : K) := by
    apply div_nonneg _ hpK0.le
    have := sum_max_nonneg ((List.range p).map fun j => (r (j + 1)).toF - (r j).toF) (fun c => max (-c) 0)
      (fun c => le_max_right _ _)
    simpa [List.map_map, Function.comp_def] using this
  generalize ((List.range p).map fun j => max ((r (j + 1)).toF - (r j).toF) 0).sum / (p : K) = gK at hgn ⊢
  generalize ((List.range p).map fun j => max (-((r (j + 1)).toF - (r j).toF)) 0).sum / (p : K) = lK at hln ⊢
  have hdt : (sdict [("gain", sc (Num.flt gK)), ("loss", sc (Num.flt lK))] : Val K).truthy = true := rfl
  have hrg' := hrg (.flt gK) (.flt lK)
  have hrl' := hrl (.flt gK) (.flt lK)
  have hd' := hdata (sdict [("gain", sc (Num.flt gK)), ("loss", sc (Num.flt lK))])
  simp only [Ctx.on] at hrg' hrl' hd'
  simp only [hd', pym_bind_ok, hdt, if_true, Ctx.num_of hrl', Ctx.num_of hrg', Val.asNum_num]
  unfold rsiOf
  by_cases h0 : lK = 0
  · subst h0
    have e : (Num.flt (0 : K)).eq (.int 0) = true := by rw [Num.eq_iff]; simp
    simp [e, Num.fl_eq]
  · have e : (Num.flt lK).eq (.int 0) = false := by rw [Num.eq_false_iff]; simpa using h0
    have hl' : 0 < lK := lt_of_le_of_ne hln (Ne.symm h0)
    have hpos : 0 < 1 + gK / lK := by have := div_nonneg hgn hln; linarith
    have hd2 : ((Num.flt (1 : K)).add (.flt (gK / lK))).toF ≠ 0 := by simpa using hpos.ne'
    have h0' : (Num.flt lK).toF ≠ 0 := h0
    simp [e, h0, Num.truediv_ok _ _ h0', Num.truediv_ok _ _ hd2, Num.fl_eq, Num.sub, LawfulPyF.sub_eq]

/-- RSI before its warm-up: the helper series is cleared and the reading is `None` -/
theorem rsi_none (ops : Ops K) (x : Ctx K) (p : Int) (input : String) (cs1 : List (Candle K))
    (hprev : x.prevReading x.name = .ok .none)
    (hrp : x.readingPeriod (p + 1) input = false)
    (hdata : x.reading (x.name ++ "_data") = .ok .none)
    (hset : ops.setManaged "RSI_data" .none x.cs = .ok cs1) :
    Calc.rsi ops x p input = .ok (.none, cs1) := by
  have : ({ x with cs := x.cs } : Ctx K) = x := rfl
  simp [Calc.rsi, Ctx.prevExists_of hprev, hrp, this, hdata, hset, Val.truthy, Scalar.truthy]

end Numeric
end Hex

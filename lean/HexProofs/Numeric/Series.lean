import HexProofs.Framework.RowMajor
import HexProofs.Framework.Names
import HexProofs.Numeric.AvgExtra
/-!
# From one call to the whole series

`rowMajor ind raw` (HexProofs/Framework/RowMajor.lean) is the row-major specification of a leaf
indicator – each candle's reading computed from the prefix only – and is what `calculate()` /
any append schedule produce (C01, `calculate_refines`).  This file provides the induction that
turns a per-call numeric theorem into a statement about every reading of the series, for a
top-level leaf indicator reading a candle field.
-/
set_option linter.unusedSectionVars false
set_option linter.unusedSimpArgs false
namespace Hex
namespace Numeric
variable {F : Type} [PyF F]

/-- the raw candles with the readings `vs` stored under the key `nm` of `.indicators` -/
def deco (nm : String) (raw : List (Candle F)) (vs : List (Val F)) : List (Candle F) :=
  List.zipWith (fun c v => setKey false nm v c) raw vs

theorem deco_length (nm : String) (raw : List (Candle F)) (vs : List (Val F)) (h : vs.length = raw.length) :
    (deco nm raw vs).length = raw.length := by
  simp [deco, h]

theorem deco_append (nm : String) (raw : List (Candle F)) (vs : List (Val F)) (c : Candle F) (v : Val F)
    (h : vs.length = raw.length) :
    deco nm (raw ++ [c]) (vs ++ [v]) = deco nm raw vs ++ [setKey false nm v c] := by
  unfold deco
  rw [List.zipWith_append (by omega)]
  rfl

theorem deco_getElem? (nm : String) (raw : List (Candle F)) (vs : List (Val F)) (j : Nat)
    (h : vs.length = raw.length) (hj : j < raw.length) :
    (deco nm raw vs)[j]? = some (setKey false nm (vs.getD j .none) (raw.getD j default)) := by
  unfold deco
  rw [List.getElem?_zipWith]
  have h1 : raw[j]? = some (raw.getD j default) := by
    rw [List.getD_eq_getElem?_getD, List.getElem?_eq_getElem hj]; rfl
  have h2 : vs[j]? = some (vs.getD j .none) := by
    rw [List.getD_eq_getElem?_getD, List.getElem?_eq_getElem (by omega)]; rfl
  rw [h1, h2]

/-- the context of the row-major step at index `m` -/
abbrev stepCtx (nm : String) (raw : List (Candle F)) (vs : List (Val F)) (m : Nat) : Ctx F :=
  { cs := deco nm (raw.take m) vs ++ [raw.getD m default], i := m, name := nm }

section access
variable (nm input : String) (fld : Candle F → Num F) (raw : List (Candle F)) (vs : List (Val F)) (m : Nat)

theorem stepCtx_lt (hm : m < raw.length) (hvs : vs.length = m) (j : Nat) (hj : j < m) :
    (stepCtx nm raw vs m).cs[j]? = some (setKey false nm (vs.getD j .none) (raw.getD j default)) := by
  have htl : (raw.take m).length = m := by simp; omega
  simp only [stepCtx]
  rw [List.getElem?_append_left (by rw [deco_length _ _ _ (by rw [htl, hvs]), htl]; exact hj)]
  rw [deco_getElem? nm (raw.take m) vs j (by rw [htl, hvs]) (by rw [htl]; exact hj)]
  congr 2
  rw [List.getD_eq_getElem?_getD, List.getD_eq_getElem?_getD, List.getElem?_take_of_lt hj]

theorem stepCtx_eq (hm : m < raw.length) (hvs : vs.length = m) :
    (stepCtx nm raw vs m).cs[m]? = some (raw.getD m default) := by
  have htl : (raw.take m).length = m := by simp; omega
  simp only [stepCtx]
  rw [List.getElem?_append_right (by rw [deco_length _ _ _ (by rw [htl, hvs]), htl])]
  rw [deco_length _ _ _ (by rw [htl, hvs]), htl]
  simp

theorem stepCtx_length (hm : m < raw.length) (hvs : vs.length = m) :
    (stepCtx nm raw vs m).cs.length = m + 1 := by
  have htl : (raw.take m).length = m := by simp; omega
  simp only [stepCtx, List.length_append, List.length_singleton]
  rw [deco_length _ _ _ (by rw [htl, hvs]), htl]

/-- reading of a candle field at any index up to the active one -/
theorem stepCtx_field (hm : m < raw.length) (hvs : vs.length = m)
    (hd : NoDot input) (hattr : ∀ c : Candle F, c.attr input = some (.num (fld c)))
    (j : Nat) (hj : j ≤ m) :
    (stepCtx nm raw vs m).reading input (some (j : Int)) = .ok (.num (fld (raw.getD j default))) := by
  unfold Ctx.reading
  simp only [Option.getD_some]
  rw [pyIndex_nonneg _ _ (by omega)]
  simp only [Int.toNat_natCast]
  by_cases hjm : j < m
  · rw [stepCtx_lt nm raw vs m hm hvs j hjm]
    simp only [getOrIndexError, pym_bind_ok, pym_pure]
    rw [readingByCandle_attr input hd _ (.num (fld (raw.getD j default))) (by rw [attr_setKey]; exact hattr _)]
  · have : j = m := by omega
    subst this
    rw [stepCtx_eq nm raw vs j hm hvs]
    simp only [getOrIndexError, pym_bind_ok, pym_pure]
    rw [readingByCandle_attr input hd _ _ (hattr _)]

/-- … in particular at the active index -/
theorem stepCtx_field_cur (hm : m < raw.length) (hvs : vs.length = m)
    (hd : NoDot input) (hattr : ∀ c : Candle F, c.attr input = some (.num (fld c))) :
    (stepCtx nm raw vs m).reading input = .ok (.num (fld (raw.getD m default))) :=
  stepCtx_field nm input fld raw vs m hm hvs hd hattr m (le_refl m)

/-- the indicator's own reading on a finished candle -/
theorem stepCtx_own (hm : m < raw.length) (hvs : vs.length = m) (hk : IsKey nm)
    (hraw : ∀ c ∈ raw, Plain c) (j : Nat) (hj : j < m) :
    (stepCtx nm raw vs m).reading nm (some (j : Int)) = .ok (vs.getD j .none) := by
  unfold Ctx.reading
  simp only [Option.getD_some]
  rw [pyIndex_nonneg _ _ (by omega)]
  simp only [Int.toNat_natCast]
  rw [stepCtx_lt nm raw vs m hm hvs j hj]
  simp only [getOrIndexError, pym_bind_ok, pym_pure]
  have hp : Plain (raw.getD j default) := by
    apply hraw
    rw [List.getD_eq_getElem?_getD, List.getElem?_eq_getElem (by omega)]
    exact List.getElem_mem _
  rw [readingByCandle_setKey false nm hk _ _ hp]

/-- `prev_reading` of the indicator's own name -/
theorem stepCtx_prev (hm : m < raw.length) (hvs : vs.length = m) (hk : IsKey nm)
    (hraw : ∀ c ∈ raw, Plain c) :
    (stepCtx nm raw vs m).prevReading nm = .ok (if m = 0 then .none else vs.getD (m - 1) .none) := by
  unfold Ctx.prevReading
  have hl := stepCtx_length nm raw vs m hm hvs
  by_cases h0 : m = 0
  · subst h0; simp [stepCtx]
  · have h1 : ((stepCtx nm raw vs m).cs.length == 0) = false := by rw [hl]; simp
    have h2 : ((stepCtx nm raw vs m).i == 0) = false := by simp [stepCtx]; omega
    simp only [h1, h2, Bool.or_self, Bool.false_eq_true, if_false, h0]
    have e : (stepCtx nm raw vs m).i - 1 = ((m - 1 : Nat) : Int) := by simp [stepCtx]; omega
    rw [e]
    exact stepCtx_own nm raw vs m hm hvs hk hraw (m - 1) (by omega)

/-- `reading_period(q, field)` holds exactly when `q` candles exist -/
theorem stepCtx_period (hm : m < raw.length) (hvs : vs.length = m)
    (hd : NoDot input) (hattr : ∀ c : Candle F, c.attr input = some (.num (fld c))) (q : Nat) (hq : 1 ≤ q) :
    (stepCtx nm raw vs m).readingPeriod (q : Int) input = decide (q ≤ m + 1) := by
  have hl := stepCtx_length nm raw vs m hm hvs
  have hrd : ∀ j : Nat, j ≤ m → (readingByIndex (stepCtx nm raw vs m).cs input (j : Int)).isNone = false := by
    intro j hj
    have hv : validIndex (j : Int) (stepCtx nm raw vs m).cs.length = true := by
      rw [hl]; simp [validIndex]; omega
    have := stepCtx_field nm input fld raw vs m hm hvs hd hattr j hj
    unfold Ctx.reading at this
    simp only [Option.getD_some] at this
    unfold readingByIndex
    rw [hv]
    cases hpi : pyIndex (stepCtx nm raw vs m).cs (j : Int) with
    | error e => rw [hpi] at this; simp at this
    | ok c =>
      rw [hpi] at this
      simp only [pym_bind_ok, pym_pure, Except.ok.injEq] at this
      simp [this]
  unfold Ctx.readingPeriod Hex.readingPeriod
  simp only [Option.getD_none]
  have hv : validIndex (stepCtx nm raw vs m).i (stepCtx nm raw vs m).cs.length = true := by
    rw [hl]; simp [validIndex, stepCtx]; omega
  simp only [hv, Bool.not_true, Bool.false_eq_true, if_false]
  simp only [stepCtx] at hrd
  by_cases hqm : q ≤ m + 1
  · have a : ¬ ((m : Int) - ((q : Int) - 1) < 0) := by omega
    have b : (q : Int) - 1 ≥ 0 := by omega
    simp only [a, if_false, b, ge_iff_le, if_true, hqm, decide_true]
    have e1 : (m : Int) - ((q : Int) - 1) = ((m + 1 - q : Nat) : Int) := by omega
    have e2 : (m : Int) - ((q : Int) - 1) / 2 = ((m - (q - 1) / 2 : Nat) : Int) := by omega
    rw [e1, e2, hrd _ (by omega), hrd _ (by omega), hrd m (le_refl m)]
    rfl
  · have a : (m : Int) - ((q : Int) - 1) < 0 := by omega
    simp [a, hqm]

end access

/-! ### the induction -/

/-- **Series induction.**  If, whenever all earlier readings satisfy `Q`, the call at index `m`
succeeds and its stored (rounded) reading satisfies `Q m`, then the row-major run succeeds and
every reading of the series satisfies `Q`. -/
theorem series_induct (ind : Ind F) (nm : String) (hsub : ind.isSub = false) (hname : ind.name = nm)
    (raw : List (Candle F)) (Q : Nat → Val F → Prop)
    (hstep : ∀ (m : Nat) (_ : m < raw.length) (vs : List (Val F)), vs.length = m →
      (∀ j, j < m → Q j (vs.getD j .none)) →
      ∃ v, readKind ind.kind (stepCtx nm raw vs m) = .ok v ∧ Q m (v.roundBy ind.round)) :
    ∃ vs : List (Val F), vs.length = raw.length ∧ rowMajor ind raw = .ok (deco nm raw vs) ∧
      ∀ j, j < raw.length → Q j (vs.getD j .none) := by
  suffices h : ∀ m, m ≤ raw.length → ∃ vs : List (Val F), vs.length = m ∧
      rowMajor ind (raw.take m) = .ok (deco nm (raw.take m) vs) ∧ ∀ j, j < m → Q j (vs.getD j .none) by
    obtain ⟨vs, h1, h2, h3⟩ := h raw.length (le_refl _)
    rw [List.take_length] at h2
    exact ⟨vs, h1, h2, h3⟩
  intro m
  induction m with
  | zero => intro _; exact ⟨[], rfl, by simp [rowMajor, rowMajorFrom, deco], fun j hj => absurd hj (Nat.not_lt_zero j)⟩
  | succ m ih =>
    intro hm
    obtain ⟨vs, h1, h2, h3⟩ := ih (by omega)
    obtain ⟨v, hv, hq⟩ := hstep m (by omega) vs h1 h3
    have htl : (raw.take m).length = m := by simp; omega
    have hdl : (deco nm (raw.take m) vs).length = m := by rw [deco_length _ _ _ (by rw [htl, h1]), htl]
    have htake : raw.take (m + 1) = raw.take m ++ [raw.getD m default] := by
      rw [List.take_add_one]
      congr 1
      rw [List.getD_eq_getElem?_getD, List.getElem?_eq_getElem (by omega)]
      rfl
    refine ⟨vs ++ [v.roundBy ind.round], by simp [h1], ?_, ?_⟩
    · rw [htake, rowMajor_append, h2]
      simp only [pym_bind_ok, rowMajorFrom, List.foldlM_cons, List.foldlM_nil]
      rw [rowStep_eq, hdl, hname]
      simp only [stepCtx] at hv
      rw [hv]
      simp only [pym_bind_ok, pym_pure, bind_pure]
      rw [deco_append _ _ _ _ _ (by rw [htl, h1]), hsub]
    · intro j hj
      by_cases hjm : j < m
      · rw [List.getD_eq_getElem?_getD, List.getElem?_append_left (by omega), ← List.getD_eq_getElem?_getD]
        exact h3 j hjm
      · have : j = m := by omega
        subst this
        rw [List.getD_eq_getElem?_getD, List.getElem?_append_right (by omega)]
        simpa [h1] using hq

end Numeric
end Hex

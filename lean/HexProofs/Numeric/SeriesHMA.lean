import HexProofs.Framework.Gen.HMA
import HexProofs.Numeric.SeriesSTOCH
/-!
# Hull moving average: the whole series (closes the HMA item of `C04_FULL`)

`Gen.rowMajor (hmaTree …).S raw` is the row-major run of the HMA tree (prior leaf helpers
`name_WMA` = WMA(`p`) and `name_WMAh` = WMA(`p/2`) over the input, the `Managed` holder `name_HMAr`
with its non-prior leaf `name_HMAs` = WMA(`⌊√p⌋`) over `name_HMAr`, own reading under `name`); by
`TreeSpec.engine` / `batch_iff` / `live_refines` it is what `calculate()`, the batch run and every
append schedule return.

What the model (`Calc.hma`, `children`, `Calc.wma`, `hmaVal`) actually does, and hence what is
proved (`period = p ≥ 2`, input a candle field `x`); cross-checked against the real class on the
demo candles:

* `name_WMA` is `None` before index `p − 1`, then `round₄(WMA_p(x))` (`hmaW4`); `name_WMAh` is `None`
  before `⌊p/2⌋ − 1`, then `round₄(WMA_{⌊p/2⌋}(x))` (`hmaWh4`) – helper readings are rounded to
  `defaultRound = 4` by the engine;
* before `p − 1` (no `name_WMA` reading) the node writes NOTHING but its own `None`; from `p − 1` on the
  raw value `2·name_WMAh − name_WMA` of the two STORED readings goes UNROUNDED into `name_HMAr`
  (`Managed.set_reading` does not round): `hmaRawS`, within `3·ε₄` of the textbook raw value;
* `name_HMAs` = WMA(`⌊√p⌋`) over `name_HMAr`, run from inside the node's step, rounded to 4: a stored
  `None` from `p − 1` up to the TRUE WARM-UP INDEX `hmaT0 p = (p − 1) + (⌊√p⌋ − 1)`, from there on
  `round₄(WMA_{⌊√p⌋}(hmaRawS))` (`hmaS4`): within `4·ε₄` of the textbook HMA (`hmaS4_err` – WMA is a
  direct window formula, a convex combination: the budget does not grow);
* the own reading is the `name_HMAs` reading rounded to the node's `rounding` `n`: `+ ε_n` (`HmaOK`);
  with `n = 4` the second rounding is the identity (`HmaOK.own_default`).

Theorems: `hma_series` (the run equals `hmaDeco`, an explicit function of the raw candles; by
induction along `Gen.rowMajor` – `gen_series_induct` – from `hma_step`), `hmaDeco_ok` (candle by
candle: `HmaOK` against the textbook `hmaSeries` = `WMA_{⌊√p⌋}(2·WMA_{⌊p/2⌋}(x) − WMA_p(x))`),
`hma_series_engine`, `hma_series_batch`, `hma_batch_readings`, `hma_engine_readings`, `hma_series_live`.
-/
set_option linter.unusedSectionVars false
set_option linter.unusedSimpArgs false
set_option linter.unusedVariables false
namespace Hex
namespace Numeric
variable {K : Type} [Field K] [LinearOrder K] [IsStrictOrderedRing K] [LawfulPyF K]

/-! ### the weighted window mean -/

theorem wma_weight_pos (p : Nat) (hp : 1 ≤ p) : (0 : K) < rsum p (fun k => (p : K) - k) := by
  rw [wma_weight_sum]
  have : (0 : K) < p := by exact_mod_cast (by omega : 0 < p)
  positivity

theorem rsum_congr (p : Nat) (f g : Nat → K) (h : ∀ k, k < p → f k = g k) : rsum p f = rsum p g := by
  induction p with
  | zero => simp [rsum]
  | succ n ih =>
    rw [rsum_succ, rsum_succ, ih (fun k hk => h k (by omega)), h n (by omega)]

/-- the weighted mean of pointwise `δ`-close inputs is `δ`-close (the weights are positive and sum
to the divisor: a convex combination) -/
theorem wmaAt_perturb (q : Nat) (hq : 1 ≤ q) (f g : Nat → K) (j : Nat) (δ : K)
    (h : ∀ k, k < q → |f (j - k) - g (j - k)| ≤ δ) : |wmaAt f q j - wmaAt g q j| ≤ δ := by
  have hW := wma_weight_pos (K := K) q hq
  have hb := wmean_between q (fun k => (q : K) - k) (fun k => f (j - k) - g (j - k)) (-δ) δ
    (fun k hk => by
      have : (k : K) ≤ q := by exact_mod_cast (by omega : k ≤ q)
      linarith)
    hW (fun k hk => abs_le.1 (h k hk))
  have e : rsum q (fun k => ((q : K) - k) * (f (j - k) - g (j - k)))
      = rsum q (fun k => ((q : K) - k) * f (j - k)) - rsum q (fun k => ((q : K) - k) * g (j - k)) := by
    rw [← rsum_sub]
    exact rsum_congr q _ _ (fun k _ => by ring)
  rw [e, sub_div] at hb
  exact abs_le.2 hb

/-- with period 1 the weighted mean is the input itself -/
theorem wmaAt_one (f : Nat → K) (j : Nat) : wmaAt f 1 j = f j := by
  simp [wmaAt, rsum]

/-! ### one call of a WMA inside a series -/

/-- **one call of WMA over a column.**  The context has `m + 1` candles and sits on the last; its
input column is `None` before `s0` and the numbers `g` from `s0` on; the own previous reading is
`None` while the window is not full.  Then the call returns `None` before `s0 + q − 1` and the
weighted mean of the last `q` inputs from there on. -/
theorem wma_on_col (x : Ctx K) (key : String) (m q s0 : Nat) (g : Nat → Num K)
    (hi : x.i = (m : Int)) (hlen : x.cs.length = m + 1) (hq : 1 ≤ q)
    (hcol : ∀ j : Nat, j ≤ m →
      x.reading key (some (j : Int)) = .ok (if j < s0 then Val.none else .num (g j)))
    (pv : Val K) (hprev : x.prevReading x.name = .ok pv) (hpv : m + 1 < s0 + q → pv = .none) :
    Calc.wma x (q : Int) key
      = .ok (if m + 1 < s0 + q then Val.none else .flt (wmaAt (fun j => (g j).toF) q m)) := by
  have hper := Ctx.readingPeriod_col x key m _ hi hlen hcol q hq
  by_cases h1 : m + 1 < s0 + q
  · rw [if_pos h1]
    have hrp : x.readingPeriod (q : Int) key = false := by
      rw [hper]
      by_cases hqm : q ≤ m + 1
      · have : m + 1 - q < s0 := by omega
        simp [this]
      · simp [hqm]
    rw [hpv h1] at hprev
    exact wma_none _ _ _ hprev hrp
  · rw [if_neg h1]
    have hrp : x.readingPeriod (q : Int) key = true := by
      rw [hper]
      have a : ¬ m + 1 - q < s0 := by omega
      have b : ¬ m - (q - 1) / 2 < s0 := by omega
      have c : ¬ m < s0 := by omega
      have d : q ≤ m + 1 := by omega
      simp [a, b, c, d]
    have hw := wma_def x q key pv (fun k => g (m - k)) hprev (Or.inr hrp) hq (by
      intro k hk
      have e : x.i - (k : Int) = ((m - k : Nat) : Int) := by rw [hi]; omega
      rw [e, hcol _ (by omega), if_neg (by omega)])
    rw [hw]
    rfl


/-! ### the stored series, as functions of the input series -/

section series
variable (p : Nat) (x : Nat → K)

/-- what the `name_WMA` helper stores from index `p − 1` on: `WMA_p` rounded to 4 decimals -/
def hmaW4 (j : Nat) : K := PyF.round defaultRound (wmaAt x p j)
/-- what the `name_WMAh` helper stores from index `p/2 − 1` on: `WMA_{p/2}` rounded to 4 decimals -/
def hmaWh4 (j : Nat) : K := PyF.round defaultRound (wmaAt x (p / 2) j)
/-- the raw Hull value the node stores UNROUNDED under `name_HMAr` from index `p − 1` on, computed
from the two STORED (rounded) helper readings -/
def hmaRawS (j : Nat) : K := 2 * hmaWh4 p x j - hmaW4 p x j
/-- what the `name_HMAs` helper stores from index `hmaT0` on: `WMA_{⌊√p⌋}` of the stored raw values,
rounded to 4 decimals -/
def hmaS4 (j : Nat) : K := PyF.round defaultRound (wmaAt (hmaRawS p x) (Nat.sqrt p) j)
/-- **the true warm-up index** of HMA: `(p − 1) + (⌊√p⌋ − 1)` -/
def hmaT0 : Nat := p + Nat.sqrt p - 2

/-- the values the three WMA calls return on candle `j` (before the engine rounds them) -/
def hmaWV (j : Nat) : Val K := if j + 1 < p then .none else .flt (wmaAt x p j)
def hmaWhV (j : Nat) : Val K := if j + 1 < p / 2 then .none else .flt (wmaAt x (p / 2) j)
/-- the stored reading of `name_HMAs` on a candle `j ≥ p − 1` -/
def hmaSV (j : Nat) : Val K := if j < hmaT0 p then .none else .flt (hmaS4 p x j)

/-- what the node's own step stores on candle `j`: nothing but the own `None` before `p − 1`;
afterwards the raw value, the smoothed reading (possibly `None`), and the own value (= the smoothed
reading, still to be rounded to the node's `rounding`) -/
def hmaZ (j : Nat) : Option (Val K × Val K) × Val K :=
  if j + 1 < p then (none, .none) else (some (.flt (hmaRawS p x j), hmaSV p x j), hmaSV p x j)

end series

/-- a row of the HMA tree: (WMA value, WMAh value), (raw / smoothed store, own value) -/
abbrev HmaRow (K : Type) := (Val K × Val K) × (Option (Val K × Val K) × Val K)

def hmaRow (p : Nat) (x : Nat → K) (j : Nat) : HmaRow K := ((hmaWV p x j, hmaWhV p x j), hmaZ p x j)

/-- a finished HMA candle -/
def hmaOut (nm : String) (n : Nat) (c : Candle K) (r : HmaRow K) : Candle K :=
  hmaApp nm n r.2 (setKey true (nm ++ "_WMAh") (r.1.2.roundBy defaultRound)
    (setKey true (nm ++ "_WMA") (r.1.1.roundBy defaultRound) c))

/-! ### reading a finished HMA candle -/

section cand
variable (nm : String) (n : Nat)

theorem hmaOut_attr (key : String) (hd : NoDot key) (hin : key ∈ Candle.attrNames) (c : Candle K)
    (r : HmaRow K) : readingByCandle (hmaOut nm n c r) key = readingByCandle c key := by
  unfold hmaOut
  rw [rbc_hmaApp nm n key (indep_attr _ _ hd hin) (indep_attr _ _ hd hin) (indep_attr _ _ hd hin),
    indep_attr (F := K) _ key hd hin, indep_attr (F := K) _ key hd hin]

theorem hmaOut_own (hn : HmaNames nm) (c : Candle K) (r : HmaRow K) :
    readingByCandle (hmaOut nm n c r) nm = r.2.2.roundBy n := by
  unfold hmaOut hmaApp
  exact readingByCandle_setKey_own nm hn.kN _ _

theorem hmaOut_W (hn : HmaNames nm) (c : Candle K) (hc : Plain c) (r : HmaRow K) :
    readingByCandle (hmaOut nm n c r) (nm ++ "_WMA") = r.1.1.roundBy defaultRound := by
  unfold hmaOut
  rw [rbc_hmaApp nm n _ (indep_key _ _ hn.kW hn.nW) (indep_key _ _ hn.kW hn.WR.symm)
    (indep_key _ _ hn.kW hn.WS.symm), indep_key _ _ hn.kW hn.WH.symm,
    readingByCandle_setKey true _ hn.kW _ _ hc]

theorem hmaOut_Wh (hn : HmaNames nm) (c : Candle K) (hc : Plain c) (r : HmaRow K) :
    readingByCandle (hmaOut nm n c r) (nm ++ "_WMAh") = r.1.2.roundBy defaultRound := by
  unfold hmaOut
  rw [rbc_hmaApp nm n _ (indep_key _ _ hn.kH hn.nH) (indep_key _ _ hn.kH hn.HR.symm)
    (indep_key _ _ hn.kH hn.HS.symm)]
  exact rbc_data_self _ hn.kH _ (by show dlookup _ c.inds = none; rw [hc.1]; rfl) _

theorem hmaOut_R (hn : HmaNames nm) (c : Candle K) (hc : Plain c) (r : HmaRow K) :
    readingByCandle (hmaOut nm n c r) (nm ++ "_HMAr")
      = (match r.2.1 with | none => .none | some (a, _) => a) := by
  unfold hmaOut hmaApp
  rw [indep_key _ _ hn.kR hn.nR]
  obtain ⟨⟨w, h⟩, d, o⟩ := r
  cases d with
  | none =>
    show readingByCandle (setKey true _ _ (setKey true _ _ c)) _ = .none
    rw [indep_key _ _ hn.kR hn.HR, indep_key _ _ hn.kR hn.WR]
    exact readingByCandle_plain _ hn.kR c hc
  | some ab =>
    obtain ⟨a, b⟩ := ab
    show readingByCandle (setKey true _ b (setKey true _ a _)) _ = a
    rw [indep_key _ _ hn.kR hn.RS.symm]
    exact rbc_data_self _ hn.kR _ (by show dlookup _ c.inds = none; rw [hc.1]; rfl) _

theorem hmaOut_S (hn : HmaNames nm) (c : Candle K) (hc : Plain c) (r : HmaRow K) :
    readingByCandle (hmaOut nm n c r) (nm ++ "_HMAs")
      = (match r.2.1 with | none => .none | some (_, b) => b) := by
  unfold hmaOut hmaApp
  rw [indep_key _ _ hn.kS hn.nS]
  obtain ⟨⟨w, h⟩, d, o⟩ := r
  cases d with
  | none =>
    show readingByCandle (setKey true _ _ (setKey true _ _ c)) _ = .none
    rw [indep_key _ _ hn.kS hn.HS, indep_key _ _ hn.kS hn.WS]
    exact readingByCandle_plain _ hn.kS c hc
  | some ab =>
    obtain ⟨a, b⟩ := ab
    show readingByCandle (setKey true _ b (setKey true _ a _)) _ = b
    exact rbc_data_self _ hn.kS _ (by show dlookup _ c.inds = none; rw [hc.1]; rfl) _

theorem hmaOut_bare (c : Candle K) (r : HmaRow K) : (hmaOut nm n c r).bare = c.bare := by
  unfold hmaOut
  rw [(frameK_hmaApp nm n r.2 _).1, bare_setKey, bare_setKey]

end cand

/-! ### the row step of the tree -/

/-- the row step of `hmaTree`: the WMA helper, the half-period WMA helper (each stored, rounded to 4,
before the next piece runs), then the node's own step `hmaVal` -/
theorem hma_rowStep (nm : String) (n : Nat) (p : Int) (input : String) (hp : 2 ≤ p) (hn : HmaNames nm)
    (hin : NoDot input ∧ input ∈ Candle.attrNames) (done : List (Candle K)) (c : Candle K) :
    Gen.rowStep (hmaTree (F := K) nm n p input hp hn hin).S done c = (do
      let w ← Calc.wma { cs := done ++ [c], i := done.length, name := nm ++ "_WMA" } p input
      let h ← Calc.wma { cs := done ++ [setKey true (nm ++ "_WMA") (w.roundBy defaultRound) c],
                         i := done.length, name := nm ++ "_WMAh" } (p / 2) input
      let z ← hmaVal nm p done (setKey true (nm ++ "_WMAh") (h.roundBy defaultRound)
        (setKey true (nm ++ "_WMA") (w.roundBy defaultRound) c))
      pure (done ++ [hmaOut nm n c ((w, h), z)])) := by
  show Gen.rowStep (TComp.spec (hmaComp nm n p input hp hn hin) _) done c = _
  rw [TComp.rowStep_spec]
  show (do
      let z ← (do
        let x ← (do
          let w ← valOf (hmaW nm p input) done c
          let h ← valOf (hmaWh nm p input) done (decOf (hmaW nm p input) w c)
          pure (w, h))
        let q ← hmaVal nm p done (decOf (hmaWh nm p input) x.2 (decOf (hmaW nm p input) x.1 c))
        pure (x, q))
      pure (done ++ [hmaApp nm n z.2 (decOf (hmaWh nm p input) z.1.2 (decOf (hmaW nm p input) z.1.1 c))])) = _
  show _ = (do
      let w ← valOf (hmaW nm p input) done c
      let h ← valOf (hmaWh nm p input) done (decOf (hmaW nm p input) w c)
      let z ← hmaVal nm p done (decOf (hmaWh nm p input) h (decOf (hmaW nm p input) w c))
      pure (done ++ [hmaOut nm n c ((w, h), z)]))
  cases valOf (hmaW nm p input) done c with
  | error e => rfl
  | ok w =>
    simp only [pym_bind_ok]
    cases valOf (hmaWh nm p input) done (decOf (hmaW nm p input) w c) with
    | error e => rfl
    | ok h =>
      simp only [pym_bind_ok, pym_pure]
      cases hmaVal nm p done (decOf (hmaWh nm p input) h (decOf (hmaW nm p input) w c)) with
      | error e => rfl
      | ok z => rfl


/-! ### one step of the tree inside the series -/

theorem isqrt_natCast (p : Nat) : isqrt (p : Int) = ((Nat.sqrt p : Nat) : Int) := by
  unfold isqrt
  simp

theorem hull_raw_num (a b : K) : ((Num.int 2 : Num K).mul (.flt a)).sub (.flt b) = .flt (2 * a - b) := by
  simp [Num.mul, Num.sub, Num.toF, LawfulPyF.mul_eq, LawfulPyF.sub_eq, LawfulPyF.ofInt_eq]

/-- **the tree's row step at index `m`**: if the finished prefix carries the rows
`hmaRow 0 … hmaRow (m−1)`, the step succeeds and stores `hmaRow m` on candle `m` -/
theorem hma_step (p : Nat) (hp : 2 ≤ p) (nm input : String) (fld : Candle K → Num K) (n : Nat)
    (hn : HmaNames nm) (hin : NoDot input ∧ input ∈ Candle.attrNames)
    (hattr : ∀ c : Candle K, c.attr input = some (.num (fld c)))
    (raw : List (Candle K)) (hraw : ∀ c ∈ raw, Plain c) (m : Nat) (hm : m < raw.length)
    (done : List (Candle K)) (hdl : done.length = m)
    (hdone : ∀ j, j < m → done[j]? = some (hmaOut nm n (raw.getD j default) (hmaRow p (fieldAt fld raw) j))) :
    Gen.rowStep (hmaTree (F := K) nm n (p : Int) input (by omega) hn hin).S done (raw.getD m default)
      = .ok (done ++ [hmaOut nm n (raw.getD m default) (hmaRow p (fieldAt fld raw) m)]) := by
  have hpl : ∀ j, j < raw.length → Plain (raw.getD j default) := fun j hj => getD_plain raw hraw j hj
  have hc := hpl m hm
  have hs1 : 1 ≤ Nat.sqrt p := Nat.sqrt_pos.2 (by omega)
  have hsle : Nat.sqrt p ≤ p := Nat.sqrt_le_self p
  rw [hma_rowStep]
  generalize hX : fieldAt fld raw = X at hdone ⊢
  have hXm : ∀ j, (fld (raw.getD j default)).toF = X j := fun j => by rw [← hX]; rfl
  generalize hcd : raw.getD m default = c at hc ⊢
  have hfc : (fld c).toF = X m := by rw [← hcd]; exact hXm m
  -- the candles of any context of the step
  have hgl : ∀ (c' : Candle K) (j : Nat), j < m →
      (done ++ [c'])[j]? = some (hmaOut nm n (raw.getD j default) (hmaRow p X j)) := by
    intro c' j hj
    rw [List.getElem?_append_left (by omega)]
    exact hdone j hj
  have hgm : ∀ (c' : Candle K), (done ++ [c'])[m]? = some c' := by
    intro c'
    rw [List.getElem?_append_right (by omega), hdl]; simp
  have hrd : ∀ (c' : Candle K) (name' key : String) (j : Nat), j < m →
      ({ cs := done ++ [c'], i := done.length, name := name' } : Ctx K).reading key (some (j : Int))
        = .ok (readingByCandle (hmaOut nm n (raw.getD j default) (hmaRow p X j)) key) :=
    fun c' name' key j hj => Ctx.reading_at _ key j _ (hgl c' j hj)
  have hrm : ∀ (c' : Candle K) (name' key : String),
      ({ cs := done ++ [c'], i := done.length, name := name' } : Ctx K).reading key (some (m : Int))
        = .ok (readingByCandle c' key) :=
    fun c' name' key => Ctx.reading_at _ key m _ (hgm c')
  have hlen : ∀ c' : Candle K, (done ++ [c']).length = m + 1 := by intro c'; simp [hdl]
  have hiI : ((done.length : Nat) : Int) = (m : Int) := by rw [hdl]
  have hlast : ∀ key, Ctx.lastReading key done = if m = 0 then Val.none else
      readingByCandle (hmaOut nm n (raw.getD (m - 1) default) (hmaRow p X (m - 1))) key := by
    intro key
    unfold Ctx.lastReading
    by_cases h0 : m = 0
    · have : done = [] := List.eq_nil_of_length_eq_zero (by omega)
      rw [this, if_pos h0]; rfl
    · rw [if_neg h0, List.getLast?_eq_getElem?, hdl, hdone (m - 1) (by omega)]
  -- the input column of a context whose last candle reads the input like `c`
  have hfield : ∀ (c' : Candle K) (name' : String), readingByCandle c' input = readingByCandle c input →
      ∀ j : Nat, j ≤ m →
      ({ cs := done ++ [c'], i := done.length, name := name' } : Ctx K).reading input (some (j : Int))
        = .ok (if j < 0 then Val.none else .num (fld (raw.getD j default))) := by
    intro c' name' hc' j hj
    rw [if_neg (Nat.not_lt_zero j)]
    by_cases hjm : j < m
    · rw [hrd c' name' input j hjm, hmaOut_attr nm n input hin.1 hin.2,
        readingByCandle_attr input hin.1 _ _ (hattr _)]
    · have : j = m := by omega
      subst this
      rw [hrm c' name' input, hc', readingByCandle_attr input hin.1 _ _ (hattr _), hcd]
  -- (1) the WMA helper
  have hW : Calc.wma ({ cs := done ++ [c], i := done.length, name := nm ++ "_WMA" } : Ctx K) (p : Int) input
      = .ok (hmaWV p X m) := by
    have h := wma_on_col ({ cs := done ++ [c], i := done.length, name := nm ++ "_WMA" } : Ctx K) input m p 0
      (fun j => fld (raw.getD j default)) hiI (hlen c) (by omega) (hfield c _ rfl)
      (if m = 0 then Val.none else (hmaWV p X (m - 1)).roundBy defaultRound)
      (by
        show ({ cs := done ++ [c], i := done.length, name := nm ++ "_WMA" } : Ctx K).prevReading (nm ++ "_WMA") = _
        rw [Ctx.prevReading_append_cons done _ [] _ _, hlast]
        by_cases h0 : m = 0
        · rw [if_pos h0, if_pos h0]
        · rw [if_neg h0, if_neg h0, hmaOut_W nm n hn _ (hpl _ (by omega))]; rfl)
      (by
        intro hlt
        by_cases h0 : m = 0
        · rw [if_pos h0]
        · rw [if_neg h0]
          unfold hmaWV
          rw [if_pos (by omega)]; rfl)
    rw [h]
    unfold hmaWV
    simp only [Nat.zero_add, hXm]
  rw [hW]
  simp only [pym_bind_ok]
  -- (2) the half-period WMA helper
  have e2 : ((p : Nat) : Int) / 2 = ((p / 2 : Nat) : Int) := by omega
  rw [e2]
  have hWh : Calc.wma ({ cs := done ++ [setKey true (nm ++ "_WMA") ((hmaWV p X m).roundBy defaultRound) c], i := done.length, name := nm ++ "_WMAh" } : Ctx K) ((p / 2 : Nat) : Int) input
      = .ok (hmaWhV p X m) := by
    have h := wma_on_col ({ cs := done ++ [setKey true (nm ++ "_WMA") ((hmaWV p X m).roundBy defaultRound) c], i := done.length, name := nm ++ "_WMAh" } : Ctx K) input m (p / 2) 0
      (fun j => fld (raw.getD j default)) hiI (hlen _) (by omega)
      (hfield _ _ (indep_attr (F := K) _ input hin.1 hin.2 _ _ _))
      (if m = 0 then Val.none else (hmaWhV p X (m - 1)).roundBy defaultRound)
      (by
        show ({ cs := done ++ [_], i := done.length, name := nm ++ "_WMAh" } : Ctx K).prevReading (nm ++ "_WMAh") = _
        rw [Ctx.prevReading_append_cons done _ [] _ _, hlast]
        by_cases h0 : m = 0
        · rw [if_pos h0, if_pos h0]
        · rw [if_neg h0, if_neg h0, hmaOut_Wh nm n hn _ (hpl _ (by omega))]; rfl)
      (by
        intro hlt
        by_cases h0 : m = 0
        · rw [if_pos h0]
        · rw [if_neg h0]
          unfold hmaWhV
          rw [if_pos (by omega)]; rfl)
    rw [h]
    unfold hmaWhV
    simp only [Nat.zero_add, hXm]
  rw [hWh]
  simp only [pym_bind_ok]
  -- (3) the node's own step
  generalize hc2 : setKey true (nm ++ "_WMAh") ((hmaWhV p X m).roundBy defaultRound)
    (setKey true (nm ++ "_WMA") ((hmaWV p X m).roundBy defaultRound) c) = c2
  have hno : ∀ key, dlookup key c2.inds = none := by
    intro key; rw [← hc2]; show dlookup key c.inds = none; rw [hc.1]; rfl
  have hrW : readingByCandle c2 (nm ++ "_WMA") = (hmaWV p X m).roundBy defaultRound := by
    rw [← hc2, indep_key _ _ hn.kW hn.WH.symm, readingByCandle_setKey true _ hn.kW _ _ hc]
  have hrH : readingByCandle c2 (nm ++ "_WMAh") = (hmaWhV p X m).roundBy defaultRound := by
    rw [← hc2]
    exact rbc_data_self _ hn.kH _ (by show dlookup _ c.inds = none; rw [hc.1]; rfl) _
  have hZ : hmaVal nm (p : Int) done c2 = .ok (hmaZ p X m) := by
    unfold hmaVal
    rw [hrW, hrH]
    by_cases h1 : m + 1 < p
    · have : hmaWV p X m = .none := by unfold hmaWV; rw [if_pos h1]
      rw [this]
      unfold hmaZ
      rw [if_pos h1]
      rfl
    · have eW : (hmaWV p X m).roundBy defaultRound = .num (.flt (hmaW4 p X m)) := by
        unfold hmaWV; rw [if_neg h1]; rfl
      have eH : (hmaWhV p X m).roundBy defaultRound = .num (.flt (hmaWh4 p X m)) := by
        unfold hmaWhV; rw [if_neg (by omega)]; rfl
      rw [eW, eH]
      simp only [Val.isNone_num, Bool.false_eq_true, if_false, Val.asNum_num, pym_bind_ok, hull_raw_num]
      have eR : 2 * hmaWh4 p X m - hmaW4 p X m = hmaRawS p X m := rfl
      rw [eR]
      unfold hmaVal2
      rw [isqrt_natCast]
      have hS := wma_on_col
        ({ cs := done ++ [setKey true (nm ++ "_HMAr") (.num (.flt (hmaRawS p X m))) c2], i := done.length,
           name := nm ++ "_HMAs" } : Ctx K) (nm ++ "_HMAr") m (Nat.sqrt p) (p - 1)
        (fun j => Num.flt (hmaRawS p X j)) hiI (hlen _) hs1
        (by
          intro j hj
          by_cases hjm : j < m
          · rw [hrd _ _ _ j hjm, hmaOut_R nm n hn _ (hpl j (by omega))]
            show Except.ok (match (hmaZ p X j).1 with | none => Val.none | some (a, _) => a) = _
            unfold hmaZ
            by_cases hjp : j + 1 < p
            · rw [if_pos hjp, if_pos (by omega)]
            · rw [if_neg hjp, if_neg (by omega)]
          · have : j = m := by omega
            subst this
            rw [hrm, rbc_data_self _ hn.kR c2 (hno _), if_neg (by omega)])
        (if m = 0 then Val.none else
          (match (hmaZ p X (m - 1)).1 with | none => Val.none | some (_, b) => b))
        (by
          show ({ cs := done ++ [_], i := done.length, name := nm ++ "_HMAs" } : Ctx K).prevReading (nm ++ "_HMAs") = _
          rw [Ctx.prevReading_append_cons done _ [] _ _, hlast]
          by_cases h0 : m = 0
          · rw [if_pos h0, if_pos h0]
          · rw [if_neg h0, if_neg h0, hmaOut_S nm n hn _ (hpl _ (by omega))]; rfl)
        (by
          intro hlt
          by_cases h0 : m = 0
          · rw [if_pos h0]
          · rw [if_neg h0]
            unfold hmaZ
            by_cases hjp : m - 1 + 1 < p
            · rw [if_pos hjp]
            · rw [if_neg hjp]
              show hmaSV p X (m - 1) = .none
              unfold hmaSV hmaT0
              rw [if_pos (by omega)])
      rw [hS]
      simp only [pym_bind_ok, pym_pure]
      have eS : (if m + 1 < p - 1 + Nat.sqrt p then Val.none
            else Val.flt (wmaAt (fun j => (Num.flt (hmaRawS p X j)).toF) (Nat.sqrt p) m)).roundBy defaultRound
          = hmaSV p X m := by
        unfold hmaSV hmaT0
        by_cases ht : m + 1 < p - 1 + Nat.sqrt p
        · rw [if_pos ht, if_pos (by omega)]; rfl
        · rw [if_neg ht, if_neg (by omega)]; rfl
      rw [eS, rbc_data_self _ hn.kS _ (by exact hno _)]
      unfold hmaZ
      rw [if_neg h1]
  rw [hZ]
  rfl


/-! ### the whole series -/

/-- the candles of a whole HMA run, as a function of the raw candles -/
def hmaDeco (nm : String) (n p : Nat) (fld : Candle K → Num K) (raw : List (Candle K)) : List (Candle K) :=
  (List.range raw.length).map fun j => hmaOut nm n (raw.getD j default) (hmaRow p (fieldAt fld raw) j)

theorem hmaDeco_length (nm : String) (n p : Nat) (fld : Candle K → Num K) (raw : List (Candle K)) :
    (hmaDeco nm n p fld raw).length = raw.length := by simp [hmaDeco]

theorem hmaDeco_getD (nm : String) (n p : Nat) (fld : Candle K → Num K) (raw : List (Candle K))
    (j : Nat) (hj : j < raw.length) :
    (hmaDeco nm n p fld raw).getD j default
      = hmaOut nm n (raw.getD j default) (hmaRow p (fieldAt fld raw) j) := by
  rw [List.getD_eq_getElem?_getD]
  simp [hmaDeco, hj]

/-- **C04 for the whole HMA series** (row-major run of `hmaTree`; `period ≥ 2`, input a candle
field).  For EVERY raw list the run returns, and candle `j` of the result is raw candle `j`
carrying exactly the row `hmaRow … j` – an explicit function of the raw candles. -/
theorem hma_series (p : Nat) (hp : 2 ≤ p) (nm input : String) (fld : Candle K → Num K) (n : Nat)
    (hn : HmaNames nm) (hin : NoDot input ∧ input ∈ Candle.attrNames)
    (hattr : ∀ c : Candle K, c.attr input = some (.num (fld c)))
    (raw : List (Candle K)) (hraw : ∀ c ∈ raw, Plain c) :
    Gen.rowMajor (hmaTree (F := K) nm n (p : Int) input (by omega) hn hin).S raw
      = .ok (hmaDeco nm n p fld raw) := by
  obtain ⟨rows, hl, hrun, hall⟩ := gen_series_induct
    (hmaTree (F := K) nm n (p : Int) input (by omega) hn hin).S
    (hmaOut nm n) (((.none, .none), (none, .none)) : HmaRow K) raw
    (fun j r => r = hmaRow p (fieldAt fld raw) j) (by
      intro m hm rows hrows hQ
      have htl : (raw.take m).length = m := by simp; omega
      have hdl : (decoWith (hmaOut nm n) (raw.take m) rows).length = m := by
        rw [decoWith_length _ _ _ (by rw [htl, hrows]), htl]
      refine ⟨_, ?_, rfl⟩
      exact hma_step p hp nm input fld n hn hin hattr raw hraw m hm _ hdl (by
        intro j hj
        rw [decoWith_getElem? _ _ _ (((.none, .none), (none, .none)) : HmaRow K) j (by rw [htl, hrows])
          (by rw [htl]; exact hj), hQ j hj]
        have : (raw.take m).getD j default = raw.getD j default := by
          rw [List.getD_eq_getElem?_getD, List.getD_eq_getElem?_getD, List.getElem?_take_of_lt hj]
        rw [this]))
  rw [hrun]
  congr 1
  apply List.ext_getElem?
  intro j
  by_cases hj : j < raw.length
  · rw [decoWith_getElem? _ _ _ (((.none, .none), (none, .none)) : HmaRow K) j hl hj, hall j hj]
    simp [hmaDeco, hj]
  · rw [List.getElem?_eq_none (by rw [decoWith_length _ _ _ hl]; omega),
      List.getElem?_eq_none (by rw [hmaDeco_length]; omega)]

/-! ### the textbook series and the rounding budget -/

section budgets
variable (p : Nat) (x : Nat → K)

/-- the textbook raw Hull value `2·WMA_{⌊p/2⌋}(x) − WMA_p(x)` -/
def hmaRawExact (j : Nat) : K := 2 * wmaAt x (p / 2) j - wmaAt x p j
/-- **the textbook Hull moving average** `WMA_{⌊√p⌋}(2·WMA_{⌊p/2⌋}(x) − WMA_p(x))` -/
def hmaExact (j : Nat) : K := wmaAt (hmaRawExact p x) (Nat.sqrt p) j
/-- the textbook raw series with its warm-up (`p − 1`) -/
def hmaRawSeries (j : Nat) : Option K := if j + 1 < p then none else some (hmaRawExact p x j)
/-- the textbook HMA series with its warm-up (`hmaT0 p = p − 1 + ⌊√p⌋ − 1`) -/
def hmaSeries (j : Nat) : Option K := if j < hmaT0 p then none else some (hmaExact p x j)

theorem hmaW4_err (j : Nat) : |hmaW4 p x j - wmaAt x p j| ≤ eps K defaultRound :=
  LawfulPyF.round_err _ _

theorem hmaWh4_err (j : Nat) : |hmaWh4 p x j - wmaAt x (p / 2) j| ≤ eps K defaultRound :=
  LawfulPyF.round_err _ _

/-- the stored raw value is within `3·ε₄` of the textbook one: `2·ε₄` from the half-period helper,
`ε₄` from the full-period helper (the raw value itself is stored unrounded) -/
theorem hmaRawS_err (j : Nat) : |hmaRawS p x j - hmaRawExact p x j| ≤ 3 * eps K defaultRound := by
  have h1 := hmaW4_err p x j
  have h2 := hmaWh4_err p x j
  unfold hmaRawS hmaRawExact
  have e : 2 * hmaWh4 p x j - hmaW4 p x j - (2 * wmaAt x (p / 2) j - wmaAt x p j)
      = 2 * (hmaWh4 p x j - wmaAt x (p / 2) j) + -(hmaW4 p x j - wmaAt x p j) := by ring
  rw [e]
  refine le_trans (abs_add_le _ _) ?_
  rw [abs_mul, abs_neg, abs_of_pos (by norm_num : (0 : K) < 2)]
  linarith

/-- **the budget of the stored smoothed reading**: `4·ε₄`, at every index – the smoothing WMA is a
convex combination, so the `3·ε₄` of its inputs is not amplified, plus its own rounding to 4 -/
theorem hmaS4_err (hp : 1 ≤ p) (j : Nat) : |hmaS4 p x j - hmaExact p x j| ≤ 4 * eps K defaultRound := by
  have hs1 : 1 ≤ Nat.sqrt p := Nat.sqrt_pos.2 (by omega)
  have h1 : |hmaS4 p x j - wmaAt (hmaRawS p x) (Nat.sqrt p) j| ≤ eps K defaultRound :=
    LawfulPyF.round_err _ _
  have h2 : |wmaAt (hmaRawS p x) (Nat.sqrt p) j - hmaExact p x j| ≤ 3 * eps K defaultRound :=
    wmaAt_perturb _ hs1 _ _ j _ (fun k _ => hmaRawS_err p x (j - k))
  calc |hmaS4 p x j - hmaExact p x j|
      = |(hmaS4 p x j - wmaAt (hmaRawS p x) (Nat.sqrt p) j)
          + (wmaAt (hmaRawS p x) (Nat.sqrt p) j - hmaExact p x j)| := by ring_nf
    _ ≤ _ := abs_add_le _ _
    _ ≤ eps K defaultRound + 3 * eps K defaultRound := add_le_add h1 h2
    _ = 4 * eps K defaultRound := by ring

end budgets

/-! ### the statement, reading by reading -/

/-- **what the whole-series theorem says of candle `j`** (`own` = reading under `name`, `w`, `wh`,
`r`, `s` = entries under `name_WMA`, `name_WMAh`, `name_HMAr`, `name_HMAs`; `x` the input series):
* `w` / `wh` are `None` before `p − 1` / `⌊p/2⌋ − 1`, then within `ε₄` of `WMA_p(x)` / `WMA_{⌊p/2⌋}(x)`;
* `r` is absent before `p − 1`; from there on it is EXACTLY `2·wh − w` of the two stored helper
  readings (`Managed.set_reading` does not round), hence within `3·ε₄` of the textbook raw value;
* `s` is `None` (absent before `p − 1`, a stored `None` from `p − 1` on) before the true warm-up index
  `hmaT0 p = (p − 1) + (⌊√p⌋ − 1)`, then within `4·ε₄` of the textbook HMA; the budget does not grow;
* `own` is `s` rounded to the node's `rounding`: `None` before `hmaT0 p`, then within `ε_n + 4·ε₄`. -/
structure HmaOK (n p : Nat) (x : Nat → K) (j : Nat) (own w wh r s : Val K) : Prop where
  w_ok : DirectOK p defaultRound (wmaAt x p) j w
  wh_ok : DirectOK (p / 2) defaultRound (wmaAt x (p / 2)) j wh
  r_exact : p ≤ j + 1 → ∃ a b, w = .flt a ∧ wh = .flt b ∧ r = .flt (2 * b - a)
  r_ok : Within (hmaRawSeries p x j) (3 * eps K defaultRound) r
  s_stored : s = if j < hmaT0 p then .none else .flt (hmaS4 p x j)
  s_ok : Within (hmaSeries p x j) (4 * eps K defaultRound) s
  own_eq : own = s.roundBy n
  own_ok : Within (hmaSeries p x j) (eps K n + 4 * eps K defaultRound) own

/-- the parts of a row -/
def hrowR (z : HmaRow K) : Val K := match z.2.1 with | none => .none | some (a, _) => a
def hrowS (z : HmaRow K) : Val K := match z.2.1 with | none => .none | some (_, b) => b

theorem hmaSV_within (p : Nat) (x : Nat → K) (hp : 1 ≤ p) (j : Nat) :
    Within (hmaSeries p x j) (4 * eps K defaultRound) (hmaSV p x j) := by
  unfold hmaSeries hmaSV
  by_cases h : j < hmaT0 p
  · rw [if_pos h, if_pos h]; exact (rfl : (Val.none : Val K) = .none)
  · rw [if_neg h, if_neg h]
    exact ⟨_, rfl, hmaS4_err p x hp j⟩

/-- every row satisfies the statement -/
theorem hmaRow_ok (n p : Nat) (hp : 2 ≤ p) (x : Nat → K) (j : Nat) :
    HmaOK n p x j ((hmaRow p x j).2.2.roundBy n) ((hmaRow p x j).1.1.roundBy defaultRound)
      ((hmaRow p x j).1.2.roundBy defaultRound) (hrowR (hmaRow p x j)) (hrowS (hmaRow p x j)) := by
  have hs1 : 1 ≤ Nat.sqrt p := Nat.sqrt_pos.2 (by omega)
  have hW : DirectOK p defaultRound (wmaAt x p) j ((hmaWV p x j).roundBy defaultRound) := by
    unfold hmaWV
    by_cases h : j + 1 < p
    · rw [if_pos h]; exact ⟨fun _ => rfl, fun h' => by omega⟩
    · rw [if_neg h]; exact ⟨fun h' => by omega, fun _ => ⟨_, rfl, LawfulPyF.round_err _ _⟩⟩
  have hH : DirectOK (p / 2) defaultRound (wmaAt x (p / 2)) j ((hmaWhV p x j).roundBy defaultRound) := by
    unfold hmaWhV
    by_cases h : j + 1 < p / 2
    · rw [if_pos h]; exact ⟨fun _ => rfl, fun h' => by omega⟩
    · rw [if_neg h]; exact ⟨fun h' => by omega, fun _ => ⟨_, rfl, LawfulPyF.round_err _ _⟩⟩
  have hS := hmaSV_within p x (by omega) j
  show HmaOK n p x j ((hmaZ p x j).2.roundBy n) ((hmaWV p x j).roundBy defaultRound)
    ((hmaWhV p x j).roundBy defaultRound) (match (hmaZ p x j).1 with | none => .none | some (a, _) => a)
    (match (hmaZ p x j).1 with | none => .none | some (_, b) => b)
  by_cases h : j + 1 < p
  · have e : hmaZ p x j = (none, .none) := by unfold hmaZ; rw [if_pos h]
    have hr0 : hmaRawSeries p x j = none := by unfold hmaRawSeries; rw [if_pos h]
    have hs0 : hmaSeries p x j = none := by unfold hmaSeries hmaT0; rw [if_pos (by omega)]
    rw [e]
    exact
      { w_ok := hW
        wh_ok := hH
        r_exact := fun h' => by omega
        r_ok := by rw [hr0]; show (_ : Val K) = _; rfl
        s_stored := by unfold hmaT0; rw [if_pos (by omega)]
        s_ok := by rw [hs0]; show (_ : Val K) = _; rfl
        own_eq := rfl
        own_ok := by rw [hs0]; show (_ : Val K) = _; rfl }
  · have e : hmaZ p x j = (some (.flt (hmaRawS p x j), hmaSV p x j), hmaSV p x j) := by
      unfold hmaZ; rw [if_neg h]
    have hr1 : hmaRawSeries p x j = some (hmaRawExact p x j) := by unfold hmaRawSeries; rw [if_neg h]
    rw [e]
    exact
      { w_ok := hW
        wh_ok := hH
        r_exact := fun _ => ⟨hmaW4 p x j, hmaWh4 p x j, by unfold hmaWV; rw [if_neg h]; rfl,
          by unfold hmaWhV; rw [if_neg (by omega)]; rfl, rfl⟩
        r_ok := by rw [hr1]; exact ⟨_, rfl, hmaRawS_err p x j⟩
        s_stored := rfl
        s_ok := hS
        own_eq := rfl
        own_ok := Within.round n _ _ _ hS }

/-- **HMA, whole series, candle by candle**: candle `j` of the run is raw candle `j` (same bare
candle) and its five entries satisfy `HmaOK` -/
theorem hmaDeco_ok (p : Nat) (hp : 2 ≤ p) (nm : String) (fld : Candle K → Num K) (n : Nat)
    (hn : HmaNames nm) (raw : List (Candle K)) (hraw : ∀ c ∈ raw, Plain c) (j : Nat) (hj : j < raw.length) :
    ((hmaDeco nm n p fld raw).getD j default).bare = (raw.getD j default).bare ∧
    HmaOK n p (fieldAt fld raw) j
      (readingByCandle ((hmaDeco nm n p fld raw).getD j default) nm)
      (readingByCandle ((hmaDeco nm n p fld raw).getD j default) (nm ++ "_WMA"))
      (readingByCandle ((hmaDeco nm n p fld raw).getD j default) (nm ++ "_WMAh"))
      (readingByCandle ((hmaDeco nm n p fld raw).getD j default) (nm ++ "_HMAr"))
      (readingByCandle ((hmaDeco nm n p fld raw).getD j default) (nm ++ "_HMAs")) := by
  have hpl := getD_plain raw hraw j hj
  rw [hmaDeco_getD _ _ _ _ _ j hj, hmaOut_own nm n hn, hmaOut_W nm n hn _ hpl, hmaOut_Wh nm n hn _ hpl,
    hmaOut_R nm n hn _ hpl, hmaOut_S nm n hn _ hpl]
  exact ⟨hmaOut_bare nm n _ _, hmaRow_ok n p hp _ j⟩

/-! ### through the engine -/

/-- **HMA, whole series, through the engine**: `calculate()` on the raw candles returns exactly the
candles of `hma_series` -/
theorem hma_series_engine (p : Nat) (hp : 2 ≤ p) (nm input : String) (fld : Candle K → Num K) (n : Nat)
    (hn : HmaNames nm) (hin : NoDot input ∧ input ∈ Candle.attrNames)
    (hattr : ∀ c : Candle K, c.attr input = some (.num (fld c)))
    (raw : List (Candle K)) (hraw : ∀ c ∈ raw, Plain c) :
    engineCalc (mkTop (.hma (p : Int) input : Kind K) nm n) raw = .ok (hmaDeco nm n p fld raw) := by
  have hrun := hma_series p hp nm input fld n hn hin hattr raw hraw
  have := ((hmaTree (F := K) nm n (p : Int) input (by omega) hn hin).engine [] raw []
    (hmaDeco nm n p fld raw) rfl (by simp) hraw).2 (by simpa using hrun)
  have h2 : engineCalc (hmaP (F := K) nm n (p : Int) input) raw = .ok (hmaDeco nm n p fld raw) := by
    simpa using this
  exact h2

/-- **… and through the object**: building the indicator over the raw candles and calling
`calculate()` once (the batch run, `C01.runBatch`) returns exactly the candles of `hma_series` -/
theorem hma_series_batch (p : Nat) (hp : 2 ≤ p) (nm input : String) (fld : Candle K → Num K) (n : Nat)
    (hn : HmaNames nm) (hin : NoDot input ∧ input ∈ Candle.attrNames)
    (hattr : ∀ c : Candle K, c.attr input = some (.num (fld c)))
    (raw : List (Candle K)) (hraw : ∀ c ∈ raw, Plain c) :
    candlesOf (runIndicator (mkTop (.hma (p : Int) input : Kind K) nm n) {} raw [])
      = .ok (hmaDeco nm n p fld raw) :=
  ((hmaTree (F := K) nm n (p : Int) input (by omega) hn hin).batch_iff (MgrSpec.base K) raw hraw _).2
    (hma_series p hp nm input fld n hn hin hattr raw hraw)

/-- **whenever the batch run returns, its candles carry exactly those readings** (and it does
return: `hma_series_batch`) -/
theorem hma_batch_readings (p : Nat) (hp : 2 ≤ p) (nm input : String) (fld : Candle K → Num K) (n : Nat)
    (hn : HmaNames nm) (hin : NoDot input ∧ input ∈ Candle.attrNames)
    (hattr : ∀ c : Candle K, c.attr input = some (.num (fld c)))
    (raw : List (Candle K)) (hraw : ∀ c ∈ raw, Plain c) (out : List (Candle K))
    (hout : candlesOf (runIndicator (mkTop (.hma (p : Int) input : Kind K) nm n) {} raw []) = .ok out) :
    out = hmaDeco nm n p fld raw ∧ out.length = raw.length ∧
    ∀ j, j < raw.length →
      (out.getD j default).bare = (raw.getD j default).bare ∧
      HmaOK n p (fieldAt fld raw) j
        (readingByCandle (out.getD j default) nm) (readingByCandle (out.getD j default) (nm ++ "_WMA"))
        (readingByCandle (out.getD j default) (nm ++ "_WMAh")) (readingByCandle (out.getD j default) (nm ++ "_HMAr"))
        (readingByCandle (out.getD j default) (nm ++ "_HMAs")) := by
  rw [hma_series_batch p hp nm input fld n hn hin hattr raw hraw] at hout
  cases hout
  exact ⟨rfl, hmaDeco_length _ _ _ _ _, fun j hj => hmaDeco_ok p hp nm fld n hn raw hraw j hj⟩

/-- the same for the engine's `calculate()` -/
theorem hma_engine_readings (p : Nat) (hp : 2 ≤ p) (nm input : String) (fld : Candle K → Num K) (n : Nat)
    (hn : HmaNames nm) (hin : NoDot input ∧ input ∈ Candle.attrNames)
    (hattr : ∀ c : Candle K, c.attr input = some (.num (fld c)))
    (raw : List (Candle K)) (hraw : ∀ c ∈ raw, Plain c) (out : List (Candle K))
    (hout : engineCalc (mkTop (.hma (p : Int) input : Kind K) nm n) raw = .ok out) :
    out = hmaDeco nm n p fld raw ∧ out.length = raw.length ∧
    ∀ j, j < raw.length →
      (out.getD j default).bare = (raw.getD j default).bare ∧
      HmaOK n p (fieldAt fld raw) j
        (readingByCandle (out.getD j default) nm) (readingByCandle (out.getD j default) (nm ++ "_WMA"))
        (readingByCandle (out.getD j default) (nm ++ "_WMAh")) (readingByCandle (out.getD j default) (nm ++ "_HMAr"))
        (readingByCandle (out.getD j default) (nm ++ "_HMAs")) := by
  rw [hma_series_engine p hp nm input fld n hn hin hattr raw hraw] at hout
  cases hout
  exact ⟨rfl, hmaDeco_length _ _ _ _ _, fun j hj => hmaDeco_ok p hp nm fld n hn raw hraw j hj⟩

/-- **… for every append schedule**: whenever a live history (construction over `init`,
`calculate()`, then any appends) returns, its candles are those of `hma_series` over the whole
stream -/
theorem hma_series_live (p : Nat) (hp : 2 ≤ p) (nm input : String) (fld : Candle K → Num K) (n : Nat)
    (hn : HmaNames nm) (hin : NoDot input ∧ input ∈ Candle.attrNames)
    (hattr : ∀ c : Candle K, c.attr input = some (.num (fld c)))
    (init : List (Candle K)) (chunks : List (List (Candle K)))
    (hraw : ∀ c ∈ init ++ chunks.flatten, Plain c) (snap : List (Candle K))
    (hsnap : candlesOf (runIndicator (mkTop (.hma (p : Int) input : Kind K) nm n) {} init chunks) = .ok snap) :
    snap = hmaDeco nm n p fld (init ++ chunks.flatten) := by
  have hrun := hma_series p hp nm input fld n hn hin hattr _ hraw
  have h := (hmaTree (F := K) nm n (p : Int) input (by omega) hn hin).live_refines (MgrSpec.base K)
    init chunks hraw snap hsnap
  have h' : Gen.rowMajor (hmaTree (F := K) nm n (p : Int) input (by omega) hn hin).S (init ++ chunks.flatten)
      = .ok snap := h
  rw [hrun] at h'
  exact (Except.ok.inj h').symm

/-! ### the default rounding: the own reading IS the smoothed helper reading -/

/-- with the node's `rounding` equal to the helpers' (`defaultRound = 4`, the library default) the
second rounding does nothing -/
theorem hmaSV_default_round (p : Nat) (x : Nat → K) (j : Nat) :
    (hmaSV p x j).roundBy defaultRound = hmaSV p x j := by
  unfold hmaSV
  split
  · rfl
  · show Val.flt (PyF.round defaultRound (hmaS4 p x j)) = _
    unfold hmaS4
    rw [LawfulPyF.round_idem]


/-- the warm-up index, as the sum of the two waits -/
theorem hmaT0_eq (p : Nat) (hp : 1 ≤ p) : hmaT0 p = (p - 1) + (Nat.sqrt p - 1) := by
  have hs1 : 1 ≤ Nat.sqrt p := Nat.sqrt_pos.2 (by omega)
  unfold hmaT0; omega

/-- with the default `rounding = 4` the own reading IS the stored `name_HMAs` reading -/
theorem HmaOK.own_default {p : Nat} {x : Nat → K} {j : Nat} {own w wh r s : Val K}
    (h : HmaOK defaultRound p x j own w wh r s) : own = s := by
  have h1 := h.own_eq
  have h2 := h.s_stored
  have h3 : s = hmaSV p x j := h2
  rw [h1, h3]
  exact hmaSV_default_round p x j

/-! ### non-vacuity: the five demo candles of HexProps/C04.lean over ℚ, `HMA(period=4)` -/

/-- the five raw candles `C04.demoRaw` -/
def hmaDemoRaw : List (Candle ℚ) :=
  [Demo.mk 10 12 9 11 100, Demo.mk 11 13 10 12 200, Demo.mk 12 15 11 14 300, Demo.mk 14 16 13 15 0,
   Demo.mk 15 15 15 15 0]

theorem hmaDemoRaw_plain : ∀ c ∈ hmaDemoRaw, Plain c := by
  intro c hc
  simp only [hmaDemoRaw, List.mem_cons, List.not_mem_nil, or_false] at hc
  rcases hc with rfl | rfl | rfl | rfl | rfl <;> exact ⟨rfl, rfl⟩

/-- the name hypotheses hold for the default name of `HMA(period=4)` -/
theorem hmaNames_demo : HmaNames "HMA_4" :=
  ⟨by decide, by decide, by decide, by decide, by decide, by decide, by decide, by decide, by decide, by decide,
    by decide, by decide, by decide, by decide, by decide⟩

/-- `HMA(period=4)` over the demo candles: the row-major run … -/
example : Gen.rowMajor (hmaTree (F := ℚ) "HMA_4" 4 ((4 : Nat) : Int) "close" (by decide) hmaNames_demo
      ⟨noDot_close, by decide⟩).S hmaDemoRaw
    = .ok (hmaDeco "HMA_4" 4 4 (·.c) hmaDemoRaw) :=
  hma_series 4 (by norm_num) "HMA_4" "close" (·.c) 4 hmaNames_demo ⟨noDot_close, by decide⟩ (fun _ => rfl)
    hmaDemoRaw hmaDemoRaw_plain

/-- … and the batch run -/
example : candlesOf (runIndicator (mkTop (.hma ((4 : Nat) : Int) "close" : Kind ℚ) "HMA_4" 4) {} hmaDemoRaw [])
    = .ok (hmaDeco "HMA_4" 4 4 (·.c) hmaDemoRaw) :=
  hma_series_batch 4 (by norm_num) "HMA_4" "close" (·.c) 4 hmaNames_demo ⟨noDot_close, by decide⟩ (fun _ => rfl)
    hmaDemoRaw hmaDemoRaw_plain

/-- the closes of the demo candles: 11, 12, 14, 15, 15 -/
def hmaDemoX : Nat → ℚ := fieldAt (·.c) hmaDemoRaw

theorem hmaDemoX_vals : hmaDemoX 0 = 11 ∧ hmaDemoX 1 = 12 ∧ hmaDemoX 2 = 14 ∧ hmaDemoX 3 = 15 ∧ hmaDemoX 4 = 15 := by
  norm_num [hmaDemoX, fieldAt, hmaDemoRaw, Demo.mk]

theorem sqrt_four : Nat.sqrt 4 = 2 := Nat.sqrt_eq 2

/-- the true warm-up index of `HMA(4)` is 4 = (4 − 1) + (2 − 1) -/
example : hmaT0 4 = 4 := by unfold hmaT0; rw [sqrt_four]

theorem wmaAt_two (f : Nat → ℚ) (j : Nat) : wmaAt f 2 j = (2 * f j + f (j - 1)) / 3 := by
  simp only [wmaAt, rsum, List.range_succ, List.range_zero, List.map_append, List.map_cons, List.map_nil,
    List.nil_append, List.sum_append, List.sum_cons, List.sum_nil]
  norm_num

theorem wmaAt_four (f : Nat → ℚ) (j : Nat) :
    wmaAt f 4 j = (4 * f j + 3 * f (j - 1) + 2 * f (j - 2) + f (j - 3)) / 10 := by
  simp only [wmaAt, rsum, List.range_succ, List.range_zero, List.map_append, List.map_cons, List.map_nil,
    List.nil_append, List.sum_append, List.sum_cons, List.sum_nil]
  norm_num

/-- rounding a rational to 4 decimals (the ℚ instance rounds half up) -/
theorem round4_rat (q : ℚ) (k : ℤ) (h1 : (k : ℚ) ≤ q * 10 ^ 4 + 1 / 2) (h2 : q * 10 ^ 4 + 1 / 2 < k + 1) :
    PyF.round 4 q = (k : ℚ) / 10 ^ 4 := by
  show decRound 4 q = _
  unfold decRound
  rw [Int.floor_eq_iff.2 ⟨h1, h2⟩]

theorem demoW3 : wmaAt hmaDemoX 4 3 = 137 / 10 := by
  obtain ⟨h0, h1, h2, h3, h4⟩ := hmaDemoX_vals
  rw [wmaAt_four]; norm_num [h0, h1, h2, h3]
theorem demoW4 : wmaAt hmaDemoX 4 4 = 29 / 2 := by
  obtain ⟨h0, h1, h2, h3, h4⟩ := hmaDemoX_vals
  rw [wmaAt_four]; norm_num [h1, h2, h3, h4]
theorem demoH2 : wmaAt hmaDemoX 2 2 = 40 / 3 := by
  obtain ⟨h0, h1, h2, h3, h4⟩ := hmaDemoX_vals
  rw [wmaAt_two]; norm_num [h1, h2]
theorem demoH3 : wmaAt hmaDemoX 2 3 = 44 / 3 := by
  obtain ⟨h0, h1, h2, h3, h4⟩ := hmaDemoX_vals
  rw [wmaAt_two]; norm_num [h2, h3]
theorem demoH4 : wmaAt hmaDemoX 2 4 = 15 := by
  obtain ⟨h0, h1, h2, h3, h4⟩ := hmaDemoX_vals
  rw [wmaAt_two]; norm_num [h3, h4]

/-- the textbook series on the demo candles: no value before index 4, then `1399/90 = 15.5444…` -/
example : (List.range 5).map (hmaSeries 4 hmaDemoX) = [none, none, none, none, some (1399 / 90)] := by
  have e : hmaExact 4 hmaDemoX 4 = 1399 / 90 := by
    unfold hmaExact
    rw [sqrt_four, wmaAt_two]
    unfold hmaRawExact
    norm_num [demoW3, demoW4, demoH3, demoH4]
  have t : hmaT0 4 = 4 := by unfold hmaT0; rw [sqrt_four]
  simp [List.range, List.range.loop, hmaSeries, t, e]

/-- the stored helper readings: 13.7, 14.5 / 14.6667, 15.0 -/
theorem demoW4_3 : hmaW4 4 hmaDemoX 3 = 137 / 10 := by
  unfold hmaW4; rw [demoW3]; exact round_grid_rat _ 137000 _ (by norm_num [defaultRound])
theorem demoW4_4 : hmaW4 4 hmaDemoX 4 = 29 / 2 := by
  unfold hmaW4; rw [demoW4]; exact round_grid_rat _ 145000 _ (by norm_num [defaultRound])
theorem demoWh4_3 : hmaWh4 4 hmaDemoX 3 = 146667 / 10000 := by
  unfold hmaWh4
  rw [show (4 / 2 : Nat) = 2 from rfl, demoH3]
  rw [show defaultRound = 4 from rfl, round4_rat (44 / 3) 146667 (by norm_num) (by norm_num)]
  norm_num
theorem demoWh4_4 : hmaWh4 4 hmaDemoX 4 = 15 := by
  unfold hmaWh4
  rw [show (4 / 2 : Nat) = 2 from rfl, demoH4]; exact round_grid_rat _ 150000 _ (by norm_num [defaultRound])

/-- the raw Hull values stored (unrounded) under `HMA_4_HMAr`: 15.6334, 15.5 -/
theorem demoR3 : hmaRawS 4 hmaDemoX 3 = 78167 / 5000 := by
  unfold hmaRawS; rw [demoW4_3, demoWh4_3]; norm_num
theorem demoR4 : hmaRawS 4 hmaDemoX 4 = 31 / 2 := by
  unfold hmaRawS; rw [demoW4_4, demoWh4_4]; norm_num

/-- the first smoothed reading: 15.5445 -/
theorem demoS4_4 : hmaS4 4 hmaDemoX 4 = 31089 / 2000 := by
  unfold hmaS4
  rw [sqrt_four, wmaAt_two]
  rw [show (4 - 1 : Nat) = 3 from rfl, demoR3, demoR4]
  rw [show defaultRound = 4 from rfl, round4_rat _ 155445 (by norm_num) (by norm_num)]
  norm_num

/-- the batch run on the demo candles, read off the candles (cf. the real class: `HMA_4_WMA = 13.7`,
`HMA_4_WMAh = 14.6667`, `HMA_4_HMAr = 15.6334`, `HMA_4_HMAs = None`, `HMA_4 = None` on candle 3;
`HMA_4_HMAr = 15.5`, `HMA_4_HMAs = HMA_4 = 15.5445` on candle 4) -/
example : ∃ out : List (Candle ℚ),
    candlesOf (runIndicator (mkTop (.hma ((4 : Nat) : Int) "close" : Kind ℚ) "HMA_4" 4) {} hmaDemoRaw []) = .ok out ∧
    readingByCandle (out.getD 2 default) "HMA_4" = .none ∧
    readingByCandle (out.getD 2 default) ("HMA_4" ++ "_WMA") = .none ∧
    readingByCandle (out.getD 2 default) ("HMA_4" ++ "_HMAr") = .none ∧
    readingByCandle (out.getD 3 default) ("HMA_4" ++ "_WMA") = .flt (137 / 10) ∧
    readingByCandle (out.getD 3 default) ("HMA_4" ++ "_WMAh") = .flt (146667 / 10000) ∧
    readingByCandle (out.getD 3 default) ("HMA_4" ++ "_HMAr") = .flt (78167 / 5000) ∧
    readingByCandle (out.getD 3 default) ("HMA_4" ++ "_HMAs") = .none ∧
    readingByCandle (out.getD 3 default) "HMA_4" = .none ∧
    readingByCandle (out.getD 4 default) ("HMA_4" ++ "_HMAr") = .flt (31 / 2) ∧
    readingByCandle (out.getD 4 default) ("HMA_4" ++ "_HMAs") = .flt (31089 / 2000) ∧
    readingByCandle (out.getD 4 default) "HMA_4" = .flt (31089 / 2000) := by
  refine ⟨_, hma_series_batch 4 (by norm_num) "HMA_4" "close" (·.c) 4 hmaNames_demo ⟨noDot_close, by decide⟩
    (fun _ => rfl) hmaDemoRaw hmaDemoRaw_plain, ?_⟩
  have hp : ∀ j, j < hmaDemoRaw.length → Plain (hmaDemoRaw.getD j default) :=
    fun j hj => getD_plain _ hmaDemoRaw_plain j hj
  have t : hmaT0 4 = 4 := by unfold hmaT0; rw [sqrt_four]
  have r2 : hmaRow 4 (fieldAt (·.c) hmaDemoRaw) 2 = ((.none, .flt (40 / 3)), (none, .none)) := by
    show hmaRow 4 hmaDemoX 2 = _
    unfold hmaRow hmaWV hmaWhV hmaZ
    rw [if_pos (by decide), if_neg (by decide), if_pos (by decide), demoH2]
  have r3 : hmaRow 4 (fieldAt (·.c) hmaDemoRaw) 3
      = ((.flt (137 / 10), .flt (44 / 3)), (some (.flt (78167 / 5000), .none), .none)) := by
    show hmaRow 4 hmaDemoX 3 = _
    unfold hmaRow hmaWV hmaWhV hmaZ hmaSV
    rw [if_neg (by decide), if_neg (by decide), if_neg (by decide), if_pos (by rw [t]; decide), demoW3, demoH3,
      demoR3]
  have r4 : hmaRow 4 (fieldAt (·.c) hmaDemoRaw) 4
      = ((.flt (29 / 2), .flt 15), (some (.flt (31 / 2), .flt (31089 / 2000)), .flt (31089 / 2000))) := by
    show hmaRow 4 hmaDemoX 4 = _
    unfold hmaRow hmaWV hmaWhV hmaZ hmaSV
    rw [if_neg (by decide), if_neg (by decide), if_neg (by decide), if_neg (by rw [t]; decide), demoW4, demoH4,
      demoR4, demoS4_4]
  have e137 : PyF.round 4 (137 / 10 : ℚ) = 137 / 10 := round_grid_rat _ 137000 _ (by norm_num)
  have e146 : PyF.round 4 (44 / 3 : ℚ) = 146667 / 10000 := by
    rw [round4_rat (44 / 3) 146667 (by norm_num) (by norm_num)]; norm_num
  have e155 : PyF.round 4 (31089 / 2000 : ℚ) = 31089 / 2000 := round_grid_rat _ 155445 _ (by norm_num)
  rw [hmaDeco_getD _ _ _ _ _ 2 (by decide), hmaDeco_getD _ _ _ _ _ 3 (by decide), hmaDeco_getD _ _ _ _ _ 4 (by decide),
    hmaOut_own _ _ hmaNames_demo, hmaOut_own _ _ hmaNames_demo, hmaOut_own _ _ hmaNames_demo,
    hmaOut_W _ _ hmaNames_demo _ (hp 2 (by decide)), hmaOut_W _ _ hmaNames_demo _ (hp 3 (by decide)),
    hmaOut_Wh _ _ hmaNames_demo _ (hp 3 (by decide)),
    hmaOut_R _ _ hmaNames_demo _ (hp 2 (by decide)), hmaOut_R _ _ hmaNames_demo _ (hp 3 (by decide)),
    hmaOut_R _ _ hmaNames_demo _ (hp 4 (by decide)),
    hmaOut_S _ _ hmaNames_demo _ (hp 3 (by decide)), hmaOut_S _ _ hmaNames_demo _ (hp 4 (by decide)),
    r2, r3, r4]
  refine ⟨rfl, rfl, rfl, ?_, ?_, rfl, rfl, rfl, rfl, rfl, ?_⟩
  · show Val.flt (PyF.round 4 (137 / 10 : ℚ)) = _
    rw [e137]
  · show Val.flt (PyF.round 4 (44 / 3 : ℚ)) = _
    rw [e146]
  · show Val.flt (PyF.round 4 (31089 / 2000 : ℚ)) = _
    rw [e155]

end Numeric
end Hex

#print axioms Hex.Numeric.hma_step
#print axioms Hex.Numeric.hma_series
#print axioms Hex.Numeric.hmaDeco_ok
#print axioms Hex.Numeric.hmaS4_err
#print axioms Hex.Numeric.hma_series_engine
#print axioms Hex.Numeric.hma_series_batch
#print axioms Hex.Numeric.hma_batch_readings
#print axioms Hex.Numeric.hma_engine_readings
#print axioms Hex.Numeric.hma_series_live

import HexModel.Py.Arith
import Mathlib.Algebra.Order.Field.Basic
import Mathlib.Algebra.Order.Ring.Abs
import Mathlib.Algebra.Order.Floor.Ring
import Mathlib.Data.Rat.Floor
import Mathlib.Tactic.Linarith
import Mathlib.Tactic.Ring
import Mathlib.Tactic.FieldSimp
import Mathlib.Tactic.Positivity
/-!
# The numeric setting: a lawful float carrier over an ordered field

The model's indicator formulas are written against the abstract float class `PyF F`.  The
NUMERIC theorems (indicator = textbook definition, ranges, band ordering, totality of the
guarded divisions) are proved for a carrier `K` that is a linearly ordered field whose `PyF`
operations *are* the field operations and decide the order, with an abstract decimal rounding
`rnd n := PyF.round n` that is monotone, idempotent and within `eps n = 1/(2·10^n)` of its
argument.

## Trusted gap (stated once, on purpose)
The executed instance is IEEE-754 `Float`, which is NOT such a field: every operation rounds,
sums are not associative, large values overflow to `inf`, `inf - inf` is `NaN`.  Nothing in this
directory speaks about those effects.  What the theorems here establish is that the *formulas*
(the control flow, the guards in front of divisions and `sqrt`, which reading is combined with
which) compute the textbook quantity when arithmetic is exact.  IEEE rounding error, overflow
and NaN propagation are outside these theorems; they are covered only by the bit-exact
correspondence runs and the oracle searches (DESIGN.md §8).
-/
namespace Hex

/-- half a unit in the `n`-th decimal place: the largest error of rounding to `n` decimals -/
def eps (K : Type) [Field K] (n : Nat) : K := 1 / (2 * 10 ^ n)

/-- `PyF` operations are the operations of a linearly ordered field; `round n` is a lawful
decimal rounding.  (`sqrt` laws live in `LawfulSqrt`: ℚ has no square roots.) -/
class LawfulPyF (K : Type) [Field K] [LinearOrder K] [IsStrictOrderedRing K] extends PyF K where
  add_eq : ∀ a b : K, add a b = a + b
  sub_eq : ∀ a b : K, sub a b = a - b
  mul_eq : ∀ a b : K, mul a b = a * b
  /-- only for a non-zero divisor: the callers guard every division -/
  div_eq : ∀ a b : K, b ≠ 0 → div a b = a / b
  neg_eq : ∀ a : K, neg a = -a
  abs_eq : ∀ a : K, abs a = |a|
  ofInt_eq : ∀ i : Int, ofInt i = (i : K)
  /-- `x ** n` for a natural exponent (the only use: RMA's seed weights) -/
  pow_nat : ∀ (a : K) (n : Nat), pow a (ofInt (n : Int)) = a ^ n
  lt_iff : ∀ a b : K, lt a b = true ↔ a < b
  le_iff : ∀ a b : K, le a b = true ↔ a ≤ b
  beq_iff : ∀ a b : K, beq a b = true ↔ a = b
  isZero_iff : ∀ a : K, isZero a = true ↔ a = 0
  isFinite_eq : ∀ a : K, isFinite a = true
  round_mono : ∀ n : Nat, Monotone (round n)
  round_idem : ∀ (n : Nat) (x : K), round n (round n x) = round n x
  round_err : ∀ (n : Nat) (x : K), |round n x - x| ≤ eps K n
  /-- numbers with at most `n` decimals are not moved -/
  round_grid : ∀ (n : Nat) (k : Int), round n ((k : K) / 10 ^ n) = (k : K) / 10 ^ n

/-- `math.sqrt` on non-negative arguments -/
class LawfulSqrt (K : Type) [Field K] [LinearOrder K] [IsStrictOrderedRing K] [LawfulPyF K] : Prop where
  sqrt_sq : ∀ x : K, 0 ≤ x → PyF.sqrt x * PyF.sqrt x = x
  sqrt_nonneg : ∀ x : K, 0 ≤ x → 0 ≤ PyF.sqrt x

/-- the weaker law that suffices for band ordering: `sqrt` of a non-negative number is non-negative -/
class NonnegSqrt (K : Type) [Field K] [LinearOrder K] [IsStrictOrderedRing K] [LawfulPyF K] : Prop where
  sqrt_nonneg : ∀ x : K, 0 ≤ x → 0 ≤ PyF.sqrt x

instance (K : Type) [Field K] [LinearOrder K] [IsStrictOrderedRing K] [LawfulPyF K] [LawfulSqrt K] :
    NonnegSqrt K := ⟨LawfulSqrt.sqrt_nonneg⟩

theorem eps_pos (K : Type) [Field K] [LinearOrder K] [IsStrictOrderedRing K] (n : Nat) : 0 < eps K n := by
  unfold eps; positivity

/-! ## The class is inhabited -/

section decRound
variable {K : Type} [Field K] [LinearOrder K] [IsStrictOrderedRing K] [FloorRing K]

/-- round-half-up to `n` decimals in any floor field -/
def decRound (n : Nat) (x : K) : K := (⌊x * 10 ^ n + 1 / 2⌋ : ℤ) / 10 ^ n

theorem decRound_mono (n : Nat) : Monotone (decRound (K := K) n) := by
  intro a b h
  unfold decRound
  have hp : (0 : K) < 10 ^ n := by positivity
  apply div_le_div_of_nonneg_right _ hp.le
  exact_mod_cast Int.floor_mono (by nlinarith)

theorem decRound_grid (n : Nat) (k : Int) : decRound n ((k : K) / 10 ^ n) = (k : K) / 10 ^ n := by
  unfold decRound
  have hp : (0 : K) < 10 ^ n := by positivity
  congr 2
  rw [div_mul_cancel₀ _ hp.ne']
  rw [Int.floor_intCast_add]
  norm_num

theorem decRound_idem (n : Nat) (x : K) : decRound n (decRound n x) = decRound n x := by
  conv_lhs => rw [show decRound n x = ((⌊x * 10 ^ n + 1 / 2⌋ : ℤ) : K) / 10 ^ n from rfl]
  rw [decRound_grid]; rfl

theorem decRound_err (n : Nat) (x : K) : |decRound n x - x| ≤ eps K n := by
  unfold decRound eps
  have hp : (0 : K) < 10 ^ n := by positivity
  have h1 := Int.floor_le (x * 10 ^ n + 1 / 2)
  have h2 := Int.lt_floor_add_one (x * 10 ^ n + 1 / 2)
  have e : ((⌊x * 10 ^ n + 1 / 2⌋ : ℤ) : K) / 10 ^ n - x
      = (((⌊x * 10 ^ n + 1 / 2⌋ : ℤ) : K) - x * 10 ^ n) / 10 ^ n := by
    field_simp
  rw [e, abs_div, abs_of_pos hp, div_le_div_iff₀ hp (by positivity)]
  have : |((⌊x * 10 ^ n + 1 / 2⌋ : ℤ) : K) - x * 10 ^ n| ≤ 1 / 2 := by
    rw [abs_le]; constructor <;> linarith
  calc |((⌊x * 10 ^ n + 1 / 2⌋ : ℤ) : K) - x * 10 ^ n| * (2 * 10 ^ n)
      ≤ 1 / 2 * (2 * 10 ^ n) := by apply mul_le_mul_of_nonneg_right this (by positivity)
    _ = 1 * 10 ^ n := by ring

end decRound

/-- ℚ with exact arithmetic and round-half-up decimal rounding.  `sqrt` is a stub (ℚ has no
square roots); theorems needing `sqrt` laws ask for `LawfulSqrt` and are instantiated over ℝ
in `HexProofs/Numeric/RealInst.lean`. -/
instance ratLawful : LawfulPyF ℚ where
  add := (· + ·)
  sub := (· - ·)
  mul := (· * ·)
  div := (· / ·)
  neg := fun x => -x
  abs := fun x => |x|
  sqrt := fun _ => 0
  pow := fun a b => a ^ b.num.toNat
  ofInt := fun i => (i : ℚ)
  lt := fun a b => decide (a < b)
  le := fun a b => decide (a ≤ b)
  beq := fun a b => decide (a = b)
  isZero := fun a => decide (a = 0)
  isFinite := fun _ => true
  round := decRound
  add_eq := fun _ _ => rfl
  sub_eq := fun _ _ => rfl
  mul_eq := fun _ _ => rfl
  div_eq := fun _ _ _ => rfl
  neg_eq := fun _ => rfl
  abs_eq := fun _ => rfl
  ofInt_eq := fun _ => rfl
  pow_nat := fun a n => by simp
  lt_iff := fun a b => by simp
  le_iff := fun a b => by simp
  beq_iff := fun a b => by simp
  isZero_iff := fun a => by simp
  isFinite_eq := fun _ => rfl
  round_mono := decRound_mono
  round_idem := decRound_idem
  round_err := decRound_err
  round_grid := decRound_grid

instance : NonnegSqrt ℚ := ⟨fun _ _ => le_refl (0 : ℚ)⟩

end Hex

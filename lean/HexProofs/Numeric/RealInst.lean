import HexProofs.Numeric.Lawful
import Mathlib.Analysis.Real.Sqrt
import Mathlib.Algebra.Order.Floor.Ring
import Mathlib.Topology.Algebra.Order.Floor
/-!
# ℝ inhabits `LawfulPyF` and `LawfulSqrt` (with `Real.sqrt` and round-half-up)
Used only to show that the hypotheses of the STDEV/BBANDS theorems are consistent.
-/
namespace Hex

noncomputable instance realLawful : LawfulPyF ℝ where
  add := (· + ·)
  sub := (· - ·)
  mul := (· * ·)
  div := (· / ·)
  neg := fun x => -x
  abs := fun x => |x|
  sqrt := Real.sqrt
  pow := fun a b => a ^ ⌊b⌋.toNat
  ofInt := fun i => (i : ℝ)
  lt := fun a b => decide (a < b)
  le := fun a b => decide (a ≤ b)
  beq := fun a b => decide (a = b)
  isZero := fun a => decide (a = 0)
  isFinite := fun _ => true
  round := decRound
  add_eq := fun _ _ => rfl
  sub_eq := fun _ _ => rfl
  mul_eq := fun _ _ => rfl
  div_eq := fun _ _ _ => rfl
  neg_eq := fun _ => rfl
  abs_eq := fun _ => rfl
  ofInt_eq := fun _ => rfl
  pow_nat := fun a n => by simp
  lt_iff := fun a b => by simp
  le_iff := fun a b => by simp
  beq_iff := fun a b => by simp
  isZero_iff := fun a => by simp
  isFinite_eq := fun _ => rfl
  round_mono := decRound_mono
  round_idem := decRound_idem
  round_err := decRound_err
  round_grid := decRound_grid

instance : LawfulSqrt ℝ where
  sqrt_sq := fun x hx => Real.mul_self_sqrt hx
  sqrt_nonneg := fun x _ => Real.sqrt_nonneg x

end Hex

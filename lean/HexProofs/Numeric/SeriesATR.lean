import HexProofs.Framework.Gen.ATR
import HexProofs.Numeric.SeriesMore
import HexProofs.Numeric.Demo
/-!
# Whole-series theorem for ATR (node + prior `name_TR` helper)

`atrTree name round p` (HexProofs/Framework/Gen/ATR.lean) is the `TreeSpec` of an ATR node: its
row step stores first the TR helper's reading under `name_TR` (in `.sub_indicators`, rounded to
`defaultRound = 4` decimals), then the node's own reading under `name` (in `.indicators`, rounded
to `round`).  This file proves, for EVERY raw candle list, what the row-major run – and hence the
engine's `calculate()` (`TreeSpec.engine`, `TreeSpec.batch_iff`) – stores on every candle.

Facts of the library (hexital/indicators/tr.py, atr.py) reflected in the statement:
* TR needs a previous close (`reading_period(2, "close")`): the helper column is `None` on candle 0
  and `max(h−l, |h−c₋₁|, |l−c₋₁|)` from candle 1 on (ints stay ints, floats are rounded);
* hence ATR's `reading_period(period, name_TR)` first holds on candle `period`: the own column is
  `None` on candles `0 … period−1`, the mean of the stored `TR₁ … TR_period` on candle `period`, and
  from then on `(ATR₋₁·(period−1) + TR)/period` on the STORED predecessor.
-/
set_option linter.unusedSectionVars false
set_option linter.unusedSimpArgs false
namespace Hex
namespace Numeric
variable {K : Type} [Field K] [LinearOrder K] [IsStrictOrderedRing K] [LawfulPyF K]

/-! ### the textbook series, as functions of the raw candles -/

/-- the number `TR._calculate_reading` returns on candle `j ≥ 1` (a `Num`: ints stay ints) -/
def trNum (raw : List (Candle K)) (j : Nat) : Num K :=
  Num.max2 (Num.max2 ((raw.getD j default).h.sub (raw.getD j default).l)
      ((raw.getD j default).h.sub (raw.getD (j - 1) default).c).abs)
    ((raw.getD j default).l.sub (raw.getD (j - 1) default).c).abs

/-- the exact true range of candle `j ≥ 1`: `max(h − l, |h − c₋₁|, |l − c₋₁|)` -/
def trExact (raw : List (Candle K)) (j : Nat) : K :=
  trAt (fieldAt (·.h) raw) (fieldAt (·.l) raw) (fieldAt (·.c) raw) j

theorem trNum_toF (raw : List (Candle K)) (j : Nat) : (trNum raw j).toF = trExact raw j := by
  simp [trNum, trExact, trAt, fieldAt]

theorem trExact_nonneg (raw : List (Candle K)) (j : Nat) : 0 ≤ trExact raw j := by
  unfold trExact trAt
  exact le_trans (abs_nonneg _) (le_max_right _ _)

/-- the reading stored under `name_TR` on candle `j`: `None` on candle 0 (no previous close),
afterwards the true range rounded to `defaultRound` decimals -/
def trStored (raw : List (Candle K)) (j : Nat) : Val K :=
  if j = 0 then .none else .num ((trNum raw j).roundBy defaultRound)

/-- the stored true range as a field element -/
def trS (raw : List (Candle K)) (j : Nat) : K := ((trNum raw j).roundBy defaultRound).toF

/-- the stored true range is within `ε₄` of the exact one -/
theorem trS_err (raw : List (Candle K)) (j : Nat) : |trS raw j - trExact raw j| ≤ eps K defaultRound := by
  rw [← trNum_toF]; exact Num.roundBy_err _ _

theorem round_nonneg (n : Nat) (x : K) (h : 0 ≤ x) : 0 ≤ PyF.round n x := by
  have := LawfulPyF.round_mono (K := K) n h
  have e := round_int (K := K) n 0
  simp only [Int.cast_zero] at e
  rwa [e] at this

theorem Num.roundBy_nonneg (n : Nat) (a : Num K) (h : 0 ≤ a.toF) : 0 ≤ (a.roundBy n).toF := by
  cases a with
  | int i => exact h
  | flt x => exact round_nonneg n x h

theorem trS_nonneg (raw : List (Candle K)) (j : Nat) : 0 ≤ trS raw j :=
  Num.roundBy_nonneg _ _ (by rw [trNum_toF]; exact trExact_nonneg raw j)

/-- **Wilder's average true range** of an input series `x` (`x j` = true range of candle `j ≥ 1`):
the mean of `x 1 … x p` at index `p`, then `ATR_j = (1/p)·x_j + (1 − 1/p)·ATR_{j−1}`
(values at indices `< p` are irrelevant: the reading is `None` there). -/
def atrExact (p : Nat) (x : Nat → K) : Nat → K :=
  recExact (1 / (p : K)) (winMean x p p) x (p + 1)

/-- the textbook ATR series with its warm-up -/
def atrSeries (p : Nat) (x : Nat → K) (j : Nat) : Option K :=
  if j < p then none else some (atrExact p x j)

theorem atrExact_seed (p : Nat) (x : Nat → K) :
    atrExact p x p = rsum p (fun k => x (1 + k)) / p := by
  unfold atrExact
  rw [recExact_seed _ _ _ _ _ (by omega)]
  unfold winMean
  congr 2
  funext k
  congr 1
  omega

/-- Wilder's recurrence in the library's form `(prev·(p−1) + TR)/p` -/
theorem atrExact_step (p : Nat) (hp : 1 ≤ p) (x : Nat → K) (j : Nat) (hj : p < j) :
    atrExact p x j = (atrExact p x (j - 1) * ((p : K) - 1) + x j) / p := by
  have hpK : (p : K) ≠ 0 := by exact_mod_cast (by omega : p ≠ 0)
  unfold atrExact
  rw [recExact_step _ _ _ _ _ (by omega) (by omega), atr_is_wilder _ _ _ hpK]

/-- what is claimed of the stored ATR reading of candle `j` relative to Wilder's series of the
inputs `x`: `None` while `j < p`; from `j = p` on a non-negative float within `ε_n / (1/p) = p·ε_n`
of the exact series (the budget does not grow: the recurrence contracts by `1 − 1/p`). -/
def AtrOK (p n : Nat) (x : Nat → K) (j : Nat) (v : Val K) : Prop :=
  RecOK (p + 1) n (1 / (p : K)) (atrExact p x) j v ∧ ∀ y, v = .flt y → 0 ≤ y

/-! ### the finished candles -/

/-- the raw candles with the TR helper's readings stored under `tn` in `.sub_indicators` -/
def trDeco (tn : String) (raw : List (Candle K)) : List (Candle K) :=
  (List.range raw.length).map fun j => setKey true tn (trStored raw j) (raw.getD j default)

theorem trDeco_length (tn : String) (raw : List (Candle K)) : (trDeco tn raw).length = raw.length := by
  simp [trDeco]

theorem trDeco_getElem? (tn : String) (raw : List (Candle K)) (j : Nat) (hj : j < raw.length) :
    (trDeco tn raw)[j]? = some (setKey true tn (trStored raw j) (raw.getD j default)) := by
  simp [trDeco, hj]

theorem trDeco_getD (tn : String) (raw : List (Candle K)) (j : Nat) (hj : j < raw.length) :
    (trDeco tn raw).getD j default = setKey true tn (trStored raw j) (raw.getD j default) := by
  rw [List.getD_eq_getElem?_getD, trDeco_getElem? tn raw j hj]; rfl

theorem getD_plain (raw : List (Candle K)) (hraw : ∀ c ∈ raw, Plain c) (j : Nat) (hj : j < raw.length) :
    Plain (raw.getD j default) := by
  apply hraw
  rw [List.getD_eq_getElem?_getD, List.getElem?_eq_getElem hj]
  exact List.getElem_mem _

theorem map_bare_eq_of_getElem? (A B : List (Candle K)) (hl : A.length = B.length)
    (h : ∀ (j : Nat) (a b : Candle K), A[j]? = some a → B[j]? = some b → a.bare = b.bare) :
    A.map Candle.bare = B.map Candle.bare := by
  apply List.ext_getElem?
  intro j
  rw [List.getElem?_map, List.getElem?_map]
  by_cases hj : j < A.length
  · rw [List.getElem?_eq_getElem hj, List.getElem?_eq_getElem (by omega)]
    simp only [Option.map_some, Option.some.injEq]
    exact h j _ _ (List.getElem?_eq_getElem hj) (List.getElem?_eq_getElem (by omega))
  · rw [List.getElem?_eq_none (by omega), List.getElem?_eq_none (by omega)]

theorem trDeco_bare (tn : String) (raw : List (Candle K)) :
    (trDeco tn raw).map Candle.bare = raw.map Candle.bare := by
  apply map_bare_eq_of_getElem? _ _ (trDeco_length tn raw)
  intro j a b ha hb
  have hj : j < raw.length := by
    by_contra hn
    rw [List.getElem?_eq_none (by omega)] at hb; cases hb
  rw [trDeco_getElem? tn raw j hj] at ha
  cases ha
  rw [bare_setKey]
  congr 1
  rw [List.getD_eq_getElem?_getD, hb]; rfl

theorem deco_bare (nm : String) (R : List (Candle K)) (vs : List (Val K)) (h : vs.length = R.length) :
    (deco nm R vs).map Candle.bare = R.map Candle.bare := by
  apply map_bare_eq_of_getElem? _ _ (deco_length nm R vs h)
  intro j a b ha hb
  have hj : j < R.length := by
    by_contra hn
    rw [List.getElem?_eq_none (by omega)] at hb; cases hb
  rw [deco_getElem? nm R vs j h hj] at ha
  cases ha
  rw [bare_setKey]
  congr 1
  rw [List.getD_eq_getElem?_getD, hb]; rfl


/-! ### what the TR helper reads and returns -/

/-- `TR._calculate_reading` at index `m` of a list whose bare candles are `raw[0..m]` -/
theorem tr_stepCtx (tn : String) (raw : List (Candle K)) (us : List (Val K)) (m : Nat)
    (hm : m < raw.length) (hus : us.length = m) :
    Calc.tr (stepCtx tn raw us m) = .ok (if m = 0 then .none else .num (trNum raw m)) := by
  have hh := stepCtx_field_cur tn "high" (·.h) raw us m hm hus noDot_high (fun _ => rfl)
  have hl := stepCtx_field_cur tn "low" (·.l) raw us m hm hus noDot_low (fun _ => rfl)
  have hper := stepCtx_period tn "close" (·.c) raw us m hm hus noDot_close (fun _ => rfl) 2 (by omega)
  by_cases h0 : m = 0
  · have hrp : (stepCtx tn raw us m).readingPeriod 2 "close" = false := by
      have : (stepCtx tn raw us m).readingPeriod ((2 : Nat) : Int) "close" = false := by rw [hper]; simp; omega
      exact this
    rw [tr_none _ _ _ hh hl hrp]; simp [h0]
  · have hrp : (stepCtx tn raw us m).readingPeriod 2 "close" = true := by
      have : (stepCtx tn raw us m).readingPeriod ((2 : Nat) : Int) "close" = true := by rw [hper]; simp; omega
      exact this
    have hpc : (stepCtx tn raw us m).prevReading "close" = .ok (.num (raw.getD (m - 1) default).c) := by
      unfold Ctx.prevReading
      have hlen := stepCtx_length tn raw us m hm hus
      have a : ((stepCtx tn raw us m).cs.length == 0) = false := by rw [hlen]; simp
      have b : ((stepCtx tn raw us m).i == 0) = false := by simp [stepCtx]; omega
      simp only [a, b, Bool.or_self, Bool.false_eq_true, if_false]
      have e : (stepCtx tn raw us m).i - 1 = ((m - 1 : Nat) : Int) := by simp [stepCtx]; omega
      rw [e]
      exact stepCtx_field tn "close" (·.c) raw us m hm hus noDot_close (fun _ => rfl) _ (by omega)
    simp only [h0, if_false]
    simp [Calc.tr, hh, hl, hrp, Ctx.prevNum_of hpc, trNum]

/-! ### what the ATR node reads -/

theorem readingByCandle_setKey_own (nm : String) (hk : IsKey nm) (v : Val K) (c : Candle K) :
    readingByCandle (setKey false nm v c) nm = v := by
  rw [readingByCandle_key nm hk]
  unfold lookupKey setKey
  simp [dlookup_dset_self]

section atrAccess
variable (nm : String) (raw : List (Candle K)) (vs : List (Val K)) (m : Nat)

/-- the context of the node's own step at index `m`: finished candles `0..m−1`, candle `m` holding
its TR helper reading -/
abbrev atrCtx : Ctx K := stepCtx nm (trDeco (nm ++ "_TR") raw) vs m

theorem atrCtx_own (hm : m < raw.length) (hvs : vs.length = m) (hk : IsKey nm) (j : Nat) (hj : j < m) :
    (atrCtx nm raw vs m).reading nm (some (j : Int)) = .ok (vs.getD j .none) := by
  unfold Ctx.reading
  simp only [Option.getD_some]
  rw [pyIndex_nonneg _ _ (by omega)]
  simp only [Int.toNat_natCast]
  rw [stepCtx_lt nm _ vs m (by rw [trDeco_length]; exact hm) hvs j hj]
  simp only [getOrIndexError, pym_bind_ok, pym_pure]
  rw [readingByCandle_setKey_own nm hk]

theorem atrCtx_prev (hm : m < raw.length) (hvs : vs.length = m) (hk : IsKey nm) :
    (atrCtx nm raw vs m).prevReading nm = .ok (if m = 0 then .none else vs.getD (m - 1) .none) := by
  have hm' : m < (trDeco (nm ++ "_TR") raw).length := by rw [trDeco_length]; exact hm
  unfold Ctx.prevReading
  have hl := stepCtx_length nm _ vs m hm' hvs
  by_cases h0 : m = 0
  · subst h0; simp [stepCtx]
  · have h1 : ((atrCtx nm raw vs m).cs.length == 0) = false := by rw [hl]; simp
    have h2 : ((atrCtx nm raw vs m).i == 0) = false := by simp [stepCtx]; omega
    simp only [h1, h2, Bool.or_self, Bool.false_eq_true, if_false, h0]
    have e : (atrCtx nm raw vs m).i - 1 = ((m - 1 : Nat) : Int) := by simp [stepCtx]; omega
    rw [e]
    exact atrCtx_own nm raw vs m hm hvs hk (m - 1) (by omega)

/-- the TR helper column as the node sees it, at any index up to the active one -/
theorem atrCtx_tr (hm : m < raw.length) (hvs : vs.length = m) (hn : AtrNames nm)
    (hraw : ∀ c ∈ raw, Plain c) (j : Nat) (hj : j ≤ m) :
    (atrCtx nm raw vs m).reading (nm ++ "_TR") (some (j : Int)) = .ok (trStored raw j) := by
  have hm' : m < (trDeco (nm ++ "_TR") raw).length := by rw [trDeco_length]; exact hm
  unfold Ctx.reading
  simp only [Option.getD_some]
  rw [pyIndex_nonneg _ _ (by omega)]
  simp only [Int.toNat_natCast]
  by_cases hjm : j < m
  · rw [stepCtx_lt nm _ vs m hm' hvs j hjm]
    simp only [getOrIndexError, pym_bind_ok, pym_pure]
    rw [indep_key nm (nm ++ "_TR") hn.trkey (Ne.symm hn.ne), trDeco_getD _ raw j (by omega),
      readingByCandle_setKey true _ hn.trkey _ _ (getD_plain raw hraw j (by omega))]
  · have : j = m := by omega
    subst this
    rw [stepCtx_eq nm _ vs j hm' hvs]
    simp only [getOrIndexError, pym_bind_ok, pym_pure]
    rw [trDeco_getD _ raw j hm, readingByCandle_setKey true _ hn.trkey _ _ (getD_plain raw hraw j hm)]

theorem atrCtx_tr_cur (hm : m < raw.length) (hvs : vs.length = m) (hn : AtrNames nm)
    (hraw : ∀ c ∈ raw, Plain c) :
    (atrCtx nm raw vs m).reading (nm ++ "_TR") = .ok (trStored raw m) :=
  atrCtx_tr nm raw vs m hm hvs hn hraw m (le_refl m)

/-- `reading_period(q, name_TR)` holds exactly from index `q` on (TR is `None` on candle 0) -/
theorem atrCtx_period (hm : m < raw.length) (hvs : vs.length = m) (hn : AtrNames nm)
    (hraw : ∀ c ∈ raw, Plain c) (q : Nat) (hq : 1 ≤ q) :
    (atrCtx nm raw vs m).readingPeriod (q : Int) (nm ++ "_TR") = decide (q ≤ m) := by
  have hm' : m < (trDeco (nm ++ "_TR") raw).length := by rw [trDeco_length]; exact hm
  have hl := stepCtx_length nm _ vs m hm' hvs
  have hrd : ∀ j : Nat, j ≤ m →
      (readingByIndex (atrCtx nm raw vs m).cs (nm ++ "_TR") (j : Int)).isNone = decide (j = 0) := by
    intro j hj
    have hv : validIndex (j : Int) (atrCtx nm raw vs m).cs.length = true := by
      rw [hl]; simp [validIndex]; omega
    have := atrCtx_tr nm raw vs m hm hvs hn hraw j hj
    unfold Ctx.reading at this
    simp only [Option.getD_some] at this
    unfold readingByIndex
    rw [hv]
    cases hpi : pyIndex (atrCtx nm raw vs m).cs (j : Int) with
    | error e => rw [hpi] at this; simp at this
    | ok c =>
      rw [hpi] at this
      simp only [pym_bind_ok, pym_pure, Except.ok.injEq] at this
      simp only [if_true, this]
      unfold trStored
      by_cases h0 : j = 0 <;> simp [h0]
  unfold Ctx.readingPeriod Hex.readingPeriod
  simp only [Option.getD_none]
  have hv : validIndex (atrCtx nm raw vs m).i (atrCtx nm raw vs m).cs.length = true := by
    rw [hl]; simp [validIndex, stepCtx]; omega
  simp only [hv, Bool.not_true, Bool.false_eq_true, if_false]
  simp only [stepCtx] at hrd
  by_cases hqm : q ≤ m + 1
  · have a : ¬ ((m : Int) - ((q : Int) - 1) < 0) := by omega
    have b : (q : Int) - 1 ≥ 0 := by omega
    simp only [a, if_false, b, ge_iff_le, if_true]
    have e1 : (m : Int) - ((q : Int) - 1) = ((m + 1 - q : Nat) : Int) := by omega
    have e2 : (m : Int) - ((q : Int) - 1) / 2 = ((m - (q - 1) / 2 : Nat) : Int) := by omega
    rw [e1, e2, hrd _ (by omega), hrd _ (by omega), hrd m (le_refl m)]
    by_cases hqm' : q ≤ m
    · have c1 : m + 1 - q ≠ 0 := by omega
      have c2 : m - (q - 1) / 2 ≠ 0 := by omega
      have c3 : m ≠ 0 := by omega
      simp [c1, c2, c3, hqm']
    · have c1 : m + 1 - q = 0 := by omega
      simp [c1, hqm']
  · have a : (m : Int) - ((q : Int) - 1) < 0 := by omega
    have : ¬ q ≤ m := by omega
    simp [a, this]

end atrAccess


/-! ### the node's own step -/

theorem atr_none (x : Ctx K) (period : Int) (trName : String)
    (hprev : x.prevReading x.name = .ok .none) (hrp : x.readingPeriod period trName = false) :
    Calc.atr x period trName = .ok .none := by
  simp [Calc.atr, Ctx.prevExists_of hprev, hrp]

/-- **one ATR call inside the series**: if all earlier stored readings are as claimed, the call at
index `m` returns and its stored (rounded) reading is as claimed -/
theorem atr_stepCtx (p : Nat) (hp : 1 ≤ p) (nm : String) (n : Nat) (hk : IsKey nm) (hn : AtrNames nm)
    (raw : List (Candle K)) (hraw : ∀ c ∈ raw, Plain c) (vs : List (Val K)) (m : Nat)
    (hm : m < raw.length) (hvs : vs.length = m)
    (hQ : ∀ j, j < m → AtrOK p n (trS raw) j (vs.getD j .none)) :
    ∃ w, Calc.atr (atrCtx nm raw vs m) (p : Int) (nm ++ "_TR") = .ok w ∧
      AtrOK p n (trS raw) m (w.roundBy n) := by
  have hpK : (0 : K) < p := by exact_mod_cast (by omega : 0 < p)
  have hpI : ((p : Int) : K) ≠ 0 := by simpa using hpK.ne'
  have ha0 : (0 : K) < 1 / (p : K) := by positivity
  have ha1 : 1 / (p : K) ≤ 1 := by
    rw [div_le_one hpK]; exact_mod_cast hp
  have hprev := atrCtx_prev nm raw vs m hm hvs hk
  have hper := atrCtx_period nm raw vs m hm hvs hn hraw p hp
  have hcur := atrCtx_tr_cur nm raw vs m hm hvs hn hraw
  by_cases h1 : m < p
  · -- warm-up
    have hpn : (atrCtx nm raw vs m).prevReading (atrCtx nm raw vs m).name = .ok .none := by
      show (atrCtx nm raw vs m).prevReading nm = _
      rw [hprev]
      by_cases h0 : m = 0
      · simp [h0]
      · simp only [h0, if_false]
        rw [(hQ (m - 1) (by omega)).1.1 (by omega)]
    have hrp : (atrCtx nm raw vs m).readingPeriod (p : Int) (nm ++ "_TR") = false := by
      rw [hper]; simp; omega
    exact ⟨.none, atr_none _ _ _ hpn hrp, ⟨fun _ => rfl, fun h => by omega⟩, fun y hy => by cases hy⟩
  · by_cases h2 : m = p
    · -- seed: mean of the stored TR₁ … TR_p
      have h0 : m ≠ 0 := by omega
      have hpn : (atrCtx nm raw vs m).prevReading (atrCtx nm raw vs m).name = .ok .none := by
        show (atrCtx nm raw vs m).prevReading nm = _
        rw [hprev]
        simp only [h0, if_false]
        rw [(hQ (m - 1) (by omega)).1.1 (by omega)]
      have hrp : (atrCtx nm raw vs m).readingPeriod (p : Int) (nm ++ "_TR") = true := by
        rw [hper]; simp; omega
      have hwin := atr_seed_window (atrCtx nm raw vs m) p (nm ++ "_TR")
        (fun j => (trNum raw (1 + j)).roundBy defaultRound) hpn hrp hp
        (by show (p : Int) ≤ (m : Int) + 1; omega) (by show (1 : Int) ≤ (m : Int); omega)
        (by
          intro j hj
          have e : (atrCtx nm raw vs m).i + 1 - (p : Int) + (j : Int) = ((1 + j : Nat) : Int) := by
            show (m : Int) + 1 - (p : Int) + (j : Int) = _; omega
          rw [e, atrCtx_tr nm raw vs m hm hvs hn hraw (1 + j) (by omega)]
          unfold trStored
          rw [if_neg (by omega)])
      refine ⟨_, hwin, ⟨fun h => by omega, fun _ => ⟨_, rfl, ?_⟩⟩, ?_⟩
      · rw [h2, atrExact_seed]
        exact le_trans (LawfulPyF.round_err n _) (eps_le_div n _ ha0 ha1)
      · intro y hy
        cases hy
        exact round_nonneg n _ (div_nonneg (rsum_nonneg p _ (fun k _ => trS_nonneg raw (1 + k))) hpK.le)
    · -- Wilder's recurrence on the stored predecessor
      have h3 : p < m := by omega
      have h0 : m ≠ 0 := by omega
      obtain ⟨⟨_, hR⟩, hN⟩ := hQ (m - 1) (by omega)
      obtain ⟨yp, hyp, hbound⟩ := hR (by omega)
      have hyp0 := hN yp hyp
      have hpn : (atrCtx nm raw vs m).prevReading (atrCtx nm raw vs m).name = .ok (.flt yp) := by
        show (atrCtx nm raw vs m).prevReading nm = _
        rw [hprev]
        simp only [h0, if_false, hyp]
      have htr : (atrCtx nm raw vs m).reading (nm ++ "_TR")
          = .ok (.num ((trNum raw m).roundBy defaultRound)) := by
        rw [hcur]; unfold trStored; rw [if_neg h0]
      have hrec := atr_rec (atrCtx nm raw vs m) p (nm ++ "_TR") (.flt yp) _ hpn htr hpI
      refine ⟨_, hrec, ⟨fun h => by omega, fun _ => ⟨_, rfl, ?_⟩⟩, ?_⟩
      · unfold atrExact at hbound ⊢
        rw [recExact_step _ _ _ _ _ (by omega) (by omega)]
        have hb := ema_error_budget n (1 / (p : K)) (trS raw m) yp _ ha0 ha1 hbound
        simp only [Num.toF_flt, Int.cast_natCast]
        rw [atr_is_wilder _ _ _ hpK.ne']
        exact hb
      · intro y hy
        cases hy
        apply round_nonneg
        simp only [Num.toF_flt, Int.cast_natCast]
        have h1p : (0 : K) ≤ (p : K) - 1 := by
          rw [sub_nonneg]; exact_mod_cast hp
        exact div_nonneg (add_nonneg (mul_nonneg hyp0 h1p) (trS_nonneg raw m)) hpK.le


/-! ### one row of the pair, the induction along `Gen.rowMajor` -/

theorem pair_row {P X : Ind K} (h : PriorPair P X) (H : List (Candle K)) (c : Candle K) (t w : Val K)
    (hv : valOf X H c = .ok t) (hw : valOf P H (decOf X t c) = .ok w) :
    Gen.rowMajorFrom (pairSpec P X) H [c] = .ok (H ++ [decOf P w (decOf X t c)]) := by
  rw [Gen.rowMajorFrom_cons]
  have hstep : Gen.rowStep (pairSpec P X) H c = (do
      let v ← valOf X H c
      let w ← valOf P H (decOf X v c)
      pure (H ++ [decOf P w (decOf X v c)])) := pairStep h H c []
  rw [hstep, hv]
  simp only [bind, Except.bind]
  rw [hw]
  rfl

/-- the row step of `atrTree` is the step of the pair (node, TR helper) -/
theorem atrTree_S (nm : String) (n : Nat) (p : Int) (hp : 1 ≤ p) (hn : AtrNames nm) :
    (atrTree (F := K) nm n p hp hn).S = pairSpec (mkTop (.atr p) nm n) (leaf .tr (nm ++ "_TR")) := rfl

/-- **ATR, whole series.**  For every raw candle list and `period ≥ 1` the row-major run of
`atrTree` never raises and returns the raw candles with
* under `name_TR` (`.sub_indicators`): `trStored raw j` – `None` on candle 0, the true range
  `max(h−l, |h−c₋₁|, |l−c₋₁|)` rounded to 4 decimals afterwards (`trNum_toF`, `trS_err`);
* under `name` (`.indicators`): `vs[j]` with `AtrOK`: `None` for `j < period`; from `j = period` on a
  non-negative float within `period·ε_round` of Wilder's average `atrExact` of the STORED true
  ranges (mean of `TR₁ … TR_period` at `j = period`, then `(prev·(period−1) + TR_j)/period`). -/
theorem atr_series (p : Nat) (hp : 1 ≤ p) (nm : String) (n : Nat) (hk : IsKey nm) (hn : AtrNames nm)
    (raw : List (Candle K)) (hraw : ∀ c ∈ raw, Plain c) :
    ∃ vs : List (Val K), vs.length = raw.length ∧
      Gen.rowMajor (atrTree nm n (p : Int) (by omega) hn).S raw
        = .ok (deco nm (trDeco (nm ++ "_TR") raw) vs) ∧
      ∀ j, j < raw.length → AtrOK p n (trS raw) j (vs.getD j .none) := by
  have hpI : (1 : Int) ≤ (p : Int) := by omega
  rw [atrTree_S]
  have h := atr_pair (F := K) nm n (p : Int) hpI hn
  suffices hs : ∀ m, m ≤ raw.length → ∃ vs : List (Val K), vs.length = m ∧
      Gen.rowMajor (pairSpec (mkTop (.atr (p : Int)) nm n) (leaf .tr (nm ++ "_TR"))) (raw.take m)
        = .ok (deco nm ((trDeco (nm ++ "_TR") raw).take m) vs) ∧
      ∀ j, j < m → AtrOK p n (trS raw) j (vs.getD j .none) by
    obtain ⟨vs, h1, h2, h3⟩ := hs raw.length (le_refl _)
    rw [List.take_length, List.take_of_length_le (by rw [trDeco_length])] at h2
    exact ⟨vs, h1, h2, h3⟩
  intro m
  induction m with
  | zero =>
    intro _
    exact ⟨[], rfl, by simp [Gen.rowMajor, Gen.rowMajorFrom, deco], fun j hj => absurd hj (Nat.not_lt_zero j)⟩
  | succ m ih =>
    intro hm
    obtain ⟨vs, h1, h2, h3⟩ := ih (by omega)
    have hm' : m < raw.length := by omega
    have htl : (raw.take m).length = m := by simp; omega
    have htl' : ((trDeco (nm ++ "_TR") raw).take m).length = m := by
      rw [List.length_take, trDeco_length]; omega
    have hHl : (deco nm ((trDeco (nm ++ "_TR") raw).take m) vs).length = m := by
      rw [deco_length _ _ _ (by rw [htl', h1]), htl']
    -- the helper's reading
    have hX : valOf (leaf .tr (nm ++ "_TR")) (deco nm ((trDeco (nm ++ "_TR") raw).take m) vs)
        (raw.getD m default) = .ok (if m = 0 then .none else .num (trNum raw m)) := by
      have hul : (List.replicate m (Val.none : Val K)).length = m := by simp
      have hb : (deco nm ((trDeco (nm ++ "_TR") raw).take m) vs).map Candle.bare
          = (deco (nm ++ "_TR") (raw.take m) (List.replicate m Val.none)).map Candle.bare := by
        rw [deco_bare _ _ _ (by rw [htl', h1]), deco_bare _ _ _ (by rw [htl, hul]),
          List.map_take, trDeco_bare, List.map_take]
      rw [h.ignX _ _ _ (raw.getD m default) hb rfl]
      unfold valOf
      rw [deco_length _ _ _ (by rw [htl, hul]), htl]
      exact tr_stepCtx (nm ++ "_TR") raw (List.replicate m Val.none) m hm' hul
    have hdec : decOf (leaf .tr (nm ++ "_TR")) (if m = 0 then .none else .num (trNum raw m))
        (raw.getD m default) = (trDeco (nm ++ "_TR") raw).getD m default := by
      rw [trDeco_getD _ raw m hm']
      unfold decOf trStored
      by_cases h0 : m = 0 <;> simp [h0, leaf] <;> rfl
    -- the node's reading
    obtain ⟨w, hw, hq⟩ := atr_stepCtx p hp nm n hk hn raw hraw vs m hm' h1 h3
    have hP : valOf (mkTop (.atr (p : Int)) nm n) (deco nm ((trDeco (nm ++ "_TR") raw).take m) vs)
        ((trDeco (nm ++ "_TR") raw).getD m default) = .ok w := by
      unfold valOf
      rw [hHl]
      exact hw
    have htake : raw.take (m + 1) = raw.take m ++ [raw.getD m default] := by
      rw [List.take_add_one]
      congr 1
      rw [List.getD_eq_getElem?_getD, List.getElem?_eq_getElem (by omega)]
      rfl
    have htake' : (trDeco (nm ++ "_TR") raw).take (m + 1)
        = (trDeco (nm ++ "_TR") raw).take m ++ [(trDeco (nm ++ "_TR") raw).getD m default] := by
      rw [List.take_add_one]
      congr 1
      rw [List.getD_eq_getElem?_getD, List.getElem?_eq_getElem (by rw [trDeco_length]; omega)]
      rfl
    refine ⟨vs ++ [w.roundBy n], by simp [h1], ?_, ?_⟩
    · rw [htake, Gen.rowMajor_append, h2]
      simp only [bind, Except.bind]
      rw [pair_row h _ _ _ w hX (by rw [hdec]; exact hP), hdec, htake',
        deco_append _ _ _ _ _ (by rw [htl', h1])]
      rfl
    · intro j hj
      by_cases hjm : j < m
      · rw [List.getD_eq_getElem?_getD, List.getElem?_append_left (by omega), ← List.getD_eq_getElem?_getD]
        exact h3 j hjm
      · have : j = m := by omega
        subst this
        rw [List.getD_eq_getElem?_getD, List.getElem?_append_right (by omega)]
        simpa [h1] using hq


/-! ### the finished candles, reading by reading -/

theorem atr_out_getElem? (nm : String) (raw : List (Candle K)) (vs : List (Val K))
    (hvs : vs.length = raw.length) (j : Nat) (hj : j < raw.length) :
    (deco nm (trDeco (nm ++ "_TR") raw) vs)[j]? =
      some (setKey false nm (vs.getD j .none)
        (setKey true (nm ++ "_TR") (trStored raw j) (raw.getD j default))) := by
  rw [deco_getElem? nm _ vs j (by rw [trDeco_length, hvs]) (by rw [trDeco_length]; exact hj),
    trDeco_getD _ raw j hj]

/-- candle `j` of the finished list is the raw candle, reads `vs[j]` under `name` and
`trStored raw j` under `name_TR` -/
theorem atr_out_readings (nm : String) (hk : IsKey nm) (hn : AtrNames nm) (raw : List (Candle K))
    (hraw : ∀ c ∈ raw, Plain c) (vs : List (Val K)) (hvs : vs.length = raw.length) (j : Nat)
    (hj : j < raw.length) :
    ((deco nm (trDeco (nm ++ "_TR") raw) vs).getD j default).bare = (raw.getD j default).bare ∧
    readingByCandle ((deco nm (trDeco (nm ++ "_TR") raw) vs).getD j default) nm = vs.getD j .none ∧
    readingByCandle ((deco nm (trDeco (nm ++ "_TR") raw) vs).getD j default) (nm ++ "_TR")
      = trStored raw j := by
  have e : (deco nm (trDeco (nm ++ "_TR") raw) vs).getD j default
      = setKey false nm (vs.getD j .none)
          (setKey true (nm ++ "_TR") (trStored raw j) (raw.getD j default)) := by
    rw [List.getD_eq_getElem?_getD, atr_out_getElem? nm raw vs hvs j hj]; rfl
  rw [e]
  refine ⟨by rw [bare_setKey, bare_setKey], readingByCandle_setKey_own nm hk _ _, ?_⟩
  rw [indep_key nm (nm ++ "_TR") hn.trkey (Ne.symm hn.ne),
    readingByCandle_setKey true _ hn.trkey _ _ (getD_plain raw hraw j hj)]

/-! ### against Wilder's average of the EXACT true ranges -/

theorem rsum_sub (p : Nat) (f g : Nat → K) : rsum p (fun k => f k - g k) = rsum p f - rsum p g := by
  induction p with
  | zero => simp [rsum]
  | succ n ih => rw [rsum_succ, rsum_succ, rsum_succ, ih]; ring

/-- means of pointwise `δ`-close inputs are `δ`-close -/
theorem mean_perturb (p : Nat) (hp : 1 ≤ p) (f g : Nat → K) (δ : K)
    (h : ∀ k, k < p → |f k - g k| ≤ δ) : |rsum p f / p - rsum p g / p| ≤ δ := by
  have hb := mean_between p (fun k => f k - g k) (-δ) δ hp (fun k hk => abs_le.1 (h k hk))
  rw [rsum_sub, sub_div] at hb
  exact abs_le.2 hb

/-- the exponential recurrence does not amplify a uniform perturbation of seed and inputs -/
theorem recExact_perturb (a : K) (ha0 : 0 ≤ a) (ha1 : a ≤ 1) (δ s s' : K) (x x' : Nat → K) (q : Nat)
    (hs : |s' - s| ≤ δ) (hx : ∀ j, |x' j - x j| ≤ δ) :
    ∀ j, |recExact a s' x' q j - recExact a s x q j| ≤ δ := by
  intro j
  induction j with
  | zero => exact hs
  | succ j ih =>
    simp only [recExact]
    by_cases hq : j + 1 < q
    · simp only [hq, if_true]; exact hs
    · simp only [hq, if_false]
      have h1a : (0 : K) ≤ 1 - a := by linarith
      have e : a * x' (j + 1) + (1 - a) * recExact a s' x' q j - (a * x (j + 1) + (1 - a) * recExact a s x q j)
          = a * (x' (j + 1) - x (j + 1)) + (1 - a) * (recExact a s' x' q j - recExact a s x q j) := by ring
      rw [e]
      calc |a * (x' (j + 1) - x (j + 1)) + (1 - a) * (recExact a s' x' q j - recExact a s x q j)|
          ≤ |a * (x' (j + 1) - x (j + 1))| + |(1 - a) * (recExact a s' x' q j - recExact a s x q j)| :=
            abs_add_le _ _
        _ = a * |x' (j + 1) - x (j + 1)| + (1 - a) * |recExact a s' x' q j - recExact a s x q j| := by
            rw [abs_mul, abs_mul, abs_of_nonneg ha0, abs_of_nonneg h1a]
        _ ≤ a * δ + (1 - a) * δ :=
            add_le_add (mul_le_mul_of_nonneg_left (hx _) ha0) (mul_le_mul_of_nonneg_left ih h1a)
        _ = δ := by ring

/-- Wilder's average of the stored (rounded) true ranges is within `ε₄` of that of the exact ones -/
theorem atrExact_stored_vs_true (p : Nat) (hp : 1 ≤ p) (raw : List (Candle K)) (j : Nat) :
    |atrExact p (trS raw) j - atrExact p (trExact raw) j| ≤ eps K defaultRound := by
  have hpK : (0 : K) < p := by exact_mod_cast (by omega : 0 < p)
  unfold atrExact
  apply recExact_perturb _ (by positivity) (by rw [div_le_one hpK]; exact_mod_cast hp)
  · unfold winMean
    exact mean_perturb p hp _ _ _ (fun k _ => trS_err raw _)
  · exact fun j => trS_err raw j

/-- the stored ATR reading of candle `j` against Wilder's average of the EXACT true ranges of the
raw candles: `None` while `j < p`; afterwards a non-negative float within `p·ε_n + ε₄`
(`ε₄`: the TR helper's readings are themselves rounded to 4 decimals before ATR reads them). -/
def AtrOKTrue (p n : Nat) (raw : List (Candle K)) (j : Nat) (v : Val K) : Prop :=
  (j < p → v = .none) ∧
  (p ≤ j → ∃ y, v = .flt y ∧
    |y - atrExact p (trExact raw) j| ≤ eps K n / (1 / (p : K)) + eps K defaultRound ∧ 0 ≤ y)

theorem AtrOK.toTrue (p : Nat) (hp : 1 ≤ p) (n : Nat) (raw : List (Candle K)) (j : Nat) (v : Val K)
    (h : AtrOK p n (trS raw) j v) : AtrOKTrue p n raw j v := by
  obtain ⟨⟨h1, h2⟩, h3⟩ := h
  refine ⟨fun hj => h1 (by omega), fun hj => ?_⟩
  obtain ⟨y, hy, hb⟩ := h2 (by omega)
  refine ⟨y, hy, ?_, h3 y hy⟩
  have hd := atrExact_stored_vs_true p hp raw j
  calc |y - atrExact p (trExact raw) j|
      = |(y - atrExact p (trS raw) j) + (atrExact p (trS raw) j - atrExact p (trExact raw) j)| := by ring_nf
    _ ≤ _ := abs_add_le _ _
    _ ≤ _ := add_le_add hb hd

/-- **ATR, whole series, reading by reading** (the form of `C05_FULL`): the row-major run of
`atrTree` returns a list `out` of the raw candles' length whose candle `j` is the raw candle `j`
carrying under `name_TR` the rounded true range (`None` on candle 0) and under `name` a reading
that is `AtrOK` w.r.t. the stored true ranges and `AtrOKTrue` w.r.t. the exact ones. -/
theorem atr_series_readings (p : Nat) (hp : 1 ≤ p) (nm : String) (n : Nat) (hk : IsKey nm)
    (hn : AtrNames nm) (raw : List (Candle K)) (hraw : ∀ c ∈ raw, Plain c) :
    ∃ out : List (Candle K),
      Gen.rowMajor (atrTree nm n (p : Int) (by omega) hn).S raw = .ok out ∧ out.length = raw.length ∧
      ∀ j, j < raw.length →
        (out.getD j default).bare = (raw.getD j default).bare ∧
        readingByCandle (out.getD j default) (nm ++ "_TR") = trStored raw j ∧
        AtrOK p n (trS raw) j (readingByCandle (out.getD j default) nm) ∧
        AtrOKTrue p n raw j (readingByCandle (out.getD j default) nm) := by
  obtain ⟨vs, h1, h2, h3⟩ := atr_series p hp nm n hk hn raw hraw
  refine ⟨_, h2, by rw [deco_length _ _ _ (by rw [trDeco_length, h1]), trDeco_length], fun j hj => ?_⟩
  obtain ⟨e1, e2, e3⟩ := atr_out_readings nm hk hn raw hraw vs h1 j hj
  rw [e2, e3]
  exact ⟨e1, rfl, h3 j hj, AtrOK.toTrue p hp n raw j _ (h3 j hj)⟩

/-! ### through the engine -/

/-- **the engine's `calculate()`** on the raw list returns exactly the candles of `atr_series` -/
theorem atr_engine (p : Nat) (hp : 1 ≤ p) (nm : String) (n : Nat) (hk : IsKey nm) (hn : AtrNames nm)
    (raw : List (Candle K)) (hraw : ∀ c ∈ raw, Plain c) :
    ∃ vs : List (Val K), vs.length = raw.length ∧
      engineCalc (mkTop (.atr (p : Int)) nm n) raw = .ok (deco nm (trDeco (nm ++ "_TR") raw) vs) ∧
      ∀ j, j < raw.length → AtrOK p n (trS raw) j (vs.getD j .none) := by
  obtain ⟨vs, h1, h2, h3⟩ := atr_series p hp nm n hk hn raw hraw
  refine ⟨vs, h1, ?_, h3⟩
  have := ((atrTree nm n (p : Int) (by omega) hn).engine [] raw [] _ rfl (by simp) hraw).2
    (by simpa using h2)
  simpa using this

/-- **the batch run** (build the indicator over the whole stream, `calculate()` once; this is
`C01.runBatch ind {} raw`) returns exactly the candles of `atr_series` -/
theorem atr_batch (p : Nat) (hp : 1 ≤ p) (nm : String) (n : Nat) (hk : IsKey nm) (hn : AtrNames nm)
    (raw : List (Candle K)) (hraw : ∀ c ∈ raw, Plain c) :
    ∃ vs : List (Val K), vs.length = raw.length ∧
      candlesOf (runIndicator (mkTop (.atr (p : Int)) nm n) {} raw [])
        = .ok (deco nm (trDeco (nm ++ "_TR") raw) vs) ∧
      ∀ j, j < raw.length → AtrOK p n (trS raw) j (vs.getD j .none) := by
  obtain ⟨vs, h1, h2, h3⟩ := atr_series p hp nm n hk hn raw hraw
  exact ⟨vs, h1, ((atrTree nm n (p : Int) (by omega) hn).batch_iff (MgrSpec.base K) raw hraw _).2 h2, h3⟩

/-- **whenever the batch run returns, its candles carry exactly those readings** (and it does
return: `atr_batch`) -/
theorem atr_batch_readings (p : Nat) (hp : 1 ≤ p) (nm : String) (n : Nat) (hk : IsKey nm)
    (hn : AtrNames nm) (raw : List (Candle K)) (hraw : ∀ c ∈ raw, Plain c) (out : List (Candle K))
    (hout : candlesOf (runIndicator (mkTop (.atr (p : Int)) nm n) {} raw []) = .ok out) :
    out.length = raw.length ∧
    ∀ j, j < raw.length →
      (out.getD j default).bare = (raw.getD j default).bare ∧
      readingByCandle (out.getD j default) (nm ++ "_TR") = trStored raw j ∧
      AtrOK p n (trS raw) j (readingByCandle (out.getD j default) nm) ∧
      AtrOKTrue p n raw j (readingByCandle (out.getD j default) nm) := by
  obtain ⟨out', h1, h2, h3⟩ := atr_series_readings p hp nm n hk hn raw hraw
  have hr : Gen.rowMajor (atrTree nm n (p : Int) (by omega) hn).S raw = .ok out :=
    ((atrTree nm n (p : Int) (by omega) hn).batch_iff (MgrSpec.base K) raw hraw out).1 hout
  rw [h1] at hr
  cases hr
  exact ⟨h2, h3⟩

/-- the engine's `calculate()`, reading by reading (the shape of `C05.C05_FULL`, with the budget
that is actually true: `+ ε₄` for the rounded TR helper when measured against the exact true ranges) -/
theorem atr_engine_readings (p : Nat) (hp : 1 ≤ p) (nm : String) (n : Nat) (hk : IsKey nm)
    (hn : AtrNames nm) (raw : List (Candle K)) (hraw : ∀ c ∈ raw, Plain c) :
    ∃ out : List (Candle K), engineCalc (mkTop (.atr (p : Int)) nm n) raw = .ok out ∧
      out.length = raw.length ∧
      ∀ j, j < raw.length →
        (out.getD j default).bare = (raw.getD j default).bare ∧
        readingByCandle (out.getD j default) (nm ++ "_TR") = trStored raw j ∧
        AtrOK p n (trS raw) j (readingByCandle (out.getD j default) nm) ∧
        AtrOKTrue p n raw j (readingByCandle (out.getD j default) nm) := by
  obtain ⟨out, h1, h2, h3⟩ := atr_series_readings p hp nm n hk hn raw hraw
  refine ⟨out, ?_, h2, h3⟩
  have := ((atrTree nm n (p : Int) (by omega) hn).engine [] raw [] out rfl (by simp) hraw).2
    (by simpa using h1)
  simpa using this

/-- `atrExact` is the exact series written in `C05.C05_FULL` (inputs shifted by one candle, seed
index `p − 1`, recurrence from `p` on, read at `t − 1`) -/
theorem atrExact_eq_shift (p : Nat) (hp : 1 ≤ p) (x : Nat → K) (t : Nat) :
    atrExact p x (t + 1)
      = recExact (1 / (p : K)) (winMean (fun i => x (i + 1)) p (p - 1)) (fun i => x (i + 1)) p t := by
  have hs : winMean x p p = winMean (fun i => x (i + 1)) p (p - 1) := by
    unfold winMean
    congr 2
    funext k
    congr 1
    omega
  unfold atrExact
  rw [hs]
  induction t with
  | zero =>
    rw [recExact_seed _ _ _ _ _ (by omega)]
    rfl
  | succ t ih =>
    by_cases h : t + 1 < p
    · rw [recExact_seed _ _ _ _ _ (by omega), recExact_seed _ _ _ _ _ h]
    · rw [recExact_step _ _ _ _ _ (by omega) (by omega), recExact_step _ _ _ _ _ (by omega) hp]
      simp only [Nat.add_sub_cancel]
      rw [ih]

/-! ### non-vacuity: the five demo candles of HexProps/C04.lean over ℚ -/

/-- the five raw candles `C04.demoRaw` -/
def atrDemoRaw : List (Candle ℚ) :=
  [Demo.mk 10 12 9 11 100, Demo.mk 11 13 10 12 200, Demo.mk 12 15 11 14 300, Demo.mk 14 16 13 15 0,
   Demo.mk 15 15 15 15 0]

theorem atrDemoRaw_plain : ∀ c ∈ atrDemoRaw, Plain c := by
  intro c hc
  simp only [atrDemoRaw, List.mem_cons, List.not_mem_nil, or_false] at hc
  rcases hc with rfl | rfl | rfl | rfl | rfl <;> exact ⟨rfl, rfl⟩

example : ∃ vs : List (Val ℚ), vs.length = atrDemoRaw.length ∧
    Gen.rowMajor (atrTree "ATR_2" 4 ((2 : Nat) : Int) (by decide) ⟨by decide, by decide⟩).S atrDemoRaw
      = .ok (deco "ATR_2" (trDeco ("ATR_2" ++ "_TR") atrDemoRaw) vs) ∧
    ∀ j, j < atrDemoRaw.length → AtrOK 2 4 (trS atrDemoRaw) j (vs.getD j .none) :=
  atr_series 2 (by norm_num) "ATR_2" 4 (by decide) ⟨by decide, by decide⟩ atrDemoRaw atrDemoRaw_plain

example : ∃ out : List (Candle ℚ),
    candlesOf (runIndicator (mkTop (.atr ((2 : Nat) : Int)) "ATR_2" 4) {} atrDemoRaw []) = .ok out ∧
    out.length = atrDemoRaw.length ∧
    ∀ j, j < atrDemoRaw.length →
      (out.getD j default).bare = (atrDemoRaw.getD j default).bare ∧
      readingByCandle (out.getD j default) ("ATR_2" ++ "_TR") = trStored atrDemoRaw j ∧
      AtrOK 2 4 (trS atrDemoRaw) j (readingByCandle (out.getD j default) "ATR_2") ∧
      AtrOKTrue 2 4 atrDemoRaw j (readingByCandle (out.getD j default) "ATR_2") := by
  obtain ⟨vs, _, h2, _⟩ := atr_batch 2 (by norm_num) "ATR_2" 4 (by decide) ⟨by decide, by decide⟩
    atrDemoRaw atrDemoRaw_plain
  exact ⟨_, h2, atr_batch_readings 2 (by norm_num) "ATR_2" 4 (by decide) ⟨by decide, by decide⟩
    atrDemoRaw atrDemoRaw_plain _ h2⟩

/-- the demo candles are int candles, so their true ranges are ints and are stored unrounded: the
`ATR_2_TR` column is `None, 3, 4, 3, 0` -/
example : (List.range 5).map (trStored atrDemoRaw) = [.none, .int 3, .int 4, .int 3, .int 0] := by rfl

/-- the textbook series on the demo candles (`period = 2`): `None, None, 7/2, 13/4, 13/8` -/
example : (List.range 5).map (atrSeries 2 (trS atrDemoRaw)) = [none, none, some (7/2), some (13/4), some (13/8)] := by
  have h1 : trS atrDemoRaw 1 = 3 := by
    show ((Num.int 3 : Num ℚ).roundBy defaultRound).toF = 3
    simp [Num.roundBy]
  have h2 : trS atrDemoRaw 2 = 4 := by
    show ((Num.int 4 : Num ℚ).roundBy defaultRound).toF = 4
    simp [Num.roundBy]
  have h3 : trS atrDemoRaw 3 = 3 := by
    show ((Num.int 3 : Num ℚ).roundBy defaultRound).toF = 3
    simp [Num.roundBy]
  have h4 : trS atrDemoRaw 4 = 0 := by
    show ((Num.int 0 : Num ℚ).roundBy defaultRound).toF = 0
    simp [Num.roundBy]
  simp [List.range, List.range.loop, atrSeries, atrExact, recExact, winMean, rsum, h1, h2, h3, h4]
  norm_num

end Numeric
end Hex

#print axioms Hex.Numeric.atr_series
#print axioms Hex.Numeric.atr_series_readings
#print axioms Hex.Numeric.atr_engine
#print axioms Hex.Numeric.atr_batch
#print axioms Hex.Numeric.atr_batch_readings

import HexProofs.Numeric.SeriesADX
import HexProofs.Numeric.SeriesInputs
import HexProofs.Writes.StripEngine
/-!
# ADX over candle lists that already hold foreign readings (C06, "position independent")

ADX has NO input parameter: it reads candle fields (high / low / close) and its own helper columns only.  So
there is no late-starting input column to shift by `t0` (as in `SeriesInputs*.lean`); what CAN differ from the
raw case of `SeriesADX.lean` is that the candles already hold readings of other indicators – and the raw route
(`TreeSpec.engine`, row-major spec) needs `Plain` candles.  This file removes that restriction:

* `adxI_treeOK` – the ADX tree (`mkTop (.adx p s) nm n`: seven names, `adxI_names`) neither writes under a name
  foreign to it nor can resolve any of its reads (`Ind.allReads`: its helper names and the dotted fields
  `<nm>_data.pos / .neg / .dx`) to one: `TreeOK N tree` for every `N` disjoint from the seven names (no side
  condition beyond `AdxNames nm` is needed: the heads of the dotted reads are tree names themselves);
* `adxI_rows` – hence (`Writes/StripEngine.calculate_strip`: the engine commutes with dropping the entries under
  `N`) for every candle list `cs` whose keys are covered by such an `N`: `calculate()` returns `out` with
  `out.map (strip N) = adxOut … (cs.map (strip N))` EXACTLY (`adx_engine` on the stripped, raw list), and
  `StripEq (adxI_names nm) cs out` (`Writes/Engine.calculate_stripEq`: nothing but the tree's entries changed);
* `adxI_candleOK_congr` – `AdxCandleOK` (all series of `SeriesADX`) depends on the candle FIELDS of the raw list
  only; `adxI_candleOK_strip` – and on the candle's readings under the tree's names only;
* `adxI_readings`, `c06_adx_inputs : C06AdxStatement`, `c06_adx_inputs_readings` – the final statements (`N` :=
  all keys of `cs`, `adxI_keys`; hypothesis: the seven names are absent from `cs`).
-/
set_option linter.unusedSectionVars false
set_option linter.unusedSimpArgs false
namespace Hex
namespace Numeric

section generic
variable {F : Type}

/-! ### foreign keys: a name list that covers every key of a candle list -/

/-- every key under which some candle of `cs` holds a reading (either dict) -/
def adxI_keys (cs : List (Candle F)) : List String :=
  cs.flatMap fun c => c.inds.map Prod.fst ++ c.subs.map Prod.fst

/-- `N` lists every key under which some candle of `cs` holds a reading -/
def adxI_Covers (N : List String) (cs : List (Candle F)) : Prop :=
  ∀ c ∈ cs, ∀ k, (dlookup k c.inds ≠ none ∨ dlookup k c.subs ≠ none) → k ∈ N

theorem adxI_dlookup_of_mem {α : Type} {k : String} {v : α} {l : List (String × α)} (h : (k, v) ∈ l) :
    dlookup k l ≠ none := by
  induction l with
  | nil => cases h
  | cons p r ih =>
    obtain ⟨k', v'⟩ := p
    unfold dlookup
    by_cases hk : k' = k
    · simp [hk]
    · simp only [hk, if_false]
      rcases List.mem_cons.1 h with h | h
      · cases h; exact absurd rfl hk
      · exact ih h

theorem adxI_mem_of_dlookup {α : Type} {k : String} {l : List (String × α)} (h : dlookup k l ≠ none) :
    k ∈ l.map Prod.fst := by
  induction l with
  | nil => exact absurd rfl h
  | cons p r ih =>
    obtain ⟨k', v'⟩ := p
    unfold dlookup at h
    by_cases hk : k' = k
    · simp [hk]
    · simp only [hk, if_false] at h
      simp [ih h]

theorem adxI_eraseAll_nil {α : Type} (N : List String) (l : List (String × α))
    (h : ∀ k, dlookup k l ≠ none → k ∈ N) : eraseAll N l = [] := by
  rw [eraseAll_eq_filter, List.filter_eq_nil_iff]
  intro p hp
  obtain ⟨k, v⟩ := p
  have : k ∈ N := h k (adxI_dlookup_of_mem hp)
  simp [keepP, this]

/-- once every key is dropped the candle is raw -/
theorem adxI_strip_plain (N : List String) (cs : List (Candle F)) (hc : adxI_Covers N cs) :
    ∀ c ∈ cs.map (strip N), Plain c := by
  intro c hc'
  obtain ⟨c0, hc0, rfl⟩ := List.mem_map.1 hc'
  exact ⟨adxI_eraseAll_nil N _ (fun k hk => hc c0 hc0 k (Or.inl hk)),
    adxI_eraseAll_nil N _ (fun k hk => hc c0 hc0 k (Or.inr hk))⟩

theorem adxI_keys_covers (cs : List (Candle F)) : adxI_Covers (adxI_keys cs) cs := by
  intro c hc k hk
  unfold adxI_keys
  refine List.mem_flatMap.2 ⟨c, hc, ?_⟩
  rcases hk with hk | hk
  · exact List.mem_append_left _ (adxI_mem_of_dlookup hk)
  · exact List.mem_append_right _ (adxI_mem_of_dlookup hk)

theorem adxI_mem_keys {cs : List (Candle F)} {k : String} (hk : k ∈ adxI_keys cs) :
    ∃ c ∈ cs, dlookup k c.inds ≠ none ∨ dlookup k c.subs ≠ none := by
  unfold adxI_keys at hk
  obtain ⟨c, hc, hk⟩ := List.mem_flatMap.1 hk
  refine ⟨c, hc, ?_⟩
  rcases List.mem_append.1 hk with hk | hk
  · obtain ⟨⟨k', v⟩, hp, rfl⟩ := List.mem_map.1 hk
    exact Or.inl (adxI_dlookup_of_mem hp)
  · obtain ⟨⟨k', v⟩, hp, rfl⟩ := List.mem_map.1 hk
    exact Or.inr (adxI_dlookup_of_mem hp)

/-- a name absent from every candle is not among the keys -/
theorem adxI_not_mem_keys {cs : List (Candle F)} {k : String}
    (h : ∀ c ∈ cs, dlookup k c.inds = none ∧ dlookup k c.subs = none) : k ∉ adxI_keys cs := by
  intro hk
  obtain ⟨c, hc, hk⟩ := adxI_mem_keys hk
  rcases hk with hk | hk
  · exact hk (h c hc).1
  · exact hk (h c hc).2

/-! ### the ADX tree: its names and its reads -/

variable [PyF F]

/-- the seven names an ADX tree writes under -/
def adxI_names (nm : String) : List String :=
  [nm, nm ++ "_atr", nm ++ "_atr" ++ "_TR", nm ++ "_data", nm ++ "_pos", nm ++ "_neg", nm ++ "_dx"]

theorem adxI_allNames (p s : Int) (nm : String) (n : Nat) :
    (mkTop (.adx p s : Kind F) nm n).allNames = adxI_names nm := by
  simp [mkTop, children, atrNode, leaf, Ind.allNames, Ind.allNamesL, Ind.allNamesM, adxI_names]

theorem adxI_allReads (p s : Int) (nm : String) (n : Nat) :
    (mkTop (.adx p s : Kind F) nm n).allReads
      = [nm ++ "_atr", nm ++ "_pos", nm ++ "_neg", nm ++ "_dx", nm ++ "_atr", nm ++ "_atr" ++ "_TR",
         nm ++ "_pos", nm ++ "_data.pos", nm ++ "_neg", nm ++ "_data.neg", nm ++ "_dx", nm ++ "_data.dx"] := by
  simp [mkTop, children, atrNode, leaf, Ind.allReads, Ind.allReadsL, Ind.allReadsM, kindReads]

theorem adxI_readOK_key (N : List String) (k : String) (hd : NoDot k) (hk : k ∉ N) : readOK N k = true := by
  unfold readOK
  rw [hd]
  simp [hk]

theorem adxI_readOK_dot (N : List String) (full main fld : String) (hs : splitDot full = [main, fld])
    (hk : main ∉ N) : readOK N full = true := by
  unfold readOK
  rw [hs]
  simp [hk]

/-- **the ADX tree neither writes under a foreign name nor can resolve any of its reads to one**:
all it needs is that none of its seven names is in `N` (its reads are its own helper names and dotted
fields of `<name>_data`) -/
theorem adxI_treeOK (p s : Int) (nm : String) (n : Nat) (hn : AdxNames nm) (N : List String)
    (hN : ∀ k ∈ adxI_names nm, k ∉ N) : TreeOK N (mkTop (.adx p s : Kind F) nm n) := by
  have h := fun k (hk : k ∈ adxI_names nm) => hN k hk
  simp only [adxI_names, List.mem_cons, List.not_mem_nil, or_false, forall_eq_or_imp, forall_eq] at h
  obtain ⟨h0, hA, hT, hD, hP, hG, hX⟩ := h
  refine ⟨fun k hk => hN k (by rwa [adxI_allNames] at hk), ?_⟩
  intro r hr
  rw [adxI_allReads] at hr
  simp only [List.mem_cons, List.not_mem_nil, or_false] at hr
  rcases hr with rfl | rfl | rfl | rfl | rfl | rfl | rfl | rfl | rfl | rfl | rfl | rfl
  · exact adxI_readOK_key N _ hn.kA.noDot hA
  · exact adxI_readOK_key N _ hn.kP.noDot hP
  · exact adxI_readOK_key N _ hn.kG.noDot hG
  · exact adxI_readOK_key N _ hn.kX.noDot hX
  · exact adxI_readOK_key N _ hn.kA.noDot hA
  · exact adxI_readOK_key N _ hn.kT.noDot hT
  · exact adxI_readOK_key N _ hn.kP.noDot hP
  · exact adxI_readOK_dot N _ _ _ hn.dPos hD
  · exact adxI_readOK_key N _ hn.kG.noDot hG
  · exact adxI_readOK_dot N _ _ _ hn.dNeg hD
  · exact adxI_readOK_key N _ hn.kX.noDot hX
  · exact adxI_readOK_dot N _ _ _ hn.dDx hD

end generic

section numeric
variable {K : Type} [Field K] [LinearOrder K] [IsStrictOrderedRing K] [LawfulPyF K]

/-! ### the engine over a candle list that holds foreign readings -/

/-- **ADX through the engine, foreign columns** (exact rows).  `cs` may hold any readings under the names
`N` (`N` covers every key of `cs`), none of them one of the seven names of the tree.  Then `calculate()`
returns; with the foreign entries dropped the result is EXACTLY `adxOut` of the raw candles `cs.map (strip N)`
(the whole-series theorem `adx_engine` of `SeriesADX`); and nothing but entries under the seven names of the
tree was touched (`StripEq`): every foreign reading is still there. -/
theorem adxI_rows (nm : String) (n p sg : Nat) (hp : 1 ≤ p) (hg : 1 ≤ sg) (hn : AdxNames nm)
    (N : List String) (cs : List (Candle K)) (hN : ∀ k ∈ adxI_names nm, k ∉ N) (hcov : adxI_Covers N cs) :
    ∃ out : List (Candle K),
      engineCalc (mkTop (.adx (p : Int) (sg : Int) : Kind K) nm n) cs = .ok out ∧
      out.map (strip N) = adxOut nm n p sg (cs.map (strip N)) ∧
      StripEq (adxI_names nm) cs out ∧
      out.length = cs.length := by
  have hs := calculate_strip N (fuelFor cs + 1) (mkTop (.adx (p : Int) (sg : Int) : Kind K) nm n) cs
    (adxI_treeOK _ _ nm n hn N hN)
  have he := adx_engine nm n p sg hp hg hn (cs.map (strip N)) (adxI_strip_plain N cs hcov)
  have hf : fuelFor (cs.map (strip N)) = fuelFor cs := by simp [fuelFor]
  unfold engineCalc at he ⊢
  rw [hf, hs] at he
  cases hc : calculate (fuelFor cs + 1) (mkTop (.adx (p : Int) (sg : Int) : Kind K) nm n) cs with
  | error e => rw [hc] at he; cases he
  | ok out =>
    rw [hc] at he
    have hm : out.map (strip N) = adxOut nm n p sg (cs.map (strip N)) := Except.ok.inj he
    have hse := calculate_stripEq _ _ _ _ hc
    rw [adxI_allNames] at hse
    refine ⟨out, rfl, hm, hse, ?_⟩
    have := congrArg List.length hm
    rw [List.length_map, adxOut_length, List.length_map] at this
    exact this

/-! ### the series of `SeriesADX` depend on the candle FIELDS only -/

/-- the two lists have the same candle fields, position by position (readings aside) -/
def adxI_SameBare (raw raw' : List (Candle K)) : Prop :=
  ∀ j, (raw.getD j default).bare = (raw'.getD j default).bare

theorem adxI_sameBare_strip (N : List String) (cs : List (Candle K)) : adxI_SameBare (cs.map (strip N)) cs := by
  intro j
  rw [List.getD_eq_getElem?_getD, List.getD_eq_getElem?_getD, List.getElem?_map]
  cases cs[j]? with
  | none => rfl
  | some c => rfl

theorem adxI_getD_map_bare (raw : List (Candle K)) (j : Nat) :
    (raw.map Candle.bare).getD j default = (raw.getD j default).bare := by
  rw [List.getD_eq_getElem?_getD, List.getD_eq_getElem?_getD, List.getElem?_map]
  cases raw[j]? with
  | none => rfl
  | some c => rfl

theorem adxI_sameBare_of_map (raw raw' : List (Candle K)) (h : raw.map Candle.bare = raw'.map Candle.bare) :
    adxI_SameBare raw raw' := by
  intro j
  rw [← adxI_getD_map_bare, ← adxI_getD_map_bare, h]

/-- every series the ADX statement mentions is the same function of two lists with the same candle fields:
`AdxCandleOK` over `raw` and over `raw'` are the same predicate -/
theorem adxI_candleOK_congr (nm : String) (n p sg : Nat) (raw raw' : List (Candle K)) (h : adxI_SameBare raw raw')
    (j : Nat) (c : Candle K) : AdxCandleOK nm n p sg raw j c ↔ AdxCandleOK nm n p sg raw' j c := by
  have hB : ∀ j, (raw.getD j default).bare = (raw'.getD j default).bare := h
  have hH : ∀ j, (raw.getD j default).h = (raw'.getD j default).h := fun j => (congrArg Candle.h (h j) :)
  have hL : ∀ j, (raw.getD j default).l = (raw'.getD j default).l := fun j => (congrArg Candle.l (h j) :)
  have hC : ∀ j, (raw.getD j default).c = (raw'.getD j default).c := fun j => (congrArg Candle.c (h j) :)
  have e1 : trNum raw = trNum raw' := by funext j; simp only [trNum, hH, hL, hC]
  have e2 : trExact raw = trExact raw' := by funext j; simp only [trExact, trAt, fieldAt, hH, hL, hC]
  have e3 : trStored raw = trStored raw' := by funext j; simp only [trStored, e1]
  have e4 : trS raw = trS raw' := by funext j; simp only [trS, e1]
  have e5 : dmPN raw = dmPN raw' := by funext j; simp only [dmPN, hH, hL]
  have e6 : dmNN raw = dmNN raw' := by funext j; simp only [dmNN, hH, hL]
  have e7 : dmPlusAt raw = dmPlusAt raw' := by funext j; simp only [dmPlusAt, e5]
  have e8 : dmMinusAt raw = dmMinusAt raw' := by funext j; simp only [dmMinusAt, e6]
  have e9 : adxPosF p raw = adxPosF p raw' := by simp only [adxPosF, e7]
  have e10 : adxNegF p raw = adxNegF p raw' := by simp only [adxNegF, e8]
  have e11 : adxPlusN p raw = adxPlusN p raw' := by funext j; simp only [adxPlusN, e4, e9]
  have e12 : adxMinusN p raw = adxMinusN p raw' := by funext j; simp only [adxMinusN, e4, e10]
  have e13 : adxDxN p raw = adxDxN p raw' := by funext j; simp only [adxDxN, e11, e12]
  have e14 : adxDxU p raw = adxDxU p raw' := by funext j; simp only [adxDxU, e13]
  have e15 : adxF p sg raw = adxF p sg raw' := by simp only [adxF, e14]
  have e16 : adxScal p sg raw = adxScal p sg raw' := by funext j; simp only [adxScal, e15]
  have e17 : adxOwnU p sg raw = adxOwnU p sg raw' := by funext j; simp only [adxOwnU, e16, e11, e12]
  have e18 : adxOwn n p sg raw = adxOwn n p sg raw' := by funext j; simp only [adxOwn, e17]
  have e19 : adxSPlusE p raw = adxSPlusE p raw' := by simp only [adxSPlusE, e7]
  have e20 : adxSMinusE p raw = adxSMinusE p raw' := by simp only [adxSMinusE, e8]
  have e21 : adxAtrE p raw = adxAtrE p raw' := by funext j; simp only [adxAtrE, e2]
  have e22 : adxDiPlusE p raw = adxDiPlusE p raw' := by funext j; simp only [adxDiPlusE, e21, e19]
  have e23 : adxDiMinusE p raw = adxDiMinusE p raw' := by funext j; simp only [adxDiMinusE, e21, e20]
  have e24 : adxDxE p raw = adxDxE p raw' := by funext j; simp only [adxDxE, e22, e23]
  have e25 : adxE p sg raw = adxE p sg raw' := by simp only [adxE, e24]
  have e26 : adxPlusLine p raw = adxPlusLine p raw' := by funext j; simp only [adxPlusLine, e22]
  have e27 : adxMinusLine p raw = adxMinusLine p raw' := by funext j; simp only [adxMinusLine, e23]
  have e28 : adxLine p sg raw = adxLine p sg raw' := by funext j; simp only [adxLine, e25]
  have e29 : adxDxBudget p raw = adxDxBudget p raw' := by funext j; simp only [adxDxBudget, e21, e22, e23, e24]
  have e30 : AdxCond p raw = AdxCond p raw' := by funext j; simp only [AdxCond, e21, e22, e23]
  have e31 : AtrOKTrue p defaultRound raw = AtrOKTrue p defaultRound raw' := by
    funext j v; simp only [AtrOKTrue, e2]
  simp only [AdxCandleOK, hB, e3, e4, e5, e6, e13, e14, e18, e19, e20, e21, e22, e23, e26, e27, e28, e29, e30, e31]

/-! ### dropping foreign entries does not change what is read under the tree's names -/

theorem adxI_candleOK_strip (nm : String) (n p sg : Nat) (raw : List (Candle K)) (hn : AdxNames nm)
    (N : List String) (hN : ∀ k ∈ adxI_names nm, k ∉ N) (j : Nat) (c : Candle K) :
    AdxCandleOK nm n p sg raw j (strip N c) ↔ AdxCandleOK nm n p sg raw j c := by
  have h := fun k (hk : k ∈ adxI_names nm) => hN k hk
  simp only [adxI_names, List.mem_cons, List.not_mem_nil, or_false, forall_eq_or_imp, forall_eq] at h
  obtain ⟨h0, hA, hT, hD, hP, hG, hX⟩ := h
  have hb : (strip N c).bare = c.bare := rfl
  have r1 := readingByCandle_strip (adxI_readOK_key N _ hn.kT.noDot hT) c
  have r2 := readingByCandle_strip (adxI_readOK_key N _ hn.kA.noDot hA) c
  have r3 := readingByCandle_strip (adxI_readOK_dot N _ _ _ hn.dPos hD) c
  have r4 := readingByCandle_strip (adxI_readOK_dot N _ _ _ hn.dNeg hD) c
  have r5 := readingByCandle_strip (adxI_readOK_dot N _ _ _ hn.dDx hD) c
  have r6 := readingByCandle_strip (adxI_readOK_key N _ hn.kP.noDot hP) c
  have r7 := readingByCandle_strip (adxI_readOK_key N _ hn.kG.noDot hG) c
  have r8 := readingByCandle_strip (adxI_readOK_key N _ hn.kX.noDot hX) c
  have r9 := readingByCandle_strip (adxI_readOK_key N _ hn.kN.noDot h0) c
  have r10 := readingByCandle_strip
    (adxI_readOK_dot N _ _ _ (splitDot_own nm "ADX" hn.kN.noDot (by decide)) h0) c
  have r11 := readingByCandle_strip
    (adxI_readOK_dot N _ _ _ (splitDot_own nm "DM_Plus" hn.kN.noDot (by decide)) h0) c
  have r12 := readingByCandle_strip
    (adxI_readOK_dot N _ _ _ (splitDot_own nm "DM_Neg" hn.kN.noDot (by decide)) h0) c
  simp only [AdxCandleOK, hb, r1, r2, r3, r4, r5, r6, r7, r8, r9, r10, r11, r12]

/-- with every key dropped the candles are the bare ones -/
theorem adxI_strip_bare (N : List String) (cs : List (Candle K)) (hcov : adxI_Covers N cs) :
    cs.map (strip N) = cs.map Candle.bare := by
  apply List.map_congr_left
  intro c hc
  unfold strip Candle.bare
  rw [adxI_eraseAll_nil N _ (fun k hk => hcov c hc k (Or.inl hk)),
    adxI_eraseAll_nil N _ (fun k hk => hcov c hc k (Or.inr hk))]

/-- what `StripEq` says reading by reading: a reading name that cannot resolve to one of the listed names
reads the same on both lists -/
theorem adxI_stripEq_reading (M : List String) (cs out : List (Candle K)) (h : StripEq M cs out)
    (hl : out.length = cs.length) (j : Nat) (hj : j < cs.length) (k : String) (hk : readOK M k = true) :
    readingByCandle (out.getD j default) k = readingByCandle (cs.getD j default) k := by
  have e : (cs.map (strip M)).getD j default = (out.map (strip M)).getD j default := by rw [h]
  rw [List.getD_eq_getElem?_getD, List.getD_eq_getElem?_getD, List.getElem?_map, List.getElem?_map,
    List.getElem?_eq_getElem hj, List.getElem?_eq_getElem (by omega)] at e
  simp only [Option.map_some, Option.getD_some] at e
  rw [List.getD_eq_getElem?_getD, List.getD_eq_getElem?_getD, List.getElem?_eq_getElem hj,
    List.getElem?_eq_getElem (by omega)]
  simp only [Option.getD_some]
  rw [← readingByCandle_strip hk, ← e, readingByCandle_strip hk]

/-- **ADX through the engine, foreign columns, reading by reading**: the rows of `adxI_rows`, and every
candle of the result satisfies `AdxCandleOK` – the predicate of the raw theorem `adx_engine_readings` –
w.r.t. the candle fields of `cs` itself. -/
theorem adxI_readings (nm : String) (n p sg : Nat) (hp : 1 ≤ p) (hg : 1 ≤ sg) (hn : AdxNames nm)
    (N : List String) (cs : List (Candle K)) (hN : ∀ k ∈ adxI_names nm, k ∉ N) (hcov : adxI_Covers N cs) :
    ∃ out : List (Candle K),
      engineCalc (mkTop (.adx (p : Int) (sg : Int) : Kind K) nm n) cs = .ok out ∧
      out.length = cs.length ∧
      out.map (strip N) = adxOut nm n p sg (cs.map Candle.bare) ∧
      StripEq (adxI_names nm) cs out ∧
      ∀ j, j < cs.length → AdxCandleOK nm n p sg cs j (out.getD j default) := by
  obtain ⟨out, hrun, hm, hse, hl⟩ := adxI_rows nm n p sg hp hg hn N cs hN hcov
  refine ⟨out, hrun, hl, by rw [hm, adxI_strip_bare N cs hcov], hse, ?_⟩
  intro j hj
  have hok := adxOut_ok nm n p sg (cs.map (strip N)) hp hg hn (adxI_strip_plain N cs hcov) j
    (by rw [List.length_map]; exact hj)
  rw [← hm] at hok
  have e : (out.map (strip N)).getD j default = strip N (out.getD j default) := by
    rw [List.getD_eq_getElem?_getD, List.getD_eq_getElem?_getD, List.getElem?_map,
      List.getElem?_eq_getElem (by omega)]
    rfl
  rw [e, adxI_candleOK_strip nm n p sg _ hn N hN,
    adxI_candleOK_congr nm n p sg _ cs (adxI_sameBare_strip N cs)] at hok
  exact hok

/-! ### C06, ADX: the statement -/

/-- **ADX over EVERY candle list** (C06, "position independent": ADX has no input parameter – it reads
candle fields only –, so there is nothing to shift; what may differ from the raw case is that the candles
already hold readings of other indicators).  `cs` may hold any readings under any names; only the seven
names of the ADX tree are absent.  Then the engine `calculate()` returns a list `out` of the same length with

* foreign entries aside, `out` is EXACTLY `adxOut` of the bare candles (the explicit whole-series result of
  `SeriesADX.adx_engine`);
* nothing but entries under the seven names was touched (`StripEq`), so every reading name that cannot
  resolve to one of the seven names reads on `out` what it read on `cs`;
* candle `j` satisfies `AdxCandleOK … cs j` – the SAME predicate (textbook series of the candle fields of
  `cs`, warm-ups, exact ranges, rounding budgets) as over raw candles (`adx_engine_readings`). -/
def C06AdxStatement : Prop :=
  ∀ (K : Type) [Field K] [LinearOrder K] [IsStrictOrderedRing K] [LawfulPyF K]
    (p sg : Nat) (nm : String) (n : Nat) (cs : List (Candle K)),
    1 ≤ p → 1 ≤ sg → AdxNames nm →
    (∀ c ∈ cs, ∀ k ∈ adxI_names nm, dlookup k c.inds = none ∧ dlookup k c.subs = none) →
    ∃ out : List (Candle K),
      engineCalc (mkTop (.adx (p : Int) (sg : Int) : Kind K) nm n) cs = .ok out ∧
      out.length = cs.length ∧
      out.map (strip (adxI_keys cs)) = adxOut nm n p sg (cs.map Candle.bare) ∧
      StripEq (adxI_names nm) cs out ∧
      (∀ j, j < cs.length → ∀ k, readOK (adxI_names nm) k = true →
        readingByCandle (out.getD j default) k = readingByCandle (cs.getD j default) k) ∧
      ∀ j, j < cs.length → AdxCandleOK nm n p sg cs j (out.getD j default)

theorem c06_adx_inputs : C06AdxStatement := by
  intro K _ _ _ _ p sg nm n cs hp hg hn habs
  obtain ⟨out, hrun, hl, hm, hse, hall⟩ := adxI_readings nm n p sg hp hg hn (adxI_keys cs) cs
    (fun k hk => adxI_not_mem_keys (fun c hc => habs c hc k hk)) (adxI_keys_covers cs)
  exact ⟨out, hrun, hl, hm, hse, fun j hj k hk => adxI_stripEq_reading _ cs out hse hl j hj k hk, hall⟩

/-- the per-candle corollary alone -/
theorem c06_adx_inputs_readings (p sg : Nat) (nm : String) (n : Nat) (cs : List (Candle K))
    (hp : 1 ≤ p) (hg : 1 ≤ sg) (hn : AdxNames nm)
    (habs : ∀ c ∈ cs, ∀ k ∈ adxI_names nm, dlookup k c.inds = none ∧ dlookup k c.subs = none) :
    ∃ out : List (Candle K),
      engineCalc (mkTop (.adx (p : Int) (sg : Int) : Kind K) nm n) cs = .ok out ∧
      out.length = cs.length ∧
      ∀ j, j < cs.length → AdxCandleOK nm n p sg cs j (out.getD j default) := by
  obtain ⟨out, hrun, hl, _, _, _, hall⟩ := c06_adx_inputs K p sg nm n cs hp hg hn habs
  exact ⟨out, hrun, hl, hall⟩

/-! #### non-vacuity: `demoForeign` (five candles holding `"EMA_2"`, a dict-valued `"MACD"` and a helper entry
`"X_data"`) over ℚ, `ADX(1, 1)` – the smallest legal periods -/

theorem adxI_names_demo : AdxNames "ADX_1_1" :=
  ⟨by decide, by decide, by decide, by decide, by decide, by decide, by decide, by decide, by decide, by decide,
    by decide, by decide, by decide, by decide, by decide, by decide, by decide, by decide, by decide, by decide,
    by decide, by decide, by decide, by decide, by decide, by decide, by decide, by decide⟩

theorem adxI_demo_abs :
    ∀ c ∈ demoForeign, ∀ k ∈ adxI_names "ADX_1_1", dlookup k c.inds = none ∧ dlookup k c.subs = none := by
  intro c hc k hk
  simp only [adxI_names, List.mem_cons, List.not_mem_nil, or_false] at hk
  rcases hk with rfl | rfl | rfl | rfl | rfl | rfl | rfl <;>
    exact demoForeign_abs _ (by decide) (by decide) (by decide) c hc

example : ∃ out : List (Candle ℚ),
    engineCalc (mkTop (.adx ((1 : Nat) : Int) ((1 : Nat) : Int) : Kind ℚ) "ADX_1_1" 4) demoForeign = .ok out ∧
    out.length = demoForeign.length ∧
    out.map (strip (adxI_keys demoForeign)) = adxOut "ADX_1_1" 4 1 1 (demoForeign.map Candle.bare) ∧
    StripEq (adxI_names "ADX_1_1") demoForeign out ∧
    (∀ j, j < demoForeign.length → ∀ k, readOK (adxI_names "ADX_1_1") k = true →
      readingByCandle (out.getD j default) k = readingByCandle (demoForeign.getD j default) k) ∧
    ∀ j, j < demoForeign.length → AdxCandleOK "ADX_1_1" 4 1 1 demoForeign j (out.getD j default) :=
  c06_adx_inputs ℚ 1 1 "ADX_1_1" 4 demoForeign (by norm_num) (by norm_num) adxI_names_demo adxI_demo_abs

/-- … in particular the foreign readings are still there after the run: `"EMA_2"` on candle 3, the dotted
field `"MACD.MACD"` on candle 4, the helper entry `"X_data"` on candle 2 -/
example : ∃ out : List (Candle ℚ),
    engineCalc (mkTop (.adx ((1 : Nat) : Int) ((1 : Nat) : Int) : Kind ℚ) "ADX_1_1" 4) demoForeign = .ok out ∧
    readingByCandle (out.getD 3 default) "EMA_2" = .flt 14 ∧
    readingByCandle (out.getD 4 default) "MACD.MACD" = .flt 3 ∧
    readingByCandle (out.getD 2 default) "X_data" = .int 7 ∧
    readingByCandle (out.getD 0 default) "ADX_1_1" = adxNone3 := by
  obtain ⟨out, hrun, _, _, _, hfor, hall⟩ :=
    c06_adx_inputs ℚ 1 1 "ADX_1_1" 4 demoForeign (by norm_num) (by norm_num) adxI_names_demo adxI_demo_abs
  refine ⟨out, hrun, ?_, ?_, ?_, ?_⟩
  · rw [hfor 3 (by decide) "EMA_2" (by decide)]; rfl
  · rw [hfor 4 (by decide) "MACD.MACD" (by decide)]; rfl
  · rw [hfor 2 (by decide) "X_data" (by decide)]; rfl
  · exact (hall 0 (by decide)).2.2.2.2.2.2.2.2.2.2.2.2.1 (by norm_num)

/-- **`ADX(2, 2)` over `demoForeign`: the values of the raw run** (`SeriesADX.adxDemo_own`; the candle fields of
`demoForeign` are those of `atrDemoRaw`), next to the untouched foreign readings.  Replay on the pinned library
(the five candles with `EMA_2`, `MACD`, `X_data` entries stored beforehand, then
`ADX(candles=cs, period=2, period_signal=2).calculate()`): candle 2 → `{ADX: None, DM_Plus: 47.62, DM_Neg: 0.0}`,
candles 3, 4 → `{ADX: 100.0, DM_Plus: 41.0277, DM_Neg: 0.0}`, and `EMA_2`, `MACD`, `X_data` unchanged. -/
example : ∃ out : List (Candle ℚ),
    engineCalc (mkTop (.adx ((2 : Nat) : Int) ((2 : Nat) : Int) : Kind ℚ) "ADX_2_2" 4) demoForeign = .ok out ∧
    readingByCandle (out.getD 1 default) "ADX_2_2" = adxNone3 ∧
    readingByCandle (out.getD 2 default) "ADX_2_2"
      = sdict [("ADX", .none), ("DM_Plus", sc (.flt (4762 / 100))), ("DM_Neg", sc (.flt 0))] ∧
    readingByCandle (out.getD 3 default) "ADX_2_2"
      = sdict [("ADX", sc (.flt 100)), ("DM_Plus", sc (.flt (410277 / 10000))), ("DM_Neg", sc (.flt 0))] ∧
    readingByCandle (out.getD 3 default) "EMA_2" = .flt 14 ∧
    readingByCandle (out.getD 3 default) "MACD.MACD" = .flt 2 := by
  have habs : ∀ c ∈ demoForeign, ∀ k ∈ adxI_names "ADX_2_2",
      dlookup k c.inds = none ∧ dlookup k c.subs = none := by
    intro c hc k hk
    simp only [adxI_names, List.mem_cons, List.not_mem_nil, or_false] at hk
    rcases hk with rfl | rfl | rfl | rfl | rfl | rfl | rfl <;>
      exact demoForeign_abs _ (by decide) (by decide) (by decide) c hc
  obtain ⟨out, hrun, _, _, _, hfor, hall⟩ :=
    c06_adx_inputs ℚ 2 2 "ADX_2_2" 4 demoForeign (by norm_num) (by norm_num) adxNames_demo habs
  have hsame : adxI_SameBare demoForeign atrDemoRaw := adxI_sameBare_of_map _ _ rfl
  have own : ∀ j, j < demoForeign.length →
      readingByCandle (out.getD j default) "ADX_2_2" = adxOwn 4 2 2 atrDemoRaw j := fun j hj =>
    ((adxI_candleOK_congr "ADX_2_2" 4 2 2 demoForeign atrDemoRaw hsame j _).1 (hall j hj)).2.2.2.2.2.2.2.2.2.2.2.1
  obtain ⟨o1, o2, o3, _⟩ := adxDemo_own
  refine ⟨out, hrun, ?_, ?_, ?_, ?_, ?_⟩
  · rw [own 1 (by decide)]; exact o1
  · rw [own 2 (by decide)]; exact o2
  · rw [own 3 (by decide)]; exact o3
  · rw [hfor 3 (by decide) "EMA_2" (by decide)]; rfl
  · rw [hfor 3 (by decide) "MACD.MACD" (by decide)]; rfl

end numeric

/-- the toy carrier: `ADX(1, 1)` over four candles that already hold an `"EMA_2"` column and a dict-valued
`"MACD"` returns; the own dict's `ADX` field is missing on candle 0 only (warm-up `p + s − 1 = 1`), and the
foreign column is untouched (`decide`) -/
example : (engineCalc (mkTop (.adx 1 1) "ADX_1_1" 4)
    ([{ o := .int 10, h := .int 12, l := .int 9, c := .int 11, v := .int 100,
        inds := [("MACD", .dict [("MACD", .none)])] },
      { o := .int 11, h := .int 13, l := .int 10, c := .int 12, v := .int 200, inds := [("EMA_2", .none)] },
      { o := .int 12, h := .int 15, l := .int 11, c := .int 14, v := .int 300, inds := [("EMA_2", .int 12)],
        subs := [("X_data", .int 7)] },
      { o := .int 14, h := .int 16, l := .int 13, c := .int 15, v := .int 0, inds := [("EMA_2", .int 14)] }]
      : List (Candle Int))).toOption.map
      (fun l => l.map fun c => ((readingByCandle c "ADX_1_1.ADX").isNone, (readingByCandle c "EMA_2").isNone))
    = some [(true, true), (false, true), (false, false), (false, false)] := by
  decide +kernel

end Numeric
end Hex

#print axioms Hex.Numeric.adxI_treeOK
#print axioms Hex.Numeric.adxI_rows
#print axioms Hex.Numeric.adxI_candleOK_congr
#print axioms Hex.Numeric.adxI_readings
#print axioms Hex.Numeric.c06_adx_inputs
#print axioms Hex.Numeric.c06_adx_inputs_readings

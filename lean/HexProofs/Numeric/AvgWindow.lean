import HexProofs.Numeric.Window
import HexProofs.Numeric.Averages
/-!
# Window formulas: SMA/EMA/ATR seed, RMA seed, WMA, VWMA; weighted means stay within their inputs
-/
set_option linter.unusedSectionVars false
set_option linter.unusedSimpArgs false
namespace Hex
variable {K : Type} [Field K] [LinearOrder K] [IsStrictOrderedRing K] [LawfulPyF K]
namespace Numeric

/-- plain sum of a function over `0..p-1` (oldest/newest first is the caller's choice) -/
def rsum (p : Nat) (f : Nat → K) : K := ((List.range p).map f).sum

theorem rsum_succ (p : Nat) (f : Nat → K) : rsum (p + 1) f = rsum p f + f p := by
  simp [rsum, List.range_succ]

theorem rsum_nonneg (p : Nat) (f : Nat → K) (h : ∀ k, k < p → 0 ≤ f k) : 0 ≤ rsum p f := by
  induction p with
  | zero => simp [rsum]
  | succ n ih =>
    rw [rsum_succ]
    have := ih (fun k hk => h k (by omega))
    have := h n (by omega)
    linarith

theorem rsum_le (p : Nat) (f g : Nat → K) (h : ∀ k, k < p → f k ≤ g k) : rsum p f ≤ rsum p g := by
  induction p with
  | zero => simp [rsum]
  | succ n ih =>
    rw [rsum_succ, rsum_succ]
    have := ih (fun k hk => h k (by omega))
    have := h n (by omega)
    linarith

theorem rsum_mul_left (p : Nat) (c : K) (f : Nat → K) : rsum p (fun k => c * f k) = c * rsum p f := by
  induction p with
  | zero => simp [rsum]
  | succ n ih => rw [rsum_succ, rsum_succ, ih]; ring

theorem rsum_const_one (p : Nat) : rsum p (fun _ => (1 : K)) = p := by
  induction p with
  | zero => simp [rsum]
  | succ n ih => rw [rsum_succ, ih]; push_cast; ring

/-- **a weighted mean with non-negative weights lies between any bounds of its inputs** -/
theorem wmean_between (p : Nat) (w r : Nat → K) (lo hi : K)
    (hw : ∀ k, k < p → 0 ≤ w k) (hW : 0 < rsum p w)
    (hr : ∀ k, k < p → lo ≤ r k ∧ r k ≤ hi) :
    lo ≤ rsum p (fun k => w k * r k) / rsum p w ∧ rsum p (fun k => w k * r k) / rsum p w ≤ hi := by
  constructor
  · rw [le_div_iff₀ hW]
    have : rsum p (fun k => lo * w k) ≤ rsum p (fun k => w k * r k) :=
      rsum_le p _ _ (fun k hk => by
        have := mul_le_mul_of_nonneg_left (hr k hk).1 (hw k hk); linarith)
    rwa [rsum_mul_left] at this
  · rw [div_le_iff₀ hW]
    have : rsum p (fun k => w k * r k) ≤ rsum p (fun k => hi * w k) :=
      rsum_le p _ _ (fun k hk => by
        have := mul_le_mul_of_nonneg_left (hr k hk).2 (hw k hk); linarith)
    rwa [rsum_mul_left] at this

/-- the plain mean lies between any bounds of its inputs -/
theorem mean_between (p : Nat) (r : Nat → K) (lo hi : K) (hp : 1 ≤ p)
    (hr : ∀ k, k < p → lo ≤ r k ∧ r k ≤ hi) :
    lo ≤ rsum p r / p ∧ rsum p r / p ≤ hi := by
  have h := wmean_between p (fun _ => (1 : K)) r lo hi (fun _ _ => zero_le_one)
    (by rw [rsum_const_one]; exact_mod_cast hp) hr
  simpa [rsum_const_one] using h

/-! ## seeds over the window -/

theorem sma_seed_window (x : Ctx K) (p : Nat) (input : String) (r : Nat → Num K)
    (hprev : x.prevReading x.name = .ok .none)
    (hrp : x.readingPeriod p input = true)
    (hp1 : 1 ≤ p) (hpi : (p : Int) ≤ x.i + 1) (hi0 : 1 ≤ x.i)
    (h : ∀ j, j < p → x.reading input (some (x.i + 1 - p + j)) = .ok (.num (r j))) :
    Calc.sma x p input = .ok (.flt (rsum p (fun j => (r j).toF) / p)) := by
  have hs := Ctx.candlesSum_window x p input r hp1 hpi hi0 h
  have hp : ((p : Int) : K) ≠ 0 := by
    have : (p : K) ≠ 0 := by exact_mod_cast (by omega : p ≠ 0)
    simpa using this
  rw [sma_seed x p input _ hprev hrp hs hp]
  simp [rsum, List.map_map, Function.comp_def]

theorem ema_seed_window (x : Ctx K) (p : Nat) (input : String) (s : Num K) (r : Nat → Num K)
    (hprev : x.prevReading x.name = .ok .none)
    (hrp : x.readingPeriod p input = true)
    (hp1 : 1 ≤ p) (hpi : (p : Int) ≤ x.i + 1) (hi0 : 1 ≤ x.i)
    (h : ∀ j, j < p → x.reading input (some (x.i + 1 - p + j)) = .ok (.num (r j))) :
    Calc.ema x p input s = .ok (.flt (rsum p (fun j => (r j).toF) / p)) := by
  have hs := Ctx.candlesSum_window x p input r hp1 hpi hi0 h
  have hp : ((p : Int) : K) ≠ 0 := by
    have : (p : K) ≠ 0 := by exact_mod_cast (by omega : p ≠ 0)
    simpa using this
  rw [ema_seed x p input s _ hprev hrp hs hp]
  simp [rsum, List.map_map, Function.comp_def]

theorem atr_seed_window (x : Ctx K) (p : Nat) (trName : String) (r : Nat → Num K)
    (hprev : x.prevReading x.name = .ok .none)
    (hrp : x.readingPeriod p trName = true)
    (hp1 : 1 ≤ p) (hpi : (p : Int) ≤ x.i + 1) (hi0 : 1 ≤ x.i)
    (h : ∀ j, j < p → x.reading trName (some (x.i + 1 - p + j)) = .ok (.num (r j))) :
    Calc.atr x p trName = .ok (.flt (rsum p (fun j => (r j).toF) / p)) := by
  have hs := Ctx.candlesSum_window x p trName r hp1 hpi hi0 h
  have hp : ((p : Int) : K) ≠ 0 := by
    have : (p : K) ≠ 0 := by exact_mod_cast (by omega : p ≠ 0)
    simpa using this
  rw [atr_seed x p trName _ hprev hrp hs hp]
  simp [rsum, List.map_map, Function.comp_def]

/-! ## RMA seed: decay-weighted mean of the window, newest first -/

theorem rsum_pow_pos (p : Nat) (b : K) (hb : 0 ≤ b) (hp : 1 ≤ p) : 0 < rsum p (fun k => b ^ k) := by
  obtain ⟨n, rfl⟩ : ∃ n, p = n + 1 := ⟨p - 1, by omega⟩
  clear hp
  induction n with
  | zero => simp [rsum]
  | succ m ih =>
    rw [rsum_succ]
    have : 0 ≤ b ^ (m + 1) := pow_nonneg hb _
    linarith

/-- the `for py, i in enumerate(range(index, index - period, -1))` loop -/
theorem mapM_down (x : Ctx K) (p : Nat) (input : String) (r : Nat → Num K) (g : Nat → Num K → Num K)
    (h : ∀ k, k < p → x.reading input (some (x.i - k)) = .ok (.num (r k))) :
    ((pyRangeDown x.i (x.i - p)).zipIdx.mapM fun (q : Int × Nat) => do
        let v ← x.num input (some q.1)
        return g q.2 v)
      = .ok ((List.range p).map fun k => g k (r k)) := by
  rw [pyRangeDown_eq, zipIdx_map_range]
  rw [mapM_ok _ _ (fun (q : Int × Nat) => g q.2 (r q.2))]
  · rw [List.map_map]; rfl
  · intro q hq
    obtain ⟨k, hk, rfl⟩ := List.mem_map.1 hq
    simp [Ctx.num_of (h k (List.mem_range.1 hk))]

theorem rma_seed_window (x : Ctx K) (p : Nat) (input : String) (r : Nat → Num K)
    (hprev : x.prevReading x.name = .ok .none)
    (hrp : x.readingPeriod p input = true) (hp1 : 1 ≤ p)
    (h : ∀ k, k < p → x.reading input (some (x.i - k)) = .ok (.num (r k))) :
    Calc.rma x p input = .ok (.flt (rsum p (fun k => (1 - 1 / (p : K)) ^ k * (r k).toF)
                                    / rsum p (fun k => (1 - 1 / (p : K)) ^ k))) := by
  have hpK : (p : K) ≠ 0 := by exact_mod_cast (by omega : p ≠ 0)
  have hd : (Num.int (p : Int) : Num K).toF ≠ 0 := by simpa using hpK
  have hb : (0 : K) ≤ 1 - 1 / (p : K) := by
    have : (1 : K) ≤ p := by exact_mod_cast hp1
    have : 1 / (p : K) ≤ 1 := by rw [div_le_one (by linarith)]; exact this
    linarith
  have hW := rsum_pow_pos p (1 - 1 / (p : K)) hb hp1
  have hm := mapM_down x p input r
    (fun k v => ((Num.int 1).sub (Num.flt (1 / (p : K)))).powF (k : Int) |>.mul v) h
  have hden : (pySum ((List.range p).map fun (py : Nat) =>
      ((Num.int 1 : Num K).sub (Num.flt (1 / (p : K)))).powF (py : Int))).toF ≠ 0 := by
    simp only [toF_pySum, List.map_map, Function.comp_def, Num.toF_powF, Num.toF_sub, Num.toF_int,
      Num.toF_flt, Int.cast_one]
    exact hW.ne'
  unfold Calc.rma
  simp only [Num.truediv_ok _ _ hd, pym_bind_ok, Ctx.prevExists_of hprev, Val.isNone_none, Bool.not_true,
    Bool.false_eq_true, if_false, hrp, if_true, Num.float, Num.toF_flt, Num.toF_fl, Num.toF_int, Int.cast_one,
    Int.cast_natCast, Int.toNat_natCast]
  erw [hm]
  simp only [pym_bind_ok]
  rw [Num.truediv_ok _ _ hden]
  simp [rsum, List.map_map, Function.comp_def]

/-! ## WMA -/

theorem wma_weight_sum (p : Nat) : rsum p (fun k => (p : K) - k) = (p : K) * (p + 1) / 2 := by
  have key : ∀ n : Nat, rsum n (fun k => (p : K) - k) = n * (p : K) - (n : K) * (n - 1) / 2 := by
    intro n
    induction n with
    | zero => simp [rsum]
    | succ m ih => rw [rsum_succ, ih]; push_cast; ring
  rw [key]; ring

/-- WMA = Σ (period − k)·x[t−k] / (period(period+1)/2), newest (k = 0) weighted `period` -/
theorem wma_def (x : Ctx K) (p : Nat) (input : String) (pv : Val K) (r : Nat → Num K)
    (hprev : x.prevReading x.name = .ok pv)
    (hg : pv.isNone = false ∨ x.readingPeriod p input = true) (hp1 : 1 ≤ p)
    (h : ∀ k, k < p → x.reading input (some (x.i - k)) = .ok (.num (r k))) :
    Calc.wma x p input = .ok (.flt (rsum p (fun k => ((p : K) - k) * (r k).toF)
                                    / rsum p (fun k => (p : K) - k))) := by
  have hpK : (0 : K) < p := by exact_mod_cast (by omega : 0 < p)
  have h2 : (Num.int 2 : Num K).toF ≠ 0 := by simp
  have hm := mapM_down x p input r (fun k v => v.mul (Num.int ((p : Int) - (k : Int)))) h
  have hw : (Num.flt (((Num.int ((p : Int) * ((p : Int) + 1)) : Num K).toF) / (Num.int 2 : Num K).toF)).toF ≠ 0 := by
    simp only [Num.toF_flt, Num.toF_int]
    push_cast
    positivity
  have hgb : (!pv.isNone || x.readingPeriod p input) = true := by
    rcases hg with h | h <;> simp [h]
  unfold Calc.wma
  simp only [Ctx.prevExists_of hprev, pym_bind_ok, hgb, if_true]
  erw [hm]
  simp only [pym_bind_ok, Num.truediv_ok _ _ h2]
  rw [Num.truediv_ok _ _ hw]
  simp only [pym_pure, wma_weight_sum]
  simp [rsum, List.map_map, Function.comp_def, mul_comm]

/-! ## VWMA -/

/-- the `for i in range(index - (period-1), index + 1)` loop over two fields -/
theorem mapM_up2 (x : Ctx K) (p : Nat) (n1 n2 : String) (r1 r2 : Nat → Num K) (g : Num K → Num K → Num K)
    (h1 : ∀ j, j < p → x.reading n1 (some (x.i + 1 - p + j)) = .ok (.num (r1 j)))
    (h2 : ∀ j, j < p → x.reading n2 (some (x.i + 1 - p + j)) = .ok (.num (r2 j))) :
    ((pyRange (x.i - ((p : Int) - 1)) (x.i + 1)).mapM fun i => do
        let a ← x.num n1 (some i)
        let b ← x.num n2 (some i)
        return g a b)
      = .ok ((List.range p).map fun j => g (r1 j) (r2 j)) := by
  have e : x.i + 1 = (x.i - ((p : Int) - 1)) + (p : Int) := by omega
  rw [e, pyRange_eq]
  rw [mapM_ok _ _ (fun (i : Int) => g (r1 (i - (x.i - ((p : Int) - 1))).toNat) (r2 (i - (x.i - ((p : Int) - 1))).toNat))]
  · rw [List.map_map]
    congr 1
    apply List.map_congr_left
    intro j _
    simp
  · intro i hi
    obtain ⟨j, hj, rfl⟩ := List.mem_map.1 hi
    have hj' := List.mem_range.1 hj
    have e1 : x.i - ((p : Int) - 1) + (j : Int) = x.i + 1 - (p : Int) + (j : Int) := by omega
    have e2 : (x.i - ((p : Int) - 1) + (j : Int) - (x.i - ((p : Int) - 1))).toNat = j := by omega
    rw [e2, e1]
    simp [Ctx.num_of (h1 j hj'), Ctx.num_of (h2 j hj')]

/-- VWMA = Σ close·volume / Σ volume over the window; with a zero-volume window it falls back
to the plain mean of the closes (the division is guarded) -/
theorem vwma_def (x : Ctx K) (p : Nat) (pv : Val K) (c v : Nat → Num K)
    (hprev : x.prevReading x.name = .ok pv)
    (hg : pv.isNone = false ∨ x.readingPeriod p "close" = true)
    (hp1 : 1 ≤ p) (hpi : (p : Int) ≤ x.i + 1) (hi0 : 1 ≤ x.i)
    (hc : ∀ j, j < p → x.reading "close" (some (x.i + 1 - p + j)) = .ok (.num (c j)))
    (hv : ∀ j, j < p → x.reading "volume" (some (x.i + 1 - p + j)) = .ok (.num (v j))) :
    Calc.vwma x p = .ok (.flt (
      if rsum p (fun j => (v j).toF) = 0 then rsum p (fun j => (c j).toF) / p
      else rsum p (fun j => (c j).toF * (v j).toF) / rsum p (fun j => (v j).toF))) := by
  have hpK : ((p : Int) : K) ≠ 0 := by
    have : (p : K) ≠ 0 := by exact_mod_cast (by omega : p ≠ 0)
    simpa using this
  have hd : (Num.int (p : Int) : Num K).toF ≠ 0 := by simpa using hpK
  have hm := mapM_up2 x p "close" "volume" c v Num.mul hc hv
  have hsv := Ctx.candlesSum_window x p "volume" v hp1 hpi hi0 hv
  have hsc := Ctx.candlesSum_window x p "close" c hp1 hpi hi0 hc
  have hgb : (!pv.isNone || x.readingPeriod p "close") = true := by
    rcases hg with h | h <;> simp [h]
  have hvs : (pySum ((List.range p).map v)).toF = rsum p (fun j => (v j).toF) := by
    simp [rsum, List.map_map, Function.comp_def]
  unfold Calc.vwma
  simp only [Ctx.prevExists_of hprev, pym_bind_ok, hgb, if_true]
  erw [hm]
  simp only [pym_bind_ok, hsv, hsc]
  by_cases hz : rsum p (fun j => (v j).toF) = 0
  · have : (Val.num (pySum ((List.range p).map v)) : Val K).truthy = false := by
      simp [Val.truthy, Scalar.truthy, (Num.isZero_iff _).2 (hvs.trans hz)]
    simp only [this, Bool.not_false, if_true, Val.asNum_num, pym_bind_ok, Num.truediv_ok _ _ hd, hz]
    simp [rsum, List.map_map, Function.comp_def]
  · have : (Val.num (pySum ((List.range p).map v)) : Val K).truthy = true := by
      simp [Val.truthy, Scalar.truthy, Num.isZero_false _ (by rw [hvs]; exact hz)]
    have hne : (pySum ((List.range p).map v)).toF ≠ 0 := by rw [hvs]; exact hz
    simp only [this, Bool.not_true, Bool.false_eq_true, if_false, Val.asNum_num, pym_bind_ok,
      Num.truediv_ok _ _ hne, hz]
    simp [rsum, List.map_map, Function.comp_def]

end Numeric
end Hex

import HexProofs.Numeric.CtxLemmas
/-!
# `highestbar` / `lowestbar`: the returned offset lies inside the window (every float carrier)
-/
set_option linter.unusedSectionVars false
set_option linter.unusedSimpArgs false
namespace Hex
namespace Numeric
variable {F : Type} [PyF F]

/-- the loop body of `extremeBar` -/
def barStep (cs : List (Candle F)) (ind : String) (better : Num F → Num F → Bool)
    (acc : Option (Num F) × Int) (p : Int × Nat) : PyM (Option (Num F) × Int) := do
  let cur := readingByIndex cs ind p.1
  if !cur.isNumber then return acc
  let c ← cur.asNum
  match acc.1 with
  | none => return (some c, (p.2 : Int))
  | some best => if better best c then return (some c, (p.2 : Int)) else return acc

theorem barStep_spec (cs : List (Candle F)) (ind : String) (better : Num F → Num F → Bool)
    (acc r : Option (Num F) × Int) (p : Int × Nat) (h : barStep cs ind better acc p = .ok r) :
    r.2 = acc.2 ∨ r.2 = (p.2 : Int) := by
  unfold barStep at h
  by_cases hn : (readingByIndex cs ind p.1).isNumber = true
  · simp only [hn, Bool.not_true, Bool.false_eq_true, if_false] at h
    cases hc : (readingByIndex cs ind p.1).asNum with
    | error e => simp [hc] at h
    | ok c =>
      simp only [hc, pym_bind_ok] at h
      cases ha : acc.1 with
      | none => simp [ha] at h; right; rw [← h]
      | some best =>
        simp only [ha] at h
        split_ifs at h
        · simp at h; right; rw [← h]
        · simp at h; left; rw [← h]
  · simp only [hn, Bool.not_false, if_true, pym_pure, Except.ok.injEq] at h
    left; rw [← h]

theorem foldlM_bar (cs : List (Candle F)) (ind : String) (better : Num F → Num F → Bool)
    (l : List (Int × Nat)) (acc r : Option (Num F) × Int)
    (h : l.foldlM (barStep cs ind better) acc = .ok r) :
    r.2 = acc.2 ∨ ∃ p ∈ l, r.2 = (p.2 : Int) := by
  induction l generalizing acc with
  | nil => simp [List.foldlM] at h; left; rw [← h]
  | cons p ps ih =>
    rw [List.foldlM_cons] at h
    cases hs : barStep cs ind better acc p with
    | error e => simp [hs] at h
    | ok a =>
      simp only [hs, pym_bind_ok] at h
      rcases ih a h with h1 | ⟨q, hq, h1⟩
      · rcases barStep_spec cs ind better acc a p hs with h2 | h2
        · left; rw [h1, h2]
        · right; exact ⟨p, by simp, by rw [h1, h2]⟩
      · right; exact ⟨q, by simp [hq], h1⟩

/-- **the bar offset is inside the window**: `0 ≤ offset`, and `offset < length` unless it is `0` -/
theorem extremeBar_range (cs : List (Candle F)) (ind : String) (n idx : Int)
    (better : Num F → Num F → Bool) (v : Val F)
    (h : Mov.extremeBar cs ind n idx better = .ok v) :
    v = .none ∨ ∃ d : Int, v = .int d ∧ 0 ≤ d ∧ (d = 0 ∨ d < n) := by
  unfold Mov.extremeBar at h
  cases hi : absIndex idx cs.length with
  | none => simp [hi] at h; left; rw [← h]
  | some i =>
    simp only [hi] at h
    right
    change (do
      let r ← (pyRangeDown i (if i - n < -1 then -1 else i - n)).zipIdx.foldlM (barStep cs ind better) (none, 0)
      pure (Val.int r.2)) = Except.ok v at h
    cases hf : (pyRangeDown i (if i - n < -1 then -1 else i - n)).zipIdx.foldlM (barStep cs ind better) (none, 0) with
    | error e => simp [hf] at h
    | ok r =>
      simp only [hf, pym_bind_ok, pym_pure, Except.ok.injEq] at h
      refine ⟨r.2, h.symm, ?_⟩
      rcases foldlM_bar cs ind better _ _ r hf with h1 | ⟨p, hp, h1⟩
      · simp at h1; simp [h1]
      · obtain ⟨q, k⟩ := p
        have hk := List.mem_zipIdx hp
        simp only [Nat.zero_add, Nat.sub_zero] at hk
        have hlen : k < (pyRangeDown i (if i - n < -1 then -1 else i - n)).length := hk.2.1
        unfold pyRangeDown at hlen
        simp only [List.length_map, List.length_range] at hlen
        simp only at h1
        rw [h1]
        refine ⟨by omega, ?_⟩
        right
        split_ifs at hlen <;> omega

theorem highestbar_range (cs : List (Candle F)) (ind : String) (n idx : Int) (d : Int)
    (h : Mov.highestbar cs ind n idx = .ok (.int d)) : 0 ≤ d ∧ (d = 0 ∨ d < n) := by
  rcases extremeBar_range cs ind n idx _ _ h with h1 | ⟨d', h1, h2⟩
  · cases h1
  · have : d = d' := by simpa using h1
    subst this; exact h2

theorem lowestbar_range (cs : List (Candle F)) (ind : String) (n idx : Int) (d : Int)
    (h : Mov.lowestbar cs ind n idx = .ok (.int d)) : 0 ≤ d ∧ (d = 0 ∨ d < n) := by
  rcases extremeBar_range cs ind n idx _ _ h with h1 | ⟨d', h1, h2⟩
  · cases h1
  · have : d = d' := by simpa using h1
    subst this; exact h2

end Numeric
end Hex

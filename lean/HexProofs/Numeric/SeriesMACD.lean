import HexProofs.Framework.Gen.MACD
import HexProofs.Numeric.SeriesATR
/-!
# MACD: the whole series (closes the MACD item of `C06_FULL`)

`macdTree name round fast slow signal input` (HexProofs/Framework/Gen/MACD.lean) is the `TreeSpec` of a
MACD node: two prior EMA leaves `<name>_EMA_fast`, `<name>_EMA_slow` over the input, and a managed EMA
`<name>_signal_line` over the dotted input `<name>.MACD`, driven from inside the node's own
`_calculate_reading` after a temporary insert of `{"MACD": m}` under the node's key.  Its row step is
"fast helper; slow helper; own step".  This file proves, for EVERY raw candle list, what the row-major
run – and hence the engine's `calculate()`, the batch run and every append schedule
(`TreeSpec.engine`, `batch_iff`, `live_refines`) – stores on every candle.

What the model (HexModel/Ind/Composite.lean `Calc.macd`, HexModel/Ind/Simple.lean `Calc.ema`,
`children` in HexModel/Core/Eval.lean) actually does, and what is therefore stated here:

* **helpers**: both EMA helpers are `leaf`s: stored in `.sub_indicators`, rounded to `defaultRound = 4`
  decimals.  Column `emaCol p 0 x`: `None` before index `p − 1`, the rounded mean of the first `p` inputs
  at `p − 1`, then `round₄(a·x j + prev·(1 − a))`, `a = 2/(p+1)`, on the STORED predecessor.  `helper_ok`:
  this is `RecOK p 4 a (emaTextbook p x)`, the statement of `C04.ema_series` (budget `ε₄/a`, not growing).
* **MACD**: exists from the slow EMA's first reading, index `slow − 1` (needs `fast ≤ slow`: the library's
  `_validate_fields` swaps the periods otherwise; with `fast > slow` the subtraction would hit `None`).
  The value `m = macdU j` = stored fast − stored slow is computed UNROUNDED; the own dict is rounded to the
  node's `round_value = n` when stored, so the stored entry is `macdS j = round_n (macdU j)`.
* **signal**: the managed EMA (a `leaf`: `.sub_indicators`, 4 decimals) reads the column `<name>.MACD`, which
  is `None` below `slow − 1`; `reading_period(signal)` therefore first holds at index
  `w = slow + signal − 2` (`signal − 1` candles after the first MACD).  Its seed at `w` is the mean of the
  STORED (rounded to `n`) MACD entries of candles `slow−1 … w−1` and the UNROUNDED temporary MACD of candle
  `w`; every later step reads the unrounded MACD of its own candle and its own stored predecessor.  This is
  modelled faithfully by the input series `sigIn`; `sigV = emaCol signal (slow−1) sigIn`.  On candles
  `slow−1 … w−1` the engine WRITES a `None` entry under `<name>_signal_line`; below `slow − 1` it writes
  nothing (`sigD`).
* **own dict** (`macdOwn`): all-`None` below `slow − 1`; `{MACD, None, None}` below `w`; from `w` on
  `{MACD: round_n m, signal: round_n s, histogram: round_n (m − s)}` with `m = macdU j` unrounded and
  `s = sigF j` the (4-decimal) signal-line reading.  Hence `histogram = MACD − signal` on the stored values
  up to `3·ε_n` (`macdOwn_hist_eq`).

Main results (`2 ≤ fast ≤ slow`, `1 ≤ signal`, input a candle field; `2 ≤ fast` because `candles_sum`
treats absolute index 0 as "no index", so an EMA seed at index 0 would raise):
`macd_series` (the run returns EXACTLY `macdOut`, an explicit function of the raw candles), `macd_engine`,
`macd_batch`, `macd_batch_out`, `macd_live`; the numeric layer `helper_ok`, `sigV_ok`, `sigF_err`,
`macdOwn_ok` (budgets in terms of `eps`), `macdOwn_hist_eq`; and the reading-by-reading forms
`macd_series_readings`, `macd_engine_readings`, `macd_batch_readings` (`MacdCandleOK`).
-/
set_option linter.unusedSectionVars false
set_option linter.unusedSimpArgs false
namespace Hex
namespace Numeric
variable {K : Type} [Field K] [LinearOrder K] [IsStrictOrderedRing K] [LawfulPyF K]

/-- the EMA smoothing constant `2/(period+1)` -/
def emaAlpha (p : Nat) : K := 2 / ((p : K) + 1)

theorem emaAlpha_pos (p : Nat) : (0 : K) < emaAlpha p := by
  unfold emaAlpha; positivity

theorem emaAlpha_le_one (p : Nat) (hp : 1 ≤ p) : emaAlpha (K := K) p ≤ 1 := by
  unfold emaAlpha
  have : (1 : K) ≤ p := by exact_mod_cast hp
  rw [div_le_one (by linarith)]; linarith

theorem macd_fl_two_toF : (fl 2 : Num K).toF = 2 := by
  simp [fl, LawfulPyF.ofInt_eq]

/-- `emaAlpha p` is the constant `smoothing/(period+1)` of `C04.ema_series` for the helpers' smoothing `2.0` -/
theorem emaAlpha_eq (p : Nat) : emaAlpha (K := K) p = (fl 2 : Num K).toF / ((p : K) + 1) := by
  rw [macd_fl_two_toF]; rfl

/-- the STORED exponential average -/
def recSt (n : Nat) (a seed : K) (x : Nat → K) (q : Nat) : Nat → K
  | 0 => PyF.round n seed
  | j + 1 => if j + 1 < q then PyF.round n seed
             else PyF.round n (a * x (j + 1) + recSt n a seed x q j * (1 - a))

theorem recSt_seed (n : Nat) (a seed : K) (x : Nat → K) (q j : Nat) (h : j < q) :
    recSt n a seed x q j = PyF.round n seed := by
  cases j with
  | zero => rfl
  | succ i => simp [recSt, h]

theorem recSt_step (n : Nat) (a seed : K) (x : Nat → K) (q j : Nat) (h : q ≤ j) (hq : 1 ≤ q) :
    recSt n a seed x q j = PyF.round n (a * x j + recSt n a seed x q (j - 1) * (1 - a)) := by
  obtain ⟨i, rfl⟩ : ∃ i, j = i + 1 := ⟨j - 1, by omega⟩
  have : ¬ i + 1 < q := by omega
  simp [recSt, this]

/-- the stored series stays within `ε/a` of the exact one -/
theorem recSt_err (n : Nat) (a seed : K) (x : Nat → K) (q : Nat) (hq : 1 ≤ q) (ha0 : 0 < a) (ha1 : a ≤ 1)
    (j : Nat) : |recSt n a seed x q j - recExact a seed x q j| ≤ eps K n / a := by
  induction j with
  | zero =>
    rw [recSt_seed _ _ _ _ _ _ (by omega), recExact_seed _ _ _ _ _ (by omega)]
    exact le_trans (LawfulPyF.round_err n _) (eps_le_div n _ ha0 ha1)
  | succ i ih =>
    by_cases h : i + 1 < q
    · rw [recSt_seed _ _ _ _ _ _ h, recExact_seed _ _ _ _ _ h]
      exact le_trans (LawfulPyF.round_err n _) (eps_le_div n _ ha0 ha1)
    · rw [recSt_step _ _ _ _ _ _ (by omega) hq, recExact_step _ _ _ _ _ (by omega) hq]
      simp only [Nat.add_sub_cancel]
      rw [mul_comm (recSt n a seed x q i)]
      exact ema_error_budget n a (x (i + 1)) _ _ ha0 ha1 ih

/-- the stored reading: `None` before the seed index `q − 1` -/
def recStV (n : Nat) (a seed : K) (x : Nat → K) (q : Nat) (j : Nat) : Val K :=
  if j + 1 < q then .none else .flt (recSt n a seed x q j)

theorem recStV_ok (n : Nat) (a seed : K) (x : Nat → K) (q : Nat) (hq : 1 ≤ q) (ha0 : 0 < a) (ha1 : a ≤ 1)
    (j : Nat) : RecOK q n a (recExact a seed x q) j (recStV n a seed x q j) := by
  unfold recStV
  refine ⟨fun h => by rw [if_pos h], fun h => ?_⟩
  rw [if_neg (by omega)]
  exact ⟨_, rfl, recSt_err n a seed x q hq ha0 ha1 j⟩

theorem winMean_offset (x : Nat → K) (p o : Nat) (hp : 1 ≤ p) :
    winMean x p (o + p - 1) = rsum p (fun k => x (o + k)) / p := by
  unfold winMean
  congr 2
  funext k
  congr 1
  omega

/-! ### what a call sees on `H ++ [c]` -/

abbrev snocCtx (H : List (Candle K)) (c : Candle K) (name : String) : Ctx K :=
  { cs := H ++ [c], i := H.length, name := name }

theorem snocCtx_reading (H : List (Candle K)) (c : Candle K) (name key : String) (j : Nat) (hj : j ≤ H.length) :
    (snocCtx H c name).reading key (some (j : Int))
      = .ok (if j < H.length then readingByCandle (H.getD j default) key else readingByCandle c key) := by
  unfold Ctx.reading
  simp only [Option.getD_some]
  rw [pyIndex_nonneg _ _ (by omega)]
  simp only [Int.toNat_natCast]
  by_cases h : j < H.length
  · rw [List.getElem?_append_left h, if_pos h, List.getD_eq_getElem?_getD, List.getElem?_eq_getElem h]
    rfl
  · have : j = H.length := by omega
    subst this
    rw [if_neg h]
    simp [getOrIndexError]

/-- `reading_period(q, key)` when the column of `key` is `None` exactly below index `o` -/
theorem snocCtx_period (H : List (Candle K)) (c : Candle K) (name key : String) (o : Nat) (g : Nat → Val K)
    (hrd : ∀ j, j ≤ H.length → (snocCtx H c name).reading key (some (j : Int)) = .ok (g j))
    (hnone : ∀ j, j ≤ H.length → (g j).isNone = decide (j < o)) (q : Nat) (hq : 1 ≤ q) :
    (snocCtx H c name).readingPeriod (q : Int) key = decide (o + q ≤ H.length + 1) := by
  have hl : (snocCtx H c name).cs.length = H.length + 1 := by simp
  have hrd' : ∀ j : Nat, j ≤ H.length →
      (readingByIndex (snocCtx H c name).cs key (j : Int)).isNone = decide (j < o) := by
    intro j hj
    have hv : validIndex (j : Int) (snocCtx H c name).cs.length = true := by
      rw [hl]; simp [validIndex]; omega
    have := hrd j hj
    unfold Ctx.reading at this
    simp only [Option.getD_some] at this
    unfold readingByIndex
    rw [hv]
    cases hpi : pyIndex (snocCtx H c name).cs (j : Int) with
    | error e => rw [hpi] at this; simp at this
    | ok c' =>
      rw [hpi] at this
      simp only [pym_bind_ok, pym_pure, Except.ok.injEq] at this
      simp only [if_true, this]
      exact hnone j hj
  unfold Ctx.readingPeriod Hex.readingPeriod
  simp only [Option.getD_none]
  have hv : validIndex (snocCtx H c name).i (snocCtx H c name).cs.length = true := by
    rw [hl]; simp [validIndex]; omega
  simp only [hv, Bool.not_true, Bool.false_eq_true, if_false]
  by_cases hqm : q ≤ H.length + 1
  · have a : ¬ ((H.length : Int) - ((q : Int) - 1) < 0) := by omega
    have b : (q : Int) - 1 ≥ 0 := by omega
    simp only [a, if_false, b, ge_iff_le, if_true]
    have e1 : (H.length : Int) - ((q : Int) - 1) = ((H.length + 1 - q : Nat) : Int) := by omega
    have e2 : (H.length : Int) - ((q : Int) - 1) / 2 = ((H.length - (q - 1) / 2 : Nat) : Int) := by omega
    rw [e1, e2, hrd' _ (by omega), hrd' _ (by omega), hrd' H.length (le_refl _)]
    by_cases hqm' : o + q ≤ H.length + 1
    · have c1 : ¬ H.length + 1 - q < o := by omega
      have c2 : ¬ H.length - (q - 1) / 2 < o := by omega
      have c3 : ¬ H.length < o := by omega
      simp [c1, c2, c3, hqm']
    · have c1 : H.length + 1 - q < o := by omega
      simp [c1, hqm']
  · have a : (H.length : Int) - ((q : Int) - 1) < 0 := by omega
    have : ¬ o + q ≤ H.length + 1 := by omega
    simp [a, this]



/-- the stored EMA column over an input column `x` that starts at index `o`: `None` before index
`o + p − 1`, the rounded mean of `x o … x (o+p−1)` there, then the rounded recurrence on the stored
predecessor (all roundings to `defaultRound = 4` decimals: a helper's `round_value`) -/
def emaColF (p o : Nat) (x : Nat → K) : Nat → K :=
  recSt defaultRound (emaAlpha p) (rsum p (fun k => x (o + k)) / p) x (o + p)

def emaCol (p o : Nat) (x : Nat → K) : Nat → Val K :=
  recStV defaultRound (emaAlpha p) (rsum p (fun k => x (o + k)) / p) x (o + p)

/-- the textbook EMA of the column: seeded at `o + p − 1` with the plain mean of the first `p`
inputs, then `r j = a·x j + (1 − a)·r (j−1)`, `a = 2/(p+1)` -/
def emaColExact (p o : Nat) (x : Nat → K) : Nat → K :=
  recExact (emaAlpha p) (winMean x p (o + p - 1)) x (o + p)

theorem emaCol_none (p o : Nat) (x : Nat → K) (j : Nat) (h : j + 1 < o + p) : emaCol p o x j = .none := by
  unfold emaCol recStV; rw [if_pos h]

theorem emaCol_flt (p o : Nat) (x : Nat → K) (j : Nat) (h : o + p ≤ j + 1) :
    emaCol p o x j = .flt (emaColF p o x j) := by
  unfold emaCol recStV emaColF; rw [if_neg (by omega)]

/-- the stored column is the textbook EMA up to `ε₄/a` -/
theorem emaCol_ok (p o : Nat) (hp : 1 ≤ p) (x : Nat → K) (j : Nat) :
    RecOK (o + p) defaultRound (emaAlpha p) (emaColExact p o x) j (emaCol p o x j) := by
  unfold emaColExact emaCol
  rw [winMean_offset x p o hp]
  exact recStV_ok _ _ _ _ _ (by omega) (emaAlpha_pos p) (emaAlpha_le_one p hp) j

theorem emaColF_err (p o : Nat) (hp : 1 ≤ p) (x : Nat → K) (j : Nat) :
    |emaColF p o x j - emaColExact p o x j| ≤ eps K defaultRound / emaAlpha p := by
  unfold emaColExact emaColF
  rw [winMean_offset x p o hp]
  exact recSt_err _ _ _ _ _ (by omega) (emaAlpha_pos p) (emaAlpha_le_one p hp) j

/-- **one EMA call inside a series.**  The call at index `H.length` on `H ++ [c]`, reading an input
column `g` that is `None` exactly below index `o`, with the own column so far equal to `emaCol` -/
theorem ema_view_step (H : List (Candle K)) (c : Candle K) (own inp : String) (p o : Nat) (hp : 1 ≤ p)
    (hop : 2 ≤ o + p) (g : Nat → Val K) (rn : Nat → Num K)
    (hH : ∀ j, j < H.length → readingByCandle (H.getD j default) inp = g j)
    (hc : readingByCandle c inp = g H.length)
    (hnone : ∀ j, j ≤ H.length → (g j).isNone = decide (j < o))
    (hseed : H.length + 1 = o + p → ∀ k, k < p → g (o + k) = .num (rn (o + k)))
    (hcur : o + p ≤ H.length → g H.length = .num (rn H.length))
    (hprev : Ctx.lastReading own H = if H.length = 0 then .none else
      emaCol p o (fun j => (rn j).toF) (H.length - 1)) :
    ∃ v, Calc.ema (snocCtx H c own) (p : Int) inp (fl 2) = .ok v ∧
      v.roundBy defaultRound = emaCol p o (fun j => (rn j).toF) H.length := by
  have hrd : ∀ j, j ≤ H.length → (snocCtx H c own).reading inp (some (j : Int)) = .ok (g j) := by
    intro j hj
    rw [snocCtx_reading H c own inp j hj]
    by_cases h : j < H.length
    · rw [if_pos h, hH j h]
    · have : j = H.length := by omega
      subst this
      rw [if_neg h, hc]
  have hper := snocCtx_period H c own inp o g hrd hnone p (by omega)
  have hpr : (snocCtx H c own).prevReading (snocCtx H c own).name = .ok (Ctx.lastReading own H) :=
    Ctx.prevReading_append_cons H c [] own own
  have hp1 : (((p : Nat) : Int) : K) + 1 ≠ 0 := by
    have : (0 : K) < (p : K) + 1 := by positivity
    simpa using this.ne'
  by_cases h1 : H.length + 1 < o + p
  · have hpn : (snocCtx H c own).prevReading (snocCtx H c own).name = .ok .none := by
      rw [hpr, hprev]
      by_cases h0 : H.length = 0
      · simp [h0]
      · simp only [h0, if_false]
        exact congrArg _ (emaCol_none _ _ _ _ (by omega))
    have hrp : (snocCtx H c own).readingPeriod (p : Int) inp = false := by
      rw [hper]; simp; omega
    refine ⟨.none, ema_none _ _ _ _ hpn hrp, ?_⟩
    rw [emaCol_none _ _ _ _ h1]; rfl
  · by_cases h2 : H.length + 1 = o + p
    · have hpn : (snocCtx H c own).prevReading (snocCtx H c own).name = .ok .none := by
        rw [hpr, hprev]
        have h0 : H.length ≠ 0 := by omega
        simp only [h0, if_false]
        exact congrArg _ (emaCol_none _ _ _ _ (by omega))
      have hrp : (snocCtx H c own).readingPeriod (p : Int) inp = true := by
        rw [hper]; simp; omega
      have hwin := ema_seed_window (snocCtx H c own) p inp (fl 2) (fun k => rn (o + k)) hpn hrp (by omega)
        (by show (p : Int) ≤ (H.length : Int) + 1; omega) (by show (1 : Int) ≤ (H.length : Int); omega)
        (by
          intro j hj
          have e : (snocCtx H c own).i + 1 - (p : Int) + (j : Int) = ((o + j : Nat) : Int) := by
            show (H.length : Int) + 1 - (p : Int) + (j : Int) = _; omega
          rw [e, hrd (o + j) (by omega), hseed h2 j hj])
      refine ⟨_, hwin, ?_⟩
      rw [emaCol_flt _ _ _ _ (by omega)]
      unfold emaColF
      rw [recSt_seed _ _ _ _ _ _ (by omega)]
      rfl
    · have h3 : o + p ≤ H.length := by omega
      have h0 : H.length ≠ 0 := by omega
      have hpn : (snocCtx H c own).prevReading (snocCtx H c own).name
          = .ok (.num (.flt (emaColF p o (fun j => (rn j).toF) (H.length - 1)))) := by
        rw [hpr, hprev]
        simp only [h0, if_false]
        exact congrArg _ (emaCol_flt _ _ _ _ (by omega))
      have hcur' : (snocCtx H c own).reading inp = .ok (.num (rn H.length)) := by
        have := hrd H.length (le_refl _)
        rw [hcur h3] at this
        exact this
      refine ⟨_, ema_rec _ _ _ _ _ _ hpn hcur' hp1, ?_⟩
      rw [emaCol_flt _ _ _ _ (by omega)]
      unfold emaColF
      rw [recSt_step _ _ _ _ _ _ h3 (by omega)]
      simp only [macd_fl_two_toF, Num.toF_flt, Int.cast_natCast]
      rfl

/-! ### the candles of a MACD row -/

/-- the candle after the two helper writes -/
def macdC2 (nm : String) (vf vs : Val K) (c : Candle K) : Candle K :=
  setKey true (nm ++ "_EMA_slow") vs (setKey true (nm ++ "_EMA_fast") vf c)

/-- the finished candle of a MACD row: helper readings `vf`, `vs` and (if written) the signal-line
reading `d` in `.sub_indicators`, the own dict `own` in `.indicators` -/
def macdC3 (nm : String) (vf vs : Val K) (d : Option (Val K)) (own : Val K) (c : Candle K) : Candle K :=
  setKey false nm own (setD (nm ++ "_signal_line") d (macdC2 nm vf vs c))

section cand
variable (nm : String) (hn : MacdNames nm) (vf vs own : Val K) (d : Option (Val K)) (c : Candle K)

theorem macdC1_input (input : String) (hin : NoDot input ∧ input ∈ Candle.attrNames) :
    readingByCandle (setKey true (nm ++ "_EMA_fast") vf c) input = readingByCandle c input :=
  indep_attr (F := K) _ input hin.1 hin.2 true vf c

theorem macdC3_input (input : String) (hin : NoDot input ∧ input ∈ Candle.attrNames) :
    readingByCandle (macdC3 nm vf vs d own c) input = readingByCandle c input := by
  unfold macdC3 macdC2
  rw [indep_attr (F := K) nm input hin.1 hin.2]
  cases d with
  | none => simp only [setD]; rw [indep_attr (F := K) _ input hin.1 hin.2, indep_attr (F := K) _ input hin.1 hin.2]
  | some dv =>
    simp only [setD]
    rw [indep_attr (F := K) _ input hin.1 hin.2, indep_attr (F := K) _ input hin.1 hin.2,
      indep_attr (F := K) _ input hin.1 hin.2]

theorem macdC3_bare : (macdC3 nm vf vs d own c).bare = c.bare := by
  unfold macdC3 macdC2
  cases d <;> simp only [setD, bare_setKey]

include hn

theorem macdC2_fast (hc : Plain c) : readingByCandle (macdC2 nm vf vs c) (nm ++ "_EMA_fast") = vf := by
  rw [readingByCandle_key _ hn.kF]
  obtain ⟨hi, hs⟩ := hc
  simp [macdC2, lookupKey, setKey, hi, hs, dset, dlookup, hn.FS]

theorem macdC2_slow (hc : Plain c) : readingByCandle (macdC2 nm vf vs c) (nm ++ "_EMA_slow") = vs := by
  rw [readingByCandle_key _ hn.kS]
  obtain ⟨hi, hs⟩ := hc
  simp [macdC2, lookupKey, setKey, hi, hs, dset, dlookup, hn.FS]

theorem macdC3_fast (hc : Plain c) : readingByCandle (macdC3 nm vf vs d own c) (nm ++ "_EMA_fast") = vf := by
  rw [readingByCandle_key _ hn.kF]
  obtain ⟨hi, hs⟩ := hc
  cases d <;> simp [macdC3, macdC2, lookupKey, setD, setKey, hi, hs, dset, dlookup, hn.FS, hn.nF, hn.FG, hn.FG.symm]

theorem macdC3_slow (hc : Plain c) : readingByCandle (macdC3 nm vf vs d own c) (nm ++ "_EMA_slow") = vs := by
  rw [readingByCandle_key _ hn.kS]
  obtain ⟨hi, hs⟩ := hc
  cases d <;> simp [macdC3, macdC2, lookupKey, setD, setKey, hi, hs, dset, dlookup, hn.FS, hn.nS, hn.SG, hn.SG.symm]

theorem macdC3_sig (hc : Plain c) :
    readingByCandle (macdC3 nm vf vs d own c) (nm ++ "_signal_line") = d.getD .none := by
  rw [readingByCandle_key _ hn.kG]
  obtain ⟨hi, hs⟩ := hc
  cases d <;> simp [macdC3, macdC2, lookupKey, setD, setKey, hi, hs, dset, dlookup, hn.FG, hn.FG.symm, hn.nG,
    hn.SG, hn.SG.symm]

theorem macdC3_own : readingByCandle (macdC3 nm vf vs d own c) nm = own := by
  rw [readingByCandle_key _ hn.kN]
  simp [macdC3, lookupKey, setKey, dset, dlookup_dset_self]

theorem macdC3_macd : readingByCandle (macdC3 nm vf vs d own c) (nm ++ ".MACD") = own.nested "MACD" :=
  rbc_tmp nm hn.dot own _

end cand


/-! ### the stored MACD series, as functions of the input series `x` -/

section defs
variable (n pf ps pg : Nat) (x : Nat → K)

/-- the MACD value computed on candle `j ≥ slow − 1`: stored fast EMA − stored slow EMA (both helper
readings rounded to 4 decimals); this UNROUNDED value is what the signal EMA reads on the current candle -/
def macdU (j : Nat) : K := emaColF pf 0 x j - emaColF ps 0 x j

/-- the stored `MACD` entry of candle `j ≥ slow − 1` (rounded to the node's `round_value`) -/
def macdS (j : Nat) : K := PyF.round n (macdU pf ps x j)

/-- the inputs of the signal EMA: its seed (at index `slow + signal − 2`) averages the STORED
(rounded) MACD of the earlier candles and the unrounded MACD of the seed candle; afterwards every
step reads the unrounded MACD of its own candle -/
def sigIn (j : Nat) : K := if j + 2 < ps + pg then macdS n pf ps x j else macdU pf ps x j

/-- the stored signal line (`<name>_signal_line`, rounded to 4 decimals) -/
def sigF : Nat → K := emaColF pg (ps - 1) (sigIn n pf ps pg x)
def sigV : Nat → Val K := emaCol pg (ps - 1) (sigIn n pf ps pg x)

/-- the `<name>_signal_line` write of candle `j`: none while the slow EMA is `None`, then the
signal-line reading (which is `None` for the first `signal − 1` candles) -/
def sigD (j : Nat) : Option (Val K) := if j + 1 < ps then none else some (sigV n pf ps pg x j)

/-- the stored own dict of candle `j` -/
def macdOwn (j : Nat) : Val K :=
  if j + 1 < ps then macdNone
  else if j + 2 < ps + pg then
    sdict [("MACD", sc (.flt (macdS n pf ps x j))), ("signal", .none), ("histogram", .none)]
  else
    sdict [("MACD", sc (.flt (macdS n pf ps x j))), ("signal", sc (.flt (PyF.round n (sigF n pf ps pg x j)))),
      ("histogram", sc (.flt (PyF.round n (macdU pf ps x j - sigF n pf ps pg x j))))]

theorem sigD_getD (hg : 1 ≤ pg) (j : Nat) : (sigD n pf ps pg x j).getD .none = sigV n pf ps pg x j := by
  unfold sigD
  by_cases h : j + 1 < ps
  · rw [if_pos h]
    exact (emaCol_none _ _ _ _ (by omega)).symm
  · rw [if_neg h]; rfl

theorem macdOwn_nested (j : Nat) :
    (macdOwn n pf ps pg x j).nested "MACD" = if j + 1 < ps then .none else .flt (macdS n pf ps x j) := by
  unfold macdOwn
  by_cases h1 : j + 1 < ps
  · rw [if_pos h1, if_pos h1]; rfl
  · rw [if_neg h1, if_neg h1]
    by_cases h2 : j + 2 < ps + pg
    · rw [if_pos h2]; rfl
    · rw [if_neg h2]; rfl

end defs

/-! ### the finished candles -/

section rows
variable (nm : String) (n pf ps pg : Nat) (fld : Candle K → Num K) (raw : List (Candle K))

/-- candle `j` of a MACD run over `raw` -/
def macdRow (j : Nat) : Candle K :=
  macdC3 nm (emaCol pf 0 (fieldAt fld raw) j) (emaCol ps 0 (fieldAt fld raw) j)
    (sigD n pf ps pg (fieldAt fld raw) j) (macdOwn n pf ps pg (fieldAt fld raw) j) (raw.getD j default)

/-- the first `m` finished candles -/
def macdRows (m : Nat) : List (Candle K) := (List.range m).map (macdRow nm n pf ps pg fld raw)

/-- the finished candles of a MACD run over `raw` -/
def macdOut : List (Candle K) := macdRows nm n pf ps pg fld raw raw.length

theorem macdRows_length (m : Nat) : (macdRows nm n pf ps pg fld raw m).length = m := by
  simp [macdRows]

theorem macdRows_succ (m : Nat) :
    macdRows nm n pf ps pg fld raw (m + 1) = macdRows nm n pf ps pg fld raw m ++ [macdRow nm n pf ps pg fld raw m] := by
  simp [macdRows, List.range_succ]

theorem macdRows_getD (m j : Nat) (hj : j < m) :
    (macdRows nm n pf ps pg fld raw m).getD j default = macdRow nm n pf ps pg fld raw j := by
  simp [macdRows, hj]

theorem macdRows_last (m : Nat) (key : String) :
    Ctx.lastReading key (macdRows nm n pf ps pg fld raw m)
      = if m = 0 then .none else readingByCandle (macdRow nm n pf ps pg fld raw (m - 1)) key := by
  cases m with
  | zero => rfl
  | succ k =>
    rw [macdRows_succ]
    unfold Ctx.lastReading
    simp

end rows


/-! ### the reading part of the node -/

theorem macdR_none (pg : Int) (nm : String) (H : List (Candle K)) (c : Candle K)
    (hs : readingByCandle c (nm ++ "_EMA_slow") = .none) :
    macdR pg (snocCtx H c nm) = .ok (none, .ok macdNone) := by
  unfold macdR
  simp only [Ctx.reading_cur, hs, pym_bind_ok]
  rfl

theorem macdR_some (pg : Int) (nm : String) (H : List (Candle K)) (c : Candle K) (yf ys : K) (v : Val K)
    (hf : readingByCandle c (nm ++ "_EMA_fast") = .flt yf)
    (hs : readingByCandle c (nm ++ "_EMA_slow") = .flt ys)
    (hv : Calc.ema (snocCtx H (setKey false nm (sdict [("MACD", sc (.flt (yf - ys)))]) c) (nm ++ "_signal_line"))
      pg (nm ++ ".MACD") (fl 2) = .ok v) :
    macdR pg (snocCtx H c nm)
      = .ok (some (v.roundBy defaultRound), macdFin (.flt (yf - ys)) (v.roundBy defaultRound)) := by
  unfold macdR
  simp only [Ctx.reading_cur, Ctx.num_cur, hs, hf, pym_bind_ok, updateAt_append_cons]
  have e : (Num.flt yf : Num K).sub (.flt ys) = .flt (yf - ys) := Num.flt_sub_flt yf ys
  simp only [Val.flt, Val.isNone_num, Val.asNum_num, Bool.false_eq_true, if_false, pym_bind_ok, e]
  rw [hv]
  rfl


theorem macdFin_none (m : K) :
    macdFin (.flt m) (.none : Val K) = .ok (sdict [("MACD", sc (.flt m)), ("signal", .none), ("histogram", .none)]) := rfl

theorem macdFin_flt (m g : K) :
    macdFin (.flt m) (.flt g : Val K)
      = .ok (sdict [("MACD", sc (.flt m)), ("signal", sc (.flt g)), ("histogram", sc (.flt (m - g)))]) := by
  unfold macdFin
  simp only [Val.flt, Val.isNone_num, Val.asNum_num, Val.toScalar_num, Bool.false_eq_true, if_false, pym_bind_ok,
    pym_pure, Num.flt_sub_flt]
  rfl

/-! ### one row -/

/-- the tree of `MACD(fast, slow, signal, input)` named `nm` with `round_value = n` -/
abbrev macdTreeN (nm : String) (n pf ps pg : Nat) (input : String) (hf : 1 ≤ pf) (hs : 1 ≤ ps) (hg : 1 ≤ pg)
    (hn : MacdNames nm) (hin : NoDot input ∧ input ∈ Candle.attrNames) :
    TreeSpec (mkTop (.macd (pf : Int) (ps : Int) (pg : Int) input : Kind K) nm n) :=
  macdTree (F := K) nm n (pf : Int) (ps : Int) (pg : Int) input (by omega) (by omega) (by omega) hn hin

theorem macd_rowStep_ok (nm : String) (n : Nat) (pf ps pg : Int) (input : String)
    (hf : 1 ≤ pf) (hs : 1 ≤ ps) (hg : 1 ≤ pg) (hn : MacdNames nm)
    (hin : NoDot input ∧ input ∈ Candle.attrNames) (H : List (Candle K)) (c : Candle K)
    (vf vs v : Val K) (d : Option (Val K)) (fin : PyM (Val K))
    (h1 : Calc.ema (snocCtx H c (nm ++ "_EMA_fast")) pf input (fl 2) = .ok vf)
    (h2 : Calc.ema (snocCtx H (setKey true (nm ++ "_EMA_fast") (vf.roundBy defaultRound) c) (nm ++ "_EMA_slow"))
        ps input (fl 2) = .ok vs)
    (h3 : macdR pg (snocCtx H (macdC2 nm (vf.roundBy defaultRound) (vs.roundBy defaultRound) c) nm) = .ok (d, fin))
    (h4 : fin = .ok v) :
    Gen.rowStep (macdTree (F := K) nm n pf ps pg input hf hs hg hn hin).S H c =
      .ok (H ++ [macdC3 nm (vf.roundBy defaultRound) (vs.roundBy defaultRound) d (v.roundBy n) c]) := by
  have e : Gen.rowStep (macdTree (F := K) nm n pf ps pg input hf hs hg hn hin).S H c = (do
      let z ← (macdComp (F := K) nm n pf ps pg input hf hs hg hn hin).val H c
      pure (H ++ [(macdComp (F := K) nm n pf ps pg input hf hs hg hn hin).app z c])) :=
    TComp.rowStep_spec _ _ H c
  rw [e]
  have hv : (macdComp (F := K) nm n pf ps pg input hf hs hg hn hin).val H c = .ok ((vf, vs), (d, v)) := by
    show (do
      let x ← (do
        let x ← valOf (macdEf nm pf input) H c
        let q ← valOf (macdEs nm ps input) H (decOf (macdEf nm pf input) x c)
        pure (x, q))
      let q ← (do
        let (d, fin) ← macdR pg (snocCtx H (decOf (macdEs nm ps input) x.2 (decOf (macdEf nm pf input) x.1 c)) nm)
        let v ← fin
        pure (d, v))
      pure (x, q) : PyM ((Val K × Val K) × (Option (Val K) × Val K))) = _
    have e1 : valOf (macdEf nm pf input) H c = .ok vf := h1
    rw [e1]
    simp only [pym_bind_ok]
    have e2 : valOf (macdEs nm ps input) H (decOf (macdEf nm pf input) vf c) = .ok vs := h2
    rw [e2]
    simp only [pym_bind_ok, pym_pure]
    have e3 : macdR pg (snocCtx H (decOf (macdEs nm ps input) vs (decOf (macdEf nm pf input) vf c)) nm)
        = .ok (d, fin) := h3
    rw [e3, h4]
    rfl
  rw [hv]
  rfl

section step
variable (nm : String) (n pf ps pg : Nat) (input : String) (fld : Candle K → Num K)
  (hf : 2 ≤ pf) (hfs : pf ≤ ps) (hg : 1 ≤ pg) (hn : MacdNames nm)
  (hin : NoDot input ∧ input ∈ Candle.attrNames)
  (hattr : ∀ c : Candle K, c.attr input = some (.num (fld c)))
  (raw : List (Candle K)) (hraw : ∀ c ∈ raw, Plain c)

include hf hfs hg hattr hraw in
/-- **one row of the MACD run**: on the finished candles `0 … m−1` the row step at candle `m`
returns, and appends exactly `macdRow m` -/
theorem macd_row_step (m : Nat) (hm : m < raw.length) :
    Gen.rowStep (macdTreeN (K := K) nm n pf ps pg input (by omega) (by omega) hg hn hin).S
        (macdRows nm n pf ps pg fld raw m) (raw.getD m default)
      = .ok (macdRows nm n pf ps pg fld raw m ++ [macdRow nm n pf ps pg fld raw m]) := by
  have hpl : ∀ j, j < raw.length → Plain (raw.getD j default) := fun j hj => getD_plain raw hraw j hj
  have hHl := macdRows_length nm n pf ps pg fld raw m
  generalize hH : macdRows nm n pf ps pg fld raw m = H at hHl
  have hHj : ∀ j, j < H.length → H.getD j default = macdRow nm n pf ps pg fld raw j := by
    intro j hj; rw [← hH]; exact macdRows_getD nm n pf ps pg fld raw m j (by omega)
  have hlast : ∀ key, Ctx.lastReading key H
      = if H.length = 0 then .none else readingByCandle (macdRow nm n pf ps pg fld raw (H.length - 1)) key := by
    intro key; rw [← hH, macdRows_length]; exact macdRows_last nm n pf ps pg fld raw m key
  have hinp : ∀ j, j < H.length → readingByCandle (H.getD j default) input = .num (fld (raw.getD j default)) := by
    intro j hj
    rw [hHj j hj]
    unfold macdRow
    rw [macdC3_input nm _ _ _ _ _ input hin, readingByCandle_attr input hin.1 _ _ (hattr _)]
  -- the fast helper
  obtain ⟨vf, h1, e1⟩ := ema_view_step H (raw.getD m default) (nm ++ "_EMA_fast") input pf 0 (by omega) (by omega)
    (fun j => .num (fld (raw.getD j default))) (fun j => fld (raw.getD j default)) hinp
    (by rw [hHl]; exact readingByCandle_attr input hin.1 _ _ (hattr _))
    (fun j _ => by simp) (fun _ k _ => rfl) (fun _ => rfl)
    (by
      rw [hlast]
      by_cases h0 : H.length = 0
      · simp [h0]
      · simp only [h0, if_false]
        unfold macdRow
        rw [macdC3_fast nm hn _ _ _ _ _ (hpl _ (by omega))]
        rfl)
  -- the slow helper
  obtain ⟨vs, h2, e2⟩ := ema_view_step H (setKey true (nm ++ "_EMA_fast") (vf.roundBy defaultRound) (raw.getD m default))
    (nm ++ "_EMA_slow") input ps 0 (by omega) (by omega)
    (fun j => .num (fld (raw.getD j default))) (fun j => fld (raw.getD j default)) hinp
    (by rw [hHl, macdC1_input nm _ _ input hin]; exact readingByCandle_attr input hin.1 _ _ (hattr _))
    (fun j _ => by simp) (fun _ k _ => rfl) (fun _ => rfl)
    (by
      rw [hlast]
      by_cases h0 : H.length = 0
      · simp [h0]
      · simp only [h0, if_false]
        unfold macdRow
        rw [macdC3_slow nm hn _ _ _ _ _ (hpl _ (by omega))]
        rfl)
  rw [hHl] at e1 e2
  have e1' : vf.roundBy defaultRound = emaCol pf 0 (fieldAt fld raw) m := e1
  have e2' : vs.roundBy defaultRound = emaCol ps 0 (fieldAt fld raw) m := e2
  have hc := hpl m hm
  unfold macdRow
  by_cases hw : m + 1 < ps
  · -- the slow EMA is still `None`
    have hsl : readingByCandle (macdC2 nm (vf.roundBy defaultRound) (vs.roundBy defaultRound) (raw.getD m default))
        (nm ++ "_EMA_slow") = .none := by
      rw [macdC2_slow nm hn _ _ _ hc, e2', emaCol_none _ _ _ _ (by omega)]
    have h3 := macdR_none (pg : Int) nm H _ hsl
    have := macd_rowStep_ok nm n (pf : Int) (ps : Int) (pg : Int) input (by omega) (by omega) (by omega) hn hin H
      (raw.getD m default) vf vs macdNone none (.ok macdNone) h1 h2 h3 rfl
    rw [this, e1', e2']
    unfold sigD macdOwn
    rw [if_pos hw, if_pos hw]
    rfl
  · -- the slow (hence the fast) EMA has a reading
    have hfv : emaCol pf 0 (fieldAt fld raw) m = .flt (emaColF pf 0 (fieldAt fld raw) m) :=
      emaCol_flt _ _ _ _ (by omega)
    have hsv : emaCol ps 0 (fieldAt fld raw) m = .flt (emaColF ps 0 (fieldAt fld raw) m) :=
      emaCol_flt _ _ _ _ (by omega)
    have hfa : readingByCandle (macdC2 nm (vf.roundBy defaultRound) (vs.roundBy defaultRound) (raw.getD m default))
        (nm ++ "_EMA_fast") = .flt (emaColF pf 0 (fieldAt fld raw) m) := by
      rw [macdC2_fast nm hn _ _ _ hc, e1', hfv]
    have hsl : readingByCandle (macdC2 nm (vf.roundBy defaultRound) (vs.roundBy defaultRound) (raw.getD m default))
        (nm ++ "_EMA_slow") = .flt (emaColF ps 0 (fieldAt fld raw) m) := by
      rw [macdC2_slow nm hn _ _ _ hc, e2', hsv]
    -- the signal line, on the candle carrying the temporary `{"MACD": m}`
    obtain ⟨v, hv, ev⟩ := ema_view_step H
      (setKey false nm (sdict [("MACD", sc (.flt (emaColF pf 0 (fieldAt fld raw) m - emaColF ps 0 (fieldAt fld raw) m)))])
        (macdC2 nm (vf.roundBy defaultRound) (vs.roundBy defaultRound) (raw.getD m default)))
      (nm ++ "_signal_line") (nm ++ ".MACD") pg (ps - 1) hg (by omega)
      (fun j => if j + 1 < ps then .none
        else .flt (if j < m then macdS n pf ps (fieldAt fld raw) j else macdU pf ps (fieldAt fld raw) j))
      (fun j => .flt (sigIn n pf ps pg (fieldAt fld raw) j))
      (by
        intro j hj
        rw [hHj j hj]
        unfold macdRow
        rw [macdC3_macd nm hn, macdOwn_nested]
        by_cases h : j + 1 < ps
        · rw [if_pos h, if_pos h]
        · rw [if_neg h, if_neg h, if_pos (by omega)])
      (by
        rw [rbc_tmp nm hn.dot, hHl, if_neg hw, if_neg (lt_irrefl m)]
        rfl)
      (by
        intro j _
        by_cases h : j + 1 < ps
        · rw [if_pos h]; simp; omega
        · rw [if_neg h]; simp [Val.flt]; omega)
      (by
        intro hseed k hk
        rw [if_neg (by omega)]
        unfold sigIn
        by_cases h : ps - 1 + k < m
        · rw [if_pos h, if_pos (by omega)]
        · rw [if_neg h, if_neg (by omega)])
      (by
        intro hcur
        rw [if_neg (by omega), if_neg (by omega)]
        unfold sigIn
        rw [if_neg (by omega)])
      (by
        rw [hlast]
        by_cases h0 : H.length = 0
        · simp [h0]
        · simp only [h0, if_false]
          unfold macdRow
          rw [macdC3_sig nm hn _ _ _ _ _ (hpl _ (by omega)), sigD_getD _ _ _ _ _ hg]
          rfl)
    rw [hHl] at ev
    have ev' : v.roundBy defaultRound = sigV n pf ps pg (fieldAt fld raw) m := ev
    have h3 := macdR_some (pg : Int) nm H _ _ _ v hfa hsl hv
    by_cases hw2 : m + 2 < ps + pg
    · -- no signal yet
      have hvn : v.roundBy defaultRound = .none := by
        rw [ev']; exact emaCol_none _ _ _ _ (by omega)
      have := macd_rowStep_ok nm n (pf : Int) (ps : Int) (pg : Int) input (by omega) (by omega) (by omega) hn hin H
        (raw.getD m default) vf vs _ _ _ h1 h2 h3 (by rw [hvn]; exact macdFin_none _)
      rw [this, e1', e2', hvn]
      unfold sigD macdOwn sigV
      rw [if_neg hw, if_neg hw, if_pos hw2, emaCol_none pg (ps - 1) _ m (by omega)]
      rfl
    · have hvf : v.roundBy defaultRound = .flt (sigF n pf ps pg (fieldAt fld raw) m) := by
        rw [ev']; exact emaCol_flt _ _ _ _ (by omega)
      have := macd_rowStep_ok nm n (pf : Int) (ps : Int) (pg : Int) input (by omega) (by omega) (by omega) hn hin H
        (raw.getD m default) vf vs _ _ _ h1 h2 h3 (by rw [hvf]; exact macdFin_flt _ _)
      rw [this, e1', e2', hvf]
      unfold sigD macdOwn sigV
      rw [if_neg hw, if_neg hw, if_neg hw2, emaCol_flt pg (ps - 1) _ m (by omega)]
      rfl

include hf hfs hg hattr hraw in
/-- **MACD, whole series.**  For EVERY raw candle list (`2 ≤ fast ≤ slow`, `1 ≤ signal`, input a candle
field) the row-major run of `macdTree` never raises and returns exactly `macdOut`: candle `j` is the
raw candle `j` carrying
* `<name>_EMA_fast`, `<name>_EMA_slow` (`.sub_indicators`): `emaCol fast 0 x j`, `emaCol slow 0 x j` – the
  EMA series of the input, rounded to 4 decimals, first reading at `fast − 1` / `slow − 1`;
* `<name>_signal_line` (`.sub_indicators`): no entry while `j < slow − 1`, then `sigV j` – `None` up to
  index `slow + signal − 3`, from `slow + signal − 2` on the EMA over the `MACD` column (`sigIn`);
* `<name>` (`.indicators`): the dict `macdOwn j`. -/
theorem macd_series :
    Gen.rowMajor (macdTreeN (K := K) nm n pf ps pg input (by omega) (by omega) hg hn hin).S raw
      = .ok (macdOut nm n pf ps pg fld raw) := by
  suffices h : ∀ m, m ≤ raw.length →
      Gen.rowMajor (macdTreeN (K := K) nm n pf ps pg input (by omega) (by omega) hg hn hin).S (raw.take m)
        = .ok (macdRows nm n pf ps pg fld raw m) by
    have := h raw.length (le_refl _)
    rwa [List.take_length] at this
  intro m
  induction m with
  | zero => intro _; rfl
  | succ m ih =>
    intro hm
    have htake : raw.take (m + 1) = raw.take m ++ [raw.getD m default] := by
      rw [List.take_add_one]
      congr 1
      rw [List.getD_eq_getElem?_getD, List.getElem?_eq_getElem (by omega)]
      rfl
    rw [htake, Gen.rowMajor_append, ih (by omega)]
    simp only [pym_bind_ok, Gen.rowMajorFrom, List.foldlM_cons, List.foldlM_nil]
    rw [macd_row_step nm n pf ps pg input fld hf hfs hg hn hin hattr raw hraw m (by omega)]
    simp only [pym_bind_ok, pym_pure]
    rw [macdRows_succ]

include hf hfs hg hn hin hattr hraw in
/-- **the engine's `calculate()`** on the raw list returns exactly `macdOut` -/
theorem macd_engine :
    engineCalc (mkTop (.macd (pf : Int) (ps : Int) (pg : Int) input : Kind K) nm n) raw
      = .ok (macdOut nm n pf ps pg fld raw) := by
  have h := macd_series nm n pf ps pg input fld hf hfs hg hn hin hattr raw hraw
  have := ((macdTreeN (K := K) nm n pf ps pg input (by omega) (by omega) hg hn hin).engine [] raw [] _ rfl (by simp)
    hraw).2 (by simpa using h)
  simpa using this

include hf hfs hg hn hin hattr hraw in
/-- **the batch run** (build the indicator over the whole stream, `calculate()` once) returns
exactly `macdOut` -/
theorem macd_batch :
    candlesOf (runIndicator (mkTop (.macd (pf : Int) (ps : Int) (pg : Int) input : Kind K) nm n) {} raw [])
      = .ok (macdOut nm n pf ps pg fld raw) :=
  ((macdTreeN (K := K) nm n pf ps pg input (by omega) (by omega) hg hn hin).batch_iff (MgrSpec.base K) raw hraw _).2
    (macd_series nm n pf ps pg input fld hf hfs hg hn hin hattr raw hraw)

include hf hfs hg hn hin hattr hraw in
/-- **whenever the batch run returns, its candles are exactly `macdOut`** (and it does return:
`macd_batch`) -/
theorem macd_batch_out (out : List (Candle K))
    (hout : candlesOf (runIndicator (mkTop (.macd (pf : Int) (ps : Int) (pg : Int) input : Kind K) nm n) {} raw [])
      = .ok out) : out = macdOut nm n pf ps pg fld raw := by
  rw [macd_batch nm n pf ps pg input fld hf hfs hg hn hin hattr raw hraw] at hout
  exact (Except.ok.inj hout).symm

end step

/-- **… for every append schedule**: whenever a live history (construction over `init`,
`calculate()`, then any appends) returns, its candles are `macdOut` of the whole stream -/
theorem macd_live (nm : String) (n pf ps pg : Nat) (input : String) (fld : Candle K → Num K)
    (hf : 2 ≤ pf) (hfs : pf ≤ ps) (hg : 1 ≤ pg) (hn : MacdNames nm)
    (hin : NoDot input ∧ input ∈ Candle.attrNames)
    (hattr : ∀ c : Candle K, c.attr input = some (.num (fld c)))
    (init : List (Candle K)) (chunks : List (List (Candle K)))
    (hraw : ∀ c ∈ init ++ chunks.flatten, Plain c) (snap : List (Candle K))
    (hsnap : candlesOf (runIndicator (mkTop (.macd (pf : Int) (ps : Int) (pg : Int) input : Kind K) nm n) {}
      init chunks) = .ok snap) :
    snap = macdOut nm n pf ps pg fld (init ++ chunks.flatten) := by
  have h := (macdTreeN (K := K) nm n pf ps pg input (by omega) (by omega) hg hn hin).live_refines (MgrSpec.base K)
    init chunks hraw snap hsnap
  have h' : Gen.rowMajor (macdTreeN (K := K) nm n pf ps pg input (by omega) (by omega) hg hn hin).S
      (init ++ chunks.flatten) = .ok snap := h
  rw [macd_series nm n pf ps pg input fld hf hfs hg hn hin hattr _ hraw] at h'
  exact (Except.ok.inj h').symm


/-! ### the textbook series and the rounding budgets -/

theorem macd_abs_tri (a b c e1 e2 : K) (h1 : |a - b| ≤ e1) (h2 : |b - c| ≤ e2) : |a - c| ≤ e1 + e2 :=
  le_trans (abs_sub_le a b c) (add_le_add h1 h2)

/-- the textbook EMA of `x` (`C04.ema_series` with smoothing 2): seeded at index `p − 1` with the mean
of `x 0 … x (p−1)`, then `r j = a·x j + (1 − a)·r (j−1)`, `a = 2/(p+1)` -/
def emaTextbook (p : Nat) (x : Nat → K) : Nat → K := recExact (emaAlpha p) (winMean x p (p - 1)) x p

theorem emaColExact_zero (p : Nat) (x : Nat → K) : emaColExact p 0 x = emaTextbook p x := by
  unfold emaColExact emaTextbook; simp

/-- the helper columns are the EMA series of `C04.ema_series`: `None` before index `p − 1`, then within
`ε₄/a` of the textbook EMA -/
theorem helper_ok (p : Nat) (hp : 1 ≤ p) (x : Nat → K) (j : Nat) :
    RecOK p defaultRound (emaAlpha p) (emaTextbook p x) j (emaCol p 0 x j) := by
  have := emaCol_ok p 0 hp x j
  rwa [emaColExact_zero, Nat.zero_add] at this

/-- the exponential average does not amplify a uniform perturbation of its inputs -/
theorem emaColExact_perturb (p o : Nat) (hp : 1 ≤ p) (x x' : Nat → K) (δ : K)
    (h : ∀ j, |x' j - x j| ≤ δ) (j : Nat) : |emaColExact p o x' j - emaColExact p o x j| ≤ δ := by
  unfold emaColExact
  apply recExact_perturb _ (emaAlpha_pos p).le (emaAlpha_le_one p hp)
  · unfold winMean
    exact mean_perturb p hp _ _ _ (fun k _ => h _)
  · exact h

section budgets
variable (n pf ps pg : Nat) (x : Nat → K)

/-- the textbook MACD line: EMA_fast − EMA_slow of the input -/
def macdExact (j : Nat) : K := emaTextbook pf x j - emaTextbook ps x j

/-- the textbook signal line: the EMA (period `signal`) of the MACD line, which starts at `slow − 1` -/
def sigExact : Nat → K := emaColExact pg (ps - 1) (macdExact pf ps x)

/-- the three textbook series with their warm-up: MACD from `slow − 1`, signal and histogram from
`slow + signal − 2` -/
def macdLine (j : Nat) : Option K := if j + 1 < ps then none else some (macdExact pf ps x j)
def signalLine (j : Nat) : Option K := if j + 2 < ps + pg then none else some (sigExact pf ps pg x j)
def histLine (j : Nat) : Option K :=
  if j + 2 < ps + pg then none else some (macdExact pf ps x j - sigExact pf ps pg x j)

/-- a stored field against a textbook value: `None` where the series has no value, otherwise a float
within the budget `b` -/
def MacdFieldOK (b : K) (o : Option K) (v : Val K) : Prop :=
  match o with
  | none => v = .none
  | some e => ∃ y, v = .flt y ∧ |y - e| ≤ b

/-- what the two rounded helper readings contribute: `ε₄/a_fast + ε₄/a_slow` -/
def macdHelperBudget : K := eps K defaultRound / emaAlpha pf + eps K defaultRound / emaAlpha ps

/-- the signal line's own budget `ε₄/a_signal`, plus `ε_n` for the rounded stored MACD values in its seed -/
def macdSignalBudget : K := eps K defaultRound / emaAlpha pg + eps K n

theorem macdU_err (hf : 1 ≤ pf) (hs : 1 ≤ ps) (j : Nat) :
    |macdU pf ps x j - macdExact pf ps x j| ≤ macdHelperBudget (K := K) pf ps := by
  have h1 := emaColF_err pf 0 hf x j
  have h2 := emaColF_err ps 0 hs x j
  rw [emaColExact_zero] at h1 h2
  unfold macdU macdExact macdHelperBudget
  have e : emaColF pf 0 x j - emaColF ps 0 x j - (emaTextbook pf x j - emaTextbook ps x j)
      = (emaColF pf 0 x j - emaTextbook pf x j) - (emaColF ps 0 x j - emaTextbook ps x j) := by ring
  rw [e]
  exact le_trans (abs_sub _ _) (add_le_add h1 h2)

theorem macdS_err (j : Nat) : |macdS n pf ps x j - macdU pf ps x j| ≤ eps K n :=
  LawfulPyF.round_err n _

theorem sigIn_err (j : Nat) : |sigIn n pf ps pg x j - macdU pf ps x j| ≤ eps K n := by
  unfold sigIn
  by_cases h : j + 2 < ps + pg
  · rw [if_pos h]; exact macdS_err n pf ps x j
  · rw [if_neg h, sub_self, abs_zero]; exact (eps_pos K n).le

/-- the stored signal line against the EMA of the inputs it actually read -/
theorem sigV_ok (hg : 1 ≤ pg) (j : Nat) :
    RecOK (ps - 1 + pg) defaultRound (emaAlpha pg) (emaColExact pg (ps - 1) (sigIn n pf ps pg x)) j
      (sigV n pf ps pg x j) :=
  emaCol_ok pg (ps - 1) hg _ j

/-- the stored signal line against the textbook EMA of the UNROUNDED MACD column `macdU` -/
theorem sigF_err_macdU (hg : 1 ≤ pg) (j : Nat) :
    |sigF n pf ps pg x j - emaColExact pg (ps - 1) (macdU pf ps x) j| ≤ macdSignalBudget (K := K) n pg :=
  macd_abs_tri _ _ _ _ _ (emaColF_err pg (ps - 1) hg _ j)
    (emaColExact_perturb pg (ps - 1) hg _ _ _ (sigIn_err n pf ps pg x) j)

/-- the stored signal line against the textbook signal line of the raw input -/
theorem sigF_err (hf : 1 ≤ pf) (hs : 1 ≤ ps) (hg : 1 ≤ pg) (j : Nat) :
    |sigF n pf ps pg x j - sigExact pf ps pg x j| ≤ macdSignalBudget (K := K) n pg + macdHelperBudget (K := K) pf ps :=
  macd_abs_tri _ _ _ _ _ (sigF_err_macdU n pf ps pg x hg j)
    (emaColExact_perturb pg (ps - 1) hg _ _ _ (macdU_err pf ps x hf hs) j)

theorem macdOwn_signal (hg : 1 ≤ pg) (j : Nat) :
    (macdOwn n pf ps pg x j).nested "signal"
      = if j + 2 < ps + pg then .none else .flt (PyF.round n (sigF n pf ps pg x j)) := by
  unfold macdOwn
  by_cases h1 : j + 1 < ps
  · rw [if_pos h1, if_pos (by omega)]; rfl
  · rw [if_neg h1]
    by_cases h2 : j + 2 < ps + pg
    · rw [if_pos h2, if_pos h2]; rfl
    · rw [if_neg h2, if_neg h2]; rfl

theorem macdOwn_hist (hg : 1 ≤ pg) (j : Nat) :
    (macdOwn n pf ps pg x j).nested "histogram"
      = if j + 2 < ps + pg then .none else .flt (PyF.round n (macdU pf ps x j - sigF n pf ps pg x j)) := by
  unfold macdOwn
  by_cases h1 : j + 1 < ps
  · rw [if_pos h1, if_pos (by omega)]; rfl
  · rw [if_neg h1]
    by_cases h2 : j + 2 < ps + pg
    · rw [if_pos h2, if_pos h2]; rfl
    · rw [if_neg h2, if_neg h2]; rfl

/-- **the stored own dict against the textbook MACD / signal / histogram of the raw input.**
`MACD`: `None` before `slow − 1`, then within `ε_n + macdHelperBudget`; `signal`: `None` before
`slow + signal − 2`, then within `ε_n + macdSignalBudget + macdHelperBudget`; `histogram`: same warm-up, within
`ε_n + macdSignalBudget + 2·macdHelperBudget`. -/
theorem macdOwn_ok (hf : 1 ≤ pf) (hfs : pf ≤ ps) (hg : 1 ≤ pg) (j : Nat) :
    MacdFieldOK (eps K n + macdHelperBudget (K := K) pf ps) (macdLine pf ps x j)
      ((macdOwn n pf ps pg x j).nested "MACD") ∧
    MacdFieldOK (eps K n + (macdSignalBudget (K := K) n pg + macdHelperBudget (K := K) pf ps)) (signalLine pf ps pg x j)
      ((macdOwn n pf ps pg x j).nested "signal") ∧
    MacdFieldOK (eps K n + (macdHelperBudget (K := K) pf ps + (macdSignalBudget (K := K) n pg + macdHelperBudget (K := K) pf ps)))
      (histLine pf ps pg x j) ((macdOwn n pf ps pg x j).nested "histogram") := by
  have hs : 1 ≤ ps := by omega
  refine ⟨?_, ?_, ?_⟩
  · rw [macdOwn_nested]
    unfold macdLine
    by_cases h : j + 1 < ps
    · rw [if_pos h, if_pos h]; rfl
    · rw [if_neg h, if_neg h]
      exact ⟨_, rfl, macd_abs_tri _ _ _ _ _ (macdS_err n pf ps x j) (macdU_err pf ps x hf hs j)⟩
  · rw [macdOwn_signal n pf ps pg x hg]
    unfold signalLine
    by_cases h : j + 2 < ps + pg
    · rw [if_pos h, if_pos h]; rfl
    · rw [if_neg h, if_neg h]
      exact ⟨_, rfl, macd_abs_tri _ _ _ _ _ (LawfulPyF.round_err n _) (sigF_err n pf ps pg x hf hs hg j)⟩
  · rw [macdOwn_hist n pf ps pg x hg]
    unfold histLine
    by_cases h : j + 2 < ps + pg
    · rw [if_pos h, if_pos h]; rfl
    · rw [if_neg h, if_neg h]
      refine ⟨_, rfl, macd_abs_tri _ _ _ _ _ (LawfulPyF.round_err n _) ?_⟩
      have e : macdU pf ps x j - sigF n pf ps pg x j - (macdExact pf ps x j - sigExact pf ps pg x j)
          = (macdU pf ps x j - macdExact pf ps x j) - (sigF n pf ps pg x j - sigExact pf ps pg x j) := by ring
      rw [e]
      exact le_trans (abs_sub _ _) (add_le_add (macdU_err pf ps x hf hs j) (sigF_err n pf ps pg x hf hs hg j))

/-- **histogram = MACD − signal on the STORED values**, up to the own rounding of the three fields:
from index `slow + signal − 2` on the three stored fields are floats `M`, `S`, `Hh` with
`|Hh − (M − S)| ≤ 3·ε_n` (each is the rounding of `m`, `s`, `m − s` for the same unrounded `m`, `s`) -/
theorem macdOwn_hist_eq (hg : 1 ≤ pg) (j : Nat) (h : ps + pg ≤ j + 2) :
    ∃ M S Hh : K, macdOwn n pf ps pg x j = sdict [("MACD", sc (.flt M)), ("signal", sc (.flt S)), ("histogram", sc (.flt Hh))] ∧
      |Hh - (M - S)| ≤ 3 * eps K n := by
  refine ⟨macdS n pf ps x j, PyF.round n (sigF n pf ps pg x j),
    PyF.round n (macdU pf ps x j - sigF n pf ps pg x j), ?_, ?_⟩
  · unfold macdOwn
    rw [if_neg (by omega), if_neg (by omega)]
  · have h1 := LawfulPyF.round_err (K := K) n (macdU pf ps x j - sigF n pf ps pg x j)
    have h2 := macdS_err n pf ps x j
    have h3 := LawfulPyF.round_err (K := K) n (sigF n pf ps pg x j)
    unfold macdS at *
    rw [abs_le] at *
    constructor <;> linarith [h1.1, h1.2, h2.1, h2.2, h3.1, h3.2]

end budgets


/-! ### the finished candles, reading by reading -/

theorem splitDot_signal (name : String) (h : NoDot name) : splitDot (name ++ ".signal") = [name, "signal"] := by
  have hm := noDot_not_mem name h
  unfold splitDot
  have e : (name ++ ".signal").toList = name.toList ++ '.' :: "signal".toList := by
    rw [String.toList_append]; rfl
  rw [e, List.splitOn_append_cons_self_of_not_mem hm, List.splitOn_eq_singleton (by decide)]
  simp

theorem splitDot_histogram (name : String) (h : NoDot name) :
    splitDot (name ++ ".histogram") = [name, "histogram"] := by
  have hm := noDot_not_mem name h
  unfold splitDot
  have e : (name ++ ".histogram").toList = name.toList ++ '.' :: "histogram".toList := by
    rw [String.toList_append]; rfl
  rw [e, List.splitOn_append_cons_self_of_not_mem hm, List.splitOn_eq_singleton (by decide)]
  simp

theorem rbc_dotted_own (N key f : String) (hdot : splitDot key = [N, f]) (t : Val K) (c : Candle K) :
    readingByCandle (setKey false N t c) key = t.nested f := by
  unfold readingByCandle
  rw [hdot]
  simp [setKey, dlookup_dset_self]

section readings
variable (nm : String) (n pf ps pg : Nat) (fld : Candle K → Num K) (raw : List (Candle K))

theorem macdOut_length : (macdOut nm n pf ps pg fld raw).length = raw.length :=
  macdRows_length nm n pf ps pg fld raw raw.length

theorem macdOut_getD (j : Nat) (hj : j < raw.length) :
    (macdOut nm n pf ps pg fld raw).getD j default = macdRow nm n pf ps pg fld raw j :=
  macdRows_getD nm n pf ps pg fld raw raw.length j hj

/-- candle `j` of `macdOut` is the raw candle `j` and reads the stored series under the four keys
(and the fields of the own dict under the dotted names) -/
theorem macdOut_readings (hn : MacdNames nm) (hg : 1 ≤ pg) (hraw : ∀ c ∈ raw, Plain c) (j : Nat)
    (hj : j < raw.length) :
    ((macdOut nm n pf ps pg fld raw).getD j default).bare = (raw.getD j default).bare ∧
    readingByCandle ((macdOut nm n pf ps pg fld raw).getD j default) (nm ++ "_EMA_fast")
      = emaCol pf 0 (fieldAt fld raw) j ∧
    readingByCandle ((macdOut nm n pf ps pg fld raw).getD j default) (nm ++ "_EMA_slow")
      = emaCol ps 0 (fieldAt fld raw) j ∧
    readingByCandle ((macdOut nm n pf ps pg fld raw).getD j default) (nm ++ "_signal_line")
      = sigV n pf ps pg (fieldAt fld raw) j ∧
    readingByCandle ((macdOut nm n pf ps pg fld raw).getD j default) nm
      = macdOwn n pf ps pg (fieldAt fld raw) j ∧
    readingByCandle ((macdOut nm n pf ps pg fld raw).getD j default) (nm ++ ".MACD")
      = (macdOwn n pf ps pg (fieldAt fld raw) j).nested "MACD" ∧
    readingByCandle ((macdOut nm n pf ps pg fld raw).getD j default) (nm ++ ".signal")
      = (macdOwn n pf ps pg (fieldAt fld raw) j).nested "signal" ∧
    readingByCandle ((macdOut nm n pf ps pg fld raw).getD j default) (nm ++ ".histogram")
      = (macdOwn n pf ps pg (fieldAt fld raw) j).nested "histogram" := by
  have hc := getD_plain raw hraw j hj
  rw [macdOut_getD nm n pf ps pg fld raw j hj]
  unfold macdRow
  refine ⟨macdC3_bare nm _ _ _ _ _, macdC3_fast nm hn _ _ _ _ _ hc, macdC3_slow nm hn _ _ _ _ _ hc, ?_, macdC3_own nm hn _ _ _ _ _,
    macdC3_macd nm hn _ _ _ _ _, ?_, ?_⟩
  · rw [macdC3_sig nm hn _ _ _ _ _ hc, sigD_getD _ _ _ _ _ hg]
  · exact rbc_dotted_own nm _ "signal" (splitDot_signal nm hn.kN.noDot) _ _
  · exact rbc_dotted_own nm _ "histogram" (splitDot_histogram nm hn.kN.noDot) _ _

end readings

/-- what is claimed of candle `j` of a MACD run (`x` = the input series of the raw candles):
the raw candle, with
* the two helper readings `RecOK` w.r.t. the textbook EMAs of the input (`C04.ema_series`);
* the signal-line reading `RecOK` (warm-up `slow + signal − 2`, budget `ε₄/a`) w.r.t. the EMA of the
  MACD values it reads (`sigIn`: stored = rounded MACD of earlier candles in the seed, unrounded MACD of
  the current candle);
* the three fields of the own dict `MacdFieldOK` w.r.t. the textbook MACD / signal / histogram of the raw
  input, with the explicit budgets;
* and, once there is a signal, `histogram = MACD − signal` on the stored values up to `3·ε_n`. -/
def MacdCandleOK (nm : String) (n pf ps pg : Nat) (x : Nat → K) (j : Nat) (r c : Candle K) : Prop :=
  c.bare = r.bare ∧
  RecOK pf defaultRound (emaAlpha pf) (emaTextbook pf x) j (readingByCandle c (nm ++ "_EMA_fast")) ∧
  RecOK ps defaultRound (emaAlpha ps) (emaTextbook ps x) j (readingByCandle c (nm ++ "_EMA_slow")) ∧
  RecOK (ps - 1 + pg) defaultRound (emaAlpha pg) (emaColExact pg (ps - 1) (sigIn n pf ps pg x)) j
    (readingByCandle c (nm ++ "_signal_line")) ∧
  MacdFieldOK (eps K n + macdHelperBudget (K := K) pf ps) (macdLine pf ps x j) (readingByCandle c (nm ++ ".MACD")) ∧
  MacdFieldOK (eps K n + (macdSignalBudget (K := K) n pg + macdHelperBudget (K := K) pf ps)) (signalLine pf ps pg x j)
    (readingByCandle c (nm ++ ".signal")) ∧
  MacdFieldOK (eps K n + (macdHelperBudget (K := K) pf ps + (macdSignalBudget (K := K) n pg + macdHelperBudget (K := K) pf ps)))
    (histLine pf ps pg x j) (readingByCandle c (nm ++ ".histogram")) ∧
  (j + 1 < ps → readingByCandle c nm = macdNone) ∧
  (ps + pg ≤ j + 2 → ∃ M S Hh : K,
    readingByCandle c nm = sdict [("MACD", sc (.flt M)), ("signal", sc (.flt S)), ("histogram", sc (.flt Hh))] ∧
    |Hh - (M - S)| ≤ 3 * eps K n)

theorem macdOut_ok (nm : String) (n pf ps pg : Nat) (fld : Candle K → Num K) (raw : List (Candle K))
    (hf : 1 ≤ pf) (hfs : pf ≤ ps) (hg : 1 ≤ pg) (hn : MacdNames nm) (hraw : ∀ c ∈ raw, Plain c)
    (j : Nat) (hj : j < raw.length) :
    MacdCandleOK nm n pf ps pg (fieldAt fld raw) j (raw.getD j default)
      ((macdOut nm n pf ps pg fld raw).getD j default) := by
  obtain ⟨r1, r2, r3, r4, r5, r6, r7, r8⟩ := macdOut_readings nm n pf ps pg fld raw hn hg hraw j hj
  obtain ⟨o1, o2, o3⟩ := macdOwn_ok n pf ps pg (fieldAt fld raw) hf hfs hg j
  refine ⟨r1, ?_, ?_, ?_, ?_, ?_, ?_, ?_, ?_⟩
  · rw [r2]; exact helper_ok pf hf _ j
  · rw [r3]; exact helper_ok ps (by omega) _ j
  · rw [r4]; exact sigV_ok n pf ps pg _ hg j
  · rw [r6]; exact o1
  · rw [r7]; exact o2
  · rw [r8]; exact o3
  · intro h; rw [r5]; unfold macdOwn; rw [if_pos h]
  · intro h; rw [r5]; exact macdOwn_hist_eq n pf ps pg _ hg j h

/-- **MACD, whole series, reading by reading** (the MACD item of `C06.C06_FULL`): for EVERY raw candle
list the row-major run of `macdTree` returns a list of the raw candles' length whose candle `j`
satisfies `MacdCandleOK`. -/
theorem macd_series_readings (nm : String) (n pf ps pg : Nat) (input : String) (fld : Candle K → Num K)
    (hf : 2 ≤ pf) (hfs : pf ≤ ps) (hg : 1 ≤ pg) (hn : MacdNames nm)
    (hin : NoDot input ∧ input ∈ Candle.attrNames)
    (hattr : ∀ c : Candle K, c.attr input = some (.num (fld c)))
    (raw : List (Candle K)) (hraw : ∀ c ∈ raw, Plain c) :
    ∃ out : List (Candle K),
      Gen.rowMajor (macdTreeN (K := K) nm n pf ps pg input (by omega) (by omega) hg hn hin).S raw = .ok out ∧
      out.length = raw.length ∧
      ∀ j, j < raw.length →
        MacdCandleOK nm n pf ps pg (fieldAt fld raw) j (raw.getD j default) (out.getD j default) :=
  ⟨_, macd_series nm n pf ps pg input fld hf hfs hg hn hin hattr raw hraw, macdOut_length nm n pf ps pg fld raw,
    macdOut_ok nm n pf ps pg fld raw (by omega) hfs hg hn hraw⟩

/-- the engine's `calculate()`, reading by reading -/
theorem macd_engine_readings (nm : String) (n pf ps pg : Nat) (input : String) (fld : Candle K → Num K)
    (hf : 2 ≤ pf) (hfs : pf ≤ ps) (hg : 1 ≤ pg) (hn : MacdNames nm)
    (hin : NoDot input ∧ input ∈ Candle.attrNames)
    (hattr : ∀ c : Candle K, c.attr input = some (.num (fld c)))
    (raw : List (Candle K)) (hraw : ∀ c ∈ raw, Plain c) :
    ∃ out : List (Candle K),
      engineCalc (mkTop (.macd (pf : Int) (ps : Int) (pg : Int) input : Kind K) nm n) raw = .ok out ∧
      out.length = raw.length ∧
      ∀ j, j < raw.length →
        MacdCandleOK nm n pf ps pg (fieldAt fld raw) j (raw.getD j default) (out.getD j default) :=
  ⟨_, macd_engine nm n pf ps pg input fld hf hfs hg hn hin hattr raw hraw, macdOut_length nm n pf ps pg fld raw,
    macdOut_ok nm n pf ps pg fld raw (by omega) hfs hg hn hraw⟩

/-- **whenever the batch run returns, its candles carry exactly those readings** (and it does
return: `macd_batch`) -/
theorem macd_batch_readings (nm : String) (n pf ps pg : Nat) (input : String) (fld : Candle K → Num K)
    (hf : 2 ≤ pf) (hfs : pf ≤ ps) (hg : 1 ≤ pg) (hn : MacdNames nm)
    (hin : NoDot input ∧ input ∈ Candle.attrNames)
    (hattr : ∀ c : Candle K, c.attr input = some (.num (fld c)))
    (raw : List (Candle K)) (hraw : ∀ c ∈ raw, Plain c) (out : List (Candle K))
    (hout : candlesOf (runIndicator (mkTop (.macd (pf : Int) (ps : Int) (pg : Int) input : Kind K) nm n) {} raw [])
      = .ok out) :
    out.length = raw.length ∧
    ∀ j, j < raw.length →
      MacdCandleOK nm n pf ps pg (fieldAt fld raw) j (raw.getD j default) (out.getD j default) := by
  rw [macd_batch_out nm n pf ps pg input fld hf hfs hg hn hin hattr raw hraw out hout]
  exact ⟨macdOut_length nm n pf ps pg fld raw, macdOut_ok nm n pf ps pg fld raw (by omega) hfs hg hn hraw⟩


/-! ### non-vacuity: the five demo candles of HexProps/C04.lean over ℚ, `MACD(2, 3, 2)` on `close` -/

/-- the five raw candles `C04.demoRaw` -/
def macdDemoRaw : List (Candle ℚ) :=
  [Demo.mk 10 12 9 11 100, Demo.mk 11 13 10 12 200, Demo.mk 12 15 11 14 300, Demo.mk 14 16 13 15 0,
   Demo.mk 15 15 15 15 0]

theorem macdDemoRaw_plain : ∀ c ∈ macdDemoRaw, Plain c := by
  intro c hc
  simp only [macdDemoRaw, List.mem_cons, List.not_mem_nil, or_false] at hc
  rcases hc with rfl | rfl | rfl | rfl | rfl <;> exact ⟨rfl, rfl⟩

theorem macdNames_demo : MacdNames "MACD_2_3_2" :=
  ⟨by decide, by decide, by decide, by decide, by decide, by decide, by decide, by decide, by decide, by decide⟩

/-- closes 11, 12, 14, 15, 15 -/
abbrev macdDemoX : Nat → ℚ := fieldAt (·.c) macdDemoRaw

theorem macdDemoX_vals : macdDemoX 0 = 11 ∧ macdDemoX 1 = 12 ∧ macdDemoX 2 = 14 ∧ macdDemoX 3 = 15 ∧ macdDemoX 4 = 15 := by
  refine ⟨?_, ?_, ?_, ?_, ?_⟩ <;> simp [macdDemoX, fieldAt, macdDemoRaw, Demo.mk]

/-- the stored fast EMA column (`a = 2/3`): `None, 11.5, 13.1667, 14.3889, 14.7963` -/
theorem macdDemo_fast : emaColF 2 0 macdDemoX 1 = 23 / 2 ∧ emaColF 2 0 macdDemoX 2 = 131667 / 10000 ∧
    emaColF 2 0 macdDemoX 3 = 143889 / 10000 ∧ emaColF 2 0 macdDemoX 4 = 147963 / 10000 := by
  obtain ⟨x0, x1, x2, x3, x4⟩ := macdDemoX_vals
  have h1 : emaColF 2 0 macdDemoX 1 = 23 / 2 := by
    simp only [emaColF, recSt, emaAlpha, rsum, List.range_succ, List.range_zero]
    norm_num [x0, x1, decRound, PyF.round, defaultRound]
  have h2 : emaColF 2 0 macdDemoX 2 = 131667 / 10000 := by
    have : emaColF 2 0 macdDemoX 2 = PyF.round defaultRound (emaAlpha 2 * macdDemoX 2 + emaColF 2 0 macdDemoX 1 * (1 - emaAlpha 2)) :=
      recSt_step _ _ _ _ _ _ (by norm_num) (by norm_num)
    rw [this, h1, x2]
    norm_num [emaAlpha, decRound, PyF.round, defaultRound]
  have h3 : emaColF 2 0 macdDemoX 3 = 143889 / 10000 := by
    have : emaColF 2 0 macdDemoX 3 = PyF.round defaultRound (emaAlpha 2 * macdDemoX 3 + emaColF 2 0 macdDemoX 2 * (1 - emaAlpha 2)) :=
      recSt_step _ _ _ _ _ _ (by norm_num) (by norm_num)
    rw [this, h2, x3]
    norm_num [emaAlpha, decRound, PyF.round, defaultRound]
  have h4 : emaColF 2 0 macdDemoX 4 = 147963 / 10000 := by
    have : emaColF 2 0 macdDemoX 4 = PyF.round defaultRound (emaAlpha 2 * macdDemoX 4 + emaColF 2 0 macdDemoX 3 * (1 - emaAlpha 2)) :=
      recSt_step _ _ _ _ _ _ (by norm_num) (by norm_num)
    rw [this, h3, x4]
    norm_num [emaAlpha, decRound, PyF.round, defaultRound]
  exact ⟨h1, h2, h3, h4⟩


/-- the stored slow EMA column (`a = 1/2`): `None, None, 12.3333, 13.6667, 14.3334` -/
theorem macdDemo_slow : emaColF 3 0 macdDemoX 2 = 123333 / 10000 ∧ emaColF 3 0 macdDemoX 3 = 136667 / 10000 ∧
    emaColF 3 0 macdDemoX 4 = 143334 / 10000 := by
  obtain ⟨x0, x1, x2, x3, x4⟩ := macdDemoX_vals
  have h2 : emaColF 3 0 macdDemoX 2 = 123333 / 10000 := by
    simp only [emaColF, recSt, emaAlpha, rsum, List.range_succ, List.range_zero]
    norm_num [x0, x1, x2, decRound, PyF.round, defaultRound]
  have h3 : emaColF 3 0 macdDemoX 3 = 136667 / 10000 := by
    have : emaColF 3 0 macdDemoX 3 = PyF.round defaultRound (emaAlpha 3 * macdDemoX 3 + emaColF 3 0 macdDemoX 2 * (1 - emaAlpha 3)) :=
      recSt_step _ _ _ _ _ _ (by norm_num) (by norm_num)
    rw [this, h2, x3]
    norm_num [emaAlpha, decRound, PyF.round, defaultRound]
  have h4 : emaColF 3 0 macdDemoX 4 = 143334 / 10000 := by
    have : emaColF 3 0 macdDemoX 4 = PyF.round defaultRound (emaAlpha 3 * macdDemoX 4 + emaColF 3 0 macdDemoX 3 * (1 - emaAlpha 3)) :=
      recSt_step _ _ _ _ _ _ (by norm_num) (by norm_num)
    rw [this, h3, x4]
    norm_num [emaAlpha, decRound, PyF.round, defaultRound]
  exact ⟨h2, h3, h4⟩

/-- the unrounded MACD values: `0.8334, 0.7222, 0.4629` on candles 2, 3, 4 -/
theorem macdDemo_macdU : macdU 2 3 macdDemoX 2 = 8334 / 10000 ∧ macdU 2 3 macdDemoX 3 = 7222 / 10000 ∧
    macdU 2 3 macdDemoX 4 = 4629 / 10000 := by
  obtain ⟨_, f2, f3, f4⟩ := macdDemo_fast
  obtain ⟨s2, s3, s4⟩ := macdDemo_slow
  unfold macdU
  rw [f2, f3, f4, s2, s3, s4]
  norm_num

theorem macdDemo_macdS : macdS 4 2 3 macdDemoX 2 = 8334 / 10000 ∧ macdS 4 2 3 macdDemoX 3 = 7222 / 10000 ∧
    macdS 4 2 3 macdDemoX 4 = 4629 / 10000 := by
  obtain ⟨u2, u3, u4⟩ := macdDemo_macdU
  unfold macdS
  rw [u2, u3, u4]
  norm_num [decRound, PyF.round]

/-- the stored signal line: seeded on candle 3 with `(0.8334 + 0.7222)/2 = 0.7778`, then
`round₄(2/3·0.4629 + 0.7778/3) = 0.5679` -/
theorem macdDemo_sig : sigF 4 2 3 2 macdDemoX 3 = 7778 / 10000 ∧ sigF 4 2 3 2 macdDemoX 4 = 5679 / 10000 := by
  obtain ⟨u2, u3, u4⟩ := macdDemo_macdU
  obtain ⟨m2, m3, m4⟩ := macdDemo_macdS
  have i2 : sigIn 4 2 3 2 macdDemoX 2 = 8334 / 10000 := by unfold sigIn; rw [if_pos (by norm_num), m2]
  have i3 : sigIn 4 2 3 2 macdDemoX 3 = 7222 / 10000 := by unfold sigIn; rw [if_neg (by norm_num), u3]
  have i4 : sigIn 4 2 3 2 macdDemoX 4 = 4629 / 10000 := by unfold sigIn; rw [if_neg (by norm_num), u4]
  have h3 : sigF 4 2 3 2 macdDemoX 3 = 7778 / 10000 := by
    have : sigF 4 2 3 2 macdDemoX 3 = PyF.round defaultRound
        (rsum 2 (fun k => sigIn 4 2 3 2 macdDemoX (3 - 1 + k)) / (2 : Nat)) :=
      recSt_seed _ _ _ _ _ _ (by norm_num)
    rw [this]
    simp only [rsum, List.range_succ, List.range_zero]
    norm_num [i2, i3, decRound, PyF.round, defaultRound]
  have h4 : sigF 4 2 3 2 macdDemoX 4 = 5679 / 10000 := by
    have : sigF 4 2 3 2 macdDemoX 4 = PyF.round defaultRound
        (emaAlpha 2 * sigIn 4 2 3 2 macdDemoX 4 + sigF 4 2 3 2 macdDemoX 3 * (1 - emaAlpha 2)) :=
      recSt_step _ _ _ _ _ _ (by norm_num) (by norm_num)
    rw [this, h3, i4]
    norm_num [emaAlpha, decRound, PyF.round, defaultRound]
  exact ⟨h3, h4⟩

/-- the stored own dicts of candles 1 … 4 -/
theorem macdDemo_own :
    macdOwn 4 2 3 2 macdDemoX 1 = macdNone ∧
    macdOwn 4 2 3 2 macdDemoX 2 = sdict [("MACD", sc (.flt (8334 / 10000))), ("signal", .none), ("histogram", .none)] ∧
    macdOwn 4 2 3 2 macdDemoX 3 = sdict [("MACD", sc (.flt (7222 / 10000))), ("signal", sc (.flt (7778 / 10000))),
      ("histogram", sc (.flt (-556 / 10000)))] ∧
    macdOwn 4 2 3 2 macdDemoX 4 = sdict [("MACD", sc (.flt (4629 / 10000))), ("signal", sc (.flt (5679 / 10000))),
      ("histogram", sc (.flt (-1050 / 10000)))] := by
  obtain ⟨u2, u3, u4⟩ := macdDemo_macdU
  obtain ⟨m2, m3, m4⟩ := macdDemo_macdS
  obtain ⟨g3, g4⟩ := macdDemo_sig
  refine ⟨?_, ?_, ?_, ?_⟩
  · unfold macdOwn; rw [if_pos (by norm_num)]
  · unfold macdOwn; rw [if_neg (by norm_num), if_pos (by norm_num), m2]
  · unfold macdOwn; rw [if_neg (by norm_num), if_neg (by norm_num), m3, g3, u3]
    norm_num [decRound, PyF.round]
  · unfold macdOwn; rw [if_neg (by norm_num), if_neg (by norm_num), m4, g4, u4]
    norm_num [decRound, PyF.round]

/-- **the batch run on the demo candles** returns, and its candles carry: no `signal_line` entry and
an all-`None` dict on candle 1; `{MACD: 0.8334, signal: None, histogram: None}` on candle 2 (slow EMA
warm-up `slow − 1 = 2`); `{0.7222, 0.7778, −0.0556}` on candle 3 (signal warm-up `slow + signal − 2 = 3`);
`{0.4629, 0.5679, −0.105}` on candle 4 -/
example : ∃ out : List (Candle ℚ),
    candlesOf (runIndicator (mkTop (.macd ((2 : Nat) : Int) ((3 : Nat) : Int) ((2 : Nat) : Int) "close" : Kind ℚ)
      "MACD_2_3_2" 4) {} macdDemoRaw []) = .ok out ∧
    out.length = 5 ∧
    readingByCandle (out.getD 1 default) "MACD_2_3_2" = macdNone ∧
    readingByCandle (out.getD 1 default) ("MACD_2_3_2" ++ "_EMA_fast") = .flt (23 / 2) ∧
    readingByCandle (out.getD 2 default) "MACD_2_3_2"
      = sdict [("MACD", sc (.flt (8334 / 10000))), ("signal", .none), ("histogram", .none)] ∧
    readingByCandle (out.getD 3 default) "MACD_2_3_2"
      = sdict [("MACD", sc (.flt (7222 / 10000))), ("signal", sc (.flt (7778 / 10000))),
          ("histogram", sc (.flt (-556 / 10000)))] ∧
    readingByCandle (out.getD 4 default) "MACD_2_3_2"
      = sdict [("MACD", sc (.flt (4629 / 10000))), ("signal", sc (.flt (5679 / 10000))),
          ("histogram", sc (.flt (-1050 / 10000)))] ∧
    readingByCandle (out.getD 4 default) ("MACD_2_3_2" ++ "_signal_line") = .flt (5679 / 10000) := by
  have hb := macd_batch "MACD_2_3_2" 4 2 3 2 "close" (·.c) (by norm_num) (by norm_num) (by norm_num) macdNames_demo
    ⟨noDot_close, by decide⟩ (fun _ => rfl) macdDemoRaw macdDemoRaw_plain
  obtain ⟨o1, o2, o3, o4⟩ := macdDemo_own
  have rd := fun j hj => macdOut_readings "MACD_2_3_2" 4 2 3 2 (·.c) macdDemoRaw macdNames_demo (by norm_num)
    macdDemoRaw_plain j hj
  refine ⟨_, hb, macdOut_length _ _ _ _ _ _ _, ?_, ?_, ?_, ?_, ?_, ?_⟩
  · rw [(rd 1 (by decide)).2.2.2.2.1]; exact o1
  · rw [(rd 1 (by decide)).2.1, emaCol_flt _ _ _ _ (by norm_num), macdDemo_fast.1]
  · rw [(rd 2 (by decide)).2.2.2.2.1]; exact o2
  · rw [(rd 3 (by decide)).2.2.2.2.1]; exact o3
  · rw [(rd 4 (by decide)).2.2.2.2.1]; exact o4
  · rw [(rd 4 (by decide)).2.2.2.1]
    unfold sigV
    rw [emaCol_flt _ _ _ _ (by norm_num)]
    exact congrArg _ macdDemo_sig.2

/-- the general theorem instantiated on the demo candles -/
example : ∃ out : List (Candle ℚ),
    Gen.rowMajor (macdTreeN (K := ℚ) "MACD_2_3_2" 4 2 3 2 "close" (by norm_num) (by norm_num) (by norm_num) macdNames_demo
      ⟨noDot_close, by decide⟩).S macdDemoRaw = .ok out ∧
    out.length = macdDemoRaw.length ∧
    ∀ j, j < macdDemoRaw.length →
      MacdCandleOK "MACD_2_3_2" 4 2 3 2 (fieldAt (·.c) macdDemoRaw) j (macdDemoRaw.getD j default) (out.getD j default) :=
  macd_series_readings "MACD_2_3_2" 4 2 3 2 "close" (·.c) (by norm_num) (by norm_num) (by norm_num) macdNames_demo
    ⟨noDot_close, by decide⟩ (fun _ => rfl) macdDemoRaw macdDemoRaw_plain

/-- the textbook series on the demo candles: EMA₂ = `–, 11.5, 79/6, 259/18, 799/54`; EMA₃ = `–, –, 37/3, 41/3,
43/3`; MACD line from candle 2, signal line from candle 3 -/
example : macdLine 2 3 macdDemoX 1 = none ∧ macdLine 2 3 macdDemoX 2 = some (5 / 6) ∧
    signalLine 2 3 2 macdDemoX 2 = none ∧ signalLine 2 3 2 macdDemoX 3 = some (7 / 9) := by
  obtain ⟨x0, x1, x2, x3, x4⟩ := macdDemoX_vals
  refine ⟨by simp [macdLine], ?_, by simp [signalLine], ?_⟩
  · simp only [macdLine, macdExact, emaTextbook, recExact, winMean, emaAlpha, rsum, List.range_succ, List.range_zero]
    norm_num [x0, x1, x2]
  · have e2 : emaTextbook 2 macdDemoX 2 = 79 / 6 ∧ emaTextbook 2 macdDemoX 3 = 259 / 18 := by
      unfold emaTextbook
      rw [recExact_step _ _ _ _ 3 (by norm_num) (by norm_num), recExact_step _ _ _ _ 2 (by norm_num) (by norm_num),
        recExact_seed _ _ _ _ _ (by norm_num)]
      simp only [winMean, emaAlpha, rsum, List.range_succ, List.range_zero]
      norm_num [x0, x1, x2, x3]
    have e3 : emaTextbook 3 macdDemoX 2 = 37 / 3 ∧ emaTextbook 3 macdDemoX 3 = 41 / 3 := by
      unfold emaTextbook
      rw [recExact_step _ _ _ _ 3 (by norm_num) (by norm_num), recExact_seed _ _ _ _ _ (by norm_num)]
      simp only [winMean, emaAlpha, rsum, List.range_succ, List.range_zero]
      norm_num [x0, x1, x2, x3]
    unfold signalLine sigExact emaColExact
    rw [if_neg (by norm_num), recExact_seed _ _ _ _ _ (by norm_num)]
    simp only [winMean, macdExact, rsum, List.range_succ, List.range_zero]
    norm_num [e2.1, e2.2, e3.1, e3.2]

end Numeric
end Hex

#print axioms Hex.Numeric.macd_series
#print axioms Hex.Numeric.macd_engine
#print axioms Hex.Numeric.macd_batch
#print axioms Hex.Numeric.macd_batch_out
#print axioms Hex.Numeric.macd_live
#print axioms Hex.Numeric.macdOut_ok
#print axioms Hex.Numeric.macd_series_readings
#print axioms Hex.Numeric.macd_engine_readings
#print axioms Hex.Numeric.macd_batch_readings

import HexProofs.Framework.Gen.RSI
import HexProofs.Numeric.Rsi
import HexProofs.Numeric.SeriesAvg
import HexProofs.Numeric.Demo
/-!
# RSI: the whole series (closes the RSI item of `C06_FULL`)

`Gen.rowMajor (rsiTree …).S raw` is the row-major run of the RSI tree (own reading + managed
`<name>_data` series with the fields `gain` / `loss`); by `TreeSpec.engine` / `batch_iff` /
`live_refines` it is what `calculate()`, the batch run and every append schedule return.

* textbook series: `upAt`/`downAt` (moves), `wilderAvg` (plain mean of the first `p` moves at the
  warm-up index `p`, then `avg j = (avg (j−1)·(p−1) + move j)/p`), `rsiExact`, `rsiSeries : ℕ → Option K`;
* predicate: `RsiOK` (pair own reading / data entry), `RsiOwnOK` (own reading vs `rsiSeries`);
* rounding budget: the data series is stored UNROUNDED (`Managed.set_reading` does not round), so
  gain / loss are exactly the Wilder averages and the recurrence carries no error; the own
  reading is `round n (rsiExact …)`, i.e. within `eps K n` of the textbook value at every index
  (no growth), and inside `[0, 100]` (monotone rounding fixes `0` and `100`);
* theorems: `rsi_series` (induction along `Gen.rowMajor` from `rsi_none` / `rsi_seed` /
  `rsi_step`), `rsi_series_candles`, `rsi_series_engine`, `rsi_series_batch`, `rsi_series_live`.
-/
set_option linter.unusedSectionVars false
set_option linter.unusedSimpArgs false
namespace Hex
namespace Numeric
variable {K : Type} [Field K] [LinearOrder K] [IsStrictOrderedRing K] [LawfulPyF K]

section generic
variable {F : Type} [PyF F] {R : Type}

/-- raw candles finished row by row: candle `j` becomes `out (raw j) (rows j)` -/
def decoWith (out : Candle F → R → Candle F) (raw : List (Candle F)) (rows : List R) : List (Candle F) :=
  List.zipWith out raw rows

theorem decoWith_length (out : Candle F → R → Candle F) (raw : List (Candle F)) (rows : List R)
    (h : rows.length = raw.length) : (decoWith out raw rows).length = raw.length := by
  simp [decoWith, h]

theorem decoWith_append (out : Candle F → R → Candle F) (raw : List (Candle F)) (rows : List R)
    (c : Candle F) (r : R) (h : rows.length = raw.length) :
    decoWith out (raw ++ [c]) (rows ++ [r]) = decoWith out raw rows ++ [out c r] := by
  unfold decoWith
  rw [List.zipWith_append (by omega)]
  rfl

theorem decoWith_getElem? (out : Candle F → R → Candle F) (raw : List (Candle F)) (rows : List R) (dflt : R)
    (j : Nat) (h : rows.length = raw.length) (hj : j < raw.length) :
    (decoWith out raw rows)[j]? = some (out (raw.getD j default) (rows.getD j dflt)) := by
  unfold decoWith
  rw [List.getElem?_zipWith]
  have h1 : raw[j]? = some (raw.getD j default) := by
    rw [List.getD_eq_getElem?_getD, List.getElem?_eq_getElem hj]; rfl
  have h2 : rows[j]? = some (rows.getD j dflt) := by
    rw [List.getD_eq_getElem?_getD, List.getElem?_eq_getElem (by omega)]; rfl
  rw [h1, h2]

/-- **Series induction along `Gen.rowMajor`.** -/
theorem gen_series_induct (S : Gen.StepSpec F) (out : Candle F → R → Candle F) (dflt : R)
    (raw : List (Candle F)) (Q : Nat → R → Prop)
    (hstep : ∀ (m : Nat) (_ : m < raw.length) (rows : List R), rows.length = m →
      (∀ j, j < m → Q j (rows.getD j dflt)) →
      ∃ r, Gen.rowStep S (decoWith out (raw.take m) rows) (raw.getD m default)
          = .ok (decoWith out (raw.take m) rows ++ [out (raw.getD m default) r]) ∧ Q m r) :
    ∃ rows : List R, rows.length = raw.length ∧ Gen.rowMajor S raw = .ok (decoWith out raw rows) ∧
      ∀ j, j < raw.length → Q j (rows.getD j dflt) := by
  suffices h : ∀ m, m ≤ raw.length → ∃ rows : List R, rows.length = m ∧
      Gen.rowMajor S (raw.take m) = .ok (decoWith out (raw.take m) rows) ∧ ∀ j, j < m → Q j (rows.getD j dflt) by
    obtain ⟨rows, h1, h2, h3⟩ := h raw.length (le_refl _)
    rw [List.take_length] at h2
    exact ⟨rows, h1, h2, h3⟩
  intro m
  induction m with
  | zero => intro _; exact ⟨[], rfl, by simp [Gen.rowMajor, Gen.rowMajorFrom, decoWith], fun j hj => absurd hj (Nat.not_lt_zero j)⟩
  | succ m ih =>
    intro hm
    obtain ⟨rows, h1, h2, h3⟩ := ih (by omega)
    obtain ⟨r, hr, hq⟩ := hstep m (by omega) rows h1 h3
    have htl : (raw.take m).length = m := by simp; omega
    have htake : raw.take (m + 1) = raw.take m ++ [raw.getD m default] := by
      rw [List.take_add_one]
      congr 1
      rw [List.getD_eq_getElem?_getD, List.getElem?_eq_getElem (by omega)]
      rfl
    refine ⟨rows ++ [r], by simp [h1], ?_, ?_⟩
    · rw [htake, Gen.rowMajor_append, h2]
      simp only [pym_bind_ok, Gen.rowMajorFrom, List.foldlM_cons, List.foldlM_nil]
      rw [hr]
      simp only [pym_bind_ok, pym_pure, bind_pure]
      rw [decoWith_append _ _ _ _ _ (by rw [htl, h1])]
    · intro j hj
      by_cases hjm : j < m
      · rw [List.getD_eq_getElem?_getD, List.getElem?_append_left (by omega), ← List.getD_eq_getElem?_getD]
        exact h3 j hjm
      · have : j = m := by omega
        subst this
        rw [List.getD_eq_getElem?_getD, List.getElem?_append_right (by omega)]
        simpa [h1] using hq

end generic
/-! ### the textbook RSI series -/

/-- upward move into candle `j` (`j ≥ 1`) -/
def upAt (x : Nat → K) (j : Nat) : K := max (x j - x (j - 1)) 0
/-- downward move into candle `j` (`j ≥ 1`) -/
def downAt (x : Nat → K) (j : Nat) : K := max (x (j - 1) - x j) 0

theorem upAt_nonneg (x : Nat → K) (j : Nat) : 0 ≤ upAt x j := le_max_right _ _
theorem downAt_nonneg (x : Nat → K) (j : Nat) : 0 ≤ downAt x j := le_max_right _ _

/-- Wilder's average of the moves `u 1, u 2, …` with period `p`: the plain mean of `u 1 … u p` at
the warm-up index `p` (and, by convention, before it), then `avg j = (avg (j−1)·(p−1) + u j)/p` -/
def wilderAvg (p : Nat) (u : Nat → K) : Nat → K
  | 0 => rsum p (fun k => u (k + 1)) / p
  | j + 1 => if j + 1 ≤ p then rsum p (fun k => u (k + 1)) / p
             else (wilderAvg p u j * ((p : K) - 1) + u (j + 1)) / p

theorem wilderAvg_seed (p : Nat) (u : Nat → K) (j : Nat) (h : j ≤ p) :
    wilderAvg p u j = rsum p (fun k => u (k + 1)) / p := by
  cases j with
  | zero => rfl
  | succ i => simp [wilderAvg, h]

theorem wilderAvg_step (p : Nat) (u : Nat → K) (j : Nat) (h : p < j) :
    wilderAvg p u j = (wilderAvg p u (j - 1) * ((p : K) - 1) + u j) / p := by
  obtain ⟨i, rfl⟩ : ∃ i, j = i + 1 := ⟨j - 1, by omega⟩
  have : ¬ i + 1 ≤ p := by omega
  simp [wilderAvg, this]

theorem wilderAvg_nonneg (p : Nat) (hp : 1 ≤ p) (u : Nat → K) (hu : ∀ j, 0 ≤ u j) (j : Nat) :
    0 ≤ wilderAvg p u j := by
  have hpK : (0 : K) < p := by exact_mod_cast (by omega : 0 < p)
  have hs : 0 ≤ rsum p (fun k => u (k + 1)) / (p : K) :=
    div_nonneg (rsum_nonneg p _ (fun k _ => hu (k + 1))) hpK.le
  induction j with
  | zero => exact hs
  | succ i ih =>
    by_cases h : i + 1 ≤ p
    · rw [wilderAvg_seed p u _ h]; exact hs
    · rw [wilderAvg_step p u _ (by omega)]
      exact wilder_nonneg p _ _ hp (by simpa using ih) (hu _)

/-- the exact RSI at index `j ≥ p` -/
def rsiExact (p : Nat) (x : Nat → K) (j : Nat) : K :=
  rsiOf (wilderAvg p (upAt x) j) (wilderAvg p (downAt x) j)

/-- the textbook RSI series of the raw inputs: nothing before the warm-up index `p` -/
def rsiSeries (p : Nat) (x : Nat → K) (j : Nat) : Option K :=
  if j < p then none else some (rsiExact p x j)

theorem rsiExact_range (p : Nat) (hp : 1 ≤ p) (x : Nat → K) (j : Nat) :
    0 ≤ rsiExact p x j ∧ rsiExact p x j ≤ 100 :=
  rsiOf_range _ _ (wilderAvg_nonneg p hp _ (upAt_nonneg x) j) (wilderAvg_nonneg p hp _ (downAt_nonneg x) j)

theorem round_zero (n : Nat) : PyF.round n (0 : K) = 0 := by
  have := LawfulPyF.round_grid (K := K) n 0
  simpa using this

theorem round_hundred (n : Nat) : PyF.round n (100 : K) = 100 := by
  have h := LawfulPyF.round_grid (K := K) n (100 * 10 ^ n)
  have hp : (10 : K) ^ n ≠ 0 := by positivity
  have e : (((100 * 10 ^ n : Int)) : K) / 10 ^ n = 100 := by
    push_cast; field_simp
  rw [e] at h; exact h

/-! ### what the RSI step sees on the finished prefix -/

/-- the stored data entry -/
def rsiData (g l : K) : Val K := sdict [("gain", sc (.flt g)), ("loss", sc (.flt l))]

/-- a finished RSI candle: data entry `r.2` in `.sub_indicators`, own reading `r.1` in `.indicators` -/
def rsiOut (nm : String) (c : Candle K) (r : Val K × Val K) : Candle K :=
  outD nm (nm ++ "_data") r.1 (some r.2) c

/-- the candles of an RSI run: raw candle `j` with the pair `rows[j]` = (own reading, data entry) -/
def decoRsi (nm : String) (raw : List (Candle K)) (rows : List (Val K × Val K)) : List (Candle K) :=
  decoWith (rsiOut nm) raw rows

section cand
variable (nm : String)

theorem rsiOut_own (hk : IsKey nm) (c : Candle K) (hc : Plain c) (r : Val K × Val K) :
    readingByCandle (rsiOut nm c r) nm = r.1 := by
  rw [readingByCandle_key nm hk]
  obtain ⟨hi, hs⟩ := hc
  simp [rsiOut, lookupKey, outD, setD, setKey, hi, hs, dset, dlookup]

theorem rsiOut_data (hn : RsiNames nm) (c : Candle K) (hc : Plain c) (r : Val K × Val K) :
    readingByCandle (rsiOut nm c r) (nm ++ "_data") = r.2 := by
  rw [readingByCandle_key _ hn.dkey]
  obtain ⟨hi, hs⟩ := hc
  simp [rsiOut, lookupKey, outD, setD, setKey, hi, hs, dset, dlookup, hn.ne]

theorem rsiOut_gain (hn : RsiNames nm) (c : Candle K) (hc : Plain c) (r : Val K × Val K) :
    readingByCandle (rsiOut nm c r) (nm ++ "_data.gain") = r.2.nested "gain" := by
  unfold readingByCandle
  rw [hn.gain]
  obtain ⟨hi, hs⟩ := hc
  simp [rsiOut, outD, setD, setKey, hi, hs, dset, dlookup, hn.ne]

theorem rsiOut_loss (hn : RsiNames nm) (c : Candle K) (hc : Plain c) (r : Val K × Val K) :
    readingByCandle (rsiOut nm c r) (nm ++ "_data.loss") = r.2.nested "loss" := by
  unfold readingByCandle
  rw [hn.loss]
  obtain ⟨hi, hs⟩ := hc
  simp [rsiOut, outD, setD, setKey, hi, hs, dset, dlookup, hn.ne]

theorem rsiOut_input (input : String) (hin : NoDot input ∧ input ∈ Candle.attrNames) (c : Candle K)
    (r : Val K × Val K) : readingByCandle (rsiOut nm c r) input = readingByCandle c input := by
  unfold rsiOut outD setD
  rw [indep_attr (F := K) nm input hin.1 hin.2, indep_attr (F := K) (nm ++ "_data") input hin.1 hin.2]

end cand

theorem col_decoWith {R : Type} (input : String) (out : Candle K → R → Candle K)
    (h : ∀ c r, readingByCandle (out c r) input = readingByCandle c input) :
    ∀ (raw : List (Candle K)) (rows : List R), rows.length = raw.length →
      col input (decoWith out raw rows) = col input raw := by
  intro raw
  induction raw with
  | nil => intro rows _; simp [decoWith, col]
  | cons c raw ih =>
    intro rows hl
    cases rows with
    | nil => simp at hl
    | cons r rows =>
      have := ih rows (by simpa using hl)
      simp only [decoWith, col, List.zipWith_cons_cons, List.map_cons, h] at this ⊢
      rw [this]

theorem col_append (nm : String) (a b : List (Candle K)) : col nm (a ++ b) = col nm a ++ col nm b := by
  simp [col]

theorem gainOf_sub (a b : K) : gainOf (a - b) = max (b - a) 0 := by
  unfold gainOf
  by_cases h : a - b < 0
  · rw [if_pos h, max_eq_left (by linarith)]; ring
  · rw [if_neg h, max_eq_right (by linarith)]

theorem lossOf_sub (a b : K) : lossOf (a - b) = max (a - b) 0 := by
  unfold lossOf
  by_cases h : 0 < a - b
  · rw [if_pos h, max_eq_left h.le]
  · rw [if_neg h, max_eq_right (by linarith)]

theorem rsiData_gain (g l : K) : (rsiData g l).nested "gain" = .num (.flt g) := by
  simp [rsiData, Val.nested, sdict, sc, dlookup]

theorem rsiData_loss (g l : K) : (rsiData g l).nested "loss" = .num (.flt l) := by
  simp [rsiData, Val.nested, sdict, sc, dlookup]

/-- what the whole-series theorem says of candle `j`: before the warm-up index `p` both entries
are `None`; from `p` on the data entry holds EXACTLY (the helper series is not rounded) the Wilder
averages of the upward and downward moves, and the own reading is the rounding of the exact RSI –
hence within `ε` of it – and lies in `[0, 100]` -/
def RsiOK (p n : Nat) (x : Nat → K) (j : Nat) (r : Val K × Val K) : Prop :=
  (j < p → r = (.none, .none)) ∧
  (p ≤ j → r.2 = rsiData (wilderAvg p (upAt x) j) (wilderAvg p (downAt x) j) ∧
    ∃ y, r.1 = .flt y ∧ y = PyF.round n (rsiExact p x j) ∧ |y - rsiExact p x j| ≤ eps K n ∧
      0 ≤ y ∧ y ≤ 100)

theorem rsiOK_mk (p n : Nat) (hp : 1 ≤ p) (x : Nat → K) (j : Nat) (hj : p ≤ j) :
    RsiOK p n x j ((Val.flt (rsiExact p x j)).roundBy n,
      rsiData (wilderAvg p (upAt x) j) (wilderAvg p (downAt x) j)) := by
  refine ⟨fun h => by omega, fun _ => ⟨rfl, PyF.round n (rsiExact p x j), rfl, rfl,
    LawfulPyF.round_err n _, ?_, ?_⟩⟩
  · rw [← round_zero (K := K) n]; exact LawfulPyF.round_mono n (rsiExact_range p hp x j).1
  · rw [← round_hundred (K := K) n]; exact LawfulPyF.round_mono n (rsiExact_range p hp x j).2

theorem rsi_finish (nm : String) (n : Nat) (p : Int) (input : String) (done : List (Candle K)) (c : Candle K)
    (v dv : Val K)
    (h : Calc.rsi (dOps (nm ++ "_data") done.length) { cs := done ++ [c], i := done.length, name := nm } p input
      = .ok (v, done ++ [setKey true (nm ++ "_data") dv c])) :
    (do let r ← Calc.rsi (dOps (nm ++ "_data") done.length) { cs := done ++ [c], i := done.length, name := nm } p input
        setReading false nm r.2 done.length (r.1.roundBy n))
      = .ok (done ++ [rsiOut nm c (v.roundBy n, dv)]) := by
  rw [h]
  simp only [pym_bind_ok]
  rw [setReading_eq, updateAt_append_cons]
  rfl

/-- the row step of `rsiTree` is the model's `_calculate_reading` followed by the store of the
rounded own reading -/
theorem rsi_rowStep (nm : String) (n : Nat) (p : Int) (input : String) (hp : 0 ≤ p)
    (hn : RsiNames nm) (hin : NoDot input ∧ input ∈ Candle.attrNames)
    (done : List (Candle K)) (c : Candle K) :
    Gen.rowStep (rsiTree (F := K) nm n p input hp hn hin).S done c = (do
      let r ← Calc.rsi (dOps (nm ++ "_data") done.length) { cs := done ++ [c], i := done.length, name := nm } p input
      setReading false nm r.2 done.length (r.1.roundBy n)) := rfl

/-- **C06 for the whole RSI series** (row-major run of `rsiTree`), period `p ≥ 1`, input a candle
field.  For EVERY raw list the run returns; the result is the raw candles with, on candle `j`, the
pair `rows[j]` = (own reading in `.indicators`, `<name>_data` entry in `.sub_indicators`), and every
pair satisfies `RsiOK`: both `None` before the warm-up index `p`; from `p` on the data entry is
exactly `{gain: wilderAvg … j, loss: wilderAvg … j}` (seeded at `p` by the plain means of the first
`p` upward / downward moves, then `avg j = (avg (j−1)·(p−1) + move j)/p`) and the own reading is
`round n (100 − 100/(1 + gain/loss))` (`100` when `loss = 0`): within `ε` of the textbook value and
in `[0, 100]`. -/
theorem rsi_series (p : Nat) (hp : 1 ≤ p) (nm input : String) (fld : Candle K → Num K) (n : Nat)
    (hn : RsiNames nm) (hk : IsKey nm) (hin : NoDot input ∧ input ∈ Candle.attrNames)
    (hattr : ∀ c : Candle K, c.attr input = some (.num (fld c)))
    (raw : List (Candle K)) (hraw : ∀ c ∈ raw, Plain c) :
    ∃ rows : List (Val K × Val K), rows.length = raw.length ∧
      Gen.rowMajor (rsiTree (F := K) nm n (p : Int) input (by omega) hn hin).S raw = .ok (decoRsi nm raw rows) ∧
      ∀ j, j < raw.length → RsiOK p n (fieldAt fld raw) j (rows.getD j (.none, .none)) := by
  refine gen_series_induct _ (rsiOut nm) (.none, .none) raw _ ?_
  intro m hm rows hrows hQ
  have htl : (raw.take m).length = m := by simp; omega
  have hdl : (decoWith (rsiOut nm) (raw.take m) rows).length = m := by
    rw [decoWith_length _ _ _ (by rw [htl, hrows]), htl]
  have hmem : ∀ j, j < raw.length → Plain (raw.getD j default) := by
    intro j hj
    apply hraw
    rw [List.getD_eq_getElem?_getD, List.getElem?_eq_getElem hj]
    exact List.getElem_mem _
  have hc : Plain (raw.getD m default) := hmem m hm
  rw [rsi_rowStep]
  generalize hdone : decoWith (rsiOut nm) (raw.take m) rows = done at hdl ⊢
  generalize hcd : raw.getD m default = c at hc ⊢
  -- the input column is the raw one
  have hcol : Ctx.SameCol input ({ cs := done ++ [c], i := done.length, name := nm } : Ctx K)
      (stepCtx nm raw (List.replicate m .none) m) := by
    refine ⟨by simp [stepCtx, hdl], ?_⟩
    show col input (done ++ [c]) = col input (decoWith (fun c v => setKey false nm v c) (raw.take m) _ ++ [raw.getD m default])
    rw [col_append, col_append, ← hdone, hcd,
      col_decoWith input _ (fun c r => rsiOut_input nm input hin c r) _ _ (by rw [htl, hrows]),
      col_decoWith input _ (fun c v => indep_attr (F := K) nm input hin.1 hin.2 false v c) _ _ (by simp [htl])]
  have hfield : ∀ j : Nat, j ≤ m →
      ({ cs := done ++ [c], i := done.length, name := nm } : Ctx K).reading input (some (j : Int))
        = .ok (.num (fld (raw.getD j default))) := by
    intro j hj
    rw [Ctx.reading_congr hcol]
    exact stepCtx_field nm input fld raw _ m hm (by simp) hin.1 hattr j hj
  have hper : ∀ q : Nat, 1 ≤ q →
      ({ cs := done ++ [c], i := done.length, name := nm } : Ctx K).readingPeriod (q : Int) input = decide (q ≤ m + 1) := by
    intro q hq
    rw [Ctx.readingPeriod_congr hcol]
    exact stepCtx_period nm input fld raw _ m hm (by simp) hin.1 hattr q hq
  have hprev : ∀ key, ({ cs := done ++ [c], i := done.length, name := nm } : Ctx K).prevReading key
      = .ok (Ctx.lastReading key done) := fun key => Ctx.prevReading_append_cons done c [] nm key
  -- the last finished candle
  have hlast : 1 ≤ m → ∀ key, Ctx.lastReading key done
      = readingByCandle (rsiOut nm (raw.getD (m - 1) default) (rows.getD (m - 1) (.none, .none))) key := by
    intro h1 key
    unfold Ctx.lastReading
    rw [List.getLast?_eq_getElem?, hdl, ← hdone,
      decoWith_getElem? _ _ _ (.none, .none) (m - 1) (by rw [htl, hrows]) (by rw [htl]; omega)]
    have : (raw.take m).getD (m - 1) default = raw.getD (m - 1) default := by
      rw [List.getD_eq_getElem?_getD, List.getD_eq_getElem?_getD, List.getElem?_take_of_lt (by omega)]
    rw [this]
  have hset : ∀ v, (dOps (nm ++ "_data") (done.length : Int) : Ops K).setManaged "RSI_data" v (done ++ [c])
      = .ok (done ++ [setKey true (nm ++ "_data") v c]) := by
    intro v
    show setReading true (nm ++ "_data") (done ++ [c]) done.length v = _
    rw [setReading_eq, updateAt_append_cons]
  have hno : dlookup (nm ++ "_data") c.inds = none := by rw [hc.1]; rfl
  have hdata : ∀ v, ({ cs := done ++ [setKey true (nm ++ "_data") v c], i := done.length, name := nm } : Ctx K).reading (nm ++ "_data")
      = .ok v := by
    intro v
    rw [Ctx.reading_cur done _ [] nm, rbc_data_self _ hn.dkey c hno]
  have hrg : ∀ g l : Num K, ({ cs := done ++ [setKey true (nm ++ "_data") (sdict [("gain", sc g), ("loss", sc l)]) c], i := done.length, name := nm } : Ctx K).reading (nm ++ "_data.gain") = .ok (.num g) := by
    intro g l
    rw [Ctx.reading_cur done _ [] nm, rbc_data_field _ "gain" _ hn.gain c hno]
    simp [Val.nested, sdict, sc, dlookup]
  have hrl : ∀ g l : Num K, ({ cs := done ++ [setKey true (nm ++ "_data") (sdict [("gain", sc g), ("loss", sc l)]) c], i := done.length, name := nm } : Ctx K).reading (nm ++ "_data.loss") = .ok (.num l) := by
    intro g l
    rw [Ctx.reading_cur done _ [] nm, rbc_data_field _ "loss" _ hn.loss c hno]
    simp [Val.nested, sdict, sc, dlookup]
  -- previous own reading is `None` up to the warm-up index
  have hown0 : m ≤ p → Ctx.lastReading nm done = .none := by
    intro hmp
    by_cases h0 : m = 0
    · have : done = [] := List.eq_nil_of_length_eq_zero (by omega)
      rw [this]; rfl
    · rw [hlast (by omega), rsiOut_own nm hk _ (hmem _ (by omega)), (hQ (m - 1) (by omega)).1 (by omega)]
  by_cases h1 : m < p
  · -- warm-up
    refine ⟨(.none, .none), ?_, fun _ => rfl, fun h => by omega⟩
    refine rsi_finish nm n p input done c .none .none ?_
    refine rsi_none _ _ p input _ (by rw [hprev, hown0 (by omega)]) ?_ ?_ (hset .none)
    · have := hper (p + 1) (by omega)
      rw [show ((p + 1 : Nat) : Int) = (p : Int) + 1 by push_cast; rfl] at this
      rw [this]; simp; omega
    · show ({ cs := done ++ [c], i := done.length, name := nm } : Ctx K).reading (nm ++ "_data") = _
      rw [Ctx.reading_cur done c [] nm, readingByCandle_plain _ hn.dkey c hc]
  · subst hcd
    by_cases h2 : m = p
    · -- seed: plain means of the first `p` moves
      refine ⟨_, ?_, rsiOK_mk p n hp (fieldAt fld raw) m (by omega)⟩
      refine rsi_finish nm n p input done _ _ _ ?_
      have hrp : ({ cs := done ++ [raw.getD m default], i := done.length, name := nm } : Ctx K).readingPeriod
          ((p : Int) + 1) input = true := by
        have := hper (p + 1) (by omega)
        rw [show ((p + 1 : Nat) : Int) = (p : Int) + 1 by push_cast; rfl] at this
        rw [this]; simp; omega
      have hr : ∀ j : Nat, j ≤ p →
          ({ cs := done ++ [raw.getD m default], i := done.length, name := nm } : Ctx K).reading input
            (some (((done.length : Nat) : Int) - (p : Int) + (j : Int))) = .ok (.num (fld (raw.getD j default))) := by
        intro j hj
        have e : ((done.length : Nat) : Int) - (p : Int) + (j : Int) = (j : Int) := by omega
        rw [e]
        exact hfield j (by omega)
      have hs := rsi_seed (dOps (nm ++ "_data") (done.length : Int))
        { cs := done ++ [raw.getD m default], i := done.length, name := nm } p input
        (fun v => done ++ [setKey true (nm ++ "_data") v (raw.getD m default)]) (fun j => fld (raw.getD j default))
        (by rw [hprev, hown0 (by omega)]) hrp hr hset hdata hrg hrl hp
      have hG : ((List.range p).map fun j => max ((fld (raw.getD (j + 1) default)).toF - (fld (raw.getD j default)).toF) 0).sum / (p : K)
          = wilderAvg p (upAt (fieldAt fld raw)) m := by
        rw [wilderAvg_seed _ _ _ (by omega)]
        simp [rsum, upAt, fieldAt]
      have hL : ((List.range p).map fun j => max (-((fld (raw.getD (j + 1) default)).toF - (fld (raw.getD j default)).toF)) 0).sum / (p : K)
          = wilderAvg p (downAt (fieldAt fld raw)) m := by
        rw [wilderAvg_seed _ _ _ (by omega)]
        simp [rsum, downAt, fieldAt]
      rw [hG, hL] at hs
      exact hs
    · -- running: Wilder's recurrence
      have hm1 : 1 ≤ m := by omega
      obtain ⟨hd2, y, hy, _, _, _, _⟩ := (hQ (m - 1) (by omega)).2 (by omega)
      have hplain := hmem (m - 1) (by omega)
      refine ⟨_, ?_, rsiOK_mk p n hp (fieldAt fld raw) m (by omega)⟩
      refine rsi_finish nm n p input done _ _ _ ?_
      have hs := rsi_step (dOps (nm ++ "_data") (done.length : Int))
        { cs := done ++ [raw.getD m default], i := done.length, name := nm } p input
        (fun v => done ++ [setKey true (nm ++ "_data") v (raw.getD m default)])
        (.flt y) (fld (raw.getD (m - 1) default)) (fld (raw.getD m default))
        (.flt (wilderAvg p (upAt (fieldAt fld raw)) (m - 1))) (.flt (wilderAvg p (downAt (fieldAt fld raw)) (m - 1)))
        (by rw [hprev, hlast hm1, rsiOut_own nm hk _ hplain, hy])
        (by rw [hprev, hlast hm1, rsiOut_input nm input hin, readingByCandle_attr input hin.1 _ _ (hattr _)])
        (by rw [Ctx.reading_cur done _ [] nm, readingByCandle_attr input hin.1 _ _ (hattr _)])
        (by show _ = Except.ok _
            rw [hprev, hlast hm1, rsiOut_gain nm hn _ hplain, hd2, rsiData_gain])
        (by show _ = Except.ok _
            rw [hprev, hlast hm1, rsiOut_loss nm hn _ hplain, hd2, rsiData_loss])
        hset hdata hrg hrl hp
        (wilderAvg_nonneg p hp _ (upAt_nonneg _) _) (wilderAvg_nonneg p hp _ (downAt_nonneg _) _)
      have hG : ((Num.flt (wilderAvg p (upAt (fieldAt fld raw)) (m - 1)) : Num K).toF * ((p : K) - 1)
            + gainOf ((fld (raw.getD (m - 1) default)).toF - (fld (raw.getD m default)).toF)) / (p : K)
          = wilderAvg p (upAt (fieldAt fld raw)) m := by
        rw [wilderAvg_step p _ m (by omega), gainOf_sub]; rfl
      have hL : ((Num.flt (wilderAvg p (downAt (fieldAt fld raw)) (m - 1)) : Num K).toF * ((p : K) - 1)
            + lossOf ((fld (raw.getD (m - 1) default)).toF - (fld (raw.getD m default)).toF)) / (p : K)
          = wilderAvg p (downAt (fieldAt fld raw)) m := by
        rw [wilderAvg_step p _ m (by omega), lossOf_sub]; rfl
      rw [hG, hL] at hs
      exact hs

/-! ### the same statement read off the candles -/

/-- a stored own reading against the textbook series: `None` where the series has no value,
otherwise a float within `ε` of it and inside `[0, 100]` -/
def RsiOwnOK (n : Nat) (o : Option K) (v : Val K) : Prop :=
  match o with
  | none => v = .none
  | some e => ∃ y, v = .flt y ∧ |y - e| ≤ eps K n ∧ 0 ≤ y ∧ y ≤ 100

/-- **RSI, whole series, candle by candle.**  For every raw list the row-major run of `rsiTree`
returns; on candle `j` the own reading follows the textbook series `rsiSeries` (`None` before the
warm-up index `p`, then within `ε` of `100 − 100/(1 + avgGain/avgLoss)` and in `[0, 100]`), and the
`<name>_data` entry is `None` before `p` and afterwards holds exactly the Wilder averages of the
upward / downward moves. -/
theorem rsi_series_candles (p : Nat) (hp : 1 ≤ p) (nm input : String) (fld : Candle K → Num K) (n : Nat)
    (hn : RsiNames nm) (hk : IsKey nm) (hin : NoDot input ∧ input ∈ Candle.attrNames)
    (hattr : ∀ c : Candle K, c.attr input = some (.num (fld c)))
    (raw : List (Candle K)) (hraw : ∀ c ∈ raw, Plain c) :
    ∃ out : List (Candle K), out.length = raw.length ∧
      Gen.rowMajor (rsiTree (F := K) nm n (p : Int) input (by omega) hn hin).S raw = .ok out ∧
      ∀ j, j < raw.length →
        RsiOwnOK n (rsiSeries p (fieldAt fld raw) j) (readingByCandle (out.getD j default) nm) ∧
        (j < p → readingByCandle (out.getD j default) (nm ++ "_data") = .none) ∧
        (p ≤ j →
          readingByCandle (out.getD j default) (nm ++ "_data.gain")
            = .flt (wilderAvg p (upAt (fieldAt fld raw)) j) ∧
          readingByCandle (out.getD j default) (nm ++ "_data.loss")
            = .flt (wilderAvg p (downAt (fieldAt fld raw)) j)) := by
  obtain ⟨rows, hl, hrun, hall⟩ := rsi_series p hp nm input fld n hn hk hin hattr raw hraw
  refine ⟨decoRsi nm raw rows, decoWith_length _ _ _ hl, hrun, ?_⟩
  intro j hj
  have hcj : (decoRsi nm raw rows).getD j default
      = rsiOut nm (raw.getD j default) (rows.getD j (.none, .none)) := by
    rw [List.getD_eq_getElem?_getD, decoRsi, decoWith_getElem? _ _ _ (.none, .none) j hl hj]; rfl
  have hpl : Plain (raw.getD j default) := by
    apply hraw
    rw [List.getD_eq_getElem?_getD, List.getElem?_eq_getElem hj]
    exact List.getElem_mem _
  obtain ⟨hlo, hhi⟩ := hall j hj
  rw [hcj]
  refine ⟨?_, ?_, ?_⟩
  · rw [rsiOut_own nm hk _ hpl]
    unfold rsiSeries
    by_cases h : j < p
    · rw [if_pos h, hlo h]; rfl
    · rw [if_neg h]
      obtain ⟨_, y, hy, _, he, h0, h100⟩ := hhi (by omega)
      exact ⟨y, hy, he, h0, h100⟩
  · intro h
    rw [rsiOut_data nm hn _ hpl, hlo h]
  · intro h
    obtain ⟨hd, _⟩ := hhi h
    rw [rsiOut_gain nm hn _ hpl, rsiOut_loss nm hn _ hpl, hd, rsiData_gain, rsiData_loss]
    exact ⟨rfl, rfl⟩

/-! ### through the engine -/

/-- **RSI, whole series, through the engine**: `calculate()` on the raw candles returns exactly
the candles of `rsi_series`. -/
theorem rsi_series_engine (p : Nat) (hp : 1 ≤ p) (nm input : String) (fld : Candle K → Num K) (n : Nat)
    (hn : RsiNames nm) (hk : IsKey nm) (hin : NoDot input ∧ input ∈ Candle.attrNames)
    (hattr : ∀ c : Candle K, c.attr input = some (.num (fld c)))
    (raw : List (Candle K)) (hraw : ∀ c ∈ raw, Plain c) :
    ∃ rows : List (Val K × Val K), rows.length = raw.length ∧
      engineCalc (mkTop (.rsi (p : Int) input : Kind K) nm n) raw = .ok (decoRsi nm raw rows) ∧
      ∀ j, j < raw.length → RsiOK p n (fieldAt fld raw) j (rows.getD j (.none, .none)) := by
  obtain ⟨rows, hl, hrun, hall⟩ := rsi_series p hp nm input fld n hn hk hin hattr raw hraw
  refine ⟨rows, hl, ?_, hall⟩
  have := ((rsiTree (F := K) nm n (p : Int) input (by omega) hn hin).engine [] raw [] (decoRsi nm raw rows) rfl
    (by simp) hraw).2 (by simpa using hrun)
  simpa using this

/-- **… and through the object**: building the indicator over the raw candles and calling
`calculate()` once (the batch run) returns exactly the candles of `rsi_series`. -/
theorem rsi_series_batch (p : Nat) (hp : 1 ≤ p) (nm input : String) (fld : Candle K → Num K) (n : Nat)
    (hn : RsiNames nm) (hk : IsKey nm) (hin : NoDot input ∧ input ∈ Candle.attrNames)
    (hattr : ∀ c : Candle K, c.attr input = some (.num (fld c)))
    (raw : List (Candle K)) (hraw : ∀ c ∈ raw, Plain c) :
    ∃ rows : List (Val K × Val K), rows.length = raw.length ∧
      candlesOf (runIndicator (mkTop (.rsi (p : Int) input : Kind K) nm n) {} raw []) = .ok (decoRsi nm raw rows) ∧
      ∀ j, j < raw.length → RsiOK p n (fieldAt fld raw) j (rows.getD j (.none, .none)) := by
  obtain ⟨rows, hl, hrun, hall⟩ := rsi_series p hp nm input fld n hn hk hin hattr raw hraw
  exact ⟨rows, hl, ((rsiTree (F := K) nm n (p : Int) input (by omega) hn hin).batch_iff (MgrSpec.base K) raw hraw _).2 hrun,
    hall⟩

/-- **… for every append schedule**: whenever a live history (construction over `init`,
`calculate()`, then any appends) returns, its candles are those of `rsi_series` over the whole
stream. -/
theorem rsi_series_live (p : Nat) (hp : 1 ≤ p) (nm input : String) (fld : Candle K → Num K) (n : Nat)
    (hn : RsiNames nm) (hk : IsKey nm) (hin : NoDot input ∧ input ∈ Candle.attrNames)
    (hattr : ∀ c : Candle K, c.attr input = some (.num (fld c)))
    (init : List (Candle K)) (chunks : List (List (Candle K)))
    (hraw : ∀ c ∈ init ++ chunks.flatten, Plain c) (snap : List (Candle K))
    (hsnap : candlesOf (runIndicator (mkTop (.rsi (p : Int) input : Kind K) nm n) {} init chunks) = .ok snap) :
    ∃ rows : List (Val K × Val K), rows.length = (init ++ chunks.flatten).length ∧
      snap = decoRsi nm (init ++ chunks.flatten) rows ∧
      ∀ j, j < (init ++ chunks.flatten).length →
        RsiOK p n (fieldAt fld (init ++ chunks.flatten)) j (rows.getD j (.none, .none)) := by
  obtain ⟨rows, hl, hrun, hall⟩ := rsi_series p hp nm input fld n hn hk hin hattr _ hraw
  have h := (rsiTree (F := K) nm n (p : Int) input (by omega) hn hin).live_refines (MgrSpec.base K) init chunks hraw snap hsnap
  have h' : Gen.rowMajor (rsiTree (F := K) nm n (p : Int) input (by omega) hn hin).S (init ++ chunks.flatten) = .ok snap := h
  rw [hrun] at h'
  exact ⟨rows, hl, (Except.ok.inj h').symm, hall⟩

/-! ### non-vacuity: five candles over ℚ -/

/-- the five raw candles of `HexProps/C04.lean` (`demoRaw`) -/
def rsiDemoRaw : List (Candle ℚ) :=
  [Demo.mk 10 12 9 11 100, Demo.mk 11 13 10 12 200, Demo.mk 12 15 11 14 300, Demo.mk 14 16 13 15 0,
   Demo.mk 15 15 15 15 0]

theorem rsiDemoRaw_plain : ∀ c ∈ rsiDemoRaw, Plain c := by
  intro c hc
  simp only [rsiDemoRaw, List.mem_cons, List.not_mem_nil, or_false] at hc
  rcases hc with rfl | rfl | rfl | rfl | rfl <;> exact ⟨rfl, rfl⟩

theorem rsiNames_demo : RsiNames "RSI_3" := ⟨by decide, by decide, by decide, by decide⟩

example : ∃ rows : List (Val ℚ × Val ℚ), rows.length = rsiDemoRaw.length ∧
    Gen.rowMajor (rsiTree (F := ℚ) "RSI_3" 4 ((3 : Nat) : Int) "close" (by omega) rsiNames_demo ⟨noDot_close, by decide⟩).S
      rsiDemoRaw = .ok (decoRsi "RSI_3" rsiDemoRaw rows) ∧
    ∀ j, j < rsiDemoRaw.length → RsiOK 3 4 (fieldAt (·.c) rsiDemoRaw) j (rows.getD j (.none, .none)) :=
  rsi_series 3 (by norm_num) "RSI_3" "close" (·.c) 4 rsiNames_demo (by decide) ⟨noDot_close, by decide⟩
    (fun _ => rfl) rsiDemoRaw rsiDemoRaw_plain

example : ∃ rows : List (Val ℚ × Val ℚ), rows.length = rsiDemoRaw.length ∧
    candlesOf (runIndicator (mkTop (.rsi ((3 : Nat) : Int) "close" : Kind ℚ) "RSI_3" 4) {} rsiDemoRaw [])
      = .ok (decoRsi "RSI_3" rsiDemoRaw rows) ∧
    ∀ j, j < rsiDemoRaw.length → RsiOK 3 4 (fieldAt (·.c) rsiDemoRaw) j (rows.getD j (.none, .none)) :=
  rsi_series_batch 3 (by norm_num) "RSI_3" "close" (·.c) 4 rsiNames_demo (by decide) ⟨noDot_close, by decide⟩
    (fun _ => rfl) rsiDemoRaw rsiDemoRaw_plain

/-- the textbook series on the demo candles (closes 11, 12, 14, 15, 15; period 3) -/
example : rsiSeries 3 (fieldAt (·.c) rsiDemoRaw) 2 = none := by decide
example : wilderAvg 3 (upAt (fieldAt (·.c) rsiDemoRaw)) 3 = 4 / 3 := by
  norm_num [wilderAvg, rsum, upAt, fieldAt, rsiDemoRaw, Demo.mk, List.range_succ]
example : wilderAvg 3 (upAt (fieldAt (·.c) rsiDemoRaw)) 4 = 8 / 9 := by
  norm_num [wilderAvg, rsum, upAt, fieldAt, rsiDemoRaw, Demo.mk, List.range_succ]
example : rsiSeries 3 (fieldAt (·.c) rsiDemoRaw) 4 = some 100 := by
  norm_num [rsiSeries, rsiExact, rsiOf, wilderAvg, rsum, upAt, downAt, fieldAt, rsiDemoRaw, Demo.mk, List.range_succ]

/-- the batch run on the demo candles: `None` at index 2, `100.0` at index 4, data `8/9`, `0` -/
example : ∃ out : List (Candle ℚ),
    candlesOf (runIndicator (mkTop (.rsi ((3 : Nat) : Int) "close" : Kind ℚ) "RSI_3" 4) {} rsiDemoRaw []) = .ok out ∧
    readingByCandle (out.getD 2 default) "RSI_3" = .none ∧
    readingByCandle (out.getD 4 default) "RSI_3" = .flt 100 ∧
    readingByCandle (out.getD 4 default) ("RSI_3" ++ "_data.gain") = .flt (8 / 9) ∧
    readingByCandle (out.getD 4 default) ("RSI_3" ++ "_data.loss") = .flt 0 := by
  obtain ⟨rows, hl, hrun, hall⟩ := rsi_series_batch 3 (by norm_num) "RSI_3" "close" (·.c) 4 rsiNames_demo (by decide)
    ⟨noDot_close, by decide⟩ (fun _ => rfl) rsiDemoRaw rsiDemoRaw_plain
  refine ⟨_, hrun, ?_⟩
  have hc : ∀ j, j < rsiDemoRaw.length → (decoRsi "RSI_3" rsiDemoRaw rows).getD j default
      = rsiOut "RSI_3" (rsiDemoRaw.getD j default) (rows.getD j (.none, .none)) := by
    intro j hj
    rw [List.getD_eq_getElem?_getD, decoRsi, decoWith_getElem? _ _ _ (.none, .none) j hl hj]; rfl
  have hp : ∀ j, j < rsiDemoRaw.length → Plain (rsiDemoRaw.getD j default) := by
    intro j hj
    apply rsiDemoRaw_plain
    rw [List.getD_eq_getElem?_getD, List.getElem?_eq_getElem hj]
    exact List.getElem_mem _
  have h2 := (hall 2 (by decide)).1 (by decide)
  obtain ⟨hd, y, hy, hyr, _⟩ := (hall 4 (by decide)).2 (by decide)
  have e100 : rsiExact 3 (fieldAt (·.c) rsiDemoRaw) 4 = 100 := by
    norm_num [rsiExact, rsiOf, wilderAvg, rsum, upAt, downAt, fieldAt, rsiDemoRaw, Demo.mk, List.range_succ]
  have eg : wilderAvg 3 (upAt (fieldAt (·.c) rsiDemoRaw)) 4 = 8 / 9 := by
    norm_num [wilderAvg, rsum, upAt, fieldAt, rsiDemoRaw, Demo.mk, List.range_succ]
  have el : wilderAvg 3 (downAt (fieldAt (·.c) rsiDemoRaw)) 4 = 0 := by
    norm_num [wilderAvg, rsum, downAt, fieldAt, rsiDemoRaw, Demo.mk, List.range_succ]
  rw [hc 2 (by decide), hc 4 (by decide), rsiOut_own _ (by decide) _ (hp 2 (by decide)),
    rsiOut_own _ (by decide) _ (hp 4 (by decide)), rsiOut_gain _ rsiNames_demo _ (hp 4 (by decide)),
    rsiOut_loss _ rsiNames_demo _ (hp 4 (by decide)), h2, hy, hd, rsiData_gain, rsiData_loss, hyr, e100, eg, el,
    round_hundred]
  exact ⟨rfl, rfl, rfl, rfl⟩

#print axioms rsi_series
#print axioms rsi_series_candles
#print axioms rsi_series_engine
#print axioms rsi_series_batch
#print axioms rsi_series_live

end Numeric
end Hex

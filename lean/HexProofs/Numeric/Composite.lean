import HexProofs.Numeric.CtxLemmas
/-!
# Indicators that write helper series while computing (HexModel/Ind/Composite.lean)

The framework services are abstract (`ops : Ops K`); the hypotheses say that the helper write
succeeds (`hset`) and what is read back from the updated candles.  Those facts about the
framework are the business of `HexProofs/Framework`; here only the formulas are examined.
-/
set_option linter.unusedSectionVars false
set_option linter.unusedSimpArgs false
namespace Hex
variable {K : Type} [Field K] [LinearOrder K] [IsStrictOrderedRing K] [LawfulPyF K]
namespace Numeric

/-- the context of the same index over updated candles -/
abbrev Ctx.on (x : Ctx K) (cs : List (Candle K)) : Ctx K := { x with cs := cs }

/-! ## MACD -/

theorem macd_def (ops : Ops K) (x : Ctx K) (cs1 cs2 : List (Candle K)) (sl f sg : Num K)
    (hs : x.reading (x.name ++ "_EMA_slow") = .ok (.num sl))
    (hf : x.reading (x.name ++ "_EMA_fast") = .ok (.num f))
    (hu : updateAt x.cs x.i (fun c => { c with inds := dset x.name (sdict [("MACD", sc (f.sub sl))]) c.inds }) = .ok cs1)
    (hc : ops.calcManaged "signal" cs1 = .ok cs2)
    (hsg : (Ctx.on x cs2).reading (x.name ++ "_signal_line") = .ok (.num sg)) :
    Calc.macd ops x = .ok (.dict [("MACD", .num (f.sub sl)), ("signal", .num sg),
                                  ("histogram", .num ((f.sub sl).sub sg))], cs2) := by
  simp only [sdict, sc] at hu
  simp [Calc.macd, hs, Ctx.num_of hf, hu, hc, hsg, sdict, sc]

/-- while the signal EMA is warming up only the MACD line is set -/
theorem macd_nosignal (ops : Ops K) (x : Ctx K) (cs1 cs2 : List (Candle K)) (sl f : Num K)
    (hs : x.reading (x.name ++ "_EMA_slow") = .ok (.num sl))
    (hf : x.reading (x.name ++ "_EMA_fast") = .ok (.num f))
    (hu : updateAt x.cs x.i (fun c => { c with inds := dset x.name (sdict [("MACD", sc (f.sub sl))]) c.inds }) = .ok cs1)
    (hc : ops.calcManaged "signal" cs1 = .ok cs2)
    (hsg : (Ctx.on x cs2).reading (x.name ++ "_signal_line") = .ok .none) :
    Calc.macd ops x = .ok (.dict [("MACD", .num (f.sub sl)), ("signal", .none), ("histogram", .none)], cs2) := by
  simp only [sdict, sc] at hu
  simp [Calc.macd, hs, Ctx.num_of hf, hu, hc, hsg, sdict, sc]

theorem macd_none (ops : Ops K) (x : Ctx K)
    (hs : x.reading (x.name ++ "_EMA_slow") = .ok .none) :
    Calc.macd ops x = .ok (.dict [("MACD", .none), ("signal", .none), ("histogram", .none)], x.cs) := by
  simp [Calc.macd, hs, sdict]

/-- MACD = fast − slow, histogram = MACD − signal -/
theorem macd_vals (f sl sg : Num K) :
    (f.sub sl).toF = f.toF - sl.toF ∧ ((f.sub sl).sub sg).toF = (f.sub sl).toF - sg.toF := by simp

/-! ## HMA -/

theorem hma_def (ops : Ops K) (x : Ctx K) (cs1 : List (Candle K)) (w wh : Num K) (r : Val K)
    (hw : x.reading (x.name ++ "_WMA") = .ok (.num w))
    (hwh : x.reading (x.name ++ "_WMAh") = .ok (.num wh))
    (hset : ops.setManaged "raw_HMA" (.num (((Num.int 2).mul wh).sub w)) x.cs = .ok cs1)
    (hr : (Ctx.on x cs1).reading (x.name ++ "_HMAs") = .ok r) :
    Calc.hma ops x = .ok (r, cs1) ∧ (((Num.int 2 : Num K).mul wh).sub w).toF = 2 * wh.toF - w.toF := by
  constructor
  · simp [Calc.hma, hw, Ctx.num_of hwh, hset, hr]
  · simp

theorem hma_none (ops : Ops K) (x : Ctx K) (hw : x.reading (x.name ++ "_WMA") = .ok .none) :
    Calc.hma ops x = .ok (.none, x.cs) := by
  simp [Calc.hma, hw]

/-! ## TSI -/

theorem tsi_def (ops : Ops K) (x : Ctx K) (input : String) (cs1 : List (Candle K)) (cur prev a s : Num K)
    (hrp : x.readingPeriod 2 input = true)
    (hc : x.reading input = .ok (.num cur)) (hp : x.prevReading input = .ok (.num prev))
    (hset : ops.setManaged "TSI_data"
      (sdict [("price", sc (cur.sub prev)), ("abs_price", sc (cur.sub prev).abs)]) x.cs = .ok cs1)
    (ha : (Ctx.on x cs1).reading (x.name ++ "_abs_second") = .ok (.num a))
    (hs : (Ctx.on x cs1).reading (x.name ++ "_second") = .ok (.num s)) :
    ∃ n, Calc.tsi ops x input = .ok (.num n, cs1) ∧
      n.toF = if a.toF = 0 then 0 else 100 * (s.toF / a.toF) := by
  by_cases h0 : a.toF = 0
  · refine ⟨fl 0, ?_, by simp [h0]⟩
    have : a.eq (.int 0) = true := by rw [Num.eq_iff]; simpa using h0
    simp [Calc.tsi, hrp, Ctx.num_of hc, Ctx.prevNum_of hp, hset, ha, this]
  · refine ⟨(Num.int 100).mul (.flt (s.toF / a.toF)), ?_, by simp [h0]⟩
    have : a.eq (.int 0) = false := by rw [Num.eq_false_iff]; simpa using h0
    simp [Calc.tsi, hrp, Ctx.num_of hc, Ctx.prevNum_of hp, hset, ha, this, Ctx.num_of hs,
      Num.truediv_ok _ _ h0]

theorem tsi_warmup (ops : Ops K) (x : Ctx K) (input : String) (cs1 : List (Candle K)) (cur prev : Num K)
    (hrp : x.readingPeriod 2 input = true)
    (hc : x.reading input = .ok (.num cur)) (hp : x.prevReading input = .ok (.num prev))
    (hset : ops.setManaged "TSI_data"
      (sdict [("price", sc (cur.sub prev)), ("abs_price", sc (cur.sub prev).abs)]) x.cs = .ok cs1)
    (ha : (Ctx.on x cs1).reading (x.name ++ "_abs_second") = .ok .none) :
    Calc.tsi ops x input = .ok (.none, cs1) := by
  simp [Calc.tsi, hrp, Ctx.num_of hc, Ctx.prevNum_of hp, hset, ha]

theorem tsi_none (ops : Ops K) (x : Ctx K) (input : String) (hrp : x.readingPeriod 2 input = false) :
    Calc.tsi ops x input = .ok (.none, x.cs) := by
  simp [Calc.tsi, hrp]

/-- TSI ∈ [-100, 100] when |double-smoothed momentum| ≤ double-smoothed |momentum| -/
theorem tsi_range (s a : K) (h : |s| ≤ a) :
    -100 ≤ (if a = 0 then 0 else 100 * (s / a)) ∧ (if a = 0 then 0 else 100 * (s / a)) ≤ 100 := by
  by_cases h0 : a = 0
  · simp [h0]
  · have ha : 0 < a := lt_of_le_of_ne (le_trans (abs_nonneg s) h) (Ne.symm h0)
    have h1 := abs_le.1 h
    simp only [h0, if_false]
    have u : s / a ≤ 1 := by rw [div_le_one ha]; exact h1.2
    have l : -1 ≤ s / a := by rw [le_div_iff₀ ha]; linarith
    constructor <;> linarith

/-! ## VWAP -/

/-- cumulative VWAP step: `pv += volume·typical`, `vol += volume`, reading = pv/vol (pv while the
cumulative volume is still 0: the division is guarded) -/
theorem vwap_step (ops : Ops K) (x : Ctx K) (w : Val K → List (Candle K)) (h l c vol ppv pvol : Num K)
    (hh : x.reading "high" = .ok (.num h)) (hl : x.reading "low" = .ok (.num l))
    (hc : x.reading "close" = .ok (.num c)) (hv : x.reading "volume" = .ok (.num vol))
    (hpp : x.prevReading (x.name ++ "_data.pv") = .ok (.num ppv))
    (hpv : x.prevReading (x.name ++ "_data.vol") = .ok (.num pvol))
    (hset : ∀ v, ops.setManaged "VWAP_data" v x.cs = .ok (w v)) :
    ∃ PV TV : Num K,
      PV.toF = ppv.toF + vol.toF * ((h.toF + l.toF + c.toF) / 3) ∧ TV.toF = pvol.toF + vol.toF ∧
      Calc.vwap ops x = .ok (.num (if TV.toF = 0 then PV else .flt (PV.toF / TV.toF)),
                             w (sdict [("pv", sc PV), ("vol", sc TV)])) := by
  have h3 : (Num.int 3 : Num K).toF ≠ 0 := by simp
  refine ⟨ppv.add (vol.mul (.flt (((h.add l).add c).toF / (Num.int 3 : Num K).toF))), pvol.add vol,
    by simp, by simp, ?_⟩
  by_cases h0 : (pvol.add vol).toF = 0
  · have e : (pvol.add vol).eq (.int 0) = true := by rw [Num.eq_iff]; simpa using h0
    simp [Calc.vwap, Ctx.num_of hh, Ctx.num_of hl, Ctx.num_of hc, Ctx.num_of hv, Num.truediv_ok _ _ h3,
      Ctx.prevExists_of hpp, Ctx.prevNum_of hpp, Ctx.prevNum_of hpv, hset, e, h0]
  · have e : (pvol.add vol).eq (.int 0) = false := by rw [Num.eq_false_iff]; simpa using h0
    simp [Calc.vwap, Ctx.num_of hh, Ctx.num_of hl, Ctx.num_of hc, Ctx.num_of hv, Num.truediv_ok _ _ h3,
      Ctx.prevExists_of hpp, Ctx.prevNum_of hpp, Ctx.prevNum_of hpv, hset, e, h0, Num.truediv_ok _ _ h0]
    intro hne; exact absurd hne (by simpa using h0)

/-- the first VWAP candle starts both running sums from 0 -/
theorem vwap_first (ops : Ops K) (x : Ctx K) (w : Val K → List (Candle K)) (h l c vol : Num K)
    (hh : x.reading "high" = .ok (.num h)) (hl : x.reading "low" = .ok (.num l))
    (hc : x.reading "close" = .ok (.num c)) (hv : x.reading "volume" = .ok (.num vol))
    (hpp : x.prevReading (x.name ++ "_data.pv") = .ok .none)
    (hset : ∀ v, ops.setManaged "VWAP_data" v x.cs = .ok (w v)) :
    ∃ PV TV : Num K,
      PV.toF = vol.toF * ((h.toF + l.toF + c.toF) / 3) ∧ TV.toF = vol.toF ∧
      Calc.vwap ops x = .ok (.num (if TV.toF = 0 then PV else .flt (PV.toF / TV.toF)),
                             w (sdict [("pv", sc PV), ("vol", sc TV)])) := by
  have h3 : (Num.int 3 : Num K).toF ≠ 0 := by simp
  refine ⟨(Num.int 0).add (vol.mul (.flt (((h.add l).add c).toF / (Num.int 3 : Num K).toF))), (Num.int 0).add vol,
    by simp, by simp, ?_⟩
  by_cases h0 : ((Num.int 0 : Num K).add vol).toF = 0
  · have e : ((Num.int 0 : Num K).add vol).eq (.int 0) = true := by rw [Num.eq_iff]; simpa using h0
    simp [Calc.vwap, Ctx.num_of hh, Ctx.num_of hl, Ctx.num_of hc, Ctx.num_of hv, Num.truediv_ok _ _ h3,
      Ctx.prevExists_of hpp, hset, e, h0]
  · have e : ((Num.int 0 : Num K).add vol).eq (.int 0) = false := by rw [Num.eq_false_iff]; simpa using h0
    simp [Calc.vwap, Ctx.num_of hh, Ctx.num_of hl, Ctx.num_of hc, Ctx.num_of hv, Num.truediv_ok _ _ h3,
      Ctx.prevExists_of hpp, hset, e, h0, Num.truediv_ok _ _ h0]
    intro hne; exact absurd hne (by simpa using h0)

end Numeric
end Hex

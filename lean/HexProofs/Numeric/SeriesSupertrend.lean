import HexProofs.Framework.Gen.Supertrend
import HexProofs.Numeric.Supertrend
import HexProofs.Numeric.SeriesATR
import HexProofs.Numeric.SeriesRSI
/-!
# Supertrend: the whole series (closes the Supertrend item of `C05_FULL`)

`Gen.rowMajor (stTree …).S raw` is the row-major run of the Supertrend tree – prior ATR helper (with
its own TR helper), prior `HL2` helper, the managed `<name>_data` series {upper, lower} and the own
reading; by `TreeSpec.engine` / `batch_iff` / `live_refines` it is what `calculate()`, the batch run
and every append schedule return.

What the model (`Calc.supertrend`, `children`, HexModel/Core/Eval.lean) does, as found by reading it:
* helper readings are stored ROUNDED to `defaultRound = 4` decimals: `name_atr_TR` (`None` on candle 0,
  ints stay ints), `name_atr` (`None` on candles `0 … p−1`; the mean of the stored `TR₁ … TR_p` at index
  `p`, then `(prev·(p−1) + TR)/p` on the STORED, already rounded predecessor – `stAtr`), `name_HL`
  (`round₄((high+low)/2)` on every candle);
* the data series `name_data` is NOT rounded (`Managed.set_reading`); nothing is stored before the first
  ATR (index `p`);
* the own reading is a dict on EVERY candle: before index `p` it is `stNoneDict` =
  `{trend: None, direction: 1, long: None, short: None}` (not `None`); from `p` on `stDict dir upper lower`
  rounded to `round` decimals (the direction is an int and stays exact);
* the state machine starts at the first candle with an ATR (index `p`) with `(1, HL2 + m·ATR, HL2 − m·ATR)`
  and is advanced by `stDir / stUpper / stLower` against the PREVIOUS STORED bands; when the close is beyond
  both previous bands the previous direction decides (break of the active band); the ratchet is applied only
  when the close is beyond NEITHER previous band.

* textbook series: `stAtr`, `hl2S`, `stMachine`, `stSeries : ℕ → Option (StState K)`;
* predicates: `StRowOK` (rows), `StCandleOK` = helper columns + `StOwnOK` (own reading, bands within `ε_n`)
  + `StDataOK` (data entry, bands exact); budget of the machine's inputs: `stAtrStored_ok` (`p·ε₄` against
  Wilder's average of the stored true ranges), `stAtr_true`, `stPlain_budget`;
* theorems: `st_series` (induction along `Gen.rowMajor` via `gen_series_induct` from `stR_none` /
  `stR_first` / `stR_step`), `st_series_candles`, `st_series_engine`, `st_series_batch`,
  `st_batch_readings`, `st_series_live`; corollaries `stSeries_dir`, `stSeries_flip`, `stSeries_ratchet`,
  `StOwnOK.fields`.
-/
set_option linter.unusedSectionVars false
set_option linter.unusedSimpArgs false
namespace Hex
namespace Numeric
variable {K : Type} [Field K] [LinearOrder K] [IsStrictOrderedRing K] [LawfulPyF K]

/-! ### the row step -/

theorem st_rowStep (nm : String) (n : Nat) (p : Int) (input : String) (mult : Num K) (hp : 1 ≤ p)
    (hn : StNames nm) (H : List (Candle K)) (c : Candle K) :
    Gen.rowStep (stTree (F := K) nm n p input mult hp hn).S H c = (do
      let t ← valOf (stTr nm) H c
      let a ← valOf (stA nm p) H (decOf (stTr nm) t c)
      let h ← valOf (stH nm) H (decOf (stA nm p) a (decOf (stTr nm) t c))
      let r ← stR mult { cs := H ++ [decOf (stH nm) h (decOf (stA nm p) a (decOf (stTr nm) t c))], i := H.length, name := nm }
      let v ← r.2
      pure (H ++ [outDS false nm (nm ++ "_data") (v.roundBy n) r.1
        (decOf (stH nm) h (decOf (stA nm p) a (decOf (stTr nm) t c)))])) := by
  show Gen.rowStep ((stComp nm n p input mult hp hn).spec _) H c = _
  rw [TComp.rowStep_spec]
  show (do
    let z ← (do
      let x ← (do
        let t ← valOf (stTr nm) H c
        let a ← valOf (stA nm p) H (decOf (stTr nm) t c)
        pure (t, a))
      let q ← (do
        let h ← valOf (stH nm) H (decOf (stA nm p) x.2 (decOf (stTr nm) x.1 c))
        let pq ← (do
          let (d, fin) ← stR mult { cs := H ++ [decOf (stH nm) h (decOf (stA nm p) x.2 (decOf (stTr nm) x.1 c))], i := H.length, name := nm }
          let v ← fin
          pure (d, v))
        pure (h, pq))
      pure (x, q))
    pure (H ++ [outDS false nm (nm ++ "_data") (z.2.2.2.roundBy n) z.2.2.1
        (decOf (stH nm) z.2.1 (decOf (stA nm p) z.1.2 (decOf (stTr nm) z.1.1 c)))])) = _
  cases valOf (stTr nm) H c with
  | error e => rfl
  | ok t =>
    simp only [bind, Except.bind]
    cases valOf (stA nm p) H (decOf (stTr nm) t c) with
    | error e => rfl
    | ok a =>
      simp only [pure, Except.pure]
      cases valOf (stH nm) H (decOf (stA nm p) a (decOf (stTr nm) t c)) with
      | error e => rfl
      | ok h =>
        simp only
        cases stR mult { cs := H ++ [decOf (stH nm) h (decOf (stA nm p) a (decOf (stTr nm) t c))], i := H.length, name := nm } with
        | error e => rfl
        | ok r =>
          obtain ⟨d, fin⟩ := r
          simp only
          cases fin <;> rfl

/-! ### the finished candles -/

structure StRow (K : Type) where
  tr : Val K
  atr : Val K
  hl : Val K
  own : Val K
  data : Option (Val K)

def StRow.dflt : StRow K := ⟨.none, .none, .none, .none, none⟩

/-- a field of the (optional) data entry -/
def stDataField (data : Option (Val K)) (fld : String) : Val K :=
  match data with
  | some d => d.nested fld
  | none => .none

def stOut (nm : String) (c : Candle K) (r : StRow K) : Candle K :=
  outDS false nm (nm ++ "_data") r.own r.data
    (setKey true (nm ++ "_HL") r.hl (setKey true (nm ++ "_atr") r.atr
      (setKey true (nm ++ "_atr" ++ "_TR") r.tr c)))

section cand
variable (nm : String) (hn : StNames nm)
include hn

theorem stOut_attr (input : String) (hd : NoDot input) (hin : input ∈ Candle.attrNames) (c : Candle K) (r : StRow K) :
    readingByCandle (stOut nm c r) input = readingByCandle c input := by
  unfold stOut
  rw [readingByCandle_outDS false nm (nm ++ "_data") input (indep_attr _ _ hd hin) (indep_attr _ _ hd hin),
    indep_attr (F := K) _ input hd hin, indep_attr (F := K) _ input hd hin, indep_attr (F := K) _ input hd hin]

theorem stOut_tr (c : Candle K) (hc : Plain c) (r : StRow K) :
    readingByCandle (stOut nm c r) (nm ++ "_atr" ++ "_TR") = r.tr := by
  unfold stOut
  rw [readingByCandle_outDS false nm (nm ++ "_data") _ (indep_key _ _ hn.kT hn.nT) (indep_key _ _ hn.kT hn.TD.symm),
    indep_key (F := K) _ _ hn.kT hn.TH.symm, indep_key (F := K) _ _ hn.kT hn.AT,
    readingByCandle_setKey true _ hn.kT _ _ hc]

theorem stOut_atr (c : Candle K) (hc : Plain c) (r : StRow K) :
    readingByCandle (stOut nm c r) (nm ++ "_atr") = r.atr := by
  unfold stOut
  rw [readingByCandle_outDS false nm (nm ++ "_data") _ (indep_key _ _ hn.kA hn.nA) (indep_key _ _ hn.kA hn.AD.symm),
    indep_key (F := K) _ _ hn.kA hn.AH.symm, readingByCandle_key _ hn.kA]
  obtain ⟨hi, hs⟩ := hc
  simp [lookupKey, setKey, hi, hs, dset, dlookup]

theorem stOut_dir (c : Candle K) (hc : Plain c) (r : StRow K) :
    readingByCandle (stOut nm c r) (nm ++ ".direction") = r.own.nested "direction" := by
  unfold readingByCandle
  rw [hn.dir]
  obtain ⟨hi, hs⟩ := hc
  cases hd : r.data <;> simp [stOut, outDS, setD, setKey, hi, hs, dset, dlookup, hd]

theorem stOut_field (fld full : String) (hsplit : splitDot full = [nm ++ "_data", fld]) (c : Candle K) (hc : Plain c) (r : StRow K) :
    readingByCandle (stOut nm c r) full
      = stDataField r.data fld := by
  unfold readingByCandle
  rw [hsplit]
  obtain ⟨hi, hs⟩ := hc
  have h1 := hn.nD
  have h2 := hn.AD
  have h3 := hn.TD
  have h4 := hn.HD
  unfold stOut
  generalize nm ++ "_atr" ++ "_TR" = T at *
  generalize nm ++ "_atr" = A at *
  generalize nm ++ "_HL" = H at *
  generalize nm ++ "_data" = D at *
  cases hd : r.data <;>
    simp [stOut, outDS, setD, setKey, hi, hs, dlookup_dset, hd, h1, h2, h3, h4, stDataField]

theorem stOut_lower (c : Candle K) (hc : Plain c) (r : StRow K) :
    readingByCandle (stOut nm c r) (nm ++ "_data.lower")
      = stDataField r.data "lower" :=
  stOut_field nm hn "lower" _ hn.lower c hc r

theorem stOut_upper (c : Candle K) (hc : Plain c) (r : StRow K) :
    readingByCandle (stOut nm c r) (nm ++ "_data.upper")
      = stDataField r.data "upper" :=
  stOut_field nm hn "upper" _ hn.upper c hc r

theorem stOut_own (hk : IsKey nm) (c : Candle K) (hc : Plain c) (r : StRow K) :
    readingByCandle (stOut nm c r) nm = r.own := by
  rw [readingByCandle_key nm hk]
  obtain ⟨hi, hs⟩ := hc
  cases hd : r.data <;> simp [stOut, lookupKey, outDS, setD, setKey, hi, hs, dset, dlookup, hd]

theorem stOut_hl (c : Candle K) (hc : Plain c) (r : StRow K) :
    readingByCandle (stOut nm c r) (nm ++ "_HL") = r.hl := by
  unfold stOut
  rw [readingByCandle_outDS false nm (nm ++ "_data") _ (indep_key _ _ hn.kH hn.nH) (indep_key _ _ hn.kH hn.HD.symm),
    readingByCandle_key _ hn.kH]
  obtain ⟨hi, hs⟩ := hc
  simp [lookupKey, setKey, hi, hs, dset, dlookup, hn.AH, hn.AH.symm, hn.TH, hn.TH.symm]

theorem stOut_bare (c : Candle K) (r : StRow K) : (stOut nm c r).bare = c.bare := by
  unfold stOut outDS setD
  cases r.data <;> simp [bare_setKey]

end cand

/-! ### the pure reading part `stR`, call by call (the step theorems of Numeric/Supertrend.lean for `stR`) -/

/-- what Supertrend reports while the ATR helper has no reading -/
def stNoneDict : Val K :=
  .dict [("trend", .none), ("direction", .num (.int 1)), ("long", .none), ("short", .none)]

theorem stR_none (x : Ctx K) (mult : Num K) (ha : x.reading (x.name ++ "_atr") = .ok .none) :
    stR mult x = .ok (none, .ok stNoneDict) := by
  simp [stR, ha, sdict, sc, stNoneDict]

theorem stR_first (x : Ctx K) (mult a hl : Num K)
    (ha : x.reading (x.name ++ "_atr") = .ok (.num a))
    (hhl : x.reading (x.name ++ "_HL") = .ok (.num hl))
    (hpl : x.prevReading (x.name ++ "_data.lower") = .ok .none) :
    stR mult x =
      .ok (some (sdict [("upper", sc (hl.add (mult.mul a))), ("lower", sc (hl.sub (mult.mul a)))]),
           .ok (stDict 1 (hl.add (mult.mul a)) (hl.sub (mult.mul a)))) := by
  simp [stR, ha, Ctx.num_of hhl, Ctx.prevExists_of hpl, stDict, Num.eq, sdict, sc]

theorem stR_step (x : Ctx K) (mult a hl close pu pl : Num K) (pd : Int)
    (ha : x.reading (x.name ++ "_atr") = .ok (.num a))
    (hhl : x.reading (x.name ++ "_HL") = .ok (.num hl))
    (hc : x.reading "close" = .ok (.num close))
    (hpl : x.prevReading (x.name ++ "_data.lower") = .ok (.num pl))
    (hpu : x.prevReading (x.name ++ "_data.upper") = .ok (.num pu))
    (hpd : x.prevReading (x.name ++ ".direction") = .ok (.int pd))
    (hd : pd = 1 ∨ pd = -1) :
    ∃ U L : Num K,
      U.toF = stUpper close.toF pu.toF pl.toF pd (hl.toF + mult.toF * a.toF) ∧
      L.toF = stLower close.toF pu.toF pl.toF pd (hl.toF - mult.toF * a.toF) ∧
      stR mult x =
        .ok (some (sdict [("upper", sc U), ("lower", sc L)]), .ok (stDict (stDir close.toF pu.toF pl.toF pd) U L)) := by
  have hone : (Val.int pd : Val K).isIntOne = decide (pd = 1) := by
    rcases hd with rfl | rfl <;> simp [Val.isIntOne, Num.eq]
  by_cases h1 : pu.toF < close.toF
  · have e1 : close.gt pu = true := (Num.gt_iff _ _).2 h1
    by_cases h2 : close.toF < pl.toF
    · have e2 : close.lt pl = true := (Num.lt_iff _ _).2 h2
      refine ⟨hl.add (mult.mul a), hl.sub (mult.mul a), by simp [stUpper, h1], by simp [stLower, h1], ?_⟩
      rcases hd with rfl | rfl <;>
        simp [stR, ha, Ctx.num_of hhl, Ctx.prevExists_of hpl, Ctx.num_of hc, Ctx.prevNum_of hpu,
          Ctx.prevNum_of hpl, hpd, hone, e1, e2, stDict, stDir, h1, h2, Num.eq, sdict, sc]
    · have e2 : close.lt pl = false := (Num.lt_false_iff _ _).2 (not_lt.1 h2)
      refine ⟨hl.add (mult.mul a), hl.sub (mult.mul a), by simp [stUpper, h1], by simp [stLower, h1], ?_⟩
      simp [stR, ha, Ctx.num_of hhl, Ctx.prevExists_of hpl, Ctx.num_of hc, Ctx.prevNum_of hpu,
        Ctx.prevNum_of hpl, hpd, e1, e2, stDict, stDir, h1, h2, Num.eq, sdict, sc]
  · have e1 : close.gt pu = false := (Num.gt_false_iff _ _).2 (not_lt.1 h1)
    by_cases h2 : close.toF < pl.toF
    · have e2 : close.lt pl = true := (Num.lt_iff _ _).2 h2
      refine ⟨hl.add (mult.mul a), hl.sub (mult.mul a), by simp [stUpper, h1, h2], by simp [stLower, h1, h2], ?_⟩
      simp [stR, ha, Ctx.num_of hhl, Ctx.prevExists_of hpl, Ctx.num_of hc, Ctx.prevNum_of hpu,
        Ctx.prevNum_of hpl, hpd, e1, e2, stDict, stDir, h1, h2, Num.eq, sdict, sc]
    · have e2 : close.lt pl = false := (Num.lt_false_iff _ _).2 (not_lt.1 h2)
      rcases hd with rfl | rfl
      · by_cases h3 : hl.toF - mult.toF * a.toF < pl.toF
        · have e3 : (hl.sub (mult.mul a)).lt pl = true := by rw [Num.lt_iff]; simpa using h3
          refine ⟨hl.add (mult.mul a), pl, by simp [stUpper, h1, h2], by simp [stLower, h1, h2, h3], ?_⟩
          simp [stR, ha, Ctx.num_of hhl, Ctx.prevExists_of hpl, Ctx.num_of hc, Ctx.prevNum_of hpu,
            Ctx.prevNum_of hpl, Ctx.prevNum_of hpd, hpd, e1, e2, e3, stDict, stDir, h1, h2, Num.eq, sdict, sc]
        · have e3 : (hl.sub (mult.mul a)).lt pl = false := by rw [Num.lt_false_iff]; simpa using not_lt.1 h3
          refine ⟨hl.add (mult.mul a), hl.sub (mult.mul a), by simp [stUpper, h1, h2], by simp [stLower, h1, h2, h3], ?_⟩
          simp [stR, ha, Ctx.num_of hhl, Ctx.prevExists_of hpl, Ctx.num_of hc, Ctx.prevNum_of hpu,
            Ctx.prevNum_of hpl, Ctx.prevNum_of hpd, hpd, e1, e2, e3, stDict, stDir, h1, h2, Num.eq, sdict, sc]
      · by_cases h3 : pu.toF < hl.toF + mult.toF * a.toF
        · have e3 : (hl.add (mult.mul a)).gt pu = true := by rw [Num.gt_iff]; simpa using h3
          refine ⟨pu, hl.sub (mult.mul a), by simp [stUpper, h1, h2, h3], by simp [stLower, h1, h2], ?_⟩
          simp [stR, ha, Ctx.num_of hhl, Ctx.prevExists_of hpl, Ctx.num_of hc, Ctx.prevNum_of hpu,
            Ctx.prevNum_of hpl, Ctx.prevNum_of hpd, hpd, e1, e2, e3, stDict, stDir, h1, h2, Num.eq, sdict, sc]
        · have e3 : (hl.add (mult.mul a)).gt pu = false := by rw [Num.gt_false_iff]; simpa using not_lt.1 h3
          refine ⟨hl.add (mult.mul a), hl.sub (mult.mul a), by simp [stUpper, h1, h2, h3], by simp [stLower, h1, h2], ?_⟩
          simp [stR, ha, Ctx.num_of hhl, Ctx.prevExists_of hpl, Ctx.num_of hc, Ctx.prevNum_of hpu,
            Ctx.prevNum_of hpl, Ctx.prevNum_of hpd, hpd, e1, e2, e3, stDict, stDir, h1, h2, Num.eq, sdict, sc]


/-! ### the ATR helper's stored column, exactly -/

/-- the ATR helper's STORED reading as a number, as a function of its (stored) true-range inputs
`x`: the mean of `x 1 … x p` rounded to `defaultRound` decimals at the warm-up index `p` (and, by
convention, before it), then `round₄((prev·(p−1) + x j)/p)` on the STORED predecessor -/
def stAtr (p : Nat) (x : Nat → K) : Nat → K
  | 0 => PyF.round defaultRound (rsum p (fun k => x (1 + k)) / p)
  | j + 1 => if j + 1 ≤ p then PyF.round defaultRound (rsum p (fun k => x (1 + k)) / p)
             else PyF.round defaultRound ((stAtr p x j * ((p : K) - 1) + x (j + 1)) / p)

theorem stAtr_seed (p : Nat) (x : Nat → K) (j : Nat) (h : j ≤ p) :
    stAtr p x j = PyF.round defaultRound (rsum p (fun k => x (1 + k)) / p) := by
  cases j with
  | zero => rfl
  | succ i => simp [stAtr, h]

theorem stAtr_step (p : Nat) (x : Nat → K) (j : Nat) (h : p < j) :
    stAtr p x j = PyF.round defaultRound ((stAtr p x (j - 1) * ((p : K) - 1) + x j) / p) := by
  obtain ⟨i, rfl⟩ : ∃ i, j = i + 1 := ⟨j - 1, by omega⟩
  have : ¬ i + 1 ≤ p := by omega
  simp [stAtr, this]

/-- the reading stored under `name_atr` on candle `j` -/
def stAtrStored (p : Nat) (raw : List (Candle K)) (j : Nat) : Val K :=
  if j < p then .none else .flt (stAtr p (trS raw) j)

/-- the stored ATR column is within `p·ε₄` of Wilder's average of the stored true ranges (and
non-negative): the statement `AtrOK` of `SeriesATR` -/
theorem stAtrStored_ok (p : Nat) (hp : 1 ≤ p) (raw : List (Candle K)) (j : Nat) :
    AtrOK p defaultRound (trS raw) j (stAtrStored p raw j) := by
  have hpK : (0 : K) < p := by exact_mod_cast (by omega : 0 < p)
  have ha0 : (0 : K) < 1 / (p : K) := by positivity
  have ha1 : 1 / (p : K) ≤ 1 := by rw [div_le_one hpK]; exact_mod_cast hp
  have h1p : (0 : K) ≤ (p : K) - 1 := by rw [sub_nonneg]; exact_mod_cast hp
  unfold stAtrStored
  by_cases h1 : j < p
  · rw [if_pos h1]
    exact ⟨⟨fun _ => rfl, fun h => by omega⟩, fun y hy => by cases hy⟩
  · rw [if_neg h1]
    suffices hs : ∀ i, p ≤ i → |stAtr p (trS raw) i - atrExact p (trS raw) i| ≤ eps K defaultRound / (1 / (p : K))
        ∧ 0 ≤ stAtr p (trS raw) i by
      obtain ⟨hb, h0⟩ := hs j (by omega)
      exact ⟨⟨fun h => by omega, fun _ => ⟨_, rfl, hb⟩⟩, fun y hy => by cases hy; exact h0⟩
    intro i
    induction i with
    | zero =>
      intro hi
      have : p = 0 := by omega
      omega
    | succ i ih =>
      intro hi
      by_cases h2 : i + 1 = p
      · rw [stAtr_seed _ _ _ (by omega), ← h2, atrExact_seed]
        rw [h2]
        exact ⟨le_trans (LawfulPyF.round_err _ _) (eps_le_div _ _ ha0 ha1),
          round_nonneg _ _ (div_nonneg (rsum_nonneg p _ (fun k _ => trS_nonneg raw (1 + k))) hpK.le)⟩
      · obtain ⟨hb, h0⟩ := ih (by omega)
        rw [stAtr_step _ _ _ (by omega), atrExact_step p hp _ _ (by omega)]
        simp only [Nat.add_sub_cancel]
        refine ⟨?_, round_nonneg _ _ (div_nonneg (add_nonneg (mul_nonneg h0 h1p) (trS_nonneg raw _)) hpK.le)⟩
        rw [atr_is_wilder _ _ _ hpK.ne', atr_is_wilder _ _ _ hpK.ne']
        exact ema_error_budget _ (1 / (p : K)) (trS raw (i + 1)) _ _ ha0 ha1 hb

/-- **one call of the ATR helper inside the series, exactly**: if the earlier stored readings are
`stAtrStored`, the call at index `m` returns and its stored (rounded) reading is `stAtrStored … m` -/
theorem st_atr_stepCtx_exact (p : Nat) (hp : 1 ≤ p) (nm : String) (hk : IsKey nm) (hn : AtrNames nm)
    (raw : List (Candle K)) (hraw : ∀ c ∈ raw, Plain c) (vs : List (Val K)) (m : Nat)
    (hm : m < raw.length) (hvs : vs.length = m)
    (hQ : ∀ j, j < m → vs.getD j .none = stAtrStored p raw j) :
    ∃ w, Calc.atr (atrCtx nm raw vs m) (p : Int) (nm ++ "_TR") = .ok w ∧
      w.roundBy defaultRound = stAtrStored p raw m := by
  have hpK : (0 : K) < p := by exact_mod_cast (by omega : 0 < p)
  have hpI : ((p : Int) : K) ≠ 0 := by simpa using hpK.ne'
  have hprev := atrCtx_prev nm raw vs m hm hvs hk
  have hper := atrCtx_period nm raw vs m hm hvs hn hraw p hp
  have hcur := atrCtx_tr_cur nm raw vs m hm hvs hn hraw
  by_cases h1 : m < p
  · have hpn : (atrCtx nm raw vs m).prevReading (atrCtx nm raw vs m).name = .ok .none := by
      show (atrCtx nm raw vs m).prevReading nm = _
      rw [hprev]
      by_cases h0 : m = 0
      · simp [h0]
      · simp only [h0, if_false]
        rw [hQ (m - 1) (by omega)]
        unfold stAtrStored
        rw [if_pos (by omega)]
    have hrp : (atrCtx nm raw vs m).readingPeriod (p : Int) (nm ++ "_TR") = false := by
      rw [hper]; simp; omega
    refine ⟨.none, atr_none _ _ _ hpn hrp, ?_⟩
    unfold stAtrStored
    rw [if_pos h1]; rfl
  · by_cases h2 : m = p
    · have h0 : m ≠ 0 := by omega
      have hpn : (atrCtx nm raw vs m).prevReading (atrCtx nm raw vs m).name = .ok .none := by
        show (atrCtx nm raw vs m).prevReading nm = _
        rw [hprev]
        simp only [h0, if_false]
        rw [hQ (m - 1) (by omega)]
        unfold stAtrStored
        rw [if_pos (by omega)]
      have hrp : (atrCtx nm raw vs m).readingPeriod (p : Int) (nm ++ "_TR") = true := by
        rw [hper]; simp; omega
      have hwin := atr_seed_window (atrCtx nm raw vs m) p (nm ++ "_TR")
        (fun j => (trNum raw (1 + j)).roundBy defaultRound) hpn hrp hp
        (by show (p : Int) ≤ (m : Int) + 1; omega) (by show (1 : Int) ≤ (m : Int); omega)
        (by
          intro j hj
          have e : (atrCtx nm raw vs m).i + 1 - (p : Int) + (j : Int) = ((1 + j : Nat) : Int) := by
            show (m : Int) + 1 - (p : Int) + (j : Int) = _; omega
          rw [e, atrCtx_tr nm raw vs m hm hvs hn hraw (1 + j) (by omega)]
          unfold trStored
          rw [if_neg (by omega)])
      refine ⟨_, hwin, ?_⟩
      unfold stAtrStored
      rw [if_neg h1, stAtr_seed _ _ _ (by omega)]
      rfl
    · have h3 : p < m := by omega
      have h0 : m ≠ 0 := by omega
      have hpn : (atrCtx nm raw vs m).prevReading (atrCtx nm raw vs m).name
          = .ok (.num (.flt (stAtr p (trS raw) (m - 1)))) := by
        show (atrCtx nm raw vs m).prevReading nm = _
        rw [hprev]
        simp only [h0, if_false]
        rw [hQ (m - 1) (by omega)]
        unfold stAtrStored
        rw [if_neg (by omega)]
      have htr : (atrCtx nm raw vs m).reading (nm ++ "_TR")
          = .ok (.num ((trNum raw m).roundBy defaultRound)) := by
        rw [hcur]; unfold trStored; rw [if_neg h0]
      have hrec := atr_rec (atrCtx nm raw vs m) p (nm ++ "_TR") _ _ hpn htr hpI
      refine ⟨_, hrec, ?_⟩
      unfold stAtrStored
      rw [if_neg h1, stAtr_step _ _ _ h3]
      simp [Val.roundBy, Scalar.roundBy, Num.roundBy, trS]


/-! ### the textbook series -/

/-- exact `HL2` of candle `j` -/
def hl2Exact (raw : List (Candle K)) (j : Nat) : K := (fieldAt (·.h) raw j + fieldAt (·.l) raw j) / 2

/-- the `HL2` helper's stored reading as a number: rounded to `defaultRound = 4` decimals -/
def hl2S (raw : List (Candle K)) (j : Nat) : K := PyF.round defaultRound (hl2Exact raw j)

/-- the reading stored under `name_HL` on candle `j` -/
def hl2Stored (raw : List (Candle K)) (j : Nat) : Val K := .flt (hl2S raw j)

theorem hl2S_err (raw : List (Candle K)) (j : Nat) : |hl2S raw j - hl2Exact raw j| ≤ eps K defaultRound :=
  LawfulPyF.round_err _ _

/-- the state of the Supertrend machine: direction (`1` up / `-1` down) and the two bands -/
structure StState (K : Type) where
  dir : Int
  upper : K
  lower : K

/-- the first state: plain bands `HL2 ± m·ATR`, direction up -/
def stStart (mult a hl : K) : StState K := ⟨1, hl + mult * a, hl - mult * a⟩

/-- one transition: new direction from the close against the PREVIOUS bands, bands ratcheted -/
def stNext (mult a hl close : K) (s : StState K) : StState K :=
  ⟨stDir close s.upper s.lower s.dir,
   stUpper close s.upper s.lower s.dir (hl + mult * a),
   stLower close s.upper s.lower s.dir (hl - mult * a)⟩

/-- **the textbook Supertrend state machine** over an ATR series (`none` = no reading), an `HL2`
series and the closes: no state while there is no ATR, `stStart` at an index with an ATR whose
predecessor has no state, `stNext` otherwise -/
def stMachine (mult : K) (atr : Nat → Option K) (hl close : Nat → K) : Nat → Option (StState K)
  | 0 => match atr 0 with
    | none => none
    | some a => some (stStart mult a (hl 0))
  | j + 1 => match atr (j + 1) with
    | none => none
    | some a => match stMachine mult atr hl close j with
      | none => some (stStart mult a (hl (j + 1)))
      | some s => some (stNext mult a (hl (j + 1)) (close (j + 1)) s)

theorem stMachine_none (mult : K) (atr : Nat → Option K) (hl close : Nat → K) (j : Nat) (h : atr j = none) :
    stMachine mult atr hl close j = none := by
  cases j <;> simp [stMachine, h]

theorem stMachine_start (mult : K) (atr : Nat → Option K) (hl close : Nat → K) (j : Nat) (a : K)
    (h : atr j = some a) (hprev : j = 0 ∨ stMachine mult atr hl close (j - 1) = none) :
    stMachine mult atr hl close j = some (stStart mult a (hl j)) := by
  cases j with
  | zero => simp [stMachine, h]
  | succ i =>
    rcases hprev with h0 | h0
    · omega
    · simp only [Nat.add_sub_cancel] at h0
      simp [stMachine, h, h0]

theorem stMachine_next (mult : K) (atr : Nat → Option K) (hl close : Nat → K) (j : Nat) (a : K) (s : StState K)
    (hj : 1 ≤ j) (h : atr j = some a) (hprev : stMachine mult atr hl close (j - 1) = some s) :
    stMachine mult atr hl close j = some (stNext mult a (hl j) (close j) s) := by
  obtain ⟨i, rfl⟩ : ∃ i, j = i + 1 := ⟨j - 1, by omega⟩
  simp only [Nat.add_sub_cancel] at hprev
  simp [stMachine, h, hprev]

/-- the direction of every state is `1` or `-1` -/
theorem stMachine_dir (mult : K) (atr : Nat → Option K) (hl close : Nat → K) (j : Nat) (s : StState K)
    (h : stMachine mult atr hl close j = some s) : s.dir = 1 ∨ s.dir = -1 := by
  induction j generalizing s with
  | zero =>
    simp only [stMachine] at h
    cases ha : atr 0 with
    | none => rw [ha] at h; cases h
    | some a => rw [ha] at h; cases h; exact Or.inl rfl
  | succ i ih =>
    simp only [stMachine] at h
    cases ha : atr (i + 1) with
    | none => rw [ha] at h; cases h
    | some a =>
      rw [ha] at h
      cases hs : stMachine mult atr hl close i with
      | none => rw [hs] at h; cases h; exact Or.inl rfl
      | some s' =>
        rw [hs] at h
        cases h
        exact stDir_pm _ _ _ _ (ih s' hs)

/-- there is a state exactly where there is an ATR reading -/
theorem stMachine_isSome (mult : K) (atr : Nat → Option K) (hl close : Nat → K) (j : Nat) (a : K)
    (h : atr j = some a) : ∃ s, stMachine mult atr hl close j = some s := by
  cases j with
  | zero => exact ⟨stStart mult a (hl 0), by simp [stMachine, h]⟩
  | succ i =>
    cases hs : stMachine mult atr hl close i with
    | none => exact ⟨stStart mult a (hl (i + 1)), by simp [stMachine, h, hs]⟩
    | some s => exact ⟨stNext mult a (hl (i + 1)) (close (i + 1)) s, by simp [stMachine, h, hs]⟩

/-- the stored ATR column as an optional number -/
def stAtrOpt (p : Nat) (raw : List (Candle K)) (j : Nat) : Option K :=
  if j < p then none else some (stAtr p (trS raw) j)

/-- **the textbook Supertrend series of the raw candles**: the state machine run on the STORED
helper readings – ATR (`stAtr`: Wilder's average of the stored true ranges, rounded to 4 decimals at
every step) and `HL2` (rounded to 4 decimals) – and the raw closes.  `none` before the first ATR
(index `p`). -/
def stSeries (p : Nat) (mult : K) (raw : List (Candle K)) : Nat → Option (StState K) :=
  stMachine mult (stAtrOpt p raw) (hl2S raw) (fieldAt (·.c) raw)

theorem stSeries_none (p : Nat) (mult : K) (raw : List (Candle K)) (j : Nat) (h : j < p) :
    stSeries p mult raw j = none :=
  stMachine_none _ _ _ _ _ (by simp [stAtrOpt, h])

theorem stSeries_start (p : Nat) (mult : K) (raw : List (Candle K)) :
    stSeries p mult raw p = some (stStart mult (stAtr p (trS raw) p) (hl2S raw p)) := by
  apply stMachine_start _ _ _ _ _ _ (by simp [stAtrOpt])
  by_cases h0 : p = 0
  · exact Or.inl h0
  · exact Or.inr (stSeries_none p mult raw (p - 1) (by omega))

theorem stSeries_isSome (p : Nat) (mult : K) (raw : List (Candle K)) (j : Nat) (h : p ≤ j) :
    ∃ s, stSeries p mult raw j = some s :=
  stMachine_isSome _ _ _ _ _ (stAtr p (trS raw) j) (by simp [stAtrOpt]; omega)

theorem stSeries_next (p : Nat) (mult : K) (raw : List (Candle K)) (j : Nat) (s : StState K) (h : p < j)
    (hs : stSeries p mult raw (j - 1) = some s) :
    stSeries p mult raw j
      = some (stNext mult (stAtr p (trS raw) j) (hl2S raw j) (fieldAt (·.c) raw j) s) :=
  stMachine_next _ _ _ _ _ _ _ (by omega) (by simp [stAtrOpt]; omega) hs

theorem stSeries_dir (p : Nat) (mult : K) (raw : List (Candle K)) (j : Nat) (s : StState K)
    (h : stSeries p mult raw j = some s) : s.dir = 1 ∨ s.dir = -1 :=
  stMachine_dir _ _ _ _ _ _ h

/-! ### the predicate -/

/-- own reading and data entry against a state of the machine: without a state nothing is stored in
the data series and the reading is `stNoneDict`; with a state `(D, U, L)` the data entry holds the
two bands EXACTLY (`Managed.set_reading` does not round; `U`, `L` are Python numbers whose values
are the machine's bands) and the reading is `stDict D U L` rounded to `n` decimals -/
def StOK (n : Nat) (s : Option (StState K)) (own : Val K) (data : Option (Val K)) : Prop :=
  match s with
  | none => data = none ∧ own = stNoneDict
  | some st => ∃ U L : Num K, U.toF = st.upper ∧ L.toF = st.lower ∧
      data = some (sdict [("upper", sc U), ("lower", sc L)]) ∧ own = (stDict st.dir U L).roundBy n

/-- what the whole-series theorem says of candle `j` -/
def StRowOK (p n : Nat) (mult : K) (raw : List (Candle K)) (j : Nat) (r : StRow K) : Prop :=
  r.tr = trStored raw j ∧ r.atr = stAtrStored p raw j ∧ r.hl = hl2Stored raw j ∧
  StOK n (stSeries p mult raw j) r.own r.data

theorem stNoneDict_round (n : Nat) : (stNoneDict : Val K).roundBy n = stNoneDict := by
  simp [stNoneDict, Val.roundBy, Scalar.roundBy, Num.roundBy]

theorem stDict_round_dir (n : Nat) (D : Int) (U L : Num K) :
    ((stDict D U L).roundBy n).nested "direction" = .int D := by
  simp [stDict, Val.roundBy, Scalar.roundBy, Num.roundBy, Val.nested, dlookup]

theorem stBands_lower (U L : Num K) : (sdict [("upper", sc U), ("lower", sc L)] : Val K).nested "lower" = .num L := by
  simp [Val.nested, sdict, sc, dlookup]

theorem stBands_upper (U L : Num K) : (sdict [("upper", sc U), ("lower", sc L)] : Val K).nested "upper" = .num U := by
  simp [Val.nested, sdict, sc, dlookup]

/-! ### one row -/

theorem st_row (nm : String) (n : Nat) (p : Int) (input : String) (mult : Num K) (hp : 1 ≤ p)
    (hn : StNames nm) (H : List (Candle K)) (c : Candle K) (tv av hv v : Val K) (d : Option (Val K))
    (hT : valOf (stTr nm) H c = .ok tv)
    (hA : valOf (stA nm p) H (decOf (stTr nm) tv c) = .ok av)
    (hH : valOf (stH nm) H (decOf (stA nm p) av (decOf (stTr nm) tv c)) = .ok hv)
    (hR : stR mult { cs := H ++ [decOf (stH nm) hv (decOf (stA nm p) av (decOf (stTr nm) tv c))],
                     i := H.length, name := nm } = .ok (d, .ok v)) :
    Gen.rowStep (stTree (F := K) nm n p input mult hp hn).S H c
      = .ok (H ++ [stOut nm c ⟨tv.roundBy defaultRound, av.roundBy defaultRound, hv.roundBy defaultRound,
          v.roundBy n, d⟩]) := by
  rw [st_rowStep, hT]
  simp only [pym_bind_ok]
  rw [hA]
  simp only [pym_bind_ok]
  rw [hH]
  simp only [pym_bind_ok]
  rw [hR]
  rfl

/-! ### what the helpers return inside the series -/

theorem st_col_ext (k : String) (A B : List (Candle K)) (hl : A.length = B.length)
    (h : ∀ j, j < A.length → readingByCandle (A.getD j default) k = readingByCandle (B.getD j default) k) :
    col k A = col k B := by
  unfold col
  apply List.ext_getElem?
  intro j
  rw [List.getElem?_map, List.getElem?_map]
  by_cases hj : j < A.length
  · have := h j hj
    rw [List.getD_eq_getElem?_getD, List.getD_eq_getElem?_getD, List.getElem?_eq_getElem hj,
      List.getElem?_eq_getElem (by omega)] at this
    rw [List.getElem?_eq_getElem hj, List.getElem?_eq_getElem (by omega)]
    simpa using this
  · rw [List.getElem?_eq_none (by omega), List.getElem?_eq_none (by omega)]

theorem st_take_getD (raw : List (Candle K)) (m j : Nat) (hj : j < m) :
    (raw.take m).getD j default = raw.getD j default := by
  rw [List.getD_eq_getElem?_getD, List.getD_eq_getElem?_getD, List.getElem?_take_of_lt hj]

section helpers
variable (nm : String) (hn : StNames nm) (raw : List (Candle K)) (hraw : ∀ c ∈ raw, Plain c)
  (rows : List (StRow K)) (m : Nat) (hm : m < raw.length) (hrows : rows.length = m)
include hn hraw hm hrows

theorem stDone_length : (decoWith (stOut nm) (raw.take m) rows).length = m := by
  have htl : (raw.take m).length = m := by simp; omega
  rw [decoWith_length _ _ _ (by rw [htl, hrows]), htl]

theorem stDone_getD (j : Nat) (hj : j < m) :
    (decoWith (stOut nm) (raw.take m) rows).getD j default
      = stOut nm (raw.getD j default) (rows.getD j StRow.dflt) := by
  have htl : (raw.take m).length = m := by simp; omega
  rw [List.getD_eq_getElem?_getD, decoWith_getElem? _ _ _ StRow.dflt j (by rw [htl, hrows]) (by rw [htl]; exact hj),
    st_take_getD raw m j hj]
  rfl

/-- the TR helper on the finished prefix -/
theorem st_tr_val :
    valOf (stTr nm) (decoWith (stOut nm) (raw.take m) rows) (raw.getD m default)
      = .ok (if m = 0 then .none else .num (trNum raw m)) := by
  have htl : (raw.take m).length = m := by simp; omega
  have hdl := stDone_length nm hn raw hraw rows m hm hrows
  have hcol : ∀ input, NoDot input → input ∈ Candle.attrNames →
      Ctx.SameCol input (Ctx.mk (decoWith (stOut nm) (raw.take m) rows ++ [raw.getD m default])
          ((decoWith (stOut nm) (raw.take m) rows).length : Nat) (nm ++ "_atr" ++ "_TR") : Ctx K)
        (stepCtx (nm ++ "_atr" ++ "_TR") raw (List.replicate m .none) m) := by
    intro input hd hin
    refine ⟨by simp [stepCtx, hdl], ?_⟩
    show col input (decoWith (stOut nm) (raw.take m) rows ++ [raw.getD m default])
      = col input (decoWith (fun c v => setKey false (nm ++ "_atr" ++ "_TR") v c) (raw.take m) _ ++ [raw.getD m default])
    rw [col_append, col_append,
      col_decoWith input _ (fun c r => stOut_attr nm hn input hd hin c r) _ _ (by rw [htl, hrows]),
      col_decoWith input _ (fun c v => indep_attr (F := K) _ input hd hin false v c) _ _ (by simp [htl])]
  exact (tr_congr _ _ (hcol "high" noDot_high (by decide)) (hcol "low" noDot_low (by decide))
    (hcol "close" noDot_close (by decide))).trans
    (tr_stepCtx (nm ++ "_atr" ++ "_TR") raw (List.replicate m Val.none) m hm (by simp))

/-- the ATR helper on the finished prefix, the current candle holding its TR reading -/
theorem st_atr_val (p : Nat) (hp : 1 ≤ p)
    (hQ : ∀ j, j < m → (rows.getD j StRow.dflt).tr = trStored raw j ∧
      (rows.getD j StRow.dflt).atr = stAtrStored p raw j) :
    ∃ w, valOf (stA nm (p : Int)) (decoWith (stOut nm) (raw.take m) rows)
        (setKey true (nm ++ "_atr" ++ "_TR") (trStored raw m) (raw.getD m default)) = .ok w ∧
      w.roundBy defaultRound = stAtrStored p raw m := by
  have hdl := stDone_length nm hn raw hraw rows m hm hrows
  have hAN : AtrNames (nm ++ "_atr") := ⟨hn.kT, hn.AT.symm⟩
  have hvs : (rows.map (·.atr)).length = m := by simp [hrows]
  have hvj : ∀ j, j < m → (rows.map (·.atr)).getD j .none = (rows.getD j StRow.dflt).atr := by
    intro j hj
    rw [List.getD_eq_getElem?_getD, List.getD_eq_getElem?_getD, List.getElem?_map,
      List.getElem?_eq_getElem (by omega)]
    rfl
  obtain ⟨w, hw, hwr⟩ := st_atr_stepCtx_exact p hp (nm ++ "_atr") hn.kA hAN raw hraw (rows.map (·.atr)) m hm hvs
    (fun j hj => by rw [hvj j hj]; exact (hQ j hj).2)
  refine ⟨w, ?_, hwr⟩
  have hmT : m < (trDeco (nm ++ "_atr" ++ "_TR") raw).length := by rw [trDeco_length]; exact hm
  have hcol : ∀ k, (k = nm ++ "_atr" ++ "_TR" ∨ k = nm ++ "_atr") →
      Ctx.SameCol k (Ctx.mk (decoWith (stOut nm) (raw.take m) rows
            ++ [setKey true (nm ++ "_atr" ++ "_TR") (trStored raw m) (raw.getD m default)])
          ((decoWith (stOut nm) (raw.take m) rows).length : Nat) (nm ++ "_atr") : Ctx K)
        (atrCtx (nm ++ "_atr") raw (rows.map (·.atr)) m) := by
    intro k hk
    refine ⟨by simp [stepCtx, hdl], ?_⟩
    apply st_col_ext
    · rw [stepCtx_length _ _ _ m hmT hvs]; simp [hdl]
    · intro j hj
      have hj' : j < m + 1 := by simpa [hdl] using hj
      by_cases hjm : j < m
      · have e1 : (decoWith (stOut nm) (raw.take m) rows
            ++ [setKey true (nm ++ "_atr" ++ "_TR") (trStored raw m) (raw.getD m default)]).getD j default
            = stOut nm (raw.getD j default) (rows.getD j StRow.dflt) := by
          rw [List.getD_eq_getElem?_getD, List.getElem?_append_left (by rw [hdl]; exact hjm),
            ← List.getD_eq_getElem?_getD, stDone_getD nm hn raw hraw rows m hm hrows j hjm]
        have e2 : (atrCtx (nm ++ "_atr") raw (rows.map (·.atr)) m).cs.getD j default
            = setKey false (nm ++ "_atr") ((rows.getD j StRow.dflt).atr)
                (setKey true (nm ++ "_atr" ++ "_TR") (trStored raw j) (raw.getD j default)) := by
          rw [List.getD_eq_getElem?_getD, stepCtx_lt _ _ _ m hmT hvs j hjm, hvj j hjm,
            trDeco_getD _ raw j (by omega)]
          rfl
        have hpl := getD_plain raw hraw j (by omega)
        rw [e1, e2]
        rcases hk with rfl | rfl
        · rw [stOut_tr nm hn _ hpl, (hQ j hjm).1, indep_key (F := K) _ _ hn.kT hn.AT,
            readingByCandle_setKey true _ hn.kT _ _ hpl]
        · rw [stOut_atr nm hn _ hpl, readingByCandle_setKey_own _ hn.kA]
      · have hjm' : j = m := by omega
        subst hjm'
        have e1 : (decoWith (stOut nm) (raw.take j) rows
            ++ [setKey true (nm ++ "_atr" ++ "_TR") (trStored raw j) (raw.getD j default)]).getD j default
            = setKey true (nm ++ "_atr" ++ "_TR") (trStored raw j) (raw.getD j default) := by
          rw [List.getD_eq_getElem?_getD, List.getElem?_append_right (by rw [hdl]), hdl]
          simp
        have e2 : (atrCtx (nm ++ "_atr") raw (rows.map (·.atr)) j).cs.getD j default
            = setKey true (nm ++ "_atr" ++ "_TR") (trStored raw j) (raw.getD j default) := by
          rw [List.getD_eq_getElem?_getD, stepCtx_eq _ _ _ j hmT hvs, trDeco_getD _ raw j hm]
          rfl
        rw [e1, e2]
  exact (atr_congr _ _ (p : Int) _ (hcol _ (Or.inl rfl))
    (Ctx.prevExists_congr (hcol (nm ++ "_atr") (Or.inr rfl)))
    (Ctx.prevNum_congr (hcol (nm ++ "_atr") (Or.inr rfl)))).trans hw

end helpers

/-- the `HL2` helper reads the bare candle only -/
theorem st_hl_val (nm : String) (H : List (Candle K)) (c : Candle K) (h l : Num K)
    (hh : readingByCandle c "high" = .num h) (hl : readingByCandle c "low" = .num l) :
    valOf (stH nm) H c = .ok (.flt ((h.toF + l.toF) / 2)) := by
  show Calc.hla _ = _
  exact hla_def _ h l (by rw [Ctx.reading_cur H c [] _ "high", hh]) (by rw [Ctx.reading_cur H c [] _ "low", hl])

/-! ### the whole series -/

/-- the candles of a Supertrend run: raw candle `j` finished with the row `rows[j]` -/
def decoSt (nm : String) (raw : List (Candle K)) (rows : List (StRow K)) : List (Candle K) :=
  decoWith (stOut nm) raw rows

theorem st_trVal_round (raw : List (Candle K)) (m : Nat) :
    (if m = 0 then (Val.none : Val K) else .num (trNum raw m)).roundBy defaultRound = trStored raw m := by
  unfold trStored
  by_cases h : m = 0 <;> simp [h, Val.roundBy, Scalar.roundBy]

/-- **Supertrend, whole series** (row-major run of `stTree`), ATR period `p ≥ 1`.  For EVERY raw
list the run returns the raw candles finished with rows `rows[j]` satisfying `StRowOK`: the helper
columns are `trStored` / `stAtrStored` / `hl2Stored`, and own reading + data entry follow the textbook
state machine `stSeries` run on those STORED helper readings. -/
theorem st_series (p : Nat) (hp : 1 ≤ p) (nm input : String) (mult : Num K) (n : Nat) (hn : StNames nm)
    (raw : List (Candle K)) (hraw : ∀ c ∈ raw, Plain c) :
    ∃ rows : List (StRow K), rows.length = raw.length ∧
      Gen.rowMajor (stTree (F := K) nm n (p : Int) input mult (by omega) hn).S raw = .ok (decoSt nm raw rows) ∧
      ∀ j, j < raw.length → StRowOK p n mult.toF raw j (rows.getD j StRow.dflt) := by
  refine gen_series_induct _ (stOut nm) StRow.dflt raw _ ?_
  intro m hm rows hrows hQ
  have hdl := stDone_length nm hn raw hraw rows m hm hrows
  have hc : Plain (raw.getD m default) := getD_plain raw hraw m hm
  obtain ⟨hci, hcs⟩ := hc
  -- the helpers
  have hT := st_tr_val nm hn raw hraw rows m hm hrows
  obtain ⟨av, hA, hAr⟩ := st_atr_val nm hn raw hraw rows m hm hrows p hp
    (fun j hj => ⟨(hQ j hj).1, (hQ j hj).2.1⟩)
  have hH := st_hl_val nm (decoWith (stOut nm) (raw.take m) rows)
    (setKey true (nm ++ "_atr") (stAtrStored p raw m)
      (setKey true (nm ++ "_atr" ++ "_TR") (trStored raw m) (raw.getD m default)))
    (raw.getD m default).h (raw.getD m default).l
    (by rw [indep_attr (F := K) _ "high" noDot_high (by decide), indep_attr (F := K) _ "high" noDot_high (by decide)]
        exact readingByCandle_attr "high" noDot_high _ _ rfl)
    (by rw [indep_attr (F := K) _ "low" noDot_low (by decide), indep_attr (F := K) _ "low" noDot_low (by decide)]
        exact readingByCandle_attr "low" noDot_low _ _ rfl)
  -- it suffices to know what the own step returns
  suffices hown : ∃ (d : Option (Val K)) (v : Val K),
      stR mult (Ctx.mk (decoWith (stOut nm) (raw.take m) rows ++
        [setKey true (nm ++ "_HL") (hl2Stored raw m) (setKey true (nm ++ "_atr") (stAtrStored p raw m)
          (setKey true (nm ++ "_atr" ++ "_TR") (trStored raw m) (raw.getD m default)))])
        ((decoWith (stOut nm) (raw.take m) rows).length : Nat) nm) = .ok (d, .ok v) ∧
      StOK n (stSeries p mult.toF raw m) (v.roundBy n) d by
    obtain ⟨d, v, hR, hok⟩ := hown
    refine ⟨⟨trStored raw m, stAtrStored p raw m, hl2Stored raw m, v.roundBy n, d⟩, ?_, rfl, rfl, rfl, hok⟩
    have := st_row nm n (p : Int) input mult (by omega) hn _ (raw.getD m default) _ av _ v d hT
      (by show valOf _ _ (setKey true _ (Val.roundBy defaultRound _) _) = _
          rw [st_trVal_round]; exact hA)
      (by show valOf _ _ (setKey true _ (Val.roundBy defaultRound _) (setKey true _ (Val.roundBy defaultRound _) _)) = _
          rw [st_trVal_round, hAr]; exact hH)
      (by show stR mult (Ctx.mk (_ ++ [setKey true _ (Val.roundBy defaultRound _)
            (setKey true _ (Val.roundBy defaultRound _) (setKey true _ (Val.roundBy defaultRound _) _))]) _ _) = _
          rw [st_trVal_round, hAr]; exact hR)
    rw [this, st_trVal_round, hAr]
    rfl
  -- the own step
  generalize hdone : decoWith (stOut nm) (raw.take m) rows = done at hdl ⊢
  generalize hc3 : setKey true (nm ++ "_HL") (hl2Stored raw m) (setKey true (nm ++ "_atr") (stAtrStored p raw m)
          (setKey true (nm ++ "_atr" ++ "_TR") (trStored raw m) (raw.getD m default))) = c3
  have hrA : readingByCandle c3 (nm ++ "_atr") = stAtrStored p raw m := by
    rw [← hc3, indep_key (F := K) _ _ hn.kA hn.AH.symm, rbc_data_self _ hn.kA _
      (by show dlookup _ (raw.getD m default).inds = none; rw [hci]; rfl)]
  have hrH : readingByCandle c3 (nm ++ "_HL") = hl2Stored raw m := by
    rw [← hc3, rbc_data_self _ hn.kH _
      (by show dlookup _ (raw.getD m default).inds = none; rw [hci]; rfl)]
  have hrC : readingByCandle c3 "close" = .num (raw.getD m default).c := by
    rw [← hc3, indep_attr (F := K) _ "close" noDot_close (by decide), indep_attr (F := K) _ "close" noDot_close (by decide),
      indep_attr (F := K) _ "close" noDot_close (by decide)]
    exact readingByCandle_attr "close" noDot_close _ _ rfl
  have hprev : ∀ key, (Ctx.mk (done ++ [c3]) (done.length : Nat) nm : Ctx K).prevReading key
      = .ok (Ctx.lastReading key done) := fun key => Ctx.prevReading_append_cons done c3 [] nm key
  have hlast : 1 ≤ m → ∀ key, Ctx.lastReading key done
      = readingByCandle (stOut nm (raw.getD (m - 1) default) (rows.getD (m - 1) StRow.dflt)) key := by
    intro h1 key
    unfold Ctx.lastReading
    have htl : (raw.take m).length = m := by simp; omega
    rw [List.getLast?_eq_getElem?, hdl, ← hdone,
      decoWith_getElem? _ _ _ StRow.dflt (m - 1) (by rw [htl, hrows]) (by rw [htl]; omega),
      st_take_getD raw m (m - 1) (by omega)]
  have hplast : 1 ≤ m → Plain (raw.getD (m - 1) default) := fun h1 => getD_plain raw hraw (m - 1) (by omega)
  have hcA : (Ctx.mk (done ++ [c3]) (done.length : Nat) nm : Ctx K).reading (nm ++ "_atr") = .ok (stAtrStored p raw m) := by
    rw [Ctx.reading_cur done c3 [] nm, hrA]
  have hcH : (Ctx.mk (done ++ [c3]) (done.length : Nat) nm : Ctx K).reading (nm ++ "_HL") = .ok (hl2Stored raw m) := by
    rw [Ctx.reading_cur done c3 [] nm, hrH]
  have hcC : (Ctx.mk (done ++ [c3]) (done.length : Nat) nm : Ctx K).reading "close" = .ok (.num (raw.getD m default).c) := by
    rw [Ctx.reading_cur done c3 [] nm, hrC]
  by_cases h1 : m < p
  · -- no ATR yet
    refine ⟨none, stNoneDict, stR_none _ mult (by rw [hcA]; unfold stAtrStored; rw [if_pos h1]), ?_⟩
    rw [stSeries_none p _ raw m h1, stNoneDict_round]
    exact ⟨rfl, rfl⟩
  · have hA' : stAtrStored p raw m = .num (.flt (stAtr p (trS raw) m)) := by
      unfold stAtrStored; rw [if_neg h1]
    have hm1 : 1 ≤ m := by omega
    by_cases h2 : m = p
    · -- first ATR: plain bands, direction up
      have hpl : Ctx.lastReading (nm ++ "_data.lower") done = .none := by
        rw [hlast hm1, stOut_lower nm hn _ (hplast hm1)]
        have := (hQ (m - 1) (by omega)).2.2.2
        rw [stSeries_none p _ raw (m - 1) (by omega)] at this
        rw [this.1]; rfl
      refine ⟨_, _, stR_first _ mult (.flt (stAtr p (trS raw) m)) (.flt (hl2S raw m)) (by rw [hcA, hA']) hcH
        (by rw [hprev, hpl]), ?_⟩
      rw [h2, stSeries_start]
      exact ⟨_, _, by simp [stStart], by simp [stStart], rfl, rfl⟩
    · -- running
      obtain ⟨s, hs⟩ := stSeries_isSome p mult.toF raw (m - 1) (by omega)
      have hsd := stSeries_dir p mult.toF raw (m - 1) s hs
      have hprevRow := (hQ (m - 1) (by omega)).2.2.2
      rw [hs] at hprevRow
      obtain ⟨U', L', hU', hL', hdat, hown⟩ := hprevRow
      have hpl : Ctx.lastReading (nm ++ "_data.lower") done = .num L' := by
        rw [hlast hm1, stOut_lower nm hn _ (hplast hm1), hdat]
        exact stBands_lower U' L'
      have hpu : Ctx.lastReading (nm ++ "_data.upper") done = .num U' := by
        rw [hlast hm1, stOut_upper nm hn _ (hplast hm1), hdat]
        exact stBands_upper U' L'
      have hpd : Ctx.lastReading (nm ++ ".direction") done = .int s.dir := by
        rw [hlast hm1, stOut_dir nm hn _ (hplast hm1), hown]
        exact stDict_round_dir n s.dir U' L'
      obtain ⟨U, L, hU, hL, hR⟩ := stR_step _ mult (.flt (stAtr p (trS raw) m)) (.flt (hl2S raw m))
        (raw.getD m default).c U' L' s.dir (by rw [hcA, hA']) hcH hcC (by rw [hprev, hpl]) (by rw [hprev, hpu])
        (by rw [hprev, hpd]) hsd
      refine ⟨_, _, hR, ?_⟩
      rw [stSeries_next p _ raw m s (by omega) hs]
      refine ⟨U, L, ?_, ?_, rfl, ?_⟩
      · rw [hU, hU', hL']; rfl
      · rw [hL, hU', hL']; rfl
      · rw [hU', hL']; rfl

/-! ### the same statement read off the candles -/

theorem stDict_round (n : Nat) (D : Int) (U L : Num K) :
    (stDict D U L).roundBy n = stDict D (U.roundBy n) (L.roundBy n) := by
  by_cases h1 : D = 1 <;> by_cases h2 : D = -1 <;>
    simp [stDict, Val.roundBy, Scalar.roundBy, Num.roundBy, h1, h2]

/-- a stored own reading against a state of the machine: without a state the reading is
`stNoneDict` (trend, long, short `None`; direction `1`); with a state `(D, U, L)` it is
`stDict D U' L'` – trend = the active band, exactly one of long / short (`stDict_fields`) – where
`U'`, `L'` are within `ε_n` of the machine's bands (the own reading is rounded to `n` decimals;
the direction is exact) -/
def StOwnOK (n : Nat) (s : Option (StState K)) (v : Val K) : Prop :=
  match s with
  | none => v = stNoneDict
  | some st => ∃ U L : Num K, |U.toF - st.upper| ≤ eps K n ∧ |L.toF - st.lower| ≤ eps K n ∧
      v = stDict st.dir U L

/-- the stored data entry against a state, read through the dotted names: nothing without a
state, EXACTLY the machine's bands with one -/
def StDataOK (s : Option (StState K)) (up lo : Val K) : Prop :=
  match s with
  | none => up = .none ∧ lo = .none
  | some st => ∃ U L : Num K, U.toF = st.upper ∧ L.toF = st.lower ∧ up = .num U ∧ lo = .num L

theorem StOK.own {n : Nat} {s : Option (StState K)} {own : Val K} {data : Option (Val K)}
    (h : StOK n s own data) : StOwnOK n s own := by
  cases s with
  | none => exact h.2
  | some st =>
    obtain ⟨U, L, hU, hL, _, ho⟩ := h
    refine ⟨U.roundBy n, L.roundBy n, ?_, ?_, by rw [ho, stDict_round]⟩
    · rw [← hU]; exact Num.roundBy_err n U
    · rw [← hL]; exact Num.roundBy_err n L

theorem StOK.data {n : Nat} {s : Option (StState K)} {own : Val K} {data : Option (Val K)}
    (h : StOK n s own data) :
    StDataOK s (stDataField data "upper") (stDataField data "lower") := by
  cases s with
  | none => obtain ⟨hd, _⟩ := h; rw [hd]; exact ⟨rfl, rfl⟩
  | some st =>
    obtain ⟨U, L, hU, hL, hd, _⟩ := h
    rw [hd]
    exact ⟨U, L, hU, hL, stBands_upper U L, stBands_lower U L⟩

/-- what the whole-series theorem says of the finished candle `c` at index `j` -/
def StCandleOK (p n : Nat) (mult : K) (nm : String) (raw : List (Candle K)) (j : Nat) (c : Candle K) : Prop :=
  c.bare = (raw.getD j default).bare ∧
  readingByCandle c (nm ++ "_atr" ++ "_TR") = trStored raw j ∧
  readingByCandle c (nm ++ "_atr") = stAtrStored p raw j ∧
  readingByCandle c (nm ++ "_HL") = hl2Stored raw j ∧
  StOwnOK n (stSeries p mult raw j) (readingByCandle c nm) ∧
  StDataOK (stSeries p mult raw j) (readingByCandle c (nm ++ "_data.upper")) (readingByCandle c (nm ++ "_data.lower"))

theorem stRow_candle (p n : Nat) (mult : K) (nm : String) (hn : StNames nm) (hk : IsKey nm)
    (raw : List (Candle K)) (j : Nat) (hpl : Plain (raw.getD j default)) (r : StRow K)
    (h : StRowOK p n mult raw j r) : StCandleOK p n mult nm raw j (stOut nm (raw.getD j default) r) := by
  obtain ⟨h1, h2, h3, h4⟩ := h
  refine ⟨stOut_bare nm hn _ r, ?_, ?_, ?_, ?_, ?_⟩
  · rw [stOut_tr nm hn _ hpl, h1]
  · rw [stOut_atr nm hn _ hpl, h2]
  · rw [stOut_hl nm hn _ hpl, h3]
  · rw [stOut_own nm hn hk _ hpl]; exact h4.own
  · rw [stOut_upper nm hn _ hpl, stOut_lower nm hn _ hpl]; exact h4.data

/-- **Supertrend, whole series, candle by candle** (the Supertrend item of `C05_FULL`).  For every
raw list the row-major run of `stTree` returns a list `out` of the raw candles' length whose candle
`j` is the raw candle `j` carrying
* under `name_atr_TR`, `name_atr`, `name_HL` the helper readings `trStored` (`None` on candle 0, then
  the true range, 4 decimals), `stAtrStored` (`None` before index `p`, then Wilder's average of the
  stored true ranges rounded to 4 decimals at every step: `stAtr`; `stAtrStored_ok`: within `p·ε₄` of
  the exact Wilder average) and `hl2Stored` (`round₄((high+low)/2)`);
* under `name_data` the bands of the textbook state machine `stSeries` EXACTLY (nothing before the
  first ATR at index `p`);
* under `name` the reading `stDict direction upper lower` of that state, bands within `ε_n`
  (`stNoneDict` before index `p`). -/
theorem st_series_candles (p : Nat) (hp : 1 ≤ p) (nm input : String) (mult : Num K) (n : Nat)
    (hn : StNames nm) (hk : IsKey nm) (raw : List (Candle K)) (hraw : ∀ c ∈ raw, Plain c) :
    ∃ out : List (Candle K), out.length = raw.length ∧
      Gen.rowMajor (stTree (F := K) nm n (p : Int) input mult (by omega) hn).S raw = .ok out ∧
      ∀ j, j < raw.length → StCandleOK p n mult.toF nm raw j (out.getD j default) := by
  obtain ⟨rows, hl, hrun, hall⟩ := st_series p hp nm input mult n hn raw hraw
  refine ⟨decoSt nm raw rows, decoWith_length _ _ _ hl, hrun, ?_⟩
  intro j hj
  have hcj : (decoSt nm raw rows).getD j default = stOut nm (raw.getD j default) (rows.getD j StRow.dflt) := by
    rw [List.getD_eq_getElem?_getD, decoSt, decoWith_getElem? _ _ _ StRow.dflt j hl hj]; rfl
  rw [hcj]
  exact stRow_candle p n mult.toF nm hn hk raw j (getD_plain raw hraw j hj) _ (hall j hj)

/-! ### through the engine -/

/-- **the engine's `calculate()`** on the raw list returns exactly the candles of `st_series` -/
theorem st_series_engine (p : Nat) (hp : 1 ≤ p) (nm input : String) (mult : Num K) (n : Nat)
    (hn : StNames nm) (hk : IsKey nm) (raw : List (Candle K)) (hraw : ∀ c ∈ raw, Plain c) :
    ∃ out : List (Candle K), out.length = raw.length ∧
      engineCalc (mkTop (.supertrend (p : Int) input mult : Kind K) nm n) raw = .ok out ∧
      ∀ j, j < raw.length → StCandleOK p n mult.toF nm raw j (out.getD j default) := by
  obtain ⟨out, hl, hrun, hall⟩ := st_series_candles p hp nm input mult n hn hk raw hraw
  refine ⟨out, hl, ?_, hall⟩
  have := ((stTree (F := K) nm n (p : Int) input mult (by omega) hn).engine [] raw [] out rfl (by simp) hraw).2
    (by simpa using hrun)
  simpa [stP] using this

/-- **the batch run** (build the indicator over the whole stream, `calculate()` once) returns, and
its candles are those of `st_series` -/
theorem st_series_batch (p : Nat) (hp : 1 ≤ p) (nm input : String) (mult : Num K) (n : Nat)
    (hn : StNames nm) (hk : IsKey nm) (raw : List (Candle K)) (hraw : ∀ c ∈ raw, Plain c) :
    ∃ out : List (Candle K), out.length = raw.length ∧
      candlesOf (runIndicator (mkTop (.supertrend (p : Int) input mult : Kind K) nm n) {} raw []) = .ok out ∧
      ∀ j, j < raw.length → StCandleOK p n mult.toF nm raw j (out.getD j default) := by
  obtain ⟨out, hl, hrun, hall⟩ := st_series_candles p hp nm input mult n hn hk raw hraw
  exact ⟨out, hl, ((stTree (F := K) nm n (p : Int) input mult (by omega) hn).batch_iff (MgrSpec.base K) raw hraw _).2 hrun,
    hall⟩

/-- **whenever the batch run returns, its candles carry exactly those readings** (and it does
return: `st_series_batch`) -/
theorem st_batch_readings (p : Nat) (hp : 1 ≤ p) (nm input : String) (mult : Num K) (n : Nat)
    (hn : StNames nm) (hk : IsKey nm) (raw : List (Candle K)) (hraw : ∀ c ∈ raw, Plain c)
    (out : List (Candle K))
    (hout : candlesOf (runIndicator (mkTop (.supertrend (p : Int) input mult : Kind K) nm n) {} raw []) = .ok out) :
    out.length = raw.length ∧
    ∀ j, j < raw.length → StCandleOK p n mult.toF nm raw j (out.getD j default) := by
  obtain ⟨out', hl, hrun, hall⟩ := st_series_candles p hp nm input mult n hn hk raw hraw
  have hr : Gen.rowMajor (stTree (F := K) nm n (p : Int) input mult (by omega) hn).S raw = .ok out :=
    ((stTree (F := K) nm n (p : Int) input mult (by omega) hn).batch_iff (MgrSpec.base K) raw hraw out).1 hout
  rw [hrun] at hr
  cases hr
  exact ⟨hl, hall⟩

/-- **… for every append schedule**: whenever a live history (construction over `init`,
`calculate()`, then any appends) returns, its candles are those of `st_series` over the whole
stream -/
theorem st_series_live (p : Nat) (hp : 1 ≤ p) (nm input : String) (mult : Num K) (n : Nat)
    (hn : StNames nm) (hk : IsKey nm) (init : List (Candle K)) (chunks : List (List (Candle K)))
    (hraw : ∀ c ∈ init ++ chunks.flatten, Plain c) (snap : List (Candle K))
    (hsnap : candlesOf (runIndicator (mkTop (.supertrend (p : Int) input mult : Kind K) nm n) {} init chunks) = .ok snap) :
    snap.length = (init ++ chunks.flatten).length ∧
    ∀ j, j < (init ++ chunks.flatten).length →
      StCandleOK p n mult.toF nm (init ++ chunks.flatten) j (snap.getD j default) := by
  obtain ⟨out, hl, hrun, hall⟩ := st_series_candles p hp nm input mult n hn hk _ hraw
  have h : Gen.rowMajor (stTree (F := K) nm n (p : Int) input mult (by omega) hn).S (init ++ chunks.flatten) = .ok snap :=
    (stTree (F := K) nm n (p : Int) input mult (by omega) hn).live_refines (MgrSpec.base K) init chunks hraw snap hsnap
  rw [hrun] at h
  cases h
  exact ⟨hl, hall⟩

/-! ### corollaries about the series -/

/-- the reading of a state: trend = active band, exactly one of long / short -/
theorem StOwnOK.fields {n : Nat} {st : StState K} {v : Val K} (hd : st.dir = 1 ∨ st.dir = -1)
    (h : StOwnOK n (some st) v) :
    ∃ U L : Num K, |U.toF - st.upper| ≤ eps K n ∧ |L.toF - st.lower| ≤ eps K n ∧
      ((st.dir = 1 ∧ v = .dict [("trend", .num L), ("direction", .num (.int 1)), ("long", .num L), ("short", .none)])
       ∨ (st.dir = -1 ∧ v = .dict [("trend", .num U), ("direction", .num (.int (-1))), ("long", .none), ("short", .num U)])) := by
  obtain ⟨U, L, hU, hL, hv⟩ := h
  refine ⟨U, L, hU, hL, ?_⟩
  rw [hv]
  exact stDict_fields st.dir U L hd

/-- successive states (from the first ATR index `p` on) are linked by `stNext` -/
theorem stSeries_succ (p : Nat) (mult : K) (raw : List (Candle K)) (j : Nat) (hj : p ≤ j) :
    ∃ s, stSeries p mult raw j = some s ∧
      stSeries p mult raw (j + 1)
        = some (stNext mult (stAtr p (trS raw) (j + 1)) (hl2S raw (j + 1)) (fieldAt (·.c) raw (j + 1)) s) := by
  obtain ⟨s, hs⟩ := stSeries_isSome p mult raw j hj
  exact ⟨s, hs, stSeries_next p mult raw (j + 1) s (by omega) (by simpa using hs)⟩

/-- **the direction flips exactly when the close breaks the previous ACTIVE band**: out of an
up-trend iff `close < previous lower`, out of a down-trend iff `previous upper < close` -/
theorem stSeries_flip (p : Nat) (mult : K) (raw : List (Candle K)) (j : Nat) (s s' : StState K)
    (hj : p ≤ j) (hs : stSeries p mult raw j = some s) (hs' : stSeries p mult raw (j + 1) = some s') :
    (s.dir = 1 → (s'.dir = -1 ↔ fieldAt (·.c) raw (j + 1) < s.lower)) ∧
    (s.dir = -1 → (s'.dir = 1 ↔ s.upper < fieldAt (·.c) raw (j + 1))) := by
  obtain ⟨t, ht, hn'⟩ := stSeries_succ p mult raw j hj
  rw [hs] at ht; cases ht
  rw [hs'] at hn'; cases hn'
  constructor
  · intro hd
    show stDir _ _ _ s.dir = -1 ↔ _
    rw [hd]
    constructor
    · intro h
      by_contra hc
      rw [stDir_keep_up _ _ _ hc] at h
      cases h
    · exact stDir_flip_down _ _ _
  · intro hd
    show stDir _ _ _ s.dir = 1 ↔ _
    rw [hd]
    constructor
    · intro h
      by_contra hc
      rw [stDir_keep_down _ _ _ hc] at h
      cases h
    · exact stDir_flip_up _ _ _

/-- **the active band never moves against the trend while the close stays between the previous
bands** (then the direction is kept): the lower band of an up-trend does not drop, the upper band of
a down-trend does not rise.  (When the close is beyond the IDLE band the library resets both bands to
`HL2 ± m·ATR` without ratcheting – see `ratchet_needs_idle` below – so this hypothesis is needed.) -/
theorem stSeries_ratchet (p : Nat) (mult : K) (raw : List (Candle K)) (j : Nat) (s s' : StState K)
    (hj : p ≤ j) (hs : stSeries p mult raw j = some s) (hs' : stSeries p mult raw (j + 1) = some s')
    (h1 : ¬ s.upper < fieldAt (·.c) raw (j + 1)) (h2 : ¬ fieldAt (·.c) raw (j + 1) < s.lower) :
    s'.dir = s.dir ∧ (s.dir = 1 → s.lower ≤ s'.lower) ∧ (s.dir = -1 → s'.upper ≤ s.upper) := by
  obtain ⟨t, ht, hn'⟩ := stSeries_succ p mult raw j hj
  rw [hs] at ht; cases ht
  rw [hs'] at hn'; cases hn'
  refine ⟨?_, ?_, ?_⟩
  · show stDir _ _ _ _ = _
    simp [stDir, h1, h2]
  · intro hd
    show _ ≤ stLower _ _ _ s.dir _
    rw [hd]
    exact stLower_ratchet _ _ _ _ h1 h2
  · intro hd
    show stUpper _ _ _ s.dir _ ≤ _
    rw [hd]
    exact stUpper_ratchet _ _ _ _ h1 h2

/-- without the hypothesis on the idle band the ratchet fails (as in the library): an up-trend with
bands `(10, 8)`, a close of `11` above the idle upper band, new plain bands `(8, 6)` – the direction
stays `1` and the lower band drops from `8` to `6` -/
example : stNext (1 : ℚ) 1 7 11 ⟨1, 10, 8⟩ = ⟨1, 8, 6⟩ := by
  simp [stNext, stDir, stUpper, stLower]; norm_num

/-! ### the rounding budget of the band inputs against the exact helper series -/

/-- the stored ATR against Wilder's average of the EXACT true ranges: within `p·ε₄ + ε₄` -/
theorem stAtr_true (p : Nat) (hp : 1 ≤ p) (raw : List (Candle K)) (j : Nat) (hj : p ≤ j) :
    |stAtr p (trS raw) j - atrExact p (trExact raw) j|
      ≤ eps K defaultRound / (1 / (p : K)) + eps K defaultRound := by
  obtain ⟨y, hy, hb, _⟩ := (AtrOK.toTrue p hp defaultRound raw j _ (stAtrStored_ok p hp raw j)).2 hj
  unfold stAtrStored at hy
  rw [if_neg (by omega)] at hy
  have : stAtr p (trS raw) j = y := by
    have := hy
    simp only [Val.s.injEq, Scalar.num.injEq, Num.flt.injEq] at this
    exact this
  rw [this]; exact hb

/-- **budget of the plain bands** `HL2 ± m·ATR` the machine is fed with (computed from the stored,
4-decimal helper readings) against the same expression of the exact `HL2` and Wilder's average of
the exact true ranges: `ε₄ + |m|·(p·ε₄ + ε₄)`.  (The machine itself compares closes with bands, so
no continuity statement beyond its inputs is possible: the data series holds the machine's bands
exactly, the own reading within `ε_n` – `StDataOK`, `StOwnOK`.) -/
theorem stPlain_budget (p : Nat) (hp : 1 ≤ p) (mult : K) (raw : List (Candle K)) (j : Nat) (hj : p ≤ j) :
    |(hl2S raw j + mult * stAtr p (trS raw) j) - (hl2Exact raw j + mult * atrExact p (trExact raw) j)|
      ≤ eps K defaultRound + |mult| * (eps K defaultRound / (1 / (p : K)) + eps K defaultRound) ∧
    |(hl2S raw j - mult * stAtr p (trS raw) j) - (hl2Exact raw j - mult * atrExact p (trExact raw) j)|
      ≤ eps K defaultRound + |mult| * (eps K defaultRound / (1 / (p : K)) + eps K defaultRound) := by
  have h1 := hl2S_err raw j
  have h2 := stAtr_true p hp raw j hj
  have h3 : |mult * (stAtr p (trS raw) j - atrExact p (trExact raw) j)|
      ≤ |mult| * (eps K defaultRound / (1 / (p : K)) + eps K defaultRound) := by
    rw [abs_mul]; exact mul_le_mul_of_nonneg_left h2 (abs_nonneg _)
  constructor
  · have e : (hl2S raw j + mult * stAtr p (trS raw) j) - (hl2Exact raw j + mult * atrExact p (trExact raw) j)
        = (hl2S raw j - hl2Exact raw j) + mult * (stAtr p (trS raw) j - atrExact p (trExact raw) j) := by ring
    rw [e]
    exact le_trans (abs_add_le _ _) (add_le_add h1 h3)
  · have e : (hl2S raw j - mult * stAtr p (trS raw) j) - (hl2Exact raw j - mult * atrExact p (trExact raw) j)
        = (hl2S raw j - hl2Exact raw j) - mult * (stAtr p (trS raw) j - atrExact p (trExact raw) j) := by ring
    rw [e]
    exact le_trans (abs_sub _ _) (add_le_add h1 h3)

/-! ### non-vacuity: the five demo candles of HexProps/C04.lean over ℚ -/

theorem stNames_demo : StNames "ST_2" :=
  ⟨by decide, by decide, by decide, by decide, by decide, by decide, by decide, by decide, by decide,
   by decide, by decide, by decide, by decide, by decide, by decide, by decide⟩

/-- rounding a rational that lies on the 4-decimal grid -/
theorem st_round4_grid (k : Int) (q : ℚ) (h : q = (k : ℚ) / 10 ^ 4) : PyF.round 4 q = q := by
  rw [h]; exact LawfulPyF.round_grid 4 k

theorem stDemo_trS : trS atrDemoRaw 1 = 3 ∧ trS atrDemoRaw 2 = 4 ∧ trS atrDemoRaw 3 = 3 ∧ trS atrDemoRaw 4 = 0 := by
  refine ⟨?_, ?_, ?_, ?_⟩
  · show ((Num.int 3 : Num ℚ).roundBy defaultRound).toF = 3
    simp [Num.roundBy]
  · show ((Num.int 4 : Num ℚ).roundBy defaultRound).toF = 4
    simp [Num.roundBy]
  · show ((Num.int 3 : Num ℚ).roundBy defaultRound).toF = 3
    simp [Num.roundBy]
  · show ((Num.int 0 : Num ℚ).roundBy defaultRound).toF = 0
    simp [Num.roundBy]

/-- the stored ATR column of the demo candles (`period = 2`): `None, None, 3.5, 3.25, 1.625` -/
theorem stDemo_atr : stAtr 2 (trS atrDemoRaw) 2 = 7 / 2 ∧ stAtr 2 (trS atrDemoRaw) 3 = 13 / 4 ∧
    stAtr 2 (trS atrDemoRaw) 4 = 13 / 8 := by
  obtain ⟨h1, h2, h3, h4⟩ := stDemo_trS
  have e2 : stAtr 2 (trS atrDemoRaw) 2 = 7 / 2 := by
    rw [stAtr_seed _ _ _ (le_refl _)]
    show PyF.round 4 _ = _
    rw [st_round4_grid 35000 _ (by simp [rsum, List.range_succ, h1, h2]; norm_num)]
    simp [rsum, List.range_succ, h1, h2]; norm_num
  have e3 : stAtr 2 (trS atrDemoRaw) 3 = 13 / 4 := by
    rw [stAtr_step _ _ _ (by norm_num)]
    show PyF.round 4 _ = _
    simp only [Nat.add_one_sub_one, e2, h3]
    rw [st_round4_grid 32500 _ (by norm_num)]
    norm_num
  refine ⟨e2, e3, ?_⟩
  rw [stAtr_step _ _ _ (by norm_num)]
  show PyF.round 4 _ = _
  simp only [Nat.add_one_sub_one, e3, h4]
  rw [st_round4_grid 16250 _ (by norm_num)]
  norm_num

theorem stDemo_hl : hl2S atrDemoRaw 2 = 13 ∧ hl2S atrDemoRaw 3 = 29 / 2 ∧ hl2S atrDemoRaw 4 = 15 := by
  refine ⟨?_, ?_, ?_⟩
  · show PyF.round 4 _ = _
    rw [st_round4_grid 130000 _ (by simp [hl2Exact, fieldAt, atrDemoRaw, Demo.mk]; norm_num)]
    simp [hl2Exact, fieldAt, atrDemoRaw, Demo.mk]; norm_num
  · show PyF.round 4 _ = _
    rw [st_round4_grid 145000 _ (by simp [hl2Exact, fieldAt, atrDemoRaw, Demo.mk]; norm_num)]
    simp [hl2Exact, fieldAt, atrDemoRaw, Demo.mk]; norm_num
  · show PyF.round 4 _ = _
    rw [st_round4_grid 150000 _ (by simp [hl2Exact, fieldAt, atrDemoRaw, Demo.mk]; norm_num)]
    simp [hl2Exact, fieldAt, atrDemoRaw, Demo.mk]

/-- **the textbook series on the demo candles** (`period = 2`, `multiplier = 3`): no state on candles
0 and 1; `(1, 23.5, 2.5)` at the first ATR (index 2), then `(1, 24.25, 4.75)` and
`(1, 19.875, 10.125)` – an up-trend whose lower band ratchets up -/
theorem stDemo_series :
    stSeries 2 (3 : ℚ) atrDemoRaw 0 = none ∧ stSeries 2 (3 : ℚ) atrDemoRaw 1 = none ∧
    stSeries 2 (3 : ℚ) atrDemoRaw 2 = some ⟨1, 47 / 2, 5 / 2⟩ ∧
    stSeries 2 (3 : ℚ) atrDemoRaw 3 = some ⟨1, 97 / 4, 19 / 4⟩ ∧
    stSeries 2 (3 : ℚ) atrDemoRaw 4 = some ⟨1, 159 / 8, 81 / 8⟩ := by
  obtain ⟨a2, a3, a4⟩ := stDemo_atr
  obtain ⟨l2, l3, l4⟩ := stDemo_hl
  have c3 : fieldAt (·.c) atrDemoRaw 3 = 15 := by simp [fieldAt, atrDemoRaw, Demo.mk]
  have c4 : fieldAt (·.c) atrDemoRaw 4 = 15 := by simp [fieldAt, atrDemoRaw, Demo.mk]
  have s2 : stSeries 2 (3 : ℚ) atrDemoRaw 2 = some ⟨1, 47 / 2, 5 / 2⟩ := by
    rw [stSeries_start, a2, l2]
    simp [stStart]; norm_num
  have s3 : stSeries 2 (3 : ℚ) atrDemoRaw 3 = some ⟨1, 97 / 4, 19 / 4⟩ := by
    rw [stSeries_next 2 3 atrDemoRaw 3 _ (by norm_num) s2, a3, l3, c3]
    simp [stNext, stDir, stUpper, stLower]; norm_num
  refine ⟨stSeries_none _ _ _ _ (by norm_num), stSeries_none _ _ _ _ (by norm_num), s2, s3, ?_⟩
  rw [stSeries_next 2 3 atrDemoRaw 4 _ (by norm_num) s3, a4, l4, c4]
  simp [stNext, stDir, stUpper, stLower]; norm_num

example : ∃ rows : List (StRow ℚ), rows.length = atrDemoRaw.length ∧
    Gen.rowMajor (stTree (F := ℚ) "ST_2" 4 ((2 : Nat) : Int) "close" (.int 3) (by decide) stNames_demo).S atrDemoRaw
      = .ok (decoSt "ST_2" atrDemoRaw rows) ∧
    ∀ j, j < atrDemoRaw.length → StRowOK 2 4 (Num.int 3 : Num ℚ).toF atrDemoRaw j (rows.getD j StRow.dflt) :=
  st_series 2 (by norm_num) "ST_2" "close" (.int 3) 4 stNames_demo atrDemoRaw atrDemoRaw_plain

/-- the batch run on the demo candles returns, and its candles carry the textbook readings -/
example : ∃ out : List (Candle ℚ), out.length = atrDemoRaw.length ∧
    candlesOf (runIndicator (mkTop (.supertrend ((2 : Nat) : Int) "close" (.int 3) : Kind ℚ) "ST_2" 4) {} atrDemoRaw [])
      = .ok out ∧
    ∀ j, j < atrDemoRaw.length → StCandleOK 2 4 (Num.int 3 : Num ℚ).toF "ST_2" atrDemoRaw j (out.getD j default) :=
  st_series_batch 2 (by norm_num) "ST_2" "close" (.int 3) 4 stNames_demo (by decide) atrDemoRaw atrDemoRaw_plain

/-- … in particular on candle 1 the reading is `stNoneDict`, and on the last candle the direction is
`1`, the data series holds the bands `19.875` / `10.125` exactly and the reported trend (= long) is
within `ε₄` of `10.125` -/
example : ∃ out : List (Candle ℚ),
    candlesOf (runIndicator (mkTop (.supertrend ((2 : Nat) : Int) "close" (.int 3) : Kind ℚ) "ST_2" 4) {} atrDemoRaw [])
      = .ok out ∧
    readingByCandle (out.getD 1 default) "ST_2" = stNoneDict ∧
    (∃ U L : Num ℚ, U.toF = 159 / 8 ∧ L.toF = 81 / 8 ∧
      readingByCandle (out.getD 4 default) ("ST_2" ++ "_data.upper") = .num U ∧
      readingByCandle (out.getD 4 default) ("ST_2" ++ "_data.lower") = .num L) ∧
    (∃ L : Num ℚ, |L.toF - 81 / 8| ≤ eps ℚ 4 ∧
      readingByCandle (out.getD 4 default) "ST_2"
        = .dict [("trend", .num L), ("direction", .num (.int 1)), ("long", .num L), ("short", .none)]) := by
  obtain ⟨out, _, hrun, hall⟩ := st_series_batch 2 (by norm_num) "ST_2" "close" (.int 3) 4 stNames_demo (by decide)
    atrDemoRaw atrDemoRaw_plain
  obtain ⟨_, s1, _, _, s4⟩ := stDemo_series
  have e3 : (Num.int 3 : Num ℚ).toF = 3 := by simp
  refine ⟨out, hrun, ?_, ?_, ?_⟩
  · have := (hall 1 (by decide)).2.2.2.2.1
    rw [e3, s1] at this
    exact this
  · have := (hall 4 (by decide)).2.2.2.2.2
    rw [e3, s4] at this
    exact this
  · have := (hall 4 (by decide)).2.2.2.2.1
    rw [e3, s4] at this
    obtain ⟨U, L, _, hL, hf⟩ := StOwnOK.fields (Or.inl rfl) this
    rcases hf with ⟨_, hv⟩ | ⟨hd, _⟩
    · exact ⟨L, hL, hv⟩
    · cases hd

#print axioms st_series
#print axioms st_series_candles
#print axioms st_series_engine
#print axioms st_series_batch
#print axioms st_batch_readings
#print axioms st_series_live
#print axioms stAtrStored_ok
#print axioms stSeries_flip
#print axioms stSeries_ratchet
#print axioms stDemo_series

end Numeric
end Hex

import HexProofs.Numeric.TotalLifeMgrKinds
import HexProofs.Manager2.TwinTreesFillHA
/-!
# Totality with a lifespan on `{timeframe, timeframe_fill, candlestick = HA}` (property C09, item (d))

The last manager combination: `TwinMgr.fillHA` (HexProofs/Manager2/TwinTreesFillHA.lean) plugged into the generic theorems of
HexProofs/Numeric/TotalLifeMgr.lean.  Hypotheses: those of the unconverted fill manager (`RetainsFilled`, nothing popped at
construction), streams of pristine candles (`RawTfHA`).  Every per-kind `X_lifeTotalMgr` of TotalLifeMgrKinds.lean applies
through `TwinMgr.matches_fillHA`.
-/
set_option linter.unusedSectionVars false
set_option linter.unusedVariables false
namespace Hex
open Hex.Numeric
variable {F : Type} [PyF F]

theorem TwinMgr.matches_fillHA (tf : Int) (htf : 0 < tf) : (TwinMgr.fillHA F tf htf).Matches (MgrSpec.fillHA F tf htf) :=
  ⟨rfl, fun _ h => h⟩

/-- **A covered tree that never raises on `{timeframe, fill, HA}` never raises with a lifespan on top** that pops nothing
at construction and retains `treeLook` closed candles of the (unconverted) filled stream at every popping append: the run
returns, with the candles of the run without lifespan minus the popped ones. -/
theorem covered_never_raises_lifespan_tf_fill_ha (k : Kind F) (nm : String) (n : Nat) (hc : CoveredTreeX nm k)
    (tf : Int) (htf : 0 < tf) (hbase : NeverRaises (MgrSpec.fillHA F tf htf) (mkTop k nm n))
    (life : Int) (init : List (Candle F)) (chunks : List (List (Candle F)))
    (hraw : RawTfHA (init ++ chunks.flatten))
    (hinit : trimCandles (some life) (fillSpec tf init) = .ok (fillSpec tf init))
    (hret : RetainsFilled (treeLook k nm n) tf life init 0 chunks) :
    ∃ snap d, candlesOf (runIndicator (mkTop k nm n) (cfgFillHALife tf life) init chunks) = .ok (snap.drop d) ∧
      candlesOf (runIndicator (mkTop k nm n) (cfgFillHA tf) init chunks) = .ok snap :=
  covered_never_raises_lifespan_mgr (TwinMgr.fillHA F tf htf) k nm n hc hbase life init chunks hraw
    (trim_init_congr life _ (haSpec (fillSpec tf init)) (haSpec_rel _).ts_eq hinit)
    (retainsClosed_fillHA _ tf life init 0 chunks hret)

/-- the pointwise form: on THIS stream and schedule, the twin returns ⇒ the lifespan run returns -/
theorem covered_lifespan_follows_twin_tf_fill_ha (k : Kind F) (nm : String) (n : Nat) (hc : CoveredTreeX nm k)
    (tf : Int) (htf : 0 < tf) (life : Int) (init : List (Candle F)) (chunks : List (List (Candle F)))
    (hraw : RawTfHA (init ++ chunks.flatten))
    (hinit : trimCandles (some life) (fillSpec tf init) = .ok (fillSpec tf init))
    (hret : RetainsFilled (treeLook k nm n) tf life init 0 chunks) (snap : List (Candle F))
    (hsnap : candlesOf (runIndicator (mkTop k nm n) (cfgFillHA tf) init chunks) = .ok snap) :
    ∃ d, candlesOf (runIndicator (mkTop k nm n) (cfgFillHALife tf life) init chunks) = .ok (snap.drop d) :=
  covered_lifespan_follows_twin_mgr (TwinMgr.fillHA F tf htf) k nm n hc life init chunks hraw
    (trim_init_congr life _ (haSpec (fillSpec tf init)) (haSpec_rel _).ts_eq hinit)
    (retainsClosed_fillHA _ tf life init 0 chunks hret) snap hsnap

/-- `LifeTotalMgr` on `TwinMgr.fillHA` in the user-facing vocabulary -/
theorem LifeTotalMgr.fillHA {tf : Int} {htf : 0 < tf} {ind : Ind F} {L : Nat}
    (h : LifeTotalMgr (TwinMgr.fillHA F tf htf) ind L)
    (life : Int) (init : List (Candle F)) (chunks : List (List (Candle F))) (hraw : RawTfHA (init ++ chunks.flatten))
    (hinit : trimCandles (some life) (fillSpec tf init) = .ok (fillSpec tf init))
    (hret : RetainsFilled L tf life init 0 chunks) :
    ∃ snap d, candlesOf (runIndicator ind (cfgFillHALife tf life) init chunks) = .ok (snap.drop d) ∧
      candlesOf (runIndicator ind (cfgFillHA tf) init chunks) = .ok snap :=
  h life init chunks hraw (trim_init_congr life _ (haSpec (fillSpec tf init)) (haSpec_rel _).ts_eq hinit)
    (retainsClosed_fillHA L tf life init 0 chunks hret)

/-! ### non-vacuity (toy carrier `Int`): the gap schedule of C15 -/

section Demo
set_option synthInstance.maxSize 4000

example (hbase : NeverRaises (MgrSpec.fillHA Int 120 (by decide)) (mkTop (.atr 3) "ATR_3" 4)) :
    ∃ snap d, runTfillha (.atr 3) "ATR_3" = .ok (snap.drop d) ∧ runUfillha (.atr 3) "ATR_3" = .ok snap :=
  covered_never_raises_lifespan_tf_fill_ha (.atr 3) "ATR_3" 4 atrDemoOK 120 (by decide) hbase 600 tfInit tfChunksGap
    fillHADemo_raw tfGap_init (by rw [atrDemo_look]; exact tfGap_retains)
/-- end to end, no hypothesis left: the twin returns (evaluation), hence the lifespan run returns the twin's candles minus
`d` leading ones -/
example : ∃ snap d, runTfillha (.atr 3) "ATR_3" = .ok (snap.drop d) ∧ runUfillha (.atr 3) "ATR_3" = .ok snap := by
  obtain ⟨snap, hs⟩ := ok_of_isSome (r := runUfillha (.atr 3) "ATR_3") (by decide +kernel)
  obtain ⟨d, hd⟩ := covered_lifespan_follows_twin_tf_fill_ha (.atr 3) "ATR_3" 4 atrDemoOK 120 (by decide) 600 tfInit
    tfChunksGap fillHADemo_raw tfGap_init (by rw [atrDemo_look]; exact tfGap_retains) snap hs
  exact ⟨snap, d, hd, hs⟩
example : (runTfillha (.atr 3) "ATR_3").toOption.isSome = true ∧
    (runTfillha (.atr 3) "ATR_3").toOption.map (·.map (fun c => (viewHA c, view c)))
      = (runUfillha (.atr 3) "ATR_3").toOption.map (fun b => (b.drop 3).map (fun c => (viewHA c, view c))) := by
  decide +kernel

end Demo
end Hex

namespace Hex.Numeric
variable {K : Type} [Field K] [LinearOrder K] [IsStrictOrderedRing K] [LawfulPyF K]

/-- **MACD / ADX on `{timeframe, fill, HA, lifespan}`** in the exact field – instances of the per-kind theorems -/
theorem macd_lifeTotal_fillHA (tf : Int) (htf : 0 < tf) (nm : String) (n pf ps pg : Nat) (input : String)
    (fld : Candle K → Num K) (hf : 2 ≤ pf) (hfs : pf ≤ ps) (hg : 1 ≤ pg) (hn : MacdNames nm) (hin : AttrInput input)
    (hattr : ∀ c : Candle K, c.attr input = some (.num (fld c))) :
    LifeTotalMgr (TwinMgr.fillHA K tf htf) (mkTop (.macd (pf : Int) (ps : Int) (pg : Int) input : Kind K) nm n)
      (treeLook (.macd (pf : Int) (ps : Int) (pg : Int) input : Kind K) nm n) :=
  macd_lifeTotalMgr (TwinMgr.matches_fillHA tf htf) nm n pf ps pg input fld hf hfs hg hn hin hattr

theorem adx_lifeTotal_fillHA (tf : Int) (htf : 0 < tf) (nm : String) (n p sg : Nat) (hp : 1 ≤ p) (hg : 1 ≤ sg)
    (hn : AdxNames nm) :
    LifeTotalMgr (TwinMgr.fillHA K tf htf) (mkTop (.adx (p : Int) (sg : Int) : Kind K) nm n)
      (treeLook (.adx (p : Int) (sg : Int) : Kind K) nm n) :=
  adx_lifeTotalMgr (TwinMgr.matches_fillHA tf htf) nm n p sg hp hg hn

end Hex.Numeric

#print axioms Hex.TwinMgr.matches_fillHA
#print axioms Hex.covered_never_raises_lifespan_tf_fill_ha
#print axioms Hex.covered_lifespan_follows_twin_tf_fill_ha
#print axioms Hex.Numeric.macd_lifeTotal_fillHA
#print axioms Hex.Numeric.adx_lifeTotal_fillHA

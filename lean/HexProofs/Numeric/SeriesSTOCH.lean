import HexProofs.Framework.Gen.STOCH
import HexProofs.Numeric.Stoch
import HexProofs.Numeric.SeriesRSI
import HexProofs.Numeric.SeriesATR
import HexProofs.Numeric.Demo
/-!
# Stochastic: the whole series (closes the STOCH item of `C06_FULL`)

`Gen.rowMajor (stochTree …).S raw` is the row-major run of the STOCH tree (own reading under
`name`, `Managed` holder `name_data` = dict `{stoch, k}`, SMA helpers `name_k` over
`name_data.stoch` and `name_d` over `name_data.k`); by `TreeSpec.engine` / `batch_iff` /
`live_refines` it is what `calculate()`, the batch run and every append schedule return.

What the model (`Calc.stoch`, `children`, `Calc.sma`) actually does, and hence what is proved
(`period = p ≥ 2`, `smoothing_k = sk ≥ 1`, `slow_period = sl ≥ 1`, input a candle field):

* before index `p − 1` (`reading_period(p, input)` false) NOTHING is written but the own reading,
  which is the dict `{stoch: None, k: None, d: None}` – never a bare `None`;
* from `p − 1` on the raw value `stoch_j = 100·(x_j − LL)/(HH − LL)` (`0.0` when `HH = LL`, `LL`/`HH`
  over the lows/highs of candles `j−p+1 … j`) goes UNROUNDED into `name_data` (`Managed.set_reading`
  does not round): `stExact`, exact, no budget;
* `name_k` = SMA(`sk`) over `name_data.stoch`, rounded by the engine to `defaultRound = 4`: `None`
  before `t_K = p + sk − 2` (`stochTK`), the rounded mean of the first `sk` raw values at `t_K`, then the
  RUNNING form `round₄(prev − (stoch_{j−sk} − stoch_j)/sk)` on the stored predecessor (`stKStored`,
  `smaStored`): within `(j − t_K + 1)·ε₄` of the textbook `%K` (`stKStored_err`); this rounded value
  is what goes into `name_data.k`;
* `name_d` = SMA(`sl`) over `name_data.k` (the STORED `%K`), rounded to 4: `None` before
  `t_D = p + sk + sl − 3` (`stochTD`), then running; within `(j − t_D + 1)·ε₄ + (j − t_K + 1)·ε₄` of the
  textbook `%D` = mean of the last `sl` textbook `%K` (`stDStored_err`);
* the own reading is `{stoch, k, d}` rounded to the node's `rounding` `n`: `+ ε_n` on each
  (`StochOK`); with `n = 4` the second rounding of `k`, `d` is the identity (`stRow_default_round`);
* ranges (`stoch_ranges`): on candles with `low ≤ input ≤ high` the textbook values are in `[0,100]`,
  the own `stoch` is in `[0,100]` exactly, the others within their budget of `[0,100]`.

Theorems: `stoch_series` (the run equals `stochDeco`, an explicit function of the raw candles; by
induction along `Gen.rowMajor` – `gen_series_induct` – from `stoch_step`), `stochDeco_ok`
(candle by candle: `StochOK`), `stoch_series_engine`, `stoch_series_batch`, `stoch_batch_readings`,
`stoch_series_live`.
-/
set_option linter.unusedSectionVars false
set_option linter.unusedSimpArgs false
set_option linter.unusedVariables false
namespace Hex
namespace Numeric
variable {K : Type} [Field K] [LinearOrder K] [IsStrictOrderedRing K] [LawfulPyF K]

/-! ### reading a column of a context -/

theorem Ctx.reading_at (x : Ctx K) (key : String) (j : Nat) (c : Candle K) (h : x.cs[j]? = some c) :
    x.reading key (some (j : Int)) = .ok (readingByCandle c key) := by
  unfold Ctx.reading
  simp only [Option.getD_some]
  rw [pyIndex_nonneg _ _ (by omega)]
  simp only [Int.toNat_natCast, h, getOrIndexError, pym_bind_ok, pym_pure]

/-- `reading_period(q, key)` at the last index `m` of a list of `m + 1` candles whose `key` column
is `g`: the three probes of the library (`i − (q−1)`, the middle, `i`) -/
theorem Ctx.readingPeriod_col (x : Ctx K) (key : String) (m : Nat) (g : Nat → Val K)
    (hi : x.i = (m : Int)) (hlen : x.cs.length = m + 1)
    (hcol : ∀ j : Nat, j ≤ m → x.reading key (some (j : Int)) = .ok (g j)) (q : Nat) (hq : 1 ≤ q) :
    x.readingPeriod (q : Int) key =
      (decide (q ≤ m + 1) && !(g (m + 1 - q)).isNone && !(g (m - (q - 1) / 2)).isNone && !(g m).isNone) := by
  obtain ⟨cs, i, name⟩ := x
  simp only at hi hlen
  subst hi
  have hrd : ∀ j : Nat, j ≤ m → readingByIndex cs key (j : Int) = g j := by
    intro j hj
    have hv : validIndex (j : Int) cs.length = true := by
      rw [hlen]; simp [validIndex]; omega
    have := hcol j hj
    unfold Ctx.reading at this
    simp only [Option.getD_some] at this
    unfold readingByIndex
    rw [hv]
    cases hpi : pyIndex cs (j : Int) with
    | error e => rw [hpi] at this; simp at this
    | ok c =>
      rw [hpi] at this
      simp only [pym_bind_ok, pym_pure, Except.ok.injEq] at this
      simp [this]
  unfold Ctx.readingPeriod Hex.readingPeriod
  simp only [Option.getD_none]
  have hv : validIndex (m : Int) cs.length = true := by
    rw [hlen]; simp [validIndex]; omega
  simp only [hv, Bool.not_true, Bool.false_eq_true, if_false]
  by_cases hqm : q ≤ m + 1
  · have a : ¬ ((m : Int) - ((q : Int) - 1) < 0) := by omega
    have b : (q : Int) - 1 ≥ 0 := by omega
    simp only [a, if_false, b, ge_iff_le, if_true, hqm, decide_true]
    have e1 : (m : Int) - ((q : Int) - 1) = ((m + 1 - q : Nat) : Int) := by omega
    have e2 : (m : Int) - ((q : Int) - 1) / 2 = ((m - (q - 1) / 2 : Nat) : Int) := by omega
    rw [e1, e2, hrd _ (by omega), hrd _ (by omega), hrd m (le_refl m)]
    simp
  · have a : (m : Int) - ((q : Int) - 1) < 0 := by omega
    simp [a, hqm]

/-! ### the stored running SMA over a column -/

/-- what the library's SMA helper (rounding to `n` decimals) stores over the inputs `g` whose
first full window ends at index `t0`: `round (mean of the first window)` at `t0` (and, by
convention, before it), then the RUNNING form on the stored predecessor,
`round (prev − (g (j−q) − g j)/q)` -/
def smaStored (n q t0 : Nat) (g : Nat → K) : Nat → K
  | 0 => PyF.round n (winMean g q t0)
  | j + 1 => if j + 1 ≤ t0 then PyF.round n (winMean g q t0)
             else PyF.round n (smaStored n q t0 g j - (g (j + 1 - q) - g (j + 1)) / q)

theorem smaStored_seed (n q t0 : Nat) (g : Nat → K) (j : Nat) (h : j ≤ t0) :
    smaStored n q t0 g j = PyF.round n (winMean g q t0) := by
  cases j with
  | zero => rfl
  | succ i => simp [smaStored, h]

theorem smaStored_step (n q t0 : Nat) (g : Nat → K) (j : Nat) (h : t0 < j) :
    smaStored n q t0 g j = PyF.round n (smaStored n q t0 g (j - 1) - (g (j - q) - g j) / q) := by
  obtain ⟨i, rfl⟩ : ∃ i, j = i + 1 := ⟨j - 1, by omega⟩
  have : ¬ i + 1 ≤ t0 := by omega
  simp [smaStored, this]

/-- the stored running SMA is within `(j − t0 + 1)·ε` of the window mean: one `ε` per stored step -/
theorem smaStored_err (n q t0 : Nat) (g : Nat → K) (hq : 1 ≤ q) (ht : q ≤ t0 + 1) (j : Nat) (hj : t0 ≤ j) :
    |smaStored n q t0 g j - winMean g q j| ≤ ((j + 1 - t0 : Nat) : K) * eps K n := by
  obtain ⟨d, rfl⟩ : ∃ d, j = t0 + d := ⟨j - t0, by omega⟩
  induction d with
  | zero =>
    rw [Nat.add_zero, smaStored_seed _ _ _ _ _ (le_refl _)]
    have : t0 + 1 - t0 = 1 := by omega
    rw [this]; simp only [Nat.cast_one, one_mul]
    exact LawfulPyF.round_err n _
  | succ d ih =>
    have ih' := ih (by omega)
    rw [smaStored_step _ _ _ _ _ (by omega), winMean_step g q (t0 + (d + 1)) hq (by omega)]
    have e1 : t0 + (d + 1) - 1 = t0 + d := by omega
    rw [e1]
    have hb := sma_error_budget n (q : K) (g (t0 + (d + 1) - q)) (g (t0 + (d + 1)))
      (smaStored n q t0 g (t0 + d)) (winMean g q (t0 + d)) _ ih'
    have e : ((t0 + (d + 1) + 1 - t0 : Nat) : K) * eps K n = ((t0 + d + 1 - t0 : Nat) : K) * eps K n + eps K n := by
      have : t0 + (d + 1) + 1 - t0 = (t0 + d + 1 - t0) + 1 := by omega
      rw [this]; push_cast; ring
    rw [e]
    exact hb

/-- **one call of the SMA helper inside a series.**  The context has `m + 1` candles and sits on
the last; its input column is `None` before `s0` and `g` from `s0` on; the helper's own previous
reading is what `smaStored` says.  Then the call returns and the stored (rounded) reading is
`None` before `t0 = s0 + q − 1` and `smaStored … m` from there on. -/
theorem sma_on_col (x : Ctx K) (key : String) (m q s0 t0 n : Nat) (g : Nat → K)
    (hi : x.i = (m : Int)) (hlen : x.cs.length = m + 1) (hq : 1 ≤ q) (ht : t0 + 1 = s0 + q) (ht1 : 1 ≤ t0)
    (hcol : ∀ j : Nat, j ≤ m →
      x.reading key (some (j : Int)) = .ok (if j < s0 then Val.none else .flt (g j)))
    (hprev : x.prevReading x.name = .ok (if m ≤ t0 then Val.none else .flt (smaStored n q t0 g (m - 1)))) :
    ∃ v, Calc.sma x (q : Int) key = .ok v ∧
      v.roundBy n = (if m < t0 then Val.none else .flt (smaStored n q t0 g m)) := by
  have hper := Ctx.readingPeriod_col x key m _ hi hlen hcol q hq
  have hqK : ((q : Int) : K) ≠ 0 := by
    have : (q : K) ≠ 0 := by exact_mod_cast (by omega : q ≠ 0)
    simpa using this
  by_cases h1 : m < t0
  · -- warm-up
    rw [if_pos (by omega)] at hprev
    have hrp : x.readingPeriod (q : Int) key = false := by
      rw [hper]
      by_cases hqm : q ≤ m + 1
      · have : m + 1 - q < s0 := by omega
        simp [this]
      · simp [hqm]
    exact ⟨.none, sma_none _ _ _ hprev hrp, by rw [if_pos h1]; rfl⟩
  · by_cases h2 : m = t0
    · -- seed
      rw [if_pos (by omega)] at hprev
      have hrp : x.readingPeriod (q : Int) key = true := by
        rw [hper]
        have a : ¬ m + 1 - q < s0 := by omega
        have b : ¬ m - (q - 1) / 2 < s0 := by omega
        have c : ¬ m < s0 := by omega
        have d : q ≤ m + 1 := by omega
        simp [a, b, c, d]
      have hwin := sma_seed_window x q key (fun j => Num.flt (g (m + 1 - q + j))) hprev hrp hq
        (by rw [hi]; omega) (by rw [hi]; omega)
        (by
          intro j hj
          have e : x.i + 1 - (q : Int) + (j : Int) = ((m + 1 - q + j : Nat) : Int) := by rw [hi]; omega
          rw [e, hcol _ (by omega), if_neg (by omega)])
      refine ⟨_, hwin, ?_⟩
      rw [if_neg h1, smaStored_seed _ _ _ _ _ (by omega)]
      subst h2
      rfl
    · -- running update on the stored predecessor
      have h3 : t0 < m := by omega
      rw [if_neg (by omega)] at hprev
      have hold : x.reading key (some (x.i - (q : Int))) = .ok (.num (.flt (g (m - q)))) := by
        have e : x.i - (q : Int) = ((m - q : Nat) : Int) := by rw [hi]; omega
        rw [e, hcol _ (by omega), if_neg (by omega)]
      have hcur : x.reading key = .ok (.num (.flt (g m))) := by
        have := hcol m (le_refl m)
        rw [if_neg (by omega)] at this
        have e : x.reading key = x.reading key (some (x.i)) := by
          unfold Ctx.reading; rfl
        rw [e, hi]; exact this
      refine ⟨_, sma_rec_flt x q key _ _ _ hprev hold hcur hqK, ?_⟩
      rw [if_neg h1, smaStored_step _ _ _ _ _ h3]
      simp only [Num.toF_flt, Int.cast_natCast]
      rfl

/-! ### lowest low / highest high of a window -/

/-- `min (f 0) … (f n)` -/
def rmin : Nat → (Nat → K) → K
  | 0, f => f 0
  | n + 1, f => min (rmin n f) (f (n + 1))

/-- `max (f 0) … (f n)` -/
def rmax : Nat → (Nat → K) → K
  | 0, f => f 0
  | n + 1, f => max (rmax n f) (f (n + 1))

theorem rmin_le (n : Nat) (f : Nat → K) : ∀ k, k ≤ n → rmin n f ≤ f k := by
  induction n with
  | zero => intro k hk; have : k = 0 := by omega
            subst this; exact le_refl _
  | succ n ih =>
    intro k hk
    by_cases h : k ≤ n
    · exact le_trans (min_le_left _ _) (ih k h)
    · have : k = n + 1 := by omega
      subst this; exact min_le_right _ _

theorem rmin_mem (n : Nat) (f : Nat → K) : ∃ k, k ≤ n ∧ rmin n f = f k := by
  induction n with
  | zero => exact ⟨0, le_refl _, rfl⟩
  | succ n ih =>
    obtain ⟨k, hk, e⟩ := ih
    rcases min_choice (rmin n f) (f (n + 1)) with h | h
    · exact ⟨k, by omega, by simp only [rmin]; rw [h, e]⟩
    · exact ⟨n + 1, le_refl _, by simp only [rmin]; rw [h]⟩

theorem le_rmax (n : Nat) (f : Nat → K) : ∀ k, k ≤ n → f k ≤ rmax n f := by
  induction n with
  | zero => intro k hk; have : k = 0 := by omega
            subst this; exact le_refl _
  | succ n ih =>
    intro k hk
    by_cases h : k ≤ n
    · exact le_trans (ih k h) (le_max_left _ _)
    · have : k = n + 1 := by omega
      subst this; exact le_max_right _ _

theorem rmax_mem (n : Nat) (f : Nat → K) : ∃ k, k ≤ n ∧ rmax n f = f k := by
  induction n with
  | zero => exact ⟨0, le_refl _, rfl⟩
  | succ n ih =>
    obtain ⟨k, hk, e⟩ := ih
    rcases max_choice (rmax n f) (f (n + 1)) with h | h
    · exact ⟨k, by omega, by simp only [rmax]; rw [h, e]⟩
    · exact ⟨n + 1, le_refl _, by simp only [rmax]; rw [h]⟩

/-- a lower bound that is attained is the minimum -/
theorem rmin_unique (n : Nat) (f : Nat → K) (L : K) (h1 : ∀ k, k ≤ n → L ≤ f k) (h2 : ∃ k, k ≤ n ∧ L = f k) :
    L = rmin n f := by
  obtain ⟨k, hk, e⟩ := h2
  obtain ⟨k', hk', e'⟩ := rmin_mem n f
  apply le_antisymm
  · rw [e']; exact h1 k' hk'
  · rw [e]; exact rmin_le n f k hk

theorem rmax_unique (n : Nat) (f : Nat → K) (H : K) (h1 : ∀ k, k ≤ n → f k ≤ H) (h2 : ∃ k, k ≤ n ∧ H = f k) :
    H = rmax n f := by
  obtain ⟨k, hk, e⟩ := h2
  obtain ⟨k', hk', e'⟩ := rmax_mem n f
  apply le_antisymm
  · rw [e]; exact le_rmax n f k hk
  · rw [e']; exact h1 k' hk'

/-! ### the raw stochastic value the node computes -/

/-- the raw value of `Calc.stoch` once its window of `p` candles is full:
`100·(cur − LL)/(HH − LL)` (`0.0` on a flat window), a float, NOT rounded -/
theorem stochSt_eq (x : Ctx K) (p : Nat) (input : String) (hp : 1 ≤ p) (lo hi : Nat → Num K) (cur : Num K)
    (hlo : ∀ j, j < p → x.reading "low" (some (x.i + 1 - p + j)) = .ok (.num (lo j)))
    (hhi : ∀ j, j < p → x.reading "high" (some (x.i + 1 - p + j)) = .ok (.num (hi j)))
    (hc : x.reading input = .ok (.num cur)) :
    stochSt x (p : Int) input = .ok (.flt (stochOf cur.toF (rmin (p - 1) (fun k => (lo k).toF))
      (rmax (p - 1) (fun k => (hi k).toF)))) := by
  have hml := mapM_up1 x p "low" lo hlo
  have hmh := mapM_up1 x p "high" hi hhi
  obtain ⟨L, hL⟩ : ∃ L, Num.minList ((List.range p).map lo) = some L := by
    obtain ⟨n, rfl⟩ : ∃ n, p = n + 1 := ⟨p - 1, by omega⟩
    simp [List.range_succ_eq_map, Num.minList]
  obtain ⟨H, hH⟩ : ∃ H, Num.maxList ((List.range p).map hi) = some H := by
    obtain ⟨n, rfl⟩ : ∃ n, p = n + 1 := ⟨p - 1, by omega⟩
    simp [List.range_succ_eq_map, Num.maxList]
  obtain ⟨hL1, y, hy, hL2⟩ := Num.minList_spec _ _ hL
  obtain ⟨hH1, z, hz, hH2⟩ := Num.maxList_spec _ _ hH
  obtain ⟨jl, hjl, rfl⟩ := List.mem_map.1 hy
  obtain ⟨jh, hjh, rfl⟩ := List.mem_map.1 hz
  have eL : L.toF = rmin (p - 1) (fun k => (lo k).toF) :=
    rmin_unique _ _ _ (fun k hk => hL1 (lo k) (List.mem_map.2 ⟨k, List.mem_range.2 (by omega), rfl⟩))
      ⟨jl, by have := List.mem_range.1 hjl; omega, hL2⟩
  have eH : H.toF = rmax (p - 1) (fun k => (hi k).toF) :=
    rmax_unique _ _ _ (fun k hk => hH1 (hi k) (List.mem_map.2 ⟨k, List.mem_range.2 (by omega), rfl⟩))
      ⟨jh, by have := List.mem_range.1 hjh; omega, hH2⟩
  rw [← eL, ← eH]
  unfold stochSt
  dsimp only
  erw [hml, hmh]
  simp only [pym_bind_ok, hL, hH, pym_pure, Ctx.num_of hc, Val.asNum_num]
  by_cases h0 : H.toF - L.toF = 0
  · have e : (H.sub L).eq (.int 0) = true := by rw [Num.eq_iff]; simpa using h0
    simp only [e, if_true, stochOf, h0, Num.fl_eq, Int.cast_zero]
  · have e : (H.sub L).eq (.int 0) = false := by rw [Num.eq_false_iff]; simpa using h0
    have hd : (H.sub L).toF ≠ 0 := by simpa using h0
    simp only [e, Bool.false_eq_true, if_false, Num.truediv_ok _ _ hd, pym_bind_ok, stochOf, h0]
    simp [Num.mul, LawfulPyF.mul_eq]

/-! ### the textbook series and what is stored -/

/-- first index of `%K`: the window of `p` candles, then `smoothK` raw values -/
def stochTK (p sk : Nat) : Nat := p + sk - 2
/-- first index of `%D` -/
def stochTD (p sk sl : Nat) : Nat := p + sk + sl - 3

section series
variable (p sk sl : Nat) (lo hi x : Nat → K)

/-- the raw stochastic value of candle `j ≥ p − 1`: `100·(x_j − LL)/(HH − LL)` over the lows/highs of
candles `j − p + 1 … j`, `0` on a flat window -/
def stExact (j : Nat) : K :=
  stochOf (x j) (rmin (p - 1) (fun k => lo (j + 1 - p + k))) (rmax (p - 1) (fun k => hi (j + 1 - p + k)))

/-- textbook `%K`: the mean of the last `smoothK` raw values -/
def stKExact (j : Nat) : K := winMean (stExact p lo hi x) sk j
/-- textbook `%D`: the mean of the last `slow` values of `%K` -/
def stDExact (j : Nat) : K := winMean (stKExact p sk lo hi x) sl j

/-- the three textbook series with their warm-up -/
def stochSeries (j : Nat) : Option K := if j + 1 < p then none else some (stExact p lo hi x j)
def stochKSeries (j : Nat) : Option K := if j < stochTK p sk then none else some (stKExact p sk lo hi x j)
def stochDSeries (j : Nat) : Option K := if j < stochTD p sk sl then none else some (stDExact p sk sl lo hi x j)

/-- what the `<name>_k` helper stores (4 decimals, running form over the UNROUNDED raw values) -/
def stKStored : Nat → K := smaStored defaultRound sk (stochTK p sk) (stExact p lo hi x)
/-- what the `<name>_d` helper stores (4 decimals, running form over the STORED `%K`) -/
def stDStored : Nat → K := smaStored defaultRound sl (stochTD p sk sl) (stKStored p sk lo hi x)

def stKSc (j : Nat) : Scalar K := if j < stochTK p sk then .none else .num (.flt (stKStored p sk lo hi x j))
def stDSc (j : Nat) : Scalar K := if j < stochTD p sk sl then .none else .num (.flt (stDStored p sk sl lo hi x j))

/-- everything the node's step stores on candle `j`: nothing but the own dict of three `None`s
before the window is full; afterwards the data entry `{stoch, k}`, the two helper readings and the
own dict `{stoch, k, d}` (still to be rounded to the node's `rounding`) -/
def stRow (j : Nat) : Option (Val K × Val K × Val K) × Val K :=
  if j + 1 < p then (none, stochNone)
  else
    (some (sdict [("stoch", sc (.flt (stExact p lo hi x j))), ("k", stKSc p sk lo hi x j)],
            .s (stKSc p sk lo hi x j), .s (stDSc p sk sl lo hi x j)),
     sdict [("stoch", sc (.flt (stExact p lo hi x j))), ("k", stKSc p sk lo hi x j),
            ("d", stDSc p sk sl lo hi x j)])

end series

/-! ### reading a finished STOCH candle -/

section cand
variable (nm : String) (n : Nat)

theorem stochApp_attr (key : String) (hd : NoDot key) (hin : key ∈ Candle.attrNames)
    (z : Option (Val K × Val K × Val K) × Val K) (c : Candle K) :
    readingByCandle (stochApp nm n z c) key = readingByCandle c key :=
  rbc_stochApp nm n key (indep_attr _ _ hd hin) (indep_attr _ _ hd hin) (indep_attr _ _ hd hin)
    (indep_attr _ _ hd hin) z c

theorem stochApp_own (hn : StochNames nm) (z : Option (Val K × Val K × Val K) × Val K) (c : Candle K) :
    readingByCandle (stochApp nm n z c) nm = z.2.roundBy n := by
  unfold stochApp
  exact readingByCandle_setKey_own nm hn.kN _ _

theorem stochApp_k (hn : StochNames nm) (z : Option (Val K × Val K × Val K) × Val K) (c : Candle K)
    (hc : Plain c) :
    readingByCandle (stochApp nm n z c) (nm ++ "_k") = (match z.1 with | none => .none | some (_, b, _) => b) := by
  unfold stochApp
  rw [indep_key _ _ hn.kK hn.nK]
  obtain ⟨d, w⟩ := z
  cases d with
  | none => exact readingByCandle_plain _ hn.kK c hc
  | some abe =>
    obtain ⟨a, b, e⟩ := abe
    show readingByCandle (setKey true _ e (setKey true _ b (setKey true _ a c))) _ = b
    rw [indep_key _ _ hn.kK hn.Kd.symm]
    exact rbc_data_self _ hn.kK _ (by show dlookup _ c.inds = none; rw [hc.1]; rfl) _

theorem stochApp_d (hn : StochNames nm) (z : Option (Val K × Val K × Val K) × Val K) (c : Candle K)
    (hc : Plain c) :
    readingByCandle (stochApp nm n z c) (nm ++ "_d") = (match z.1 with | none => .none | some (_, _, e) => e) := by
  unfold stochApp
  rw [indep_key _ _ hn.kd hn.nd]
  obtain ⟨d, w⟩ := z
  cases d with
  | none => exact readingByCandle_plain _ hn.kd c hc
  | some abe =>
    obtain ⟨a, b, e⟩ := abe
    show readingByCandle (setKey true _ e (setKey true _ b (setKey true _ a c))) _ = e
    exact rbc_data_self _ hn.kd _ (by show dlookup _ c.inds = none; rw [hc.1]; rfl) _

theorem stochApp_data (hn : StochNames nm) (z : Option (Val K × Val K × Val K) × Val K) (c : Candle K)
    (hc : Plain c) :
    readingByCandle (stochApp nm n z c) (nm ++ "_data") = (match z.1 with | none => .none | some (a, _, _) => a) := by
  unfold stochApp
  rw [indep_key _ _ hn.kD hn.nD]
  obtain ⟨d, w⟩ := z
  cases d with
  | none => exact readingByCandle_plain _ hn.kD c hc
  | some abe =>
    obtain ⟨a, b, e⟩ := abe
    show readingByCandle (setKey true _ e (setKey true _ b (setKey true _ a c))) _ = a
    rw [indep_key _ _ hn.kD hn.Dd.symm, indep_key _ _ hn.kD hn.DK.symm]
    exact rbc_data_self _ hn.kD _ (by rw [hc.1]; rfl) _

/-- a field of the data entry -/
theorem stochApp_field (hn : StochNames nm) (full fld : String) (hs : splitDot full = [nm ++ "_data", fld])
    (z : Option (Val K × Val K × Val K) × Val K) (c : Candle K) (hc : Plain c) :
    readingByCandle (stochApp nm n z c) full
      = (match z.1 with | none => .none | some (a, _, _) => a.nested fld) := by
  unfold stochApp
  rw [st_indep_dotted nm full _ fld hs hn.nD]
  obtain ⟨d, w⟩ := z
  cases d with
  | none =>
    show readingByCandle c full = .none
    unfold readingByCandle
    rw [hs, hc.1, hc.2]; rfl
  | some abe =>
    obtain ⟨a, b, e⟩ := abe
    show readingByCandle (setKey true _ e (setKey true _ b (setKey true _ a c))) _ = a.nested fld
    rw [st_indep_dotted (nm ++ "_d") full _ fld hs hn.Dd.symm, st_indep_dotted (nm ++ "_k") full _ fld hs hn.DK.symm]
    exact rbc_data_field _ fld full hs c (by rw [hc.1]; rfl) _

end cand

/-! ### one step of the node inside the series -/

theorem nested_k2 (st : Num K) (ks : Scalar K) :
    (sdict [("stoch", sc st), ("k", ks)] : Val K).nested "k" = .s ks := by
  simp [Val.nested, sdict, dlookup]

theorem toScalar_s (a : Scalar K) : Val.toScalar (Val.s a : Val K) = .ok a := by
  cases a <;> rfl

/-- **the node's step at index `m`**: if the finished prefix carries the rows `stRow 0 … stRow (m−1)`,
the value computed for candle `m` is `stRow m` -/
theorem stoch_step (p sk sl : Nat) (hp : 2 ≤ p) (hsk : 1 ≤ sk) (hsl : 1 ≤ sl) (nm input : String)
    (fld : Candle K → Num K) (n : Nat) (hn : StochNames nm) (hin : NoDot input ∧ input ∈ Candle.attrNames)
    (hattr : ∀ c : Candle K, c.attr input = some (.num (fld c)))
    (raw : List (Candle K)) (hraw : ∀ c ∈ raw, Plain c) (m : Nat) (hm : m < raw.length)
    (done : List (Candle K)) (hdl : done.length = m)
    (hdone : ∀ j, j < m → done[j]? = some (stochApp nm n
      (stRow p sk sl (fieldAt (·.l) raw) (fieldAt (·.h) raw) (fieldAt fld raw) j) (raw.getD j default))) :
    stochVal nm (p : Int) (sl : Int) (sk : Int) input done (raw.getD m default)
      = .ok (stRow p sk sl (fieldAt (·.l) raw) (fieldAt (·.h) raw) (fieldAt fld raw) m) := by
  have hpl : ∀ j, j < raw.length → Plain (raw.getD j default) := fun j hj => getD_plain raw hraw j hj
  have hc := hpl m hm
  generalize hcd : raw.getD m default = c at hc
  -- the candles of any context of the step
  have hgl : ∀ (c' : Candle K) (j : Nat), j < m → (done ++ [c'])[j]? = some (stochApp nm n
      (stRow p sk sl (fieldAt (·.l) raw) (fieldAt (·.h) raw) (fieldAt fld raw) j) (raw.getD j default)) := by
    intro c' j hj
    rw [List.getElem?_append_left (by omega)]
    exact hdone j hj
  have hgm : ∀ (c' : Candle K), (done ++ [c'])[m]? = some c' := by
    intro c'
    rw [List.getElem?_append_right (by omega), hdl]; simp
  have hrd : ∀ (c' : Candle K) (name' key : String) (j : Nat), j < m →
      ({ cs := done ++ [c'], i := done.length, name := name' } : Ctx K).reading key (some (j : Int))
        = .ok (readingByCandle (stochApp nm n
          (stRow p sk sl (fieldAt (·.l) raw) (fieldAt (·.h) raw) (fieldAt fld raw) j) (raw.getD j default)) key) :=
    fun c' name' key j hj => Ctx.reading_at _ key j _ (hgl c' j hj)
  have hrm : ∀ (c' : Candle K) (name' key : String),
      ({ cs := done ++ [c'], i := done.length, name := name' } : Ctx K).reading key (some (m : Int))
        = .ok (readingByCandle c' key) :=
    fun c' name' key => Ctx.reading_at _ key m _ (hgm c')
  have hlen : ∀ c' : Candle K, (done ++ [c']).length = m + 1 := by intro c'; simp [hdl]
  have hiI : ((done.length : Nat) : Int) = (m : Int) := by rw [hdl]
  have hlast : ∀ key, Ctx.lastReading key done = if m = 0 then Val.none else
      readingByCandle (stochApp nm n
        (stRow p sk sl (fieldAt (·.l) raw) (fieldAt (·.h) raw) (fieldAt fld raw) (m - 1))
        (raw.getD (m - 1) default)) key := by
    intro key
    unfold Ctx.lastReading
    by_cases h0 : m = 0
    · have : done = [] := List.eq_nil_of_length_eq_zero (by omega)
      rw [this, if_pos h0]; rfl
    · rw [if_neg h0, List.getLast?_eq_getElem?, hdl, hdone (m - 1) (by omega)]
  -- the bare columns
  have hfield : ∀ (key : String) (f : Candle K → Num K), NoDot key → key ∈ Candle.attrNames →
      (∀ c : Candle K, c.attr key = some (.num (f c))) → ∀ j : Nat, j ≤ m →
      ({ cs := done ++ [c], i := done.length, name := nm } : Ctx K).reading key (some (j : Int))
        = .ok (.num (f (raw.getD j default))) := by
    intro key f hd hmem hat j hj
    by_cases hjm : j < m
    · rw [hrd c nm key j hjm, stochApp_attr nm n key hd hmem, readingByCandle_attr key hd _ _ (hat _)]
    · have : j = m := by omega
      subst this
      rw [hrm c nm key, readingByCandle_attr key hd _ _ (hat _), hcd]
  have hper : ({ cs := done ++ [c], i := done.length, name := nm } : Ctx K).readingPeriod (p : Int) input
      = decide (p ≤ m + 1) := by
    rw [Ctx.readingPeriod_col _ input m (fun j => .num (fld (raw.getD j default))) hiI (hlen c)
      (hfield input fld hin.1 hin.2 hattr) p (by omega)]
    simp
  unfold stochVal stochR
  by_cases h1 : m + 1 < p
  · -- the window is not full
    have : ¬ p ≤ m + 1 := by omega
    rw [hper]
    simp only [this, decide_false, Bool.false_eq_true, if_false, pym_pure, pym_bind_ok]
    unfold stRow
    rw [if_pos h1]
  · have hpm : p ≤ m + 1 := by omega
    rw [hper]
    simp only [hpm, decide_true, if_true]
    -- the raw value
    have hst := stochSt_eq ({ cs := done ++ [c], i := done.length, name := nm } : Ctx K) p input (by omega)
      (fun k => (raw.getD (m + 1 - p + k) default).l) (fun k => (raw.getD (m + 1 - p + k) default).h) (fld c)
      (by
        intro j hj
        have e : ((done.length : Nat) : Int) + 1 - (p : Int) + (j : Int) = ((m + 1 - p + j : Nat) : Int) := by omega
        show ({ cs := done ++ [c], i := done.length, name := nm } : Ctx K).reading "low"
          (some (((done.length : Nat) : Int) + 1 - (p : Int) + (j : Int))) = _
        rw [e]
        exact hfield "low" (·.l) noDot_low (by decide) (fun _ => rfl) _ (by omega))
      (by
        intro j hj
        have e : ((done.length : Nat) : Int) + 1 - (p : Int) + (j : Int) = ((m + 1 - p + j : Nat) : Int) := by omega
        show ({ cs := done ++ [c], i := done.length, name := nm } : Ctx K).reading "high"
          (some (((done.length : Nat) : Int) + 1 - (p : Int) + (j : Int))) = _
        rw [e]
        exact hfield "high" (·.h) noDot_high (by decide) (fun _ => rfl) _ (by omega))
      (by rw [Ctx.reading_cur done c [] nm, readingByCandle_attr input hin.1 _ _ (hattr _)])
    have hste : stochOf (fld c).toF (rmin (p - 1) (fun k => (raw.getD (m + 1 - p + k) default).l.toF))
        (rmax (p - 1) (fun k => (raw.getD (m + 1 - p + k) default).h.toF))
        = stExact p (fieldAt (·.l) raw) (fieldAt (·.h) raw) (fieldAt fld raw) m := by
      unfold stExact fieldAt
      rw [hcd]
    rw [hste] at hst
    rw [hst]
    simp only [pym_bind_ok, pym_pure]
    generalize hS : stExact p (fieldAt (·.l) raw) (fieldAt (·.h) raw) (fieldAt fld raw) = S at *
    have hno : dlookup (nm ++ "_data") c.inds = none := by rw [hc.1]; rfl
    -- `%K`
    have hk := sma_on_col
      ({ cs := done ++ [setKey true (nm ++ "_data") (sdict [("stoch", sc (Num.flt (S m)))]) c], i := done.length,
         name := nm ++ "_k" } : Ctx K) (nm ++ "_data.stoch") m sk (p - 1) (stochTK p sk) defaultRound S
      hiI (hlen _) hsk (by unfold stochTK; omega) (by unfold stochTK; omega)
      (by
        intro j hj
        by_cases hjm : j < m
        · rw [hrd _ _ _ j hjm, stochApp_field nm n hn _ "stoch" hn.dotS _ _ (hpl j (by omega))]
          unfold stRow
          by_cases hjp : j + 1 < p
          · rw [if_pos hjp, if_pos (by omega)]
          · rw [if_neg hjp, if_neg (by omega), hS]
            exact congrArg Except.ok (nested_stoch2 (F := K) _ _)
        · have : j = m := by omega
          subst this
          rw [hrm, rbc_data_field _ "stoch" _ hn.dotS c hno, if_neg (by omega)]
          exact congrArg Except.ok (nested_stoch1 (F := K) _))
      (by
        show ({ cs := done ++ [_], i := done.length, name := nm ++ "_k" } : Ctx K).prevReading (nm ++ "_k") = _
        rw [Ctx.prevReading_append_cons done _ [] _ _, hlast]
        by_cases h0 : m = 0
        · rw [if_pos h0, if_pos (by omega)]
        · rw [if_neg h0, stochApp_k nm n hn _ _ (hpl _ (by omega))]
          unfold stRow
          by_cases hjp : m - 1 + 1 < p
          · rw [if_pos hjp, if_pos (by unfold stochTK; omega)]
          · rw [if_neg hjp]
            show Except.ok (Val.s (stKSc p sk (fieldAt (·.l) raw) (fieldAt (·.h) raw) (fieldAt fld raw) (m - 1))) = _
            unfold stKSc stKStored
            rw [hS]
            by_cases hmt : m ≤ stochTK p sk
            · rw [if_pos hmt, if_pos (by omega)]
            · rw [if_neg hmt, if_neg (by omega)])
    obtain ⟨k, hk1, hk2⟩ := hk
    have hk3 : k.roundBy defaultRound
        = .s (stKSc p sk (fieldAt (·.l) raw) (fieldAt (·.h) raw) (fieldAt fld raw) m) := by
      rw [hk2]
      unfold stKSc stKStored
      rw [hS]
      by_cases hmt : m < stochTK p sk
      · rw [if_pos hmt, if_pos hmt]
      · rw [if_neg hmt, if_neg hmt]
    -- `%D`
    generalize hKS : stKSc p sk (fieldAt (·.l) raw) (fieldAt (·.h) raw) (fieldAt fld raw) m = ks at hk3
    have hd := sma_on_col
      ({ cs := done ++ [setKey true (nm ++ "_data") (sdict [("stoch", sc (Num.flt (S m))), ("k", ks)]) c],
         i := done.length, name := nm ++ "_d" } : Ctx K) (nm ++ "_data.k") m sl (stochTK p sk) (stochTD p sk sl)
      defaultRound (stKStored p sk (fieldAt (·.l) raw) (fieldAt (·.h) raw) (fieldAt fld raw))
      hiI (hlen _) hsl (by unfold stochTK stochTD; omega) (by unfold stochTD; omega)
      (by
        intro j hj
        by_cases hjm : j < m
        · rw [hrd _ _ _ j hjm, stochApp_field nm n hn _ "k" hn.dotK _ _ (hpl j (by omega))]
          unfold stRow
          by_cases hjp : j + 1 < p
          · rw [if_pos hjp, if_pos (by unfold stochTK; omega)]
          · rw [if_neg hjp]
            show Except.ok ((sdict [_, _] : Val K).nested "k") = _
            rw [nested_k2]
            unfold stKSc
            by_cases hjt : j < stochTK p sk
            · rw [if_pos hjt, if_pos hjt]
            · rw [if_neg hjt, if_neg hjt]
        · have : j = m := by omega
          subst this
          rw [hrm, rbc_data_field _ "k" _ hn.dotK c hno, nested_k2, ← hKS]
          unfold stKSc
          by_cases hjt : j < stochTK p sk
          · rw [if_pos hjt, if_pos hjt]
          · rw [if_neg hjt, if_neg hjt])
      (by
        show ({ cs := done ++ [_], i := done.length, name := nm ++ "_d" } : Ctx K).prevReading (nm ++ "_d") = _
        rw [Ctx.prevReading_append_cons done _ [] _ _, hlast]
        by_cases h0 : m = 0
        · rw [if_pos h0, if_pos (by omega)]
        · rw [if_neg h0, stochApp_d nm n hn _ _ (hpl _ (by omega))]
          unfold stRow
          by_cases hjp : m - 1 + 1 < p
          · rw [if_pos hjp, if_pos (by unfold stochTD; omega)]
          · rw [if_neg hjp]
            show Except.ok (Val.s (stDSc p sk sl (fieldAt (·.l) raw) (fieldAt (·.h) raw) (fieldAt fld raw) (m - 1))) = _
            unfold stDSc stDStored
            by_cases hmt : m ≤ stochTD p sk sl
            · rw [if_pos hmt, if_pos (by omega)]
            · rw [if_neg hmt, if_neg (by omega)])
    obtain ⟨d, hd1, hd2⟩ := hd
    have hd3 : d.roundBy defaultRound
        = .s (stDSc p sk sl (fieldAt (·.l) raw) (fieldAt (·.h) raw) (fieldAt fld raw) m) := by
      rw [hd2]
      unfold stDSc stDStored
      by_cases hmt : m < stochTD p sk sl
      · rw [if_pos hmt, if_pos hmt]
      · rw [if_neg hmt, if_neg hmt]
    unfold stochVal2
    rw [hk1]
    simp only [pym_bind_ok, hk3, toScalar_s]
    rw [hd1]
    simp only [pym_bind_ok, pym_pure, hd3, toScalar_s]
    unfold stRow
    rw [if_neg h1, ← hS, hKS]

/-! ### the whole series -/

/-- a finished STOCH candle: raw candle `c` with the row `z` stored -/
def stochOut (nm : String) (n : Nat) (c : Candle K) (z : Option (Val K × Val K × Val K) × Val K) : Candle K :=
  stochApp nm n z c

/-- the row step of `stochTree`: compute the row from the finished prefix and the raw candle, store it -/
theorem stoch_rowStep (nm : String) (n : Nat) (p slow smoothK : Int) (input : String) (hp : 2 ≤ p)
    (hs : 1 ≤ slow) (hk : 1 ≤ smoothK) (hn : StochNames nm) (hin : NoDot input ∧ input ∈ Candle.attrNames)
    (done : List (Candle K)) (c : Candle K) :
    Gen.rowStep (stochTree (F := K) nm n p slow smoothK input hp hs hk hn hin).S done c = (do
      let z ← stochVal nm p slow smoothK input done c
      pure (done ++ [stochOut nm n c z])) :=
  TComp.rowStep_spec (stochCompP nm n p slow smoothK input) _ done c

/-- the candles of a whole STOCH run, as a function of the raw candles -/
def stochDeco (nm : String) (n p sk sl : Nat) (fld : Candle K → Num K) (raw : List (Candle K)) : List (Candle K) :=
  (List.range raw.length).map fun j =>
    stochApp nm n (stRow p sk sl (fieldAt (·.l) raw) (fieldAt (·.h) raw) (fieldAt fld raw) j) (raw.getD j default)

theorem stochDeco_length (nm : String) (n p sk sl : Nat) (fld : Candle K → Num K) (raw : List (Candle K)) :
    (stochDeco nm n p sk sl fld raw).length = raw.length := by simp [stochDeco]

theorem stochDeco_getD (nm : String) (n p sk sl : Nat) (fld : Candle K → Num K) (raw : List (Candle K))
    (j : Nat) (hj : j < raw.length) :
    (stochDeco nm n p sk sl fld raw).getD j default = stochApp nm n
      (stRow p sk sl (fieldAt (·.l) raw) (fieldAt (·.h) raw) (fieldAt fld raw) j) (raw.getD j default) := by
  rw [List.getD_eq_getElem?_getD]
  simp [stochDeco, hj]

/-- **C06 for the whole STOCH series** (row-major run of `stochTree`; `period ≥ 2`, `slow ≥ 1`,
`smoothK ≥ 1`, input a candle field).  For EVERY raw list the run returns, and candle `j` of the
result is raw candle `j` carrying exactly the row `stRow … j` (a function of the raw candles). -/
theorem stoch_series (p sk sl : Nat) (hp : 2 ≤ p) (hsk : 1 ≤ sk) (hsl : 1 ≤ sl) (nm input : String)
    (fld : Candle K → Num K) (n : Nat) (hn : StochNames nm) (hin : NoDot input ∧ input ∈ Candle.attrNames)
    (hattr : ∀ c : Candle K, c.attr input = some (.num (fld c)))
    (raw : List (Candle K)) (hraw : ∀ c ∈ raw, Plain c) :
    Gen.rowMajor (stochTree (F := K) nm n (p : Int) (sl : Int) (sk : Int) input (by omega) (by omega) (by omega)
      hn hin).S raw = .ok (stochDeco nm n p sk sl fld raw) := by
  obtain ⟨rows, hl, hrun, hall⟩ := gen_series_induct
    (stochTree (F := K) nm n (p : Int) (sl : Int) (sk : Int) input (by omega) (by omega) (by omega) hn hin).S
    (stochOut nm n) (none, stochNone) raw
    (fun j r => r = stRow p sk sl (fieldAt (·.l) raw) (fieldAt (·.h) raw) (fieldAt fld raw) j) (by
      intro m hm rows hrows hQ
      have htl : (raw.take m).length = m := by simp; omega
      have hdl : (decoWith (stochOut nm n) (raw.take m) rows).length = m := by
        rw [decoWith_length _ _ _ (by rw [htl, hrows]), htl]
      rw [stoch_rowStep]
      have hstep := stoch_step p sk sl hp hsk hsl nm input fld n hn hin hattr raw hraw m hm _ hdl (by
        intro j hj
        rw [decoWith_getElem? _ _ _ (none, stochNone) j (by rw [htl, hrows]) (by rw [htl]; exact hj), hQ j hj]
        have : (raw.take m).getD j default = raw.getD j default := by
          rw [List.getD_eq_getElem?_getD, List.getD_eq_getElem?_getD, List.getElem?_take_of_lt hj]
        rw [this]; rfl)
      rw [hstep]
      exact ⟨_, rfl, rfl⟩)
  rw [hrun]
  congr 1
  apply List.ext_getElem?
  intro j
  by_cases hj : j < raw.length
  · rw [decoWith_getElem? _ _ _ (none, stochNone) j hl hj, hall j hj]
    simp [stochDeco, hj, stochOut]
  · rw [List.getElem?_eq_none (by rw [decoWith_length _ _ _ hl]; omega),
      List.getElem?_eq_none (by rw [stochDeco_length]; omega)]

/-! ### the rounding budgets -/

section budgets
variable (p sk sl : Nat) (lo hi x : Nat → K)

theorem cast_le_cast_mul (a b : Nat) (h : a ≤ b) (e : K) (he : 0 ≤ e) : (a : K) * e ≤ (b : K) * e :=
  mul_le_mul_of_nonneg_right (by exact_mod_cast h) he

/-- the stored `%K` is within `(j − t_K + 1)·ε₄` of the textbook `%K` -/
theorem stKStored_err (hp : 1 ≤ p) (hsk : 1 ≤ sk) (j : Nat) (hj : stochTK p sk ≤ j) :
    |stKStored p sk lo hi x j - stKExact p sk lo hi x j|
      ≤ ((j + 1 - stochTK p sk : Nat) : K) * eps K defaultRound :=
  smaStored_err defaultRound sk (stochTK p sk) _ hsk (by unfold stochTK; omega) j hj

/-- the stored `%D` is within `(j − t_D + 1)·ε₄` of the mean of the STORED `%K` values and hence
within `(j − t_D + 1)·ε₄ + (j − t_K + 1)·ε₄` of the textbook `%D` -/
theorem stDStored_err (hp : 2 ≤ p) (hsk : 1 ≤ sk) (hsl : 1 ≤ sl) (j : Nat) (hj : stochTD p sk sl ≤ j) :
    |stDStored p sk sl lo hi x j - stDExact p sk sl lo hi x j|
      ≤ ((j + 1 - stochTD p sk sl : Nat) : K) * eps K defaultRound
        + ((j + 1 - stochTK p sk : Nat) : K) * eps K defaultRound := by
  have h1 := smaStored_err defaultRound sl (stochTD p sk sl) (stKStored p sk lo hi x) hsl
    (by unfold stochTD; omega) j hj
  have h2 : |winMean (stKStored p sk lo hi x) sl j - stDExact p sk sl lo hi x j|
      ≤ ((j + 1 - stochTK p sk : Nat) : K) * eps K defaultRound := by
    unfold stDExact winMean
    apply mean_perturb sl hsl
    intro k hk
    have hidx : stochTK p sk ≤ j + 1 - sl + k := by unfold stochTK stochTD at *; omega
    refine le_trans (stKStored_err p sk lo hi x (by omega) hsk _ hidx) ?_
    exact cast_le_cast_mul _ _ (by unfold stochTK stochTD at *; omega) _ (eps_pos K _).le
  calc |stDStored p sk sl lo hi x j - stDExact p sk sl lo hi x j|
      = |(stDStored p sk sl lo hi x j - winMean (stKStored p sk lo hi x) sl j)
          + (winMean (stKStored p sk lo hi x) sl j - stDExact p sk sl lo hi x j)| := by ring_nf
    _ ≤ _ := abs_add_le _ _
    _ ≤ _ := add_le_add h1 h2

/-! ### ranges of the textbook values -/

theorem stExact_range (hp : 1 ≤ p) (j : Nat) (hj : p ≤ j + 1) (hw : lo j ≤ x j ∧ x j ≤ hi j) :
    0 ≤ stExact p lo hi x j ∧ stExact p lo hi x j ≤ 100 := by
  unfold stExact
  apply stochOf_range
  · have := rmin_le (p - 1) (fun k => lo (j + 1 - p + k)) (p - 1) (le_refl _)
    have e : j + 1 - p + (p - 1) = j := by omega
    simp only [e] at this
    exact le_trans this hw.1
  · have := le_rmax (p - 1) (fun k => hi (j + 1 - p + k)) (p - 1) (le_refl _)
    have e : j + 1 - p + (p - 1) = j := by omega
    simp only [e] at this
    exact le_trans hw.2 this

theorem stKExact_range (hp : 1 ≤ p) (hsk : 1 ≤ sk) (j : Nat) (hj : stochTK p sk ≤ j)
    (hw : ∀ i, i ≤ j → lo i ≤ x i ∧ x i ≤ hi i) :
    0 ≤ stKExact p sk lo hi x j ∧ stKExact p sk lo hi x j ≤ 100 := by
  unfold stKExact winMean
  apply mean_between sk _ 0 100 hsk
  intro k hk
  unfold stochTK at hj
  exact stExact_range p lo hi x hp _ (by omega) (hw _ (by omega))

theorem stDExact_range (hp : 1 ≤ p) (hsk : 1 ≤ sk) (hsl : 1 ≤ sl) (j : Nat) (hj : stochTD p sk sl ≤ j)
    (hw : ∀ i, i ≤ j → lo i ≤ x i ∧ x i ≤ hi i) :
    0 ≤ stDExact p sk sl lo hi x j ∧ stDExact p sk sl lo hi x j ≤ 100 := by
  unfold stDExact winMean
  apply mean_between sl _ 0 100 hsl
  intro k hk
  unfold stochTD at hj
  exact stKExact_range p sk lo hi x hp hsk _ (by unfold stochTK; omega) (fun i hi' => hw i (by omega))

end budgets

/-! ### the statement, reading by reading -/

/-- a stored value against a textbook series: `None` where the series has no value, otherwise a
float within `b` of it -/
def Within (o : Option K) (b : K) (v : Val K) : Prop :=
  match o with
  | none => v = .none
  | some e => ∃ y, v = .flt y ∧ |y - e| ≤ b

/-- rounding to `n` decimals adds at most `ε_n` -/
theorem Within.round (n : Nat) (o : Option K) (b : K) (v : Val K) (h : Within o b v) :
    Within o (eps K n + b) (v.roundBy n) := by
  cases o with
  | none => have h' : v = .none := h
            subst h'; exact (rfl : (Val.none : Val K).roundBy n = .none)
  | some e =>
    obtain ⟨y, rfl, hb⟩ := h
    refine ⟨PyF.round n y, rfl, ?_⟩
    calc |PyF.round n y - e| = |(PyF.round n y - y) + (y - e)| := by ring_nf
      _ ≤ _ := abs_add_le _ _
      _ ≤ _ := add_le_add (LawfulPyF.round_err n y) hb

/-- a value within `b` of a textbook value in `[0, 100]` lies in `[−b, 100 + b]` -/
theorem Within.range (e b : K) (v : Val K) (h : Within (some e) b v) (he : 0 ≤ e ∧ e ≤ 100) :
    ∃ y, v = .flt y ∧ -b ≤ y ∧ y ≤ 100 + b := by
  obtain ⟨y, hy, hb⟩ := h
  obtain ⟨h1, h2⟩ := abs_le.1 hb
  exact ⟨y, hy, by linarith, by linarith⟩

/-- budget of the stored `%K` at index `j`: one `ε₄` per stored step since its first reading -/
def stochBK (K : Type) [Field K] (p sk j : Nat) : K := ((j + 1 - stochTK p sk : Nat) : K) * eps K defaultRound
/-- budget of the stored `%D` at index `j`: its own stored steps plus the budget of the `%K`
values it averages -/
def stochBD (K : Type) [Field K] (p sk sl j : Nat) : K :=
  ((j + 1 - stochTD p sk sl : Nat) : K) * eps K defaultRound + stochBK K p sk j

/-- **what the whole-series theorem says of candle `j`** (`own` = reading under `name`, `data` =
entry under `name_data`, `k` / `d` = readings of the helpers `name_k` / `name_d`):
* `data` is absent before index `p − 1`; from there on it is the dict `{stoch, k}` whose `stoch` is
  EXACTLY `100·(x_j − LL)/(HH − LL)` (`Managed.set_reading` does not round) and whose `k` is the
  reading of `name_k`;
* `name_k` is `None` before `t_K = p + smoothK − 2`, then within `(j − t_K + 1)·ε₄` of the mean of the
  last `smoothK` raw values; `name_d` is `None` before `t_D = t_K + slow − 1`, then within
  `(j − t_D + 1)·ε₄ + (j − t_K + 1)·ε₄` of the mean of the last `slow` textbook `%K` values;
* `own` is ALWAYS a dict `{stoch, k, d}` (three `None`s during warm-up – never a bare `None`); its
  fields are the roundings to `n` decimals of the raw value and of the two helper readings. -/
structure StochOK (n p sk sl : Nat) (lo hi x : Nat → K) (j : Nat) (own data k d : Val K) : Prop where
  data_none : j + 1 < p → data = .none
  data_some : p ≤ j + 1 → ∃ ks, data = sdict [("stoch", sc (.flt (stExact p lo hi x j))), ("k", ks)] ∧ k = .s ks
  k_ok : Within (stochKSeries p sk lo hi x j) (stochBK K p sk j) k
  d_ok : Within (stochDSeries p sk sl lo hi x j) (stochBD K p sk sl j) d
  own_dict : ∃ a b e, own = .dict [("stoch", a), ("k", b), ("d", e)]
  own_stoch : Within (stochSeries p lo hi x j) (eps K n) (own.nested "stoch")
  own_stoch_round : p ≤ j + 1 → own.nested "stoch" = .flt (PyF.round n (stExact p lo hi x j))
  own_k : own.nested "k" = k.roundBy n
  own_d : own.nested "d" = d.roundBy n
  own_k_ok : Within (stochKSeries p sk lo hi x j) (eps K n + stochBK K p sk j) (own.nested "k")
  own_d_ok : Within (stochDSeries p sk sl lo hi x j) (eps K n + stochBD K p sk sl j) (own.nested "d")

/-- the parts of a row -/
def rowData (z : Option (Val K × Val K × Val K) × Val K) : Val K :=
  match z.1 with | none => .none | some (a, _, _) => a
def rowK (z : Option (Val K × Val K × Val K) × Val K) : Val K :=
  match z.1 with | none => .none | some (_, b, _) => b
def rowD (z : Option (Val K × Val K × Val K) × Val K) : Val K :=
  match z.1 with | none => .none | some (_, _, e) => e

theorem stKSc_within (p sk : Nat) (lo hi x : Nat → K) (hp : 1 ≤ p) (hsk : 1 ≤ sk) (j : Nat) :
    Within (stochKSeries p sk lo hi x j) (stochBK K p sk j) (.s (stKSc p sk lo hi x j)) := by
  unfold stochKSeries stKSc
  by_cases h : j < stochTK p sk
  · rw [if_pos h, if_pos h]; exact (rfl : (Val.none : Val K) = .none)
  · rw [if_neg h, if_neg h]
    exact ⟨_, rfl, stKStored_err p sk lo hi x hp hsk j (by omega)⟩

theorem stDSc_within (p sk sl : Nat) (lo hi x : Nat → K) (hp : 2 ≤ p) (hsk : 1 ≤ sk) (hsl : 1 ≤ sl) (j : Nat) :
    Within (stochDSeries p sk sl lo hi x j) (stochBD K p sk sl j) (.s (stDSc p sk sl lo hi x j)) := by
  unfold stochDSeries stDSc
  by_cases h : j < stochTD p sk sl
  · rw [if_pos h, if_pos h]; exact (rfl : (Val.none : Val K) = .none)
  · rw [if_neg h, if_neg h]
    exact ⟨_, rfl, stDStored_err p sk sl lo hi x hp hsk hsl j (by omega)⟩

/-- every row satisfies the statement -/
theorem stRow_ok (n p sk sl : Nat) (lo hi x : Nat → K) (hp : 2 ≤ p) (hsk : 1 ≤ sk) (hsl : 1 ≤ sl) (j : Nat) :
    StochOK n p sk sl lo hi x j ((stRow p sk sl lo hi x j).2.roundBy n) (rowData (stRow p sk sl lo hi x j))
      (rowK (stRow p sk sl lo hi x j)) (rowD (stRow p sk sl lo hi x j)) := by
  have hK := stKSc_within p sk lo hi x (by omega) hsk j
  have hD := stDSc_within p sk sl lo hi x hp hsk hsl j
  by_cases h : j + 1 < p
  · have e : stRow p sk sl lo hi x j = (none, stochNone) := by unfold stRow; rw [if_pos h]
    have hk0 : stochKSeries p sk lo hi x j = none := by
      unfold stochKSeries; rw [if_pos (by unfold stochTK; omega)]
    have hd0 : stochDSeries p sk sl lo hi x j = none := by
      unfold stochDSeries; rw [if_pos (by unfold stochTD; omega)]
    have hs0 : stochSeries p lo hi x j = none := by unfold stochSeries; rw [if_pos h]
    rw [e]
    exact
      { data_none := fun _ => rfl
        data_some := fun h' => by omega
        k_ok := by rw [hk0]; show (_ : Val K) = _; rfl
        d_ok := by rw [hd0]; show (_ : Val K) = _; rfl
        own_dict := ⟨_, _, _, rfl⟩
        own_stoch := by rw [hs0]; show (_ : Val K) = _; rfl
        own_stoch_round := fun h' => by omega
        own_k := rfl
        own_d := rfl
        own_k_ok := by rw [hk0]; show (_ : Val K) = _; rfl
        own_d_ok := by rw [hd0]; show (_ : Val K) = _; rfl }
  · have e : stRow p sk sl lo hi x j =
        (some (sdict [("stoch", sc (.flt (stExact p lo hi x j))), ("k", stKSc p sk lo hi x j)],
            .s (stKSc p sk lo hi x j), .s (stDSc p sk sl lo hi x j)),
         sdict [("stoch", sc (.flt (stExact p lo hi x j))), ("k", stKSc p sk lo hi x j),
            ("d", stDSc p sk sl lo hi x j)]) := by unfold stRow; rw [if_neg h]
    have hs1 : stochSeries p lo hi x j = some (stExact p lo hi x j) := by unfold stochSeries; rw [if_neg h]
    have eS : ((sdict [("stoch", sc (.flt (stExact p lo hi x j))), ("k", stKSc p sk lo hi x j),
            ("d", stDSc p sk sl lo hi x j)] : Val K).roundBy n).nested "stoch"
        = .flt (PyF.round n (stExact p lo hi x j)) := by
      simp [sdict, sc, Val.roundBy, Val.nested, dlookup, Scalar.roundBy, Num.roundBy]
    have eK : ((sdict [("stoch", sc (.flt (stExact p lo hi x j))), ("k", stKSc p sk lo hi x j),
            ("d", stDSc p sk sl lo hi x j)] : Val K).roundBy n).nested "k"
        = (Val.s (stKSc p sk lo hi x j)).roundBy n := by
      simp [sdict, sc, Val.roundBy, Val.nested, dlookup]
    have eD : ((sdict [("stoch", sc (.flt (stExact p lo hi x j))), ("k", stKSc p sk lo hi x j),
            ("d", stDSc p sk sl lo hi x j)] : Val K).roundBy n).nested "d"
        = (Val.s (stDSc p sk sl lo hi x j)).roundBy n := by
      simp [sdict, sc, Val.roundBy, Val.nested, dlookup]
    rw [e]
    refine ⟨fun h' => by omega, fun _ => ⟨_, rfl, rfl⟩, hK, hD, ⟨_, _, _, rfl⟩, ?_, fun _ => eS, eK, eD, ?_, ?_⟩
    · show Within _ _ (Val.nested _ "stoch")
      rw [eS, hs1]
      exact ⟨_, rfl, LawfulPyF.round_err n _⟩
    · show Within _ _ (Val.nested _ "k")
      rw [eK]; exact Within.round n _ _ _ hK
    · show Within _ _ (Val.nested _ "d")
      rw [eD]; exact Within.round n _ _ _ hD

/-- **STOCH, whole series, candle by candle**: candle `j` of the run satisfies `StochOK` -/
theorem stochDeco_ok (p sk sl : Nat) (hp : 2 ≤ p) (hsk : 1 ≤ sk) (hsl : 1 ≤ sl) (nm : String)
    (fld : Candle K → Num K) (n : Nat) (hn : StochNames nm) (raw : List (Candle K)) (hraw : ∀ c ∈ raw, Plain c)
    (j : Nat) (hj : j < raw.length) :
    StochOK n p sk sl (fieldAt (·.l) raw) (fieldAt (·.h) raw) (fieldAt fld raw) j
      (readingByCandle ((stochDeco nm n p sk sl fld raw).getD j default) nm)
      (readingByCandle ((stochDeco nm n p sk sl fld raw).getD j default) (nm ++ "_data"))
      (readingByCandle ((stochDeco nm n p sk sl fld raw).getD j default) (nm ++ "_k"))
      (readingByCandle ((stochDeco nm n p sk sl fld raw).getD j default) (nm ++ "_d")) := by
  have hpl := getD_plain raw hraw j hj
  rw [stochDeco_getD _ _ _ _ _ _ _ j hj, stochApp_own nm n hn, stochApp_data nm n hn _ _ hpl,
    stochApp_k nm n hn _ _ hpl, stochApp_d nm n hn _ _ hpl]
  exact stRow_ok n p sk sl _ _ _ hp hsk hsl j

/-- the data fields read through their dotted names, as the SMA helpers read them -/
theorem stochDeco_fields (p sk sl : Nat) (nm : String) (fld : Candle K → Num K) (n : Nat) (hn : StochNames nm)
    (raw : List (Candle K)) (hraw : ∀ c ∈ raw, Plain c) (j : Nat) (hj : j < raw.length) :
    readingByCandle ((stochDeco nm n p sk sl fld raw).getD j default) (nm ++ "_data.stoch")
      = (if j + 1 < p then Val.none
         else .flt (stExact p (fieldAt (·.l) raw) (fieldAt (·.h) raw) (fieldAt fld raw) j)) ∧
    readingByCandle ((stochDeco nm n p sk sl fld raw).getD j default) (nm ++ "_data.k")
      = readingByCandle ((stochDeco nm n p sk sl fld raw).getD j default) (nm ++ "_k") := by
  have hpl := getD_plain raw hraw j hj
  rw [stochDeco_getD _ _ _ _ _ _ _ j hj, stochApp_field nm n hn _ "stoch" hn.dotS _ _ hpl,
    stochApp_field nm n hn _ "k" hn.dotK _ _ hpl, stochApp_k nm n hn _ _ hpl]
  unfold stRow
  by_cases h : j + 1 < p
  · rw [if_pos h, if_pos h]; exact ⟨rfl, rfl⟩
  · rw [if_neg h, if_neg h]
    exact ⟨nested_stoch2 (F := K) _ _, nested_k2 _ _⟩

/-- **ranges**: on candles with `low ≤ input ≤ high` the textbook values lie in `[0, 100]`; the own
`stoch` field lies in `[0, 100]` exactly (monotone rounding fixes `0` and `100`), the helper
readings and the own `k`, `d` fields lie in `[−b, 100 + b]` for their budget `b` -/
theorem stoch_ranges (n p sk sl : Nat) (lo hi x : Nat → K) (hp : 2 ≤ p) (hsk : 1 ≤ sk) (hsl : 1 ≤ sl) (j : Nat)
    (hw : ∀ i, i ≤ j → lo i ≤ x i ∧ x i ≤ hi i) (own data k d : Val K)
    (h : StochOK n p sk sl lo hi x j own data k d) :
    (p ≤ j + 1 → ∃ y, own.nested "stoch" = .flt y ∧ 0 ≤ y ∧ y ≤ 100) ∧
    (stochTK p sk ≤ j →
      (∃ y, k = .flt y ∧ -stochBK K p sk j ≤ y ∧ y ≤ 100 + stochBK K p sk j) ∧
      (∃ y, own.nested "k" = .flt y ∧ -(eps K n + stochBK K p sk j) ≤ y ∧ y ≤ 100 + (eps K n + stochBK K p sk j))) ∧
    (stochTD p sk sl ≤ j →
      (∃ y, d = .flt y ∧ -stochBD K p sk sl j ≤ y ∧ y ≤ 100 + stochBD K p sk sl j) ∧
      (∃ y, own.nested "d" = .flt y ∧ -(eps K n + stochBD K p sk sl j) ≤ y ∧
        y ≤ 100 + (eps K n + stochBD K p sk sl j))) := by
  refine ⟨fun hj => ?_, fun hj => ?_, fun hj => ?_⟩
  · have hr := stExact_range p lo hi x (by omega) j hj (hw j (le_refl j))
    refine ⟨_, h.own_stoch_round hj, ?_, ?_⟩
    · rw [← round_zero (K := K) n]; exact LawfulPyF.round_mono n hr.1
    · rw [← round_hundred (K := K) n]; exact LawfulPyF.round_mono n hr.2
  · have hr := stKExact_range p sk lo hi x (by omega) hsk j hj hw
    have e : stochKSeries p sk lo hi x j = some (stKExact p sk lo hi x j) := by
      unfold stochKSeries; rw [if_neg (by omega)]
    have h1 := h.k_ok
    have h2 := h.own_k_ok
    rw [e] at h1 h2
    exact ⟨Within.range _ _ _ h1 hr, Within.range _ _ _ h2 hr⟩
  · have hr := stDExact_range p sk sl lo hi x (by omega) hsk hsl j hj hw
    have e : stochDSeries p sk sl lo hi x j = some (stDExact p sk sl lo hi x j) := by
      unfold stochDSeries; rw [if_neg (by omega)]
    have h1 := h.d_ok
    have h2 := h.own_d_ok
    rw [e] at h1 h2
    exact ⟨Within.range _ _ _ h1 hr, Within.range _ _ _ h2 hr⟩

/-! ### through the engine -/

/-- **STOCH, whole series, through the engine**: `calculate()` on the raw candles returns exactly
the candles of `stoch_series` -/
theorem stoch_series_engine (p sk sl : Nat) (hp : 2 ≤ p) (hsk : 1 ≤ sk) (hsl : 1 ≤ sl) (nm input : String)
    (fld : Candle K → Num K) (n : Nat) (hn : StochNames nm) (hin : NoDot input ∧ input ∈ Candle.attrNames)
    (hattr : ∀ c : Candle K, c.attr input = some (.num (fld c)))
    (raw : List (Candle K)) (hraw : ∀ c ∈ raw, Plain c) :
    engineCalc (mkTop (.stoch (p : Int) (sl : Int) (sk : Int) input : Kind K) nm n) raw
      = .ok (stochDeco nm n p sk sl fld raw) := by
  have hrun := stoch_series p sk sl hp hsk hsl nm input fld n hn hin hattr raw hraw
  have := ((stochTree (F := K) nm n (p : Int) (sl : Int) (sk : Int) input (by omega) (by omega) (by omega)
    hn hin).engine [] raw [] (stochDeco nm n p sk sl fld raw) rfl (by simp) hraw).2 (by simpa using hrun)
  simpa using this

/-- **… and through the object**: building the indicator over the raw candles and calling
`calculate()` once (the batch run, `C01.runBatch`) returns exactly the candles of `stoch_series` -/
theorem stoch_series_batch (p sk sl : Nat) (hp : 2 ≤ p) (hsk : 1 ≤ sk) (hsl : 1 ≤ sl) (nm input : String)
    (fld : Candle K → Num K) (n : Nat) (hn : StochNames nm) (hin : NoDot input ∧ input ∈ Candle.attrNames)
    (hattr : ∀ c : Candle K, c.attr input = some (.num (fld c)))
    (raw : List (Candle K)) (hraw : ∀ c ∈ raw, Plain c) :
    candlesOf (runIndicator (mkTop (.stoch (p : Int) (sl : Int) (sk : Int) input : Kind K) nm n) {} raw [])
      = .ok (stochDeco nm n p sk sl fld raw) :=
  ((stochTree (F := K) nm n (p : Int) (sl : Int) (sk : Int) input (by omega) (by omega) (by omega)
    hn hin).batch_iff (MgrSpec.base K) raw hraw _).2
    (stoch_series p sk sl hp hsk hsl nm input fld n hn hin hattr raw hraw)

/-- **whenever the batch run returns, its candles carry exactly those readings** (and it does
return: `stoch_series_batch`) -/
theorem stoch_batch_readings (p sk sl : Nat) (hp : 2 ≤ p) (hsk : 1 ≤ sk) (hsl : 1 ≤ sl) (nm input : String)
    (fld : Candle K → Num K) (n : Nat) (hn : StochNames nm) (hin : NoDot input ∧ input ∈ Candle.attrNames)
    (hattr : ∀ c : Candle K, c.attr input = some (.num (fld c)))
    (raw : List (Candle K)) (hraw : ∀ c ∈ raw, Plain c) (out : List (Candle K))
    (hout : candlesOf (runIndicator (mkTop (.stoch (p : Int) (sl : Int) (sk : Int) input : Kind K) nm n) {} raw [])
      = .ok out) :
    out.length = raw.length ∧
    ∀ j, j < raw.length →
      StochOK n p sk sl (fieldAt (·.l) raw) (fieldAt (·.h) raw) (fieldAt fld raw) j
        (readingByCandle (out.getD j default) nm) (readingByCandle (out.getD j default) (nm ++ "_data"))
        (readingByCandle (out.getD j default) (nm ++ "_k")) (readingByCandle (out.getD j default) (nm ++ "_d")) := by
  rw [stoch_series_batch p sk sl hp hsk hsl nm input fld n hn hin hattr raw hraw] at hout
  cases hout
  exact ⟨stochDeco_length _ _ _ _ _ _ _, fun j hj => stochDeco_ok p sk sl hp hsk hsl nm fld n hn raw hraw j hj⟩

/-- **… for every append schedule**: whenever a live history (construction over `init`,
`calculate()`, then any appends) returns, its candles are those of `stoch_series` over the whole
stream -/
theorem stoch_series_live (p sk sl : Nat) (hp : 2 ≤ p) (hsk : 1 ≤ sk) (hsl : 1 ≤ sl) (nm input : String)
    (fld : Candle K → Num K) (n : Nat) (hn : StochNames nm) (hin : NoDot input ∧ input ∈ Candle.attrNames)
    (hattr : ∀ c : Candle K, c.attr input = some (.num (fld c)))
    (init : List (Candle K)) (chunks : List (List (Candle K)))
    (hraw : ∀ c ∈ init ++ chunks.flatten, Plain c) (snap : List (Candle K))
    (hsnap : candlesOf (runIndicator (mkTop (.stoch (p : Int) (sl : Int) (sk : Int) input : Kind K) nm n) {}
      init chunks) = .ok snap) :
    snap = stochDeco nm n p sk sl fld (init ++ chunks.flatten) := by
  have hrun := stoch_series p sk sl hp hsk hsl nm input fld n hn hin hattr _ hraw
  have h := (stochTree (F := K) nm n (p : Int) (sl : Int) (sk : Int) input (by omega) (by omega) (by omega)
    hn hin).live_refines (MgrSpec.base K) init chunks hraw snap hsnap
  have h' : Gen.rowMajor (stochTree (F := K) nm n (p : Int) (sl : Int) (sk : Int) input (by omega) (by omega)
    (by omega) hn hin).S (init ++ chunks.flatten) = .ok snap := h
  rw [hrun] at h'
  exact (Except.ok.inj h').symm

/-! ### the default rounding: the own `k` / `d` fields ARE the helper readings -/

theorem smaStored_round (n q t0 : Nat) (g : Nat → K) (j : Nat) :
    PyF.round n (smaStored n q t0 g j) = smaStored n q t0 g j := by
  cases j with
  | zero => exact LawfulPyF.round_idem n _
  | succ i =>
    simp only [smaStored]
    split <;> exact LawfulPyF.round_idem n _

/-- with the node's `rounding` equal to the helpers' (`defaultRound = 4`, the library default) the
second rounding does nothing: the own `k` and `d` fields equal the readings of `name_k` / `name_d` -/
theorem stRow_default_round (p sk sl : Nat) (lo hi x : Nat → K) (j : Nat) :
    ((stRow p sk sl lo hi x j).2.roundBy defaultRound).nested "k" = rowK (stRow p sk sl lo hi x j) ∧
    ((stRow p sk sl lo hi x j).2.roundBy defaultRound).nested "d" = rowD (stRow p sk sl lo hi x j) := by
  unfold stRow
  by_cases h : j + 1 < p
  · rw [if_pos h]; exact ⟨rfl, rfl⟩
  · rw [if_neg h]
    have hk : (stKSc p sk lo hi x j).roundBy defaultRound = stKSc p sk lo hi x j := by
      unfold stKSc
      split
      · rfl
      · show Scalar.num (.flt (PyF.round defaultRound _)) = _
        unfold stKStored; rw [smaStored_round]
    have hd : (stDSc p sk sl lo hi x j).roundBy defaultRound = stDSc p sk sl lo hi x j := by
      unfold stDSc
      split
      · rfl
      · show Scalar.num (.flt (PyF.round defaultRound _)) = _
        unfold stDStored; rw [smaStored_round]
    constructor
    · simp [sdict, sc, Val.roundBy, Val.nested, dlookup, rowK, hk]
    · simp [sdict, sc, Val.roundBy, Val.nested, dlookup, rowD, hd]

/-! ### non-vacuity: the five demo candles of HexProps/C04.lean over ℚ -/

/-- the five raw candles `C04.demoRaw` -/
def stochDemoRaw : List (Candle ℚ) :=
  [Demo.mk 10 12 9 11 100, Demo.mk 11 13 10 12 200, Demo.mk 12 15 11 14 300, Demo.mk 14 16 13 15 0,
   Demo.mk 15 15 15 15 0]

theorem stochDemoRaw_plain : ∀ c ∈ stochDemoRaw, Plain c := by
  intro c hc
  simp only [stochDemoRaw, List.mem_cons, List.not_mem_nil, or_false] at hc
  rcases hc with rfl | rfl | rfl | rfl | rfl <;> exact ⟨rfl, rfl⟩

/-- the name hypotheses hold for the default name of `STOCH(period=2)` -/
theorem stochNames_demo : StochNames "STOCH_2" :=
  ⟨by decide, by decide, by decide, by decide, by decide, by decide, by decide, by decide, by decide, by decide⟩

theorem round_grid_rat (n : Nat) (k : Int) (q : ℚ) (h : q = (k : ℚ) / 10 ^ n) : PyF.round n q = q := by
  rw [h]; exact LawfulPyF.round_grid n k

/-- `STOCH(period=2, slow_period=2, smoothing_k=2)` over the demo candles: the row-major run … -/
example : Gen.rowMajor (stochTree (F := ℚ) "STOCH_2" 4 ((2 : Nat) : Int) ((2 : Nat) : Int) ((2 : Nat) : Int) "close"
      (by decide) (by decide) (by decide) stochNames_demo ⟨noDot_close, by decide⟩).S stochDemoRaw
    = .ok (stochDeco "STOCH_2" 4 2 2 2 (·.c) stochDemoRaw) :=
  stoch_series 2 2 2 (by norm_num) (by norm_num) (by norm_num) "STOCH_2" "close" (·.c) 4 stochNames_demo
    ⟨noDot_close, by decide⟩ (fun _ => rfl) stochDemoRaw stochDemoRaw_plain

/-- … and the batch run -/
example : candlesOf (runIndicator (mkTop (.stoch ((2 : Nat) : Int) ((2 : Nat) : Int) ((2 : Nat) : Int) "close" : Kind ℚ)
      "STOCH_2" 4) {} stochDemoRaw [])
    = .ok (stochDeco "STOCH_2" 4 2 2 2 (·.c) stochDemoRaw) :=
  stoch_series_batch 2 2 2 (by norm_num) (by norm_num) (by norm_num) "STOCH_2" "close" (·.c) 4 stochNames_demo
    ⟨noDot_close, by decide⟩ (fun _ => rfl) stochDemoRaw stochDemoRaw_plain

/-- the raw values on the demo candles (closes 11, 12, 14, 15, 15): `–, 75, 80, 80, 66.6…` -/
abbrev demoS : Nat → ℚ :=
  stExact 2 (fieldAt (·.l) stochDemoRaw) (fieldAt (·.h) stochDemoRaw) (fieldAt (·.c) stochDemoRaw)

theorem demoS1 : demoS 1 = 75 := by
  norm_num [demoS, stExact, stochOf, rmin, rmax, fieldAt, stochDemoRaw, Demo.mk]
theorem demoS2 : demoS 2 = 80 := by
  norm_num [demoS, stExact, stochOf, rmin, rmax, fieldAt, stochDemoRaw, Demo.mk]
theorem demoS3 : demoS 3 = 80 := by
  norm_num [demoS, stExact, stochOf, rmin, rmax, fieldAt, stochDemoRaw, Demo.mk]
theorem demoS4 : demoS 4 = 200 / 3 := by
  norm_num [demoS, stExact, stochOf, rmin, rmax, fieldAt, stochDemoRaw, Demo.mk]

example : (List.range 5).map (stochSeries 2 (fieldAt (·.l) stochDemoRaw) (fieldAt (·.h) stochDemoRaw)
    (fieldAt (·.c) stochDemoRaw)) = [none, some 75, some 80, some 80, some (200 / 3)] := by
  simp [List.range, List.range.loop, stochSeries, demoS1, demoS2, demoS3, demoS4]

example : stochTK 2 2 = 2 ∧ stochTD 2 2 2 = 3 := ⟨rfl, rfl⟩

/-- the stored `%K` at index 2 (first reading) and 3 (running form) -/
theorem demoK2 : stKStored 2 2 (fieldAt (·.l) stochDemoRaw) (fieldAt (·.h) stochDemoRaw) (fieldAt (·.c) stochDemoRaw) 2
    = 155 / 2 := by
  unfold stKStored
  rw [smaStored_seed _ _ _ _ _ (by decide)]
  have : winMean demoS 2 (stochTK 2 2) = 155 / 2 := by
    show winMean demoS 2 2 = _
    simp only [winMean, rsum, List.range_succ, List.range_zero, List.map_append, List.map_cons, List.map_nil,
      List.nil_append, List.sum_append, List.sum_cons, List.sum_nil]
    norm_num [demoS1, demoS2]
  rw [this]
  exact round_grid_rat _ 775000 _ (by norm_num [defaultRound])

theorem demoK3 : stKStored 2 2 (fieldAt (·.l) stochDemoRaw) (fieldAt (·.h) stochDemoRaw) (fieldAt (·.c) stochDemoRaw) 3
    = 80 := by
  have h2 := demoK2
  unfold stKStored at h2 ⊢
  rw [smaStored_step _ _ _ _ _ (by decide)]
  show PyF.round defaultRound (smaStored defaultRound 2 (stochTK 2 2) demoS 2 - (demoS 1 - demoS 3) / ((2 : Nat) : ℚ)) = 80
  rw [h2, demoS1, demoS3]
  have e : (155 / 2 - (75 - 80) / ((2 : Nat) : ℚ) : ℚ) = 80 := by norm_num
  rw [e]
  exact round_grid_rat _ 800000 _ (by norm_num [defaultRound])

theorem demoD3 : stDStored 2 2 2 (fieldAt (·.l) stochDemoRaw) (fieldAt (·.h) stochDemoRaw) (fieldAt (·.c) stochDemoRaw) 3
    = 315 / 4 := by
  unfold stDStored
  rw [smaStored_seed _ _ _ _ _ (by decide)]
  have : winMean (stKStored 2 2 (fieldAt (·.l) stochDemoRaw) (fieldAt (·.h) stochDemoRaw) (fieldAt (·.c) stochDemoRaw))
      2 (stochTD 2 2 2) = 315 / 4 := by
    show winMean _ 2 3 = _
    simp only [winMean, rsum, List.range_succ, List.range_zero, List.map_append, List.map_cons, List.map_nil,
      List.nil_append, List.sum_append, List.sum_cons, List.sum_nil]
    norm_num [demoK2, demoK3]
  rw [this]
  exact round_grid_rat _ 787500 _ (by norm_num [defaultRound])

/-- the batch run on the demo candles, read off the candles: on candle 0 the own reading is the
dict of three `None`s and no helper entry exists; on candle 3 the data entry is
`{stoch: 80.0, k: 80.0}`, `STOCH_2_k = 80.0`, `STOCH_2_d = 78.75` and the own reading is
`{stoch: 80.0, k: 80.0, d: 78.75}` -/
example : ∃ out : List (Candle ℚ),
    candlesOf (runIndicator (mkTop (.stoch ((2 : Nat) : Int) ((2 : Nat) : Int) ((2 : Nat) : Int) "close" : Kind ℚ)
      "STOCH_2" 4) {} stochDemoRaw []) = .ok out ∧
    readingByCandle (out.getD 0 default) "STOCH_2" = .dict [("stoch", .none), ("k", .none), ("d", .none)] ∧
    readingByCandle (out.getD 0 default) ("STOCH_2" ++ "_data") = .none ∧
    readingByCandle (out.getD 3 default) ("STOCH_2" ++ "_data")
      = .dict [("stoch", .num (.flt 80)), ("k", .num (.flt 80))] ∧
    readingByCandle (out.getD 3 default) ("STOCH_2" ++ "_k") = .flt 80 ∧
    readingByCandle (out.getD 3 default) ("STOCH_2" ++ "_d") = .flt (315 / 4) ∧
    readingByCandle (out.getD 3 default) "STOCH_2"
      = .dict [("stoch", .num (.flt 80)), ("k", .num (.flt 80)), ("d", .num (.flt (315 / 4)))] := by
  refine ⟨_, stoch_series_batch 2 2 2 (by norm_num) (by norm_num) (by norm_num) "STOCH_2" "close" (·.c) 4
    stochNames_demo ⟨noDot_close, by decide⟩ (fun _ => rfl) stochDemoRaw stochDemoRaw_plain, ?_⟩
  have hp : ∀ j, j < stochDemoRaw.length → Plain (stochDemoRaw.getD j default) :=
    fun j hj => getD_plain _ stochDemoRaw_plain j hj
  have r0 : stRow 2 2 2 (fieldAt (·.l) stochDemoRaw) (fieldAt (·.h) stochDemoRaw) (fieldAt (·.c) stochDemoRaw) 0
      = (none, stochNone) := by unfold stRow; rw [if_pos (by decide)]
  have r3 : stRow 2 2 2 (fieldAt (·.l) stochDemoRaw) (fieldAt (·.h) stochDemoRaw) (fieldAt (·.c) stochDemoRaw) 3
      = (some (sdict [("stoch", sc (.flt 80)), ("k", .num (.flt 80))], .flt 80, .flt (315 / 4)),
         sdict [("stoch", sc (.flt 80)), ("k", .num (.flt 80)), ("d", .num (.flt (315 / 4)))]) := by
    unfold stRow stKSc stDSc
    rw [if_neg (by decide), if_neg (by decide), if_neg (by decide), demoK3, demoD3]
    have := demoS3
    unfold demoS at this
    rw [this]
  have e80 : PyF.round 4 (80 : ℚ) = 80 := round_grid_rat _ 800000 _ (by norm_num)
  have e78 : PyF.round 4 (315 / 4 : ℚ) = 315 / 4 := round_grid_rat _ 787500 _ (by norm_num)
  rw [stochDeco_getD _ _ _ _ _ _ _ 0 (by decide), stochDeco_getD _ _ _ _ _ _ _ 3 (by decide),
    stochApp_own _ _ stochNames_demo, stochApp_own _ _ stochNames_demo,
    stochApp_data _ _ stochNames_demo _ _ (hp 0 (by decide)), stochApp_data _ _ stochNames_demo _ _ (hp 3 (by decide)),
    stochApp_k _ _ stochNames_demo _ _ (hp 3 (by decide)), stochApp_d _ _ stochNames_demo _ _ (hp 3 (by decide)),
    r0, r3]
  refine ⟨rfl, rfl, rfl, rfl, rfl, ?_⟩
  simp [sdict, sc, Val.roundBy, Scalar.roundBy, Num.roundBy, e80, e78]

end Numeric
end Hex

#print axioms Hex.Numeric.stoch_series
#print axioms Hex.Numeric.stochDeco_ok
#print axioms Hex.Numeric.stoch_ranges
#print axioms Hex.Numeric.stoch_series_engine
#print axioms Hex.Numeric.stoch_series_batch
#print axioms Hex.Numeric.stoch_batch_readings
#print axioms Hex.Numeric.stoch_series_live
#print axioms Hex.Numeric.stKStored_err
#print axioms Hex.Numeric.stDStored_err

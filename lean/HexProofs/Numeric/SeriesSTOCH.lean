import HexProofs.Framework.Gen.STOCH
import HexProofs.Numeric.Stoch
import HexProofs.Numeric.SeriesRSI
import HexProofs.Numeric.SeriesATR
import HexProofs.Numeric.Demo
/-!
# Stochastic: the whole series (closes the STOCH item of `C06_FULL`)
-/
set_option linter.unusedSectionVars false
set_option linter.unusedSimpArgs false
set_option linter.unusedVariables false
namespace Hex
namespace Numeric
variable {K : Type} [Field K] [LinearOrder K] [IsStrictOrderedRing K] [LawfulPyF K]

/-! ### reading a column of a context -/

theorem Ctx.reading_at (x : Ctx K) (key : String) (j : Nat) (c : Candle K) (h : x.cs[j]? = some c) :
    x.reading key (some (j : Int)) = .ok (readingByCandle c key) := by
  unfold Ctx.reading
  simp only [Option.getD_some]
  rw [pyIndex_nonneg _ _ (by omega)]
  simp only [Int.toNat_natCast, h, getOrIndexError, pym_bind_ok, pym_pure]

/-- `reading_period(q, key)` at the last index `m` of a list of `m + 1` candles whose `key` column
is `g`: the three probes of the library (`i − (q−1)`, the middle, `i`) -/
theorem Ctx.readingPeriod_col (x : Ctx K) (key : String) (m : Nat) (g : Nat → Val K)
    (hi : x.i = (m : Int)) (hlen : x.cs.length = m + 1)
    (hcol : ∀ j : Nat, j ≤ m → x.reading key (some (j : Int)) = .ok (g j)) (q : Nat) (hq : 1 ≤ q) :
    x.readingPeriod (q : Int) key =
      (decide (q ≤ m + 1) && !(g (m + 1 - q)).isNone && !(g (m - (q - 1) / 2)).isNone && !(g m).isNone) := by
  obtain ⟨cs, i, name⟩ := x
  simp only at hi hlen
  subst hi
  have hrd : ∀ j : Nat, j ≤ m → readingByIndex cs key (j : Int) = g j := by
    intro j hj
    have hv : validIndex (j : Int) cs.length = true := by
      rw [hlen]; simp [validIndex]; omega
    have := hcol j hj
    unfold Ctx.reading at this
    simp only [Option.getD_some] at this
    unfold readingByIndex
    rw [hv]
    cases hpi : pyIndex cs (j : Int) with
    | error e => rw [hpi] at this; simp at this
    | ok c =>
      rw [hpi] at this
      simp only [pym_bind_ok, pym_pure, Except.ok.injEq] at this
      simp [this]
  unfold Ctx.readingPeriod Hex.readingPeriod
  simp only [Option.getD_none]
  have hv : validIndex (m : Int) cs.length = true := by
    rw [hlen]; simp [validIndex]; omega
  simp only [hv, Bool.not_true, Bool.false_eq_true, if_false]
  by_cases hqm : q ≤ m + 1
  · have a : ¬ ((m : Int) - ((q : Int) - 1) < 0) := by omega
    have b : (q : Int) - 1 ≥ 0 := by omega
    simp only [a, if_false, b, ge_iff_le, if_true, hqm, decide_true]
    have e1 : (m : Int) - ((q : Int) - 1) = ((m + 1 - q : Nat) : Int) := by omega
    have e2 : (m : Int) - ((q : Int) - 1) / 2 = ((m - (q - 1) / 2 : Nat) : Int) := by omega
    rw [e1, e2, hrd _ (by omega), hrd _ (by omega), hrd m (le_refl m)]
    simp
  · have a : (m : Int) - ((q : Int) - 1) < 0 := by omega
    simp [a, hqm]

/-! ### the stored running SMA over a column -/

/-- what the library's SMA helper (rounding to `n` decimals) stores over the inputs `g` whose
first full window ends at index `t0`: `round (mean of the first window)` at `t0` (and, by
convention, before it), then the RUNNING form on the stored predecessor,
`round (prev − (g (j−q) − g j)/q)` -/
def smaStored (n q t0 : Nat) (g : Nat → K) : Nat → K
  | 0 => PyF.round n (winMean g q t0)
  | j + 1 => if j + 1 ≤ t0 then PyF.round n (winMean g q t0)
             else PyF.round n (smaStored n q t0 g j - (g (j + 1 - q) - g (j + 1)) / q)

theorem smaStored_seed (n q t0 : Nat) (g : Nat → K) (j : Nat) (h : j ≤ t0) :
    smaStored n q t0 g j = PyF.round n (winMean g q t0) := by
  cases j with
  | zero => rfl
  | succ i => simp [smaStored, h]

theorem smaStored_step (n q t0 : Nat) (g : Nat → K) (j : Nat) (h : t0 < j) :
    smaStored n q t0 g j = PyF.round n (smaStored n q t0 g (j - 1) - (g (j - q) - g j) / q) := by
  obtain ⟨i, rfl⟩ : ∃ i, j = i + 1 := ⟨j - 1, by omega⟩
  have : ¬ i + 1 ≤ t0 := by omega
  simp [smaStored, this]

/-- the stored running SMA is within `(j − t0 + 1)·ε` of the window mean: one `ε` per stored step -/
theorem smaStored_err (n q t0 : Nat) (g : Nat → K) (hq : 1 ≤ q) (ht : q ≤ t0 + 1) (j : Nat) (hj : t0 ≤ j) :
    |smaStored n q t0 g j - winMean g q j| ≤ ((j + 1 - t0 : Nat) : K) * eps K n := by
  obtain ⟨d, rfl⟩ : ∃ d, j = t0 + d := ⟨j - t0, by omega⟩
  induction d with
  | zero =>
    rw [Nat.add_zero, smaStored_seed _ _ _ _ _ (le_refl _)]
    have : t0 + 1 - t0 = 1 := by omega
    rw [this]; simp only [Nat.cast_one, one_mul]
    exact LawfulPyF.round_err n _
  | succ d ih =>
    have ih' := ih (by omega)
    rw [smaStored_step _ _ _ _ _ (by omega), winMean_step g q (t0 + (d + 1)) hq (by omega)]
    have e1 : t0 + (d + 1) - 1 = t0 + d := by omega
    rw [e1]
    have hb := sma_error_budget n (q : K) (g (t0 + (d + 1) - q)) (g (t0 + (d + 1)))
      (smaStored n q t0 g (t0 + d)) (winMean g q (t0 + d)) _ ih'
    have e : ((t0 + (d + 1) + 1 - t0 : Nat) : K) * eps K n = ((t0 + d + 1 - t0 : Nat) : K) * eps K n + eps K n := by
      have : t0 + (d + 1) + 1 - t0 = (t0 + d + 1 - t0) + 1 := by omega
      rw [this]; push_cast; ring
    rw [e]
    exact hb

/-- **one call of the SMA helper inside a series.**  The context has `m + 1` candles and sits on
the last; its input column is `None` before `s0` and `g` from `s0` on; the helper's own previous
reading is what `smaStored` says.  Then the call returns and the stored (rounded) reading is
`None` before `t0 = s0 + q − 1` and `smaStored … m` from there on. -/
theorem sma_on_col (x : Ctx K) (key : String) (m q s0 t0 n : Nat) (g : Nat → K)
    (hi : x.i = (m : Int)) (hlen : x.cs.length = m + 1) (hq : 1 ≤ q) (ht : t0 + 1 = s0 + q) (ht1 : 1 ≤ t0)
    (hcol : ∀ j : Nat, j ≤ m →
      x.reading key (some (j : Int)) = .ok (if j < s0 then Val.none else .flt (g j)))
    (hprev : x.prevReading x.name = .ok (if m ≤ t0 then Val.none else .flt (smaStored n q t0 g (m - 1)))) :
    ∃ v, Calc.sma x (q : Int) key = .ok v ∧
      v.roundBy n = (if m < t0 then Val.none else .flt (smaStored n q t0 g m)) := by
  have hper := Ctx.readingPeriod_col x key m _ hi hlen hcol q hq
  have hqK : ((q : Int) : K) ≠ 0 := by
    have : (q : K) ≠ 0 := by exact_mod_cast (by omega : q ≠ 0)
    simpa using this
  by_cases h1 : m < t0
  · -- warm-up
    rw [if_pos (by omega)] at hprev
    have hrp : x.readingPeriod (q : Int) key = false := by
      rw [hper]
      by_cases hqm : q ≤ m + 1
      · have : m + 1 - q < s0 := by omega
        simp [this]
      · simp [hqm]
    exact ⟨.none, sma_none _ _ _ hprev hrp, by rw [if_pos h1]; rfl⟩
  · by_cases h2 : m = t0
    · -- seed
      rw [if_pos (by omega)] at hprev
      have hrp : x.readingPeriod (q : Int) key = true := by
        rw [hper]
        have a : ¬ m + 1 - q < s0 := by omega
        have b : ¬ m - (q - 1) / 2 < s0 := by omega
        have c : ¬ m < s0 := by omega
        have d : q ≤ m + 1 := by omega
        simp [a, b, c, d]
      have hwin := sma_seed_window x q key (fun j => Num.flt (g (m + 1 - q + j))) hprev hrp hq
        (by rw [hi]; omega) (by rw [hi]; omega)
        (by
          intro j hj
          have e : x.i + 1 - (q : Int) + (j : Int) = ((m + 1 - q + j : Nat) : Int) := by rw [hi]; omega
          rw [e, hcol _ (by omega), if_neg (by omega)])
      refine ⟨_, hwin, ?_⟩
      rw [if_neg h1, smaStored_seed _ _ _ _ _ (by omega)]
      subst h2
      rfl
    · -- running update on the stored predecessor
      have h3 : t0 < m := by omega
      rw [if_neg (by omega)] at hprev
      have hold : x.reading key (some (x.i - (q : Int))) = .ok (.num (.flt (g (m - q)))) := by
        have e : x.i - (q : Int) = ((m - q : Nat) : Int) := by rw [hi]; omega
        rw [e, hcol _ (by omega), if_neg (by omega)]
      have hcur : x.reading key = .ok (.num (.flt (g m))) := by
        have := hcol m (le_refl m)
        rw [if_neg (by omega)] at this
        have e : x.reading key = x.reading key (some (x.i)) := by
          unfold Ctx.reading; rfl
        rw [e, hi]; exact this
      refine ⟨_, sma_rec_flt x q key _ _ _ hprev hold hcur hqK, ?_⟩
      rw [if_neg h1, smaStored_step _ _ _ _ _ h3]
      simp only [Num.toF_flt, Int.cast_natCast]
      rfl

end Numeric
end Hex

import HexProofs.Framework.Gen.STOCH
import HexProofs.Numeric.Stoch
import HexProofs.Numeric.SeriesRSI
import HexProofs.Numeric.SeriesATR
import HexProofs.Numeric.Demo
/-!
# Stochastic: the whole series (closes the STOCH item of `C06_FULL`)
-/
set_option linter.unusedSectionVars false
set_option linter.unusedSimpArgs false
set_option linter.unusedVariables false
namespace Hex
namespace Numeric
variable {K : Type} [Field K] [LinearOrder K] [IsStrictOrderedRing K] [LawfulPyF K]

/-! ### reading a column of a context -/

theorem Ctx.reading_at (x : Ctx K) (key : String) (j : Nat) (c : Candle K) (h : x.cs[j]? = some c) :
    x.reading key (some (j : Int)) = .ok (readingByCandle c key) := by
  unfold Ctx.reading
  simp only [Option.getD_some]
  rw [pyIndex_nonneg _ _ (by omega)]
  simp only [Int.toNat_natCast, h, getOrIndexError, pym_bind_ok, pym_pure]

/-- `reading_period(q, key)` at the last index `m` of a list of `m + 1` candles whose `key` column
is `g`: the three probes of the library (`i − (q−1)`, the middle, `i`) -/
theorem Ctx.readingPeriod_col (x : Ctx K) (key : String) (m : Nat) (g : Nat → Val K)
    (hi : x.i = (m : Int)) (hlen : x.cs.length = m + 1)
    (hcol : ∀ j : Nat, j ≤ m → x.reading key (some (j : Int)) = .ok (g j)) (q : Nat) (hq : 1 ≤ q) :
    x.readingPeriod (q : Int) key =
      (decide (q ≤ m + 1) && !(g (m + 1 - q)).isNone && !(g (m - (q - 1) / 2)).isNone && !(g m).isNone) := by
  obtain ⟨cs, i, name⟩ := x
  simp only at hi hlen
  subst hi
  have hrd : ∀ j : Nat, j ≤ m → readingByIndex cs key (j : Int) = g j := by
    intro j hj
    have hv : validIndex (j : Int) cs.length = true := by
      rw [hlen]; simp [validIndex]; omega
    have := hcol j hj
    unfold Ctx.reading at this
    simp only [Option.getD_some] at this
    unfold readingByIndex
    rw [hv]
    cases hpi : pyIndex cs (j : Int) with
    | error e => rw [hpi] at this; simp at this
    | ok c =>
      rw [hpi] at this
      simp only [pym_bind_ok, pym_pure, Except.ok.injEq] at this
      simp [this]
  unfold Ctx.readingPeriod Hex.readingPeriod
  simp only [Option.getD_none]
  have hv : validIndex (m : Int) cs.length = true := by
    rw [hlen]; simp [validIndex]; omega
  simp only [hv, Bool.not_true, Bool.false_eq_true, if_false]
  by_cases hqm : q ≤ m + 1
  · have a : ¬ ((m : Int) - ((q : Int) - 1) < 0) := by omega
    have b : (q : Int) - 1 ≥ 0 := by omega
    simp only [a, if_false, b, ge_iff_le, if_true, hqm, decide_true]
    have e1 : (m : Int) - ((q : Int) - 1) = ((m + 1 - q : Nat) : Int) := by omega
    have e2 : (m : Int) - ((q : Int) - 1) / 2 = ((m - (q - 1) / 2 : Nat) : Int) := by omega
    rw [e1, e2, hrd _ (by omega), hrd _ (by omega), hrd m (le_refl m)]
    simp
  · have a : (m : Int) - ((q : Int) - 1) < 0 := by omega
    simp [a, hqm]

/-! ### the stored running SMA over a column -/

/-- what the library's SMA helper (rounding to `n` decimals) stores over the inputs `g` whose
first full window ends at index `t0`: `round (mean of the first window)` at `t0` (and, by
convention, before it), then the RUNNING form on the stored predecessor,
`round (prev − (g (j−q) − g j)/q)` -/
def smaStored (n q t0 : Nat) (g : Nat → K) : Nat → K
  | 0 => PyF.round n (winMean g q t0)
  | j + 1 => if j + 1 ≤ t0 then PyF.round n (winMean g q t0)
             else PyF.round n (smaStored n q t0 g j - (g (j + 1 - q) - g (j + 1)) / q)

theorem smaStored_seed (n q t0 : Nat) (g : Nat → K) (j : Nat) (h : j ≤ t0) :
    smaStored n q t0 g j = PyF.round n (winMean g q t0) := by
  cases j with
  | zero => rfl
  | succ i => simp [smaStored, h]

theorem smaStored_step (n q t0 : Nat) (g : Nat → K) (j : Nat) (h : t0 < j) :
    smaStored n q t0 g j = PyF.round n (smaStored n q t0 g (j - 1) - (g (j - q) - g j) / q) := by
  obtain ⟨i, rfl⟩ : ∃ i, j = i + 1 := ⟨j - 1, by omega⟩
  have : ¬ i + 1 ≤ t0 := by omega
  simp [smaStored, this]

/-- the stored running SMA is within `(j − t0 + 1)·ε` of the window mean: one `ε` per stored step -/
theorem smaStored_err (n q t0 : Nat) (g : Nat → K) (hq : 1 ≤ q) (ht : q ≤ t0 + 1) (j : Nat) (hj : t0 ≤ j) :
    |smaStored n q t0 g j - winMean g q j| ≤ ((j + 1 - t0 : Nat) : K) * eps K n := by
  obtain ⟨d, rfl⟩ : ∃ d, j = t0 + d := ⟨j - t0, by omega⟩
  induction d with
  | zero =>
    rw [Nat.add_zero, smaStored_seed _ _ _ _ _ (le_refl _)]
    have : t0 + 1 - t0 = 1 := by omega
    rw [this]; simp only [Nat.cast_one, one_mul]
    exact LawfulPyF.round_err n _
  | succ d ih =>
    have ih' := ih (by omega)
    rw [smaStored_step _ _ _ _ _ (by omega), winMean_step g q (t0 + (d + 1)) hq (by omega)]
    have e1 : t0 + (d + 1) - 1 = t0 + d := by omega
    rw [e1]
    have hb := sma_error_budget n (q : K) (g (t0 + (d + 1) - q)) (g (t0 + (d + 1)))
      (smaStored n q t0 g (t0 + d)) (winMean g q (t0 + d)) _ ih'
    have e : ((t0 + (d + 1) + 1 - t0 : Nat) : K) * eps K n = ((t0 + d + 1 - t0 : Nat) : K) * eps K n + eps K n := by
      have : t0 + (d + 1) + 1 - t0 = (t0 + d + 1 - t0) + 1 := by omega
      rw [this]; push_cast; ring
    rw [e]
    exact hb

/-- **one call of the SMA helper inside a series.**  The context has `m + 1` candles and sits on
the last; its input column is `None` before `s0` and `g` from `s0` on; the helper's own previous
reading is what `smaStored` says.  Then the call returns and the stored (rounded) reading is
`None` before `t0 = s0 + q − 1` and `smaStored … m` from there on. -/
theorem sma_on_col (x : Ctx K) (key : String) (m q s0 t0 n : Nat) (g : Nat → K)
    (hi : x.i = (m : Int)) (hlen : x.cs.length = m + 1) (hq : 1 ≤ q) (ht : t0 + 1 = s0 + q) (ht1 : 1 ≤ t0)
    (hcol : ∀ j : Nat, j ≤ m →
      x.reading key (some (j : Int)) = .ok (if j < s0 then Val.none else .flt (g j)))
    (hprev : x.prevReading x.name = .ok (if m ≤ t0 then Val.none else .flt (smaStored n q t0 g (m - 1)))) :
    ∃ v, Calc.sma x (q : Int) key = .ok v ∧
      v.roundBy n = (if m < t0 then Val.none else .flt (smaStored n q t0 g m)) := by
  have hper := Ctx.readingPeriod_col x key m _ hi hlen hcol q hq
  have hqK : ((q : Int) : K) ≠ 0 := by
    have : (q : K) ≠ 0 := by exact_mod_cast (by omega : q ≠ 0)
    simpa using this
  by_cases h1 : m < t0
  · -- warm-up
    rw [if_pos (by omega)] at hprev
    have hrp : x.readingPeriod (q : Int) key = false := by
      rw [hper]
      by_cases hqm : q ≤ m + 1
      · have : m + 1 - q < s0 := by omega
        simp [this]
      · simp [hqm]
    exact ⟨.none, sma_none _ _ _ hprev hrp, by rw [if_pos h1]; rfl⟩
  · by_cases h2 : m = t0
    · -- seed
      rw [if_pos (by omega)] at hprev
      have hrp : x.readingPeriod (q : Int) key = true := by
        rw [hper]
        have a : ¬ m + 1 - q < s0 := by omega
        have b : ¬ m - (q - 1) / 2 < s0 := by omega
        have c : ¬ m < s0 := by omega
        have d : q ≤ m + 1 := by omega
        simp [a, b, c, d]
      have hwin := sma_seed_window x q key (fun j => Num.flt (g (m + 1 - q + j))) hprev hrp hq
        (by rw [hi]; omega) (by rw [hi]; omega)
        (by
          intro j hj
          have e : x.i + 1 - (q : Int) + (j : Int) = ((m + 1 - q + j : Nat) : Int) := by rw [hi]; omega
          rw [e, hcol _ (by omega), if_neg (by omega)])
      refine ⟨_, hwin, ?_⟩
      rw [if_neg h1, smaStored_seed _ _ _ _ _ (by omega)]
      subst h2
      rfl
    · -- running update on the stored predecessor
      have h3 : t0 < m := by omega
      rw [if_neg (by omega)] at hprev
      have hold : x.reading key (some (x.i - (q : Int))) = .ok (.num (.flt (g (m - q)))) := by
        have e : x.i - (q : Int) = ((m - q : Nat) : Int) := by rw [hi]; omega
        rw [e, hcol _ (by omega), if_neg (by omega)]
      have hcur : x.reading key = .ok (.num (.flt (g m))) := by
        have := hcol m (le_refl m)
        rw [if_neg (by omega)] at this
        have e : x.reading key = x.reading key (some (x.i)) := by
          unfold Ctx.reading; rfl
        rw [e, hi]; exact this
      refine ⟨_, sma_rec_flt x q key _ _ _ hprev hold hcur hqK, ?_⟩
      rw [if_neg h1, smaStored_step _ _ _ _ _ h3]
      simp only [Num.toF_flt, Int.cast_natCast]
      rfl

/-! ### lowest low / highest high of a window -/

/-- `min (f 0) … (f n)` -/
def rmin : Nat → (Nat → K) → K
  | 0, f => f 0
  | n + 1, f => min (rmin n f) (f (n + 1))

/-- `max (f 0) … (f n)` -/
def rmax : Nat → (Nat → K) → K
  | 0, f => f 0
  | n + 1, f => max (rmax n f) (f (n + 1))

theorem rmin_le (n : Nat) (f : Nat → K) : ∀ k, k ≤ n → rmin n f ≤ f k := by
  induction n with
  | zero => intro k hk; have : k = 0 := by omega
            subst this; exact le_refl _
  | succ n ih =>
    intro k hk
    by_cases h : k ≤ n
    · exact le_trans (min_le_left _ _) (ih k h)
    · have : k = n + 1 := by omega
      subst this; exact min_le_right _ _

theorem rmin_mem (n : Nat) (f : Nat → K) : ∃ k, k ≤ n ∧ rmin n f = f k := by
  induction n with
  | zero => exact ⟨0, le_refl _, rfl⟩
  | succ n ih =>
    obtain ⟨k, hk, e⟩ := ih
    rcases min_choice (rmin n f) (f (n + 1)) with h | h
    · exact ⟨k, by omega, by simp only [rmin]; rw [h, e]⟩
    · exact ⟨n + 1, le_refl _, by simp only [rmin]; rw [h]⟩

theorem le_rmax (n : Nat) (f : Nat → K) : ∀ k, k ≤ n → f k ≤ rmax n f := by
  induction n with
  | zero => intro k hk; have : k = 0 := by omega
            subst this; exact le_refl _
  | succ n ih =>
    intro k hk
    by_cases h : k ≤ n
    · exact le_trans (ih k h) (le_max_left _ _)
    · have : k = n + 1 := by omega
      subst this; exact le_max_right _ _

theorem rmax_mem (n : Nat) (f : Nat → K) : ∃ k, k ≤ n ∧ rmax n f = f k := by
  induction n with
  | zero => exact ⟨0, le_refl _, rfl⟩
  | succ n ih =>
    obtain ⟨k, hk, e⟩ := ih
    rcases max_choice (rmax n f) (f (n + 1)) with h | h
    · exact ⟨k, by omega, by simp only [rmax]; rw [h, e]⟩
    · exact ⟨n + 1, le_refl _, by simp only [rmax]; rw [h]⟩

/-- a lower bound that is attained is the minimum -/
theorem rmin_unique (n : Nat) (f : Nat → K) (L : K) (h1 : ∀ k, k ≤ n → L ≤ f k) (h2 : ∃ k, k ≤ n ∧ L = f k) :
    L = rmin n f := by
  obtain ⟨k, hk, e⟩ := h2
  obtain ⟨k', hk', e'⟩ := rmin_mem n f
  apply le_antisymm
  · rw [e']; exact h1 k' hk'
  · rw [e]; exact rmin_le n f k hk

theorem rmax_unique (n : Nat) (f : Nat → K) (H : K) (h1 : ∀ k, k ≤ n → f k ≤ H) (h2 : ∃ k, k ≤ n ∧ H = f k) :
    H = rmax n f := by
  obtain ⟨k, hk, e⟩ := h2
  obtain ⟨k', hk', e'⟩ := rmax_mem n f
  apply le_antisymm
  · rw [e]; exact le_rmax n f k hk
  · rw [e']; exact h1 k' hk'

/-! ### the raw stochastic value the node computes -/

/-- the raw value of `Calc.stoch` once its window of `p` candles is full:
`100·(cur − LL)/(HH − LL)` (`0.0` on a flat window), a float, NOT rounded -/
theorem stochSt_eq (x : Ctx K) (p : Nat) (input : String) (hp : 1 ≤ p) (lo hi : Nat → Num K) (cur : Num K)
    (hlo : ∀ j, j < p → x.reading "low" (some (x.i + 1 - p + j)) = .ok (.num (lo j)))
    (hhi : ∀ j, j < p → x.reading "high" (some (x.i + 1 - p + j)) = .ok (.num (hi j)))
    (hc : x.reading input = .ok (.num cur)) :
    stochSt x (p : Int) input = .ok (.flt (stochOf cur.toF (rmin (p - 1) (fun k => (lo k).toF))
      (rmax (p - 1) (fun k => (hi k).toF)))) := by
  have hml := mapM_up1 x p "low" lo hlo
  have hmh := mapM_up1 x p "high" hi hhi
  obtain ⟨L, hL⟩ : ∃ L, Num.minList ((List.range p).map lo) = some L := by
    obtain ⟨n, rfl⟩ : ∃ n, p = n + 1 := ⟨p - 1, by omega⟩
    simp [List.range_succ_eq_map, Num.minList]
  obtain ⟨H, hH⟩ : ∃ H, Num.maxList ((List.range p).map hi) = some H := by
    obtain ⟨n, rfl⟩ : ∃ n, p = n + 1 := ⟨p - 1, by omega⟩
    simp [List.range_succ_eq_map, Num.maxList]
  obtain ⟨hL1, y, hy, hL2⟩ := Num.minList_spec _ _ hL
  obtain ⟨hH1, z, hz, hH2⟩ := Num.maxList_spec _ _ hH
  obtain ⟨jl, hjl, rfl⟩ := List.mem_map.1 hy
  obtain ⟨jh, hjh, rfl⟩ := List.mem_map.1 hz
  have eL : L.toF = rmin (p - 1) (fun k => (lo k).toF) :=
    rmin_unique _ _ _ (fun k hk => hL1 (lo k) (List.mem_map.2 ⟨k, List.mem_range.2 (by omega), rfl⟩))
      ⟨jl, by have := List.mem_range.1 hjl; omega, hL2⟩
  have eH : H.toF = rmax (p - 1) (fun k => (hi k).toF) :=
    rmax_unique _ _ _ (fun k hk => hH1 (hi k) (List.mem_map.2 ⟨k, List.mem_range.2 (by omega), rfl⟩))
      ⟨jh, by have := List.mem_range.1 hjh; omega, hH2⟩
  rw [← eL, ← eH]
  unfold stochSt
  dsimp only
  erw [hml, hmh]
  simp only [pym_bind_ok, hL, hH, pym_pure, Ctx.num_of hc, Val.asNum_num]
  by_cases h0 : H.toF - L.toF = 0
  · have e : (H.sub L).eq (.int 0) = true := by rw [Num.eq_iff]; simpa using h0
    simp only [e, if_true, stochOf, h0, Num.fl_eq, Int.cast_zero]
  · have e : (H.sub L).eq (.int 0) = false := by rw [Num.eq_false_iff]; simpa using h0
    have hd : (H.sub L).toF ≠ 0 := by simpa using h0
    simp only [e, Bool.false_eq_true, if_false, Num.truediv_ok _ _ hd, pym_bind_ok, stochOf, h0]
    simp [Num.mul, LawfulPyF.mul_eq]

/-! ### the textbook series and what is stored -/

/-- first index of `%K`: the window of `p` candles, then `smoothK` raw values -/
def stochTK (p sk : Nat) : Nat := p + sk - 2
/-- first index of `%D` -/
def stochTD (p sk sl : Nat) : Nat := p + sk + sl - 3

section series
variable (p sk sl : Nat) (lo hi x : Nat → K)

/-- the raw stochastic value of candle `j ≥ p − 1`: `100·(x_j − LL)/(HH − LL)` over the lows/highs of
candles `j − p + 1 … j`, `0` on a flat window -/
def stExact (j : Nat) : K :=
  stochOf (x j) (rmin (p - 1) (fun k => lo (j + 1 - p + k))) (rmax (p - 1) (fun k => hi (j + 1 - p + k)))

/-- textbook `%K`: the mean of the last `smoothK` raw values -/
def stKExact (j : Nat) : K := winMean (stExact p lo hi x) sk j
/-- textbook `%D`: the mean of the last `slow` values of `%K` -/
def stDExact (j : Nat) : K := winMean (stKExact p sk lo hi x) sl j

/-- the three textbook series with their warm-up -/
def stochSeries (j : Nat) : Option K := if j + 1 < p then none else some (stExact p lo hi x j)
def stochKSeries (j : Nat) : Option K := if j < stochTK p sk then none else some (stKExact p sk lo hi x j)
def stochDSeries (j : Nat) : Option K := if j < stochTD p sk sl then none else some (stDExact p sk sl lo hi x j)

/-- what the `<name>_k` helper stores (4 decimals, running form over the UNROUNDED raw values) -/
def stKStored : Nat → K := smaStored defaultRound sk (stochTK p sk) (stExact p lo hi x)
/-- what the `<name>_d` helper stores (4 decimals, running form over the STORED `%K`) -/
def stDStored : Nat → K := smaStored defaultRound sl (stochTD p sk sl) (stKStored p sk lo hi x)

def stKSc (j : Nat) : Scalar K := if j < stochTK p sk then .none else .num (.flt (stKStored p sk lo hi x j))
def stDSc (j : Nat) : Scalar K := if j < stochTD p sk sl then .none else .num (.flt (stDStored p sk sl lo hi x j))

/-- everything the node's step stores on candle `j`: nothing but the own dict of three `None`s
before the window is full; afterwards the data entry `{stoch, k}`, the two helper readings and the
own dict `{stoch, k, d}` (still to be rounded to the node's `rounding`) -/
def stRow (j : Nat) : Option (Val K × Val K × Val K) × Val K :=
  if j + 1 < p then (none, stochNone)
  else
    (some (sdict [("stoch", sc (.flt (stExact p lo hi x j))), ("k", stKSc p sk lo hi x j)],
            .s (stKSc p sk lo hi x j), .s (stDSc p sk sl lo hi x j)),
     sdict [("stoch", sc (.flt (stExact p lo hi x j))), ("k", stKSc p sk lo hi x j),
            ("d", stDSc p sk sl lo hi x j)])

end series

/-! ### reading a finished STOCH candle -/

section cand
variable (nm : String) (n : Nat)

theorem stochApp_attr (key : String) (hd : NoDot key) (hin : key ∈ Candle.attrNames)
    (z : Option (Val K × Val K × Val K) × Val K) (c : Candle K) :
    readingByCandle (stochApp nm n z c) key = readingByCandle c key :=
  rbc_stochApp nm n key (indep_attr _ _ hd hin) (indep_attr _ _ hd hin) (indep_attr _ _ hd hin)
    (indep_attr _ _ hd hin) z c

theorem stochApp_own (hn : StochNames nm) (z : Option (Val K × Val K × Val K) × Val K) (c : Candle K) :
    readingByCandle (stochApp nm n z c) nm = z.2.roundBy n := by
  unfold stochApp
  exact readingByCandle_setKey_own nm hn.kN _ _

theorem stochApp_k (hn : StochNames nm) (z : Option (Val K × Val K × Val K) × Val K) (c : Candle K)
    (hc : Plain c) :
    readingByCandle (stochApp nm n z c) (nm ++ "_k") = (match z.1 with | none => .none | some (_, b, _) => b) := by
  unfold stochApp
  rw [indep_key _ _ hn.kK hn.nK]
  obtain ⟨d, w⟩ := z
  cases d with
  | none => exact readingByCandle_plain _ hn.kK c hc
  | some abe =>
    obtain ⟨a, b, e⟩ := abe
    show readingByCandle (setKey true _ e (setKey true _ b (setKey true _ a c))) _ = b
    rw [indep_key _ _ hn.kK hn.Kd.symm]
    exact rbc_data_self _ hn.kK _ (by show dlookup _ c.inds = none; rw [hc.1]; rfl) _

theorem stochApp_d (hn : StochNames nm) (z : Option (Val K × Val K × Val K) × Val K) (c : Candle K)
    (hc : Plain c) :
    readingByCandle (stochApp nm n z c) (nm ++ "_d") = (match z.1 with | none => .none | some (_, _, e) => e) := by
  unfold stochApp
  rw [indep_key _ _ hn.kd hn.nd]
  obtain ⟨d, w⟩ := z
  cases d with
  | none => exact readingByCandle_plain _ hn.kd c hc
  | some abe =>
    obtain ⟨a, b, e⟩ := abe
    show readingByCandle (setKey true _ e (setKey true _ b (setKey true _ a c))) _ = e
    exact rbc_data_self _ hn.kd _ (by show dlookup _ c.inds = none; rw [hc.1]; rfl) _

theorem stochApp_data (hn : StochNames nm) (z : Option (Val K × Val K × Val K) × Val K) (c : Candle K)
    (hc : Plain c) :
    readingByCandle (stochApp nm n z c) (nm ++ "_data") = (match z.1 with | none => .none | some (a, _, _) => a) := by
  unfold stochApp
  rw [indep_key _ _ hn.kD hn.nD]
  obtain ⟨d, w⟩ := z
  cases d with
  | none => exact readingByCandle_plain _ hn.kD c hc
  | some abe =>
    obtain ⟨a, b, e⟩ := abe
    show readingByCandle (setKey true _ e (setKey true _ b (setKey true _ a c))) _ = a
    rw [indep_key _ _ hn.kD hn.Dd.symm, indep_key _ _ hn.kD hn.DK.symm]
    exact rbc_data_self _ hn.kD _ (by rw [hc.1]; rfl) _

/-- a field of the data entry -/
theorem stochApp_field (hn : StochNames nm) (full fld : String) (hs : splitDot full = [nm ++ "_data", fld])
    (z : Option (Val K × Val K × Val K) × Val K) (c : Candle K) (hc : Plain c) :
    readingByCandle (stochApp nm n z c) full
      = (match z.1 with | none => .none | some (a, _, _) => a.nested fld) := by
  unfold stochApp
  rw [st_indep_dotted nm full _ fld hs hn.nD]
  obtain ⟨d, w⟩ := z
  cases d with
  | none =>
    show readingByCandle c full = .none
    unfold readingByCandle
    rw [hs, hc.1, hc.2]; rfl
  | some abe =>
    obtain ⟨a, b, e⟩ := abe
    show readingByCandle (setKey true _ e (setKey true _ b (setKey true _ a c))) _ = a.nested fld
    rw [st_indep_dotted (nm ++ "_d") full _ fld hs hn.Dd.symm, st_indep_dotted (nm ++ "_k") full _ fld hs hn.DK.symm]
    exact rbc_data_field _ fld full hs c (by rw [hc.1]; rfl) _

end cand

/-! ### one step of the node inside the series -/

theorem nested_k2 (st : Num K) (ks : Scalar K) :
    (sdict [("stoch", sc st), ("k", ks)] : Val K).nested "k" = .s ks := by
  simp [Val.nested, sdict, dlookup]

theorem toScalar_s (a : Scalar K) : Val.toScalar (Val.s a : Val K) = .ok a := by
  cases a <;> rfl

/-- **the node's step at index `m`**: if the finished prefix carries the rows `stRow 0 … stRow (m−1)`,
the value computed for candle `m` is `stRow m` -/
theorem stoch_step (p sk sl : Nat) (hp : 2 ≤ p) (hsk : 1 ≤ sk) (hsl : 1 ≤ sl) (nm input : String)
    (fld : Candle K → Num K) (n : Nat) (hn : StochNames nm) (hin : NoDot input ∧ input ∈ Candle.attrNames)
    (hattr : ∀ c : Candle K, c.attr input = some (.num (fld c)))
    (raw : List (Candle K)) (hraw : ∀ c ∈ raw, Plain c) (m : Nat) (hm : m < raw.length)
    (done : List (Candle K)) (hdl : done.length = m)
    (hdone : ∀ j, j < m → done[j]? = some (stochApp nm n
      (stRow p sk sl (fieldAt (·.l) raw) (fieldAt (·.h) raw) (fieldAt fld raw) j) (raw.getD j default))) :
    stochVal nm (p : Int) (sl : Int) (sk : Int) input done (raw.getD m default)
      = .ok (stRow p sk sl (fieldAt (·.l) raw) (fieldAt (·.h) raw) (fieldAt fld raw) m) := by
  have hpl : ∀ j, j < raw.length → Plain (raw.getD j default) := fun j hj => getD_plain raw hraw j hj
  have hc := hpl m hm
  generalize hcd : raw.getD m default = c at hc
  -- the candles of any context of the step
  have hgl : ∀ (c' : Candle K) (j : Nat), j < m → (done ++ [c'])[j]? = some (stochApp nm n
      (stRow p sk sl (fieldAt (·.l) raw) (fieldAt (·.h) raw) (fieldAt fld raw) j) (raw.getD j default)) := by
    intro c' j hj
    rw [List.getElem?_append_left (by omega)]
    exact hdone j hj
  have hgm : ∀ (c' : Candle K), (done ++ [c'])[m]? = some c' := by
    intro c'
    rw [List.getElem?_append_right (by omega), hdl]; simp
  have hrd : ∀ (c' : Candle K) (name' key : String) (j : Nat), j < m →
      ({ cs := done ++ [c'], i := done.length, name := name' } : Ctx K).reading key (some (j : Int))
        = .ok (readingByCandle (stochApp nm n
          (stRow p sk sl (fieldAt (·.l) raw) (fieldAt (·.h) raw) (fieldAt fld raw) j) (raw.getD j default)) key) :=
    fun c' name' key j hj => Ctx.reading_at _ key j _ (hgl c' j hj)
  have hrm : ∀ (c' : Candle K) (name' key : String),
      ({ cs := done ++ [c'], i := done.length, name := name' } : Ctx K).reading key (some (m : Int))
        = .ok (readingByCandle c' key) :=
    fun c' name' key => Ctx.reading_at _ key m _ (hgm c')
  have hlen : ∀ c' : Candle K, (done ++ [c']).length = m + 1 := by intro c'; simp [hdl]
  have hiI : ((done.length : Nat) : Int) = (m : Int) := by rw [hdl]
  have hlast : ∀ key, Ctx.lastReading key done = if m = 0 then Val.none else
      readingByCandle (stochApp nm n
        (stRow p sk sl (fieldAt (·.l) raw) (fieldAt (·.h) raw) (fieldAt fld raw) (m - 1))
        (raw.getD (m - 1) default)) key := by
    intro key
    unfold Ctx.lastReading
    by_cases h0 : m = 0
    · have : done = [] := List.eq_nil_of_length_eq_zero (by omega)
      rw [this, if_pos h0]; rfl
    · rw [if_neg h0, List.getLast?_eq_getElem?, hdl, hdone (m - 1) (by omega)]
  -- the bare columns
  have hfield : ∀ (key : String) (f : Candle K → Num K), NoDot key → key ∈ Candle.attrNames →
      (∀ c : Candle K, c.attr key = some (.num (f c))) → ∀ j : Nat, j ≤ m →
      ({ cs := done ++ [c], i := done.length, name := nm } : Ctx K).reading key (some (j : Int))
        = .ok (.num (f (raw.getD j default))) := by
    intro key f hd hmem hat j hj
    by_cases hjm : j < m
    · rw [hrd c nm key j hjm, stochApp_attr nm n key hd hmem, readingByCandle_attr key hd _ _ (hat _)]
    · have : j = m := by omega
      subst this
      rw [hrm c nm key, readingByCandle_attr key hd _ _ (hat _), hcd]
  have hper : ({ cs := done ++ [c], i := done.length, name := nm } : Ctx K).readingPeriod (p : Int) input
      = decide (p ≤ m + 1) := by
    rw [Ctx.readingPeriod_col _ input m (fun j => .num (fld (raw.getD j default))) hiI (hlen c)
      (hfield input fld hin.1 hin.2 hattr) p (by omega)]
    simp
  unfold stochVal stochR
  by_cases h1 : m + 1 < p
  · -- the window is not full
    have : ¬ p ≤ m + 1 := by omega
    rw [hper]
    simp only [this, decide_false, Bool.false_eq_true, if_false, pym_pure, pym_bind_ok]
    unfold stRow
    rw [if_pos h1]
  · have hpm : p ≤ m + 1 := by omega
    rw [hper]
    simp only [hpm, decide_true, if_true]
    -- the raw value
    have hst := stochSt_eq ({ cs := done ++ [c], i := done.length, name := nm } : Ctx K) p input (by omega)
      (fun k => (raw.getD (m + 1 - p + k) default).l) (fun k => (raw.getD (m + 1 - p + k) default).h) (fld c)
      (by
        intro j hj
        have e : ((done.length : Nat) : Int) + 1 - (p : Int) + (j : Int) = ((m + 1 - p + j : Nat) : Int) := by omega
        show ({ cs := done ++ [c], i := done.length, name := nm } : Ctx K).reading "low"
          (some (((done.length : Nat) : Int) + 1 - (p : Int) + (j : Int))) = _
        rw [e]
        exact hfield "low" (·.l) noDot_low (by decide) (fun _ => rfl) _ (by omega))
      (by
        intro j hj
        have e : ((done.length : Nat) : Int) + 1 - (p : Int) + (j : Int) = ((m + 1 - p + j : Nat) : Int) := by omega
        show ({ cs := done ++ [c], i := done.length, name := nm } : Ctx K).reading "high"
          (some (((done.length : Nat) : Int) + 1 - (p : Int) + (j : Int))) = _
        rw [e]
        exact hfield "high" (·.h) noDot_high (by decide) (fun _ => rfl) _ (by omega))
      (by rw [Ctx.reading_cur done c [] nm, readingByCandle_attr input hin.1 _ _ (hattr _)])
    have hste : stochOf (fld c).toF (rmin (p - 1) (fun k => (raw.getD (m + 1 - p + k) default).l.toF))
        (rmax (p - 1) (fun k => (raw.getD (m + 1 - p + k) default).h.toF))
        = stExact p (fieldAt (·.l) raw) (fieldAt (·.h) raw) (fieldAt fld raw) m := by
      unfold stExact fieldAt
      rw [hcd]
    rw [hste] at hst
    rw [hst]
    simp only [pym_bind_ok, pym_pure]
    generalize hS : stExact p (fieldAt (·.l) raw) (fieldAt (·.h) raw) (fieldAt fld raw) = S at *
    have hno : dlookup (nm ++ "_data") c.inds = none := by rw [hc.1]; rfl
    -- `%K`
    have hk := sma_on_col
      ({ cs := done ++ [setKey true (nm ++ "_data") (sdict [("stoch", sc (Num.flt (S m)))]) c], i := done.length,
         name := nm ++ "_k" } : Ctx K) (nm ++ "_data.stoch") m sk (p - 1) (stochTK p sk) defaultRound S
      hiI (hlen _) hsk (by unfold stochTK; omega) (by unfold stochTK; omega)
      (by
        intro j hj
        by_cases hjm : j < m
        · rw [hrd _ _ _ j hjm, stochApp_field nm n hn _ "stoch" hn.dotS _ _ (hpl j (by omega))]
          unfold stRow
          by_cases hjp : j + 1 < p
          · rw [if_pos hjp, if_pos (by omega)]
          · rw [if_neg hjp, if_neg (by omega), hS]
            exact congrArg Except.ok (nested_stoch2 (F := K) _ _)
        · have : j = m := by omega
          subst this
          rw [hrm, rbc_data_field _ "stoch" _ hn.dotS c hno, if_neg (by omega)]
          exact congrArg Except.ok (nested_stoch1 (F := K) _))
      (by
        show ({ cs := done ++ [_], i := done.length, name := nm ++ "_k" } : Ctx K).prevReading (nm ++ "_k") = _
        rw [Ctx.prevReading_append_cons done _ [] _ _, hlast]
        by_cases h0 : m = 0
        · rw [if_pos h0, if_pos (by omega)]
        · rw [if_neg h0, stochApp_k nm n hn _ _ (hpl _ (by omega))]
          unfold stRow
          by_cases hjp : m - 1 + 1 < p
          · rw [if_pos hjp, if_pos (by unfold stochTK; omega)]
          · rw [if_neg hjp]
            show Except.ok (Val.s (stKSc p sk (fieldAt (·.l) raw) (fieldAt (·.h) raw) (fieldAt fld raw) (m - 1))) = _
            unfold stKSc stKStored
            rw [hS]
            by_cases hmt : m ≤ stochTK p sk
            · rw [if_pos hmt, if_pos (by omega)]
            · rw [if_neg hmt, if_neg (by omega)])
    obtain ⟨k, hk1, hk2⟩ := hk
    have hk3 : k.roundBy defaultRound
        = .s (stKSc p sk (fieldAt (·.l) raw) (fieldAt (·.h) raw) (fieldAt fld raw) m) := by
      rw [hk2]
      unfold stKSc stKStored
      rw [hS]
      by_cases hmt : m < stochTK p sk
      · rw [if_pos hmt, if_pos hmt]
      · rw [if_neg hmt, if_neg hmt]
    -- `%D`
    generalize hKS : stKSc p sk (fieldAt (·.l) raw) (fieldAt (·.h) raw) (fieldAt fld raw) m = ks at hk3
    have hd := sma_on_col
      ({ cs := done ++ [setKey true (nm ++ "_data") (sdict [("stoch", sc (Num.flt (S m))), ("k", ks)]) c],
         i := done.length, name := nm ++ "_d" } : Ctx K) (nm ++ "_data.k") m sl (stochTK p sk) (stochTD p sk sl)
      defaultRound (stKStored p sk (fieldAt (·.l) raw) (fieldAt (·.h) raw) (fieldAt fld raw))
      hiI (hlen _) hsl (by unfold stochTK stochTD; omega) (by unfold stochTD; omega)
      (by
        intro j hj
        by_cases hjm : j < m
        · rw [hrd _ _ _ j hjm, stochApp_field nm n hn _ "k" hn.dotK _ _ (hpl j (by omega))]
          unfold stRow
          by_cases hjp : j + 1 < p
          · rw [if_pos hjp, if_pos (by unfold stochTK; omega)]
          · rw [if_neg hjp]
            show Except.ok ((sdict [_, _] : Val K).nested "k") = _
            rw [nested_k2]
            unfold stKSc
            by_cases hjt : j < stochTK p sk
            · rw [if_pos hjt, if_pos hjt]
            · rw [if_neg hjt, if_neg hjt]
        · have : j = m := by omega
          subst this
          rw [hrm, rbc_data_field _ "k" _ hn.dotK c hno, nested_k2, ← hKS]
          unfold stKSc
          by_cases hjt : j < stochTK p sk
          · rw [if_pos hjt, if_pos hjt]
          · rw [if_neg hjt, if_neg hjt])
      (by
        show ({ cs := done ++ [_], i := done.length, name := nm ++ "_d" } : Ctx K).prevReading (nm ++ "_d") = _
        rw [Ctx.prevReading_append_cons done _ [] _ _, hlast]
        by_cases h0 : m = 0
        · rw [if_pos h0, if_pos (by omega)]
        · rw [if_neg h0, stochApp_d nm n hn _ _ (hpl _ (by omega))]
          unfold stRow
          by_cases hjp : m - 1 + 1 < p
          · rw [if_pos hjp, if_pos (by unfold stochTD; omega)]
          · rw [if_neg hjp]
            show Except.ok (Val.s (stDSc p sk sl (fieldAt (·.l) raw) (fieldAt (·.h) raw) (fieldAt fld raw) (m - 1))) = _
            unfold stDSc stDStored
            by_cases hmt : m ≤ stochTD p sk sl
            · rw [if_pos hmt, if_pos (by omega)]
            · rw [if_neg hmt, if_neg (by omega)])
    obtain ⟨d, hd1, hd2⟩ := hd
    have hd3 : d.roundBy defaultRound
        = .s (stDSc p sk sl (fieldAt (·.l) raw) (fieldAt (·.h) raw) (fieldAt fld raw) m) := by
      rw [hd2]
      unfold stDSc stDStored
      by_cases hmt : m < stochTD p sk sl
      · rw [if_pos hmt, if_pos hmt]
      · rw [if_neg hmt, if_neg hmt]
    unfold stochVal2
    rw [hk1]
    simp only [pym_bind_ok, hk3, toScalar_s]
    rw [hd1]
    simp only [pym_bind_ok, pym_pure, hd3, toScalar_s]
    unfold stRow
    rw [if_neg h1, ← hS, hKS]

end Numeric
end Hex

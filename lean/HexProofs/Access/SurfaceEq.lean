import HexProofs.Access.SurfaceIndex
import HexProofs.Writes.Objects
import Batteries.Data.List.Perm
/-
`CandleManager.find_indicator`, `Candle.__eq__`, `CandleManager.__eq__` of `HexModel/Core/Surface.lean`:
what they decide, for an arbitrary float carrier `F`.
-/
namespace Hex.Surf
open Hex
set_option linter.unusedSectionVars false
variable {F : Type} [PyF F]

/-! ### `find_indicator`: TRUTHINESS of the reading -/

/-- **`find_indicator(name)`** is true exactly when some candle carries a TRUTHY reading under `name` -/
theorem findIndicator_iff (cs : List (Candle F)) (name : String) :
    findIndicator cs name = true ↔ ∃ c ∈ cs, (readingByCandle c name).truthy = true := by
  simp [findIndicator, List.any_eq_true]

theorem findIndicator_eq_false_iff (cs : List (Candle F)) (name : String) :
    findIndicator cs name = false ↔ ∀ c ∈ cs, (readingByCandle c name).truthy = false := by
  rw [← Bool.not_eq_true, findIndicator_iff]
  simp

/-- what is falsy: `None`, `False`, `0`, `0.0` (also `-0.0`), `{}` -/
theorem truthy_eq_false_iff (v : Val F) :
    v.truthy = false ↔ (v = .none ∨ v = .bool false ∨ (∃ n : Num F, v = .num n ∧ n.isZero = true) ∨ v = .dict []) := by
  cases v with
  | s x =>
    cases x with
    | none => simp [Val.truthy, Scalar.truthy]
    | bool b => cases b <;> simp [Val.truthy, Scalar.truthy]
    | num n => cases hz : n.isZero <;> simp [Val.truthy, Scalar.truthy, hz]
  | dict d => cases d <;> simp [Val.truthy]

/-- a reading that is present (`is not None`) but falsy -/
theorem present_but_falsy :
    (Val.int (F := F) 0).isNone = false ∧ (Val.int (F := F) 0).truthy = false ∧
    (Val.bool (F := F) false).isNone = false ∧ (Val.bool (F := F) false).truthy = false ∧
    (Val.dict (F := F) []).isNone = false ∧ (Val.dict (F := F) []).truthy = false := by
  simp [Val.isNone, Val.truthy, Scalar.truthy, Num.isZero]

/-- **The consequence**: a series whose readings are all `0` / `0.0` / `False` / `{}` (or `None`) is "not found",
although every one of its candles HAS a reading in the sense of `has_reading` / `reading_count` (`is not None`). -/
theorem findIndicator_misses_falsy_series (cs : List (Candle F)) (name : String)
    (hfalsy : ∀ c ∈ cs, (readingByCandle c name).truthy = false)
    (hpresent : ∀ c ∈ cs, (readingByCandle c name).isNone = false) :
    findIndicator cs name = false ∧ readingCount cs name = cs.length ∧
    (cs ≠ [] → (readingByIndex cs name (-1)).isNone = false) := by
  refine ⟨(findIndicator_eq_false_iff cs name).2 hfalsy, ?_, ?_⟩
  · unfold readingCount
    have : (cs.reverse.takeWhile fun c => !(readingByCandle c name).isNone) = cs.reverse := by
      have aux : ∀ (l : List (Candle F)), (∀ c ∈ l, (readingByCandle c name).isNone = false) →
          (l.takeWhile fun c => !(readingByCandle c name).isNone) = l := by
        intro l; induction l with
        | nil => intro _; rfl
        | cons a r ih =>
          intro h
          simp only [List.takeWhile_cons, h a (by simp), Bool.not_false, if_true]
          rw [ih (fun c hc => h c (by simp [hc]))]
      exact aux _ (fun c hc => hpresent c (List.mem_reverse.1 hc))
    rw [this, List.length_reverse]
  · intro hne
    have hl : 0 < cs.length := List.length_pos_iff.2 hne
    have hv : validIndex (-1) cs.length = true := (validIndex_iff _ _).2 ⟨by omega, by omega⟩
    rcases readingByIndex_spec cs name (-1) with ⟨_, e⟩ | ⟨e, _⟩
    · rw [e]; exact hpresent _ (List.getElem_mem _)
    · rw [hv] at e; cases e

/-- a truthy reading is in particular not `None`: `find_indicator` implies presence, never the converse -/
theorem truthy_not_none (v : Val F) (h : v.truthy = true) : v.isNone = false := by
  cases v with
  | s x => cases x <;> simp_all [Val.truthy, Scalar.truthy, Val.isNone]
  | dict d => rfl

/-! ### association lists as Python dicts -/

/-- the keys of an association list; a Python dict has each key once -/
def keys {α : Type} (l : List (String × α)) : List String := l.map (·.1)

omit [PyF F] in
theorem dlookup_eq_none_iff {α : Type} (k : String) (l : List (String × α)) :
    dlookup k l = none ↔ k ∉ keys l := by
  induction l with
  | nil => simp [keys]
  | cons p r ih =>
    obtain ⟨k', v⟩ := p
    unfold dlookup
    by_cases h : k' = k
    · simp [h, keys]
    · simp only [h, if_false, ih, keys, List.map_cons, List.mem_cons, not_or]
      exact ⟨fun x => ⟨fun e => h e.symm, x⟩, fun x => x.2⟩

omit [PyF F] in
theorem dlookup_of_mem_nodup {α : Type} (l : List (String × α)) (hn : (keys l).Nodup) (k : String) (v : α)
    (hm : (k, v) ∈ l) : dlookup k l = some v := by
  induction l with
  | nil => cases hm
  | cons p r ih =>
    obtain ⟨k', v'⟩ := p
    have hn' := List.nodup_cons.1 hn
    unfold dlookup
    rcases List.mem_cons.1 hm with e | hm'
    · cases e; simp
    · have hk : k ∈ keys r := List.mem_map.2 ⟨(k, v), hm', rfl⟩
      have hne : k' ≠ k := fun e => hn'.1 (e ▸ hk)
      simp only [hne, if_false]
      exact ih hn'.2 hm'

/-- "equal as dicts": the same keys, and under every key values related by `eqv` -/
def DictRel {α : Type} (eqv : α → α → Bool) (a b : List (String × α)) : Prop :=
  ∀ k, (dlookup k a = none ∧ dlookup k b = none) ∨
       ∃ v w, dlookup k a = some v ∧ dlookup k b = some w ∧ eqv v w = true

omit [PyF F] in
theorem dictPyEq_iff_all {α : Type} (eqv : α → α → Bool) (a b : List (String × α)) :
    dictPyEq eqv a b = true ↔
      a.length = b.length ∧ ∀ k v, (k, v) ∈ a → ∃ w, dlookup k b = some w ∧ eqv v w = true := by
  unfold dictPyEq
  simp only [Bool.and_eq_true, beq_iff_eq, List.all_eq_true]
  constructor
  · rintro ⟨h1, h2⟩
    refine ⟨h1, fun k v hm => ?_⟩
    have := h2 (k, v) hm
    dsimp only at this
    cases hb : dlookup k b with
    | none => rw [hb] at this; cases this
    | some w => rw [hb] at this; exact ⟨w, rfl, this⟩
  · rintro ⟨h1, h2⟩
    refine ⟨h1, fun p hm => ?_⟩
    obtain ⟨k, v⟩ := p
    obtain ⟨w, hw, he⟩ := h2 k v hm
    dsimp only
    rw [hw]; exact he

omit [PyF F] in
/-- **`dict.__eq__`** on dicts (each key once): order-insensitive, key sets equal, values pairwise `==` -/
theorem dictPyEq_iff {α : Type} (eqv : α → α → Bool) (a b : List (String × α))
    (ha : (keys a).Nodup) (hb : (keys b).Nodup) : dictPyEq eqv a b = true ↔ DictRel eqv a b := by
  rw [dictPyEq_iff_all]
  constructor
  · rintro ⟨hlen, hall⟩
    have hsub : keys a ⊆ keys b := by
      intro k hk
      obtain ⟨p, hp, rfl⟩ := List.mem_map.1 hk
      obtain ⟨w, hw, _⟩ := hall p.1 p.2 hp
      by_contra hc
      rw [(dlookup_eq_none_iff _ _).2 hc] at hw; cases hw
    have hperm : (keys a).Perm (keys b) :=
      (List.subperm_of_subset ha hsub).perm_of_length_le (by simp [keys, hlen])
    intro k
    cases hka : dlookup k a with
    | none =>
      left; refine ⟨rfl, ?_⟩
      rw [dlookup_eq_none_iff] at hka ⊢
      exact fun hk => hka (hperm.mem_iff.2 hk)
    | some v =>
      right
      obtain ⟨w, hw, he⟩ := hall k v (Writes.dlookup_mem hka)
      exact ⟨v, w, rfl, hw, he⟩
  · intro hrel
    have hmem : ∀ k, k ∈ keys a ↔ k ∈ keys b := by
      intro k
      rcases hrel k with ⟨h1, h2⟩ | ⟨v, w, h1, h2, _⟩
      · rw [dlookup_eq_none_iff] at h1 h2; exact ⟨fun x => absurd x h1, fun x => absurd x h2⟩
      · have a1 : k ∈ keys a := by by_contra hc; rw [(dlookup_eq_none_iff _ _).2 hc] at h1; cases h1
        have b1 : k ∈ keys b := by by_contra hc; rw [(dlookup_eq_none_iff _ _).2 hc] at h2; cases h2
        exact ⟨fun _ => b1, fun _ => a1⟩
    have hperm : (keys a).Perm (keys b) := (List.perm_ext_iff_of_nodup ha hb).2 hmem
    refine ⟨by simpa [keys] using hperm.length_eq, fun k v hm => ?_⟩
    have hka := dlookup_of_mem_nodup a ha k v hm
    rcases hrel k with ⟨h1, _⟩ | ⟨v', w, h1, h2, he⟩
    · rw [hka] at h1; cases h1
    · rw [hka] at h1; cases h1; exact ⟨w, h2, he⟩

omit [PyF F] in
theorem DictRel.symm {α : Type} {eqv : α → α → Bool} (hs : ∀ x y, eqv x y = eqv y x) {a b : List (String × α)}
    (h : DictRel eqv a b) : DictRel eqv b a := by
  intro k
  rcases h k with ⟨h1, h2⟩ | ⟨v, w, h1, h2, he⟩
  · exact Or.inl ⟨h2, h1⟩
  · exact Or.inr ⟨w, v, h2, h1, by rw [hs]; exact he⟩

omit [PyF F] in
theorem DictRel.refl {α : Type} {eqv : α → α → Bool} (a : List (String × α))
    (hr : ∀ p ∈ a, eqv p.2 p.2 = true) : DictRel eqv a a := by
  intro k
  cases hk : dlookup k a with
  | none => exact Or.inl ⟨rfl, rfl⟩
  | some v => exact Or.inr ⟨v, v, rfl, rfl, hr (k, v) (Writes.dlookup_mem hk)⟩

omit [PyF F] in
theorem dictPyEq_symm {α : Type} (eqv : α → α → Bool) (hs : ∀ x y, eqv x y = eqv y x) (a b : List (String × α))
    (ha : (keys a).Nodup) (hb : (keys b).Nodup) : dictPyEq eqv a b = dictPyEq eqv b a := by
  rw [Bool.eq_iff_iff, dictPyEq_iff eqv a b ha hb, dictPyEq_iff eqv b a hb ha]
  exact ⟨DictRel.symm hs, DictRel.symm hs⟩

omit [PyF F] in
theorem dictPyEq_refl {α : Type} (eqv : α → α → Bool) (a : List (String × α)) (ha : (keys a).Nodup)
    (hr : ∀ p ∈ a, eqv p.2 p.2 = true) : dictPyEq eqv a a = true :=
  (dictPyEq_iff eqv a a ha ha).2 (DictRel.refl a hr)

/-! ### the domain of `==`: no NaN, dicts with each key once -/

/-- `x == x` on the carrier: the float is not a NaN -/
def Num.NotNaN : Num F → Prop
  | .int _ => True
  | .flt x => PyF.beq x x = true

def Scalar.NotNaN : Scalar F → Prop
  | .num n => Num.NotNaN n
  | _ => True

/-- a reading without NaN whose dict (if it is one) has each key once -/
def Val.EqDomain : Val F → Prop
  | .s x => Scalar.NotNaN x
  | .dict d => (keys d).Nodup ∧ ∀ p ∈ d, Scalar.NotNaN p.2

/-- a candle on which `==` is meaningful: no NaN anywhere, every dict with each key once -/
structure CandleEqDomain (x : Candle F) : Prop where
  o : Num.NotNaN x.o
  h : Num.NotNaN x.h
  l : Num.NotNaN x.l
  c : Num.NotNaN x.c
  v : Num.NotNaN x.v
  indsKeys : (keys x.inds).Nodup
  subsKeys : (keys x.subs).Nodup
  indsVals : ∀ p ∈ x.inds, Val.EqDomain p.2
  subsVals : ∀ p ∈ x.subs, Val.EqDomain p.2

/-- float `==` is symmetric (true of IEEE doubles, of every exact field, of the toy carrier) -/
def BeqSymm (F : Type) [PyF F] : Prop := ∀ x y : F, PyF.beq x y = PyF.beq y x

theorem Num.eq_refl (n : Num F) (h : Num.NotNaN n) : n.eq n = true := by
  cases n with
  | int a => simp [Hex.Num.eq]
  | flt x => exact h

theorem Num.eq_symm (hs : BeqSymm F) (a b : Num F) : a.eq b = b.eq a := by
  cases a with
  | int i =>
    cases b with
    | int j =>
      show (i == j) = (j == i)
      rw [Bool.eq_iff_iff]; simp only [beq_iff_eq]; exact eq_comm
    | flt y => exact hs _ _
  | flt x =>
    cases b with
    | int j => exact hs _ _
    | flt y => exact hs _ _

theorem Scalar.pyEq_refl (x : Scalar F) (h : Scalar.NotNaN x) : x.pyEq x = true := by
  cases x with
  | none => rfl
  | bool b => cases b <;> simp [Scalar.pyEq, Scalar.num?, Hex.Num.eq]
  | num n => exact Num.eq_refl n h

theorem Scalar.pyEq_symm (hs : BeqSymm F) (a b : Scalar F) : a.pyEq b = b.pyEq a := by
  unfold Scalar.pyEq
  cases a.num? <;> cases b.num? <;> simp only [Num.eq_symm hs]

/-- **the numeric tower**: `True == 1 == 1.0`, `False == 0`, `None` only equals `None` -/
theorem Scalar.pyEq_tower :
    (Scalar.bool true : Scalar F).pyEq (.num (.int 1)) = true ∧
    (Scalar.bool false : Scalar F).pyEq (.num (.int 0)) = true ∧
    (∀ x : F, (Scalar.bool true : Scalar F).pyEq (.num (.flt x)) = PyF.beq (PyF.ofInt 1) x) ∧
    (∀ (i : Int) (x : F), (Scalar.num (.int i) : Scalar F).pyEq (.num (.flt x)) = PyF.beq (PyF.ofInt i) x) ∧
    (∀ x : Scalar F, (Scalar.none : Scalar F).pyEq x = x.isNone) := by
  refine ⟨rfl, rfl, fun _ => rfl, fun _ _ => rfl, fun x => ?_⟩
  cases x <;> rfl

theorem Val.pyEq_refl (v : Val F) (h : Val.EqDomain v) : v.pyEq v = true := by
  cases v with
  | s x => exact Scalar.pyEq_refl x h
  | dict d => exact dictPyEq_refl _ d h.1 (fun p hp => Scalar.pyEq_refl _ (h.2 p hp))

theorem Val.pyEq_symm (hs : BeqSymm F) (a b : Val F) (ha : Val.EqDomain a) (hb : Val.EqDomain b) :
    a.pyEq b = b.pyEq a := by
  cases a with
  | s x =>
    cases b with
    | s y => exact Scalar.pyEq_symm hs x y
    | dict e => rfl
  | dict d =>
    cases b with
    | s y => rfl
    | dict e => exact dictPyEq_symm _ (Scalar.pyEq_symm hs) d e ha.1 hb.1

/-- a dict reading never equals a scalar reading -/
theorem Val.pyEq_dict_scalar (d : List (String × Scalar F)) (x : Scalar F) :
    (Val.dict d).pyEq (.s x) = false ∧ (Val.s x).pyEq (.dict d) = false := ⟨rfl, rfl⟩

/-! ### `Candle.__eq__` -/

/-- `candle == <not a Candle>` is `False` -/
theorem candle_pyEq_none (a : Candle F) : a.pyEq none = false := rfl

/-- **What `Candle.__eq__` compares**: exactly open / high / low / close / volume (Python numeric `==`),
the timestamp, and the two reading dicts as dicts with `==` on the values. -/
theorem candle_pyEq_iff (a b : Candle F) :
    a.pyEq (some b) = true ↔
      (a.o.eq b.o = true ∧ a.h.eq b.h = true ∧ a.l.eq b.l = true ∧ a.c.eq b.c = true ∧ a.v.eq b.v = true ∧
       a.ts = b.ts ∧ dictPyEq Val.pyEq a.inds b.inds = true ∧ dictPyEq Val.pyEq a.subs b.subs = true) := by
  simp only [Candle.pyEq, Bool.and_eq_true, beq_iff_eq, and_assoc]

/-- … on candles whose dicts have each key once: the same keys in `indicators` (resp. `sub_indicators`), in any
order, with `==` readings -/
theorem candle_pyEq_iff_rel (a b : Candle F) (ha : CandleEqDomain a) (hb : CandleEqDomain b) :
    a.pyEq (some b) = true ↔
      (a.o.eq b.o = true ∧ a.h.eq b.h = true ∧ a.l.eq b.l = true ∧ a.c.eq b.c = true ∧ a.v.eq b.v = true ∧
       a.ts = b.ts ∧ DictRel Val.pyEq a.inds b.inds ∧ DictRel Val.pyEq a.subs b.subs) := by
  rw [candle_pyEq_iff, dictPyEq_iff _ _ _ ha.indsKeys hb.indsKeys, dictPyEq_iff _ _ _ ha.subsKeys hb.subsKeys]

/-- **neither the tag nor `clean_values` count** (on either side) -/
theorem candle_pyEq_ignores_tag_clean (a b : Candle F) (t t' : Bool) (k k' : Option (Clean F)) :
    ({ a with tag := t, clean := k } : Candle F).pyEq (some { b with tag := t', clean := k' }) = a.pyEq (some b) := rfl

/-- candles that differ ONLY in tag / clean values are equal for `==` iff the candle equals itself -/
theorem candle_pyEq_retag (a : Candle F) (t : Bool) (k : Option (Clean F)) :
    a.pyEq (some { a with tag := t, clean := k }) = a.pyEq (some a) := rfl

/-- **Reflexive** on candles without NaN -/
theorem candle_pyEq_refl (a : Candle F) (ha : CandleEqDomain a) : a.pyEq (some a) = true := by
  rw [candle_pyEq_iff]
  refine ⟨Num.eq_refl _ ha.o, Num.eq_refl _ ha.h, Num.eq_refl _ ha.l, Num.eq_refl _ ha.c, Num.eq_refl _ ha.v, rfl,
    dictPyEq_refl _ _ ha.indsKeys (fun p hp => Val.pyEq_refl _ (ha.indsVals p hp)),
    dictPyEq_refl _ _ ha.subsKeys (fun p hp => Val.pyEq_refl _ (ha.subsVals p hp))⟩

/-- a NaN price makes a candle unequal to itself -/
theorem candle_pyEq_nan (a : Candle F) (x : F) (ho : a.o = .flt x) (hx : PyF.beq x x = false) :
    a.pyEq (some a) = false := by
  simp [Candle.pyEq, ho, Hex.Num.eq, Num.toF, hx]

omit [PyF F] in
theorem DictRel.congr {α : Type} {e1 e2 : α → α → Bool} {a b : List (String × α)}
    (h : ∀ p ∈ a, ∀ q ∈ b, e1 p.2 q.2 = true → e2 p.2 q.2 = true) (hr : DictRel e1 a b) : DictRel e2 a b := by
  intro k
  rcases hr k with h0 | ⟨v, w, h1, h2, he⟩
  · exact Or.inl h0
  · exact Or.inr ⟨v, w, h1, h2, h (k, v) (Writes.dlookup_mem h1) (k, w) (Writes.dlookup_mem h2) he⟩

/-- **Symmetric** -/
theorem candle_pyEq_symm (hs : BeqSymm F) (a b : Candle F) (ha : CandleEqDomain a) (hb : CandleEqDomain b) :
    a.pyEq (some b) = b.pyEq (some a) := by
  have key : ∀ (a b : Candle F), CandleEqDomain a → CandleEqDomain b → a.pyEq (some b) = true → b.pyEq (some a) = true := by
    intro a b ha hb h
    rw [candle_pyEq_iff_rel a b ha hb] at h
    rw [candle_pyEq_iff_rel b a hb ha]
    obtain ⟨h1, h2, h3, h4, h5, h6, h7, h8⟩ := h
    refine ⟨by rw [Num.eq_symm hs]; exact h1, by rw [Num.eq_symm hs]; exact h2, by rw [Num.eq_symm hs]; exact h3,
      by rw [Num.eq_symm hs]; exact h4, by rw [Num.eq_symm hs]; exact h5, h6.symm, ?_, ?_⟩
    · intro k
      rcases h7 k with ⟨x, y⟩ | ⟨v, w, x, y, he⟩
      · exact Or.inl ⟨y, x⟩
      · refine Or.inr ⟨w, v, y, x, ?_⟩
        rw [Val.pyEq_symm hs w v (hb.indsVals _ (Writes.dlookup_mem y)) (ha.indsVals _ (Writes.dlookup_mem x))]
        exact he
    · intro k
      rcases h8 k with ⟨x, y⟩ | ⟨v, w, x, y, he⟩
      · exact Or.inl ⟨y, x⟩
      · refine Or.inr ⟨w, v, y, x, ?_⟩
        rw [Val.pyEq_symm hs w v (hb.subsVals _ (Writes.dlookup_mem y)) (ha.subsVals _ (Writes.dlookup_mem x))]
        exact he
  exact Bool.eq_iff_iff.2 ⟨key a b ha hb, key b a hb ha⟩

/-- **`==` implies equality of everything an indicator may not touch, up to Python's numeric tower** – prices
and volume `==` as numbers (`1 == 1.0`), the timestamp identical – and says NOTHING about the tag and the clean
values (the remaining components of `Candle.core`) -/
theorem candle_pyEq_core (a b : Candle F) (h : a.pyEq (some b) = true) :
    (Scalar.num a.o).pyEq (.num b.o) = true ∧ (Scalar.num a.h).pyEq (.num b.h) = true ∧
    (Scalar.num a.l).pyEq (.num b.l) = true ∧ (Scalar.num a.c).pyEq (.num b.c) = true ∧
    (Scalar.num a.v).pyEq (.num b.v) = true ∧ (Candle.core a).2.2.2.2.2.1 = (Candle.core b).2.2.2.2.2.1 := by
  obtain ⟨h1, h2, h3, h4, h5, h6, _, _⟩ := (candle_pyEq_iff a b).1 h
  exact ⟨h1, h2, h3, h4, h5, h6⟩

/-- conversely, identical price / volume / timestamp / reading dicts give `==` on the domain, whatever the tags
and clean values are -/
theorem candle_pyEq_of_core (a b : Candle F) (ha : CandleEqDomain a)
    (ho : a.o = b.o) (hh : a.h = b.h) (hl : a.l = b.l) (hc : a.c = b.c) (hv : a.v = b.v) (hts : a.ts = b.ts)
    (hi : a.inds = b.inds) (hsb : a.subs = b.subs) : a.pyEq (some b) = true := by
  have : a.pyEq (some b) = a.pyEq (some a) := by
    simp only [Candle.pyEq, ← ho, ← hh, ← hl, ← hc, ← hv, ← hts, ← hi, ← hsb]
  rw [this]; exact candle_pyEq_refl a ha

/-- `candles[i] == candles[j]`: an `IndexError` out of range, otherwise `Candle.__eq__` of the two candles -/
theorem candlesEqAt_in_range (cs : List (Candle F)) (i j : Int)
    (hi : validIndex i cs.length = true) (hj : validIndex j cs.length = true) :
    candlesEqAt cs i j = .ok ((cs[normIdx i cs.length]'(normIdx_lt _ _ hi)).pyEq
      (some (cs[normIdx j cs.length]'(normIdx_lt _ _ hj)))) := by
  simp only [candlesEqAt, pyIndex_valid cs i hi, pyIndex_valid cs j hj, bind, Except.bind, pure, Except.pure]

theorem candlesEqAt_out_of_range (cs : List (Candle F)) (i j : Int)
    (h : validIndex i cs.length = false ∨ validIndex j cs.length = false) :
    candlesEqAt cs i j = .error .indexError := by
  unfold candlesEqAt
  cases hi : validIndex i cs.length with
  | false => simp only [pyIndex_invalid cs i hi, bind, Except.bind]
  | true =>
    have hj : validIndex j cs.length = false := by
      rcases h with h | h
      · rw [hi] at h; cases h
      · exact h
    simp only [pyIndex_valid cs i hi, pyIndex_invalid cs j hj, bind, Except.bind]

/-- a candle of the list equals itself, addressed positively or negatively -/
theorem candlesEqAt_self (cs : List (Candle F)) (i : Int) (h0 : 0 ≤ i) (h1 : i < cs.length)
    (hd : ∀ c ∈ cs, CandleEqDomain c) : candlesEqAt cs i (i - cs.length) = .ok true := by
  have hi : validIndex i cs.length = true := (validIndex_iff _ _).2 ⟨h1, by omega⟩
  unfold candlesEqAt
  rw [pyIndex_neg cs i h0 h1, pyIndex_valid cs i hi]
  simp only [bind, Except.bind, pure, Except.pure]
  rw [candle_pyEq_refl _ (hd _ (List.getElem_mem _))]

/-! ### `CandleManager.__eq__` -/

theorem mgrIdent_pyEq_none (a : MgrIdent) : a.pyEq none = false := rfl

/-- **`CandleManager.__eq__` compares exactly lifespan, timeframe STRING and fill** -/
theorem mgrIdent_pyEq_iff (a b : MgrIdent) :
    a.pyEq (some b) = true ↔ (a.lifespan = b.lifespan ∧ a.timeframe = b.timeframe ∧ a.fill = b.fill) := by
  simp only [MgrIdent.pyEq, Bool.and_eq_true, beq_iff_eq, and_assoc]

theorem mgrIdent_pyEq_iff_eq (a b : MgrIdent) : a.pyEq (some b) = true ↔ a = b := by
  rw [mgrIdent_pyEq_iff]
  cases a; cases b
  simp

/-- an equivalence relation -/
theorem mgrIdent_pyEq_refl (a : MgrIdent) : a.pyEq (some a) = true := (mgrIdent_pyEq_iff_eq a a).2 rfl
theorem mgrIdent_pyEq_symm (a b : MgrIdent) : a.pyEq (some b) = b.pyEq (some a) :=
  Bool.eq_iff_iff.2 (by rw [mgrIdent_pyEq_iff_eq, mgrIdent_pyEq_iff_eq]; exact eq_comm)
theorem mgrIdent_pyEq_trans (a b c : MgrIdent) (h1 : a.pyEq (some b) = true) (h2 : b.pyEq (some c) = true) :
    a.pyEq (some c) = true := by
  rw [mgrIdent_pyEq_iff_eq] at *; exact h1.trans h2

/-- on managers: the candles, the readings, the Heikin-Ashi switch and the timeframe IN SECONDS play no part;
the timeframe counts as the string it was written as -/
theorem manager_eq_iff (m m' : Manager F) (t t' : Option String) :
    (m.ident t).pyEq (some (m'.ident t')) = true ↔
      (m.cfg.lifespan = m'.cfg.lifespan ∧ t = t' ∧ m.cfg.fill = m'.cfg.fill) := by
  rw [mgrIdent_pyEq_iff]; rfl

theorem manager_eq_ignores (m : Manager F) (t : Option String) (cs : List (Candle F)) (ha : Bool) (tf : Option Int) :
    ({ cfg := { m.cfg with ha := ha, tf := tf }, candles := cs } : Manager F).ident t = m.ident t := rfl

/-- the same hour written two ways (`"T60"` / `"H1"`, both 3600 s) gives UNEQUAL managers -/
theorem manager_eq_timeframe_string (cs : List (Candle F)) :
    (({ cfg := { tf := some 3600 }, candles := cs } : Manager F).ident (some "T60")).pyEq
      (some (({ cfg := { tf := some 3600 }, candles := cs } : Manager F).ident (some "H1"))) = false := by
  simp [Manager.ident, MgrIdent.pyEq]

end Hex.Surf

#print axioms Hex.Surf.findIndicator_iff
#print axioms Hex.Surf.findIndicator_misses_falsy_series
#print axioms Hex.Surf.dictPyEq_iff
#print axioms Hex.Surf.candle_pyEq_iff
#print axioms Hex.Surf.candle_pyEq_iff_rel
#print axioms Hex.Surf.candle_pyEq_ignores_tag_clean
#print axioms Hex.Surf.candle_pyEq_refl
#print axioms Hex.Surf.candle_pyEq_symm
#print axioms Hex.Surf.candle_pyEq_core
#print axioms Hex.Surf.candle_pyEq_of_core
#print axioms Hex.Surf.candlesEqAt_in_range
#print axioms Hex.Surf.candlesEqAt_self
#print axioms Hex.Surf.mgrIdent_pyEq_iff
#print axioms Hex.Surf.mgrIdent_pyEq_iff_eq
#print axioms Hex.Surf.mgrIdent_pyEq_trans
#print axioms Hex.Surf.manager_eq_iff

import HexProofs.Access.SurfaceHexital
import HexProofs.Access.SurfaceWrites
/-
Non-vacuity of `HexProofs/Access/Surface*.lean` over the toy carrier `Int`: a REAL run of the model (a Hexital with a
member on the default manager and a member on a 120 s timeframe, five 60 s candles appended) on which the hypotheses
of the main theorems hold, plus the concrete witnesses of the two statements that are false as asked.
-/
namespace Hex.Surf.Demo
open Hex Hex.Surf

deriving instance DecidableEq for Hex.Num, Hex.Scalar, Hex.Val, Hex.Clean, Hex.Candle

def isOk {α : Type} : PyM α → Bool
  | .ok _ => true
  | .error _ => false

def getOk {α : Type} [Inhabited α] : PyM α → α
  | .ok a => a
  | .error _ => default

theorem eq_ok_getOk {α : Type} [Inhabited α] (x : PyM α) (h : isOk x = true) : x = .ok (getOk x) := by
  cases x with
  | ok a => rfl
  | error e => cases h

/-! ### the run -/

def cndl (t p : Int) : Candle Int :=
  { o := .int p, h := .int (p + 1), l := .int (p - 1), c := .int p, v := .int 10, ts := some t }
def raw : List (Candle Int) := [cndl 60 1, cndl 120 2, cndl 180 3, cndl 240 4, cndl 300 6]
def sma : Member Int := { tree := mkTop (.sma 2 "close") "SMA_2" 4, tfName := none, tfSecs := none }
def smaTf : Member Int := { tree := mkTop (.sma 2 "close") "SMA_2_T2" 4, tfName := some "T2", tfSecs := some 120 }

/-- `Hexital("demo", [], [SMA(2), SMA(2, timeframe="T2", name="SMA_2_T2")])` then `append(raw)` -/
def run : PyM (Hexital Int) := do
  let h ← Hexital.init {} none [] [sma, smaTf]
  h.append raw

def hx : Hexital Int := getOk run
def dm : Manager Int := getOk (hx.manager defaultKey)
/-- `hx.indicator("SMA_2_T2")` -/
def sTf : IndState Int := getOk (hx.indicator "SMA_2_T2")
def sD : IndState Int := getOk (hx.indicator "SMA_2")

theorem run_ok : run = .ok hx := eq_ok_getOk _ (by decide +kernel)
theorem dm_ok : hx.manager defaultKey = .ok dm := eq_ok_getOk _ (by decide +kernel)
theorem sTf_ok : hx.indicator "SMA_2_T2" = .ok sTf := eq_ok_getOk _ (by decide +kernel)
theorem sD_ok : hx.indicator "SMA_2" = .ok sD := eq_ok_getOk _ (by decide +kernel)

/-- what the run produced: five candles on the default manager, three on the 120 s one -/
example : hx.managers.map (·.1) = ["default", "T2"] ∧
    dm.candles.map (fun c => (c.ts, c.c, c.v)) = [(some 60, .int 1, .int 10), (some 120, .int 2, .int 10),
      (some 180, .int 3, .int 10), (some 240, .int 4, .int 10), (some 300, .int 6, .int 10)] ∧
    dm.candles.map (fun c => c.inds) = [[("SMA_2", .none)], [("SMA_2", .flt 1)], [("SMA_2", .flt 2)],
      [("SMA_2", .flt 3)], [("SMA_2", .flt 5)]] ∧
    sTf.mgr.candles.map (fun c => (c.ts, c.c, c.v)) = [(some 120, .int 2, .int 20), (some 240, .int 4, .int 20),
      (some 360, .int 6, .int 10)] ∧
    sTf.mgr.candles.map (fun c => c.inds) = [[("SMA_2_T2", .none)], [("SMA_2_T2", .flt 3)], [("SMA_2_T2", .flt 5)]] := by
  decide +kernel

/-! ### part 1: the new accessors (C20) -/

example : validateIndex (some (-2)) 5 (-1) = some (-2) ∧ validateIndex none 5 (-1) = some (-1) ∧
    validateIndex (some 5) 5 (-1) = none ∧ validateIndex (some (-6)) 5 (-1) = none ∧
    absIndexOpt (some (-2)) 5 = some 3 ∧ absIndexOpt none 5 = some 4 ∧ absIndexOpt (some 5) 5 = none ∧
    validIndexOpt none 5 = false ∧ validIndexOpt (some (-5)) 5 = true ∧ validIndexOpt (some 5) 5 = false := by decide

/-- `readCandleAt_in_range` / `readCandleAt_negative_index` on the timeframe member: index `-1` and `2` are in
range and address the same candle, whose reading is `5.0` -/
example : sTf.readCandleAt (-1) none = .ok (.flt 5) ∧ sTf.readCandleAt 2 none = .ok (.flt 5) ∧
    sTf.ctx.reading "SMA_2_T2" (some (-1)) = .ok (.flt 5) ∧ sTf.readCandleAt 3 none = .error .indexError ∧
    sTf.readCandleAt (-4) none = .error .indexError := by decide +kernel

example : sTf.readCandleAt (2 - sTf.mgr.candles.length) none = sTf.readCandleAt 2 none :=
  readCandleAt_negative_index sTf 2 none (by decide) (by decide +kernel)

example : ∃ hlt, sTf.readCandleAt (-1) none = .ok (readingByCandle (sTf.mgr.candles[normIdx (-1) sTf.mgr.candles.length]'hlt) (none.getD sTf.tree.name)) := by
  obtain ⟨hlt, h, _⟩ := readCandleAt_in_range sTf (-1) none (by decide +kernel) (by decide +kernel)
  exact ⟨hlt, h⟩

/-- plain key, candle attribute, dotted name on one candle -/
def dictCandle : Candle Int :=
  { cndl 60 1 with inds := [("MACD", .dict [("MACD", .num (.int 7)), ("signal", .none)]), ("ZERO", .int 0)] }
example : IsKey "ZERO" ∧ NoDot "MACD" ∧ NoDot "signal" ∧ NoDot "close" := by decide
example : sD.readCandle dictCandle (some "ZERO") = .int 0 ∧ sD.readCandle dictCandle (some "MACD.MACD") = .int 7 ∧
    sD.readCandle dictCandle (some "MACD.signal") = .none ∧ sD.readCandle dictCandle (some "MACD.nope") = .none ∧
    sD.readCandle dictCandle (some "close") = .int 1 ∧ sD.readCandle dictCandle none = .none := by decide +kernel
example : sD.readCandle dictCandle (some ("MACD" ++ "." ++ "MACD")) =
    match lookupEntry dictCandle "MACD" with | some r => r.nested "MACD" | none => .none :=
  readCandle_dotted sD dictCandle "MACD" "MACD" (by decide) (by decide)

/-- `Hexital.indicator` is the registered member over ITS manager's candles -/
example : sTf.mgr.candles.length = 3 ∧ sD.mgr.candles.length = 5 ∧ sTf.tree.name = "SMA_2_T2" ∧ sTf.active = 2 := by
  decide +kernel

/-- `hexital_reading_eq_indicator` applies to the timeframe member (its name lives on its manager only): all three
routes give `5.0` at `-1`, and `None` at index `3`, where the member object raises -/
example : hx.reading "SMA_2_T2" (-1) = sTf.readCandleAt (-1) (some "SMA_2_T2") ∧
    hx.reading "SMA_2_T2" (-1) = sTf.ctx.reading "SMA_2_T2" (some (-1)) :=
  (hexital_reading_eq_indicator hx "SMA_2_T2" "SMA_2_T2" (-1) sTf sTf_ok dm dm_ok (by decide +kernel)).2
    (by decide +kernel) (by decide +kernel)
example : hx.reading "SMA_2_T2" (-1) = .ok (.flt 5) ∧ hx.reading "SMA_2_T2" 3 = .ok .none ∧
    sTf.readCandleAt 3 (some "SMA_2_T2") = .error .indexError ∧ hx.hasReading "SMA_2_T2" = .ok true := by decide +kernel
example : hx.readingAsList "SMA_2_T2" = .ok (sTf.asList (some "SMA_2_T2")) :=
  readingAsList_own hx "SMA_2_T2" (by decide) sTf sTf_ok
example : hx.readingAsList "SMA_2_T2" = .ok [.none, .flt 3, .flt 5] := by decide +kernel

/-- **the "prefers the default manager" rule bites on candle attributes**: `Hexital.reading("volume")` is the DEFAULT
manager's volume (10) although the member's own latest candle, a collapsed 120 s candle, has volume 20 at `-2` -/
example : hx.reading "volume" (-2) = .ok (.int 10) ∧ sTf.readCandleAt (-2) (some "volume") = .ok (.int 20) := by
  decide +kernel

/-- **`reading(name, None) = reading(name, -1)` is FALSE**: `None` on one side, `5.0` on the other -/
theorem readingOpt_none_ne_last : hx.readingOpt "SMA_2" none ≠ hx.reading "SMA_2" (-1) := by decide +kernel
example : hx.readingOpt "SMA_2" none = .ok .none ∧ hx.reading "SMA_2" (-1) = .ok (.flt 5) := by decide +kernel
example : hx.readingOpt "SMA_2" none = .ok .none := readingOpt_none hx "SMA_2" dm dm_ok
/-- the member object, by contrast, reads its active (= latest) candle for `None` -/
example : sD.ctx.reading "SMA_2" none = .ok (.flt 5) := by decide +kernel

/-! ### part 2: `find_indicator` -/

/-- a flat market at price 0: `SMA_2` is `0.0` on every candle but the first -/
def flat : List (Candle Int) := [cndl 60 0, cndl 120 0, cndl 180 0]
def flatRun : PyM (IndState Int) := do
  let s ← IndState.init sma.tree {} []
  s.append flat
def sFlat : IndState Int := getOk flatRun
example : isOk flatRun = true := by decide +kernel
example : sFlat.mgr.candles.map (fun c => c.inds) = [[("SMA_2", .none)], [("SMA_2", .flt 0)], [("SMA_2", .flt 0)]] := by
  decide +kernel
/-- "not found", although the indicator has a reading (`has_reading`) and a reading count of 2 -/
theorem find_misses_zero_series : findIndicator sFlat.mgr.candles "SMA_2" = false ∧ sFlat.hasReading = .ok true ∧
    readingCount sFlat.mgr.candles "SMA_2" = 2 := by decide +kernel
/-- the general lemma on the part of the series that has readings -/
example : findIndicator (sFlat.mgr.candles.drop 1) "SMA_2" = false ∧
    readingCount (sFlat.mgr.candles.drop 1) "SMA_2" = (sFlat.mgr.candles.drop 1).length :=
  let h := findIndicator_misses_falsy_series (sFlat.mgr.candles.drop 1) "SMA_2" (by decide +kernel) (by decide +kernel)
  ⟨h.1, h.2.1⟩
example : findIndicator dm.candles "SMA_2" = true ∧ findIndicator dm.candles "SMA_2_T2" = false := by decide +kernel

/-! ### part 3: `==` -/

theorem int_notNaN (n : Num Int) : Num.NotNaN n := by
  cases n with
  | int i => trivial
  | flt x => show (x == x) = true; simp

theorem beqSymm_int : BeqSymm Int := fun x y => by
  show (x == y) = (y == x)
  rw [Bool.eq_iff_iff]; simp only [beq_iff_eq]; exact eq_comm

def valKeysOK : Val Int → Bool
  | .s _ => true
  | .dict d => decide (keys d).Nodup

theorem int_valEqDomain (v : Val Int) (h : valKeysOK v = true) : Val.EqDomain v := by
  cases v with
  | s x => cases x <;> first | trivial | exact int_notNaN _
  | dict d =>
    refine ⟨by simpa [valKeysOK] using h, fun p _ => ?_⟩
    cases p.2 <;> first | trivial | exact int_notNaN _

theorem int_candleEqDomain (c : Candle Int) (h1 : (keys c.inds).Nodup) (h2 : (keys c.subs).Nodup)
    (h3 : ∀ p ∈ c.inds, valKeysOK p.2 = true) (h4 : ∀ p ∈ c.subs, valKeysOK p.2 = true) : CandleEqDomain c :=
  ⟨int_notNaN _, int_notNaN _, int_notNaN _, int_notNaN _, int_notNaN _, h1, h2,
   fun p hp => int_valEqDomain _ (h3 p hp), fun p hp => int_valEqDomain _ (h4 p hp)⟩

/-- the same candle written with floats, `True` for `1`, the dict keys in another order, tagged, with clean values -/
def dictCandle' : Candle Int :=
  { o := .flt 1, h := .flt 2, l := .int 0, c := .int 1, v := .flt 10, ts := some 60,
    inds := [("ZERO", .bool false), ("MACD", .dict [("signal", .none), ("MACD", .num (.flt 7))])],
    tag := true, clean := some { o := .int 9, h := .int 9, l := .int 9, c := .int 9, v := .int 9, ts := none } }
theorem dom1 : CandleEqDomain dictCandle := int_candleEqDomain _ (by decide) (by decide) (by decide) (by decide)
theorem dom2 : CandleEqDomain dictCandle' := int_candleEqDomain _ (by decide) (by decide) (by decide) (by decide)
example : dictCandle.pyEq (some dictCandle') = true ∧ dictCandle'.pyEq (some dictCandle) = true ∧
    dictCandle.pyEq none = false ∧ dictCandle.pyEq (some (cndl 60 1)) = false := by decide
example : dictCandle.pyEq (some dictCandle) = true := candle_pyEq_refl _ dom1
example : dictCandle.pyEq (some dictCandle') = dictCandle'.pyEq (some dictCandle) :=
  candle_pyEq_symm beqSymm_int _ _ dom1 dom2
example : ∀ c ∈ dm.candles, CandleEqDomain c := fun c hc =>
  int_candleEqDomain c ((by decide +kernel : ∀ c ∈ dm.candles, (keys c.inds).Nodup) c hc)
    ((by decide +kernel : ∀ c ∈ dm.candles, (keys c.subs).Nodup) c hc)
    ((by decide +kernel : ∀ c ∈ dm.candles, ∀ p ∈ c.inds, valKeysOK p.2 = true) c hc)
    ((by decide +kernel : ∀ c ∈ dm.candles, ∀ p ∈ c.subs, valKeysOK p.2 = true) c hc)
example : candlesEqAt dm.candles 1 (-4) = .ok true ∧ candlesEqAt dm.candles 1 2 = .ok false ∧
    candlesEqAt dm.candles 1 5 = .error .indexError := by decide +kernel

example : ((dm.ident none).pyEq (some (sTf.mgr.ident (some "T2")))) = false ∧
    ((sTf.mgr.ident (some "T2")).pyEq (some (sTf.mgr.ident (some "T2")))) = true ∧
    ((dm.ident none).pyEq (some (({ cfg := { ha := true }, candles := [] } : Manager Int).ident none))) = true := by
  decide +kernel

/-! ### part 4: `purge(str)` and the tag setter -/

example : IsKey "SMA_2" := by decide
example : findIndicator (dm.purgeName "SMA_2").candles "SMA_2" = false ∧
    readingCount (dm.purgeName "SMA_2").candles "SMA_2" = 0 := (purgeName_gone dm "SMA_2" (by decide)).2
example : (dm.purgeName "SMA_2").candles.map (fun c => (c.ts, c.c, c.inds)) =
    [(some 60, .int 1, []), (some 120, .int 2, []), (some 180, .int 3, []), (some 240, .int 4, []), (some 300, .int 6, [])] := by
  decide +kernel
example : (dm.purgeName "SMA_9").candles = dm.candles := by decide +kernel

example : isOk (dm.tagAt (-1)) = true ∧ isOk (dm.tagAt 4) = true ∧
    (getOk (dm.tagAt (-1))).candles.map (·.tag) = [false, false, false, false, true] ∧
    (getOk (dm.tagAt (-1))).candles.map (fun c => { c with tag := false }) = dm.candles ∧
    isOk ((getOk (dm.tagAt (-1))).tagAt 4) = false ∧ isOk (dm.tagAt 5) = false := by decide +kernel
example : (getOk (dm.tagAt (-1))).tagAt (-1) = .error .alreadyTagged :=
  tagAt_twice dm _ (-1) (eq_ok_getOk _ (by decide +kernel))
/-- a Heikin-Ashi manager has tagged its candles itself: tagging one again is `CandleAlreadyTagged` -/
example : (do let m ← Manager.init { ha := true } raw; m.tagAt 0 : PyM (Manager Int)).toOption.isNone = true ∧
    isOk (Manager.init (F := Int) { ha := true } raw) = true := by decide +kernel

/-! ### part 5: ISO-8601 string timestamps -/

instance (c : Candle Int) : Decidable (Fresh c) := by unfold Fresh; infer_instance
example : ∀ c ∈ raw, Fresh c := by decide
example : decodeAny (.valid (.dicts (raw.map encodeDictIso))) = .ok raw := (encodings_agree_iso raw (by decide)).1
example : decodeAny (.valid (.dicts (raw.map encodeDictIso))) = .ok raw := by decide +kernel
/-- so appending the ISO-dict form IS appending the candles: the run above, fed with dicts -/
example : (do
    let h ← Hexital.init {} none [] [sma, smaTf]
    let cs ← decodeAny (.valid (.dicts (raw.map encodeDictIso)))
    h.append cs) = run := by
  unfold run
  rw [(encodings_agree_iso raw (by decide)).1]
  rfl
example : isOk (decodeAny (F := Int) .otherObject) = false ∧ isOk (decodeAny (F := Int) .listOfOther) = false := by decide
example : isOk (Hexital.initAny (F := Int) {} none raw [.valid sma, .other]) = false ∧
    isOk (Hexital.initAny (F := Int) {} none raw [.valid sma, .valid smaTf]) = true := by decide +kernel

#print axioms readingOpt_none_ne_last
#print axioms find_misses_zero_series

end Hex.Surf.Demo

import HexModel.Core.Framework
import Mathlib.Tactic.Linarith
/-
Accessor lemmas: Python indexing and the read accessors depend only on the prefix of the
candle list up to the index they are asked about (no look-ahead), and positive / negative
indices address the same candle.
-/
namespace Hex
variable {F : Type} [PyF F]

/-- the prefix of a list up to and including index `i` -/
def upto {α : Type} (l : List α) (i : Int) : List α := l.take (i + 1).toNat

theorem upto_length {α : Type} (l : List α) (i : Int) (h0 : 0 ≤ i) (h1 : i < l.length) :
    (upto l i).length = (i + 1).toNat := by
  unfold upto; rw [List.length_take]; omega

theorem validIndex_iff (idx : Int) (len : Nat) : validIndex idx len = true ↔ (idx < len ∧ -(len : Int) ≤ idx) := by
  simp [validIndex]

theorem pyIndex_nonneg {α : Type} (l : List α) (j : Int) (h0 : 0 ≤ j) :
    pyIndex l j = getOrIndexError l[j.toNat]? := by
  unfold pyIndex
  have : ¬ j < 0 := by omega
  simp [this]

/-- **No look-ahead in indexing**: a non-negative index not beyond `i` sees the same element in
the prefix up to `i` as in the whole list. -/
theorem pyIndex_upto {α : Type} (l : List α) (i j : Int) (h0 : 0 ≤ j) (hj : j ≤ i) :
    pyIndex (upto l i) j = pyIndex l j := by
  rw [pyIndex_nonneg _ j h0, pyIndex_nonneg _ j h0]
  unfold upto
  have : j.toNat < (i + 1).toNat := by omega
  rw [List.getElem?_take_of_lt this]

/-- **Positive and negative indices address the same element.** -/
theorem pyIndex_neg {α : Type} (l : List α) (i : Int) (h0 : 0 ≤ i) (h1 : i < l.length) :
    pyIndex l (i - l.length) = pyIndex l i := by
  unfold pyIndex
  have a : i - (l.length : Int) < 0 := by omega
  have b : ¬ i < 0 := by omega
  have c : (l.length : Int) + (i - l.length) = i := by omega
  simp [a, b, c]

theorem validIndex_upto (l : List (Candle F)) (i j : Int) (h0 : 0 ≤ j) (hj : j ≤ i) (hi : i < l.length) :
    validIndex j (upto l i).length = true ∧ validIndex j l.length = true := by
  rw [upto_length l i (by omega) hi]
  simp [validIndex]; omega

theorem readingByIndex_upto (cs : List (Candle F)) (name : String) (i j : Int)
    (h0 : 0 ≤ j) (hj : j ≤ i) (hi : i < cs.length) :
    readingByIndex (upto cs i) name j = readingByIndex cs name j := by
  obtain ⟨v1, v2⟩ := validIndex_upto cs i j h0 hj hi
  unfold readingByIndex
  rw [v1, v2, pyIndex_upto cs i j h0 hj]

/-- readings at negative look-back positions are `None` on both sides only when guarded; this
lemma covers the guarded form used by `reading_period` -/
theorem readingPeriod_upto (cs : List (Candle F)) (period : Int) (name : String) (i : Int)
    (h0 : 0 ≤ i) (hi : i < cs.length) (hp : 1 ≤ period) :
    readingPeriod (upto cs i) period name i = readingPeriod cs period name i := by
  obtain ⟨v1, v2⟩ := validIndex_upto cs i i h0 (le_refl i) hi
  unfold readingPeriod
  simp only [v1, v2, Bool.not_true, Bool.false_eq_true, if_false]
  by_cases hneg : i - (period - 1) < 0
  · simp [hneg]
  · simp only [hneg, if_false]
    have hp0 : period - 1 ≥ 0 := by omega
    simp only [hp0, ge_iff_le, if_true]
    have hh : 0 ≤ (period - 1) / 2 := Int.ediv_nonneg hp0 (by decide)
    have hh2 : (period - 1) / 2 ≤ period - 1 := Int.ediv_le_self _ hp0
    rw [readingByIndex_upto cs name i (i - (period - 1)) (by omega) (by omega) hi,
        readingByIndex_upto cs name i (i - (period - 1) / 2) (by omega) (by omega) hi,
        readingByIndex_upto cs name i i h0 (le_refl i) hi]

theorem pySlice_upto {α : Type} (l : List α) (i s e : Int) (h0 : 0 ≤ i) (hi : i < l.length)
    (hs : 0 ≤ s) (he0 : 0 ≤ e) (he : e ≤ i + 1) :
    pySlice (upto l i) s e = pySlice l s e := by
  have hlen : ((upto l i).length : Int) = i + 1 := by rw [upto_length l i h0 hi]; omega
  unfold pySlice
  simp only [hlen]
  have a : ¬ s < 0 := by omega
  have b : ¬ e < 0 := by omega
  have c : ¬ e > i + 1 := by omega
  have d : ¬ e > (l.length : Int) := by omega
  simp only [a, b, c, d, if_false]
  by_cases hs1 : s > i + 1
  · have hs2 : (if s > (l.length : Int) then (l.length : Int) else s) ≥ e := by split <;> omega
    simp [hs1, hs2]; omega
  · have hs3 : ¬ s > (l.length : Int) := by omega
    simp only [hs1, hs3, if_false]
    by_cases hse : s ≥ e
    · simp [hse]
    · simp only [hse, if_false]
      unfold upto
      rw [List.drop_take]
      rw [List.take_take]
      congr 1
      omega

theorem candlesSum_upto (cs : List (Candle F)) (name : String) (length : Int) (i : Int)
    (h0 : 0 ≤ i) (hi : i < cs.length) (hl : 0 ≤ length) (hle : length ≤ i + 1) :
    candlesSum (upto cs i) name length i = candlesSum cs name length i := by
  obtain ⟨v1, v2⟩ := validIndex_upto cs i i h0 (le_refl i) hi
  have hlen : ((upto cs i).length : Int) = i + 1 := by rw [upto_length cs i h0 hi]; omega
  unfold candlesSum absIndex
  have hn : ¬ i < 0 := by omega
  simp only [v1, v2, Bool.not_true, Bool.false_eq_true, if_false, hn]
  by_cases hz : i = 0
  · simp [hz]
  · have hz' : (i == 0) = false := by simp [hz]
    simp only [hz', Bool.false_eq_true, if_false]
    have l1 : ¬ length > ((upto cs i).length : Int) := by omega
    have l2 : ¬ length > (cs.length : Int) := by omega
    simp only [l1, l2, if_false]
    rw [pySlice_upto cs i (i + 1 - length) (i + 1) h0 hi (by omega) (by omega) (le_refl _)]

namespace Ctx

/-- the context of index `i` over the truncated list -/
def trunc (x : Ctx F) : Ctx F := { x with cs := upto x.cs x.i }

theorem reading_trunc (x : Ctx F) (name : String) (j : Int) (h0 : 0 ≤ j) (hj : j ≤ x.i) :
    x.trunc.reading name (some j) = x.reading name (some j) := by
  unfold Ctx.reading trunc
  simp only [Option.getD_some]
  rw [pyIndex_upto x.cs x.i j h0 hj]

theorem reading_trunc_cur (x : Ctx F) (name : String) (h0 : 0 ≤ x.i) :
    x.trunc.reading name none = x.reading name none := by
  unfold Ctx.reading trunc
  simp only [Option.getD_none]
  rw [pyIndex_upto x.cs x.i x.i h0 (le_refl _)]

theorem prevReading_trunc (x : Ctx F) (name : String) (h0 : 0 ≤ x.i) (hi : x.i < x.cs.length) :
    x.trunc.prevReading name = x.prevReading name := by
  unfold Ctx.prevReading
  have hl : (x.trunc.cs.length == 0) = (x.cs.length == 0) := by
    have h1 : x.trunc.cs.length = (x.i + 1).toNat := upto_length x.cs x.i h0 hi
    have a : x.cs.length ≠ 0 := by omega
    have b : x.trunc.cs.length ≠ 0 := by omega
    simp [a, b]
  have hi' : x.trunc.i = x.i := rfl
  rw [hl, hi']
  by_cases hz : x.i = 0
  · simp [hz]
  · have : (x.i == 0) = false := by simp [hz]
    simp only [this, Bool.or_false]
    split
    · rfl
    · exact reading_trunc x name (x.i - 1) (by omega) (by omega)

theorem prevExists_trunc (x : Ctx F) (name : String) (h0 : 0 ≤ x.i) (hi : x.i < x.cs.length) :
    x.trunc.prevExists name = x.prevExists name := by
  unfold Ctx.prevExists; rw [prevReading_trunc x name h0 hi]

theorem readingPeriod_trunc (x : Ctx F) (period : Int) (name : String) (h0 : 0 ≤ x.i)
    (hi : x.i < x.cs.length) (hp : 1 ≤ period) :
    x.trunc.readingPeriod period name none = x.readingPeriod period name none := by
  unfold Ctx.readingPeriod trunc
  simp only [Option.getD_none]
  exact readingPeriod_upto x.cs period name x.i h0 hi hp

theorem candlesSum_trunc (x : Ctx F) (length : Int) (name : String) (h0 : 0 ≤ x.i)
    (hi : x.i < x.cs.length) (hl : 0 ≤ length) (hle : length ≤ x.i + 1) :
    x.trunc.candlesSum length name none = x.candlesSum length name none := by
  unfold Ctx.candlesSum trunc
  simp only [Option.getD_none]
  exact candlesSum_upto x.cs name length x.i h0 hi hl hle

theorem num_trunc (x : Ctx F) (name : String) (j : Int) (h0 : 0 ≤ j) (hj : j ≤ x.i) :
    x.trunc.num name (some j) = x.num name (some j) := by
  unfold Ctx.num; rw [reading_trunc x name j h0 hj]

theorem num_trunc_cur (x : Ctx F) (name : String) (h0 : 0 ≤ x.i) :
    x.trunc.num name none = x.num name none := by
  unfold Ctx.num; rw [reading_trunc_cur x name h0]

theorem prevNum_trunc (x : Ctx F) (name : String) (h0 : 0 ≤ x.i) (hi : x.i < x.cs.length) :
    x.trunc.prevNum name = x.prevNum name := by
  unfold Ctx.prevNum; rw [prevReading_trunc x name h0 hi]

end Ctx
end Hex

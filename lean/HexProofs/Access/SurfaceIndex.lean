import HexModel.Core.Surface
import HexProofs.Access.Basic
import HexProofs.Framework.Names
import HexProofs.Lib.IntInst
/-
C20 for the accessors of `HexModel/Core/Surface.lean`, part 1: Python indexing with the `None` cases
(`validate_index`, `absindex`, `valid_index`), `Indicator.read_candle`, `reading_by_index(…, None)`,
`reading_period(…, None)`.  Everything for an arbitrary float carrier `F`.
-/
namespace Hex.Surf
open Hex
set_option linter.unusedSectionVars false
variable {F : Type} [PyF F]

/-! ### Python indexing: the candle an index addresses -/

/-- the position a Python index addresses in a list of length `n` (meaningful when the index is valid) -/
def normIdx (i : Int) (n : Nat) : Nat := (if i < 0 then (n : Int) + i else i).toNat

theorem normIdx_lt (i : Int) (n : Nat) (h : validIndex i n = true) : normIdx i n < n := by
  have := (validIndex_iff i n).1 h
  unfold normIdx; split <;> omega

theorem normIdx_natCast (n m : Nat) : normIdx (n : Int) m = n := by
  unfold normIdx
  have : ¬ (n : Int) < 0 := by omega
  simp only [this, if_false]; omega

/-- **In range**: `lst[i]` succeeds exactly on `-len ≤ i < len`, and returns the element at `normIdx`. -/
theorem pyIndex_valid {α : Type} (l : List α) (i : Int) (h : validIndex i l.length = true) :
    pyIndex l i = .ok (l[normIdx i l.length]'(normIdx_lt i l.length h)) := by
  have hv := (validIndex_iff i l.length).1 h
  have hlt := normIdx_lt i l.length h
  unfold pyIndex
  have hj : ¬ (if i < 0 then (l.length : Int) + i else i) < 0 := by split <;> omega
  simp only [hj, if_false]
  show getOrIndexError l[normIdx i l.length]? = _
  rw [List.getElem?_eq_getElem hlt]; rfl

/-- **Out of range**: `IndexError`. -/
theorem pyIndex_invalid {α : Type} (l : List α) (i : Int) (h : validIndex i l.length = false) :
    pyIndex l i = .error .indexError := by
  have hv : ¬ (i < l.length ∧ -(l.length : Int) ≤ i) := by
    rw [← validIndex_iff]; simp [h]
  unfold pyIndex
  by_cases hneg : i < 0
  · have : (l.length : Int) + i < 0 := by omega
    simp [hneg, this]
  · have hge : l.length ≤ i.toNat := by omega
    simp [hneg, List.getElem?_eq_none hge, getOrIndexError]

theorem pyIndex_ok_iff {α : Type} (l : List α) (i : Int) :
    (∃ x, pyIndex l i = .ok x) ↔ (-(l.length : Int) ≤ i ∧ i < l.length) := by
  constructor
  · rintro ⟨x, hx⟩
    cases hv : validIndex i l.length with
    | true => have := (validIndex_iff i l.length).1 hv; omega
    | false => rw [pyIndex_invalid l i hv] at hx; cases hx
  · intro h
    have hv : validIndex i l.length = true := (validIndex_iff i l.length).2 ⟨h.2, h.1⟩
    exact ⟨_, pyIndex_valid l i hv⟩

/-- a non-negative index and its negative twin `i - len` address the same position -/
theorem normIdx_neg (i : Int) (n : Nat) (h0 : 0 ≤ i) (h1 : i < n) : normIdx (i - n) n = normIdx i n := by
  unfold normIdx
  have a : i - (n : Int) < 0 := by omega
  have b : ¬ i < 0 := by omega
  simp only [a, b, if_true, if_false]; congr 1; omega

/-- every member of a list is addressed by a valid non-negative index (and by its negative twin) -/
theorem mem_iff_pyIndex {α : Type} (l : List α) (x : α) :
    x ∈ l ↔ ∃ i : Int, validIndex i l.length = true ∧ pyIndex l i = .ok x := by
  constructor
  · intro hx
    obtain ⟨n, hn, rfl⟩ := List.getElem_of_mem hx
    have hv : validIndex (n : Int) l.length = true := (validIndex_iff _ _).2 ⟨by omega, by omega⟩
    refine ⟨n, hv, ?_⟩
    rw [pyIndex_valid l n hv]
    congr 1
  · rintro ⟨i, hv, hi⟩
    rw [pyIndex_valid l i hv] at hi
    cases hi
    exact List.getElem_mem _

/-! ### `utils.indexing` with the `None` cases -/

/-- `valid_index(index, length)`: `None` is never valid; an `int` is valid iff `-len ≤ i < len` -/
theorem validIndexOpt_iff (idx : Option Int) (n : Nat) :
    validIndexOpt idx n = true ↔ ∃ i, idx = some i ∧ -(n : Int) ≤ i ∧ i < n := by
  cases idx with
  | none => simp [validIndexOpt]
  | some i =>
    simp only [validIndexOpt, validIndex_iff, Option.some.injEq, exists_eq_left']
    omega

theorem validIndexOpt_none (n : Nat) : validIndexOpt none n = false := rfl

/-- `validate_index(index, length, default)`: the index (`default` for `None`), unchanged, when it is in
range; `None` otherwise -/
theorem validateIndex_eq_some_iff (idx : Option Int) (n : Nat) (dflt j : Int) :
    validateIndex idx n dflt = some j ↔ (j = idx.getD dflt ∧ -(n : Int) ≤ j ∧ j < n) := by
  unfold validateIndex
  dsimp only
  by_cases hv : validIndex (idx.getD dflt) n = true
  · have := (validIndex_iff _ _).1 hv
    simp only [hv, if_true, Option.some.injEq]
    constructor
    · intro e; subst e; exact ⟨rfl, this.2, this.1⟩
    · intro e; exact e.1.symm
  · simp only [hv, Bool.false_eq_true, if_false, reduceCtorEq, false_iff]
    rintro ⟨rfl, h1, h2⟩
    exact hv ((validIndex_iff _ _).2 ⟨h2, h1⟩)

theorem validateIndex_eq_none_iff (idx : Option Int) (n : Nat) (dflt : Int) :
    validateIndex idx n dflt = none ↔ ¬ (-(n : Int) ≤ idx.getD dflt ∧ idx.getD dflt < n) := by
  unfold validateIndex
  dsimp only
  by_cases hv : validIndex (idx.getD dflt) n = true
  · have := (validIndex_iff _ _).1 hv
    simp only [hv, if_true, reduceCtorEq, false_iff, not_not]; omega
  · simp only [hv, Bool.false_eq_true, if_false, true_iff]
    intro h; exact hv ((validIndex_iff _ _).2 ⟨h.2, h.1⟩)

/-- `validate_index` never normalises: a valid negative index stays negative -/
theorem validateIndex_isSome_iff (idx : Option Int) (n : Nat) (dflt : Int) :
    (validateIndex idx n dflt).isSome = validIndex (idx.getD dflt) n := by
  unfold validateIndex; dsimp only; split <;> simp_all

/-- `absindex(index, length)` for an `int`: in range ⇔ a result, and the result is the NORMALISED position
(`normIdx`, in `[0, len)`) -/
theorem absIndex_eq_some_iff (i : Int) (n : Nat) (j : Int) :
    absIndex i n = some j ↔ (-(n : Int) ≤ i ∧ i < n ∧ j = normIdx i n) := by
  unfold absIndex
  by_cases hv : validIndex i n = true
  · have hh := (validIndex_iff _ _).1 hv
    simp only [hv, Bool.not_true, Bool.false_eq_true, if_false]
    unfold normIdx
    split <;> simp only [Option.some.injEq] <;> omega
  · have : ¬ (i < n ∧ -(n : Int) ≤ i) := by rw [← validIndex_iff]; exact hv
    simp only [hv, Bool.not_false, if_true, reduceCtorEq, false_iff]
    omega

theorem absIndex_eq_none_iff (i : Int) (n : Nat) : absIndex i n = none ↔ ¬ (-(n : Int) ≤ i ∧ i < n) := by
  unfold absIndex
  by_cases hv : validIndex i n = true
  · have hh := (validIndex_iff _ _).1 hv
    simp only [hv, Bool.not_true, Bool.false_eq_true, if_false]
    split <;> simp only [reduceCtorEq, false_iff, not_not] <;> omega
  · have : ¬ (i < n ∧ -(n : Int) ≤ i) := by rw [← validIndex_iff]; exact hv
    simp only [hv, Bool.not_false, if_true, true_iff]
    omega

/-- `absindex(None, length) = length - 1` (also on an empty list: `-1`) -/
theorem absIndexOpt_none (n : Nat) : absIndexOpt none n = some ((n : Int) - 1) := rfl

theorem absIndexOpt_some (i : Int) (n : Nat) : absIndexOpt (some i) n = absIndex i n := rfl

/-- on a non-empty list `None` is the index `-1` -/
theorem absIndexOpt_none_eq (n : Nat) (hn : n ≠ 0) : absIndexOpt none n = absIndex (-1) n := by
  rw [absIndexOpt_none]
  symm
  rw [absIndex_eq_some_iff]
  unfold normIdx
  simp only [show (-1 : Int) < 0 by omega, if_true]
  omega

/-- on an empty list `absindex(None, 0) = -1` whereas `absindex(-1, 0)` is `None` -/
theorem absIndexOpt_none_empty : absIndexOpt none 0 = some (-1) ∧ absIndex (-1) 0 = none := by decide

/-- **Specification of `absindex`**: defined exactly on `None` and on `-len ≤ i < len`; the result addresses
the same element as the index itself. -/
theorem absIndexOpt_spec {α : Type} (l : List α) (i : Int) (j : Int) (h : absIndexOpt (some i) l.length = some j) :
    0 ≤ j ∧ j < l.length ∧ pyIndex l j = pyIndex l i := by
  rw [absIndexOpt_some, absIndex_eq_some_iff] at h
  obtain ⟨h1, h2, rfl⟩ := h
  have hv : validIndex i l.length = true := (validIndex_iff _ _).2 ⟨h2, h1⟩
  have hlt := normIdx_lt i l.length hv
  refine ⟨by omega, by omega, ?_⟩
  have hv' : validIndex (normIdx i l.length : Int) l.length = true := (validIndex_iff _ _).2 ⟨by omega, by omega⟩
  rw [pyIndex_valid l i hv, pyIndex_valid l _ hv']
  congr 1

/-! ### `Indicator.read_candle` -/

/-- `read_candle(candle, name)` IS direct inspection of that candle (whether or not it belongs to the indicator) -/
theorem readCandle_eq (s : IndState F) (c : Candle F) (name : Option String) :
    s.readCandle c name = readingByCandle c (name.getD s.tree.name) := rfl

/-- `read_candle(self.candles[i], name)` and `reading(name, i)` are the same computation, for every index
(both raise `IndexError` out of range) -/
theorem readCandleAt_eq_reading (s : IndState F) (i : Int) (name : Option String) :
    s.readCandleAt i name = s.ctx.reading (name.getD s.tree.name) (some i) := rfl

/-- in range (positive or negative) it is direct inspection of the addressed candle, which is also what the
non-raising `reading_by_index` returns -/
theorem readCandleAt_in_range (s : IndState F) (i : Int) (name : Option String)
    (hlo : -(s.mgr.candles.length : Int) ≤ i) (hhi : i < s.mgr.candles.length) :
    ∃ hlt : normIdx i s.mgr.candles.length < s.mgr.candles.length,
      s.readCandleAt i name = .ok (readingByCandle s.mgr.candles[normIdx i s.mgr.candles.length] (name.getD s.tree.name)) ∧
      s.readCandleAt i name = .ok (readingByIndex s.mgr.candles (name.getD s.tree.name) i) ∧
      s.readCandleAt i name = .ok (s.readCandle s.mgr.candles[normIdx i s.mgr.candles.length] name) := by
  have hv : validIndex i s.mgr.candles.length = true := (validIndex_iff _ _).2 ⟨hhi, hlo⟩
  refine ⟨normIdx_lt _ _ hv, ?_, ?_, ?_⟩
  · simp only [IndState.readCandleAt, pyIndex_valid _ i hv, bind, Except.bind, pure, Except.pure]; rfl
  · simp only [IndState.readCandleAt, readingByIndex, hv, if_true, pyIndex_valid _ i hv, bind, Except.bind,
      pure, Except.pure]; rfl
  · simp only [IndState.readCandleAt, pyIndex_valid _ i hv, bind, Except.bind, pure, Except.pure]

theorem readCandleAt_out_of_range (s : IndState F) (i : Int) (name : Option String)
    (h : ¬ (-(s.mgr.candles.length : Int) ≤ i ∧ i < s.mgr.candles.length)) :
    s.readCandleAt i name = .error .indexError := by
  have hv : validIndex i s.mgr.candles.length = false := by
    cases hv : validIndex i s.mgr.candles.length with
    | false => rfl
    | true => have := (validIndex_iff _ _).1 hv; exact absurd ⟨this.2, this.1⟩ h
  simp only [IndState.readCandleAt, pyIndex_invalid _ i hv, bind, Except.bind]

/-- **Positive and negative indices address the same candle** (`read_candle`). -/
theorem readCandleAt_negative_index (s : IndState F) (i : Int) (name : Option String)
    (h0 : 0 ≤ i) (h1 : i < s.mgr.candles.length) :
    s.readCandleAt (i - s.mgr.candles.length) name = s.readCandleAt i name := by
  simp only [IndState.readCandleAt, pyIndex_neg _ i h0 h1]

/-- `read_candle` on a candle OF THE LIST is what `reading` / `as_list` return at its position -/
theorem readCandle_of_mem (s : IndState F) (c : Candle F) (name : Option String) (hc : c ∈ s.mgr.candles) :
    ∃ n : Nat, s.mgr.candles[n]? = some c ∧
      s.readCandleAt n name = .ok (s.readCandle c name) ∧
      s.readCandleAt ((n : Int) - s.mgr.candles.length) name = .ok (s.readCandle c name) ∧
      s.ctx.reading (name.getD s.tree.name) (some (n : Int)) = .ok (s.readCandle c name) ∧
      (s.asList name)[n]? = some (s.readCandle c name) := by
  obtain ⟨n, hn, rfl⟩ := List.getElem_of_mem hc
  have hv : validIndex (n : Int) s.mgr.candles.length = true := (validIndex_iff _ _).2 ⟨by omega, by omega⟩
  have e : s.readCandleAt n name = .ok (s.readCandle s.mgr.candles[n] name) := by
    simp only [IndState.readCandleAt, pyIndex_valid _ _ hv, bind, Except.bind, pure, Except.pure]
    congr 1
  refine ⟨n, List.getElem?_eq_getElem hn, e, ?_, ?_, ?_⟩
  · rw [readCandleAt_negative_index s n name (by omega) (by omega)]; exact e
  · rw [← readCandleAt_eq_reading]; exact e
  · simp [IndState.asList, List.getElem?_map, List.getElem?_eq_getElem hn, IndState.readCandle]

/-! ### plain and dotted names -/

/-- the entry stored under a key: `indicators` first, then `sub_indicators` -/
def lookupEntry (c : Candle F) (key : String) : Option (Val F) :=
  match dlookup key c.inds with
  | some v => some v
  | none => dlookup key c.subs

theorem lookupKey_eq (c : Candle F) (key : String) : lookupKey c key = (lookupEntry c key).getD .none := by
  unfold lookupKey lookupEntry
  cases dlookup key c.inds <;> cases dlookup key c.subs <;> rfl

/-- a name without a dot contains no `'.'` -/
theorem noDot_not_mem (s : String) (h : NoDot s) : '.' ∉ s.toList := by
  intro hm
  obtain ⟨as, bs, hl⟩ := List.append_of_mem hm
  unfold NoDot splitDot at h
  rw [hl, List.splitOn_append_cons_self] at h
  have l1 : 0 < (List.splitOn '.' as).length := List.length_pos_iff.2 (List.splitOn_ne_nil '.' as)
  have l2 : 0 < (List.splitOn '.' bs).length := List.length_pos_iff.2 (List.splitOn_ne_nil '.' bs)
  have := congrArg List.length h
  simp only [List.length_map, List.length_append, List.length_cons, List.length_nil] at this
  omega

/-- `main.fld` splits into the two parts -/
theorem splitDot_dotted (main fld : String) (h : NoDot main) (hf : NoDot fld) :
    splitDot (main ++ "." ++ fld) = [main, fld] := by
  have hm := noDot_not_mem main h
  have hf' := noDot_not_mem fld hf
  unfold splitDot
  have e : (main ++ "." ++ fld).toList = main.toList ++ '.' :: fld.toList := by
    rw [String.toList_append, String.toList_append]
    show (main.toList ++ ['.']) ++ fld.toList = _
    simp
  rw [e, List.splitOn_append_cons_self_of_not_mem hm, List.splitOn_eq_singleton hf']
  simp

/-- **plain name** (no dot, not a candle attribute): the entry under that key, `indicators` first -/
theorem readCandle_plain (s : IndState F) (c : Candle F) (name : String) (hk : IsKey name) :
    s.readCandle c (some name) = (lookupEntry c name).getD .none := by
  rw [readCandle_eq, Option.getD_some, readingByCandle_key name hk, lookupKey_eq]

/-- **own name** (`name=None`) -/
theorem readCandle_own (s : IndState F) (c : Candle F) (hk : IsKey s.tree.name) :
    s.readCandle c none = (lookupEntry c s.tree.name).getD .none := by
  rw [readCandle_eq, Option.getD_none, readingByCandle_key _ hk, lookupKey_eq]

/-- **candle attribute** (`"close"`, `"high_low"`, …): the attribute, whatever is stored in the dicts -/
theorem readCandle_attr (s : IndState F) (c : Candle F) (name : String) (hd : NoDot name) (v : Val F)
    (ha : c.attr name = some v) : s.readCandle c (some name) = v := by
  rw [readCandle_eq, Option.getD_some, readingByCandle_attr name hd c v ha]

/-- **dotted name** `main.fld`: the field `fld` of the dict stored under `main` (a scalar stored under `main`
is returned as is; a missing entry or a missing field is `None`) -/
theorem readingByCandle_dotted (c : Candle F) (main fld : String) (hm : NoDot main) (hf : NoDot fld) :
    readingByCandle c (main ++ "." ++ fld) =
      match lookupEntry c main with
      | some r => r.nested fld
      | none => .none := by
  unfold readingByCandle lookupEntry
  rw [splitDot_dotted main fld hm hf]
  dsimp only
  cases dlookup main c.inds <;> cases dlookup main c.subs <;> rfl

theorem readCandle_dotted (s : IndState F) (c : Candle F) (main fld : String) (hm : NoDot main) (hf : NoDot fld) :
    s.readCandle c (some (main ++ "." ++ fld)) =
      match lookupEntry c main with
      | some r => r.nested fld
      | none => .none := by
  rw [readCandle_eq, Option.getD_some, readingByCandle_dotted c main fld hm hf]

/-! ### `None` indices of the module-level accessors -/

/-- `reading_by_index(candles, name, None)` is `None`; with an `int` it is the old accessor -/
theorem readingByIndexOpt_none (cs : List (Candle F)) (name : String) : readingByIndexOpt cs name none = .none := rfl
theorem readingByIndexOpt_some (cs : List (Candle F)) (name : String) (i : Int) :
    readingByIndexOpt cs name (some i) = readingByIndex cs name i := rfl

/-- `reading_by_index` is total: the reading of the addressed candle in range, `None` out of range -/
theorem readingByIndex_spec (cs : List (Candle F)) (name : String) (i : Int) :
    (∃ h : validIndex i cs.length = true,
        readingByIndex cs name i = readingByCandle (cs[normIdx i cs.length]'(normIdx_lt _ _ h)) name) ∨
    (validIndex i cs.length = false ∧ readingByIndex cs name i = .none) := by
  by_cases hv : validIndex i cs.length = true
  · left; refine ⟨hv, ?_⟩
    simp only [readingByIndex, hv, if_true, pyIndex_valid cs i hv]
  · have hv' : validIndex i cs.length = false := by simpa using hv
    right; exact ⟨hv', by simp [readingByIndex, hv']⟩

/-- `reading_period(candles, period, name, None)` is `reading_period(…, -1)`'s answer on a non-empty list
(stated with the non-negative last index, which `reading_period` needs for its `index - period < 0` test) -/
theorem readingPeriodOpt_none (cs : List (Candle F)) (period : Int) (name : String) (hne : cs ≠ []) :
    readingPeriodOpt cs period name none = readingPeriod cs period name ((cs.length : Int) - 1) := by
  have hl : 0 < cs.length := List.length_pos_iff.2 hne
  have hv : validIndex ((cs.length : Int) - 1) cs.length = true := (validIndex_iff _ _).2 ⟨by omega, by omega⟩
  simp only [readingPeriodOpt, readingPeriod, hv, Bool.not_true, Bool.false_eq_true, if_false]

theorem readingPeriodOpt_some (cs : List (Candle F)) (period : Int) (name : String) (i : Int) :
    readingPeriodOpt cs period name (some i) = readingPeriod cs period name i := rfl

/-- on an empty list `reading_period(…, None)` is `False` for every `period ≥ 1` (the look-back test answers) -/
theorem readingPeriodOpt_none_empty (period : Int) (name : String) (hp : 1 ≤ period) :
    readingPeriodOpt ([] : List (Candle F)) period name none = false := by
  have : (([] : List (Candle F)).length : Int) - 1 - (period - 1) < 0 := by
    simp only [List.length_nil]; omega
  simp only [readingPeriodOpt, this, if_true]

end Hex.Surf

#print axioms Hex.Surf.pyIndex_ok_iff
#print axioms Hex.Surf.validIndexOpt_iff
#print axioms Hex.Surf.validateIndex_eq_some_iff
#print axioms Hex.Surf.validateIndex_eq_none_iff
#print axioms Hex.Surf.absIndex_eq_some_iff
#print axioms Hex.Surf.absIndex_eq_none_iff
#print axioms Hex.Surf.absIndexOpt_none_eq
#print axioms Hex.Surf.absIndexOpt_spec
#print axioms Hex.Surf.readCandleAt_eq_reading
#print axioms Hex.Surf.readCandleAt_in_range
#print axioms Hex.Surf.readCandleAt_out_of_range
#print axioms Hex.Surf.readCandleAt_negative_index
#print axioms Hex.Surf.readCandle_of_mem
#print axioms Hex.Surf.readCandle_plain
#print axioms Hex.Surf.readCandle_own
#print axioms Hex.Surf.readCandle_attr
#print axioms Hex.Surf.readCandle_dotted
#print axioms Hex.Surf.readingByIndex_spec
#print axioms Hex.Surf.readingPeriodOpt_none

import HexProofs.Access.SurfaceIndex
import HexProofs.Writes.Objects
/-
C20 for the accessors of `HexModel/Core/Surface.lean`, part 2: `Hexital.indicator`, the exact relation between
`Hexital.reading` / `reading_as_list` and the accessors of the member object, `Hexital.reading(name, None)`.
-/
namespace Hex.Surf
open Hex
set_option linter.unusedSectionVars false
variable {F : Type} [PyF F]

/-! ### `Hexital.indicator` -/

theorem manager_ok_iff (h : Hexital F) (k : String) (m : Manager F) :
    h.manager k = .ok m ↔ dlookup k h.managers = some m := by
  unfold Hexital.manager
  cases dlookup k h.managers <;> simp

theorem manager_error_iff (h : Hexital F) (k : String) (e : PyErr) :
    h.manager k = .error e ↔ (dlookup k h.managers = none ∧ e = .keyError) := by
  unfold Hexital.manager
  cases dlookup k h.managers <;> simp [eq_comm]

/-- **`Hexital.indicator(name)`** returns the registered member: its tree, its `_active_index`, over the
candles of ITS manager (the one registered under the member's timeframe key). -/
theorem indicator_ok (h : Hexital F) (name : String) (hi : HxInd F) (m : Manager F)
    (hl : dlookup name h.indicators = some hi) (hm : dlookup hi.mgrKey h.managers = some m) :
    h.indicator name = .ok { tree := hi.tree, mgr := m, active := hi.active } := by
  simp only [Hexital.indicator, hl, (manager_ok_iff h _ m).2 hm, bind, Except.bind, pure, Except.pure]

theorem indicator_inv (h : Hexital F) (name : String) (s : IndState F) (hs : h.indicator name = .ok s) :
    ∃ hi, dlookup name h.indicators = some hi ∧ dlookup hi.mgrKey h.managers = some s.mgr ∧
      s.tree = hi.tree ∧ s.active = hi.active := by
  unfold Hexital.indicator at hs
  cases hl : dlookup name h.indicators with
  | none => rw [hl] at hs; cases hs
  | some hi =>
    rw [hl] at hs
    dsimp only at hs
    obtain ⟨m, hm, hs⟩ := Writes.bind_ok hs
    cases hs
    exact ⟨hi, rfl, (manager_ok_iff h _ m).1 hm, rfl, rfl⟩

/-- an unknown name is a `KeyError`; nothing else can go wrong but a dangling manager key -/
theorem indicator_error_iff (h : Hexital F) (name : String) (e : PyErr) :
    h.indicator name = .error e ↔
      (e = .keyError ∧ (dlookup name h.indicators = none ∨
        ∃ hi, dlookup name h.indicators = some hi ∧ dlookup hi.mgrKey h.managers = none)) := by
  unfold Hexital.indicator
  cases hl : dlookup name h.indicators with
  | none => simp [eq_comm]
  | some hi =>
    dsimp only
    cases hm : dlookup hi.mgrKey h.managers with
    | none =>
      have : h.manager hi.mgrKey = .error .keyError := (manager_error_iff h _ _).2 ⟨hm, rfl⟩
      simp [this, bind, Except.bind, hm, eq_comm]
    | some m =>
      simp [(manager_ok_iff h _ m).2 hm, bind, Except.bind, pure, Except.pure, hm]

/-- the object `Hexital.indicator(name)` hands out is the very object every per-member operation of the Hexital
(`calculate`, `purge`, `calculate_index`, … – all `withInd`) runs on -/
theorem withInd_eq_indicator (h : Hexital F) (name : String) (f : IndState F → PyM (IndState F)) (hi : HxInd F)
    (hl : dlookup name h.indicators = some hi) :
    h.withInd name f = (do
      let s ← h.indicator name
      let s' ← f s
      return { (h.setManager hi.mgrKey s'.mgr) with
               indicators := dset name { hi with active := s'.active } h.indicators }) := by
  simp only [Hexital.withInd, Hexital.indicator, hl]
  cases h.manager hi.mgrKey <;> rfl

/-! ### every accessor on the member object equals the `Hexital.…` accessor -/

/-- **`Hexital.reading_as_list(name)`** is `as_list(name)` of the member registered under the part of `name`
before the dot -/
theorem readingAsList_eq_indicator (h : Hexital F) (name : String) (s : IndState F)
    (hs : h.indicator ((splitDot name).headD "") = .ok s) :
    h.readingAsList name = .ok (s.asList (some name)) := by
  obtain ⟨hi, hl, hm, _, _⟩ := indicator_inv h _ s hs
  simp only [Hexital.readingAsList, hl, (manager_ok_iff h _ _).2 hm, bind, Except.bind, pure, Except.pure]
  rfl

/-- … for the member's own (dot-free) name that is `Hexital.indicator(name).as_list(name)` -/
theorem readingAsList_own (h : Hexital F) (name : String) (hd : NoDot name) (s : IndState F)
    (hs : h.indicator name = .ok s) : h.readingAsList name = .ok (s.asList (some name)) := by
  apply readingAsList_eq_indicator
  have : (splitDot name).headD "" = name := by rw [hd]; rfl
  rw [this]; exact hs

/-- … and for a dotted name `main.fld` it is `Hexital.indicator(main).as_list("main.fld")` -/
theorem readingAsList_dotted (h : Hexital F) (main fld : String) (hm : NoDot main) (hf : NoDot fld)
    (s : IndState F) (hs : h.indicator main = .ok s) :
    h.readingAsList (main ++ "." ++ fld) = .ok (s.asList (some (main ++ "." ++ fld))) := by
  apply readingAsList_eq_indicator
  rw [splitDot_dotted main fld hm hf]; exact hs

/-- an unregistered primary name: the empty list (not an error) -/
theorem readingAsList_unknown (h : Hexital F) (name : String)
    (hl : dlookup ((splitDot name).headD "") h.indicators = none) : h.readingAsList name = .ok [] := by
  simp only [Hexital.readingAsList, hl]

/-- position by position, `Hexital.reading_as_list` is `read_candle` of the member on its own candles -/
theorem readingAsList_getElem (h : Hexital F) (name : String) (s : IndState F)
    (hs : h.indicator ((splitDot name).headD "") = .ok s) (n : Nat) (c : Candle F)
    (hc : s.mgr.candles[n]? = some c) :
    ∃ l, h.readingAsList name = .ok l ∧ l[n]? = some (s.readCandle c (some name)) ∧
      s.readCandleAt n (some name) = .ok (s.readCandle c (some name)) := by
  refine ⟨_, readingAsList_eq_indicator h name s hs, ?_, ?_⟩
  · simp [IndState.asList, List.getElem?_map, hc, IndState.readCandle]
  · have hn : n < s.mgr.candles.length := by
      rcases Nat.lt_or_ge n s.mgr.candles.length with h' | h'
      · exact h'
      · rw [List.getElem?_eq_none h'] at hc; cases hc
    have hv : validIndex (n : Int) s.mgr.candles.length = true := (validIndex_iff _ _).2 ⟨by omega, by omega⟩
    simp only [IndState.readCandleAt, pyIndex_valid _ _ hv, bind, Except.bind, pure, Except.pure]
    have : s.mgr.candles[normIdx (n : Int) s.mgr.candles.length]'(normIdx_lt _ _ hv) = c := by
      have e : normIdx (n : Int) s.mgr.candles.length = n := normIdx_natCast _ _
      have := List.getElem?_eq_getElem hn
      rw [hc] at this
      simp only [e]; exact (Option.some.inj this).symm
    rw [this]

/-! ### `Hexital.reading`: the exact rule -/

/-- the first value that is not `None` (`None` when there is none) -/
def firstReading : List (Val F) → Val F
  | [] => .none
  | v :: r => if !v.isNone then v else firstReading r

omit [PyF F] in
theorem isNone_iff (v : Val F) : v.isNone = true ↔ v = .none := by
  cases v with
  | s x => cases x <;> simp [Val.isNone]
  | dict d => simp [Val.isNone]

omit [PyF F] in
theorem firstReading_isNone_iff (l : List (Val F)) :
    (firstReading l).isNone = true ↔ ∀ v ∈ l, v.isNone = true := by
  induction l with
  | nil => simp [firstReading, Val.isNone]
  | cons v r ih =>
    unfold firstReading
    cases hv : v.isNone <;> simp [hv, ih]

omit [PyF F] in
theorem firstReading_mem (l : List (Val F)) (h : (firstReading l).isNone = false) : firstReading l ∈ l := by
  induction l with
  | nil => simp [firstReading, Val.isNone] at h
  | cons v r ih =>
    unfold firstReading at h ⊢
    cases hv : v.isNone
    · simp
    · simp only [hv, Bool.not_true, Bool.false_eq_true, if_false] at h ⊢
      exact List.mem_cons_of_mem _ (ih h)

omit [PyF F] in
/-- if every value is `None` or `r`, and `r` occurs, the first non-`None` value is `r` -/
theorem firstReading_unique (l : List (Val F)) (r : Val F) (hall : ∀ v ∈ l, v.isNone = true ∨ v = r)
    (hr : r ∈ l) : firstReading l = r := by
  cases hn : (firstReading l).isNone with
  | false =>
    rcases hall _ (firstReading_mem l hn) with h1 | h1
    · rw [hn] at h1; cases h1
    · exact h1
  | true =>
    have := (firstReading_isNone_iff l).1 hn r hr
    rw [(isNone_iff _).1 hn, (isNone_iff _).1 this]

omit [PyF F] in
theorem firstReading_head (v : Val F) (r : List (Val F)) (hv : v.isNone = false) : firstReading (v :: r) = v := by
  simp [firstReading, hv]

/-- the `for … in self._candles.values()` loop of `Hexital.reading` -/
theorem reading_loop (ms : List (String × Manager F)) (name : String) (i : Int) :
    (forIn (m := PyM) ms ((none : Option (Val F)), ()) fun x _ =>
        if (!(readingByIndex x.2.candles name i).isNone) = true then
          Except.ok (ForInStep.done (some (readingByIndex x.2.candles name i), ()))
        else Except.ok (ForInStep.yield (none, ())))
      = .ok (if (firstReading (ms.map fun p => readingByIndex p.2.candles name i)).isNone
              then (none, ()) else (some (firstReading (ms.map fun p => readingByIndex p.2.candles name i)), ())) := by
  induction ms with
  | nil => simp [firstReading, Val.isNone, pure, Except.pure]
  | cons p r ih =>
    rw [List.forIn_cons]
    cases hv : (readingByIndex p.2.candles name i).isNone with
    | false =>
      simp only [hv, Bool.not_false, if_true, bind, Except.bind, pure, Except.pure, List.map_cons,
        firstReading_head _ _ hv, Bool.false_eq_true, if_false]
    | true =>
      simp only [Bool.not_true, Bool.false_eq_true, if_false, bind, Except.bind, List.map_cons]
      rw [ih]
      simp only [firstReading, hv, Bool.not_true, Bool.false_eq_true, if_false]

/-- **`Hexital.reading(name, index)`, the exact rule**: the first reading that is not `None` among the default
manager's and then every manager's (in registration order, the default one again first) `reading_by_index`;
`None` when every manager answers `None` (an index out of range for a manager counts as `None` there). -/
theorem hexital_reading_spec (h : Hexital F) (name : String) (i : Int) (dm : Manager F)
    (hd : h.manager defaultKey = .ok dm) :
    h.reading name i = .ok (firstReading
      ((dm :: h.managers.map (·.2)).map fun m => readingByIndex m.candles name i)) := by
  unfold Hexital.reading
  simp only [hd, bind, Except.bind, pure, Except.pure]
  rw [reading_loop]
  simp only [List.map_cons, List.map_map]
  cases hv : (readingByIndex dm.candles name i).isNone with
  | false => simp only [Bool.not_false, if_true, firstReading_head _ _ hv]
  | true =>
    simp only [Bool.not_true, Bool.false_eq_true, if_false, firstReading, hv]
    have e : (List.map ((fun m => readingByIndex m.candles name i) ∘ fun x : String × Manager F => x.2) h.managers)
        = List.map (fun p => readingByIndex p.2.candles name i) h.managers := rfl
    rw [e]
    cases hf : (firstReading (List.map (fun p : String × Manager F => readingByIndex p.2.candles name i) h.managers)).isNone with
    | false => rfl
    | true => simp only [if_true]; rw [(isNone_iff _).1 hf]

/-- without a default manager `Hexital.reading` is a `KeyError` -/
theorem hexital_reading_no_default (h : Hexital F) (name : String) (i : Int)
    (hd : dlookup defaultKey h.managers = none) : h.reading name i = .error .keyError := by
  unfold Hexital.reading
  simp only [(manager_error_iff h _ _).2 ⟨hd, rfl⟩, bind, Except.bind]

/-- the answer of `Hexital.reading` is `None` exactly when every manager's `reading_by_index` is -/
theorem hexital_reading_none_iff (h : Hexital F) (name : String) (i : Int) (dm : Manager F)
    (hd : h.manager defaultKey = .ok dm) :
    h.reading name i = .ok .none ↔ ∀ p ∈ h.managers, (readingByIndex p.2.candles name i).isNone = true := by
  have hdm : (defaultKey, dm) ∈ h.managers := Writes.dlookup_mem ((manager_ok_iff h _ _).1 hd)
  rw [hexital_reading_spec h name i dm hd]
  constructor
  · intro e
    have e' := Except.ok.inj e
    have hn := (firstReading_isNone_iff _).1 ((isNone_iff _).2 e')
    intro p hp
    exact hn _ (List.mem_map.2 ⟨p.2, List.mem_cons_of_mem _ (List.mem_map.2 ⟨p, hp, rfl⟩), rfl⟩)
  · intro hall
    congr 1
    apply (isNone_iff _).1
    apply (firstReading_isNone_iff _).2
    intro v hv
    obtain ⟨m, hm, rfl⟩ := List.mem_map.1 hv
    rcases List.mem_cons.1 hm with rfl | hm
    · exact hall _ hdm
    · obtain ⟨p, hp, rfl⟩ := List.mem_map.1 hm
      exact hall p hp

/-- a non-`None` answer is the `reading_by_index` of SOME registered manager -/
theorem hexital_reading_from_some_manager (h : Hexital F) (name : String) (i : Int) (v : Val F)
    (hr : h.reading name i = .ok v) (hv : v.isNone = false) :
    ∃ p ∈ h.managers, v = readingByIndex p.2.candles name i := by
  cases hd : h.manager defaultKey with
  | error e => unfold Hexital.reading at hr; simp [hd, bind, Except.bind] at hr
  | ok dm =>
    have hdm : (defaultKey, dm) ∈ h.managers := Writes.dlookup_mem ((manager_ok_iff h _ _).1 hd)
    rw [hexital_reading_spec h name i dm hd] at hr
    cases hr
    obtain ⟨m, hm, e⟩ := List.mem_map.1 (firstReading_mem _ hv)
    rcases List.mem_cons.1 hm with rfl | hm
    · exact ⟨_, hdm, e.symm⟩
    · obtain ⟨p, hp, rfl⟩ := List.mem_map.1 hm
      exact ⟨p, hp, e.symm⟩

/-- **The precise relation between `Hexital.reading(name, i)` and `Hexital.indicator(nm)`'s readings.**
Let `s` be the member object.  If every manager of the Hexital answers either `None` or the same value as the
member's own manager for `(name, i)` – in particular when `name` is stored on the member's manager only – then
`Hexital.reading(name, i)` is `reading_by_index` over the member's candles: the member's `reading(name, i)` /
`read_candle(candles[i], name)` in range, `None` out of range (where the member object raises `IndexError`). -/
theorem hexital_reading_eq_indicator (h : Hexital F) (nm name : String) (i : Int) (s : IndState F)
    (hs : h.indicator nm = .ok s) (dm : Manager F) (hd : h.manager defaultKey = .ok dm)
    (hall : ∀ p ∈ h.managers, (readingByIndex p.2.candles name i).isNone = true ∨
        readingByIndex p.2.candles name i = readingByIndex s.mgr.candles name i) :
    h.reading name i = .ok (readingByIndex s.mgr.candles name i) ∧
    (-(s.mgr.candles.length : Int) ≤ i → i < s.mgr.candles.length →
      h.reading name i = s.readCandleAt i (some name) ∧ h.reading name i = s.ctx.reading name (some i)) := by
  obtain ⟨hi, _, hm, _, _⟩ := indicator_inv h nm s hs
  have hsm : (hi.mgrKey, s.mgr) ∈ h.managers := Writes.dlookup_mem hm
  have hdm : (defaultKey, dm) ∈ h.managers := Writes.dlookup_mem ((manager_ok_iff h _ _).1 hd)
  have main : h.reading name i = .ok (readingByIndex s.mgr.candles name i) := by
    rw [hexital_reading_spec h name i dm hd]
    congr 1
    apply firstReading_unique
    · intro v hv
      obtain ⟨m, hm', rfl⟩ := List.mem_map.1 hv
      rcases List.mem_cons.1 hm' with rfl | hm'
      · exact hall _ hdm
      · obtain ⟨p, hp, rfl⟩ := List.mem_map.1 hm'
        exact hall p hp
    · exact List.mem_map.2 ⟨s.mgr, List.mem_cons_of_mem _ (List.mem_map.2 ⟨_, hsm, rfl⟩), rfl⟩
  refine ⟨main, fun hlo hhi => ?_⟩
  obtain ⟨_, _, e2, _⟩ := readCandleAt_in_range s i (some name) hlo hhi
  rw [Option.getD_some] at e2
  refine ⟨by rw [main, e2], ?_⟩
  rw [main, ← e2]; rfl

/-- **The "prefers the default manager" rule, member form**: a member ON the default manager whose reading at
`i` is not `None` is what `Hexital.reading` returns, whatever the other managers hold. -/
theorem hexital_reading_default_member (h : Hexital F) (nm name : String) (i : Int) (s : IndState F)
    (hs : h.indicator nm = .ok s) (hi : HxInd F) (hl : dlookup nm h.indicators = some hi)
    (hk : hi.mgrKey = defaultKey) (hv : (readingByIndex s.mgr.candles name i).isNone = false) :
    h.reading name i = .ok (readingByIndex s.mgr.candles name i) := by
  obtain ⟨hi', hl', hm, _, _⟩ := indicator_inv h nm s hs
  rw [hl] at hl'; cases hl'
  rw [hk] at hm
  rw [hexital_reading_spec h name i s.mgr ((manager_ok_iff h _ _).2 hm)]
  simp only [List.map_cons, firstReading_head _ _ hv]

/-- **`has_reading` (Hexital)** in terms of the member object: under the hypothesis of
`hexital_reading_eq_indicator` it says whether the member's LATEST candle carries a reading -/
theorem hexital_hasReading_eq_indicator (h : Hexital F) (nm name : String) (s : IndState F)
    (hs : h.indicator nm = .ok s) (dm : Manager F) (hd : h.manager defaultKey = .ok dm)
    (hall : ∀ p ∈ h.managers, (readingByIndex p.2.candles name (-1)).isNone = true ∨
        readingByIndex p.2.candles name (-1) = readingByIndex s.mgr.candles name (-1)) :
    h.hasReading name = .ok (!(readingByIndex s.mgr.candles name (-1)).isNone) := by
  simp only [Hexital.hasReading, (hexital_reading_eq_indicator h nm name (-1) s hs dm hd hall).1, bind,
    Except.bind, pure, Except.pure]

/-! ### `Hexital.reading(name, None)` -/

/-- **`Hexital.reading(name, None)` is `None`** (`valid_index(None, …)` is false for every manager) – it is NOT
the latest reading.  (`Indicator.reading(name, None)` on the member object, by contrast, reads the candle at the
active index: `Ctx.reading name none`.) -/
theorem readingOpt_none (h : Hexital F) (name : String) (dm : Manager F) (hd : h.manager defaultKey = .ok dm) :
    h.readingOpt name none = .ok .none := by
  simp only [Hexital.readingOpt, hd, bind, Except.bind, pure, Except.pure]

theorem readingOpt_some (h : Hexital F) (name : String) (i : Int) : h.readingOpt name (some i) = h.reading name i := rfl

/-- consequently `reading(name, None) = reading(name, -1)` holds exactly when the latest reading is `None`
on every manager -/
theorem readingOpt_none_eq_last_iff (h : Hexital F) (name : String) (dm : Manager F)
    (hd : h.manager defaultKey = .ok dm) :
    h.readingOpt name none = h.reading name (-1) ↔
      ∀ p ∈ h.managers, (readingByIndex p.2.candles name (-1)).isNone = true := by
  rw [readingOpt_none h name dm hd, ← hexital_reading_none_iff h name (-1) dm hd]
  exact eq_comm

end Hex.Surf

#print axioms Hex.Surf.indicator_ok
#print axioms Hex.Surf.indicator_inv
#print axioms Hex.Surf.indicator_error_iff
#print axioms Hex.Surf.withInd_eq_indicator
#print axioms Hex.Surf.readingAsList_eq_indicator
#print axioms Hex.Surf.readingAsList_getElem
#print axioms Hex.Surf.hexital_reading_spec
#print axioms Hex.Surf.hexital_reading_none_iff
#print axioms Hex.Surf.hexital_reading_from_some_manager
#print axioms Hex.Surf.hexital_reading_eq_indicator
#print axioms Hex.Surf.hexital_reading_default_member
#print axioms Hex.Surf.hexital_hasReading_eq_indicator
#print axioms Hex.Surf.readingOpt_none
#print axioms Hex.Surf.readingOpt_none_eq_last_iff
